(* C01 — the only wall-clock dependent value in a font: head.created / head.modified
   (fontbe/src/head.rs current_timestamp + seconds_since_mac_epoch). *)
From Coq Require Import ZArith.
Open Scope Z_scope.

(* seconds between 1904-01-01 and 1970-01-01 *)
Definition mac_epoch_offset : Z := 2082844800.

(* SOURCE_DATE_EPOCH parsed to a valid timestamp (Some e), otherwise the current time *)
Definition head_timestamp (source_date_epoch : option Z) (now : Z) : Z :=
  match source_date_epoch with
  | Some e => e + mac_epoch_offset
  | None => now + mac_epoch_offset
  end.
