(* C01 — the only wall-clock dependent value in a font: head.created / head.modified
   (fontbe/src/head.rs current_timestamp + seconds_since_mac_epoch). *)
From Coq Require Import ZArith.
Open Scope Z_scope.

(* seconds between 1904-01-01 and 1970-01-01 *)
Definition mac_epoch_offset : Z := 2082844800.

(* SOURCE_DATE_EPOCH parsed to a valid timestamp (Some e), otherwise the current time *)
Definition head_timestamp (source_date_epoch : option Z) (now : Z) : Z :=
  match source_date_epoch with
  | Some e => e + mac_epoch_offset
  | None => now + mac_epoch_offset
  end.

(* ---- name records: fontbe/src/name.rs collects StaticMetadata.names (a HashMap) into a Vec and sorts it
   (NameRecord's derived Ord: platform, encoding, language, name id; keys of a map are distinct), or merges it with the
   FEA name table through a BTreeMap on the same key.  The model: insertion sort on the key. *)
From Coq Require Import List NArith Bool.
Import ListNotations.

Fixpoint insert_by {A : Type} (leb : A -> A -> bool) (x : A) (l : list A) : list A :=
  match l with
  | [] => [x]
  | y :: t => if leb x y then x :: l else y :: insert_by leb x t
  end.
Definition isort_by {A : Type} (leb : A -> A -> bool) (l : list A) : list A := fold_right (insert_by leb) [] l.

(* platform id, encoding id, language id, name id *)
Definition name_key : Type := (N * N * N * N)%type.
Definition key_leb (a b : name_key) : bool :=
  match a, b with
  | (p1, e1, l1, n1), (p2, e2, l2, n2) =>
    if N.ltb p1 p2 then true else if N.ltb p2 p1 then false else
    if N.ltb e1 e2 then true else if N.ltb e2 e1 then false else
    if N.ltb l1 l2 then true else if N.ltb l2 l1 then false else N.leb n1 n2
  end.
Definition sort_keys (l : list name_key) : list name_key := isort_by key_leb l.

Definition key_eqb (a b : name_key) : bool :=
  match a, b with
  | (p1, e1, l1, n1), (p2, e2, l2, n2) => N.eqb p1 p2 && N.eqb e1 e2 && N.eqb l1 l2 && N.eqb n1 n2
  end.
Fixpoint keys_eqb (l1 l2 : list name_key) : bool :=
  match l1, l2 with
  | [], [] => true
  | a :: t1, b :: t2 => key_eqb a b && keys_eqb t1 t2
  | _, _ => false
  end.
(* the correspondence predicate: the records of a compiled font, handed to the model in another order (reversed, and
   rotated by one), come out of the model's sort exactly as the font has them *)
Definition name_order_ok (keys : list name_key) : bool :=
  keys_eqb (sort_keys (rev keys)) keys && keys_eqb (sort_keys (tl keys ++ firstn 1 keys)) keys.

(* ---- table directory: fontbe/src/font.rs adds the tables in the order of TABLES_TO_MERGE, then Debg and any
   passthrough tables; write-fonts' FontBuilder keeps them in a BTreeMap keyed by tag, so the directory of the file is
   the sort of the tags (as big-endian u32) whatever order they were added in. *)
Fixpoint ns_eqb (l1 l2 : list N) : bool :=
  match l1, l2 with
  | [], [] => true
  | a :: t1, b :: t2 => N.eqb a b && ns_eqb t1 t2
  | _, _ => false
  end.
Definition sort_tags (l : list N) : list N := isort_by N.leb l.
Definition dir_order_ok (tags : list N) : bool :=
  ns_eqb (sort_tags (rev tags)) tags && ns_eqb (sort_tags (tl tags ++ firstn 1 tags)) tags.

(* ---- batch interpolation of missing glyph instances (fontir/src/glyph.rs batch_interpolate_missing, issue 1873):
   every missing location is interpolated from the ORIGINAL source set, then all are inserted.  `interp` stands for
   instantiate_instance (a function of the source set and the location); `incremental` is the order-sensitive variant the
   code avoids (interpolate from the set as it grows). *)
Section Batch.
  Variables (L V : Type) (leqb : L -> L -> bool) (interp : list (L * V) -> L -> V).
  Fixpoint lookup (m : list (L * V)) (k : L) : option V :=
    match m with
    | [] => None
    | (k', v) :: t => if leqb k' k then Some v else lookup t k
    end.
  Definition batch (m : list (L * V)) (locs : list L) : list (L * V) :=
    fold_left (fun acc l => match lookup m l with Some _ => acc | None => (l, interp m l) :: acc end) locs m.
  Definition incremental (m : list (L * V)) (locs : list L) : list (L * V) :=
    fold_left (fun acc l => match lookup acc l with Some _ => acc | None => (l, interp acc l) :: acc end) locs m.
End Batch.
