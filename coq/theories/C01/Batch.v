(* C01 — batch interpolation is independent of the order in which the missing locations are visited (they come out of
   a HashSet); the incremental variant is not. *)
From Coq Require Import List Bool NArith Sorting.Permutation.
From FV.C01 Require Import Model.
Import ListNotations.

Section BatchProofs.
  Variables (L V : Type) (leqb : L -> L -> bool) (interp : list (L * V) -> L -> V).
  Hypothesis leqb_eq : forall a b, leqb a b = true <-> a = b.

  Definition is_none (o : option V) : bool := match o with None => true | Some _ => false end.

  Lemma batch_fold_spec m : forall locs acc k,
    lookup L V leqb (fold_left (fun acc l => match lookup L V leqb m l with Some _ => acc | None => (l, interp m l) :: acc end) locs acc) k
    = if existsb (fun l => leqb l k) locs && is_none (lookup L V leqb m k) then Some (interp m k) else lookup L V leqb acc k.
  Proof.
    induction locs as [|l t IH]; intros acc k; cbn [fold_left existsb]; [reflexivity|].
    rewrite IH. destruct (leqb l k) eqn:E.
    - apply leqb_eq in E. subst l. cbn [orb]. destruct (lookup L V leqb m k) eqn:Hm; cbn [is_none].
      + rewrite !andb_false_r. reflexivity.
      + rewrite !andb_true_r. destruct (existsb _ t); [reflexivity|].
        cbn [lookup]. assert (Ek : leqb k k = true) by (apply leqb_eq; reflexivity). rewrite Ek. reflexivity.
    - cbn [orb]. destruct (existsb _ t && is_none (lookup L V leqb m k)); [reflexivity|].
      destruct (lookup L V leqb m l); [reflexivity|]. cbn [lookup]. rewrite E. reflexivity.
  Qed.

  (* what a lookup in the batch result returns: an original source if there is one, else the value interpolated from
     the original set if the location was requested, else nothing *)
  Theorem batch_spec m locs k :
    lookup L V leqb (batch L V leqb interp m locs) k
    = match lookup L V leqb m k with
      | Some v => Some v
      | None => if existsb (fun l => leqb l k) locs then Some (interp m k) else None
      end.
  Proof.
    unfold batch. rewrite batch_fold_spec. destruct (lookup L V leqb m k); cbn [is_none].
    - rewrite andb_false_r. reflexivity.
    - rewrite andb_true_r. reflexivity.
  Qed.

  Lemma existsb_perm (f : L -> bool) l l' : Permutation l l' -> existsb f l = existsb f l'.
  Proof.
    induction 1 as [|x l l' _ IH|x y l|l l' l'' _ IH1 _ IH2]; cbn.
    - reflexivity.
    - rewrite IH. reflexivity.
    - destruct (f x), (f y); reflexivity.
    - congruence.
  Qed.

  Theorem batch_order_independent m locs locs' : Permutation locs locs' ->
    forall k, lookup L V leqb (batch L V leqb interp m locs) k = lookup L V leqb (batch L V leqb interp m locs') k.
  Proof. intros HP k. rewrite !batch_spec. rewrite (existsb_perm _ _ _ HP). reflexivity. Qed.
End BatchProofs.

(* the variant the code avoids does depend on the visiting order: an interpolation that looks at the whole source set
   (here: its size) sees the instances inserted before it *)
Theorem incremental_depends_on_order :
  exists (interp : list (N * N) -> N -> N) m locs locs' k,
    Permutation locs locs'
    /\ lookup N N N.eqb (incremental N N N.eqb interp m locs) k <> lookup N N N.eqb (incremental N N N.eqb interp m locs') k.
Proof.
  exists (fun m _ => N.of_nat (length m)), [(0, 0)]%N, [1; 2]%N, [2; 1]%N, 1%N. split; [apply perm_swap|].
  vm_compute. discriminate.
Qed.
