(* C01 — "sorted before it reaches bytes": a sort by a total order erases the iteration order of the hash map the
   elements were collected from.  Generic statement, then the name-record instance (fontbe/src/name.rs). *)
From Coq Require Import List Bool NArith Lia Sorting.Permutation.
From FV.C01 Require Import Model.
Import ListNotations.

Section Sort.
  Variable A : Type.
  Variable leb : A -> A -> bool.
  Hypothesis leb_total : forall a b, leb a b = true \/ leb b a = true.
  Hypothesis leb_trans : forall a b c, leb a b = true -> leb b c = true -> leb a c = true.
  Hypothesis leb_antisym : forall a b, leb a b = true -> leb b a = true -> a = b.

  Inductive sorted : list A -> Prop :=
  | sorted_nil : sorted []
  | sorted_cons x l : Forall (fun y => leb x y = true) l -> sorted l -> sorted (x :: l).

  Lemma insert_perm x l : Permutation (x :: l) (insert_by leb x l).
  Proof.
    induction l as [|y t IH]; cbn; [apply Permutation_refl|].
    destruct (leb x y); [apply Permutation_refl|].
    eapply perm_trans; [apply perm_swap|]. apply perm_skip. exact IH.
  Qed.

  Lemma isort_perm l : Permutation l (isort_by leb l).
  Proof.
    induction l as [|x t IH]; cbn; [constructor|].
    eapply perm_trans; [apply perm_skip; exact IH|]. apply insert_perm.
  Qed.

  Lemma insert_sorted x l : sorted l -> sorted (insert_by leb x l).
  Proof.
    induction 1 as [|y t Hall Hs IH]; cbn.
    - constructor; constructor.
    - destruct (leb x y) eqn:E.
      + constructor; [|constructor; assumption]. constructor; [exact E|].
        eapply Forall_impl; [|exact Hall]. intros z Hz. cbn in Hz. eapply leb_trans; eassumption.
      + constructor; [|exact IH].
        assert (Hyx : leb y x = true) by (destruct (leb_total x y) as [H|H]; [congruence|exact H]).
        rewrite Forall_forall in *. intros z Hz.
        apply Permutation_in with (l' := x :: t) in Hz; [|apply Permutation_sym, insert_perm].
        destruct Hz as [<-|Hz]; [exact Hyx|apply Hall; exact Hz].
  Qed.

  Lemma isort_sorted l : sorted (isort_by leb l).
  Proof. induction l as [|x t IH]; cbn; [constructor|apply insert_sorted; exact IH]. Qed.

  Lemma sorted_perm_eq l1 : forall l2, sorted l1 -> sorted l2 -> Permutation l1 l2 -> l1 = l2.
  Proof.
    induction l1 as [|a t1 IH]; intros l2 H1 H2 HP.
    - apply Permutation_nil in HP. symmetry; exact HP.
    - destruct l2 as [|b t2]; [apply Permutation_sym, Permutation_nil in HP; discriminate|].
      inversion H1 as [|? ? Ha Hs1]; subst. inversion H2 as [|? ? Hb Hs2]; subst.
      assert (Hab : a = b).
      { assert (Hi : In a (b :: t2)) by (eapply Permutation_in; [exact HP|left; reflexivity]).
        assert (Hj : In b (a :: t1)) by (eapply Permutation_in; [apply Permutation_sym; exact HP|left; reflexivity]).
        destruct Hi as [Hi|Hi]; [symmetry; exact Hi|]. destruct Hj as [Hj|Hj]; [exact Hj|].
        rewrite Forall_forall in Ha, Hb. apply leb_antisym; [apply Ha; exact Hj|apply Hb; exact Hi]. }
      subst b. f_equal. apply IH; try assumption. eapply Permutation_cons_inv; exact HP.
  Qed.

  (* the order in which the elements arrive does not matter *)
  Theorem isort_order_independent l l' : Permutation l l' -> isort_by leb l = isort_by leb l'.
  Proof.
    intros HP. apply sorted_perm_eq; try apply isort_sorted.
    eapply perm_trans; [apply Permutation_sym, isort_perm|]. eapply perm_trans; [exact HP|apply isort_perm].
  Qed.

  (* a list that is the sort of one arrival order is the sort of every arrival order *)
  Corollary sorted_output_is_canonical l out : isort_by leb l = out -> forall l', Permutation l l' -> isort_by leb l' = out.
  Proof. intros <- l' HP. symmetry. apply isort_order_independent. exact HP. Qed.
  (* sorting what is already sorted changes nothing: a second pass over the records (merge, re-sort after stamping) is harmless *)
  Corollary isort_idempotent l : isort_by leb (isort_by leb l) = isort_by leb l.
  Proof. apply isort_order_independent. apply Permutation_sym, isort_perm. Qed.
End Sort.

(* ---- the name-record key order is a total order *)
Ltac key_cases :=
  repeat match goal with
         | H : context [N.ltb ?a ?b] |- _ => destruct (N.ltb_spec a b); try discriminate
         | H : context [N.leb ?a ?b] |- _ => destruct (N.leb_spec a b); try discriminate
         | |- context [N.ltb ?a ?b] => destruct (N.ltb_spec a b); try lia
         | |- context [N.leb ?a ?b] => destruct (N.leb_spec a b); try lia
         end.

Lemma key_leb_total a b : key_leb a b = true \/ key_leb b a = true.
Proof.
  destruct a as [[[p1 e1] l1] n1], b as [[[p2 e2] l2] n2]. unfold key_leb.
  key_cases; try (left; reflexivity); try (right; reflexivity); lia.
Qed.

Lemma key_leb_antisym a b : key_leb a b = true -> key_leb b a = true -> a = b.
Proof.
  destruct a as [[[p1 e1] l1] n1], b as [[[p2 e2] l2] n2]. unfold key_leb. intros H1 H2.
  key_cases; try lia.
  assert (p1 = p2) by lia. assert (e1 = e2) by lia. assert (l1 = l2) by lia. assert (n1 = n2) by lia.
  subst. reflexivity.
Qed.

Lemma key_leb_trans a b c : key_leb a b = true -> key_leb b c = true -> key_leb a c = true.
Proof.
  destruct a as [[[p1 e1] l1] n1], b as [[[p2 e2] l2] n2], c as [[[p3 e3] l3] n3]. unfold key_leb. intros H1 H2.
  key_cases; try reflexivity; lia.
Qed.

Theorem sort_keys_order_independent keys keys' : Permutation keys keys' -> sort_keys keys = sort_keys keys'.
Proof. apply isort_order_independent; [apply key_leb_total|apply key_leb_trans|apply key_leb_antisym]. Qed.

Lemma key_eqb_eq a b : key_eqb a b = true -> a = b.
Proof.
  destruct a as [[[p1 e1] l1] n1], b as [[[p2 e2] l2] n2]. unfold key_eqb. rewrite !andb_true_iff, !N.eqb_eq.
  intros [[[-> ->] ->] ->]. reflexivity.
Qed.
Lemma keys_eqb_eq l1 : forall l2, keys_eqb l1 l2 = true -> l1 = l2.
Proof.
  induction l1 as [|a t IH]; intros [|b t2]; cbn; try discriminate; [reflexivity|].
  rewrite andb_true_iff. intros [H1 H2]. apply key_eqb_eq in H1. apply IH in H2. subst. reflexivity.
Qed.

(* what the correspondence predicate establishes about a compiled font: its name records are the model's sort of
   every arrival order of those records, i.e. of every iteration order of the map they came from *)
Theorem name_order_ok_canonical keys : name_order_ok keys = true ->
  forall keys', Permutation keys keys' -> sort_keys keys' = keys.
Proof.
  unfold name_order_ok. rewrite andb_true_iff. intros [H _] keys' HP. apply keys_eqb_eq in H.
  transitivity (sort_keys (rev keys)); [|exact H]. apply sort_keys_order_independent.
  eapply perm_trans; [apply Permutation_sym; exact HP|apply Permutation_rev].
Qed.

(* the output is ordered the way OpenType wants the name table: every record is <= every later one, and nothing is lost *)
Theorem sort_keys_sorted_permutation keys :
  sorted name_key key_leb (sort_keys keys) /\ Permutation keys (sort_keys keys).
Proof. split; [apply isort_sorted; [apply key_leb_total|apply key_leb_trans]|apply isort_perm]. Qed.

Theorem sort_keys_idempotent keys : sort_keys (sort_keys keys) = sort_keys keys.
Proof. apply isort_idempotent; [apply key_leb_total|apply key_leb_trans|apply key_leb_antisym]. Qed.

(* ---- table directory tags *)
Lemma nleb_total a b : N.leb a b = true \/ N.leb b a = true.
Proof. destruct (N.leb_spec a b); [left; reflexivity|right; apply N.leb_le; lia]. Qed.
Lemma nleb_trans a b c : N.leb a b = true -> N.leb b c = true -> N.leb a c = true.
Proof. rewrite !N.leb_le. lia. Qed.
Lemma nleb_antisym a b : N.leb a b = true -> N.leb b a = true -> a = b.
Proof. rewrite !N.leb_le. lia. Qed.

Theorem sort_tags_order_independent tags tags' : Permutation tags tags' -> sort_tags tags = sort_tags tags'.
Proof. apply isort_order_independent; [apply nleb_total|apply nleb_trans|apply nleb_antisym]. Qed.

Lemma ns_eqb_eq l1 : forall l2, ns_eqb l1 l2 = true -> l1 = l2.
Proof.
  induction l1 as [|a t IH]; intros [|b t2]; cbn; try discriminate; [reflexivity|].
  rewrite andb_true_iff, N.eqb_eq. intros [H1 H2]. apply IH in H2. subst. reflexivity.
Qed.

Theorem dir_order_ok_canonical tags : dir_order_ok tags = true ->
  forall tags', Permutation tags tags' -> sort_tags tags' = tags.
Proof.
  unfold dir_order_ok. rewrite andb_true_iff. intros [H _] tags' HP. apply ns_eqb_eq in H.
  transitivity (sort_tags (rev tags)); [|exact H]. apply sort_tags_order_independent.
  eapply perm_trans; [apply Permutation_sym; exact HP|apply Permutation_rev].
Qed.
