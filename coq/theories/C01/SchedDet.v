(* C01 — schedule independence: for a safe job graph every schedule orders conflicting jobs the same
   way, hence (Det.v) all complete schedules compute the same store. *)
From Coq Require Import List NArith Bool Lia Sorting.Permutation.
From FV.C02 Require Import Model Graph GraphFacts Ops Inv Steps Steps2 Steps3 Acc Acc2 Reach Order Safe.
From FV.C01 Require Import Det.
Import ListNotations.
Open Scope N_scope.

Section SchedDet.
  Variable G : graph.
  Variable order : list N.
  Variable pairs : list (N * N).
  Hypothesis Hsafe : safe_graph G order pairs = true.
  (* the pairs relate distinct jobs (not also-completes ids), and the first one is a job that runs *)
  Hypothesis Hpairs : forall w y, In (w, y) pairs ->
    w <> y /\ owner_of G w = None /\ completers_of G w = [].

  Let Hwf : wf_graph G := proj1 (safe_graph_pairs G order pairs Hsafe).
  Notation reach := (reach G).

  (* the order in which jobs were handed to workers *)
  Definition launch_order (st : state) : list N := rev (g_launched st).

  Lemma launched_nodup st : reach st -> err st = false -> NoDup (g_launched st).
  Proof.
    induction 1 as [|st e st' Hr IH Hs]; intro He.
    - assert (Hl : forall ds s, g_launched (fold_left insert ds s) = g_launched s).
      { induction ds as [|d ds IHd]; intro s; cbn [fold_left]; [reflexivity|]. rewrite IHd. apply insert_fields. }
      unfold init. rewrite Hl. constructor.
    - pose proof (reach_err_false G st Hr st' e Hs He) as He0. specialize (IH He0).
      destruct (step_launched G st e st' Hs) as [E|(i & -> & E)]; rewrite E; [exact IH|].
      constructor; [|exact IH]. intro Hin.
      (* a launched job has its running flag set, so it cannot be launched again *)
      destruct (reach_inv G Hwf st Hr He0) as [HI _]. cbn [step] in Hs.
      destruct (lookup i (pending st)) as [pj|] eqn:Hl; [|discriminate].
      destruct (palso pj || prun pj || negb (can_run st i (pacc pj))) eqn:Hg; [discriminate|].
      apply orb_false_iff in Hg as [Hg _]. apply orb_false_iff in Hg as [_ Hrun].
      pose proof (v_entry _ _ _ HI i pj Hl) as (_ & B & _). apply B in Hin. congruence.
  Qed.

  (* a job whose work has finished and that is never completed without running was launched *)
  Lemma wfin_launched st w : reach st -> err st = false -> owner_of G w = None -> completers_of G w = [] ->
    In w (g_wfin st) -> In w (g_launched st).
  Proof.
    intros Hr He Hown Hnc Hw. destruct (reach_inv G Hwf st Hr He) as [HI HI2].
    assert (Hwa : In w (g_added st)) by (apply (v_wfin_added _ _ _ HI); exact Hw).
    destruct (added_decl G Hwf st w Hr He Hwa) as (d & Hd & Hwd). unfold decl_ids in Hwd. apply in_app_or in Hwd as [Hal|[E|[]]].
    - exfalso. exact (owner_none G w d Hown Hd Hal).
    - subst w. destruct (v_wfin_src _ _ _ HI d Hd Hw) as [H|H]; [exact H|].
      destruct (w_succ _ _ _ HI2 d Hd H) as [Hl|(c & _ & Hcn)]; [exact Hl|].
      exfalso. cbn [done_of] in Hcn. apply (complete_listed G) in Hcn. rewrite Hnc in Hcn. destruct Hcn.
  Qed.

  Lemma launch_order_respects_pairs st w y : reach st -> err st = false -> In (w, y) pairs ->
    In y (g_launched st) -> before w y (launch_order st).
  Proof.
    intros Hr He Hin Hy. destruct (Hpairs w y Hin) as (Hne & Hown & Hnc).
    destruct (launched_history G Hwf st y Hr He Hy)
      as (st0 & pj & st1 & A1 & A2 & A3 & A4 & A5 & A6 & A7 & A8 & A9 & A10 & A11 & A12 & A13 & ext & A14).
    pose proof (proj2 (safe_graph_pairs G order pairs Hsafe) w y Hin st1 A6 A7 (or_introl A8)) as Hw.
    pose proof (wfin_launched st1 w A6 A7 Hown Hnc Hw) as Hwl. rewrite A13 in Hwl.
    destruct Hwl as [E|Hwl]; [congruence|].
    unfold launch_order. rewrite A14, A13, rev_app_distr. cbn [rev]. rewrite <- app_assoc. cbn [app].
    apply in_rev in Hwl. apply in_split in Hwl as (p & q & Ep). rewrite Ep.
    exists p, q, (rev ext). rewrite <- app_assoc. reflexivity.
  Qed.

  Lemma before_asym (l : list N) a b : NoDup l -> before a b l -> ~ before b a l.
  Proof.
    intros Hnd (p & q & r & E) (p' & q' & r' & E'). subst l.
    (* a occurs in p ++ a :: ..., and also after b: two occurrences of a or of b *)
    assert (Ha : In a (q' ++ a :: r')) by (apply in_or_app; right; left; reflexivity).
    (* compare the two decompositions by looking at where b is *)
    revert p' E' . induction p as [|x p IH]; intros p' E'; cbn [app] in *.
    - destruct p' as [|x' p']; cbn [app] in E'; injection E' as E1 E2.
      + subst b. inversion Hnd as [|? ? Hn _]; subst. apply Hn. apply in_or_app. right. left. reflexivity.
      + subst x'. inversion Hnd as [|? ? Hn _]; subst. apply Hn. rewrite E2.
        apply in_or_app. right. right. apply in_or_app. right. left. reflexivity.
    - destruct p' as [|x' p']; cbn [app] in E'; injection E' as E1 E2.
      + subst x. inversion Hnd as [|? ? Hn _]; subst. apply Hn.
        apply in_or_app. right. right. apply in_or_app. right. left. reflexivity.
      + subst x'. inversion Hnd as [|? ? _ Hnd']; subst. exact (IH Hnd' p' E2).
  Qed.

  (* ---- the theorem -------------------------------------------------------------------------- *)
  Variable V : Type.
  Variable sem : N -> jobsem V.
  Hypothesis Hsem : forall j, wf_job V (sem j).
  (* every conflicting pair of distinct jobs is listed (in the order the certificate fixes) *)
  Hypothesis Hcover : forall a b, a <> b -> conflict V (sem a) (sem b) -> In (a, b) pairs \/ In (b, a) pairs.

  Theorem schedule_independent st1 st2 :
    reach st1 -> err st1 = false -> reach st2 -> err st2 = false ->
    Permutation (g_launched st1) (g_launched st2) ->
    forall s, seq V (exec V sem (launch_order st1) s) (exec V sem (launch_order st2) s).
  Proof.
    intros R1 E1 R2 E2 Hp s.
    apply same_conflict_order_same_store; [exact Hsem| | |].
    - unfold launch_order. apply NoDup_rev. apply launched_nodup; assumption.
    - unfold launch_order. rewrite <- !Permutation_rev. exact Hp.
    - intros a b Ha Hb Hne Hc. unfold launch_order in Ha, Hb. apply in_rev in Ha, Hb.
      assert (Ha2 : In a (g_launched st2)) by (eapply Permutation_in; eassumption).
      assert (Hb2 : In b (g_launched st2)) by (eapply Permutation_in; eassumption).
      assert (N1 : NoDup (launch_order st1)) by (apply NoDup_rev; apply launched_nodup; assumption).
      assert (N2 : NoDup (launch_order st2)) by (apply NoDup_rev; apply launched_nodup; assumption).
      destruct (Hcover a b Hne Hc) as [Hab|Hba].
      + split; intros _; [exact (launch_order_respects_pairs st2 a b R2 E2 Hab Hb2)|exact (launch_order_respects_pairs st1 a b R1 E1 Hab Hb)].
      + pose proof (launch_order_respects_pairs st1 b a R1 E1 Hba Ha) as B1.
        pose proof (launch_order_respects_pairs st2 b a R2 E2 Hba Ha2) as B2.
        split; intro H; exfalso; [exact (before_asym _ _ _ N1 B1 H)|exact (before_asym _ _ _ N2 B2 H)].
  Qed.
End SchedDet.
