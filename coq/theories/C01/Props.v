(* C01 — repeatable builds: what the proofs carry.  The bytes of a font cannot be the subject of a
   theorem here (hash seeds and thread timing live in the runtime); what is proved is that the
   functions the pipeline computes do not depend on them.  The differential builds of the
   correspondence run (separate processes, different thread counts) exercise the rest. *)
From Coq Require Import List NArith ZArith Bool Sorting.Permutation.
From FV.C02 Require Import Model Graph Order Safe Reach.
From FV.C01 Require Import Model Det SchedDet SortDet Batch.
From FV.C07 Require Model OrderIndep.
From FV.C06 Require Model Proofs.
From FV.C02 Require Props.
Import ListNotations.

(* 1. Schedule independence.  Let G be a job graph accepted by safe_graph for a list of pairs that
      covers every pair of distinct jobs whose read/write sets conflict, and let every job be a
      function of the values it reads.  Then ANY two schedules that run the same set of jobs end in
      the same store: the worker-thread count and the interleaving cannot change what is computed. *)
Theorem schedule_independence : forall (G : graph) (order : list N) (pairs : list (N * N)),
  safe_graph G order pairs = true ->
  (forall w y, In (w, y) pairs -> w <> y /\ owner_of G w = None /\ completers_of G w = []) ->
  forall (V : Type) (sem : N -> jobsem V), (forall j, wf_job V (sem j)) ->
  (forall a b, a <> b -> conflict V (sem a) (sem b) -> In (a, b) pairs \/ In (b, a) pairs) ->
  forall st1 st2, reach G st1 -> err st1 = false -> reach G st2 -> err st2 = false ->
  Permutation (g_launched st1) (g_launched st2) ->
  forall s, seq V (exec V sem (launch_order st1) s) (exec V sem (launch_order st2) s).
Proof. exact schedule_independent. Qed.
Print Assumptions schedule_independence.

(* 2. The general fact behind it: executions of deterministic jobs that order every conflicting
      pair the same way compute the same store (conflict-serialisability). *)
Theorem conflict_order_determines_store : forall (V : Type) (sem : N -> jobsem V),
  (forall j, wf_job V (sem j)) ->
  forall l1 l2 s, NoDup l1 -> Permutation l1 l2 ->
  (forall a b, In a l1 -> In b l1 -> a <> b -> conflict V (sem a) (sem b) -> (before a b l1 <-> before a b l2)) ->
  seq V (exec V sem l1 s) (exec V sem l2 s).
Proof. intros V sem H l1 l2 s. apply same_conflict_order_same_store. exact H. Qed.
Print Assumptions conflict_order_determines_store.

(* 3. With SOURCE_DATE_EPOCH set, head.created/modified do not depend on when the build runs. *)
Theorem timestamp_is_a_function_of_the_epoch : forall e now1 now2,
  head_timestamp (Some e) now1 = head_timestamp (Some e) now2.
Proof. reflexivity. Qed.
Print Assumptions timestamp_is_a_function_of_the_epoch.

(* 4. Iteration-order independence of modelled cores that consume hash sets/maps
      (further ones: C17 composite limits for every HashMap order, C14 file names). *)
Theorem variation_model_ignores_hash_order : forall n locs locs',
  Forall (fun l => length l = n) locs -> Permutation locs locs' ->
  FV.C07.Model.model_new locs' = FV.C07.Model.model_new locs.
Proof. exact FV.C07.OrderIndep.model_order_independent. Qed.
Print Assumptions variation_model_ignores_hash_order.

Theorem preliminary_glyph_order_ignores_hash_order : forall declared names names',
  NoDup names -> Permutation names names' ->
  FV.C06.Model.ufo_prelim declared names = FV.C06.Model.ufo_prelim declared names'.
Proof. exact FV.C06.Proofs.ufo_prelim_perm_invariant. Qed.
Print Assumptions preliminary_glyph_order_ignores_hash_order.

(* 5. "Sorted before it reaches bytes": the name records of a font are the same list whatever order the HashMap
      StaticMetadata.names yields them in (fontbe/src/name.rs name_records.sort() / merge through a BTreeMap), and a
      font that passes the correspondence predicate has exactly that list. *)
Theorem name_record_order_ignores_hash_order : forall keys keys',
  Permutation keys keys' -> sort_keys keys = sort_keys keys'.
Proof. exact sort_keys_order_independent. Qed.
Print Assumptions name_record_order_ignores_hash_order.

Theorem checked_name_records_are_canonical : forall keys, name_order_ok keys = true ->
  forall keys', Permutation keys keys' -> sort_keys keys' = keys.
Proof. exact name_order_ok_canonical. Qed.
Print Assumptions checked_name_records_are_canonical.

(* the model's sort loses and invents nothing, orders the records as the name table requires, and is idempotent *)
Theorem name_record_sort_is_an_ordered_permutation : forall keys,
  sorted name_key key_leb (sort_keys keys) /\ Permutation keys (sort_keys keys).
Proof. exact sort_keys_sorted_permutation. Qed.
Print Assumptions name_record_sort_is_an_ordered_permutation.

Theorem name_record_sort_idempotent : forall keys, sort_keys (sort_keys keys) = sort_keys keys.
Proof. exact sort_keys_idempotent. Qed.
Print Assumptions name_record_sort_idempotent.

(* the table directory: whatever order the tables are added to the builder in, the file lists them in one order, and a
   font that passes the correspondence predicate has exactly that order *)
Theorem table_directory_ignores_insertion_order : forall tags tags',
  Permutation tags tags' -> sort_tags tags = sort_tags tags'.
Proof. exact sort_tags_order_independent. Qed.
Print Assumptions table_directory_ignores_insertion_order.

Theorem checked_table_directory_is_canonical : forall tags, dir_order_ok tags = true ->
  forall tags', Permutation tags tags' -> sort_tags tags' = tags.
Proof. exact dir_order_ok_canonical. Qed.
Print Assumptions checked_table_directory_is_canonical.

Example dir_order_nonvacuous :
  dir_order_ok [1196643650; 1196445523; 1330851634; 1668112752]%N = false
  /\ dir_order_ok [1196445523; 1196643650; 1330851634; 1668112752]%N = true.
Proof. split; vm_compute; reflexivity. Qed.

(* the same for any collection sorted by a total order on the way out (kerning pairs, mark classes, ...) *)
Theorem sorting_by_a_total_order_erases_arrival_order : forall (A : Type) (leb : A -> A -> bool),
  (forall a b, leb a b = true \/ leb b a = true) ->
  (forall a b c, leb a b = true -> leb b c = true -> leb a c = true) ->
  (forall a b, leb a b = true -> leb b a = true -> a = b) ->
  forall l l', Permutation l l' -> isort_by leb l = isort_by leb l'.
Proof. exact isort_order_independent. Qed.
Print Assumptions sorting_by_a_total_order_erases_arrival_order.

Example name_order_nonvacuous :
  name_order_ok [(0,4,0,1);(0,4,0,2);(3,1,1033,1);(3,1,1033,2);(3,1,1033,256)]%N = true
  /\ name_order_ok [(3,1,1033,2);(3,1,1033,1)]%N = false.
Proof. split; vm_compute; reflexivity. Qed.

(* 6. Batch interpolation (fontir/src/glyph.rs batch_interpolate_missing, issue 1873): interpolating every missing
      location from the original source set makes the result independent of the order the HashSet of locations is
      visited in, for any interpolation function; interpolating from the growing set does not. *)
Theorem batch_interpolation_ignores_hash_order : forall (L V : Type) (leqb : L -> L -> bool)
    (interp : list (L * V) -> L -> V), (forall a b, leqb a b = true <-> a = b) ->
  forall m locs locs', Permutation locs locs' ->
  forall k, lookup L V leqb (batch L V leqb interp m locs) k = lookup L V leqb (batch L V leqb interp m locs') k.
Proof. exact batch_order_independent. Qed.
Print Assumptions batch_interpolation_ignores_hash_order.

Theorem incremental_interpolation_depends_on_order :
  exists (interp : list (N * N) -> N -> N) m locs locs' k,
    Permutation locs locs'
    /\ lookup N N N.eqb (incremental N N N.eqb interp m locs) k <> lookup N N N.eqb (incremental N N N.eqb interp m locs') k.
Proof. exact incremental_depends_on_order. Qed.
Print Assumptions incremental_interpolation_depends_on_order.

(* non-vacuity: two different schedules of the tiny safe graph of C02 run the same jobs *)
Example two_schedules :
  exists st1 st2,
    FV.C02.Model.run FV.C02.Props.tiny (FV.C02.Model.init FV.C02.Props.tiny) [Launch 0; WFinish 0; Launch 1; Deliver 0; Launch 3; WFinish 3; Launch 2] = Some st1
    /\ FV.C02.Model.run FV.C02.Props.tiny (FV.C02.Model.init FV.C02.Props.tiny) [Launch 0; WFinish 0; Deliver 0; Launch 3; Launch 1; WFinish 3; Launch 2] = Some st2
    /\ Permutation (g_launched st1) (g_launched st2) /\ g_launched st1 <> g_launched st2.
Proof.
  eexists. eexists. split; [vm_compute; reflexivity|]. split; [vm_compute; reflexivity|]. split.
  - cbn. apply perm_skip. apply perm_swap.
  - cbn. discriminate.
Qed.
