(* C01 — determinism from conflict order: two executions of the same deterministic jobs that order
   every conflicting pair the same way end in the same store (conflict-serialisability). *)
From Coq Require Import List NArith Bool Lia Sorting.Permutation.
Import ListNotations.
Open Scope N_scope.

Section Det.
  Variable V : Type.
  Definition store := N -> V.
  Definition seq (s s' : store) : Prop := forall i, s i = s' i.

  (* what a job does: it reads the items in `reads`, and produces (item, value) writes, all into `writes` *)
  Record jobsem := mkSem { reads : list N; writes : list N; run : store -> list (N * V) }.

  Definition wf_job (j : jobsem) : Prop :=
    (forall s s', (forall r, In r (reads j) -> s r = s' r) -> run j s = run j s')
    /\ (forall s i v, In (i, v) (run j s) -> In i (writes j)).

  Definition upd (s : store) (i : N) (v : V) : store := fun k => if k =? i then v else s k.
  Definition write_all (ws : list (N * V)) (s : store) : store := fold_left (fun s p => upd s (fst p) (snd p)) ws s.
  Definition apply (j : jobsem) (s : store) : store := write_all (run j s) s.

  (* two jobs conflict when one writes an item the other reads or writes *)
  Definition conflict (a b : jobsem) : Prop :=
    exists i, (In i (writes a) /\ (In i (reads b) \/ In i (writes b))) \/ (In i (writes b) /\ In i (reads a)).

  Lemma write_all_other ws : forall s i, ~ In i (map fst ws) -> write_all ws s i = s i.
  Proof.
    induction ws as [|[k v] ws IH]; intros s i Hn; cbn [write_all fold_left]; [reflexivity|].
    cbn [map fst In] in Hn. fold (write_all ws (upd s k v)). rewrite IH by tauto.
    unfold upd. cbn [fst snd]. destruct (N.eqb_spec i k); [exfalso; apply Hn; left; congruence|reflexivity].
  Qed.

  Lemma write_all_ext ws : forall s s', seq s s' -> seq (write_all ws s) (write_all ws s').
  Proof.
    induction ws as [|[k v] ws IH]; intros s s' H; cbn [write_all fold_left]; [exact H|].
    apply IH. intro i. unfold upd. cbn [fst snd]. destruct (i =? k); [reflexivity|apply H].
  Qed.

  (* the value written_all leaves at i does not depend on the store for written items *)
  Lemma write_all_written ws : forall s s' i, In i (map fst ws) -> write_all ws s i = write_all ws s' i.
  Proof.
    induction ws as [|[k v] ws IH]; intros s s' i Hin; [destruct Hin|].
    cbn [write_all fold_left]. fold (write_all ws (upd s k v)). fold (write_all ws (upd s' k v)).
    destruct (in_dec N.eq_dec i (map fst ws)) as [Hi|Hn].
    - apply IH. exact Hi.
    - rewrite !write_all_other by exact Hn. cbn [map fst In] in Hin. destruct Hin as [<-|Hin]; [|contradiction].
      unfold upd. cbn [fst snd]. rewrite N.eqb_refl. reflexivity.
  Qed.

  Lemma apply_ext j s s' : wf_job j -> seq s s' -> seq (apply j s) (apply j s').
  Proof.
    intros [Hr _] H. unfold apply. rewrite (Hr s s') by (intros r _; apply H). apply write_all_ext. exact H.
  Qed.

  Lemma apply_other j s i : wf_job j -> ~ In i (writes j) -> apply j s i = s i.
  Proof.
    intros [_ Hw] Hn. unfold apply. apply write_all_other. intro Hin. apply in_map_iff in Hin as ([k v] & E & Hkv).
    cbn [fst] in E. subst k. apply Hn. eapply Hw. exact Hkv.
  Qed.

  Lemma run_unaffected a b s : wf_job a -> wf_job b ->
    (forall i, In i (writes a) -> ~ In i (reads b)) -> run b (apply a s) = run b s.
  Proof.
    intros Ha [Hr _] Hd. apply Hr. intros r Hrb. apply apply_other; [exact Ha|]. intro Hw. exact (Hd r Hw Hrb).
  Qed.

  (* non-conflicting jobs commute *)
  Lemma commute a b s : wf_job a -> wf_job b -> ~ conflict a b -> seq (apply b (apply a s)) (apply a (apply b s)).
  Proof.
    intros Ha Hb Hnc i.
    assert (D1 : forall k, In k (writes a) -> ~ In k (reads b)) by (intros k H1 H2; apply Hnc; exists k; left; tauto).
    assert (D2 : forall k, In k (writes b) -> ~ In k (reads a)) by (intros k H1 H2; apply Hnc; exists k; right; tauto).
    assert (D3 : forall k, In k (writes a) -> ~ In k (writes b)) by (intros k H1 H2; apply Hnc; exists k; left; tauto).
    unfold apply at 1 3. rewrite (run_unaffected a b s Ha Hb D1), (run_unaffected b a s Hb Ha D2).
    destruct (in_dec N.eq_dec i (map fst (run b s))) as [Hib|Hnb].
    - (* written by b *)
      assert (Hwb : In i (writes b)).
      { apply in_map_iff in Hib as ([k v] & E & Hkv). cbn [fst] in E. subst k. destruct Hb as [_ Hw]. eapply Hw. exact Hkv. }
      rewrite (write_all_written (run b s) (apply a s) s i Hib).
      rewrite (write_all_other (run a s) (apply b s) i).
      + reflexivity.
      + intro Hia. apply in_map_iff in Hia as ([k v] & E & Hkv). cbn [fst] in E. subst k.
        destruct Ha as [_ Hw]. apply (D3 i); [eapply Hw; exact Hkv|exact Hwb].
    - rewrite write_all_other by exact Hnb.
      destruct (in_dec N.eq_dec i (map fst (run a s))) as [Hia|Hna].
      + unfold apply. apply write_all_written. exact Hia.
      + unfold apply. rewrite !write_all_other by assumption. reflexivity.
  Qed.

  (* ---- executions ---------------------------------------------------------------------- *)
  Variable sem : N -> jobsem.
  Hypothesis Hsem : forall j, wf_job (sem j).

  Definition exec (l : list N) (s : store) : store := fold_left (fun s j => apply (sem j) s) l s.

  Lemma exec_ext l : forall s s', seq s s' -> seq (exec l s) (exec l s').
  Proof.
    induction l as [|j l IH]; intros s s' H; cbn [exec fold_left]; [exact H|].
    apply IH. apply apply_ext; [apply Hsem|exact H].
  Qed.

  Lemma exec_app l1 l2 s : exec (l1 ++ l2) s = exec l2 (exec l1 s).
  Proof. unfold exec. apply fold_left_app. Qed.

  (* moving a job in front of jobs it does not conflict with *)
  Lemma exec_move p : forall x q s,
    (forall y, In y p -> ~ conflict (sem x) (sem y)) ->
    seq (exec (p ++ x :: q) s) (exec (x :: p ++ q) s).
  Proof.
    induction p as [|y p IH]; intros x q s Hnc; cbn [app]; [intro i; reflexivity|].
    intro i. cbn [exec fold_left]. fold (exec (p ++ x :: q) (apply (sem y) s)).
    rewrite (IH x q (apply (sem y) s)) by (intros z Hz; apply Hnc; right; exact Hz).
    cbn [exec fold_left]. fold (exec (p ++ q) (apply (sem x) (apply (sem y) s))).
    fold (exec (p ++ q) (apply (sem y) (apply (sem x) s))).
    apply exec_ext. intro k. symmetry. apply commute; [apply Hsem|apply Hsem|].
    apply Hnc. left. reflexivity.
  Qed.

  (* a comes before b in l *)
  Definition before (a b : N) (l : list N) : Prop := exists p q r, l = p ++ a :: q ++ b :: r.

  Lemma before_cons_head x t b : In b t -> before x b (x :: t).
  Proof. intro H. apply in_split in H as (q & r & ->). exists [], q, r. reflexivity. Qed.

  Lemma not_before_head x t y : NoDup (x :: t) -> ~ before y x (x :: t).
  Proof.
    intros Hnd (p & q & r & E). inversion Hnd as [|? ? Hn _]; subst.
    destruct p as [|z p]; cbn [app] in E; injection E as E1 E2.
    - subst y. apply Hn. rewrite E2. apply in_or_app. right. left. reflexivity.
    - subst z. apply Hn. rewrite E2. apply in_or_app. right. right. apply in_or_app. right. left. reflexivity.
  Qed.

  Theorem same_conflict_order_same_store l1 : forall l2 s,
    NoDup l1 -> Permutation l1 l2 ->
    (forall a b, In a l1 -> In b l1 -> a <> b -> conflict (sem a) (sem b) -> (before a b l1 <-> before a b l2)) ->
    seq (exec l1 s) (exec l2 s).
  Proof.
    induction l1 as [|x t IH]; intros l2 s Hnd Hp Hord.
    - apply Permutation_nil in Hp. subst. intro i. reflexivity.
    - assert (Hx : In x l2) by (eapply Permutation_in; [exact Hp|left; reflexivity]).
      apply in_split in Hx as (p & q & ->).
      inversion Hnd as [|? ? Hxt Hndt]; subst.
      assert (Hp' : Permutation t (p ++ q)) by (eapply Permutation_cons_app_inv; exact Hp).
      (* everything in p comes before x in l2 but after x in l1, so it cannot conflict with x *)
      assert (Hnc : forall y, In y p -> ~ conflict (sem x) (sem y)).
      { intros y Hy Hc.
        assert (Hyt : In y t) by (eapply Permutation_in; [symmetry; exact Hp'|apply in_or_app; left; exact Hy]).
        assert (Hne : y <> x) by (intros ->; contradiction).
        assert (Hc' : conflict (sem y) (sem x)).
        { destruct Hc as (i & [[H1 H2]|[H1 H2]]); exists i; [destruct H2 as [H2|H2]; [right; tauto|left; tauto]|left; tauto]. }
        assert (B2 : before y x (p ++ x :: q)).
        { apply in_split in Hy as (p1 & p2 & ->). exists p1, p2, q. rewrite <- app_assoc. reflexivity. }
        apply (Hord y x (or_intror Hyt) (or_introl eq_refl) Hne Hc') in B2.
        exact (not_before_head x t y Hnd B2). }
      intro i. rewrite (exec_move p x q s Hnc i). cbn [exec fold_left].
      fold (exec t (apply (sem x) s)). fold (exec (p ++ q) (apply (sem x) s)).
      apply IH; [exact Hndt|exact Hp'|].
      intros a b Ha Hb Hne Hc.
      assert (Hax : a <> x) by (intros ->; contradiction). assert (Hbx : b <> x) by (intros ->; contradiction).
      specialize (Hord a b (or_intror Ha) (or_intror Hb) Hne Hc).
      (* removing x (different from a and b) preserves `before` *)
      assert (R1 : before a b (x :: t) <-> before a b t).
      { split.
        - intros (p0 & q0 & r0 & E). destruct p0 as [|z p0]; cbn [app] in E; injection E as E1 E2; [congruence|].
          exists p0, q0, r0. exact E2.
        - intros (p0 & q0 & r0 & ->). exists (x :: p0), q0, r0. reflexivity. }
      assert (R2 : before a b (p ++ x :: q) <-> before a b (p ++ q)).
      { clear -Hax Hbx. split.
        - intros (p0 & q0 & r0 & E). revert p0 E. induction p as [|z p IHp]; intros p0 E; cbn [app] in *.
          + destruct p0 as [|z0 p0]; cbn [app] in E; injection E as E1 E2; [congruence|]. exists p0, q0, r0. exact E2.
          + destruct p0 as [|z0 p0]; cbn [app] in E; injection E as E1 E2.
            * subst z. (* a is the head; b lies in p ++ x :: q after it, and b <> x *)
              assert (Hb : In b (p ++ q)).
              { assert (Hb0 : In b (p ++ x :: q)) by (rewrite E2; apply in_or_app; right; left; reflexivity).
                apply in_app_or in Hb0 as [H|[H|H]]; [apply in_or_app; left; exact H|congruence|apply in_or_app; right; exact H]. }
              apply in_split in Hb as (q1 & r1 & Eb). exists [], q1, r1. cbn [app]. rewrite Eb. reflexivity.
            * subst z0. destruct (IHp p0 E2) as (p1 & q1 & r1 & E3). exists (z :: p1), q1, r1. cbn [app]. rewrite E3. reflexivity.
        - intros (p0 & q0 & r0 & E). revert p0 E. induction p as [|z p IHp]; intros p0 E; cbn [app] in *.
          + exists (x :: p0), q0, r0. cbn [app]. rewrite E. reflexivity.
          + destruct p0 as [|z0 p0]; cbn [app] in E; injection E as E1 E2.
            * subst z.
              assert (Hb : In b (p ++ x :: q)).
              { assert (Hb0 : In b (p ++ q)) by (rewrite E2; apply in_or_app; right; left; reflexivity).
                apply in_app_or in Hb0 as [H|H]; apply in_or_app; [left; exact H|right; right; exact H]. }
              apply in_split in Hb as (q1 & r1 & Eb). exists [], q1, r1. cbn [app]. rewrite Eb. reflexivity.
            * subst z0. destruct (IHp p0 E2) as (p1 & q1 & r1 & E3). exists (z :: p1), q1, r1. cbn [app]. rewrite E3. reflexivity. }
      rewrite <- R1, <- R2. exact Hord.
  Qed.
End Det.
