(* C10 — MarkLookupBuilder::new: the pruned anchor lists, in terms of the source anchors. *)
From Coq Require Import List NArith ZArith Bool Lia Sorting.Sorted.
From FV.C10 Require Import Model ProofsMM ProofsGroups.
Import ListNotations.

Section Prune.
  Variable P : Type.
  Notation alist := (list (N * list (anchor P))).
  Notation asorted := (sorted N (list (anchor P)) N.compare).

  Lemma fold_left_flat_map {A B C} (f : A -> C -> A) (g : B -> list C) (l : list B) (a : A) :
    fold_left f (flat_map g l) a = fold_left (fun a x => fold_left f (g x) a) l a.
  Proof.
    revert a. induction l as [|x l IH]; intro a; cbn [flat_map fold_left]; [reflexivity|].
    rewrite fold_left_app. apply IH.
  Qed.

  Lemma fold_left_map {A B C} (f : A -> C -> A) (g : B -> C) (l : list B) (a : A) :
    fold_left f (map g l) a = fold_left (fun a x => f a (g x)) l a.
  Proof. revert a. induction l as [|x l IH]; intro a; cbn [map fold_left]; [reflexivity|apply IH]. Qed.

  Definition pushes (lv : alist) : list (N * anchor P) :=
    flat_map (fun ga => map (fun a => (fst ga, a)) (snd ga)) lv.

  Notation push := (fun (a : anchor P) (l : list (anchor P)) => l ++ [a]).

  Lemma fold_left_ext {A B} (f g : A -> B -> A) l a : (forall a x, f a x = g a x) -> fold_left f l a = fold_left g l a.
  Proof. intro H. revert a. induction l as [|x l IH]; intro a; cbn [fold_left]; [reflexivity|]. rewrite H. apply IH. Qed.

  Lemma pruned0_kfold lv :
    pruned0 P lv = kfold N (list (anchor P)) N.compare (anchor P) [] push (pushes lv) [].
  Proof.
    unfold pruned0, kfold, pushes. rewrite fold_left_flat_map. apply fold_left_ext.
    intros m ga. rewrite fold_left_map. reflexivity.
  Qed.

  Lemma pruned0_sorted lv : asorted (pruned0 P lv).
  Proof.
    rewrite pruned0_kfold. apply (kfold_sorted N (list (anchor P)) N.compare N_cmp_anti N_cmp_trans). constructor.
  Qed.

  Lemma app_all_push es l : app_all (list (anchor P)) (anchor P) push es l = l ++ es.
  Proof.
    revert l. induction es as [|e es IH]; intro l; cbn [app_all fold_left]; [rewrite app_nil_r; reflexivity|].
    change (fold_left _ es ?x) with (app_all (list (anchor P)) (anchor P) push es x). rewrite IH, <- app_assoc. reflexivity.
  Qed.

  Lemma evs_for_pushes lv gid :
    evs_for N (anchor P) N.eqb gid (pushes lv) = flat_map (fun ga => if N.eqb (fst ga) gid then snd ga else []) lv.
  Proof.
    unfold evs_for, pushes. induction lv as [|[h l] t IH]; cbn [flat_map]; [reflexivity|].
    rewrite filter_app, map_app, IH. f_equal. cbn [fst snd]. clear IH.
    induction l as [|a l IHl]; cbn [map filter fst].
    - destruct (N.eqb h gid); reflexivity.
    - destruct (N.eqb h gid) eqn:E; cbn [map snd].
      + f_equal. exact IHl.
      + exact IHl.
  Qed.

  Lemma flat_map_no_key (lv : alist) gid : ~ In gid (map fst lv) ->
    flat_map (fun ga => if N.eqb (fst ga) gid then snd ga else []) lv = [].
  Proof.
    induction lv as [|[h l0] t IH]; intro Hn; cbn [flat_map fst snd map] in *; [reflexivity|].
    destruct (N.eqb_spec h gid) as [->|_]; [exfalso; apply Hn; left; reflexivity|].
    cbn [app]. apply IH. intro H. apply Hn. right. exact H.
  Qed.

  Lemma flat_map_unique_key (lv : alist) gid l : NoDup (map fst lv) -> In (gid, l) lv ->
    flat_map (fun ga => if N.eqb (fst ga) gid then snd ga else []) lv = l.
  Proof.
    induction lv as [|[h l0] t IH]; intros Hnd Hin; [destruct Hin|]. cbn [flat_map fst snd map] in *.
    inversion Hnd as [|? ? Hnot Hnd']; subst. destruct Hin as [E|Hin].
    - inversion E; subst. rewrite N.eqb_refl.
      assert (Z : flat_map (fun ga : N * list (anchor P) => if N.eqb (fst ga) gid then snd ga else []) t = [])
        by (apply flat_map_no_key; exact Hnot).
      rewrite Z, app_nil_r. reflexivity.
    - destruct (N.eqb_spec h gid) as [->|_].
      + exfalso. apply Hnot. apply in_map_iff. exists (gid, l). auto.
      + cbn [app]. apply IH; assumption.
  Qed.

  Lemma pruned0_spec lv : NoDup (map fst lv) ->
    forall gid l, In (gid, l) (pruned0 P lv) <-> In (gid, l) lv /\ l <> [].
  Proof.
    intros Hnd gid l.
    rewrite <- (find_In N (list (anchor P)) N.compare N_cmp_eq _ gid l (pruned0_sorted lv)).
    rewrite pruned0_kfold.
    rewrite (kfold_find N (list (anchor P)) N.compare N_cmp_eq N_cmp_anti N_cmp_trans (anchor P) [] push N.eqb N.eqb_eq _ _ gid (sorted_nil N (list (anchor P)) N.compare)).
    cbn [mm_find]. rewrite evs_for_pushes.
    destruct (in_dec N.eq_dec gid (map fst lv)) as [Hin|Hn].
    - apply in_map_iff in Hin as ([g l0] & E & Hin). cbn [fst] in E. subst g.
      rewrite (flat_map_unique_key lv gid l0 Hnd Hin).
      destruct l0 as [|a l0].
      + split; [discriminate|]. intros [H Hne]. exfalso.
        assert (E : l = []).
        { rewrite <- (flat_map_unique_key lv gid l Hnd H). rewrite (flat_map_unique_key lv gid [] Hnd Hin). reflexivity. }
        contradiction.
      + rewrite app_all_push. cbn [app]. split.
        * intro H. inversion H; subst. split; [exact Hin|discriminate].
        * intros [H _]. f_equal. rewrite <- (flat_map_unique_key lv gid l Hnd H), (flat_map_unique_key lv gid (a :: l0) Hnd Hin). reflexivity.
    - rewrite (flat_map_no_key lv gid Hn). split; [discriminate|]. intros [H _]. exfalso. apply Hn.
      apply in_map_iff. exists (gid, l). auto.
  Qed.

  (* ---- sortedness survives mapping the values and filtering ---------------------------- *)
  Lemma sorted_map_values (f : list (anchor P) -> list (anchor P)) (m : alist) :
    asorted m -> asorted (map (fun ga => (fst ga, f (snd ga))) m).
  Proof.
    induction 1 as [|x l Hs IH Hall]; cbn [map]; constructor; [exact IH|].
    rewrite Forall_map. eapply Forall_impl; [|exact Hall]. intros y Hy. exact Hy.
  Qed.

  Lemma sorted_filter (p : N * list (anchor P) -> bool) (m : alist) : asorted m -> asorted (filter p m).
  Proof.
    induction 1 as [|x l Hs IH Hall]; cbn [filter]; [constructor|].
    destruct (p x); [|exact IH]. constructor; [exact IH|].
    rewrite Forall_forall in *. intros y Hy. apply Hall. apply filter_In in Hy. tauto.
  Qed.

  Lemma anchor_lists_sorted classes gs : asorted (anchor_lists P classes gs).
  Proof. unfold anchor_lists. apply sorted_filter, sorted_map_values, pruned0_sorted. Qed.

  (* ---- the live glyphs ----------------------------------------------------------------- *)
  Lemma In_live classes (gs : list (ganchors P)) gid anchors :
    In (gid, anchors) (live P classes gs) <-> In (Some gid, anchors) gs /\ included classes gid = true.
  Proof.
    unfold live. rewrite in_flat_map. split.
    - intros ([o l] & Hin & H). cbn [fst snd] in H. destruct o as [g|]; [|destruct H].
      destruct (included classes g) eqn:I; [|destruct H]. destruct H as [E|[]]. inversion E; subst. auto.
    - intros [Hin I]. exists (Some gid, anchors). split; [exact Hin|]. cbn [fst snd]. rewrite I. left. reflexivity.
  Qed.

  (* glyph ids are unique among the exported glyphs *)
  Definition gids (gs : list (ganchors P)) : list N :=
    flat_map (fun ga => match fst ga with Some g => [g] | None => [] end) gs.

  Lemma live_keys_sub classes (gs : list (ganchors P)) : NoDup (gids gs) -> NoDup (map fst (live P classes gs)).
  Proof.
    unfold gids, live. induction gs as [|[o l] t IH]; cbn [flat_map fst snd]; intro H; [constructor|].
    destruct o as [g|]; cbn [app] in *; [|apply IH; exact H].
    inversion H as [|? ? Hn Hnd]; subst. destruct (included classes g); cbn [app map fst]; [|apply IH; exact Hnd].
    constructor; [|apply IH; exact Hnd]. intro Hin. apply Hn. apply in_map_iff in Hin as ([g' l'] & E & Hin). cbn [fst] in E. subst g'.
    apply in_flat_map in Hin as ([o2 l2] & Hin2 & H2). cbn [fst snd] in H2. destruct o2 as [g2|]; [|destruct H2].
    destruct (included classes g2); [|destruct H2]. destruct H2 as [E|[]]. inversion E; subst.
    apply in_flat_map. exists (Some g, l'). split; [exact Hin2|left; reflexivity].
  Qed.

  (* the pruned anchor lists: for every exported, included glyph, the anchors that survive [keep] *)
  Theorem anchor_lists_spec classes (gs : list (ganchors P)) : NoDup (gids gs) ->
    forall gid l, In (gid, l) (anchor_lists P classes gs) <->
      exists anchors, In (Some gid, anchors) gs /\ included classes gid = true
                      /\ l = filter (keep P (live P classes gs)) anchors /\ l <> [].
  Proof.
    intros Hnd gid l. unfold anchor_lists. rewrite filter_In, in_map_iff. cbn [snd]. split.
    - intros [([g l0] & E & Hin) Hne]. cbn [fst snd] in E. inversion E; subst.
      apply (pruned0_spec _ (live_keys_sub classes gs Hnd)) in Hin as [Hin _]. apply In_live in Hin as [Hin I].
      exists l0. repeat split; auto. intro Z. rewrite Z in Hne. discriminate.
    - intros (anchors & Hin & I & -> & Hne). split.
      + exists (gid, anchors). split; [reflexivity|]. apply (pruned0_spec _ (live_keys_sub classes gs Hnd)).
        split; [apply In_live; auto|]. intro Z. subst anchors. apply Hne. reflexivity.
      + destruct (filter (keep P (live P classes gs)) anchors); [contradiction|reflexivity].
  Qed.
End Prune.
