(* C10 — the value a font yields for a variable anchor coordinate (default coordinate plus the
   scalar-weighted deltas of the non-default regions, as resolve_variable_metric hands them over) is
   the interpolation of all delta sets of the C07 model. *)
From Coq Require Import List ZArith QArith Qabs Qround Bool Lia Lqa Sorting.Permutation.
From FV.C07 Require Model Tents Trim Influence Deltas Main Props.
From FV.C10 Require Import Model ProofsVar.
Import ListNotations.
Local Open Scope Q_scope.

Module VT := FV.C07.Trim.
Module VD := FV.C07.Deltas.

Lemma influence_acc_prefix rs : forall acc, exists tl, V.influence_acc acc rs = acc ++ tl.
Proof.
  induction rs as [|r rs IH]; intro acc; cbn [V.influence_acc].
  - exists []. rewrite app_nil_r. reflexivity.
  - destruct (IH (acc ++ [fold_left V.trim acc r])) as [tl E]. exists (fold_left V.trim acc r :: tl).
    rewrite E, <- app_assoc. reflexivity.
Qed.

Lemma first_region locs o t : V.sort_locations locs = o :: t ->
  nth_error (V.m_infl (V.model_new locs)) 0 = Some (V.region_of (o :: t) o).
Proof.
  intro Hs. unfold V.model_new. cbn [V.m_infl]. unfold V.master_influence, V.regions_for. rewrite Hs.
  cbn [map V.influence_acc fold_left app].
  destruct (influence_acc_prefix (map (V.region_of (o :: t)) t) [V.region_of (o :: t) o]) as [tl E].
  rewrite E. reflexivity.
Qed.

Definition z0 : V.tent := V.mkTent 0 0 0.

Lemma origin_tents s o : VM.is_origin o -> forall i, V.region_tents s i o = map (fun _ => z0) o.
Proof.
  induction 1 as [|v o Hv _ IH]; intro i; cbn [V.region_tents map]; [reflexivity|].
  subst v. cbn. rewrite IH. reflexivity.
Qed.

Lemma zero_tents_scalar (o : V.loc) : forall l, V.scalar_tents (map (fun _ => z0) o) l == 1.
Proof.
  induction o as [|v o IH]; intros [|w l]; cbn [map V.scalar_tents]; try reflexivity.
  rewrite IH. unfold V.tent_scalar, z0. cbn. destruct (w =? 0)%Z; ring.
Qed.

Lemma zero_tents_default (o : V.loc) : forallb negb (map V.tent_nonzero (map (fun _ => z0) o)) = true.
Proof. induction o as [|v o IH]; cbn; [reflexivity|exact IH]. Qed.

Lemma Forall2_nth_error_r {A B} (R : A -> B -> Prop) l1 l2 k b :
  Forall2 R l1 l2 -> nth_error l2 k = Some b -> exists a, nth_error l1 k = Some a /\ R a b.
Proof.
  intro H. revert k. induction H as [|x y l1 l2 Hxy _ IH]; intros [|k] Hk; cbn [nth_error] in *; try discriminate.
  - inversion Hk; subst. eauto.
  - apply IH. exact Hk.
Qed.

Lemma all_nz_false_origin (l : V.loc) : forallb negb (map V.nz l) = true -> VM.is_origin l.
Proof.
  induction l as [|v l IH]; cbn [map forallb]; intro H; [constructor|].
  apply andb_true_iff in H as [Hv Hl]. constructor; [|apply IH; exact Hl].
  unfold V.nz in Hv. rewrite negb_involutive in Hv. apply Z.eqb_eq. exact Hv.
Qed.

(* every delta the rounding model produces is an integer *)
Definition int_delta (kd : nat * Q) : Prop := exists z, snd kd = inject_Z z.

Lemma deltas_from_int ws : forall i vals res, Forall int_delta res -> Forall int_delta (V.deltas_from true i ws vals res).
Proof.
  induction ws as [|w ws IH]; intros i vals res H; cbn [V.deltas_from]; [exact H|].
  destruct vals as [|v vals]; [exact H|]. destruct v as [x|]; [|apply IH; exact H].
  apply IH. apply Forall_app. split; [exact H|]. constructor; [|constructor].
  unfold int_delta. cbn [snd V.apply_rounding]. eauto.
Qed.

Lemma ot_round_int z : ot_round (inject_Z z) = z.
Proof.
  unfold ot_round. assert (E : inject_Z z + (1 # 2) == inject_Z z + (1 # 2)) by reflexivity.
  pose proof (Qfloor_le (inject_Z z + (1 # 2))) as Hlo. pose proof (Qlt_floor (inject_Z z + (1 # 2))) as Hhi.
  rewrite inject_Z_plus in Hhi. change (inject_Z 1) with 1 in Hhi.
  set (f := Qfloor (inject_Z z + (1 # 2))) in *.
  assert (H1 : (f <= z)%Z). { apply Z.lt_succ_r. rewrite Zlt_Qlt. rewrite <- Z.add_1_r, inject_Z_plus. change (inject_Z 1) with 1. lra. }
  assert (H2 : (z <= f)%Z). { apply Z.lt_succ_r. rewrite Zlt_Qlt. rewrite <- Z.add_1_r, inject_Z_plus. change (inject_Z 1) with 1. lra. }
  lia.
Qed.

Lemma ot_round_comp a b : a == b -> ot_round a = ot_round b.
Proof. intro E. unfold ot_round. apply Qfloor_comp. rewrite E. reflexivity. Qed.

Section Split.
  Variables (infl : list V.region) (org : V.loc) (r0 : V.region).
  Hypothesis H0 : nth_error infl 0 = Some r0.
  Hypothesis Hone : forall l, V.scalar_at r0 l == 1.
  Hypothesis Hdef0 : region_is_default r0 = true.
  Hypothesis Hlater : forall k r, k <> 0%nat -> nth_error infl k = Some r ->
    V.scalar_at r org == 0 /\ region_is_default r = false.

  Definition inner (ds : list (nat * Q)) : Q :=
    fold_right (fun kd acc => match nth_error infl (fst kd) with
                              | Some r => let s := V.scalar_at r org in if V.q_nonzero s then snd kd * s + acc else acc
                              | None => acc
                              end) 0 ds.

  Definition outer (l : V.loc) (fd : list (nat * Z)) : Q :=
    fold_right (fun kd acc => match nth_error infl (fst kd) with
                              | Some r => V.scalar_at r l * inject_Z (snd kd) + acc
                              | None => acc
                              end) 0 fd.

  Definition fdeltas (ds : list (nat * Q)) : list (nat * Z) :=
    flat_map (fun kd => match nth_error infl (fst kd) with
                        | Some r => if region_is_default r then [] else [(fst kd, ot_round (snd kd))]
                        | None => []
                        end) ds.

  Lemma q_nonzero_one s : s == 1 -> V.q_nonzero s = true.
  Proof.
    intro E. unfold V.q_nonzero. destruct (Qeq_bool s 0) eqn:B; [|reflexivity].
    apply Qeq_bool_iff in B. rewrite E in B. discriminate.
  Qed.

  Lemma q_nonzero_zero s : s == 0 -> V.q_nonzero s = false.
  Proof. intro E. unfold V.q_nonzero. apply Qeq_bool_iff in E. rewrite E. reflexivity. Qed.

  Lemma split_sum l ds : Forall int_delta ds ->
    exists z, inner ds == inject_Z z
              /\ V.interpolate infl ds l == inject_Z z + outer l (fdeltas ds).
  Proof.
    induction 1 as [|[k d] ds [zd Hd] _ (z & IHi & IHo)]; cbn [inner V.interpolate fdeltas outer flat_map fold_right fst snd] in *.
    - exists 0%Z. split; reflexivity.
    - subst d. destruct (Nat.eq_dec k 0) as [->|Hk].
      + rewrite H0. cbn zeta. rewrite (q_nonzero_one _ (Hone org)), Hdef0. cbn [app].
        exists (zd + z)%Z. fold (inner ds). fold (fdeltas ds). fold (outer l (fdeltas ds)).
        rewrite inject_Z_plus. split.
        * rewrite IHi, (Hone org). ring.
        * rewrite IHo, (Hone l). ring.
      + destruct (nth_error infl k) as [r|] eqn:Er.
        * destruct (Hlater k r Hk Er) as [Hs Hnd]. cbn zeta. rewrite (q_nonzero_zero _ Hs), Hnd.
          cbn [app fold_right fst snd]. rewrite Er, ot_round_int.
          exists z. fold (inner ds). fold (fdeltas ds). fold (outer l (fdeltas ds)). split; [exact IHi|].
          rewrite IHo. ring.
        * cbn [app]. exists z. fold (inner ds). fold (fdeltas ds). fold (outer l (fdeltas ds)). split; [exact IHi|].
          rewrite IHo. ring.
  Qed.
  Lemma outer_origin ds : outer org (fdeltas ds) == 0.
  Proof.
    induction ds as [|[k d] ds IH]; cbn [fdeltas outer flat_map fold_right fst snd]; [reflexivity|].
    fold (fdeltas ds). destruct (nth_error infl k) as [r|] eqn:Er; [|exact IH].
    destruct (region_is_default r) eqn:Ed; [exact IH|]. cbn [app]. unfold outer. cbn [fold_right fst snd]. rewrite Er.
    fold (outer org (fdeltas ds)). rewrite IH.
    destruct (Nat.eq_dec k 0) as [->|Hk]; [rewrite H0 in Er; inversion Er; subst; congruence|].
    destruct (Hlater k r Hk Er) as [Hs _]. rewrite Hs. ring.
  Qed.
End Split.

Lemma model_facts n (ps : list (V.loc * Q)) o : VM.wf_input n (map fst ps) -> In o (map fst ps) -> VM.is_origin o ->
  let m := V.model_new (map fst ps) in
  exists r0, nth_error (V.m_infl m) 0 = Some r0
    /\ (forall l, V.scalar_at r0 l == 1) /\ region_is_default r0 = true
    /\ (forall k r, k <> 0%nat -> nth_error (V.m_infl m) k = Some r -> V.scalar_at r o == 0 /\ region_is_default r = false).
Proof.
  intros W Hin Ho m.
  destruct (VP.default_exact n (map fst ps) o W Hin Ho) as [Hfirst _]. fold m in Hfirst.
  destruct (VM.model_invariants n (map fst ps) W) as (Hperm & Hwf & _). fold m in Hperm, Hwf.
  assert (Hsort : exists t, V.sort_locations (map fst ps) = o :: t).
  { unfold m, V.model_new in Hfirst. cbn [V.m_locs] in Hfirst. destruct (V.sort_locations (map fst ps)) as [|h t]; [discriminate|].
    cbn [nth_error] in Hfirst. inversion Hfirst. eauto. }
  destruct Hsort as [t Hsort].
  pose proof (first_region (map fst ps) o t Hsort) as Hr0. fold m in Hr0.
  exists (V.region_of (o :: t) o). split; [exact Hr0|]. split; [|split].
  - intro l'. unfold V.scalar_at, V.region_of. cbn [V.tents]. rewrite (origin_tents (o :: t) o Ho). apply zero_tents_scalar.
  - unfold region_is_default, V.region_of. cbn [V.active]. rewrite (origin_tents (o :: t) o Ho). apply zero_tents_default.
  - assert (Hnd : NoDup (V.m_locs m)) by (eapply Permutation_NoDup; [symmetry; exact Hperm|exact (proj1 W)]).
    assert (Hlen : Forall (fun a => length a = n) (V.m_locs m)) by (eapply Permutation_Forall; [symmetry; exact Hperm|exact (proj2 W)]).
    intros k r Hk Hr. split.
    + apply (VP.later_has_no_influence n (map fst ps) W 0 k o r); [lia|exact Hfirst|exact Hr].
    + destruct (Forall2_nth_error_r _ _ _ k r Hwf Hr) as (lk & Hlk & [_ Hact]).
      apply not_true_is_false. intro Hd. unfold region_is_default in Hd. rewrite Hact in Hd.
      apply all_nz_false_origin in Hd.
      assert (El : lk = o).
      { rewrite Forall_forall in Hlen. eapply VM.origin_unique; [apply Hlen; eapply nth_error_In; exact Hlk|apply Hlen; eapply nth_error_In; exact Hfirst|exact Hd|exact Ho]. }
      subst lk. apply Hk. apply (proj1 (NoDup_nth_error (V.m_locs m)) Hnd k 0%nat).
      * apply nth_error_Some. rewrite Hlk. discriminate.
      * rewrite Hlk, Hfirst. reflexivity.
Qed.

Theorem font_at_is_var_at n (ps : list (V.loc * Q)) o : VM.wf_input n (map fst ps) -> In o (map fst ps) -> VM.is_origin o ->
  forall l, font_at (var_of ps) o l == var_at (var_of ps) l.
Proof.
  intros W Hin Ho l. rewrite var_of_unfold. unfold font_at, var_at, rvm_default, rvm_deltas. cbn [fst snd].
  destruct (model_facts n ps o W Hin Ho) as (r0 & Hr0 & Hone & Hdef0 & Hlater).
  set (m := V.model_new (map fst ps)) in *. set (ds := V.deltas m true (master_vals ps (V.m_locs m))).
  assert (Hint : Forall int_delta ds) by (unfold ds, V.deltas; apply deltas_from_int; constructor).
  destruct (split_sum (V.m_infl m) o r0 Hr0 Hone Hdef0 Hlater l ds Hint) as (z & Hi & Hs).
  unfold inner in Hi. unfold outer, fdeltas in Hs.
  rewrite Hs. rewrite (ot_round_comp _ _ Hi), ot_round_int. reflexivity.
Qed.

(* hence the bounds of ProofsVar hold for the font's own reading, and the default coordinate written to
   the font is the rounded default-master coordinate *)
Theorem font_at_master n (ps : list (V.loc * Q)) o : VM.wf_input n (map fst ps) -> In o (map fst ps) -> VM.is_origin o ->
  forall l v, In (l, v) ps -> Qabs (font_at (var_of ps) o l - inject_Z (ot_round v)) <= 1 # 2.
Proof. intros W Hin Ho l v Hl. rewrite (font_at_is_var_at n ps o W Hin Ho l). apply (var_at_master n ps W l v Hl). Qed.

Theorem rvm_default_is_rounded_default n (ps : list (V.loc * Q)) o v : VM.wf_input n (map fst ps) -> In (o, v) ps -> VM.is_origin o ->
  rvm_default (var_of ps) o = ot_round v.
Proof.
  intros W Hin Ho.
  assert (Hino : In o (map fst ps)) by (apply in_map_iff; exists (o, v); auto).
  pose proof (font_at_is_var_at n ps o W Hino Ho o) as E. rewrite (var_at_default n ps o v W Hin Ho) in E.
  destruct (model_facts n ps o W Hino Ho) as (r0 & Hr0 & Hone & Hdef0 & Hlater).
  pose proof (outer_origin (V.m_infl (V.model_new (map fst ps))) o r0 Hr0 Hone Hdef0 Hlater (snd (var_of ps))) as Hz.
  unfold font_at in E. unfold outer, fdeltas in Hz. unfold rvm_deltas in E.
  rewrite var_of_unfold in E, Hz. cbn [fst snd] in E, Hz. rewrite Hz in E. rewrite Qplus_0_r in E.
  apply (proj1 (inject_Z_injective _ _)) in E. rewrite var_of_unfold. exact E.
Qed.
