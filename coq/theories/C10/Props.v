(* C10 — Mark attachment in the font places marks on the source's anchors.
   Property theorems; the proofs are in ProofsNames, ProofsMM, ProofsGroups, ProofsPrune, ProofsLiga,
   ProofsMain, ProofsVar, ProofsGdef.

   Input of the model: the classes the source assigns (explicit categories; [] = none) and, per glyph,
   its id in the final glyph order (None: not exported) and its anchors (kind from AnchorKind::new, and
   what the anchor carries: its position at every master location that defines it).
   Well-formedness ([wf_source]): one anchors record per exported glyph; within a glyph no two anchors
   of the same kind (for base and mark anchors this follows from the names being distinct,
   [anchor_kinds_distinct_for_distinct_names]; for ligature anchors it excludes the aliases
   [ligature_anchor_names_alias_refuted]). *)
From Coq Require Import List NArith ZArith QArith Qabs Qround Bool.
From FV.C07 Require Model Main Props.
From FV.C10 Require Import Model ProofsMM ProofsGroups ProofsPrune ProofsLiga ProofsMain ProofsVar ProofsFont ProofsGdef ProofsNames.
Import ListNotations.
Local Open Scope Q_scope.

Definition wf_source {P} (gs : list (ganchors P)) : Prop :=
  NoDup (gids P gs) /\ forall o anchors, In (o, anchors) gs -> uniq_kinds P anchors.

(* ======================================================================================= *)
(* A. anchor names                                                                           *)
(* ======================================================================================= *)

(* The mark anchor that matches base anchor `g` is the anchor named `_g`, and it is also the one that
   matches the ligature anchors `g_1`, `g_2`, ... (any numeral <usize>::from_str accepts, not 0). *)
Theorem matching_mark_anchor_is_underscore_name : forall nm g,
  kind_new nm = inl (KMark g) ->
  (forall nb, kind_new nb = inl (KBase g) -> nm = c_us :: nb)
  /\ (forall nl i, kind_new nl = inl (KLig g i) ->
        nm = c_us :: g /\ exists d, nl = g ++ c_us :: d /\ parse_usize d = Some i /\ i <> 0%N).
Proof.
  intros nm g Hm. split.
  - intros nb Hb. exact (matching_mark_anchor_of_base nb nm g Hb Hm).
  - intros nl i Hl. exact (matching_mark_anchor_of_ligature nl nm g i Hl Hm).
Qed.
Print Assumptions matching_mark_anchor_is_underscore_name.

(* Two anchors of a glyph (distinct names) never collide as base or mark anchors of one group. *)
Theorem anchor_kinds_distinct_for_distinct_names : forall n1 n2 k,
  kind_new n1 = inl k -> kind_new n2 = inl k -> is_base_or_mark k = true -> n1 = n2.
Proof. exact base_mark_kinds_injective. Qed.
Print Assumptions anchor_kinds_distinct_for_distinct_names.

(* to_name . new = id on base and mark anchor names ... *)
Theorem anchor_kind_prints_back : forall n k,
  kind_new n = inl k -> is_base_or_mark k = true -> to_name k = n.
Proof. exact to_name_of_base_mark. Qed.
Print Assumptions anchor_kind_prints_back.

(* ... and not on ligature anchor names: `top_1` and `top_01` are the same (group, index), so two
   anchors of one glyph can claim the same component slot (the later one wins) and to_name is lossy. *)
Theorem ligature_anchor_names_alias_refuted :
  exists n1 n2 k, n1 <> n2 /\ kind_new n1 = inl k /\ kind_new n2 = inl k /\ to_name k <> n2.
Proof. exact ligature_names_alias_refuted. Qed.
Print Assumptions ligature_anchor_names_alias_refuted.

(* No classified anchor has index 0: `component_anchors[index - 1]` cannot underflow. *)
Theorem anchor_index_nonzero : forall n,
  match kind_new n with
  | inl (KLig _ i) | inl (KCompMarker i) | inl (KCaret i) | inl (KVCaret i) => i <> 0%N
  | _ => True
  end.
Proof. exact kind_new_index_nonzero. Qed.
Print Assumptions anchor_index_nonzero.

(* The numeral to_name prints for an index parses back to the index. *)
Theorem numeral_parses_back : forall i, (i <= usize_max)%N -> parse_usize (dec i) = Some i.
Proof. exact parse_usize_dec. Qed.
Print Assumptions numeral_parses_back.

(* ======================================================================================= *)
(* B. every pair that shares an anchor name is attached, by the source's two anchors         *)
(* ======================================================================================= *)
Section B.
  Variables (P R : Type) (resolve : P -> R) (classes : list (N * cls)) (gs : list (ganchors P)).
  Hypothesis W : wf_source gs.

  (* base glyph anchor `g`  x  mark glyph anchor `_g`: a MarkBasePos lookup of the mark feature *)
  Theorem base_anchor_mark_attached : forall b g pb m pm,
    src_base_glyph P classes gs b -> src_anchor P gs b (KBase g) pb ->
    src_mark_glyph P classes gs m -> src_anchor P gs m (KMark g) pm ->
    exists lk, In lk (mark_feature P R resolve classes gs) /\ l_type lk = 4%N /\ l_name lk = g
               /\ attach lk b 0 m = Some (resolve pb, resolve pm).
  Proof. destruct W as [W1 W2]. exact (base_pair_attached P R resolve classes gs W1 W2). Qed.

  (* mark glyph anchor `g`  x  mark glyph anchor `_g`: a MarkMarkPos lookup of the mkmk feature whose
     mark filtering set keeps both glyphs *)
  Theorem mark_anchor_mark_attached : forall b g pb m pm,
    src_mark_glyph P classes gs b -> src_anchor P gs b (KBase g) pb ->
    src_mark_glyph P classes gs m -> src_anchor P gs m (KMark g) pm ->
    exists lk, In lk (mkmk_feature P R resolve classes gs) /\ l_type lk = 6%N /\ l_name lk = g
               /\ attach lk b 0 m = Some (resolve pb, resolve pm).
  Proof. destruct W as [W1 W2]. exact (mark_pair_attached P R resolve classes gs W1 W2). Qed.

  (* ligature glyph anchor `g_i`  x  mark glyph anchor `_g`: component i of a MarkLigPos lookup *)
  Theorem ligature_anchor_mark_attached : forall L g i pl m pm,
    src_lig_glyph P classes gs L -> src_anchor P gs L (KLig g i) pl -> i <> 0%N ->
    src_mark_glyph P classes gs m -> src_anchor P gs m (KMark g) pm ->
    exists lk, In lk (mark_feature P R resolve classes gs) /\ l_type lk = 5%N /\ l_name lk = g
               /\ attach lk L i m = Some (resolve pl, resolve pm).
  Proof. destruct W as [W1 W2]. exact (lig_pair_attached P R resolve classes gs W1 W2). Qed.

  (* nothing else is attached *)
  Theorem mark_feature_attaches_only_source_pairs : forall lk b comp m rb rm,
    In lk (mark_feature P R resolve classes gs) -> attach lk b comp m = Some (rb, rm) ->
    exists pb pm, rb = resolve pb /\ rm = resolve pm
      /\ src_mark_glyph P classes gs m /\ src_anchor P gs m (KMark (l_name lk)) pm
      /\ ((l_type lk = 4%N /\ comp = 0%N /\ src_base_glyph P classes gs b /\ src_anchor P gs b (KBase (l_name lk)) pb)
          \/ (l_type lk = 5%N /\ comp <> 0%N /\ src_lig_glyph P classes gs b /\ src_anchor P gs b (KLig (l_name lk) comp) pb)).
  Proof. destruct W as [W1 W2]. exact (mark_feature_sound P R resolve classes gs W1). Qed.

  Theorem mkmk_feature_attaches_only_source_pairs : forall lk b comp m rb rm,
    In lk (mkmk_feature P R resolve classes gs) -> attach lk b comp m = Some (rb, rm) ->
    exists pb pm, rb = resolve pb /\ rm = resolve pm /\ l_type lk = 6%N /\ comp = 0%N
      /\ src_mark_glyph P classes gs m /\ src_anchor P gs m (KMark (l_name lk)) pm
      /\ src_mark_glyph P classes gs b /\ src_anchor P gs b (KBase (l_name lk)) pb.
  Proof. destruct W as [W1 W2]. exact (mkmk_feature_sound P R resolve classes gs W1). Qed.

  (* each anchor name has one lookup of each kind, and in it each glyph has one record: the builders'
     "previously assigned class" error that the code ignores cannot occur *)
  Theorem one_lookup_per_anchor_name : forall lk lk',
    (In lk (mark_feature P R resolve classes gs) /\ In lk' (mark_feature P R resolve classes gs))
    \/ (In lk (mkmk_feature P R resolve classes gs) /\ In lk' (mkmk_feature P R resolve classes gs)) ->
    l_type lk = l_type lk' -> l_name lk = l_name lk' -> lk = lk'.
  Proof. exact (lookup_per_name_unique P R resolve classes gs). Qed.

  Theorem one_record_per_glyph : forall lk,
    In lk (mark_feature P R resolve classes gs) \/ In lk (mkmk_feature P R resolve classes gs) ->
    (forall m r r', In (m, r) (l_marks lk) -> In (m, r') (l_marks lk) -> r = r')
    /\ (forall b r r', In (b, r) (l_bases lk) -> In (b, r') (l_bases lk) -> r = r').
  Proof. destruct W as [W1 W2]. exact (lookup_records_unique P R resolve classes gs W1 W2). Qed.
End B.
Print Assumptions base_anchor_mark_attached.
Print Assumptions mark_anchor_mark_attached.
Print Assumptions ligature_anchor_mark_attached.
Print Assumptions mark_feature_attaches_only_source_pairs.
Print Assumptions mkmk_feature_attaches_only_source_pairs.
Print Assumptions one_lookup_per_anchor_name.
Print Assumptions one_record_per_glyph.

(* ======================================================================================= *)
(* C. anchor coordinates at every master (with C07)                                          *)
(* ======================================================================================= *)
(* a variable anchor read at the location of a master that defines it is within 1/2 of that
   master's rounded coordinates; at the default master it is exactly the rounded coordinates *)
Theorem anchor_in_font_at_every_master : forall n (p : positions), FV.C07.Main.wf_input n (map fst p) ->
  forall l x y, In (l, (x, y)) p ->
    Qabs (fst (anchor_at (resolve_anchor p) l) - inject_Z (ot_round x)) <= 1 # 2
    /\ Qabs (snd (anchor_at (resolve_anchor p) l) - inject_Z (ot_round y)) <= 1 # 2.
Proof. exact anchor_at_master. Qed.
Print Assumptions anchor_in_font_at_every_master.

Theorem anchor_in_font_at_default_exact : forall n (p : positions) o x y,
  FV.C07.Main.wf_input n (map fst p) -> In (o, (x, y)) p -> FV.C07.Main.is_origin o ->
  fst (anchor_at (resolve_anchor p) o) == inject_Z (ot_round x)
  /\ snd (anchor_at (resolve_anchor p) o) == inject_Z (ot_round y).
Proof. exact anchor_at_default. Qed.
Print Assumptions anchor_in_font_at_default_exact.

(* [anchor_at] / [var_at] interpolate all delta sets of the variation model; the code hands the font a
   default coordinate plus the deltas of the non-default regions.  The two readings agree at every
   location, and the default coordinate is the rounded default-master coordinate. *)
Theorem font_reading_is_interpolation : forall n (ps : list (V.loc * Q)) o,
  FV.C07.Main.wf_input n (map fst ps) -> In o (map fst ps) -> FV.C07.Main.is_origin o ->
  forall l, font_at (var_of ps) o l == var_at (var_of ps) l.
Proof. exact font_at_is_var_at. Qed.
Print Assumptions font_reading_is_interpolation.

Theorem default_coordinate_is_rounded_default_master : forall n (ps : list (V.loc * Q)) o v,
  FV.C07.Main.wf_input n (map fst ps) -> In (o, v) ps -> FV.C07.Main.is_origin o ->
  rvm_default (var_of ps) o = ot_round v.
Proof. exact rvm_default_is_rounded_default. Qed.
Print Assumptions default_coordinate_is_rounded_default_master.

(* The property, whole: for every well-formed source, every attaching anchor (of a base glyph, of a
   mark glyph, of component i of a ligature glyph) and every mark glyph with the matching `_` anchor,
   the mark (for marks on marks: mkmk) feature holds a lookup that makes exactly these two anchors
   coincide, and at every master location that defines both anchors each coordinate read from the
   font is within 1/2 of the rounded source coordinate (so the offset applied to the mark is within
   1 of the offset between the rounded source anchors), with equality at the default master. *)
Inductive attaching := ABase | AMark | ALig (i : N).

Definition attaching_anchor (classes : list (N * cls)) (gs : list (ganchors positions))
           (a : attaching) (b : N) (g : str) (pb : positions) : Prop :=
  match a with
  | ABase => src_base_glyph positions classes gs b /\ src_anchor positions gs b (KBase g) pb
  | AMark => src_mark_glyph positions classes gs b /\ src_anchor positions gs b (KBase g) pb
  | ALig i => src_lig_glyph positions classes gs b /\ src_anchor positions gs b (KLig g i) pb /\ i <> 0%N
  end.

Definition feature_of (classes : list (N * cls)) (gs : list (ganchors positions)) (a : attaching) :
  list (lookup (var * var)) :=
  match a with
  | AMark => mkmk_feature positions (var * var) resolve_anchor classes gs
  | _ => mark_feature positions (var * var) resolve_anchor classes gs
  end.

Definition comp_of (a : attaching) : N := match a with ALig i => i | _ => 0%N end.

Theorem marks_attach_on_source_anchors : forall classes (gs : list (ganchors positions)) n,
  wf_source gs ->
  forall a b g pb m pm,
    attaching_anchor classes gs a b g pb ->
    src_mark_glyph positions classes gs m -> src_anchor positions gs m (KMark g) pm ->
    FV.C07.Main.wf_input n (map fst pb) -> FV.C07.Main.wf_input n (map fst pm) ->
    exists lk rb rm,
      In lk (feature_of classes gs a) /\ attach lk b (comp_of a) m = Some (rb, rm)
      /\ forall l xb yb xm ym, In (l, (xb, yb)) pb -> In (l, (xm, ym)) pm ->
           (Qabs (fst (anchor_at rb l) - inject_Z (ot_round xb)) <= 1 # 2
            /\ Qabs (snd (anchor_at rb l) - inject_Z (ot_round yb)) <= 1 # 2
            /\ Qabs (fst (anchor_at rm l) - inject_Z (ot_round xm)) <= 1 # 2
            /\ Qabs (snd (anchor_at rm l) - inject_Z (ot_round ym)) <= 1 # 2)
           /\ (Qabs ((fst (anchor_at rb l) - fst (anchor_at rm l)) - (inject_Z (ot_round xb) - inject_Z (ot_round xm))) <= 1
               /\ Qabs ((snd (anchor_at rb l) - snd (anchor_at rm l)) - (inject_Z (ot_round yb) - inject_Z (ot_round ym))) <= 1)
           /\ (FV.C07.Main.is_origin l ->
               fst (anchor_at rb l) == inject_Z (ot_round xb) /\ snd (anchor_at rb l) == inject_Z (ot_round yb)
               /\ fst (anchor_at rm l) == inject_Z (ot_round xm) /\ snd (anchor_at rm l) == inject_Z (ot_round ym)).
Proof.
  intros classes gs n W a b g pb m pm Ha Hm Ham Wb Wm.
  assert (E : exists lk, In lk (feature_of classes gs a) /\ attach lk b (comp_of a) m = Some (resolve_anchor pb, resolve_anchor pm)).
  { destruct a as [| |i]; cbn [attaching_anchor feature_of comp_of] in *.
    - destruct Ha as [Hb Hab]. destruct (base_anchor_mark_attached positions (var * var) resolve_anchor classes gs W b g pb m pm Hb Hab Hm Ham) as (lk & H1 & _ & _ & H2). eauto.
    - destruct Ha as [Hb Hab]. destruct (mark_anchor_mark_attached positions (var * var) resolve_anchor classes gs W b g pb m pm Hb Hab Hm Ham) as (lk & H1 & _ & _ & H2). eauto.
    - destruct Ha as (Hb & Hab & Hi). destruct (ligature_anchor_mark_attached positions (var * var) resolve_anchor classes gs W b g i pb m pm Hb Hab Hi Hm Ham) as (lk & H1 & _ & _ & H2). eauto. }
  destruct E as (lk & Hin & Hat). exists lk, (resolve_anchor pb), (resolve_anchor pm). split; [exact Hin|]. split; [exact Hat|].
  intros l xb yb xm ym Hb Hmm.
  destruct (anchor_at_master n pb Wb l xb yb Hb) as [B1 B2]. destruct (anchor_at_master n pm Wm l xm ym Hmm) as [M1 M2].
  split; [auto|]. split; [exact (offset_at_master n pb pm Wb Wm l xb yb xm ym Hb Hmm)|].
  intro Ho. destruct (anchor_at_default n pb l xb yb Wb Hb Ho). destruct (anchor_at_default n pm l xm ym Wm Hmm Ho). auto.
Qed.
Print Assumptions marks_attach_on_source_anchors.

(* ======================================================================================= *)
(* D. GDEF                                                                                   *)
(* ======================================================================================= *)
(* Glyphs the source classifies as marks are GDEF marks: the category recomputation after anchor
   propagation keeps every mark and creates none ([p]: preliminary category, [h]: has an attaching
   anchor), and the class definition written from the categories gives each exported glyph its class. *)
Theorem recomputed_category_is_mark_iff : forall infer p h, final_cat infer p h = Some CMark <-> p = Some CMark.
Proof. exact final_cat_mark_iff. Qed.
Print Assumptions recomputed_category_is_mark_iff.

Theorem recomputed_category_table :
  (forall p h, final_cat false p h = p)
  /\ (forall h, final_cat true (Some CMark) h = Some CMark)
  /\ (forall h, final_cat true (Some CBase) h = Some CBase)
  /\ (forall h, final_cat true (Some CComp) h = Some CComp)
  /\ final_cat true (Some CLig) true = Some CLig /\ final_cat true (Some CLig) false = None
  /\ final_cat true None true = Some CBase /\ final_cat true None false = None.
Proof. exact final_cat_table. Qed.
Print Assumptions recomputed_category_table.

Theorem source_marks_are_gdef_marks : forall cats g, NoDup (cat_gids cats) -> In (Some g, CMark) cats ->
  class_of (gdef_from_categories cats) g = Some CMark.
Proof. intros cats g H1 H2. exact (gdef_from_categories_class cats g CMark H1 H2). Qed.
Print Assumptions source_marks_are_gdef_marks.

(* Without source categories fea-rs infers the classes from the mark lookups: every glyph the lookups
   attach as a mark gets class Mark.  (make_mark_to_liga_groups skips mark glyphs; before that repair a
   mark glyph with a numbered anchor was also the ligature of a MarkLigPos lookup and the class inferred
   last, Ligature, won - see [former_gdef_witness].) *)
Theorem attached_marks_are_inferred_gdef_marks : forall (P R : Type) (resolve : P -> R) classes (gs : list (ganchors P)),
  wf_source gs -> forall m,
  is_attached_mark R (mark_feature P R resolve classes gs ++ mkmk_feature P R resolve classes gs) m ->
  class_of (infer_classes (mark_feature P R resolve classes gs ++ mkmk_feature P R resolve classes gs)) m = Some CMark.
Proof. intros P R resolve classes gs [W1 W2]. exact (attached_marks_inferred_marks P R resolve classes gs W1). Qed.
Print Assumptions attached_marks_are_inferred_gdef_marks.

(* a mark glyph is never the attaching glyph of a mark-to-base or mark-to-ligature lookup *)
Theorem mark_glyphs_are_never_bases_or_ligatures : forall (P R : Type) (resolve : P -> R) classes (gs : list (ganchors P)),
  wf_source gs -> forall m, src_mark_glyph P classes gs m ->
  forall lk, In lk (mark_feature P R resolve classes gs ++ mkmk_feature P R resolve classes gs) ->
    (l_type lk = 4%N \/ l_type lk = 5%N) -> ~ In m (map fst (l_bases lk)).
Proof. intros P R resolve classes gs [W1 W2] m Hm. exact (mark_never_base P R resolve classes gs W1 m Hm). Qed.
Print Assumptions mark_glyphs_are_never_bases_or_ligatures.

(* the three-glyph source that refuted the statement before the repair: glyph 2 (`_x2`, `c_1`) is a mark
   of the only lookup, a ligature of none, and inferred to be a mark *)
Example former_gdef_witness :
  wf_source gdef_witness
  /\ In 2%N (mark_glyphs unit [] (anchor_lists unit [] gdef_witness))
  /\ map (fun lk => (l_type lk, map fst (l_marks lk), map fst (l_bases lk))) witness_lookups = [(4%N, [2%N], [1%N])]
  /\ class_of (infer_classes witness_lookups) 2%N = Some CMark.
Proof.
  split; [|exact gdef_witness_facts]. split.
  - unfold gids, gdef_witness. cbn. repeat constructor; cbn; intuition discriminate.
  - intros o anchors Hin a a' Ha Ha' E. unfold gdef_witness in Hin. cbn [In] in Hin.
    repeat (destruct Hin as [Hin|Hin]; [inversion Hin; subst; cbn [In] in Ha, Ha';
      repeat (destruct Ha as [Ha|Ha]; [subst a|]); repeat (destruct Ha' as [Ha'|Ha']; [subst a'|]);
      try contradiction; try reflexivity; discriminate|]). destruct Hin.
Qed.

(* the memoised variation models of the case evaluation are the variation models *)
Theorem case_evaluation_cache_invisible : forall ks classes gs masters omark omkmk,
  e2e_ok_with (cached (build_cache ks)) classes gs masters omark omkmk
  = e2e_ok_with V.model_new classes gs masters omark omkmk.
Proof. exact e2e_cache_invisible. Qed.
Print Assumptions case_evaluation_cache_invisible.

(* ======================================================================================= *)
(* the hypotheses are satisfiable, the conclusions not vacuous                               *)
(* ======================================================================================= *)
(* two masters (default and wght = 1, in F2Dot14 units); glyph 1 `A` with `top` and `bottom`, glyph 2
   `acutecomb` with `_top` and `top` (so marks stack on it), glyph 3 `dotbelowcomb` with `_bottom`,
   glyph 4 `f_i` with `top_1`, `top_2`; no categories *)
Definition s_top : str := [116; 111; 112]%N.
Definition s_bottom : str := [98; 111; 116; 116; 111; 109]%N.
Definition l0 : V.loc := [0%Z].
Definition l1 : V.loc := [16384%Z].
Definition ex_src : list (ganchors positions) :=
  [ (Some 1%N, [mkAnchor (KBase s_top) [(l0, (300 # 1, 700 # 1)); (l1, (321 # 2, 1401 # 2))];
                mkAnchor (KBase s_bottom) [(l0, (300 # 1, -(10 # 1)))]]);
    (Some 2%N, [mkAnchor (KMark s_top) [(l0, (100 # 1, 500 # 1)); (l1, (120 # 1, 510 # 1))];
                mkAnchor (KBase s_top) [(l0, (100 # 1, 650 # 1)); (l1, (120 # 1, 680 # 1))]]);
    (Some 3%N, [mkAnchor (KMark s_bottom) [(l0, (90 # 1, -(5 # 2)))]]);
    (Some 4%N, [mkAnchor (KLig s_top 1) [(l0, (150 # 1, 700 # 1)); (l1, (160 # 1, 700 # 1))];
                mkAnchor (KLig s_top 2) [(l0, (450 # 1, 700 # 1)); (l1, (470 # 1, 700 # 1))]]) ].

Lemma ex_gids : NoDup (gids positions ex_src).
Proof. unfold gids, ex_src. cbn. repeat constructor; cbn; intuition discriminate. Qed.

Example ex_wf : wf_source ex_src.
Proof.
  split; [exact ex_gids|].
  intros o anchors Hin a a' Ha Ha' E. unfold ex_src, s_top, s_bottom in Hin. cbn [In] in Hin.
  repeat (destruct Hin as [Hin|Hin]; [inversion Hin; subst; cbn [In] in Ha, Ha';
    repeat (destruct Ha as [Ha|Ha]; [subst a|]); repeat (destruct Ha' as [Ha'|Ha']; [subst a'|]);
    try contradiction; try reflexivity; discriminate|]). destruct Hin.
Qed.

(* every demanded attachment of the example, through [marks_attach_on_source_anchors]'s hypotheses:
   A.top x acutecomb._top (base), acutecomb.top x acutecomb._top (mark on mark), f_i.top_2 x acutecomb._top *)
Example ex_demands :
  attaching_anchor [] ex_src ABase 1%N s_top [(l0, (300 # 1, 700 # 1)); (l1, (321 # 2, 1401 # 2))]
  /\ attaching_anchor [] ex_src AMark 2%N s_top [(l0, (100 # 1, 650 # 1)); (l1, (120 # 1, 680 # 1))]
  /\ attaching_anchor [] ex_src (ALig 2) 4%N s_top [(l0, (450 # 1, 700 # 1)); (l1, (470 # 1, 700 # 1))]
  /\ src_anchor positions ex_src 2%N (KMark s_top) [(l0, (100 # 1, 500 # 1)); (l1, (120 # 1, 510 # 1))].
Proof.
  assert (M2 : src_mark_glyph positions [] ex_src 2%N).
  { apply (In_mg_iff positions [] ex_src ex_gids). vm_compute. left. reflexivity. }
  assert (B1 : src_base_glyph positions [] ex_src 1%N).
  { apply (src_base_iff positions [] ex_src ex_gids). split; vm_compute; reflexivity. }
  assert (S : forall gid k p anchors, In (Some gid, anchors) ex_src -> In (mkAnchor k p) anchors -> src_anchor positions ex_src gid k p)
    by (intros gid k p anchors H1 H2; exists anchors; auto).
  unfold attaching_anchor. split; [split; [exact B1|]|split; [split; [exact M2|]|split; [split; [|split; [|discriminate]]|]]].
  - eapply S; [left; reflexivity|left; reflexivity].
  - eapply S; [right; left; reflexivity|right; left; reflexivity].
  - split; [reflexivity|]. split; [|left; reflexivity].
    intro H. apply (In_mg_iff positions [] ex_src ex_gids) in H. vm_compute in H. intuition discriminate.
  - eapply S; [do 3 right; left; reflexivity|right; left; reflexivity].
  - eapply S; [right; left; reflexivity|left; reflexivity].
Qed.

Example ex_layout_wf : FV.C07.Main.wf_input 1 [l0; l1].
Proof. split; [repeat constructor; cbn; intuition discriminate|repeat constructor]. Qed.

(* the classification of the example's glyphs, through the computable characterisations *)
Example ex_marks : forall m, In m [2%N; 3%N] -> src_mark_glyph positions [] ex_src m.
Proof. intros m Hm. apply (In_mg_iff positions [] ex_src ex_gids). vm_compute. cbn [In] in Hm. intuition. Qed.

Example ex_base : src_base_glyph positions [] ex_src 1%N.
Proof. apply (src_base_iff positions [] ex_src ex_gids). split; vm_compute; reflexivity. Qed.

Example ex_lig : src_lig_glyph positions [] ex_src 4%N.
Proof.
  split; [reflexivity|]. split; [|left; reflexivity].
  intro H. apply (In_mg_iff positions [] ex_src ex_gids) in H. vm_compute in H. intuition discriminate.
Qed.

(* what the model emits for it: three lookups in mark (top, bottom; top on the ligature), one in mkmk *)
Example ex_lookups :
  map (fun lk => (l_type lk, l_name lk, map fst (l_marks lk), map fst (l_bases lk), l_filter lk))
      (mark_feature positions (var * var) resolve_anchor [] ex_src ++ mkmk_feature positions (var * var) resolve_anchor [] ex_src)
  = [ (4, s_bottom, [3], [1], None); (4, s_top, [2], [1], None); (5, s_top, [2], [4], None);
      (6, s_top, [2], [2], Some [2]) ]%N.
Proof. vm_compute. reflexivity. Qed.

(* the base's `top` anchor at the second master: source (160.5, 700.5) rounds half up to (161, 701) *)
Example ex_value :
  let r := resolve_anchor [(l0, (300 # 1, 700 # 1)); (l1, (321 # 2, 1401 # 2))] in
  Qeq_bool (fst (anchor_at r l1)) (161 # 1) && Qeq_bool (snd (anchor_at r l1)) (701 # 1)
  && Qeq_bool (fst (anchor_at r l0)) (300 # 1) = true.
Proof. vm_compute. reflexivity. Qed.
