(* C10 — the sorted association list (BTreeMap) used for anchor lists and mark groups. *)
From Coq Require Import List NArith ZArith Bool Lia Sorting.Sorted.
From FV.C10 Require Import Model.
Import ListNotations.

Section MMP.
  Variables (K W : Type) (cmp : K -> K -> comparison).
  Hypothesis cmp_eq : forall a b, cmp a b = Eq <-> a = b.
  Hypothesis cmp_anti : forall a b, cmp a b = CompOpp (cmp b a).
  Hypothesis cmp_trans : forall a b c, cmp a b = Lt -> cmp b c = Lt -> cmp a c = Lt.

  Definition klt (x y : K * W) : Prop := cmp (fst x) (fst y) = Lt.
  Definition sorted (m : list (K * W)) : Prop := StronglySorted klt m.
  Definition above (k0 : K) (x : K * W) : Prop := cmp k0 (fst x) = Lt.

  Lemma cmp_refl a : cmp a a = Eq.
  Proof. apply cmp_eq. reflexivity. Qed.

  Lemma cmp_gt_lt a b : cmp a b = Gt -> cmp b a = Lt.
  Proof. intro H. rewrite cmp_anti, H. reflexivity. Qed.

  Lemma sorted_nil : sorted [].
  Proof. constructor. Qed.

  Lemma find_none_below m k : sorted m -> Forall (above k) m -> mm_find cmp m k = None.
  Proof.
    induction m as [|[k1 v] t IH]; intros Hs Hall; [reflexivity|].
    cbn [mm_find]. inversion Hall as [|? ? H1 Ht]; subst. cbn [fst] in H1. rewrite H1.
    apply IH; [inversion Hs; assumption|exact Ht].
  Qed.

  Lemma below_head k k1 v t : sorted ((k1, v) :: t) -> cmp k k1 = Lt ->
    Forall (above k) ((k1, v) :: t).
  Proof.
    intros Hs Hlt. constructor; [exact Hlt|].
    inversion Hs as [|? ? _ Hall]; subst. eapply Forall_impl; [|exact Hall].
    intros x Hx. unfold klt in Hx. cbn [fst] in Hx. eapply cmp_trans; eassumption.
  Qed.

  Lemma upd_keys_ge m k d f k0 :
    Forall (above k0) m -> cmp k0 k = Lt ->
    Forall (above k0) (mm_upd cmp m k d f).
  Proof.
    induction m as [|[k1 v] t IH]; intros Hall Hk; cbn [mm_upd].
    - constructor; [exact Hk|constructor].
    - inversion Hall as [|? ? H1 Ht]; subst. destruct (cmp k k1) eqn:E.
      + constructor; [exact H1|exact Ht].
      + constructor; [exact Hk|exact Hall].
      + constructor; [exact H1|apply IH; assumption].
  Qed.

  Lemma mm_upd_sorted m k d f : sorted m -> sorted (mm_upd cmp m k d f).
  Proof.
    induction m as [|[k1 v] t IH]; intro Hs; cbn [mm_upd].
    - constructor; constructor.
    - inversion Hs as [|? ? Hst Hall]; subst. destruct (cmp k k1) eqn:E.
      + constructor; [exact Hst|exact Hall].
      + constructor; [exact Hs|]. apply (below_head k k1 v t Hs E).
      + constructor; [apply IH; exact Hst|].
        apply (upd_keys_ge t k d f k1); [exact Hall|apply cmp_gt_lt; exact E].
  Qed.

  Lemma mm_find_upd m k d f k' : sorted m ->
    mm_find cmp (mm_upd cmp m k d f) k' =
    match cmp k' k with
    | Eq => Some (f (match mm_find cmp m k with Some v => v | None => d end))
    | _ => mm_find cmp m k'
    end.
  Proof.
    induction m as [|[k1 v] t IH]; intro Hs; cbn [mm_upd mm_find].
    - destruct (cmp k' k); reflexivity.
    - inversion Hs as [|? ? Hst Hall]; subst. destruct (cmp k k1) eqn:E.
      + apply cmp_eq in E. subst k1. cbn [mm_find]. destruct (cmp k' k); reflexivity.
      + cbn [mm_find]. destruct (cmp k' k) eqn:E'.
        * rewrite (find_none_below t k Hst); [reflexivity|].
          pose proof (below_head k k1 v t Hs E) as B. inversion B; assumption.
        * reflexivity.
        * reflexivity.
      + cbn [mm_find]. destruct (cmp k' k1) eqn:E1.
        * apply cmp_eq in E1. subst k'. rewrite (cmp_gt_lt _ _ E). reflexivity.
        * rewrite (IH Hst). reflexivity.
        * rewrite (IH Hst). reflexivity.
  Qed.

  Lemma modify_keys_ge m k f k0 :
    Forall (above k0) m -> Forall (above k0) (mm_modify cmp m k f).
  Proof.
    induction m as [|[k1 v] t IH]; intro Hall; cbn [mm_modify]; [constructor|].
    inversion Hall as [|? ? H1 Ht]; subst. destruct (cmp k k1); constructor; auto.
  Qed.

  Lemma mm_modify_sorted m k f : sorted m -> sorted (mm_modify cmp m k f).
  Proof.
    induction m as [|[k1 v] t IH]; intro Hs; cbn [mm_modify]; [constructor|].
    inversion Hs as [|? ? Hst Hall]; subst.
    destruct (cmp k k1).
    - constructor; [exact Hst|exact Hall].
    - constructor; [apply IH; exact Hst|]. apply (modify_keys_ge t k f k1). exact Hall.
    - constructor; [apply IH; exact Hst|]. apply (modify_keys_ge t k f k1). exact Hall.
  Qed.

  Lemma mm_find_modify (m : list (K * W)) k f k' :
    mm_find cmp (mm_modify cmp m k f) k' =
    match cmp k' k with
    | Eq => option_map f (mm_find cmp m k)
    | _ => mm_find cmp m k'
    end.
  Proof.
    induction m as [|[k1 v] t IH]; cbn [mm_modify mm_find].
    - destruct (cmp k' k); reflexivity.
    - destruct (cmp k k1) eqn:E.
      + apply cmp_eq in E. subst k1. cbn [mm_find]. destruct (cmp k' k); reflexivity.
      + cbn [mm_find]. destruct (cmp k' k1) eqn:E1.
        * apply cmp_eq in E1. subst k'. rewrite (cmp_anti k1 k), E. reflexivity.
        * rewrite IH. destruct (cmp k' k); reflexivity.
        * rewrite IH. destruct (cmp k' k); reflexivity.
      + cbn [mm_find]. destruct (cmp k' k1) eqn:E1.
        * apply cmp_eq in E1. subst k'. rewrite (cmp_anti k1 k), E. reflexivity.
        * rewrite IH. destruct (cmp k' k); reflexivity.
        * rewrite IH. destruct (cmp k' k); reflexivity.
  Qed.

  Lemma find_In m k v : sorted m -> (mm_find cmp m k = Some v <-> In (k, v) m).
  Proof.
    induction m as [|[k1 v1] t IH]; intro Hs; cbn [mm_find In]; [split; [discriminate|tauto]|].
    inversion Hs as [|? ? Hst Hall]; subst. destruct (cmp k k1) eqn:E.
    - apply cmp_eq in E. subst k1. split.
      + intro H. left. congruence.
      + intros [H|H]; [congruence|]. rewrite Forall_forall in Hall. specialize (Hall _ H).
        unfold klt in Hall. cbn [fst] in Hall. rewrite cmp_refl in Hall. discriminate.
    - rewrite (IH Hst). split; [tauto|]. intros [H|H]; [|exact H].
      inversion H; subst. rewrite cmp_refl in E. discriminate.
    - rewrite (IH Hst). split; [tauto|]. intros [H|H]; [|exact H].
      inversion H; subst. rewrite cmp_refl in E. discriminate.
  Qed.

  Lemma sorted_keys_unique m k v v' : sorted m -> In (k, v) m -> In (k, v') m -> v = v'.
  Proof.
    intros Hs H1 H2. apply (find_In m k v Hs) in H1. apply (find_In m k v' Hs) in H2. congruence.
  Qed.
  (* ---- a sequence of entry(k).or_insert(d) updates ------------------------------------ *)
  Variables (E : Type) (d : W) (app : E -> W -> W).
  Variable keqb : K -> K -> bool.
  Hypothesis keqb_eq : forall a b, keqb a b = true <-> a = b.

  Definition kfold (evs : list (K * E)) (m : list (K * W)) : list (K * W) :=
    fold_left (fun m e => mm_upd cmp m (fst e) d (app (snd e))) evs m.
  Definition kmodify (evs : list (K * E)) (m : list (K * W)) : list (K * W) :=
    fold_left (fun m e => mm_modify cmp m (fst e) (app (snd e))) evs m.
  Definition evs_for (k : K) (evs : list (K * E)) : list E :=
    map snd (filter (fun e => keqb (fst e) k) evs).
  Definition app_all (es : list E) (w : W) : W := fold_left (fun w e => app e w) es w.

  Lemma keqb_cmp a b : keqb a b = true <-> cmp b a = Eq.
  Proof. rewrite keqb_eq, cmp_eq. split; intro; subst; reflexivity. Qed.

  Lemma kfold_sorted evs m : sorted m -> sorted (kfold evs m).
  Proof.
    revert m. induction evs as [|e evs IH]; intros m Hs; cbn [kfold fold_left]; [exact Hs|].
    apply IH. apply mm_upd_sorted. exact Hs.
  Qed.

  Lemma kmodify_sorted evs m : sorted m -> sorted (kmodify evs m).
  Proof.
    revert m. induction evs as [|e evs IH]; intros m Hs; cbn [kmodify fold_left]; [exact Hs|].
    apply IH. apply mm_modify_sorted. exact Hs.
  Qed.

  Lemma kfold_find evs m k : sorted m ->
    mm_find cmp (kfold evs m) k =
    match mm_find cmp m k, evs_for k evs with
    | None, [] => None
    | o, es => Some (app_all es (match o with Some w => w | None => d end))
    end.
  Proof.
    revert m. induction evs as [|e evs IH]; intros m Hs.
    - cbn [kfold fold_left evs_for filter map]. destruct (mm_find cmp m k); reflexivity.
    - cbn [kfold fold_left]. change (fold_left _ evs ?x) with (kfold evs x).
      rewrite (IH _ (mm_upd_sorted m (fst e) d (app (snd e)) Hs)).
      rewrite (mm_find_upd m (fst e) d (app (snd e)) k Hs).
      unfold evs_for. cbn [filter]. destruct (keqb (fst e) k) eqn:Ek.
      + apply keqb_cmp in Ek. rewrite Ek. cbn [map]. apply keqb_cmp, keqb_eq in Ek. subst k.
        destruct (mm_find cmp m (fst e)); cbn [app_all fold_left];
          destruct (map snd (filter (fun e0 => keqb (fst e0) (fst e)) evs)); reflexivity.
      + assert (Hne : cmp k (fst e) <> Eq).
        { intro H. apply keqb_cmp in H. congruence. }
        destruct (cmp k (fst e)); [congruence|reflexivity|reflexivity].
  Qed.

  Lemma kmodify_find evs (m : list (K * W)) k :
    mm_find cmp (kmodify evs m) k = option_map (app_all (evs_for k evs)) (mm_find cmp m k).
  Proof.
    revert m. induction evs as [|e evs IH]; intro m.
    - cbn [kmodify fold_left evs_for filter map app_all]. destruct (mm_find cmp m k); reflexivity.
    - cbn [kmodify fold_left]. change (fold_left _ evs ?x) with (kmodify evs x).
      rewrite IH, mm_find_modify. unfold evs_for. cbn [filter]. destruct (keqb (fst e) k) eqn:Ek.
      + apply keqb_cmp in Ek. rewrite Ek. cbn [map]. apply keqb_cmp, keqb_eq in Ek. subst k.
        destruct (mm_find cmp m (fst e)); reflexivity.
      + assert (Hne : cmp k (fst e) <> Eq).
        { intro H. apply keqb_cmp in H. congruence. }
        destruct (cmp k (fst e)); [congruence|reflexivity|reflexivity].
  Qed.

  Lemma In_evs_for k evs e : In e (evs_for k evs) <-> In (k, e) evs.
  Proof.
    unfold evs_for. rewrite in_map_iff. split.
    - intros ([k' e'] & <- & H). apply filter_In in H as [H Hk]. cbn [fst snd] in *.
      apply keqb_eq in Hk. subst. exact H.
    - intro H. exists (k, e). split; [reflexivity|]. apply filter_In. split; [exact H|]. cbn [fst]. apply keqb_eq. reflexivity.
  Qed.
End MMP.

(* ---- the two key orders --------------------------------------------------------------- *)
Lemma N_cmp_eq a b : N.compare a b = Eq <-> a = b.
Proof. apply N.compare_eq_iff. Qed.
Lemma N_cmp_anti a b : N.compare a b = CompOpp (N.compare b a).
Proof. apply N.compare_antisym. Qed.
Lemma N_cmp_trans a b c : N.compare a b = Lt -> N.compare b c = Lt -> N.compare a c = Lt.
Proof. rewrite !N.compare_lt_iff. lia. Qed.

Lemma str_cmp_eq a b : str_cmp a b = Eq <-> a = b.
Proof.
  revert b. induction a as [|x a IH]; intros [|y b]; cbn [str_cmp]; try (split; [discriminate|discriminate]).
  - split; reflexivity.
  - destruct (N.compare x y) eqn:E.
    + apply N.compare_eq_iff in E. subst y. rewrite IH. split; [intros ->; reflexivity|intro H; inversion H; reflexivity].
    + split; [discriminate|]. intro H. inversion H; subst. rewrite N.compare_refl in E. discriminate.
    + split; [discriminate|]. intro H. inversion H; subst. rewrite N.compare_refl in E. discriminate.
Qed.

Lemma str_cmp_anti a b : str_cmp a b = CompOpp (str_cmp b a).
Proof.
  revert b. induction a as [|x a IH]; intros [|y b]; cbn [str_cmp]; try reflexivity.
  rewrite (N.compare_antisym y x). destruct (N.compare y x); cbn [CompOpp]; [apply IH|reflexivity|reflexivity].
Qed.

Lemma str_cmp_trans a b c : str_cmp a b = Lt -> str_cmp b c = Lt -> str_cmp a c = Lt.
Proof.
  revert b c. induction a as [|x a IH]; intros [|y b] [|z c]; cbn [str_cmp]; try discriminate; try reflexivity.
  destruct (N.compare x y) eqn:E1; destruct (N.compare y z) eqn:E2; try discriminate; intros H1 H2.
  - apply N.compare_eq_iff in E1, E2. subst. rewrite N.compare_refl. eapply IH; eassumption.
  - apply N.compare_eq_iff in E1. subst. rewrite E2. reflexivity.
  - apply N.compare_eq_iff in E2. subst. rewrite E1. reflexivity.
  - rewrite (N_cmp_trans _ _ _ E1 E2). reflexivity.
Qed.

Lemma str_eqb_eq a b : str_eqb a b = true <-> a = b.
Proof.
  revert b. induction a as [|x a IH]; intros [|y b]; cbn [str_eqb]; try (split; discriminate); [split; reflexivity|].
  rewrite andb_true_iff, N.eqb_eq, IH. split; [intros [-> ->]; reflexivity|intro H; inversion H; auto].
Qed.

Lemma str_eqb_refl a : str_eqb a a = true.
Proof. apply str_eqb_eq. reflexivity. Qed.

Lemma mem_str_In g l : mem_str g l = true <-> In g l.
Proof.
  unfold mem_str. rewrite existsb_exists. split.
  - intros (x & Hx & E). apply str_eqb_eq in E. subst. exact Hx.
  - intro H. exists g. split; [exact H|apply str_eqb_refl].
Qed.

Lemma memN_In g l : memN g l = true <-> In g l.
Proof.
  unfold memN. rewrite existsb_exists. split.
  - intros (x & Hx & E). apply N.eqb_eq in E. subst. exact Hx.
  - intro H. exists g. split; [exact H|apply N.eqb_refl].
Qed.
