(* C10 — what the mark groups and the lookups built from them contain. *)
From Coq Require Import List NArith ZArith Bool Lia Sorting.Sorted.
From FV.C10 Require Import Model ProofsMM.
Import ListNotations.

Section G.
  Variable P : Type.

  Notation gsorted := (sorted str (group P) str_cmp).
  Notation evfor := (evs_for str (ev P) str_eqb).
  Notation apply_all := (app_all (group P) (ev P) (apply_ev P)).
  Notation alist := (list (N * list (anchor P))).
  Notation asorted := (sorted N (list (anchor P)) N.compare).

  Definition ev_bases (es : list (ev P)) : list (N * bl P) :=
    flat_map (fun e => match e with EvBase x | EvBaseF x => [x] | EvMark _ => [] end) es.
  Definition ev_marks (es : list (ev P)) : list (N * P) :=
    flat_map (fun e => match e with EvMark x => [x] | _ => [] end) es.
  Definition ev_filter (es : list (ev P)) : bool :=
    existsb (fun e => match e with EvBaseF _ => true | _ => false end) es.

  Lemma apply_all_spec es g :
    g_bases (apply_all es g) = g_bases g ++ ev_bases es
    /\ g_marks (apply_all es g) = g_marks g ++ ev_marks es
    /\ g_filter (apply_all es g) = g_filter g || ev_filter es.
  Proof.
    revert g. induction es as [|e es IH]; intro g; cbn [app_all fold_left ev_bases ev_marks ev_filter flat_map existsb].
    - rewrite !app_nil_r, orb_false_r. auto.
    - change (fold_left _ es ?x) with (apply_all es x).
      destruct (IH (apply_ev P e g)) as (A & B & C). rewrite A, B, C. clear A B C IH.
      destruct e; cbn [apply_ev g_bases g_marks g_filter]; rewrite <- ?app_assoc; cbn [app orb].
      + repeat split; reflexivity.
      + split; [reflexivity|split; [reflexivity|]]. rewrite orb_true_r. reflexivity.
      + repeat split; reflexivity.
  Qed.

  Lemma gfold_sorted evs m : gsorted m -> gsorted (gfold P evs m).
  Proof. apply (kfold_sorted str (group P) str_cmp str_cmp_anti str_cmp_trans (ev P) g_empty (apply_ev P)). Qed.

  Lemma gmodify_sorted evs m : gsorted m -> gsorted (gmodify P evs m).
  Proof. apply (kmodify_sorted str (group P) str_cmp (ev P) (apply_ev P)). Qed.

  Lemma gfold_find evs m k : gsorted m ->
    mm_find str_cmp (gfold P evs m) k =
    match mm_find str_cmp m k, evfor k evs with
    | None, [] => None
    | o, es => Some (apply_all es (match o with Some w => w | None => g_empty end))
    end.
  Proof.
    apply (kfold_find str (group P) str_cmp str_cmp_eq str_cmp_anti str_cmp_trans (ev P) g_empty (apply_ev P) str_eqb str_eqb_eq).
  Qed.

  Lemma gmodify_find evs m k :
    mm_find str_cmp (gmodify P evs m) k = option_map (apply_all (evfor k evs)) (mm_find str_cmp m k).
  Proof.
    apply (kmodify_find str (group P) str_cmp str_cmp_eq str_cmp_anti (ev P) (apply_ev P) str_eqb str_eqb_eq).
  Qed.

  Lemma In_evfor k evs e : In e (evfor k evs) <-> In (k, e) evs.
  Proof. apply (In_evs_for str (ev P) str_eqb str_eqb_eq). Qed.

  Lemma In_ev_bases es x : In x (ev_bases es) <-> In (EvBase x) es \/ In (EvBaseF x) es.
  Proof.
    unfold ev_bases. rewrite in_flat_map. split.
    - intros (e & He & Hx). destruct e as [y|y|y]; cbn [In] in Hx; [destruct Hx as [<-|[]]; auto|destruct Hx as [<-|[]]; auto|destruct Hx].
    - intros [H|H]; eexists; (split; [exact H|left; reflexivity]).
  Qed.

  Lemma In_ev_marks es x : In x (ev_marks es) <-> In (EvMark x) es.
  Proof.
    unfold ev_marks. rewrite in_flat_map. split.
    - intros (e & He & Hx). destruct e as [y|y|y]; cbn [In] in Hx; [destruct Hx|destruct Hx|]. destruct Hx as [<-|[]]. exact He.
    - intro H. eexists; (split; [exact H|left; reflexivity]).
  Qed.

  Lemma In_per_anchor {E} (al : alist) (f : N -> anchor P -> list E) e :
    In e (per_anchor P al f) <-> exists gid anchors a, In (gid, anchors) al /\ In a anchors /\ In e (f gid a).
  Proof.
    unfold per_anchor. rewrite in_flat_map. split.
    - intros ([gid anchors] & Hin & H). apply in_flat_map in H as (a & Ha & He). cbn [fst snd] in *.
      exists gid, anchors, a. auto.
    - intros (gid & anchors & a & Hin & Ha & He). exists (gid, anchors). split; [exact Hin|].
      apply in_flat_map. exists a. auto.
  Qed.

  (* glyph [gid] of the pruned anchor lists carries an anchor of kind [k] with payload [p] *)
  Definition has_anchor (al : alist) (gid : N) (k : kind) (p : P) : Prop :=
    exists anchors, In (gid, anchors) al /\ In (mkAnchor k p) anchors.

  Lemma anchor_eta (a : anchor P) : a = mkAnchor (a_kind a) (a_val a).
  Proof. destruct a; reflexivity. Qed.

  (* ---- keys of the anchor lists are unique ------------------------------------------- *)
  Lemma asorted_unique (al : alist) gid l l' : asorted al -> In (gid, l) al -> In (gid, l') al -> l = l'.
  Proof. apply (sorted_keys_unique N (list (anchor P)) N.compare N_cmp_eq). Qed.

  Lemma find_gid_In (al : alist) gid l : asorted al -> In (gid, l) al -> find_gid P al gid = l.
  Proof.
    induction al as [|[h l0] t IH]; intros Hs Hin; [destruct Hin|]. cbn [find_gid].
    destruct (N.eqb_spec gid h) as [->|Hne].
    - eapply asorted_unique; [exact Hs|left; reflexivity|exact Hin].
    - destruct Hin as [H|H]; [inversion H; congruence|]. apply IH; [inversion Hs; assumption|exact H].
  Qed.

  (* ---- mark glyphs -------------------------------------------------------------------- *)
  Definition class_ok_mark (classes : list (N * cls)) (gid : N) : bool :=
    is_nil classes || ocls_is (class_of classes gid) CMark.
  Definition has_mark_anchor (anchors : list (anchor P)) : bool :=
    existsb (fun a => is_mark_k (a_kind a)) anchors.

  Lemma In_mark_glyphs classes (al : alist) gid :
    In gid (mark_glyphs P classes al) <->
    exists anchors, In (gid, anchors) al /\ class_ok_mark classes gid = true /\ has_mark_anchor anchors = true.
  Proof.
    unfold mark_glyphs. rewrite in_map_iff. split.
    - intros ([g anchors] & <- & H). apply filter_In in H as [Hin Hc]. cbn [fst snd] in *.
      apply andb_true_iff in Hc as [Hc Hm]. exists anchors. auto.
    - intros (anchors & Hin & Hc & Hm). exists (gid, anchors). split; [reflexivity|].
      apply filter_In. split; [exact Hin|]. cbn [fst snd]. apply andb_true_iff. auto.
  Qed.

  Lemma has_mark_anchor_iff anchors : has_mark_anchor anchors = true <-> exists g p, In (mkAnchor (KMark g) p) anchors.
  Proof.
    unfold has_mark_anchor. rewrite existsb_exists. split.
    - intros (a & Ha & Hk). destruct a as [k p]. cbn [a_kind] in Hk. destruct k; try discriminate. eauto.
    - intros (g & p & H). eexists. split; [exact H|reflexivity].
  Qed.

  Lemma mm_mark_glyphs_eq classes (al : alist) : asorted al ->
    mm_mark_glyphs P (mark_glyphs P classes al) al = mark_glyphs P classes al.
  Proof.
    intro Hs. unfold mm_mark_glyphs. unfold mark_glyphs at 2. f_equal. apply filter_ext_in.
    intros [gid anchors] Hin. cbn [fst snd].
    destruct (existsb (fun a => is_mark_k (a_kind a)) anchors) eqn:Hm; [|rewrite !andb_false_r; reflexivity].
    rewrite !andb_true_r.
    destruct (is_nil classes || ocls_is (class_of classes gid) CMark) eqn:Hc.
    - apply memN_In, In_mark_glyphs. exists anchors. auto.
    - destruct (memN gid (mark_glyphs P classes al)) eqn:E; [|reflexivity].
      apply memN_In, In_mark_glyphs in E as (anchors' & _ & Hc' & _). unfold class_ok_mark in Hc'. congruence.
  Qed.

  (* ---- lookups ------------------------------------------------------------------------- *)
  Variable R : Type.
  Variable resolve : P -> R.

  Definition lookup_of (ty : N) (k : str) (g : group P) : lookup R :=
    mkLookup ty k (map (fun x => (fst x, resolve (snd x))) (g_marks g))
             (map (fun x => (fst x, map_bl resolve (snd x))) (g_bases g)) (filter_set P g).

  Lemma In_lookups ty (m : gmap P) lk : gsorted m ->
    (In lk (lookups P R resolve ty m) <->
     exists g, mm_find str_cmp m (l_name lk) = Some g /\ g_bases g <> [] /\ g_marks g <> []
               /\ lk = lookup_of ty (l_name lk) g).
  Proof.
    intro Hs. unfold lookups. rewrite in_flat_map. split.
    - intros ([k g] & Hin & H). cbn [fst snd] in H.
      destruct (g_bases g) as [|b0 bs] eqn:Eb; [destruct H|]. destruct (g_marks g) as [|m0 ms] eqn:Em; [destruct H|].
      cbn [is_nil orb] in H. destruct H as [<-|[]]. cbn [l_name]. exists g.
      split; [apply (find_In str (group P) str_cmp str_cmp_eq m k g Hs); exact Hin|].
      rewrite Eb, Em. repeat split; try discriminate. unfold lookup_of. rewrite Eb, Em. reflexivity.
    - intros (g & Hf & Hb & Hm & E). exists (l_name lk, g).
      split; [apply (find_In str (group P) str_cmp str_cmp_eq m _ g Hs); exact Hf|]. cbn [fst snd].
      destruct (g_bases g) eqn:Eb; [congruence|]. destruct (g_marks g) eqn:Em; [congruence|]. cbn [is_nil orb].
      left. rewrite E. unfold lookup_of. cbn [l_name]. rewrite Eb, Em. reflexivity.
  Qed.

  (* at most one lookup per group name *)
  Lemma lookups_name_unique ty (m : gmap P) lk lk' : gsorted m ->
    In lk (lookups P R resolve ty m) -> In lk' (lookups P R resolve ty m) -> l_name lk = l_name lk' -> lk = lk'.
  Proof.
    intros Hs H1 H2 E. apply (In_lookups ty m lk Hs) in H1 as (g & Hf & _ & _ & E1).
    apply (In_lookups ty m lk' Hs) in H2 as (g' & Hf' & _ & _ & E2).
    rewrite E in Hf. assert (g = g') by congruence. subst g'. rewrite E1, E2, E. reflexivity.
  Qed.

  Lemma gsorted_nil : gsorted [].
  Proof. constructor. Qed.

  Lemma In_map_marks (l : list (N * P)) m rm :
    In (m, rm) (map (fun x => (fst x, resolve (snd x))) l) <-> exists p, In (m, p) l /\ rm = resolve p.
  Proof.
    rewrite in_map_iff. split.
    - intros ([m' p] & E & H). cbn [fst snd] in E. inversion E; subst. eauto.
    - intros (p & H & ->). exists (m, p). auto.
  Qed.

  Lemma In_map_bases (l : list (N * bl P)) b rb :
    In (b, rb) (map (fun x => (fst x, map_bl resolve (snd x))) l) <-> exists x, In (b, x) l /\ rb = map_bl resolve x.
  Proof.
    rewrite in_map_iff. split.
    - intros ([b' x] & E & H). cbn [fst snd] in E. inversion E; subst. eauto.
    - intros (x & H & ->). exists (b, x). auto.
  Qed.

  (* ==================================================================================== *)
  (* mark-to-base                                                                          *)
  (* ==================================================================================== *)
  Section MB.
    Variables (classes : list (N * cls)) (al : alist).
    Let mg := mark_glyphs P classes al.
    Let evs := per_anchor P al (mb_events P classes mg).

    Lemma mb_ev_base g b x :
      In (g, EvBase (b, x)) evs <->
      exists p, x = BOne p /\ has_anchor al b (KBase g) p /\ treat_as_base classes mg b = true.
    Proof.
      unfold evs. rewrite In_per_anchor. split.
      - intros (gid & anchors & a & Hin & Ha & He). unfold mb_events in He. destruct a as [k p]. cbn [a_kind a_val] in He.
        destruct k; try destruct He.
        + destruct (treat_as_base classes mg gid) eqn:T; [|destruct He]. destruct He as [E|[]]. inversion E; subst.
          exists p. split; [reflexivity|]. split; [exists anchors; auto|exact T].
        + destruct (memN gid mg); [|destruct He]. destruct He as [E|[]]. discriminate.
      - intros (p & -> & (anchors & Hin & Ha) & T). exists b, anchors, (mkAnchor (KBase g) p).
        split; [exact Hin|]. split; [exact Ha|]. unfold mb_events. cbn [a_kind a_val]. rewrite T. left. reflexivity.
    Qed.

    Lemma mb_ev_basef g x : ~ In (g, EvBaseF x) evs.
    Proof.
      unfold evs. rewrite In_per_anchor. intros (gid & anchors & a & _ & _ & He). unfold mb_events in He.
      destruct (a_kind a); try destruct He.
      - destruct (treat_as_base classes mg gid); [|destruct He]. destruct He as [E|[]]. discriminate.
      - destruct (memN gid mg); [|destruct He]. destruct He as [E|[]]. discriminate.
    Qed.

    Lemma mb_ev_mark g m p :
      In (g, EvMark (m, p)) evs <-> has_anchor al m (KMark g) p /\ In m mg.
    Proof.
      unfold evs. rewrite In_per_anchor. split.
      - intros (gid & anchors & a & Hin & Ha & He). unfold mb_events in He. destruct a as [k q]. cbn [a_kind a_val] in He.
        destruct k; try destruct He.
        + destruct (treat_as_base classes mg gid); [|destruct He]. destruct He as [E|[]]. discriminate.
        + destruct (memN gid mg) eqn:M; [|destruct He]. destruct He as [E|[]]. inversion E; subst.
          split; [exists anchors; auto|apply memN_In; exact M].
      - intros ((anchors & Hin & Ha) & M). exists m, anchors, (mkAnchor (KMark g) p).
        split; [exact Hin|]. split; [exact Ha|]. unfold mb_events. cbn [a_kind a_val].
        apply memN_In in M. rewrite M. left. reflexivity.
    Qed.

    (* the group of name [g], when there is one *)
    Lemma mb_group g grp : mm_find str_cmp (mark_base_groups P classes al) g = Some grp ->
      (forall b x, In (b, x) (g_bases grp) <->
                   exists p, x = BOne p /\ has_anchor al b (KBase g) p /\ treat_as_base classes mg b = true)
      /\ (forall m p, In (m, p) (g_marks grp) <-> has_anchor al m (KMark g) p /\ In m mg)
      /\ g_filter grp = false.
    Proof.
      unfold mark_base_groups. fold mg. fold evs. rewrite (gfold_find evs [] g gsorted_nil). cbn [mm_find].
      intro H. assert (E : grp = apply_all (evfor g evs) g_empty).
      { destruct (evfor g evs); [discriminate|]. inversion H. reflexivity. }
      destruct (apply_all_spec (evfor g evs) g_empty) as (A & B & C). rewrite <- E in A, B, C. cbn [g_empty g_bases g_marks g_filter app orb] in A, B, C.
      split; [|split].
      - intros b x. rewrite A, In_ev_bases, !In_evfor. rewrite mb_ev_base. split; [intros [H1|H1]; [exact H1|exfalso; eapply mb_ev_basef; exact H1]|auto].
      - intros m p. rewrite B, In_ev_marks, In_evfor. apply mb_ev_mark.
      - rewrite C. unfold ev_filter. apply not_true_is_false. intro Hx. apply existsb_exists in Hx as (e & He & Hb).
        destruct e; try discriminate. apply In_evfor in He. eapply mb_ev_basef; exact He.
    Qed.

    Lemma mb_group_exists g :
      (exists b p, has_anchor al b (KBase g) p /\ treat_as_base classes mg b = true)
      \/ (exists m p, has_anchor al m (KMark g) p /\ In m mg) ->
      exists grp, mm_find str_cmp (mark_base_groups P classes al) g = Some grp.
    Proof.
      intro H. unfold mark_base_groups. fold mg. fold evs. rewrite (gfold_find evs [] g gsorted_nil). cbn [mm_find].
      destruct (evfor g evs) as [|e es] eqn:E; [|eexists; reflexivity]. exfalso.
      destruct H as [(b & p & Ha & T)|(m & p & Ha & M)].
      - assert (Hin : In (EvBase (b, BOne p)) (evfor g evs)) by (apply In_evfor, mb_ev_base; eauto). rewrite E in Hin. destruct Hin.
      - assert (Hin : In (EvMark (m, p)) (evfor g evs)) by (apply In_evfor, mb_ev_mark; auto). rewrite E in Hin. destruct Hin.
    Qed.

    Lemma mb_sorted : gsorted (mark_base_groups P classes al).
    Proof. unfold mark_base_groups. apply gfold_sorted, gsorted_nil. Qed.
  End MB.

  (* ==================================================================================== *)
  (* mark-to-mark                                                                          *)
  (* ==================================================================================== *)
  Section MM.
    Variables (classes : list (N * cls)) (al : alist).
    Hypothesis Hal : asorted al.
    Let mg := mark_glyphs P classes al.
    Let mks := mm_mark_glyphs P mg al.
    Let mgroups := mm_mark_anchor_groups P mg al.
    Let evs1 := per_anchor P al (mm_events1 P mks mgroups).
    Let evs2 := mm_events2 P al mks.

    Lemma mks_eq : mks = mg.
    Proof. unfold mks, mg. apply mm_mark_glyphs_eq. exact Hal. Qed.

    Lemma In_mgroups g : In g mgroups <-> exists m p, In m mg /\ has_anchor al m (KMark g) p.
    Proof.
      unfold mgroups, mm_mark_anchor_groups. rewrite in_flat_map. split.
      - intros ([gid anchors] & Hin & H). cbn [fst snd] in H. destruct (memN gid mg) eqn:M; [|destruct H].
        apply in_flat_map in H as (a & Ha & Hg). destruct a as [k p]. cbn [a_kind] in Hg. destruct k; cbn [mark_group In] in Hg; try contradiction.
        destruct Hg as [<-|[]]. exists gid, p. split; [apply memN_In; exact M|exists anchors; auto].
      - intros (m & p & M & anchors & Hin & Ha). exists (m, anchors). split; [exact Hin|]. cbn [fst snd].
        apply memN_In in M. rewrite M. apply in_flat_map. exists (mkAnchor (KMark g) p). split; [exact Ha|left; reflexivity].
    Qed.

    Lemma mm_ev1_basef g b x :
      In (g, EvBaseF (b, x)) evs1 <->
      exists p, x = BOne p /\ has_anchor al b (KBase g) p /\ In b mg /\ In g mgroups.
    Proof.
      unfold evs1. rewrite In_per_anchor. split.
      - intros (gid & anchors & a & Hin & Ha & He). unfold mm_events1 in He.
        destruct (memN gid mks) eqn:M; [|destruct He]. destruct a as [k p]. cbn [a_kind a_val] in He.
        destruct k; try destruct He. destruct (mem_str g0 mgroups) eqn:G; [|destruct He]. destruct He as [E|[]].
        inversion E; subst. exists p. split; [reflexivity|]. split; [exists anchors; auto|].
        split; [rewrite <- mks_eq; apply memN_In; exact M|apply mem_str_In; exact G].
      - intros (p & -> & (anchors & Hin & Ha) & M & G). exists b, anchors, (mkAnchor (KBase g) p).
        split; [exact Hin|]. split; [exact Ha|]. unfold mm_events1. rewrite <- mks_eq in M. apply memN_In in M. rewrite M.
        cbn [a_kind a_val]. apply mem_str_In in G. rewrite G. left. reflexivity.
    Qed.

    Lemma mm_ev1_only g e : In (g, e) evs1 -> exists x, e = EvBaseF x.
    Proof.
      unfold evs1. rewrite In_per_anchor. intros (gid & anchors & a & _ & _ & He). unfold mm_events1 in He.
      destruct (memN gid mks); [|destruct He]. destruct (a_kind a); try destruct He.
      destruct (mem_str g0 mgroups); [|destruct He]. destruct He as [E|[]]. inversion E. eauto.
    Qed.

    Lemma mm_ev2_mark g m p : In (g, EvMark (m, p)) evs2 <-> In m mg /\ has_anchor al m (KMark g) p.
    Proof.
      unfold evs2, mm_events2. rewrite in_flat_map. split.
      - intros (mark & Hm & H). apply in_flat_map in H as (a & Ha & He). destruct a as [k q]. cbn [a_kind a_val] in He.
        destruct k; cbn [In] in He; try contradiction. destruct He as [E|[]]. inversion E; subst.
        rewrite mks_eq in Hm. split; [exact Hm|].
        apply In_mark_glyphs in Hm as (anchors & Hin & _). rewrite (find_gid_In al m anchors Hal Hin) in Ha.
        exists anchors. auto.
      - intros (M & anchors & Hin & Ha). exists m. split; [rewrite mks_eq; exact M|].
        rewrite (find_gid_In al m anchors Hal Hin). apply in_flat_map. exists (mkAnchor (KMark g) p). split; [exact Ha|left; reflexivity].
    Qed.

    Lemma mm_ev2_only g e : In (g, e) evs2 -> exists x, e = EvMark x.
    Proof.
      unfold evs2, mm_events2. rewrite in_flat_map. intros (mark & _ & H). apply in_flat_map in H as (a & _ & He).
      destruct (a_kind a); cbn [In] in He; try contradiction. destruct He as [E|[]]. inversion E. eauto.
    Qed.

    Lemma mmk_group g grp : mm_find str_cmp (mark_mark_groups P classes al) g = Some grp ->
      (forall b x, In (b, x) (g_bases grp) <->
                   exists p, x = BOne p /\ has_anchor al b (KBase g) p /\ In b mg /\ In g mgroups)
      /\ (forall m p, In (m, p) (g_marks grp) <-> In m mg /\ has_anchor al m (KMark g) p)
      /\ g_filter grp = true.
    Proof.
      unfold mark_mark_groups. fold mg. fold mks. fold mgroups. fold evs1. fold evs2.
      rewrite gmodify_find, (gfold_find evs1 [] g gsorted_nil). cbn [mm_find].
      destruct (evfor g evs1) as [|e1 es1] eqn:E1; [discriminate|]. cbn [option_map]. intro H.
      assert (E : grp = apply_all (evfor g evs2) (apply_all (evfor g evs1) g_empty)) by (rewrite E1; inversion H; reflexivity).
      clear H.
      destruct (apply_all_spec (evfor g evs2) (apply_all (evfor g evs1) g_empty)) as (A & B & C).
      destruct (apply_all_spec (evfor g evs1) g_empty) as (A1 & B1 & C1).
      rewrite <- E in A, B, C. rewrite A1 in A. rewrite B1 in B. rewrite C1 in C.
      cbn [g_empty g_bases g_marks g_filter app orb] in A, B, C.
      assert (Z2 : ev_bases (evfor g evs2) = []).
      { destruct (ev_bases (evfor g evs2)) as [|x l] eqn:Ex; [reflexivity|]. exfalso.
        assert (Hx : In x (ev_bases (evfor g evs2))) by (rewrite Ex; left; reflexivity).
        apply In_ev_bases in Hx. destruct Hx as [Hx|Hx]; apply In_evfor, mm_ev2_only in Hx as (y & Hy); discriminate. }
      assert (Z1 : ev_marks (evfor g evs1) = []).
      { destruct (ev_marks (evfor g evs1)) as [|x l] eqn:Ex; [reflexivity|]. exfalso.
        assert (Hx : In x (ev_marks (evfor g evs1))) by (rewrite Ex; left; reflexivity).
        apply In_ev_marks, In_evfor, mm_ev1_only in Hx as (y & Hy). discriminate. }
      rewrite Z2, app_nil_r in A. rewrite Z1 in B. cbn [app] in B.
      split; [|split].
      - intros b x. rewrite A, In_ev_bases, !In_evfor, mm_ev1_basef. split; [|auto].
        intros [Hx|Hx]; [apply mm_ev1_only in Hx as (y & Hy); discriminate|exact Hx].
      - intros m p. rewrite B, In_ev_marks, In_evfor. apply mm_ev2_mark.
      - rewrite C. assert (F : ev_filter (evfor g evs1) = true).
        { unfold ev_filter. apply existsb_exists. exists e1. split; [rewrite E1; left; reflexivity|].
          assert (Hin : In e1 (evfor g evs1)) by (rewrite E1; left; reflexivity).
          apply In_evfor, mm_ev1_only in Hin as (y & ->). reflexivity. }
        rewrite F. reflexivity.
    Qed.

    Lemma mmk_group_exists g b p :
      has_anchor al b (KBase g) p -> In b mg -> In g mgroups ->
      exists grp, mm_find str_cmp (mark_mark_groups P classes al) g = Some grp.
    Proof.
      intros Ha M G. unfold mark_mark_groups. fold mg. fold mks. fold mgroups. fold evs1. fold evs2.
      rewrite gmodify_find, (gfold_find evs1 [] g gsorted_nil). cbn [mm_find].
      destruct (evfor g evs1) as [|e es] eqn:E; [|eexists; reflexivity]. exfalso.
      assert (Hin : In (EvBaseF (b, BOne p)) (evfor g evs1)) by (apply In_evfor, mm_ev1_basef; eauto).
      rewrite E in Hin. destruct Hin.
    Qed.

    Lemma mmk_sorted : gsorted (mark_mark_groups P classes al).
    Proof. unfold mark_mark_groups. apply gmodify_sorted, gfold_sorted, gsorted_nil. Qed.
  End MM.
End G.
