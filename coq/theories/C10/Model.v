(* C10 — model of the mark-attachment pipeline of fontc.  Executable definitions only.

   Part A  fontir/src/ir.rs            AnchorKind::new / AnchorKind::to_name  (anchor names are
                                        strings of Unicode scalar values, [list N])
   Part B  fontbe/src/features/marks.rs MarkLookupBuilder::new (pruning), find_mark_glyphs,
                                        make_mark_to_base_groups, make_mark_to_mark_groups,
                                        make_mark_to_liga_groups, make_lookups_type (for the mark /
                                        mkmk features: every glyph included, no name filter),
                                        MarkGroup::make_filter_glyph_set, and the reading of the
                                        emitted MarkBasePos / MarkLigPos / MarkMarkPos lookups
   Part C  fontbe/src/features/marks.rs resolve_anchor_once + features.rs resolve_variable_metric,
                                        on top of the C07 model of the variation model
   Part D  fontir/src/glyph.rs          recompute_gdef_categories (decision table),
           fontbe/src/features.rs       GDEF class definition from the source categories,
           fea-rs compile/lookups.rs    infer_glyph_classes (classes inferred from the mark lookups)

   Group names are the strings themselves; BTreeMap<GroupName, _> iterates in str order, which for
   UTF-8 is the lexicographic order of the code points ([str_cmp]).  BTreeMap<GlyphId16, _> is an
   association list kept sorted by [N.compare].  HashMap / HashSet are used by the code only for
   membership tests or keyed replacement, except [component_groups] in make_mark_to_liga_groups,
   whose drain order cannot reach the result (each drained entry goes to a different group). *)
From Coq Require Import List NArith ZArith QArith Qabs Qround Bool.
From FV.C07 Require Model.
Import ListNotations.
Module V := FV.C07.Model.

Definition str := list N.

(* ===================================================================================== *)
(* Part A — anchor names                                                                   *)
(* ===================================================================================== *)
Open Scope N_scope.

Fixpoint str_eqb (a b : str) : bool :=
  match a, b with
  | [], [] => true
  | x :: a', y :: b' => N.eqb x y && str_eqb a' b'
  | _, _ => false
  end.

(* <str as Ord>::cmp : bytewise on UTF-8 = code point order *)
Fixpoint str_cmp (a b : str) : comparison :=
  match a, b with
  | [], [] => Eq
  | [], _ :: _ => Lt
  | _ :: _, [] => Gt
  | x :: a', y :: b' => match N.compare x y with Eq => str_cmp a' b' | c => c end
  end.

Definition c_us : N := 95.   (* '_' *)
Definition c_plus : N := 43. (* '+' *)
Definition s_entry : str := [101; 110; 116; 114; 121].
Definition s_exit : str := [101; 120; 105; 116].
Definition s_caret_ : str := [99; 97; 114; 101; 116; 95].
Definition s_vcaret_ : str := 118 :: s_caret_.

(* str::strip_prefix *)
Fixpoint strip_prefix (p s : str) : option str :=
  match p, s with
  | [], _ => Some s
  | c :: p', d :: s' => if N.eqb c d then strip_prefix p' s' else None
  | _ :: _, [] => None
  end.

(* str::rsplit_once(c): split at the last occurrence *)
Fixpoint rsplit_once (c : N) (s : str) : option (str * str) :=
  match s with
  | [] => None
  | d :: t => match rsplit_once c t with
              | Some (a, b) => Some (d :: a, b)
              | None => if N.eqb d c then Some ([], t) else None
              end
  end.

Definition is_digit (c : N) : bool := (48 <=? c) && (c <=? 57).

Fixpoint digits_val (acc : N) (s : str) : option N :=
  match s with
  | [] => Some acc
  | c :: t => if is_digit c then digits_val (acc * 10 + (c - 48)) t else None
  end.

Definition usize_max : N := 18446744073709551615.

(* <usize as FromStr>::from_str: one optional '+', then at least one ASCII digit, nothing else;
   values above usize::MAX are an error (PosOverflow), leading zeros are fine *)
Definition parse_usize (s : str) : option N :=
  let body := match s with
              | c :: t => if N.eqb c c_plus then t else s
              | [] => s
              end in
  match body with
  | [] => None
  | _ => match digits_val 0 body with
         | Some v => if v <=? usize_max then Some v else None
         | None => None
         end
  end.

Inductive kind :=
| KBase (g : str) | KMark (g : str) | KLig (g : str) (i : N)
| KCompMarker (i : N) | KCaret (i : N) | KVCaret (i : N) | KEntry | KExit.

Inductive kerr := EZeroIndex | ENilMarkGroup | ENumberedMarkAnchor | EOther.

Definition caret_kind (v : bool) (suffix : str) : kind + kerr :=
  match parse_usize suffix with
  | Some 0 => inr EZeroIndex
  | Some i => inl (if v then KVCaret i else KCaret i)
  | None => inl (if v then KVCaret 1 else KCaret 1)
  end.

(* AnchorKind::new *)
Definition kind_new (name : str) : kind + kerr :=
  if str_eqb name s_entry then inl KEntry else
  if str_eqb name s_exit then inl KExit else
  match strip_prefix s_caret_ name with
  | Some suf => caret_kind false suf
  | None =>
  match strip_prefix s_vcaret_ name with
  | Some suf => caret_kind true suf
  | None =>
  match strip_prefix [c_us] name with
  | Some suffix =>
      match parse_usize suffix with
      | Some 0 => inr EZeroIndex
      | Some i => inl (KCompMarker i)
      | None =>
          match suffix with
          | [] => inr ENilMarkGroup
          | _ => match rsplit_once c_us suffix with
                 | Some (_, n) => match parse_usize n with
                                  | Some _ => inr ENumberedMarkAnchor
                                  | None => inl (KMark suffix)
                                  end
                 | None => inl (KMark suffix)
                 end
          end
      end
  | None =>
      match rsplit_once c_us name with
      | Some (g, n) => match parse_usize n with
                       | Some 0 => inr EZeroIndex
                       | Some i => inl (KLig g i)
                       | None => inl (KBase name)
                       end
      | None => inl (KBase name)
      end
  end end end.

(* decimal printing of an index ({index} in format_smolstr!) *)
Fixpoint uint_chars (u : Decimal.uint) : str :=
  match u with
  | Decimal.Nil => []
  | Decimal.D0 t => 48 :: uint_chars t | Decimal.D1 t => 49 :: uint_chars t
  | Decimal.D2 t => 50 :: uint_chars t | Decimal.D3 t => 51 :: uint_chars t
  | Decimal.D4 t => 52 :: uint_chars t | Decimal.D5 t => 53 :: uint_chars t
  | Decimal.D6 t => 54 :: uint_chars t | Decimal.D7 t => 55 :: uint_chars t
  | Decimal.D8 t => 56 :: uint_chars t | Decimal.D9 t => 57 :: uint_chars t
  end.
Definition dec (n : N) : str := uint_chars (N.to_uint n).

(* AnchorKind::to_name *)
Definition to_name (k : kind) : str :=
  match k with
  | KBase g => g
  | KMark g => c_us :: g
  | KLig g i => g ++ c_us :: dec i
  | KCompMarker i => c_us :: dec i
  | KCaret i => s_caret_ ++ dec i
  | KVCaret i => s_vcaret_ ++ dec i
  | KEntry => s_entry
  | KExit => s_exit
  end.

Definition kind_eqb (a b : kind) : bool :=
  match a, b with
  | KBase g, KBase h | KMark g, KMark h => str_eqb g h
  | KLig g i, KLig h j => str_eqb g h && N.eqb i j
  | KCompMarker i, KCompMarker j | KCaret i, KCaret j | KVCaret i, KVCaret j => N.eqb i j
  | KEntry, KEntry | KExit, KExit => true
  | _, _ => false
  end.

Definition kerr_eqb (a b : kerr) : bool :=
  match a, b with
  | EZeroIndex, EZeroIndex | ENilMarkGroup, ENilMarkGroup
  | ENumberedMarkAnchor, ENumberedMarkAnchor | EOther, EOther => true
  | _, _ => false
  end.

Definition kres_eqb (a b : kind + kerr) : bool :=
  match a, b with
  | inl x, inl y => kind_eqb x y
  | inr x, inr y => kerr_eqb x y
  | _, _ => false
  end.

(* harness: the implementation classified [name] as [impl] and printed it back as [back] *)
Definition name_case_ok (name : str) (impl : kind + kerr) (back : option str) : bool :=
  kres_eqb (kind_new name) impl
  && match kind_new name, back with
     | inl k, Some s => str_eqb (to_name k) s
     | inr _, None => true
     | _, _ => false
     end.

(* ===================================================================================== *)
(* generic sorted association list (BTreeMap)                                              *)
(* ===================================================================================== *)
Section MM.
  Variables (K W : Type) (cmp : K -> K -> comparison).

  (* *map.entry(k).or_insert(d) = f(...) *)
  Fixpoint mm_upd (m : list (K * W)) (k : K) (d : W) (f : W -> W) : list (K * W) :=
    match m with
    | [] => [(k, f d)]
    | (k1, v) :: t =>
        match cmp k k1 with
        | Eq => (k1, f v) :: t
        | Lt => (k, f d) :: m
        | Gt => (k1, v) :: mm_upd t k d f
        end
    end.

  (* if let Some(v) = map.get_mut(k) { *v = f(v) } *)
  Fixpoint mm_modify (m : list (K * W)) (k : K) (f : W -> W) : list (K * W) :=
    match m with
    | [] => []
    | (k1, v) :: t =>
        match cmp k k1 with
        | Eq => (k1, f v) :: t
        | _ => (k1, v) :: mm_modify t k f
        end
    end.

  Fixpoint mm_find (m : list (K * W)) (k : K) : option W :=
    match m with
    | [] => None
    | (k1, v) :: t => match cmp k k1 with Eq => Some v | _ => mm_find t k end
    end.
End MM.
Arguments mm_upd {K W} cmp m k d f.
Arguments mm_modify {K W} cmp m k f.
Arguments mm_find {K W} cmp m k.

(* ===================================================================================== *)
(* Part B — groups and lookups                                                              *)
(* ===================================================================================== *)
Inductive cls := CBase | CLig | CMark | CComp.   (* GlyphClassDef 1..4 *)

Definition cls_eqb (a b : cls) : bool :=
  match a, b with
  | CBase, CBase | CLig, CLig | CMark, CMark | CComp, CComp => true
  | _, _ => false
  end.

Definition ocls_is (o : option cls) (c : cls) : bool :=
  match o with Some x => cls_eqb x c | None => false end.

Definition memN (g : N) (l : list N) : bool := existsb (N.eqb g) l.
Definition mem_str (g : str) (l : list str) : bool := existsb (str_eqb g) l.

(* HashMap<GlyphId16, GlyphClassDef>::get; keys are unique *)
Fixpoint class_of (classes : list (N * cls)) (g : N) : option cls :=
  match classes with
  | [] => None
  | (h, c) :: t => if N.eqb g h then Some c else class_of t g
  end.

Definition is_nil {A} (l : list A) : bool := match l with [] => true | _ => false end.

(* base / ligature anchor with several components, or a plain one *)
Inductive bl (A : Type) := BOne (a : A) | BLig (l : list (option A)).
Arguments BOne {A} a.
Arguments BLig {A} l.

Definition map_bl {A B} (f : A -> B) (b : bl A) : bl B :=
  match b with
  | BOne a => BOne (f a)
  | BLig l => BLig (map (option_map f) l)
  end.

Definition attach_group (k : kind) : option str :=
  match k with KBase g | KLig g _ => Some g | _ => None end.
Definition mark_group (k : kind) : option str :=
  match k with KMark g => Some g | _ => None end.
(* Anchor::mark_group_name *)
Definition group_name (k : kind) : option str :=
  match k with KBase g | KMark g | KLig g _ => Some g | _ => None end.
Definition is_cursive (k : kind) : bool := match k with KEntry | KExit => true | _ => false end.
Definition is_comp_marker (k : kind) : bool := match k with KCompMarker _ => true | _ => false end.
Definition is_mark_k (k : kind) : bool := match k with KMark _ => true | _ => false end.
(* Anchor::ligature_index *)
Definition lig_index (k : kind) : option N :=
  match k with KLig _ i | KCompMarker i => Some i | _ => None end.

(* vec[i] = Some(v) *)
Fixpoint set_nth {A} (n : nat) (v : A) (l : list A) : list A :=
  match l, n with
  | [], _ => []
  | _ :: t, O => v :: t
  | x :: t, S n' => x :: set_nth n' v t
  end.

Section Pipeline.
  Variable P : Type.   (* what an anchor carries: its positions *)

  Record anchor := mkAnchor { a_kind : kind; a_val : P }.

  (* one GlyphAnchors: glyph id in the final glyph order (None: the glyph is not exported) and its
     anchors in IndexMap order *)
  Definition ganchors := (option N * list anchor)%type.

  (* `include`: glyphs with a Base / Mark / Ligature class; when that set is empty every glyph passes *)
  Definition include_set (classes : list (N * cls)) : list N :=
    map fst (filter (fun gc => negb (cls_eqb (snd gc) CComp)) classes).
  Definition included (classes : list (N * cls)) (g : N) : bool :=
    match include_set classes with [] => true | inc => memN g inc end.

  Definition live (classes : list (N * cls)) (gs : list ganchors) : list (N * list anchor) :=
    flat_map (fun ga => match fst ga with
                        | Some g => if included classes g then [(g, snd ga)] else []
                        | None => []
                        end) gs.

  Definition anchors_of (lv : list (N * list anchor)) : list anchor := flat_map snd lv.

  Definition base_groups (lv : list (N * list anchor)) : list str :=
    flat_map (fun a => match attach_group (a_kind a) with Some g => [g] | None => [] end) (anchors_of lv).
  Definition mark_groups (lv : list (N * list anchor)) : list str :=
    flat_map (fun a => match mark_group (a_kind a) with Some g => [g] | None => [] end) (anchors_of lv).
  Definition used (lv : list (N * list anchor)) (g : str) : bool :=
    mem_str g (base_groups lv) && mem_str g (mark_groups lv).

  (* the retain predicate *)
  Definition keep (lv : list (N * list anchor)) (a : anchor) : bool :=
    is_cursive (a_kind a)
    || match group_name (a_kind a) with
       | Some g => used lv g
       | None => is_comp_marker (a_kind a)
       end.

  (* pruned.entry(gid).or_insert(Vec::new()).push(anchor), for every anchor of every live glyph *)
  Definition pruned0 (lv : list (N * list anchor)) : list (N * list anchor) :=
    fold_left (fun m ga => fold_left (fun m a => mm_upd N.compare m (fst ga) [] (fun l => l ++ [a])) (snd ga) m) lv [].

  (* MarkLookupBuilder::anchor_lists *)
  Definition anchor_lists (classes : list (N * cls)) (gs : list ganchors) : list (N * list anchor) :=
    let lv := live classes gs in
    filter (fun ga => negb (is_nil (snd ga)))
           (map (fun ga => (fst ga, filter (keep lv) (snd ga))) (pruned0 lv)).

  (* find_mark_glyphs *)
  Definition mark_glyphs (classes : list (N * cls)) (al : list (N * list anchor)) : list N :=
    map fst (filter (fun ga => (is_nil classes || ocls_is (class_of classes (fst ga)) CMark)
                               && existsb (fun a => is_mark_k (a_kind a)) (snd ga)) al).

  (* ---- MarkGroup ---------------------------------------------------------------------- *)
  Record group := mkGroup { g_bases : list (N * bl P); g_marks : list (N * P); g_filter : bool }.
  Definition g_empty : group := mkGroup [] [] false.

  Inductive ev := EvBase (x : N * bl P) | EvBaseF (x : N * bl P) | EvMark (x : N * P).

  Definition apply_ev (e : ev) (g : group) : group :=
    match e with
    | EvBase x => mkGroup (g_bases g ++ [x]) (g_marks g) (g_filter g)
    | EvBaseF x => mkGroup (g_bases g ++ [x]) (g_marks g) true
    | EvMark x => mkGroup (g_bases g) (g_marks g ++ [x]) (g_filter g)
    end.

  Definition gmap := list (str * group).

  (* groups.entry(name).or_default().<push> for a sequence of pushes *)
  Definition gfold (evs : list (str * ev)) (m : gmap) : gmap :=
    fold_left (fun m e => mm_upd str_cmp m (fst e) g_empty (apply_ev (snd e))) evs m.
  (* if let Some(group) = result.get_mut(name) { <push> } *)
  Definition gmodify (evs : list (str * ev)) (m : gmap) : gmap :=
    fold_left (fun m e => mm_modify str_cmp m (fst e) (apply_ev (snd e))) evs m.

  Definition per_anchor {E} (al : list (N * list anchor)) (f : N -> anchor -> list E) : list E :=
    flat_map (fun ga => flat_map (f (fst ga)) (snd ga)) al.

  (* make_mark_to_base_groups *)
  Definition treat_as_base (classes : list (N * cls)) (mg : list N) (gid : N) : bool :=
    let is_mark := memN gid mg in
    let is_not_base := negb (is_nil classes) && negb (ocls_is (class_of classes gid) CBase) in
    negb (is_mark || is_not_base).

  Definition mb_events (classes : list (N * cls)) (mg : list N) (gid : N) (a : anchor) : list (str * ev) :=
    match a_kind a with
    | KBase g => if treat_as_base classes mg gid then [(g, EvBase (gid, BOne (a_val a)))] else []
    | KMark g => if memN gid mg then [(g, EvMark (gid, a_val a))] else []
    | _ => []
    end.

  Definition mark_base_groups (classes : list (N * cls)) (al : list (N * list anchor)) : gmap :=
    gfold (per_anchor al (mb_events classes (mark_glyphs classes al))) [].

  (* make_mark_to_mark_groups *)
  Definition mm_mark_glyphs (mg : list N) (al : list (N * list anchor)) : list N :=
    map fst (filter (fun ga => memN (fst ga) mg && existsb (fun a => is_mark_k (a_kind a)) (snd ga)) al).
  Definition mm_mark_anchor_groups (mg : list N) (al : list (N * list anchor)) : list str :=
    flat_map (fun ga => if memN (fst ga) mg
                        then flat_map (fun a => match mark_group (a_kind a) with Some g => [g] | None => [] end) (snd ga)
                        else []) al.

  Definition mm_events1 (mks : list N) (mgroups : list str) (gid : N) (a : anchor) : list (str * ev) :=
    if memN gid mks then
      match a_kind a with
      | KBase g => if mem_str g mgroups then [(g, EvBaseF (gid, BOne (a_val a)))] else []
      | _ => []
      end
    else [].

  Fixpoint find_gid (al : list (N * list anchor)) (g : N) : list anchor :=
    match al with
    | [] => []
    | (h, l) :: t => if N.eqb g h then l else find_gid t g
    end.

  Definition mm_events2 (al : list (N * list anchor)) (mks : list N) : list (str * ev) :=
    flat_map (fun mark => flat_map (fun a => match a_kind a with
                                             | KMark g => [(g, EvMark (mark, a_val a))]
                                             | _ => []
                                             end) (find_gid al mark)) mks.

  Definition mark_mark_groups (classes : list (N * cls)) (al : list (N * list anchor)) : gmap :=
    let mg := mark_glyphs classes al in
    let mks := mm_mark_glyphs mg al in
    let mgroups := mm_mark_anchor_groups mg al in
    gmodify (mm_events2 al mks) (gfold (per_anchor al (mm_events1 mks mgroups)) []).

  (* make_mark_to_liga_groups *)
  Definition max_index (anchors : list anchor) : option N :=
    fold_left (fun acc a => match lig_index (a_kind a), acc with
                            | Some i, Some m => Some (N.max i m)
                            | Some i, None => Some i
                            | None, _ => acc
                            end) anchors None.

  Definition might_be_liga (classes : list (N * cls)) (gid : N) : bool :=
    is_nil classes || ocls_is (class_of classes gid) CLig.

  (* component_groups for one glyph: group -> vec![None; max_index] with [index - 1] set *)
  Definition comp_groups (mx : N) (anchors : list anchor) : list (str * list (option P)) :=
    fold_left (fun m a => match a_kind a with
                          | KLig g i => if i =? 0 then m   (* index - 1 would underflow: never built by kind_new *)
                                        else mm_upd str_cmp m g (repeat None (N.to_nat mx))
                                                    (set_nth (N.to_nat (i - 1)) (Some (a_val a)))
                          | _ => m
                          end) anchors [].

  (* mark glyphs are skipped (as in ufo2ft): a mark that carries a numbered anchor is not a ligature *)
  Definition ml_events1 (classes : list (N * cls)) (mg : list N) (ga : N * list anchor) : list (str * ev) :=
    if memN (fst ga) mg then [] else
    if might_be_liga classes (fst ga) then
      match max_index (snd ga) with
      | Some mx => map (fun gv => (fst gv, EvBase (fst ga, BLig (snd gv)))) (comp_groups mx (snd ga))
      | None => []
      end
    else [].

  Definition liga_groups (classes : list (N * cls)) (al : list (N * list anchor)) : list str :=
    map fst (flat_map (ml_events1 classes (mark_glyphs classes al)) al).

  Definition ml_events2 (mg : list N) (lgs : list str) (gid : N) (a : anchor) : list (str * ev) :=
    if memN gid mg then
      match a_kind a with
      | KMark g => if mem_str g lgs then [(g, EvMark (gid, a_val a))] else []
      | _ => []
      end
    else [].

  Definition mark_liga_groups (classes : list (N * cls)) (al : list (N * list anchor)) : gmap :=
    let mg := mark_glyphs classes al in
    gfold (per_anchor al (ml_events2 mg (liga_groups classes al)))
          (gfold (flat_map (ml_events1 classes mg) al) []).

  (* ---- lookups ------------------------------------------------------------------------ *)
  Variable R : Type.            (* a resolved (variable) anchor *)
  Variable resolve : P -> R.

  Record lookup := mkLookup {
    l_type : N;                       (* 4 MarkBasePos, 5 MarkLigPos, 6 MarkMarkPos *)
    l_name : str;
    l_marks : list (N * R);
    l_bases : list (N * bl R);
    l_filter : option (list N);
  }.

  (* MarkGroup::make_filter_glyph_set with every glyph included *)
  Definition filter_set (g : group) : option (list N) :=
    if g_filter g then
      Some (map fst (g_marks g)
            ++ map fst (filter (fun b => negb (memN (fst b) (map fst (g_marks g)))) (g_bases g)))
    else None.

  (* make_lookups_type: include_glyphs = every glyph, marks_filter = |_| true *)
  Definition lookups (ty : N) (m : gmap) : list lookup :=
    flat_map (fun kg =>
      let g := snd kg in
      if is_nil (g_bases g) || is_nil (g_marks g) then []
      else [mkLookup ty (fst kg)
                     (map (fun x => (fst x, resolve (snd x))) (g_marks g))
                     (map (fun x => (fst x, map_bl resolve (snd x))) (g_bases g))
                     (filter_set g)]) m.

  Definition mark_feature (classes : list (N * cls)) (gs : list ganchors) : list lookup :=
    let al := anchor_lists classes gs in
    lookups 4 (mark_base_groups classes al) ++ lookups 5 (mark_liga_groups classes al).
  Definition mkmk_feature (classes : list (N * cls)) (gs : list ganchors) : list lookup :=
    lookups 6 (mark_mark_groups classes (anchor_lists classes gs)).

  (* ---- what a lookup does (OpenType MarkBasePos / MarkLigPos / MarkMarkPos, one mark class) ---
     The builders keep one record per glyph (BTreeMap insert: the last one wins). *)
  Definition find_last {A} (g : N) (l : list (N * A)) : option A :=
    fold_left (fun acc x => if N.eqb (fst x) g then Some (snd x) else acc) l None.

  Definition passes_filter (lk : lookup) (g : N) : bool :=
    match l_filter lk with Some f => memN g f | None => true end.

  (* the pair of anchors (attaching glyph's, mark's) the lookup makes coincide when mark [m] follows
     glyph [b] (component [comp] of a ligature, 0 otherwise); None: the lookup does not apply *)
  Definition attach (lk : lookup) (b comp m : N) : option (R * R) :=
    if passes_filter lk b && passes_filter lk m then
      match find_last m (l_marks lk), find_last b (l_bases lk) with
      | Some rm, Some (BOne rb) => if comp =? 0 then Some (rb, rm) else None
      | Some rm, Some (BLig v) =>
          if comp =? 0 then None
          else match nth_error v (N.to_nat (comp - 1)) with
               | Some (Some rb) => Some (rb, rm)
               | _ => None
               end
      | _, _ => None
      end
    else None.
End Pipeline.

Arguments mkAnchor {P} a_kind a_val.
Arguments a_kind {P} a.
Arguments a_val {P} a.
Arguments mkGroup {P} g_bases g_marks g_filter.
Arguments g_bases {P} g.
Arguments g_marks {P} g.
Arguments g_filter {P} g.
Arguments g_empty {P}.
Arguments EvBase {P} x.
Arguments EvBaseF {P} x.
Arguments EvMark {P} x.
Arguments mkLookup {R} l_type l_name l_marks l_bases l_filter.
Arguments l_type {R} l.
Arguments l_name {R} l.
Arguments l_marks {R} l.
Arguments l_bases {R} l.
Arguments l_filter {R} l.
Arguments attach {R} lk b comp m.
Arguments find_last {A} g l.

(* ===================================================================================== *)
(* Part C — variable anchors                                                               *)
(* ===================================================================================== *)
Close Scope N_scope.
Open Scope Q_scope.

(* OtRound: floor(x + 1/2) *)
Definition ot_round (q : Q) : Z := Qfloor (q + (1 # 2)).

Fixpoint loc_eqb (a b : V.loc) : bool :=
  match a, b with
  | [], [] => true
  | x :: a', y :: b' => Z.eqb x y && loc_eqb a' b'
  | _, _ => false
  end.

Fixpoint assoc_loc {A} (l : V.loc) (ps : list (V.loc * A)) : option A :=
  match ps with
  | [] => None
  | (k, v) :: t => if loc_eqb l k then Some v else assoc_loc l t
  end.

(* a variable value: the sub-model over the locations that define it, and its rounded deltas *)
Definition var := (V.model * list (nat * Q))%type.

(* resolve_variable_metric: master values are OtRound-ed first, the model is the one over exactly the
   given locations (the global model is reused when the location sets are equal: the same model, by
   FV.C07.Props.result_independent_of_supply_order), deltas are rounded.  [mk] builds the model
   (VariationModel::new); the harness passes a memoising version, see [cached]. *)
Definition var_of_with (mk : list V.loc -> V.model) (ps : list (V.loc * Q)) : var :=
  let m := mk (map fst ps) in
  (m, V.deltas m true (map (fun l => option_map (fun v => inject_Z (ot_round v)) (assoc_loc l ps)) (V.m_locs m))).
Definition var_of : list (V.loc * Q) -> var := var_of_with V.model_new.

(* the value the font yields at normalized location [l] *)
Definition var_at (v : var) (l : V.loc) : Q := V.interpolate (V.m_infl (fst v)) (snd v) l.

(* ---- the same value, the way the code hands it to the font ------------------------------------
   resolve_variable_metric returns (default_value, deltas of the non-default regions); the font adds
   to the default coordinate the scalar-weighted deltas (FV.C10.ProofsFont.font_at_is_var_at). *)
(* VariationRegion::is_default: no active axis *)
Definition region_is_default (r : V.region) : bool := forallb negb (V.active r).

(* default_value: OtRound of the sum of delta * scalar at the model's default location over the
   regions whose scalar there is not 0 *)
Definition rvm_default (v : var) (org : V.loc) : Z :=
  ot_round (fold_right (fun kd acc =>
              match nth_error (V.m_infl (fst v)) (fst kd) with
              | Some r => let s := V.scalar_at r org in
                          if V.q_nonzero s then snd kd * s + acc else acc
              | None => acc
              end) 0 (snd v)).

(* (region, OtRound delta) of the regions that are not the default region *)
Definition rvm_deltas (v : var) : list (nat * Z) :=
  flat_map (fun kd => match nth_error (V.m_infl (fst v)) (fst kd) with
                      | Some r => if region_is_default r then [] else [(fst kd, ot_round (snd kd))]
                      | None => []
                      end) (snd v).

Definition font_at (v : var) (org l : V.loc) : Q :=
  inject_Z (rvm_default v org)
  + fold_right (fun kd acc => match nth_error (V.m_infl (fst v)) (fst kd) with
                              | Some r => V.scalar_at r l * inject_Z (snd kd) + acc
                              | None => acc
                              end) 0 (rvm_deltas v).

Definition positions := list (V.loc * (Q * Q)).
Definition xs (p : positions) : list (V.loc * Q) := map (fun e => (fst e, fst (snd e))) p.
Definition ys (p : positions) : list (V.loc * Q) := map (fun e => (fst e, snd (snd e))) p.

(* resolve_anchor_once *)
Definition resolve_anchor_with (mk : list V.loc -> V.model) (p : positions) : var * var :=
  (var_of_with mk (xs p), var_of_with mk (ys p)).
Definition resolve_anchor : positions -> var * var := resolve_anchor_with V.model_new.

Definition anchor_at (r : var * var) (l : V.loc) : Q * Q := (var_at (fst r) l, var_at (snd r) l).

(* ===================================================================================== *)
(* Part D — GDEF glyph classes                                                             *)
(* ===================================================================================== *)
(* recompute_gdef_categories, one glyph: preliminary category, "has an anchor that is not a mark anchor" *)
Definition final_cat (infer_from_anchors : bool) (prelim : option cls) (has_attaching : bool) : option cls :=
  if negb infer_from_anchors then prelim else
  match prelim with
  | Some CMark => Some CMark
  | Some CLig => if has_attaching then Some CLig else None
  | Some CBase => Some CBase
  | Some CComp => Some CComp
  | None => if has_attaching then Some CBase else None
  end.

Definition ocls_eqb (a b : option cls) : bool :=
  match a, b with
  | Some x, Some y => cls_eqb x y
  | None, None => true
  | _, _ => false
  end.

(* harness: rows (preliminary category, has an attaching anchor, final category) of one source *)
Definition gdef_table_ok (infer : bool) (rows : list (option cls * bool * option cls)) : bool :=
  forallb (fun r => ocls_eqb (final_cat infer (fst (fst r)) (snd (fst r))) (snd r)) rows.

(* FeaturesWork: GDEF GlyphClassDef from the source categories, for the glyphs in the glyph order *)
Definition gdef_from_categories (cats : list (option N * cls)) : list (N * cls) :=
  flat_map (fun gc => match fst gc with Some g => [(g, snd gc)] | None => [] end) cats.

(* fea-rs infer_glyph_classes over the GPOS lookups in order: HashMap::insert, the last insert wins *)
Definition infer_step {R} (acc : list (N * cls)) (lk : lookup R) : list (N * cls) :=
  let ins c := fold_left (fun acc g => (g, c) :: acc) in
  if N.eqb (l_type lk) 4 then ins CMark (map fst (l_marks lk)) (ins CBase (map fst (l_bases lk)) acc)
  else if N.eqb (l_type lk) 5 then ins CMark (map fst (l_marks lk)) (ins CLig (map fst (l_bases lk)) acc)
  else ins CMark (map fst (l_bases lk)) (ins CMark (map fst (l_marks lk)) acc).

(* most recent insert first, so [class_of] reads the winner *)
Definition infer_classes {R} (lks : list (lookup R)) : list (N * cls) := fold_left infer_step lks [].

(* ===================================================================================== *)
(* harness side: comparing the model with a decoded font                                   *)
(* ===================================================================================== *)
Definition oanchor := ((Z * Z) * list (Q * Q))%type.   (* default coordinates, value at every master *)
Inductive obase := OB (a : oanchor) | OL (l : list (option oanchor)).
Record obs := mkObs { o_type : N; o_marks : list (N * oanchor); o_bases : list (N * obase); o_filter : option (list N) }.

Definition Qclose (eps a b : Q) : bool := Qle_bool (Qabs (a - b)) eps.

Fixpoint forallb2 {A B} (f : A -> B -> bool) (a : list A) (b : list B) : bool :=
  match a, b with
  | [], [] => true
  | x :: a', y :: b' => f x y && forallb2 f a' b'
  | _, _ => false
  end.

Definition origin_of (masters : list V.loc) : V.loc :=
  match masters with l :: _ => map (fun _ => 0%Z) l | [] => [] end.

Definition anchor_ok (masters : list V.loc) (r : var * var) (o : oanchor) : bool :=
  let org := origin_of masters in
  Z.eqb (rvm_default (fst r) org) (fst (fst o))
  && Z.eqb (rvm_default (snd r) org) (snd (fst o))
  && forallb2 (fun l p => Qclose (1 # 1000) (font_at (fst r) org l) (fst p) && Qclose (1 # 1000) (font_at (snd r) org l) (snd p))
              masters (snd o).

Definition base_ok (masters : list V.loc) (b : bl (var * var)) (o : obase) : bool :=
  match b, o with
  | BOne r, OB a => anchor_ok masters r a
  | BLig l, OL l' => forallb2 (fun r a => match r, a with
                                         | Some r, Some a => anchor_ok masters r a
                                         | None, None => true
                                         | _, _ => false
                                         end) l l'
  | _, _ => false
  end.

Definition set_eqb (a b : list N) : bool := forallb (fun g => memN g b) a && forallb (fun g => memN g a) b.

Definition lookup_ok (masters : list V.loc) (lk : lookup (var * var)) (o : obs) : bool :=
  N.eqb (l_type lk) (o_type o)
  && forallb2 (fun x y => N.eqb (fst x) (fst y) && anchor_ok masters (snd x) (snd y)) (l_marks lk) (o_marks o)
  && forallb2 (fun x y => N.eqb (fst x) (fst y) && base_ok masters (snd x) (snd y)) (l_bases lk) (o_bases o)
  && match l_filter lk, o_filter o with
     | Some f, Some f' => set_eqb f f'
     | None, None => true
     | _, _ => false
     end.

(* the IR anchors of one glyph: classify the names; an unclassifiable name is a compile error *)
Fixpoint classify (anchors : list (str * positions)) : option (list (anchor positions)) :=
  match anchors with
  | [] => Some []
  | (n, p) :: t => match kind_new n, classify t with
                   | inl k, Some r => Some (mkAnchor k p :: r)
                   | _, _ => None
                   end
  end.

Fixpoint classify_all (gs : list (option N * list (str * positions))) : option (list (ganchors positions)) :=
  match gs with
  | [] => Some []
  | (g, a) :: t => match classify a, classify_all t with
                   | Some a', Some r => Some ((g, a') :: r)
                   | _, _ => None
                   end
  end.

(* memoised VariationModel::new for the case evaluation: one model per distinct list of locations
   (FV.C10.ProofsVar.cached_is_model_new: the cache is invisible) *)
Fixpoint locs_eqb (a b : list V.loc) : bool :=
  match a, b with
  | [], [] => true
  | x :: a', y :: b' => loc_eqb x y && locs_eqb a' b'
  | _, _ => false
  end.

Fixpoint cache_find (c : list (list V.loc * V.model)) (k : list V.loc) : option V.model :=
  match c with
  | [] => None
  | (k', m) :: t => if locs_eqb k k' then Some m else cache_find t k
  end.

Definition cached (c : list (list V.loc * V.model)) (k : list V.loc) : V.model :=
  match cache_find c k with Some m => m | None => V.model_new k end.

Definition add_key (ks : list (list V.loc)) (k : list V.loc) : list (list V.loc) :=
  if existsb (locs_eqb k) ks then ks else k :: ks.

Definition all_keys (gs : list (ganchors positions)) : list (list V.loc) :=
  fold_left (fun ks ga => fold_left (fun ks a => add_key ks (map fst (a_val a))) (snd ga) ks) gs [].

Definition build_cache (ks : list (list V.loc)) : list (list V.loc * V.model) :=
  map (fun k => (k, V.model_new k)) ks.

Definition e2e_ok_with (mk : list V.loc -> V.model) (classes : list (N * cls)) (gs' : list (ganchors positions))
           (masters : list V.loc) (omark omkmk : list obs) : bool :=
  forallb2 (lookup_ok masters) (mark_feature positions (var * var) (resolve_anchor_with mk) classes gs') omark
  && forallb2 (lookup_ok masters) (mkmk_feature positions (var * var) (resolve_anchor_with mk) classes gs') omkmk.

Definition e2e_ok (classes : list (N * cls)) (gs : list (option N * list (str * positions)))
           (masters : list V.loc) (omark omkmk : list obs) : bool :=
  match classify_all gs with
  | None => false
  | Some gs' => e2e_ok_with (cached (build_cache (all_keys gs'))) classes gs' masters omark omkmk
  end.
