(* C10 — GDEF glyph classes: the source's marks stay marks; classes inferred from the lookups. *)
From Coq Require Import List NArith ZArith Bool Lia Sorting.Sorted.
From FV.C10 Require Import Model ProofsMM ProofsGroups ProofsPrune ProofsLiga ProofsMain.
Import ListNotations.

(* ---- recompute_gdef_categories ------------------------------------------------------------- *)
Lemma final_cat_mark infer h : final_cat infer (Some CMark) h = Some CMark.
Proof. destruct infer, h; reflexivity. Qed.

(* the whole decision table *)
Lemma final_cat_table :
  (forall p h, final_cat false p h = p)
  /\ (forall h, final_cat true (Some CMark) h = Some CMark)
  /\ (forall h, final_cat true (Some CBase) h = Some CBase)
  /\ (forall h, final_cat true (Some CComp) h = Some CComp)
  /\ final_cat true (Some CLig) true = Some CLig /\ final_cat true (Some CLig) false = None
  /\ final_cat true None true = Some CBase /\ final_cat true None false = None.
Proof. repeat split; try reflexivity; intros; try destruct h; try reflexivity. Qed.

(* never a mark by inference, never a mark lost *)
Lemma final_cat_mark_iff infer p h : final_cat infer p h = Some CMark <-> p = Some CMark.
Proof. destruct infer, h, p as [[]|]; cbn; split; congruence. Qed.

(* ---- GDEF from the source categories ---------------------------------------------------------- *)
Definition cat_gids (cats : list (option N * cls)) : list N :=
  flat_map (fun gc => match fst gc with Some g => [g] | None => [] end) cats.

Lemma gdef_from_categories_class cats g c : NoDup (cat_gids cats) -> In (Some g, c) cats ->
  class_of (gdef_from_categories cats) g = Some c.
Proof.
  unfold cat_gids, gdef_from_categories. induction cats as [|[o c0] t IH]; intros Hnd Hin; [destruct Hin|].
  cbn [flat_map fst snd] in *. destruct Hin as [E|Hin].
  - inversion E; subst. cbn [app class_of]. rewrite N.eqb_refl. reflexivity.
  - destruct o as [h|]; cbn [app] in *; [|apply IH; assumption].
    inversion Hnd as [|? ? Hn Hnd']; subst. cbn [class_of]. destruct (N.eqb_spec g h) as [->|_]; [|apply IH; assumption].
    exfalso. apply Hn. apply in_flat_map. exists (Some h, c). split; [exact Hin|left; reflexivity].
Qed.

(* ---- classes inferred from the lookups ---------------------------------------------------------- *)
Lemma class_of_ins c gl acc g :
  class_of (fold_left (fun acc g => (g, c) :: acc) gl acc) g = if memN g gl then Some c else class_of acc g.
Proof.
  revert acc. induction gl as [|h t IH]; intro acc; cbn [fold_left memN existsb]; [reflexivity|].
  rewrite IH. cbn [class_of]. unfold memN. destruct (N.eqb g h); cbn [orb]; [destruct (existsb (N.eqb g) t); reflexivity|reflexivity].
Qed.

Section Infer.
  Variable R : Type.

  Lemma class_of_step (acc : list (N * cls)) (lk : lookup R) g :
    class_of (infer_step acc lk) g =
    if N.eqb (l_type lk) 4 then
      if memN g (map fst (l_marks lk)) then Some CMark else if memN g (map fst (l_bases lk)) then Some CBase else class_of acc g
    else if N.eqb (l_type lk) 5 then
      if memN g (map fst (l_marks lk)) then Some CMark else if memN g (map fst (l_bases lk)) then Some CLig else class_of acc g
    else
      if memN g (map fst (l_bases lk)) then Some CMark else if memN g (map fst (l_marks lk)) then Some CMark else class_of acc g.
  Proof.
    unfold infer_step. destruct (N.eqb (l_type lk) 4); [|destruct (N.eqb (l_type lk) 5)]; rewrite !class_of_ins; reflexivity.
  Qed.

  (* glyph g is not an attaching glyph of a mark-to-base or mark-to-ligature lookup *)
  Definition never_base (lks : list (lookup R)) (g : N) : Prop :=
    forall lk, In lk lks -> (l_type lk = 4%N \/ l_type lk = 5%N) -> ~ In g (map fst (l_bases lk)).

  Definition is_attached_mark (lks : list (lookup R)) (g : N) : Prop :=
    exists lk, In lk lks /\ In g (map fst (l_marks lk)).

  Lemma infer_mark_gen lks acc g : never_base lks g ->
    class_of acc g = Some CMark \/ is_attached_mark lks g ->
    class_of (fold_left infer_step lks acc) g = Some CMark.
  Proof.
    revert acc. induction lks as [|lk t IH]; intros acc Hn H; cbn [fold_left].
    - destruct H as [H|(lk & [] & _)]. exact H.
    - apply IH.
      + intros lk' Hin. apply Hn. right. exact Hin.
      + assert (Hnb : (l_type lk = 4%N \/ l_type lk = 5%N) -> memN g (map fst (l_bases lk)) = false).
        { intro Ht. apply not_true_is_false. intro Hm. apply memN_In in Hm. exact (Hn lk (or_introl eq_refl) Ht Hm). }
        destruct (memN g (map fst (l_marks lk))) eqn:Em.
        * left. rewrite class_of_step, Em. destruct (N.eqb (l_type lk) 4); [reflexivity|]. destruct (N.eqb (l_type lk) 5); [reflexivity|].
          destruct (memN g (map fst (l_bases lk))); reflexivity.
        * destruct H as [H|(lk' & [<-|Hin] & Hm)].
          -- left. rewrite class_of_step, Em.
             destruct (N.eqb_spec (l_type lk) 4) as [E4|_]; [rewrite (Hnb (or_introl E4)); exact H|].
             destruct (N.eqb_spec (l_type lk) 5) as [E5|_]; [rewrite (Hnb (or_intror E5)); exact H|].
             destruct (memN g (map fst (l_bases lk))); [reflexivity|exact H].
          -- apply memN_In in Hm. congruence.
          -- right. exists lk'. auto.
  Qed.

  Theorem inferred_class_of_attached_mark lks g : never_base lks g -> is_attached_mark lks g ->
    class_of (infer_classes lks) g = Some CMark.
  Proof. intros Hn H. unfold infer_classes. apply infer_mark_gen; [exact Hn|right; exact H]. Qed.
End Infer.

(* ---- on the pipeline's own lookups --------------------------------------------------------------- *)
Section OnPipeline.
  Variables (P R : Type) (resolve : P -> R).
  Variables (classes : list (N * cls)) (gs : list (ganchors P)).
  Hypothesis Hgids : NoDup (gids P gs).
  Hypothesis Hkinds : forall o anchors, In (o, anchors) gs -> uniq_kinds P anchors.

  Notation al := (anchor_lists P classes gs).
  Notation mg := (mark_glyphs P classes al).
  Notation all_lookups := (mark_feature P R resolve classes gs ++ mkmk_feature P R resolve classes gs).

  (* every glyph a lookup lists as a mark is a mark glyph of the source *)
  Lemma attached_marks_are_source_marks lk m : In lk all_lookups -> In m (map fst (l_marks lk)) ->
    src_mark_glyph P classes gs m.
  Proof.
    intros Hin Hm. apply in_map_iff in Hm as ([m' rm] & E & Hm). cbn [fst] in E. subst m'.
    apply in_app_iff in Hin as [Hin|Hin].
    - apply (In_mark_feature P R resolve classes gs) in Hin as [Hin|Hin].
      + apply (In_lookups P R resolve 4 _ _ (mb_sorted P classes al)) in Hin as (grp & Hf & _ & _ & E).
        destruct (mb_group P classes al _ grp Hf) as (_ & GM & _). rewrite E in Hm. cbn [lookup_of l_marks] in Hm.
        apply In_map_marks in Hm as (p & Hm & _). apply GM in Hm as (_ & Mm). apply (In_mg_iff P classes gs Hgids). exact Mm.
      + apply (In_lookups P R resolve 5 _ _ (ml_sorted P classes al)) in Hin as (grp & Hf & _ & _ & E).
        destruct (ml_group P classes al _ grp Hf) as (_ & GM & _). rewrite E in Hm. cbn [lookup_of l_marks] in Hm.
        apply In_map_marks in Hm as (p & Hm & _). apply GM in Hm as (_ & Mm & _). apply (In_mg_iff P classes gs Hgids). exact Mm.
    - unfold mkmk_feature in Hin.
      apply (In_lookups P R resolve 6 _ _ (mmk_sorted P classes al)) in Hin as (grp & Hf & _ & _ & E).
      destruct (mmk_group P classes al (anchor_lists_sorted P classes gs) _ grp Hf) as (_ & GM & _). rewrite E in Hm. cbn [lookup_of l_marks] in Hm.
      apply In_map_marks in Hm as (p & Hm & _). apply GM in Hm as (Mm & _). apply (In_mg_iff P classes gs Hgids). exact Mm.
  Qed.

  (* a mark glyph is never the attaching glyph of a mark-to-base or mark-to-ligature lookup *)
  Lemma mark_never_base m : src_mark_glyph P classes gs m -> never_base R all_lookups m.
  Proof.
    intros Hm lk Hin Ht Hb. apply in_map_iff in Hb as ([m' rb] & E & Hb). cbn [fst] in E. subst m'.
    assert (T : forall ty mp x, sorted str (group P) str_cmp mp -> In x (lookups P R resolve ty mp) -> l_type x = ty).
    { intros ty mp x Hs Hx. apply (In_lookups P R resolve ty mp x Hs) in Hx as (grp & _ & _ & _ & E). rewrite E. reflexivity. }
    apply (In_mg_iff P classes gs Hgids) in Hm.
    apply in_app_iff in Hin as [Hin|Hin].
    - apply (In_mark_feature P R resolve classes gs) in Hin as [Hin|Hin].
      + apply (In_lookups P R resolve 4 _ _ (mb_sorted P classes al)) in Hin as (grp & Hf & _ & _ & E).
        destruct (mb_group P classes al _ grp Hf) as (GB & _ & _). rewrite E in Hb. cbn [lookup_of l_bases] in Hb.
        apply In_map_bases in Hb as (x & Hb & _). apply GB in Hb as (p & _ & _ & Tb).
        apply (treat_as_base_iff P classes gs) in Tb as [Hn _]. apply Hn. exact Hm.
      + apply (In_lookups P R resolve 5 _ _ (ml_sorted P classes al)) in Hin as (grp & Hf & _ & _ & E).
        destruct (ml_group P classes al _ grp Hf) as (GB & _ & _). rewrite E in Hb. cbn [lookup_of l_bases] in Hb.
        apply In_map_bases in Hb as (x & Hb & _). apply GB in Hb as (vec & _ & l & mx & _ & Mk & _).
        apply memN_In in Hm. rewrite Hm in Mk. discriminate.
    - unfold mkmk_feature in Hin. apply T in Hin; [|apply mmk_sorted]. destruct Ht as [Ht|Ht]; rewrite Hin in Ht; discriminate.
  Qed.

  Theorem attached_marks_inferred_marks m : is_attached_mark R all_lookups m ->
    class_of (infer_classes all_lookups) m = Some CMark.
  Proof.
    intros Ha. apply inferred_class_of_attached_mark; [|exact Ha].
    destruct Ha as (lk & Hin & Hm). apply mark_never_base.
    eapply attached_marks_are_source_marks; eassumption.
  Qed.
End OnPipeline.

(* ---- the source that used to refute this (before make_mark_to_liga_groups skipped mark glyphs) ----- *)
(* no categories in the source; glyph 1: `x2`; glyph 2: `_x2` and `c_1`; glyph 3: `_c` *)
Definition gdef_witness : list (ganchors unit) :=
  [ (Some 1%N, [mkAnchor (KBase [120; 50]%N) tt]);
    (Some 2%N, [mkAnchor (KMark [120; 50]%N) tt; mkAnchor (KLig [99]%N 1%N) tt]);
    (Some 3%N, [mkAnchor (KMark [99]%N) tt]) ].

Definition witness_lookups : list (lookup unit) :=
  mark_feature unit unit (fun x => x) [] gdef_witness ++ mkmk_feature unit unit (fun x => x) [] gdef_witness.

(* glyph 2 is attached as a mark, is no ligature of any lookup, and is inferred to be a mark *)
Lemma gdef_witness_facts :
  In 2%N (mark_glyphs unit [] (anchor_lists unit [] gdef_witness))
  /\ map (fun lk => (l_type lk, map fst (l_marks lk), map fst (l_bases lk))) witness_lookups = [(4%N, [2%N], [1%N])]
  /\ class_of (infer_classes witness_lookups) 2%N = Some CMark.
Proof. split; [vm_compute; left; reflexivity|]. split; vm_compute; reflexivity. Qed.
