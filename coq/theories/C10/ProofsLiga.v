(* C10 — make_mark_to_liga_groups: the component vectors and the groups. *)
From Coq Require Import List NArith ZArith Bool Lia Sorting.Sorted.
From FV.C10 Require Import Model ProofsMM ProofsGroups ProofsPrune.
Import ListNotations.

(* ---- set_nth ---------------------------------------------------------------------------- *)
Lemma set_nth_length {A} n (v : A) l : length (set_nth n v l) = length l.
Proof. revert n. induction l as [|x l IH]; intros [|n]; cbn [set_nth length]; auto. Qed.

Lemma set_nth_same {A} n (v : A) l : (n < length l)%nat -> nth_error (set_nth n v l) n = Some v.
Proof.
  revert n. induction l as [|x l IH]; intros [|n] H; cbn [set_nth length nth_error] in *; try lia; [reflexivity|].
  apply IH. lia.
Qed.

Lemma set_nth_other {A} n j (v : A) l : j <> n -> nth_error (set_nth n v l) j = nth_error l j.
Proof.
  revert n j. induction l as [|x l IH]; intros [|n] [|j] H; cbn [set_nth nth_error]; try reflexivity; try congruence.
  apply IH. congruence.
Qed.

Section L.
  Variable P : Type.
  Notation alist := (list (N * list (anchor P))).
  Notation asorted := (sorted N (list (anchor P)) N.compare).
  Notation vecs := (list (str * list (option P))).
  Notation vsorted := (sorted str (list (option P)) str_cmp).

  (* the ligature anchors of one glyph as (group, (index, payload)) *)
  Definition lig_events (anchors : list (anchor P)) : list (str * (N * P)) :=
    flat_map (fun a => match a_kind a with
                       | KLig g i => if N.eqb i 0 then [] else [(g, (i, a_val a))]
                       | _ => []
                       end) anchors.

  Definition vset (e : N * P) (l : list (option P)) : list (option P) :=
    set_nth (N.to_nat (fst e - 1)) (Some (snd e)) l.

  Lemma comp_groups_kfold mx anchors :
    comp_groups P mx anchors =
    kfold str (list (option P)) str_cmp (N * P) (repeat None (N.to_nat mx)) vset (lig_events anchors) [].
  Proof.
    unfold comp_groups, kfold, lig_events. generalize (@nil (str * list (option P))) as m.
    induction anchors as [|a t IH]; intro m; cbn [fold_left flat_map]; [reflexivity|].
    rewrite fold_left_app, IH. f_equal. destruct (a_kind a); try reflexivity.
    destruct (N.eqb i 0); reflexivity.
  Qed.

  Lemma comp_groups_sorted mx anchors : vsorted (comp_groups P mx anchors).
  Proof.
    rewrite comp_groups_kfold. apply (kfold_sorted str (list (option P)) str_cmp str_cmp_anti str_cmp_trans). constructor.
  Qed.

  Notation levs g anchors := (evs_for str (N * P) str_eqb g (lig_events anchors)).
  Notation vall := (app_all (list (option P)) (N * P) vset).

  Lemma comp_groups_find mx anchors g :
    mm_find str_cmp (comp_groups P mx anchors) g =
    match levs g anchors with
    | [] => None
    | es => Some (vall es (repeat None (N.to_nat mx)))
    end.
  Proof.
    rewrite comp_groups_kfold.
    rewrite (kfold_find str (list (option P)) str_cmp str_cmp_eq str_cmp_anti str_cmp_trans (N * P) _ vset str_eqb str_eqb_eq _ _ g
                        (sorted_nil str (list (option P)) str_cmp)).
    reflexivity.
  Qed.

  Lemma In_levs g anchors i p : In (i, p) (levs g anchors) <-> In (mkAnchor (KLig g i) p) anchors /\ i <> 0%N.
  Proof.
    rewrite (In_evs_for str (N * P) str_eqb str_eqb_eq). unfold lig_events. rewrite in_flat_map. split.
    - intros ([k q] & Ha & H). cbn [a_kind a_val] in H. destruct k; cbn [In] in H; try contradiction.
      destruct (N.eqb_spec i0 0) as [->|Hne]; cbn [In] in H; [contradiction|]. destruct H as [E|[]]. inversion E; subst. auto.
    - intros [Ha Hne]. exists (mkAnchor (KLig g i) p). split; [exact Ha|]. cbn [a_kind a_val].
      destruct (N.eqb_spec i 0) as [->|_]; [contradiction|]. left. reflexivity.
  Qed.

  Lemma vall_length es l : length (vall es l) = length l.
  Proof.
    revert l. induction es as [|e es IH]; intro l; cbn [app_all fold_left]; [reflexivity|].
    change (fold_left _ es ?x) with (vall es x). rewrite IH. apply set_nth_length.
  Qed.

  (* the slot of component [i] holds the payload of the ligature anchor (g, i), when there is one payload *)
  Lemma vall_slot es l i p : i <> 0%N -> (N.to_nat (i - 1) < length l)%nat ->
    (forall j q, In (j, q) es -> j <> 0%N) ->
    (forall q, In (i, q) es -> q = p) ->
    In (i, p) es \/ nth_error l (N.to_nat (i - 1)) = Some (Some p) ->
    nth_error (vall es l) (N.to_nat (i - 1)) = Some (Some p).
  Proof.
    intros Hi. revert l. induction es as [|[j q] es IH]; intros l Hlen Hnz Hu H; cbn [app_all fold_left].
    - destruct H as [[]|H]. exact H.
    - change (fold_left _ es ?x) with (vall es x). apply IH.
      + unfold vset. rewrite set_nth_length. exact Hlen.
      + intros j' q' Hin. apply (Hnz j' q'). right. exact Hin.
      + intros q' Hin. apply (Hu q'). right. exact Hin.
      + unfold vset. cbn [fst snd]. destruct (N.eq_dec j i) as [->|Hne].
        * right. rewrite (Hu q (or_introl eq_refl)). apply set_nth_same. exact Hlen.
        * destruct H as [[E|H]|H].
          -- inversion E. congruence.
          -- left. exact H.
          -- right. rewrite set_nth_other; [exact H|]. assert (j <> 0%N) by (apply (Hnz j q); left; reflexivity). lia.
  Qed.

  (* a slot no ligature anchor of the group names stays empty *)
  Lemma vall_empty_slot es l j : (forall i q, In (i, q) es -> i <> 0%N /\ N.to_nat (i - 1) <> j) ->
    nth_error (vall es l) j = nth_error l j.
  Proof.
    revert l. induction es as [|[i q] es IH]; intros l H; cbn [app_all fold_left]; [reflexivity|].
    change (fold_left _ es ?x) with (vall es x). rewrite IH.
    - unfold vset. cbn [fst snd]. apply set_nth_other. destruct (H i q (or_introl eq_refl)) as [_ Hne]. congruence.
    - intros i' q' Hin. apply (H i' q'). right. exact Hin.
  Qed.

  (* conversely, a filled slot comes from an anchor event *)
  Lemma vall_slot_inv es l j p : nth_error (vall es l) j = Some (Some p) ->
    (exists i, In (i, p) es /\ N.to_nat (i - 1) = j) \/ nth_error l j = Some (Some p).
  Proof.
    revert l. induction es as [|[i q] es IH]; intros l H; cbn [app_all fold_left] in H; [right; exact H|].
    change (fold_left _ es ?x) with (vall es x) in H. apply IH in H as [(i' & Hin & E)|H].
    - left. exists i'. split; [right; exact Hin|exact E].
    - unfold vset in H. cbn [fst snd] in H. destruct (Nat.eq_dec j (N.to_nat (i - 1))) as [->|Hne].
      + destruct (Nat.lt_ge_cases (N.to_nat (i - 1)) (length l)) as [Hlt|Hge].
        * rewrite set_nth_same in H by exact Hlt. inversion H; subst. left. exists i. split; [left; reflexivity|reflexivity].
        * assert (Hn : nth_error (set_nth (N.to_nat (i - 1)) (Some q) l) (N.to_nat (i - 1)) = None).
          { apply nth_error_None. rewrite set_nth_length. exact Hge. }
          congruence.
      + rewrite set_nth_other in H by exact Hne. right. exact H.
  Qed.

  (* ---- max_index ------------------------------------------------------------------------- *)
  Definition mx_step (acc : option N) (a : anchor P) : option N :=
    match lig_index (a_kind a), acc with
    | Some i, Some m => Some (N.max i m)
    | Some i, None => Some i
    | None, _ => acc
    end.

  Lemma mx_fold_ge anchors acc m : fold_left mx_step anchors acc = Some m ->
    (forall m0, acc = Some m0 -> (m0 <= m)%N)
    /\ (forall a i, In a anchors -> lig_index (a_kind a) = Some i -> (i <= m)%N).
  Proof.
    revert acc. induction anchors as [|a t IH]; intros acc H; cbn [fold_left] in H.
    - split; [intros m0 E; rewrite E in H; inversion H; lia|intros a i []].
    - destruct (IH _ H) as [A B]. split.
      + intros m0 E. subst acc. unfold mx_step in A. destruct (lig_index (a_kind a)) as [i|].
        * specialize (A _ eq_refl). lia.
        * apply A. reflexivity.
      + intros a' i [<-|Hin] Hi; [|eapply B; eassumption].
        unfold mx_step in A. rewrite Hi in A. destruct acc as [m0|]; specialize (A _ eq_refl); lia.
  Qed.

  Lemma mx_fold_some anchors acc : (acc <> None \/ exists a i, In a anchors /\ lig_index (a_kind a) = Some i) ->
    exists m, fold_left mx_step anchors acc = Some m.
  Proof.
    revert acc. induction anchors as [|a t IH]; intros acc H; cbn [fold_left].
    - destruct H as [H|(a & i & [] & _)]. destruct acc; [eauto|congruence].
    - apply IH. destruct H as [H|(a' & i & [<-|Hin] & Hi)].
      + left. unfold mx_step. destruct (lig_index (a_kind a)), acc; congruence.
      + left. unfold mx_step. rewrite Hi. destruct acc; discriminate.
      + right. eauto.
  Qed.

  Lemma max_index_ge anchors m a i : max_index P anchors = Some m -> In a anchors -> lig_index (a_kind a) = Some i -> (i <= m)%N.
  Proof. intros H. apply (proj2 (mx_fold_ge anchors None m H)). Qed.

  Lemma max_index_some anchors a i : In a anchors -> lig_index (a_kind a) = Some i -> exists m, max_index P anchors = Some m.
  Proof. intros Ha Hi. apply mx_fold_some. right. eauto. Qed.

  (* ---- the component vector of one glyph and one group -------------------------------------- *)
  Definition uniq_kinds (anchors : list (anchor P)) : Prop :=
    forall a a', In a anchors -> In a' anchors -> a_kind a = a_kind a' -> a = a'.

  Lemma comp_vec_spec anchors mx g vec : uniq_kinds anchors -> max_index P anchors = Some mx ->
    mm_find str_cmp (comp_groups P mx anchors) g = Some vec ->
    length vec = N.to_nat mx
    /\ (forall i p, In (mkAnchor (KLig g i) p) anchors -> i <> 0%N -> nth_error vec (N.to_nat (i - 1)) = Some (Some p))
    /\ (forall j, (j < N.to_nat mx)%nat -> (forall p, ~ In (mkAnchor (KLig g (N.of_nat (S j))) p) anchors) -> nth_error vec j = Some None).
  Proof.
    intros Hu Hmx. rewrite comp_groups_find. destruct (levs g anchors) as [|e0 es0] eqn:E; [discriminate|]. rewrite <- E.
    intro H. inversion H as [Ev]. clear H. split; [|split].
    - rewrite vall_length, repeat_length. reflexivity.
    - intros i p Ha Hi. apply vall_slot.
      + exact Hi.
      + rewrite repeat_length. pose proof (max_index_ge anchors mx _ i Hmx Ha eq_refl). lia.
      + intros j q Hin. apply In_levs in Hin. destruct Hin as [_ Hin]. exact Hin.
      + intros q Hin. apply In_levs in Hin as [Hq _]. pose proof (Hu _ _ Hq Ha eq_refl) as Eq. inversion Eq. reflexivity.
      + left. apply In_levs. auto.
    - intros j Hj Hno. rewrite vall_empty_slot.
      + apply nth_error_repeat. exact Hj.
      + intros i q Hin. apply In_levs in Hin as [Ha Hi]. split; [exact Hi|]. intro Ej. apply (Hno q).
        replace (N.of_nat (S j)) with i by lia. exact Ha.
  Qed.

  Lemma comp_vec_inv anchors mx g vec i p : i <> 0%N ->
    mm_find str_cmp (comp_groups P mx anchors) g = Some vec ->
    nth_error vec (N.to_nat (i - 1)) = Some (Some p) -> In (mkAnchor (KLig g i) p) anchors.
  Proof.
    intros Hi. rewrite comp_groups_find. destruct (levs g anchors) as [|e0 es0] eqn:E; [discriminate|]. rewrite <- E.
    intro H. inversion H as [Ev]. clear H. intro Hn. apply vall_slot_inv in Hn as [(i' & Hin & Ei)|Hn].
    - apply In_levs in Hin as [Ha Hi']. replace i with i' by lia. exact Ha.
    - destruct (Nat.lt_ge_cases (N.to_nat (i - 1)) (N.to_nat mx)) as [Hlt|Hge].
      + rewrite nth_error_repeat in Hn by exact Hlt. discriminate.
      + assert (Hnone : nth_error (repeat (@None P) (N.to_nat mx)) (N.to_nat (i - 1)) = None) by (apply nth_error_None; rewrite repeat_length; exact Hge).
        congruence.
  Qed.

  Lemma comp_groups_has anchors mx g i p : In (mkAnchor (KLig g i) p) anchors -> i <> 0%N ->
    exists vec, mm_find str_cmp (comp_groups P mx anchors) g = Some vec.
  Proof.
    intros Ha Hi. rewrite comp_groups_find. destruct (levs g anchors) as [|e es] eqn:E; [|eexists; reflexivity].
    exfalso. assert (Hin : In (i, p) (levs g anchors)) by (apply In_levs; auto). rewrite E in Hin. destruct Hin.
  Qed.

  (* ---- the groups ---------------------------------------------------------------------------- *)
  Notation gsorted := (sorted str (group P) str_cmp).
  Notation evfor := (evs_for str (ev P) str_eqb).
  Notation apply_all := (app_all (group P) (ev P) (apply_ev P)).

  Section ML.
    Variables (classes : list (N * cls)) (al : alist).
    Let mg := mark_glyphs P classes al.
    Let evs1 := flat_map (ml_events1 P classes mg) al.
    Let lgs := liga_groups P classes al.
    Let evs2 := per_anchor P al (ml_events2 P mg lgs).

    (* glyph L contributes the component vector [vec] to group g *)
    Definition lig_entry (g : str) (L : N) (vec : list (option P)) : Prop :=
      exists anchors mx, In (L, anchors) al /\ memN L mg = false /\ might_be_liga classes L = true
                         /\ max_index P anchors = Some mx /\ mm_find str_cmp (comp_groups P mx anchors) g = Some vec.

    Lemma ml_ev1 g e : In (g, e) evs1 <-> exists L vec, e = EvBase (L, BLig vec) /\ lig_entry g L vec.
    Proof.
      unfold evs1. rewrite in_flat_map. split.
      - intros ([L anchors] & Hin & H). unfold ml_events1 in H. cbn [fst snd] in H.
        destruct (memN L mg) eqn:Mk; [destruct H|].
        destruct (might_be_liga classes L) eqn:M; [|destruct H]. destruct (max_index P anchors) as [mx|] eqn:Mx; [|destruct H].
        apply in_map_iff in H as ([g' vec] & E & Hv). cbn [fst snd] in E. inversion E; subst.
        exists L, vec. split; [reflexivity|]. exists anchors, mx. repeat split; auto.
        apply (find_In str (list (option P)) str_cmp str_cmp_eq _ g vec (comp_groups_sorted mx anchors)). exact Hv.
      - intros (L & vec & -> & anchors & mx & Hin & Mk & M & Mx & Hf). exists (L, anchors). split; [exact Hin|].
        unfold ml_events1. cbn [fst snd]. rewrite Mk, M, Mx. apply in_map_iff. exists (g, vec). split; [reflexivity|].
        apply (find_In str (list (option P)) str_cmp str_cmp_eq _ g vec (comp_groups_sorted mx anchors)). exact Hf.
    Qed.

    Lemma In_lgs g : In g lgs <-> exists L vec, lig_entry g L vec.
    Proof.
      unfold lgs, liga_groups. fold evs1. rewrite in_map_iff. split.
      - intros ([g' e] & E & H). cbn [fst] in E. subst g'. apply ml_ev1 in H as (L & vec & _ & H). eauto.
      - intros (L & vec & H). exists (g, EvBase (L, BLig vec)). split; [reflexivity|]. apply ml_ev1. eauto.
    Qed.

    Lemma ml_ev2 g e : In (g, e) evs2 <-> exists m p, e = EvMark (m, p) /\ has_anchor P al m (KMark g) p /\ In m mg /\ In g lgs.
    Proof.
      unfold evs2. rewrite In_per_anchor. split.
      - intros (gid & anchors & a & Hin & Ha & He). unfold ml_events2 in He. destruct (memN gid mg) eqn:M; [|destruct He].
        destruct a as [k q]. cbn [a_kind a_val] in He. destruct k; try destruct He.
        destruct (mem_str g0 lgs) eqn:G; [|destruct He]. destruct He as [E|[]]. inversion E; subst.
        exists gid, q. split; [reflexivity|]. split; [exists anchors; auto|]. split; [apply memN_In; exact M|apply mem_str_In; exact G].
      - intros (m & p & -> & (anchors & Hin & Ha) & M & G). exists m, anchors, (mkAnchor (KMark g) p).
        split; [exact Hin|]. split; [exact Ha|]. unfold ml_events2. apply memN_In in M. rewrite M. cbn [a_kind a_val].
        apply mem_str_In in G. rewrite G. left. reflexivity.
    Qed.

    Lemma ml_group g grp : mm_find str_cmp (mark_liga_groups P classes al) g = Some grp ->
      (forall L x, In (L, x) (g_bases grp) <-> exists vec, x = BLig vec /\ lig_entry g L vec)
      /\ (forall m p, In (m, p) (g_marks grp) <-> has_anchor P al m (KMark g) p /\ In m mg /\ In g lgs)
      /\ g_filter grp = false.
    Proof.
      unfold mark_liga_groups. fold mg. fold evs1. fold lgs. fold evs2.
      rewrite (gfold_find P evs2 _ g (gfold_sorted P evs1 [] (gsorted_nil P))), (gfold_find P evs1 [] g (gsorted_nil P)). cbn [mm_find].
      intro H.
      assert (E : grp = apply_all (evfor g evs2) (apply_all (evfor g evs1) g_empty)).
      { destruct (evfor g evs1) as [|e1 es1].
        - destruct (evfor g evs2); [discriminate|]. inversion H. reflexivity.
        - inversion H. reflexivity. }
      clear H.
      destruct (apply_all_spec P (evfor g evs2) (apply_all (evfor g evs1) g_empty)) as (A & B & C).
      destruct (apply_all_spec P (evfor g evs1) g_empty) as (A1 & B1 & C1).
      rewrite <- E in A, B, C. rewrite A1 in A. rewrite B1 in B. rewrite C1 in C.
      cbn [g_empty g_bases g_marks g_filter app orb] in A, B, C.
      assert (Z2 : ev_bases P (evfor g evs2) = []).
      { destruct (ev_bases P (evfor g evs2)) as [|x l] eqn:Ex; [reflexivity|]. exfalso.
        assert (Hx : In x (ev_bases P (evfor g evs2))) by (rewrite Ex; left; reflexivity).
        apply In_ev_bases in Hx. destruct Hx as [Hx|Hx]; apply In_evfor, ml_ev2 in Hx as (m & p & Hy & _); discriminate. }
      assert (Z1 : ev_marks P (evfor g evs1) = []).
      { destruct (ev_marks P (evfor g evs1)) as [|x l] eqn:Ex; [reflexivity|]. exfalso.
        assert (Hx : In x (ev_marks P (evfor g evs1))) by (rewrite Ex; left; reflexivity).
        apply In_ev_marks, In_evfor, ml_ev1 in Hx as (L & vec & Hy & _). discriminate. }
      rewrite Z2, app_nil_r in A. rewrite Z1 in B. cbn [app] in B.
      split; [|split].
      - intros L x. rewrite A, In_ev_bases, !In_evfor, !ml_ev1. split.
        + intros [(L' & vec & E' & He)|(L' & vec & E' & _)]; [|discriminate]. inversion E'; subst. eauto.
        + intros (vec & -> & He). left. eauto.
      - intros m p. rewrite B, In_ev_marks, In_evfor, ml_ev2. split.
        + intros (m' & p' & E' & H). inversion E'; subst. exact H.
        + intro H. eauto.
      - rewrite C. apply not_true_is_false. intro Hx. apply orb_true_iff in Hx as [Hx|Hx]; unfold ev_filter in Hx;
          apply existsb_exists in Hx as (e & He & Hb); destruct e; try discriminate; apply In_evfor in He.
        + apply ml_ev1 in He as (? & ? & Hy & _). discriminate.
        + apply ml_ev2 in He as (? & ? & Hy & _). discriminate.
    Qed.

    Lemma ml_group_exists g L vec : lig_entry g L vec ->
      exists grp, mm_find str_cmp (mark_liga_groups P classes al) g = Some grp.
    Proof.
      intro He. unfold mark_liga_groups. fold mg. fold evs1. fold lgs. fold evs2.
      rewrite (gfold_find P evs2 _ g (gfold_sorted P evs1 [] (gsorted_nil P))), (gfold_find P evs1 [] g (gsorted_nil P)). cbn [mm_find].
      destruct (evfor g evs1) as [|e es] eqn:E; [|eexists; reflexivity]. exfalso.
      assert (Hin : In (EvBase (L, BLig vec)) (evfor g evs1)) by (apply In_evfor, ml_ev1; eauto).
      rewrite E in Hin. destruct Hin.
    Qed.

    Lemma ml_sorted : gsorted (mark_liga_groups P classes al).
    Proof. unfold mark_liga_groups. apply gfold_sorted, gfold_sorted, gsorted_nil. Qed.
  End ML.
End L.
