(* C10 — AnchorKind::new: what the classification of an anchor name says about the name. *)
From Coq Require Import List NArith ZArith Bool Lia DecimalPos DecimalN.
From FV.C10 Require Import Model ProofsMM.
Import ListNotations.
Local Open Scope N_scope.

Lemma strip_us n suffix : strip_prefix [c_us] n = Some suffix <-> n = c_us :: suffix.
Proof.
  destruct n as [|d t]; cbn [strip_prefix]; [split; discriminate|].
  destruct (N.eqb_spec c_us d) as [<-|Hne]; split; intro H; inversion H; try reflexivity; congruence.
Qed.

Lemma rsplit_once_app c s a b : rsplit_once c s = Some (a, b) -> s = a ++ c :: b.
Proof.
  revert a b. induction s as [|d t IH]; intros a b H; cbn [rsplit_once] in H; [discriminate|].
  destruct (rsplit_once c t) as [[a' b']|] eqn:E.
  - inversion H; subst. cbn [app]. f_equal. apply IH. reflexivity.
  - destruct (N.eqb_spec d c) as [->|_]; [|discriminate]. inversion H; subst. reflexivity.
Qed.

Lemma parse_usize_nonempty s i : parse_usize s = Some i -> s <> [].
Proof. intros H E. subst. discriminate. Qed.

Ltac kn_head H :=
  unfold kind_new in H;
  destruct (str_eqb _ s_entry); [discriminate|];
  destruct (str_eqb _ s_exit); [discriminate|];
  destruct (strip_prefix s_caret_ _) as [?suf|];
  [unfold caret_kind in H; destruct (parse_usize suf) as [[|?]|]; discriminate|];
  destruct (strip_prefix s_vcaret_ _) as [?suf|];
  [unfold caret_kind in H; destruct (parse_usize suf) as [[|?]|]; discriminate|].

(* a base anchor's group is its name *)
Lemma kind_new_base n g : kind_new n = inl (KBase g) -> g = n.
Proof.
  intro H. kn_head H.
  destruct (strip_prefix [c_us] n) as [suffix|].
  - destruct (parse_usize suffix) as [[|?]|]; try discriminate. destruct suffix; [discriminate|].
    destruct (rsplit_once c_us (n0 :: suffix)) as [[? nn]|]; [destruct (parse_usize nn)|]; discriminate.
  - destruct (rsplit_once c_us n) as [[g0 nn]|]; [destruct (parse_usize nn) as [[|?]|]|]; try discriminate; inversion H; reflexivity.
Qed.

(* a mark anchor's group is its name without the leading underscore *)
Lemma kind_new_mark n g : kind_new n = inl (KMark g) -> n = c_us :: g /\ g <> [].
Proof.
  intro H. kn_head H.
  destruct (strip_prefix [c_us] n) as [suffix|] eqn:Es.
  - apply strip_us in Es. destruct (parse_usize suffix) as [[|?]|]; try discriminate. destruct suffix as [|c0 t]; [discriminate|].
    destruct (rsplit_once c_us (c0 :: t)) as [[? nn]|]; [destruct (parse_usize nn)|]; try discriminate;
      inversion H; subst; (split; [reflexivity|discriminate]).
  - destruct (rsplit_once c_us n) as [[g0 nn]|]; [destruct (parse_usize nn) as [[|?]|]|]; discriminate.
Qed.

(* a ligature anchor's name is its group, an underscore and a numeral for its non-zero index *)
Lemma kind_new_lig n g i : kind_new n = inl (KLig g i) ->
  i <> 0 /\ exists d, n = g ++ c_us :: d /\ parse_usize d = Some i.
Proof.
  intro H. kn_head H.
  destruct (strip_prefix [c_us] n) as [suffix|].
  - destruct (parse_usize suffix) as [[|?]|]; try discriminate. destruct suffix; [discriminate|].
    destruct (rsplit_once c_us (n0 :: suffix)) as [[? nn]|]; [destruct (parse_usize nn)|]; discriminate.
  - destruct (rsplit_once c_us n) as [[g0 nn]|] eqn:Er; [|discriminate].
    destruct (parse_usize nn) as [[|p]|] eqn:Ep; try discriminate. inversion H; subst.
    split; [discriminate|]. exists nn. split; [apply rsplit_once_app; exact Er|exact Ep].
Qed.

(* no index is zero: `index - 1` in make_mark_to_liga_groups cannot underflow *)
Lemma kind_new_index_nonzero n :
  match kind_new n with
  | inl (KLig _ i) | inl (KCompMarker i) | inl (KCaret i) | inl (KVCaret i) => i <> 0
  | _ => True
  end.
Proof.
  unfold kind_new.
  destruct (str_eqb n s_entry); [exact I|]. destruct (str_eqb n s_exit); [exact I|].
  destruct (strip_prefix s_caret_ n) as [suf|]; [unfold caret_kind; destruct (parse_usize suf) as [[|?]|]; try exact I; discriminate|].
  destruct (strip_prefix s_vcaret_ n) as [suf|]; [unfold caret_kind; destruct (parse_usize suf) as [[|?]|]; try exact I; discriminate|].
  destruct (strip_prefix [c_us] n) as [suffix|].
  - destruct (parse_usize suffix) as [[|?]|]; try exact I; try discriminate. destruct suffix; [exact I|].
    destruct (rsplit_once c_us (n0 :: suffix)) as [[? nn]|]; [destruct (parse_usize nn)|]; exact I.
  - destruct (rsplit_once c_us n) as [[g0 nn]|]; [destruct (parse_usize nn) as [[|?]|]|]; try exact I. discriminate.
Qed.

(* the mark anchor that matches base anchor `g` is the one named `_g`; the one that matches the
   ligature anchors `g_1`, `g_2`, ... as well *)
Theorem matching_mark_anchor_of_base nb nm g :
  kind_new nb = inl (KBase g) -> kind_new nm = inl (KMark g) -> nm = c_us :: nb.
Proof. intros Hb Hm. apply kind_new_base in Hb. apply kind_new_mark in Hm as [Hm _]. subst. reflexivity. Qed.

Theorem matching_mark_anchor_of_ligature nl nm g i :
  kind_new nl = inl (KLig g i) -> kind_new nm = inl (KMark g) ->
  nm = c_us :: g /\ exists d, nl = g ++ c_us :: d /\ parse_usize d = Some i /\ i <> 0.
Proof.
  intros Hl Hm. apply kind_new_lig in Hl as (Hi & d & E & Hp). apply kind_new_mark in Hm as [Hm _].
  split; [exact Hm|]. exists d. auto.
Qed.

(* distinct names give distinct base / mark kinds: no two anchors of a glyph collide in a group *)
Definition is_base_or_mark (k : kind) : bool := match k with KBase _ | KMark _ => true | _ => false end.

Theorem base_mark_kinds_injective n1 n2 k : kind_new n1 = inl k -> kind_new n2 = inl k -> is_base_or_mark k = true -> n1 = n2.
Proof.
  intros H1 H2 Hk. destruct k; try discriminate.
  - apply kind_new_base in H1, H2. congruence.
  - apply kind_new_mark in H1 as [H1 _]. apply kind_new_mark in H2 as [H2 _]. congruence.
Qed.

(* ... and printing the kind gives the name back *)
Theorem to_name_of_base_mark n k : kind_new n = inl k -> is_base_or_mark k = true -> to_name k = n.
Proof.
  intros H Hk. destruct k; try discriminate; cbn [to_name].
  - apply kind_new_base in H. exact H.
  - apply kind_new_mark in H as [H _]. symmetry. exact H.
Qed.

(* for ligature anchors neither holds: `top_1` and `top_01` are one (group, index) *)
Definition s_top_1 : str := [116; 111; 112; 95; 49].
Definition s_top_01 : str := [116; 111; 112; 95; 48; 49].

Theorem ligature_names_alias_refuted :
  exists n1 n2 k, n1 <> n2 /\ kind_new n1 = inl k /\ kind_new n2 = inl k /\ to_name k <> n2.
Proof.
  exists s_top_1, s_top_01, (KLig [116; 111; 112] 1). unfold s_top_1, s_top_01.
  split; [intro H; inversion H|]. split; [vm_compute; reflexivity|]. split; [vm_compute; reflexivity|].
  vm_compute. intro H; inversion H.
Qed.

(* ---- numerals: parse_usize (dec i) = i ---------------------------------------------------------- *)
Lemma digits_val_acc u acc :
  digits_val (Npos acc) (uint_chars u) = Some (Npos (Pos.of_uint_acc u acc)).
Proof.
  revert acc. induction u as [|u IH|u IH|u IH|u IH|u IH|u IH|u IH|u IH|u IH|u IH]; intro acc;
    cbn [uint_chars digits_val Pos.of_uint_acc]; try reflexivity;
    match goal with |- context [is_digit ?c] => replace (is_digit c) with true by reflexivity end;
    rewrite <- IH; f_equal; lia.
Qed.

Lemma digits_val_zero u : digits_val 0 (uint_chars u) = Some (Pos.of_uint u).
Proof.
  induction u as [|u IH|u IH|u IH|u IH|u IH|u IH|u IH|u IH|u IH|u IH];
    cbn [uint_chars digits_val Pos.of_uint]; try reflexivity;
    match goal with |- context [is_digit ?c] => replace (is_digit c) with true by reflexivity end;
    try exact IH; rewrite <- digits_val_acc; f_equal.
Qed.

Lemma uint_chars_not_plus u : match uint_chars u with c :: _ => N.eqb c c_plus = false | [] => True end.
Proof. destruct u; cbn; try exact I; reflexivity. Qed.

Lemma to_uint_nonnil i : N.to_uint i <> Decimal.Nil.
Proof. destruct i as [|p]; cbn [N.to_uint]; [discriminate|apply DecimalPos.Unsigned.to_uint_nonnil]. Qed.

Theorem parse_usize_dec i : i <= usize_max -> parse_usize (dec i) = Some i.
Proof.
  intro Hi. unfold parse_usize, dec.
  pose proof (uint_chars_not_plus (N.to_uint i)) as Hp. pose proof (to_uint_nonnil i) as Hn.
  destruct (uint_chars (N.to_uint i)) as [|c t] eqn:E.
  - exfalso. destruct (N.to_uint i); try discriminate. apply Hn. reflexivity.
  - rewrite Hp. rewrite <- E. rewrite digits_val_zero.
    change (Pos.of_uint (N.to_uint i)) with (N.of_uint (N.to_uint i)). rewrite DecimalN.Unsigned.of_to.
    apply N.leb_le in Hi. rewrite Hi. reflexivity.
Qed.
