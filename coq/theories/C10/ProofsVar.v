(* C10 — variable anchors through the variation model (C07): the coordinate the font yields at a
   master's location is within 1/2 of that master's rounded source coordinate, and exact at the
   default master; the memoised model of the case evaluation is the model. *)
From Coq Require Import List NArith ZArith QArith Qabs Qround Bool Lia Sorting.Permutation.
From FV.C07 Require Model Main Props.
From FV.C10 Require Import Model.
Import ListNotations.

Module VM := FV.C07.Main.
Module VP := FV.C07.Props.

Lemma loc_eqb_eq a b : loc_eqb a b = true <-> a = b.
Proof.
  revert b. induction a as [|x a IH]; intros [|y b]; cbn [loc_eqb]; try (split; discriminate); [split; reflexivity|].
  rewrite andb_true_iff, Z.eqb_eq, IH. split; [intros [-> ->]; reflexivity|intro H; inversion H; auto].
Qed.

Lemma assoc_loc_In {A} l (v : A) ps : NoDup (map fst ps) -> In (l, v) ps -> assoc_loc l ps = Some v.
Proof.
  induction ps as [|[k w] t IH]; intros Hnd Hin; [destruct Hin|]. cbn [assoc_loc map fst] in *.
  inversion Hnd as [|? ? Hn Hnd']; subst. destruct Hin as [E|Hin].
  - inversion E; subst. assert (H : loc_eqb l l = true) by (apply loc_eqb_eq; reflexivity). rewrite H. reflexivity.
  - destruct (loc_eqb l k) eqn:E.
    + apply loc_eqb_eq in E. subst k. exfalso. apply Hn. apply in_map_iff. exists (l, v). auto.
    + apply IH; assumption.
Qed.

Definition master_vals (ps : list (V.loc * Q)) (locs : list V.loc) : list (option Q) :=
  map (fun l => option_map (fun v => inject_Z (ot_round v)) (assoc_loc l ps)) locs.

Lemma var_of_unfold ps :
  var_of ps = (V.model_new (map fst ps), V.deltas (V.model_new (map fst ps)) true (master_vals ps (V.m_locs (V.model_new (map fst ps))))).
Proof. reflexivity. Qed.

(* at every master location that defines the value *)
Theorem var_at_master n ps : VM.wf_input n (map fst ps) ->
  forall l v, In (l, v) ps ->
    Qabs (var_at (var_of ps) l - inject_Z (ot_round v)) <= 1 # 2.
Proof.
  intros W l v Hin. rewrite var_of_unfold. unfold var_at. cbn [fst snd].
  set (m := V.model_new (map fst ps)).
  assert (Hperm : Permutation (V.m_locs m) (map fst ps)) by (apply (VP.model_locations_are_the_masters n); exact W).
  assert (Hl : In l (V.m_locs m)).
  { eapply Permutation_in; [symmetry; exact Hperm|]. apply in_map_iff. exists (l, v). auto. }
  apply In_nth_error in Hl as (k & Hk).
  refine (VP.deltas_reproduce_rounded n (map fst ps) W (master_vals ps (V.m_locs m)) _ k l (inject_Z (ot_round v)) Hk _).
  - unfold master_vals. apply map_length.
  - unfold master_vals. rewrite (map_nth_error _ _ _ Hk). rewrite (assoc_loc_In l v ps (proj1 W) Hin). reflexivity.
Qed.

(* at the default master: exactly the rounded source value *)
Theorem var_at_default n ps o v : VM.wf_input n (map fst ps) -> In (o, v) ps -> VM.is_origin o ->
  var_at (var_of ps) o == inject_Z (ot_round v).
Proof.
  intros W Hin Ho. rewrite var_of_unfold. unfold var_at. cbn [fst snd].
  set (m := V.model_new (map fst ps)).
  assert (Hino : In o (map fst ps)) by (apply in_map_iff; exists (o, v); auto).
  destruct (VP.default_exact n (map fst ps) o W Hino Ho) as [H0 H]. fold m in H0, H.
  rewrite (H true (master_vals ps (V.m_locs m)) (inject_Z (ot_round v))).
  - rewrite VP.default_exact_integer. reflexivity.
  - unfold master_vals. apply map_length.
  - unfold master_vals. rewrite (map_nth_error _ _ _ H0). rewrite (assoc_loc_In o v ps (proj1 W) Hin). reflexivity.
Qed.

Lemma map_fst_xs p : map fst (xs p) = map fst p.
Proof. unfold xs. rewrite map_map. reflexivity. Qed.
Lemma map_fst_ys p : map fst (ys p) = map fst p.
Proof. unfold ys. rewrite map_map. reflexivity. Qed.

(* both coordinates of a resolved anchor *)
Theorem anchor_at_master n (p : positions) : VM.wf_input n (map fst p) ->
  forall l x y, In (l, (x, y)) p ->
    Qabs (fst (anchor_at (resolve_anchor p) l) - inject_Z (ot_round x)) <= 1 # 2
    /\ Qabs (snd (anchor_at (resolve_anchor p) l) - inject_Z (ot_round y)) <= 1 # 2.
Proof.
  intros W l x y Hin. unfold anchor_at, resolve_anchor, resolve_anchor_with. cbn [fst snd]. split.
  - apply (var_at_master n (xs p)); [rewrite map_fst_xs; exact W|]. unfold xs. apply in_map_iff. exists (l, (x, y)). auto.
  - apply (var_at_master n (ys p)); [rewrite map_fst_ys; exact W|]. unfold ys. apply in_map_iff. exists (l, (x, y)). auto.
Qed.

Theorem anchor_at_default n (p : positions) o x y : VM.wf_input n (map fst p) -> In (o, (x, y)) p -> VM.is_origin o ->
  fst (anchor_at (resolve_anchor p) o) == inject_Z (ot_round x)
  /\ snd (anchor_at (resolve_anchor p) o) == inject_Z (ot_round y).
Proof.
  intros W Hin Ho. unfold anchor_at, resolve_anchor, resolve_anchor_with. cbn [fst snd]. split.
  - apply (var_at_default n (xs p) o x); [rewrite map_fst_xs; exact W| |exact Ho]. unfold xs. apply in_map_iff. exists (o, (x, y)). auto.
  - apply (var_at_default n (ys p) o y); [rewrite map_fst_ys; exact W| |exact Ho]. unfold ys. apply in_map_iff. exists (o, (x, y)). auto.
Qed.

(* the mark is placed so that the two anchors coincide: the offset the lookup applies (attaching
   glyph's anchor minus the mark's) is within 1 of the difference of the rounded source anchors at a
   master that defines both, and equal to it at the default master *)
Theorem offset_at_master n (pb pm : positions) : VM.wf_input n (map fst pb) -> VM.wf_input n (map fst pm) ->
  forall l xb yb xm ym, In (l, (xb, yb)) pb -> In (l, (xm, ym)) pm ->
    Qabs ((fst (anchor_at (resolve_anchor pb) l) - fst (anchor_at (resolve_anchor pm) l))
          - (inject_Z (ot_round xb) - inject_Z (ot_round xm))) <= 1
    /\ Qabs ((snd (anchor_at (resolve_anchor pb) l) - snd (anchor_at (resolve_anchor pm) l))
             - (inject_Z (ot_round yb) - inject_Z (ot_round ym))) <= 1.
Proof.
  intros Wb Wm l xb yb xm ym Hb Hm.
  destruct (anchor_at_master n pb Wb l xb yb Hb) as [B1 B2]. destruct (anchor_at_master n pm Wm l xm ym Hm) as [M1 M2].
  assert (T : forall a b c d : Q, Qabs (a - c) <= 1 # 2 -> Qabs (b - d) <= 1 # 2 -> Qabs ((a - b) - (c - d)) <= 1).
  { intros a b c d H1 H2. apply Qabs_Qle_condition in H1, H2. apply Qabs_Qle_condition.
    destruct H1, H2. split; Lqa.lra. }
  split; apply T; assumption.
Qed.

(* ---- the memoised model ------------------------------------------------------------------- *)
Lemma locs_eqb_eq a b : locs_eqb a b = true <-> a = b.
Proof.
  revert b. induction a as [|x a IH]; intros [|y b]; cbn [locs_eqb]; try (split; discriminate); [split; reflexivity|].
  rewrite andb_true_iff, loc_eqb_eq, IH. split; [intros [-> ->]; reflexivity|intro H; inversion H; auto].
Qed.

Theorem cached_is_model_new ks k : cached (build_cache ks) k = V.model_new k.
Proof.
  unfold cached. induction ks as [|k' ks IH]; cbn [build_cache map cache_find]; [reflexivity|].
  destruct (locs_eqb k k') eqn:E; [apply locs_eqb_eq in E; subst; reflexivity|exact IH].
Qed.

Lemma lookups_ext {P R} (r1 r2 : P -> R) ty m : (forall p, r1 p = r2 p) -> lookups P R r1 ty m = lookups P R r2 ty m.
Proof.
  intro H. unfold lookups. apply flat_map_ext. intros [k g]. cbn [fst snd].
  destruct (is_nil (g_bases g) || is_nil (g_marks g)); [reflexivity|]. f_equal. f_equal.
  - apply map_ext. intros [a b]. cbn [fst snd]. rewrite H. reflexivity.
  - apply map_ext. intros [a b]. cbn [fst snd]. f_equal. destruct b as [x|l]; cbn [map_bl]; [rewrite H; reflexivity|].
    f_equal. apply map_ext. intros [x|]; cbn [option_map]; [rewrite H|]; reflexivity.
Qed.

(* the case evaluation computes what the plain definitions compute *)
Theorem e2e_cache_invisible ks classes gs masters omark omkmk :
  e2e_ok_with (cached (build_cache ks)) classes gs masters omark omkmk
  = e2e_ok_with V.model_new classes gs masters omark omkmk.
Proof.
  unfold e2e_ok_with, mark_feature, mkmk_feature.
  assert (H : forall p, resolve_anchor_with (cached (build_cache ks)) p = resolve_anchor_with V.model_new p).
  { intro p. unfold resolve_anchor_with, var_of_with. rewrite !cached_is_model_new. reflexivity. }
  rewrite !(lookups_ext _ _ _ _ H). reflexivity.
Qed.
