(* C10 — from the source's anchors to what the emitted lookups attach. *)
From Coq Require Import List NArith ZArith Bool Lia Sorting.Sorted.
From FV.C10 Require Import Model ProofsMM ProofsGroups ProofsPrune ProofsLiga.
Import ListNotations.

(* ---- find_last ---------------------------------------------------------------------------- *)
Lemma find_last_gen {A} k (x : A) l acc :
  (forall x', In (k, x') l -> x' = x) -> In (k, x) l \/ acc = Some x ->
  fold_left (fun acc y => if N.eqb (fst y) k then Some (snd y) else acc) l acc = Some x.
Proof.
  revert acc. induction l as [|[k' y] l IH]; intros acc Hu H; cbn [fold_left fst snd].
  - destruct H as [[]|H]. exact H.
  - apply IH.
    + intros x' Hin. apply Hu. right. exact Hin.
    + destruct (N.eqb_spec k' k) as [->|Hne].
      * right. f_equal. apply Hu. left. reflexivity.
      * destruct H as [[E|H]|H]; [inversion E; congruence|left; exact H|right; exact H].
Qed.

Lemma find_last_unique {A} k (x : A) l : In (k, x) l -> (forall x', In (k, x') l -> x' = x) -> find_last k l = Some x.
Proof. intros Hin Hu. unfold find_last. apply find_last_gen; [exact Hu|left; exact Hin]. Qed.

Lemma find_last_In_gen {A} k (x : A) l acc :
  fold_left (fun acc y => if N.eqb (fst y) k then Some (snd y) else acc) l acc = Some x -> In (k, x) l \/ acc = Some x.
Proof.
  revert acc. induction l as [|[k' y] l IH]; intros acc H; cbn [fold_left fst snd] in H; [right; exact H|].
  apply IH in H as [H|H]; [left; right; exact H|].
  destruct (N.eqb_spec k' k) as [->|Hne]; [left; left; congruence|right; exact H].
Qed.

Lemma find_last_In {A} k (x : A) l : find_last k l = Some x -> In (k, x) l.
Proof. intro H. apply find_last_In_gen in H as [H|H]; [exact H|discriminate]. Qed.

Section Main.
  Variables (P R : Type) (resolve : P -> R).
  Variables (classes : list (N * cls)) (gs : list (ganchors P)).

  (* the source is well formed: one GlyphAnchors per exported glyph, and within a glyph no two anchors
     of the same kind (anchor names are the keys of an IndexMap; names of the same kind are the
     aliases `top_1` / `top_01`, see FV.C10.ProofsNames) *)
  Hypothesis Hgids : NoDup (gids P gs).
  Hypothesis Hkinds : forall o anchors, In (o, anchors) gs -> uniq_kinds P anchors.

  Let lv := live P classes gs.
  Let al := anchor_lists P classes gs.
  Let mg := mark_glyphs P classes al.

  Notation asorted := (sorted N (list (anchor P)) N.compare).

  Lemma al_sorted : asorted al.
  Proof. apply anchor_lists_sorted. Qed.

  (* ---- the source's own notions ---------------------------------------------------------- *)
  (* exported glyph [gid] carries an anchor of kind [k] with payload [p] *)
  Definition src_anchor (gid : N) (k : kind) (p : P) : Prop :=
    exists anchors, In (Some gid, anchors) gs /\ In (mkAnchor k p) anchors.

  (* the group name is used: some included glyph has an attaching anchor of it, some a mark anchor *)
  Definition src_used (g : str) : Prop :=
    (exists gid k p, src_anchor gid k p /\ included classes gid = true /\ attach_group k = Some g)
    /\ (exists gid p, src_anchor gid (KMark g) p /\ included classes gid = true).

  (* a mark glyph: classified as a mark (or nothing is classified) and carrying a mark anchor that
     some attaching anchor matches *)
  Definition src_mark_glyph (m : N) : Prop :=
    included classes m = true /\ class_ok_mark classes m = true
    /\ exists g p, src_anchor m (KMark g) p /\ src_used g.

  Definition src_base_glyph (b : N) : Prop :=
    included classes b = true /\ ~ src_mark_glyph b /\ (classes = [] \/ class_of classes b = Some CBase).

  Definition src_lig_glyph (L : N) : Prop :=
    included classes L = true /\ ~ src_mark_glyph L /\ (classes = [] \/ class_of classes L = Some CLig).

  (* ---- bridges --------------------------------------------------------------------------- *)
  Lemma In_anchors_of a : In a (anchors_of P lv) <-> exists gid anchors, In (Some gid, anchors) gs /\ included classes gid = true /\ In a anchors.
  Proof.
    unfold anchors_of. rewrite in_flat_map. split.
    - intros ([gid anchors] & Hin & Ha). apply In_live in Hin as [Hin I]. exists gid, anchors. auto.
    - intros (gid & anchors & Hin & I & Ha). exists (gid, anchors). split; [apply In_live; auto|exact Ha].
  Qed.

  Lemma used_iff g : used P lv g = true <-> src_used g.
  Proof.
    unfold used, src_used. rewrite andb_true_iff, !mem_str_In. unfold base_groups, mark_groups. rewrite !in_flat_map. split.
    - intros [(a & Ha & Hg) (a' & Ha' & Hg')]. apply In_anchors_of in Ha as (gid & anchors & Hin & I & Hina).
      apply In_anchors_of in Ha' as (gid' & anchors' & Hin' & I' & Hina'). split.
      + destruct a as [k p]. cbn [a_kind] in Hg. exists gid, k, p. split; [exists anchors; auto|]. split; [exact I|].
        destruct (attach_group k) as [g0|]; cbn [In] in Hg; [|contradiction]. destruct Hg as [<-|[]]. reflexivity.
      + destruct a' as [k p]. cbn [a_kind] in Hg'. destruct k; cbn [mark_group In] in Hg'; try contradiction.
        destruct Hg' as [<-|[]]. exists gid', p. split; [exists anchors'; auto|exact I'].
    - intros [(gid & k & p & (anchors & Hin & Ha) & I & Hg) (gid' & p' & (anchors' & Hin' & Ha') & I')]. split.
      + exists (mkAnchor k p). split; [apply In_anchors_of; eauto|]. cbn [a_kind]. rewrite Hg. left. reflexivity.
      + exists (mkAnchor (KMark g) p'). split; [apply In_anchors_of; eauto|]. left. reflexivity.
  Qed.

  Lemma has_anchor_iff gid k p g : group_name k = Some g ->
    (has_anchor P al gid k p <-> src_anchor gid k p /\ included classes gid = true /\ src_used g).
  Proof.
    intro Hg. unfold has_anchor, src_anchor. split.
    - intros (l & Hin & Ha). apply (anchor_lists_spec P classes gs Hgids) in Hin as (anchors & Hin & I & -> & _).
      apply filter_In in Ha as [Ha Hk]. split; [eauto|]. split; [exact I|]. apply used_iff.
      unfold keep in Hk. cbn [a_kind] in Hk. rewrite Hg in Hk. destruct k; cbn [is_cursive orb] in Hk; try discriminate; exact Hk.
    - intros ((anchors & Hin & Ha) & I & Hu). exists (filter (keep P lv) anchors).
      assert (Hf : In (mkAnchor k p) (filter (keep P lv) anchors)).
      { apply filter_In. split; [exact Ha|]. unfold keep. cbn [a_kind]. rewrite Hg. apply used_iff in Hu. fold lv. rewrite Hu. apply orb_true_r. }
      split; [|exact Hf]. apply (anchor_lists_spec P classes gs Hgids). exists anchors. repeat split; auto.
      intro Z. fold lv in Z. rewrite Z in Hf. destruct Hf.
  Qed.

  Lemma gids_unique (l : list (ganchors P)) g a1 a2 : NoDup (gids P l) -> In (Some g, a1) l -> In (Some g, a2) l -> a1 = a2.
  Proof.
    unfold gids. induction l as [|[o x] t IH]; intros Hnd H1 H2; [destruct H1|]. cbn [flat_map fst] in Hnd.
    assert (Hsub : forall a, In (Some g, a) t -> In g (flat_map (fun ga : ganchors P => match fst ga with Some g0 => [g0] | None => [] end) t)).
    { intros a Ha. apply in_flat_map. exists (Some g, a). split; [exact Ha|left; reflexivity]. }
    destruct H1 as [E1|H1], H2 as [E2|H2].
    - congruence.
    - inversion E1; subst. cbn [app] in Hnd. inversion Hnd as [|? ? Hn _]; subst. exfalso. apply Hn. eapply Hsub. exact H2.
    - inversion E2; subst. cbn [app] in Hnd. inversion Hnd as [|? ? Hn _]; subst. exfalso. apply Hn. eapply Hsub. exact H1.
    - apply IH; [|exact H1|exact H2]. destruct o; cbn [app] in Hnd; [inversion Hnd; assumption|exact Hnd].
  Qed.

  (* one payload per (glyph, kind) *)
  Lemma src_anchor_unique gid k p p' : src_anchor gid k p -> src_anchor gid k p' -> p = p'.
  Proof.
    intros (a1 & Hin1 & H1) (a2 & Hin2 & H2).
    pose proof (gids_unique gs gid a1 a2 Hgids Hin1 Hin2) as E. subst a2.
    pose proof (Hkinds _ _ Hin1 _ _ H1 H2 eq_refl) as E. inversion E. reflexivity.
  Qed.

  Lemma In_mg_iff m : In m mg <-> src_mark_glyph m.
  Proof.
    unfold mg. rewrite In_mark_glyphs. unfold src_mark_glyph. split.
    - intros (l & Hin & Hc & Hm). apply has_mark_anchor_iff in Hm as (g & p & Ha).
      assert (H : has_anchor P al m (KMark g) p) by (exists l; auto).
      apply (has_anchor_iff m (KMark g) p g eq_refl) in H as (Hs & I & Hu). repeat split; eauto.
    - intros (I & Hc & g & p & Hs & Hu).
      assert (H : has_anchor P al m (KMark g) p) by (apply (has_anchor_iff m (KMark g) p g eq_refl); auto).
      destruct H as (l & Hin & Ha). exists l. split; [exact Hin|]. split; [exact Hc|]. apply has_mark_anchor_iff. eauto.
  Qed.

  Lemma nil_classes_dec : {classes = []} + {classes <> []}.
  Proof. destruct classes; [left; reflexivity|right; discriminate]. Qed.

  Lemma ocls_is_iff o c : ocls_is o c = true <-> o = Some c.
  Proof. destruct o as [x|]; cbn [ocls_is]; [|split; discriminate]. destruct x, c; cbn [cls_eqb]; split; congruence. Qed.

  Lemma treat_as_base_iff b : treat_as_base classes mg b = true <-> ~ In b mg /\ (classes = [] \/ class_of classes b = Some CBase).
  Proof.
    unfold treat_as_base. cbv zeta. rewrite negb_true_iff, orb_false_iff, andb_false_iff, !negb_false_iff. split.
    - intros [M H]. split; [intro Hin; apply memN_In in Hin; congruence|].
      destruct H as [H|H]; [left; destruct classes; [reflexivity|discriminate]|right; apply ocls_is_iff; exact H].
    - intros [M H]. split; [apply not_true_is_false; intro Hin; apply M, memN_In; exact Hin|].
      destruct H as [->|H]; [left; reflexivity|right; apply ocls_is_iff; exact H].
  Qed.

  Lemma might_be_liga_iff L : might_be_liga classes L = true <-> (classes = [] \/ class_of classes L = Some CLig).
  Proof.
    unfold might_be_liga. rewrite orb_true_iff, ocls_is_iff. split; (intros [H|H]; [left|right; exact H]).
    - destruct classes; [reflexivity|discriminate].
    - subst. reflexivity.
  Qed.

  Lemma src_base_iff b : src_base_glyph b <-> included classes b = true /\ treat_as_base classes mg b = true.
  Proof.
    unfold src_base_glyph. rewrite treat_as_base_iff, In_mg_iff. tauto.
  Qed.

  (* payloads are unique in the pruned lists as well *)
  Lemma has_anchor_unique gid k p p' g : group_name k = Some g -> has_anchor P al gid k p -> has_anchor P al gid k p' -> p = p'.
  Proof.
    intros Hg H1 H2. apply (has_anchor_iff gid k p g Hg) in H1 as (H1 & _). apply (has_anchor_iff gid k p' g Hg) in H2 as (H2 & _).
    eapply src_anchor_unique; eassumption.
  Qed.

  Notation mark_f := (mark_feature P R resolve classes gs).
  Notation mkmk_f := (mkmk_feature P R resolve classes gs).

  Lemma In_mark_feature lk : In lk mark_f <->
    In lk (lookups P R resolve 4 (mark_base_groups P classes al)) \/ In lk (lookups P R resolve 5 (mark_liga_groups P classes al)).
  Proof. unfold mark_feature. fold al. apply in_app_iff. Qed.

  (* ==================================================================================== *)
  (* completeness: every demanded pair is attached, with the source's two anchors           *)
  (* ==================================================================================== *)
  Theorem base_pair_attached b g pb m pm :
    src_base_glyph b -> src_anchor b (KBase g) pb -> src_mark_glyph m -> src_anchor m (KMark g) pm ->
    exists lk, In lk mark_f /\ l_type lk = 4%N /\ l_name lk = g
               /\ attach lk b 0 m = Some (resolve pb, resolve pm).
  Proof.
    intros Hb Hab Hm Ham. destruct Hb as (Ib & Hnm & Hcb). pose proof Hm as (Im & Hcm & _).
    assert (Hu : src_used g) by (split; [exists b, (KBase g), pb; auto|exists m, pm; auto]).
    assert (Hb' : has_anchor P al b (KBase g) pb) by (apply (has_anchor_iff b (KBase g) pb g eq_refl); auto).
    assert (Hm' : has_anchor P al m (KMark g) pm) by (apply (has_anchor_iff m (KMark g) pm g eq_refl); auto).
    assert (Tb : treat_as_base classes mg b = true) by (apply treat_as_base_iff; split; [rewrite In_mg_iff; exact Hnm|exact Hcb]).
    assert (Mm : In m mg) by (apply In_mg_iff; exact Hm).
    destruct (mb_group_exists P classes al g) as (grp & Hf).
    { left. exists b, pb. auto. }
    destruct (mb_group P classes al g grp Hf) as (GB & GM & GF). fold mg in GB, GM.
    assert (Hbin : In (b, BOne pb) (g_bases grp)) by (apply GB; exists pb; auto).
    assert (Hmin : In (m, pm) (g_marks grp)) by (apply GM; auto).
    exists (lookup_of P R resolve 4 g grp). split; [|split; [reflexivity|split; [reflexivity|]]].
    - apply In_mark_feature. left. apply (In_lookups P R resolve 4 _ _ (mb_sorted P classes al)). cbn [l_name lookup_of].
      exists grp. split; [exact Hf|]. split; [intro Z; rewrite Z in Hbin; destruct Hbin|]. split; [intro Z; rewrite Z in Hmin; destruct Hmin|reflexivity].
    - unfold attach, passes_filter, lookup_of. cbn [l_filter l_marks l_bases]. unfold filter_set. rewrite GF. cbn [andb].
      rewrite (find_last_unique m (resolve pm)).
      + rewrite (find_last_unique b (BOne (resolve pb))); [reflexivity| |].
        * apply In_map_bases. exists (BOne pb). auto.
        * intros x' Hx. apply In_map_bases in Hx as (x & Hx & ->). apply GB in Hx as (p & -> & Hp & _).
          cbn [map_bl]. f_equal. f_equal. exact (has_anchor_unique b (KBase g) p pb g eq_refl Hp Hb').
      + apply In_map_marks. eauto.
      + intros x' Hx. apply In_map_marks in Hx as (p & Hx & ->). apply GM in Hx as (Hp & _).
        f_equal. exact (has_anchor_unique m (KMark g) p pm g eq_refl Hp Hm').
  Qed.

  Theorem mark_pair_attached b g pb m pm :
    src_mark_glyph b -> src_anchor b (KBase g) pb -> src_mark_glyph m -> src_anchor m (KMark g) pm ->
    exists lk, In lk mkmk_f /\ l_type lk = 6%N /\ l_name lk = g
               /\ attach lk b 0 m = Some (resolve pb, resolve pm).
  Proof.
    intros Hb Hab Hm Ham. pose proof Hb as (Ib & _ & _). pose proof Hm as (Im & _ & _).
    assert (Hu : src_used g) by (split; [exists b, (KBase g), pb; auto|exists m, pm; auto]).
    assert (Hb' : has_anchor P al b (KBase g) pb) by (apply (has_anchor_iff b (KBase g) pb g eq_refl); auto).
    assert (Hm' : has_anchor P al m (KMark g) pm) by (apply (has_anchor_iff m (KMark g) pm g eq_refl); auto).
    assert (Mb : In b mg) by (apply In_mg_iff; exact Hb).
    assert (Mm : In m mg) by (apply In_mg_iff; exact Hm).
    assert (Gg : In g (mm_mark_anchor_groups P mg al)) by (apply (In_mgroups P classes al); exists m, pm; auto).
    destruct (mmk_group_exists P classes al al_sorted g b pb Hb' Mb Gg) as (grp & Hf).
    destruct (mmk_group P classes al al_sorted g grp Hf) as (GB & GM & GF). fold mg in GB, GM.
    assert (Hbin : In (b, BOne pb) (g_bases grp)) by (apply GB; exists pb; auto).
    assert (Hmin : In (m, pm) (g_marks grp)) by (apply GM; auto).
    exists (lookup_of P R resolve 6 g grp). split; [|split; [reflexivity|split; [reflexivity|]]].
    - unfold mkmk_feature. fold al. apply (In_lookups P R resolve 6 _ _ (mmk_sorted P classes al)). cbn [l_name lookup_of].
      exists grp. split; [exact Hf|]. split; [intro Z; rewrite Z in Hbin; destruct Hbin|]. split; [intro Z; rewrite Z in Hmin; destruct Hmin|reflexivity].
    - unfold attach, passes_filter, lookup_of. cbn [l_filter l_marks l_bases]. unfold filter_set. rewrite GF.
      assert (Fm : memN m (map fst (g_marks grp) ++ map fst (filter (fun b0 => negb (memN (fst b0) (map fst (g_marks grp)))) (g_bases grp))) = true).
      { apply memN_In, in_app_iff. left. apply in_map_iff. exists (m, pm). auto. }
      assert (Fb : memN b (map fst (g_marks grp) ++ map fst (filter (fun b0 => negb (memN (fst b0) (map fst (g_marks grp)))) (g_bases grp))) = true).
      { apply memN_In, in_app_iff. destruct (memN b (map fst (g_marks grp))) eqn:E.
        - left. apply memN_In. exact E.
        - right. apply in_map_iff. exists (b, BOne pb). split; [reflexivity|]. apply filter_In. split; [exact Hbin|]. cbn [fst]. rewrite E. reflexivity. }
      rewrite Fm, Fb. cbn [andb].
      rewrite (find_last_unique m (resolve pm)).
      + rewrite (find_last_unique b (BOne (resolve pb))); [reflexivity| |].
        * apply In_map_bases. exists (BOne pb). auto.
        * intros x' Hx. apply In_map_bases in Hx as (x & Hx & ->). apply GB in Hx as (p & -> & Hp & _).
          cbn [map_bl]. f_equal. f_equal. exact (has_anchor_unique b (KBase g) p pb g eq_refl Hp Hb').
      + apply In_map_marks. eauto.
      + intros x' Hx. apply In_map_marks in Hx as (p & Hx & ->). apply GM in Hx as (_ & Hp).
        f_equal. exact (has_anchor_unique m (KMark g) p pm g eq_refl Hp Hm').
  Qed.

  Lemma al_entry gid l : In (gid, l) al ->
    exists anchors, In (Some gid, anchors) gs /\ included classes gid = true /\ (forall a, In a l -> In a anchors) /\ uniq_kinds P l.
  Proof.
    intro Hin. apply (anchor_lists_spec P classes gs Hgids) in Hin as (anchors & Hin & I & -> & _).
    exists anchors. split; [exact Hin|]. split; [exact I|]. split.
    - intros a Ha. apply filter_In in Ha. tauto.
    - intros a a' Ha Ha' E. apply filter_In in Ha as [Ha _]. apply filter_In in Ha' as [Ha' _]. exact (Hkinds _ _ Hin a a' Ha Ha' E).
  Qed.

  Lemma lig_entry_unique g L vec vec' : lig_entry P classes al g L vec -> lig_entry P classes al g L vec' -> vec = vec'.
  Proof.
    intros (a1 & m1 & Hin1 & _ & _ & Mx1 & F1) (a2 & m2 & Hin2 & _ & _ & Mx2 & F2).
    pose proof (asorted_unique P al L a1 a2 al_sorted Hin1 Hin2) as E. subst a2. congruence.
  Qed.

  Theorem lig_pair_attached L g i pl m pm :
    src_lig_glyph L -> src_anchor L (KLig g i) pl -> i <> 0%N -> src_mark_glyph m -> src_anchor m (KMark g) pm ->
    exists lk, In lk mark_f /\ l_type lk = 5%N /\ l_name lk = g
               /\ attach lk L i m = Some (resolve pl, resolve pm).
  Proof.
    intros (IL & HnL & HcL) HaL Hi Hm Ham. pose proof Hm as (Im & _ & _).
    assert (Hu : src_used g) by (split; [exists L, (KLig g i), pl; auto|exists m, pm; auto]).
    assert (HL' : has_anchor P al L (KLig g i) pl) by (apply (has_anchor_iff L (KLig g i) pl g eq_refl); auto).
    assert (Hm' : has_anchor P al m (KMark g) pm) by (apply (has_anchor_iff m (KMark g) pm g eq_refl); auto).
    assert (Mm : In m mg) by (apply In_mg_iff; exact Hm).
    destruct HL' as (l & Hinl & Hal).
    destruct (al_entry L l Hinl) as (_ & _ & _ & _ & Hul).
    destruct (max_index_some P l _ i Hal eq_refl) as (mx & Mx).
    destruct (comp_groups_has P l mx g i pl Hal Hi) as (vec & Hv).
    assert (He : lig_entry P classes al g L vec).
    { exists l, mx. split; [exact Hinl|]. split; [apply not_true_is_false; intro Hk; apply HnL, In_mg_iff, memN_In; exact Hk|].
      split; [apply might_be_liga_iff; exact HcL|]. auto. }
    destruct (comp_vec_spec P l mx g vec Hul Mx Hv) as (_ & Hslot & _).
    specialize (Hslot i pl Hal Hi).
    destruct (ml_group_exists P classes al g L vec He) as (grp & Hf).
    destruct (ml_group P classes al g grp Hf) as (GB & GM & GF). fold mg in GM.
    assert (Hg : In g (liga_groups P classes al)) by (apply In_lgs; eauto).
    assert (Hbin : In (L, BLig vec) (g_bases grp)) by (apply GB; eauto).
    assert (Hmin : In (m, pm) (g_marks grp)) by (apply GM; auto).
    exists (lookup_of P R resolve 5 g grp). split; [|split; [reflexivity|split; [reflexivity|]]].
    - apply In_mark_feature. right. apply (In_lookups P R resolve 5 _ _ (ml_sorted P classes al)). cbn [l_name lookup_of].
      exists grp. split; [exact Hf|]. split; [intro Z; rewrite Z in Hbin; destruct Hbin|]. split; [intro Z; rewrite Z in Hmin; destruct Hmin|reflexivity].
    - unfold attach, passes_filter, lookup_of. cbn [l_filter l_marks l_bases]. unfold filter_set. rewrite GF. cbn [andb].
      rewrite (find_last_unique m (resolve pm)).
      + rewrite (find_last_unique L (BLig (map (option_map resolve) vec))).
        * destruct (N.eqb_spec i 0) as [->|_]; [contradiction|].
          rewrite (map_nth_error (option_map resolve) _ _ Hslot). reflexivity.
        * apply In_map_bases. exists (BLig vec). auto.
        * intros x' Hx. apply In_map_bases in Hx as (x & Hx & ->). apply GB in Hx as (vec' & -> & He').
          cbn [map_bl]. rewrite (lig_entry_unique g L vec' vec He' He). reflexivity.
      + apply In_map_marks. eauto.
      + intros x' Hx. apply In_map_marks in Hx as (p & Hx & ->). apply GM in Hx as (Hp & _).
        f_equal. exact (has_anchor_unique m (KMark g) p pm g eq_refl Hp Hm').
  Qed.

  (* ==================================================================================== *)
  (* soundness: whatever a lookup attaches is a pair the source demands                    *)
  (* ==================================================================================== *)
  Lemma attach_inv (lk : lookup R) b comp m rb rm : attach lk b comp m = Some (rb, rm) ->
    In (m, rm) (l_marks lk) /\
    ((comp = 0%N /\ In (b, BOne rb) (l_bases lk))
     \/ (comp <> 0%N /\ exists v, In (b, BLig v) (l_bases lk) /\ nth_error v (N.to_nat (comp - 1)) = Some (Some rb))).
  Proof.
    unfold attach. destruct (passes_filter R lk b && passes_filter R lk m); [|discriminate].
    destruct (find_last m (l_marks lk)) as [rm'|] eqn:Em; [|discriminate].
    destruct (find_last b (l_bases lk)) as [[rb'|v]|] eqn:Eb; [| |discriminate].
    - destruct (N.eqb_spec comp 0) as [->|Hne]; [|discriminate]. intro H. inversion H; subst.
      split; [apply find_last_In; exact Em|]. left. split; [reflexivity|apply find_last_In; exact Eb].
    - destruct (N.eqb_spec comp 0) as [->|Hne]; [discriminate|].
      destruct (nth_error v (N.to_nat (comp - 1))) as [[rb'|]|] eqn:En; try discriminate. intro H. inversion H; subst.
      split; [apply find_last_In; exact Em|]. right. split; [exact Hne|]. exists v. split; [apply find_last_In; exact Eb|exact En].
  Qed.

  Lemma src_of_has_anchor gid k p g : group_name k = Some g -> has_anchor P al gid k p -> src_anchor gid k p /\ included classes gid = true.
  Proof. intros Hg H. apply (has_anchor_iff gid k p g Hg) in H. tauto. Qed.

  Theorem mark_feature_sound lk b comp m rb rm : In lk mark_f -> attach lk b comp m = Some (rb, rm) ->
    exists pb pm, rb = resolve pb /\ rm = resolve pm /\ src_mark_glyph m /\ src_anchor m (KMark (l_name lk)) pm
      /\ ((l_type lk = 4%N /\ comp = 0%N /\ src_base_glyph b /\ src_anchor b (KBase (l_name lk)) pb)
          \/ (l_type lk = 5%N /\ comp <> 0%N /\ src_lig_glyph b /\ src_anchor b (KLig (l_name lk) comp) pb)).
  Proof.
    intros Hin Hat. apply attach_inv in Hat as (Hm & Hb). apply In_mark_feature in Hin as [Hin|Hin].
    - apply (In_lookups P R resolve 4 _ _ (mb_sorted P classes al)) in Hin as (grp & Hf & _ & _ & E).
      destruct (mb_group P classes al _ grp Hf) as (GB & GM & _). fold mg in GB, GM.
      rewrite E in Hm, Hb. cbn [lookup_of l_marks l_bases] in Hm, Hb.
      apply In_map_marks in Hm as (pm & Hm & ->). apply GM in Hm as (Hpm & Mm).
      destruct Hb as [(-> & Hb)|(_ & v & Hb & _)].
      + apply In_map_bases in Hb as (x & Hb & Ex). apply GB in Hb as (pb & -> & Hpb & Tb). cbn [map_bl] in Ex. inversion Ex; subst rb.
        destruct (src_of_has_anchor m (KMark (l_name lk)) pm (l_name lk) eq_refl Hpm) as (Sm & _). destruct (src_of_has_anchor b (KBase (l_name lk)) pb (l_name lk) eq_refl Hpb) as (Sb & Ib).
        exists pb, pm. split; [reflexivity|]. split; [reflexivity|]. split; [apply In_mg_iff; exact Mm|]. split; [exact Sm|].
        left. rewrite E. cbn [lookup_of l_type]. split; [reflexivity|]. split; [reflexivity|]. split; [apply src_base_iff; auto|exact Sb].
      + apply In_map_bases in Hb as (x & Hb & Ex). apply GB in Hb as (pb & -> & _). discriminate.
    - apply (In_lookups P R resolve 5 _ _ (ml_sorted P classes al)) in Hin as (grp & Hf & _ & _ & E).
      destruct (ml_group P classes al _ grp Hf) as (GB & GM & _). fold mg in GM.
      rewrite E in Hm, Hb. cbn [lookup_of l_marks l_bases] in Hm, Hb.
      apply In_map_marks in Hm as (pm & Hm & ->). apply GM in Hm as (Hpm & Mm & _).
      destruct (src_of_has_anchor m (KMark (l_name lk)) pm (l_name lk) eq_refl Hpm) as (Sm & _).
      destruct Hb as [(_ & Hb)|(Hc & v & Hb & Hn)].
      + apply In_map_bases in Hb as (x & Hb & Ex). apply GB in Hb as (vec & -> & _). discriminate.
      + apply In_map_bases in Hb as (x & Hb & Ex). apply GB in Hb as (vec & -> & He). cbn [map_bl] in Ex. inversion Ex; subst v.
        destruct (nth_error vec (N.to_nat (comp - 1))) as [[pb|]|] eqn:En;
          [|rewrite (map_nth_error (option_map resolve) _ _ En) in Hn; discriminate
           |apply nth_error_None in En; assert (Hn' : nth_error (map (option_map resolve) vec) (N.to_nat (comp - 1)) = None) by (apply nth_error_None; rewrite map_length; exact En); congruence].
        rewrite (map_nth_error (option_map resolve) _ _ En) in Hn. cbn [option_map] in Hn. inversion Hn; subst rb.
        destruct He as (l & mx & Hinl & Mk & Ml & Mx & Hv).
        pose proof (comp_vec_inv P l mx _ vec comp pb Hc Hv En) as Hal.
        assert (HL : has_anchor P al b (KLig (l_name lk) comp) pb) by (exists l; auto).
        destruct (src_of_has_anchor b (KLig (l_name lk) comp) pb (l_name lk) eq_refl HL) as (Sb & Ib).
        exists pb, pm. split; [reflexivity|]. split; [reflexivity|]. split; [apply In_mg_iff; exact Mm|]. split; [exact Sm|].
        right. rewrite E. cbn [lookup_of l_type]. split; [reflexivity|]. split; [exact Hc|]. split; [|exact Sb].
        split; [exact Ib|]. split; [intro Hk; apply In_mg_iff, memN_In in Hk; fold al in Mk; fold mg in Mk; rewrite Mk in Hk; discriminate|apply might_be_liga_iff; exact Ml].
  Qed.

  Theorem mkmk_feature_sound lk b comp m rb rm : In lk mkmk_f -> attach lk b comp m = Some (rb, rm) ->
    exists pb pm, rb = resolve pb /\ rm = resolve pm /\ l_type lk = 6%N /\ comp = 0%N
      /\ src_mark_glyph m /\ src_anchor m (KMark (l_name lk)) pm
      /\ src_mark_glyph b /\ src_anchor b (KBase (l_name lk)) pb.
  Proof.
    intros Hin Hat. apply attach_inv in Hat as (Hm & Hb). unfold mkmk_feature in Hin. fold al in Hin.
    apply (In_lookups P R resolve 6 _ _ (mmk_sorted P classes al)) in Hin as (grp & Hf & _ & _ & E).
    destruct (mmk_group P classes al al_sorted _ grp Hf) as (GB & GM & _). fold mg in GB, GM.
    rewrite E in Hm, Hb. cbn [lookup_of l_marks l_bases] in Hm, Hb.
    apply In_map_marks in Hm as (pm & Hm & ->). apply GM in Hm as (Mm & Hpm).
    destruct (src_of_has_anchor m (KMark (l_name lk)) pm (l_name lk) eq_refl Hpm) as (Sm & _).
    destruct Hb as [(-> & Hb)|(_ & v & Hb & _)].
    - apply In_map_bases in Hb as (x & Hb & Ex). apply GB in Hb as (pb & -> & Hpb & Mb & _). cbn [map_bl] in Ex. inversion Ex; subst rb.
      destruct (src_of_has_anchor b (KBase (l_name lk)) pb (l_name lk) eq_refl Hpb) as (Sb & _).
      exists pb, pm. rewrite E. cbn [lookup_of l_type]. repeat split; auto; apply In_mg_iff; assumption.
    - apply In_map_bases in Hb as (x & Hb & Ex). apply GB in Hb as (pb & -> & _). discriminate.
  Qed.

  (* one lookup per anchor name and lookup type *)
  Theorem lookup_per_name_unique lk lk' : (In lk mark_f /\ In lk' mark_f) \/ (In lk mkmk_f /\ In lk' mkmk_f) ->
    l_type lk = l_type lk' -> l_name lk = l_name lk' -> lk = lk'.
  Proof.
    assert (T : forall ty m x, sorted str (group P) str_cmp m -> In x (lookups P R resolve ty m) -> l_type x = ty).
    { intros ty m x Hs Hx. apply (In_lookups P R resolve ty m x Hs) in Hx as (grp & _ & _ & _ & E). rewrite E. reflexivity. }
    intros [[H1 H2]|[H1 H2]] Et En.
    - apply In_mark_feature in H1, H2. destruct H1 as [H1|H1], H2 as [H2|H2].
      + eapply lookups_name_unique; [apply mb_sorted|exact H1|exact H2|exact En].
      + apply T in H1; [|apply mb_sorted]. apply T in H2; [|apply ml_sorted]. rewrite H1, H2 in Et. discriminate.
      + apply T in H1; [|apply ml_sorted]. apply T in H2; [|apply mb_sorted]. rewrite H1, H2 in Et. discriminate.
      + eapply lookups_name_unique; [apply ml_sorted|exact H1|exact H2|exact En].
    - unfold mkmk_feature in H1, H2. fold al in H1, H2. eapply lookups_name_unique; [apply mmk_sorted|exact H1|exact H2|exact En].
  Qed.

  (* a glyph occurs once among the marks of a lookup, once among its bases: the builders' "glyph was
     previously assigned to another class" error (which the code ignores) cannot occur, and reading a
     record does not depend on which of several records wins *)
  Theorem lookup_records_unique lk : In lk mark_f \/ In lk mkmk_f ->
    (forall m r r', In (m, r) (l_marks lk) -> In (m, r') (l_marks lk) -> r = r')
    /\ (forall b r r', In (b, r) (l_bases lk) -> In (b, r') (l_bases lk) -> r = r').
  Proof.
    intros [Hin|Hin].
    - apply In_mark_feature in Hin as [Hin|Hin].
      + apply (In_lookups P R resolve 4 _ _ (mb_sorted P classes al)) in Hin as (grp & Hf & _ & _ & E).
        destruct (mb_group P classes al _ grp Hf) as (GB & GM & _). rewrite E. cbn [lookup_of l_marks l_bases]. split.
        * intros m r r' H1 H2. apply In_map_marks in H1 as (p & H1 & ->). apply In_map_marks in H2 as (p' & H2 & ->).
          apply GM in H1 as (H1 & _). apply GM in H2 as (H2 & _). f_equal. exact (has_anchor_unique m (KMark (l_name lk)) p p' (l_name lk) eq_refl H1 H2).
        * intros b r r' H1 H2. apply In_map_bases in H1 as (x & H1 & ->). apply In_map_bases in H2 as (x' & H2 & ->).
          apply GB in H1 as (p & -> & H1 & _). apply GB in H2 as (p' & -> & H2 & _). do 2 f_equal. exact (has_anchor_unique b (KBase (l_name lk)) p p' (l_name lk) eq_refl H1 H2).
      + apply (In_lookups P R resolve 5 _ _ (ml_sorted P classes al)) in Hin as (grp & Hf & _ & _ & E).
        destruct (ml_group P classes al _ grp Hf) as (GB & GM & _). rewrite E. cbn [lookup_of l_marks l_bases]. split.
        * intros m r r' H1 H2. apply In_map_marks in H1 as (p & H1 & ->). apply In_map_marks in H2 as (p' & H2 & ->).
          apply GM in H1 as (H1 & _). apply GM in H2 as (H2 & _). f_equal. exact (has_anchor_unique m (KMark (l_name lk)) p p' (l_name lk) eq_refl H1 H2).
        * intros b r r' H1 H2. apply In_map_bases in H1 as (x & H1 & ->). apply In_map_bases in H2 as (x' & H2 & ->).
          apply GB in H1 as (v & -> & H1). apply GB in H2 as (v' & -> & H2). rewrite (lig_entry_unique _ b v v' H1 H2). reflexivity.
    - unfold mkmk_feature in Hin. fold al in Hin.
      apply (In_lookups P R resolve 6 _ _ (mmk_sorted P classes al)) in Hin as (grp & Hf & _ & _ & E).
      destruct (mmk_group P classes al al_sorted _ grp Hf) as (GB & GM & _). rewrite E. cbn [lookup_of l_marks l_bases]. split.
      + intros m r r' H1 H2. apply In_map_marks in H1 as (p & H1 & ->). apply In_map_marks in H2 as (p' & H2 & ->).
        apply GM in H1 as (_ & H1). apply GM in H2 as (_ & H2). f_equal. exact (has_anchor_unique m (KMark (l_name lk)) p p' (l_name lk) eq_refl H1 H2).
      + intros b r r' H1 H2. apply In_map_bases in H1 as (x & H1 & ->). apply In_map_bases in H2 as (x' & H2 & ->).
        apply GB in H1 as (p & -> & H1 & _). apply GB in H2 as (p' & -> & H2 & _). do 2 f_equal. exact (has_anchor_unique b (KBase (l_name lk)) p p' (l_name lk) eq_refl H1 H2).
  Qed.
End Main.
