(* C18 — executable model of the code that produces and consumes name ids:
     fontir/src/ir.rs              NameBuilder (add/remove/fallbacks/build)
     fontir/src/ir/static_metadata.rs  StaticMetadata::new (name registration), reverse_names
     fontbe/src/fvar.rs            reusable_name_id, axis / instance name ids
     fontbe/src/stat.rs            make_stat axis name ids
     fea-rs/src/compile/tables/name.rs   NameBuilder::{add, add_anon_group, next_name_id, build}
     fea-rs/src/compile/output.rs  Compilation::remap_name_ids
     fontbe/src/features.rs        first free id handed to remap_name_ids
     fontbe/src/name.rs            merge_name_records, stamp_compiler_version
   Definitions only; proofs are in Proofs.v.

   A string is a list of Unicode scalar values.  A HashMap is an association list
   in *iteration order*; every place where the code iterates a HashMap the model
   iterates the list, so the iteration order is an explicit input. *)
From Coq Require Import List NArith ZArith Bool.
Import ListNotations.
Open Scope N_scope.

Definition str := list N.

Fixpoint str_eqb (a b : str) : bool :=
  match a, b with
  | [], [] => true
  | x :: a', y :: b' => (x =? y) && str_eqb a' b'
  | _, _ => false
  end.

Definition nonempty (s : str) : bool := match s with [] => false | _ => true end.

(* ------------------------------------------------------------------------- *)
(* NameKey.  platform_id = 3 and lang_id = 0x409 are constants for every key
   the front end creates, so a key is (name id, encoding id).                *)
Definition nkey : Type := N * N.
Definition nkey_eqb (a b : nkey) : bool := (fst a =? fst b) && (snd a =? snd b).

(* NameKey::encoding_for *)
Definition encoding_for (s : str) : N := if forallb (fun c => c <? 0xFFFF) s then 1 else 10.
Definition key_of (id : N) (s : str) : nkey := (id, encoding_for s).

(* HashMap<NameKey, String> *)
Definition names := list (nkey * str).

Fixpoint upsert (k : nkey) (v : str) (m : names) : names :=
  match m with
  | [] => [(k, v)]
  | (k', v') :: t => if nkey_eqb k' k then (k, v) :: t else (k', v') :: upsert k v t
  end.

Fixpoint lookup (k : nkey) (m : names) : option str :=
  match m with
  | [] => None
  | (k', v) :: t => if nkey_eqb k' k then Some v else lookup k t
  end.

Definition remove_key (k : nkey) (m : names) : names :=
  filter (fun e => negb (nkey_eqb (fst e) k)) m.

(* ------------------------------------------------------------------------- *)
(* Small string library (what the Rust code uses)                             *)

Definition ascii_ws (c : N) : bool :=
  (c =? 32) || (c =? 9) || (c =? 10) || (c =? 12) || (c =? 13).

(* str::split_ascii_whitespace: maximal runs of non-whitespace *)
Fixpoint words_aux (cur : str) (s : str) : list str :=
  match s with
  | [] => match cur with [] => [] | _ => [rev cur] end
  | c :: t =>
      if ascii_ws c then match cur with [] => words_aux [] t | _ => rev cur :: words_aux [] t end
      else words_aux (c :: cur) t
  end.
Definition words (s : str) : list str := words_aux [] s.

(* [a; b; c].join(" ") *)
Fixpoint join_sp (l : list str) : str :=
  match l with
  | [] => []
  | [x] => x
  | x :: t => x ++ 32 :: join_sp t
  end.

(* NameBuilder::make_family_name with drop_rbbi_suffix = false (the only use in build) *)
Definition make_family_name (family subfamily : str) : str := join_sp (family :: words subfamily).

Fixpoint prefixb (p s : str) : bool :=
  match p, s with
  | [], _ => true
  | x :: p', y :: s' => (x =? y) && prefixb p' s'
  | _ :: _, [] => false
  end.

(* str::replace(pat, "") for a non-empty pattern: non-overlapping, left to right *)
Fixpoint remove_pat_aux (pat : str) (skip : nat) (s : str) : str :=
  match s with
  | [] => []
  | c :: t =>
      match skip with
      | S k => remove_pat_aux pat k t
      | O => if prefixb pat s then remove_pat_aux pat (length pat - 1) t
             else c :: remove_pat_aux pat O t
      end
  end.
Definition remove_pat (pat s : str) : str := remove_pat_aux pat O s.

(* value.find(pat) then truncate(idx) *)
Fixpoint truncate_at (pat s : str) : str :=
  match s with
  | [] => []
  | c :: t => if prefixb pat s then [] else c :: truncate_at pat t
  end.

Definition to_lower_ascii (c : N) : N := if (65 <=? c) && (c <=? 90) then c + 32 else c.

Definition s_regular : str := [82;101;103;117;108;97;114].            (* "Regular" *)
Definition s_new_font : str := [78;101;119;32;70;111;110;116].        (* "New Font" *)
Definition s_version_sp : str := [86;101;114;115;105;111;110;32].     (* "Version " *)
Definition s_fontc_marker : str := [59;102;111;110;116;99;32].        (* ";fontc " *)

(* is_ribbi: to_lowercase() is one of regular / italic / bold / bold italic.
   The four words contain no 'k', and U+212A KELVIN SIGN is the only non-ASCII
   scalar whose lowercase is ASCII, so ASCII lower-casing decides the same set. *)
Definition is_ribbi (s : str) : bool :=
  let l := map to_lower_ascii s in
  str_eqb l [114;101;103;117;108;97;114] || str_eqb l [105;116;97;108;105;99]
  || str_eqb l [98;111;108;100] || str_eqb l [98;111;108;100;32;105;116;97;108;105;99].

(* normalize_for_postscript(value, allow_spaces = false) *)
Definition ps_keep (c : N) : bool :=
  negb (ascii_ws c)
  && negb (existsb (N.eqb c) [91;93;40;41;123;125;60;62;47;37])   (* "[](){}<>/%" *)
  && (33 <=? c) && (c <? 127).
Definition normalize_ps (s : str) : str := filter ps_keep s.

(* decimal printing of an unsigned number *)
Fixpoint dec_aux (fuel : nat) (n : N) (acc : str) : str :=
  match fuel with
  | O => acc
  | S f => let acc' := (48 + n mod 10) :: acc in
           if n / 10 =? 0 then acc' else dec_aux f (n / 10) acc'
  end.
Definition dec (n : N) : str := dec_aux (S (N.size_nat n)) n [].
Definition dec_z (z : Z) : str := if (z <? 0)%Z then 45 :: dec (Z.abs_N z) else dec (Z.abs_N z).
(* {minor:0>3} *)
Definition pad3 (s : str) : str := repeat 48 (3 - length s) ++ s.
(* format!("Version {major}.{minor:0>3}") *)
Definition version_string (major : Z) (minor : N) : str :=
  s_version_sp ++ dec_z major ++ 46 :: pad3 (dec minor).

(* NameBuilder::add end-of-line normalisation: "\r\n" -> "\n", then '\r' -> '\n' *)
Fixpoint crnorm (s : str) : str :=
  match s with
  | [] => []
  | c :: t =>
      if c =? 13 then
        10 :: match t with
              | d :: t' => if d =? 10 then crnorm t' else crnorm t
              | [] => []
              end
      else c :: crnorm t
  end.

(* ------------------------------------------------------------------------- *)
(* fontir NameBuilder: `names` plus `name_to_key`                             *)

Fixpoint iupsert (id : N) (k : nkey) (m : list (N * nkey)) : list (N * nkey) :=
  match m with
  | [] => [(id, k)]
  | (i, k') :: t => if i =? id then (id, k) :: t else (i, k') :: iupsert id k t
  end.
Fixpoint ilookup (id : N) (m : list (N * nkey)) : option nkey :=
  match m with
  | [] => None
  | (i, k) :: t => if i =? id then Some k else ilookup id t
  end.
Definition iremove (id : N) (m : list (N * nkey)) : list (N * nkey) :=
  filter (fun e => negb (fst e =? id)) m.

Record nbs := { nb_names : names; nb_idx : list (N * nkey) }.
Definition nb_empty : nbs := {| nb_names := []; nb_idx := [] |}.

Definition nb_add (b : nbs) (id : N) (v : str) : nbs :=
  let v' := crnorm v in
  let k := key_of id v' in
  {| nb_names := upsert k v' (nb_names b); nb_idx := iupsert id k (nb_idx b) |}.

Definition nb_get (b : nbs) (id : N) : option str :=
  match ilookup id (nb_idx b) with Some k => lookup k (nb_names b) | None => None end.

Definition nb_contains (b : nbs) (id : N) : bool :=
  match ilookup id (nb_idx b) with Some _ => true | None => false end.

Definition nb_remove (b : nbs) (id : N) : nbs :=
  match ilookup id (nb_idx b) with
  | Some k => {| nb_names := remove_key k (nb_names b); nb_idx := iremove id (nb_idx b) |}
  | None => b
  end.

Definition or_default (o : option str) (d : str) : str := match o with Some v => v | None => d end.

(* apply_fallback(id, [fb]) for ids without a default_value *)
Definition nb_apply_fallback (b : nbs) (id fb : N) : nbs :=
  if nb_contains b id then b
  else match nb_get b fb with Some v => nb_add b id v | None => b end.

Definition str_opt_eqb (a b : option str) : bool :=
  match a, b with
  | Some x, Some y => str_eqb x y
  | None, None => true
  | _, _ => false
  end.

(* `if !self.contains_key(id) { self.add(id, value) }` *)
Definition nb_add_absent (b : nbs) (id : N) (v : str) : nbs :=
  if nb_contains b id then b else nb_add b id v.

(* the legacy subfamily to use when none was supplied, and the suffix a non-RIBBI
   style contributes to the legacy family name *)
Definition nb_sub_fallback (b : nbs) : str * option str :=
  let fb := or_default (nb_get b 17) s_regular in
  if is_ribbi fb then (fb, None) else (s_regular, if nonempty fb then Some fb else None).

Definition ps_from (fam16 sub17 : str) : str :=
  let family := filter (fun c => negb (c =? 32)) fam16 in
  let family := if nonempty sub17 then family ++ [45] else family in
  normalize_ps (make_family_name family sub17).

Definition uid_from (version vendor ps : str) : str :=
  remove_pat s_version_sp version ++ 59 :: vendor ++ 59 :: ps.

(* NameBuilder::build(vendor_id), up to the final `retain` *)
Definition nb_build_state (b : nbs) (major : Z) (minor : N) (vendor : str) : nbs :=
  let suffix := if nb_contains b 2 then None else snd (nb_sub_fallback b) in
  let b := nb_add_absent b 2 (fst (nb_sub_fallback b)) in
  let b := nb_add_absent b 1 (let fam := or_default (nb_get b 16) s_new_font in
                              match suffix with Some s => fam ++ 32 :: s | None => fam end) in
  let b := nb_apply_fallback b 16 1 in
  let b := nb_apply_fallback b 17 2 in
  let b := nb_add_absent b 5 (version_string major minor) in
  let b := nb_add_absent b 4 (make_family_name (or_default (nb_get b 16) []) (or_default (nb_get b 17) [])) in
  let b := nb_add_absent b 6 (ps_from (or_default (nb_get b 16) []) (or_default (nb_get b 17) [])) in
  let b := nb_add_absent b 3 (uid_from (or_default (nb_get b 5) []) vendor (or_default (nb_get b 6) [])) in
  match nb_get b 1, nb_get b 2 with
  | Some f, Some s =>
      if str_opt_eqb (Some f) (nb_get b 16) && str_opt_eqb (Some s) (nb_get b 17)
      then nb_remove (nb_remove b 16) 17 else b
  | _, _ => b
  end.

(* `self.names.retain(|_k, v| !v.is_empty())` *)
Definition nb_build (b : nbs) (major : Z) (minor : N) (vendor : str) : names :=
  filter (fun e => nonempty (snd e)) (nb_names (nb_build_state b major minor vendor)).

(* the front end's sequence of `add` calls, then build *)
Definition nb_run (adds : list (N * str)) (major : Z) (minor : N) (vendor : str) : names :=
  nb_build (fold_left (fun b a => nb_add b (fst a) (snd a)) adds nb_empty) major minor vendor.

(* The documented fallback rules as a table over "what the source supplied"
   (g id = the string supplied for id, after end-of-line normalisation).     *)
Section Spec.
  Variable g : N -> option str.
  Variables (major : Z) (minor : N) (vendor : str).
  Definition sp_fb : str := or_default (g 17) s_regular.
  (* legacy subfamily: as supplied, else the typographic one if it is RIBBI, else "Regular" *)
  Definition sp_s2 : str :=
    match g 2 with Some v => v | None => crnorm (if is_ribbi sp_fb then sp_fb else s_regular) end.
  Definition sp_suffix : option str :=
    match g 2 with
    | Some _ => None
    | None => if is_ribbi sp_fb then None else if nonempty sp_fb then Some sp_fb else None
    end.
  (* legacy family: as supplied, else typographic family (or "New Font") plus the non-RIBBI style *)
  Definition sp_s1 : str :=
    match g 1 with
    | Some v => v
    | None => let fam := or_default (g 16) s_new_font in
              crnorm (match sp_suffix with Some s => fam ++ 32 :: s | None => fam end)
    end.
  Definition sp_s16 : str := match g 16 with Some v => v | None => crnorm sp_s1 end.
  Definition sp_s17 : str := match g 17 with Some v => v | None => crnorm sp_s2 end.
  Definition sp_s5 : str := match g 5 with Some v => v | None => crnorm (version_string major minor) end.
  Definition sp_s4 : str := match g 4 with Some v => v | None => crnorm (make_family_name sp_s16 sp_s17) end.
  Definition sp_s6 : str := match g 6 with Some v => v | None => crnorm (ps_from sp_s16 sp_s17) end.
  Definition sp_s3 : str := match g 3 with Some v => v | None => crnorm (uid_from sp_s5 vendor sp_s6) end.
  (* typographic names are dropped when they repeat the legacy ones *)
  Definition sp_drop : bool := str_eqb sp_s1 sp_s16 && str_eqb sp_s2 sp_s17.
  Definition spec_pre (id : N) : option str :=
    if id =? 1 then Some sp_s1 else if id =? 2 then Some sp_s2 else if id =? 3 then Some sp_s3
    else if id =? 4 then Some sp_s4 else if id =? 5 then Some sp_s5 else if id =? 6 then Some sp_s6
    else if id =? 16 then (if sp_drop then None else Some sp_s16)
    else if id =? 17 then (if sp_drop then None else Some sp_s17)
    else g id.
  (* empty strings are not emitted *)
  Definition spec_name (id : N) : option str :=
    match spec_pre id with Some v => if nonempty v then Some v else None | None => None end.
End Spec.

(* ------------------------------------------------------------------------- *)
(* StaticMetadata::new — name registration                                    *)

Record axis := { a_label : str; a_min : Z; a_def : Z; a_max : Z }.
(* user-space location: one coordinate per source axis, in axis order *)
Record inst := { i_name : str; i_ps : option str; i_loc : list Z }.

Definition is_point (a : axis) : bool := (a_min a =? a_def a)%Z && (a_max a =? a_def a)%Z.
Definition variable_axes (axes : list axis) : list axis := filter (fun a => negb (is_point a)) axes.

(* instance.location.subset_axes(&variable_axes) *)
Definition subset_loc (axes : list axis) (loc : list Z) : list Z :=
  map snd (filter (fun p => negb (is_point (fst p))) (combine axes loc)).

Fixpoint zlist_eqb (a b : list Z) : bool :=
  match a, b with
  | [], [] => true
  | x :: a', y :: b' => (x =? y)%Z && zlist_eqb a' b'
  | _, _ => false
  end.

(* ni.location == default_instance_location *)
Definition is_default (axes : list axis) (i : inst) : bool :=
  zlist_eqb (subset_loc axes (i_loc i)) (map a_def (variable_axes axes)).

(* named instances are dropped for a static font *)
Definition kept_instances (axes : list axis) (insts : list inst) : list inst :=
  match variable_axes axes with [] => [] | _ => insts end.

(* reusable_names : HashMap<String, NameKey>, in insertion order *)
Definition rmap := list (str * nkey).

Fixpoint rmap_upsert (s : str) (k : nkey) (m : rmap) : rmap :=
  match m with
  | [] => [(s, k)]
  | (s', k') :: t => if str_eqb s' s then (s, k) :: t else (s', k') :: rmap_upsert s k t
  end.
Definition rmap_mem (s : str) (m : rmap) : bool := existsb (fun e => str_eqb (fst e) s) m.

(* names.iter().filter(id > 255).map(|(k, v)| (v, k)).collect() *)
Definition reusable0 (nm : names) : rmap :=
  fold_left (fun m e => if 255 <? fst (fst e) then rmap_upsert (snd e) (fst e) m else m) nm [].

(* register_if_new; state = (name_id_gen, reusable_names) *)
Definition register (st : N * rmap) (s : str) : N * rmap :=
  let '(gen, m) := st in
  if rmap_mem s m then st else (gen + 1, m ++ [(s, key_of (gen + 1) s)]).

(* names.iter().any(|(key, string)| string == instance_name && (key.name_id == 2 || key.name_id == 17)) *)
Definition reuses_subfamily (nm : names) (s : str) : bool :=
  existsb (fun e => str_eqb (snd e) s && ((fst (fst e) =? 2) || (fst (fst e) =? 17))) nm.

Definition reg_inst (nm : names) (axes : list axis) (st : N * rmap) (i : inst) : N * rmap :=
  let st1 := if is_default axes i && reuses_subfamily nm (i_name i) then st else register st (i_name i) in
  match i_ps i with Some p => register st1 p | None => st1 end.

(* names.keys().map(|key| key.name_id).fold(255, max) *)
Definition max_name_id (nm : names) : N := fold_left (fun m e => N.max m (fst (fst e))) nm 255.

(* the content of reusable_names when registration is over; name_id_gen starts at the
   largest id the source already uses *)
Definition alloc (nm : names) (axes : list axis) (insts : list inst) : rmap :=
  snd (fold_left (reg_inst nm axes) (kept_instances axes insts)
         (fold_left register (map a_label (variable_axes axes)) (max_name_id nm, reusable0 nm))).

(* names.extend(reusable_names.into_iter().map(|(string, key)| (key, string)));
   `rp` is reusable_names in ITS iteration order *)
Definition extend (nm : names) (rp : rmap) : names :=
  fold_left (fun m e => upsert (snd e) (fst e) m) rp nm.

(* ------------------------------------------------------------------------- *)
(* reverse_names, fvar, STAT                                                  *)

(* reverse_names().get(s): the ids whose record is s *)
Definition ids_of (nm : names) (s : str) : list N :=
  map (fun e => fst (fst e)) (filter (fun e => str_eqb (snd e) s) nm).

Fixpoint min_list (l : list N) : option N :=
  match l with
  | [] => None
  | x :: t => match min_list t with Some m => Some (N.min x m) | None => Some x end
  end.

(* ids >= 256 always; the subfamily ids 2 / 17 only where the caller allows them *)
Definition id_allowed (allow_subfamily : bool) (id : N) : bool :=
  (256 <=? id) || (allow_subfamily && ((id =? 2) || (id =? 17))).

(* reusable_name_id: first id of the sorted set that is allowed; None = the unwrap() panics *)
Definition reusable_name_id (nm : names) (s : str) (allow_subfamily : bool) : option N :=
  min_list (filter (id_allowed allow_subfamily) (ids_of nm s)).

Definition fvar_axis_ids (nm : names) (axes : list axis) : list (option N) :=
  map (fun a => reusable_name_id nm (a_label a) false) (variable_axes axes).

Definition NO_PS : N := 0xFFFF.

Definition fvar_inst_ids (nm : names) (axes : list axis) (insts : list inst)
  : list (option N * option (option N)) :=
  let kept := kept_instances axes insts in
  let has_ps := existsb (fun i => match i_ps i with Some _ => true | None => false end) kept in
  map (fun i =>
         (reusable_name_id nm (i_name i) (is_default axes i),
          if has_ps then
            Some (match i_ps i with Some p => reusable_name_id nm p false | None => Some NO_PS end)
          else None)) kept.

(* make_stat: smallest id >= 256 per string *)
Definition stat_axis_ids (nm : names) (axes : list axis) : list (option N) :=
  map (fun a => reusable_name_id nm (a_label a) false) (variable_axes axes).

(* ------------------------------------------------------------------------- *)
(* fea-rs NameBuilder and the ids feature parameters / STAT refer to           *)

(* NameSpec: (platform, encoding, language), string *)
Definition nspec : Type := (N * N * N) * str.
(* a name record of the final table: ((platform, encoding, language, name id), string) *)
Definition frec : Type := (N * N * N * N) * str.

Record fnb := { f_recs : list (N * nspec); f_last : N }.
Definition fnb_empty : fnb := {| f_recs := []; f_last := 255 |}.

Definition fnb_add (b : fnb) (id : N) (sp : nspec) : fnb :=
  {| f_recs := f_recs b ++ [(id, sp)]; f_last := N.max (f_last b) id |}.

Definition LAST_ALLOWED : N := 32767.

(* next_name_id: last.checked_add(1).unwrap_or(last) *)
Definition fnb_next (b : fnb) : N := if f_last b + 1 <=? LAST_ALLOWED then f_last b + 1 else f_last b.

(* add_anon_group: empty strings are skipped *)
Definition fnb_anon (b : fnb) (specs : list nspec) : fnb * N :=
  let id := fnb_next b in
  (fold_left (fun b sp => fnb_add b id sp) (filter (fun sp => nonempty (snd sp)) specs) b, id).

Definition fnb_contains (b : fnb) (id : N) : bool := existsb (fun r => fst r =? id) (f_recs b).

(* what refers to a group of names *)
Inductive gkind :=
| GExplicit (id : N)   (* table name { nameid <id> ... } : no reference *)
| GAdj                 (* ss featureNames, cv label/tooltip/sample/first parameter, STAT axis / axis value *)
| GAnon                (* cv parameter labels after the first: allocated, referenced by position *)
| GSize                (* size feature name_entry *)
| GElidedRec           (* STAT ElidedFallbackName { ... } *)
| GElidedId (id : N).  (* STAT ElidedFallbackNameID <id> *)

(* ids as the FEA compilation (before remapping) refers to them; r_all lists the id
   of every anonymous group in allocation order *)
Record fea_refs := { r_adj : list N; r_size : list N; r_elided : option N; r_all : list N }.
Definition refs_empty : fea_refs := {| r_adj := []; r_size := []; r_elided := None; r_all := [] |}.

Definition is_anon (k : gkind) : bool :=
  match k with GAdj | GAnon | GSize | GElidedRec => true | _ => false end.

(* one allocation step; None = the compiler panics (ElidedFallbackNameID not in the FEA name table) *)
Definition fea_step (st : fnb * fea_refs) (g : gkind * list nspec) : option (fnb * fea_refs) :=
  let '(b, r) := st in
  match fst g with
  | GExplicit id => Some (fold_left (fun b sp => fnb_add b id sp) (snd g) b, r)
  | GElidedId id => if fnb_contains b id
                    then Some (b, {| r_adj := r_adj r; r_size := r_size r; r_elided := Some id; r_all := r_all r |})
                    else None
  | k =>
      let '(b', id) := fnb_anon b (snd g) in
      Some (b', {| r_adj := match k with GAdj | GAnon => r_adj r ++ [id] | _ => r_adj r end;
                   r_size := match k with GSize => r_size r ++ [id] | _ => r_size r end;
                   r_elided := match k with GElidedRec => Some id | _ => r_elided r end;
                   r_all := r_all r ++ [id] |})
  end.

Fixpoint fea_alloc (st : fnb * fea_refs) (prog : list (gkind * list nspec)) : option (fnb * fea_refs) :=
  match prog with
  | [] => Some st
  | g :: t => match fea_step st g with Some st' => fea_alloc st' t | None => None end
  end.

(* Encoding::new(platform, encoding) != Unknown *)
Definition implemented (sp : nspec) : bool :=
  let '(p, e, _) := fst sp in
  (p =? 0) || ((p =? 1) && (e =? 0)) || ((p =? 3) && ((e =? 0) || (e =? 1) || (e =? 10))).

(* NameBuilder::build: None when nothing was declared *)
Definition fnb_build (b : fnb) : option (list frec) :=
  match f_recs b with
  | [] => None
  | _ => Some (map (fun r => let '(id, (pel, s)) := r in let '(p, e, l) := pel in ((p, e, l, id), s))
                 (filter (fun r => implemented (snd r)) (f_recs b)))
  end.

(* Compilation::remap_name_ids(first_avail_id) *)
Definition adjust_id (offset id : N) : N :=
  if (id =? 0xFFFF) || (id <=? 255) then id
  else if id + offset <=? LAST_ALLOWED then id + offset else LAST_ALLOWED.

Definition remap (first_avail : N) (recs : list frec) (r : fea_refs) : list frec * fea_refs :=
  let offset := first_avail - 256 in   (* saturating_sub; N subtraction truncates at 0 *)
  if offset =? 0 then (recs, r)
  else
    (map (fun e => let '((p, en, l, id), s) := e in ((p, en, l, adjust_id offset id), s)) recs,
     {| r_adj := map (adjust_id offset) (r_adj r);
        r_size := map (adjust_id offset) (r_size r);
        r_elided := option_map (adjust_id offset) (r_elided r);
        r_all := r_all r |}).

(* features.rs: only when the FEA produced a name table, and only past the reserved range *)
Definition fea_remapped (nm : names) (b : fnb) (r : fea_refs) : option (list frec) * fea_refs :=
  match fnb_build b with
  | None => (None, r)
  | Some recs =>
      let m := max_name_id nm in
      if 255 <? m then let '(recs', r') := remap (m + 1) recs r in (Some recs', r')
      else (Some recs, r)
  end.

(* fontbe name.rs: records of the IR, then FEA records over them (BTreeMap keyed by
   (platform, encoding, language, id)) *)
Definition fkey_eqb (a b : N * N * N * N) : bool :=
  let '(p, e, l, i) := a in let '(p', e', l', i') := b in
  (p =? p') && (e =? e') && (l =? l') && (i =? i').

Fixpoint fupsert (k : N * N * N * N) (v : str) (m : list frec) : list frec :=
  match m with
  | [] => [(k, v)]
  | (k', v') :: t => if fkey_eqb k' k then (k, v) :: t else (k', v') :: fupsert k v t
  end.

Definition ir_records (nm : names) : list frec :=
  map (fun e => ((3, snd (fst e), 0x409, fst (fst e)), snd e)) nm.

Definition merge_records (nm : names) (fea : option (list frec)) : list frec :=
  match fea with
  | None => ir_records nm
  | Some recs => fold_left (fun m e => fupsert (fst e) (snd e) m) recs (ir_records nm)
  end.

(* stamp_compiler_version: every record with name id 5 *)
Definition stamp_one (version s : str) : str :=
  let s' := truncate_at s_fontc_marker s in
  if nonempty s' then s' ++ s_fontc_marker ++ version else s'.
Definition stamp (version : option str) (recs : list frec) : list frec :=
  match version with
  | None => recs
  | Some v => map (fun e => let '((p, en, l, id), s) := e in
                            ((p, en, l, id), if id =? 5 then stamp_one v s else s)) recs
  end.

Definition final_names (nm : names) (fea : option (list frec)) (version : option str) : list frec :=
  stamp version (merge_records nm fea).

(* all strings the final table holds under a name id *)
Definition strings_of_id (recs : list frec) (id : N) : list str :=
  map snd (filter (fun e => let '(_, _, _, i) := fst e in i =? id) recs).

(* ------------------------------------------------------------------------- *)
(* helpers for the correspondence cases                                        *)

Definition frec_eqb (a b : frec) : bool := fkey_eqb (fst a) (fst b) && str_eqb (snd a) (snd b).
Definition subset_b (a b : list frec) : bool := forallb (fun x => existsb (frec_eqb x) b) a.
Definition same_records (a b : list frec) : bool :=
  Nat.eqb (length a) (length b) && subset_b a b && subset_b b a.

Definition nrec_eqb (a b : nkey * str) : bool := nkey_eqb (fst a) (fst b) && str_eqb (snd a) (snd b).
Definition same_names (a b : names) : bool :=
  Nat.eqb (length a) (length b)
  && forallb (fun x => existsb (nrec_eqb x) b) a && forallb (fun x => existsb (nrec_eqb x) a) b.

Definition opt_n_eqb (a b : option N) : bool :=
  match a, b with Some x, Some y => x =? y | None, None => true | _, _ => false end.

Fixpoint list_n_eqb (a b : list N) : bool :=
  match a, b with
  | [], [] => true
  | x :: a', y :: b' => (x =? y) && list_n_eqb a' b'
  | _, _ => false
  end.

Fixpoint all_some (l : list (option N)) : option (list N) :=
  match l with
  | [] => Some []
  | Some x :: t => match all_some t with Some r => Some (x :: r) | None => None end
  | None :: _ => None
  end.

(* what one whole-font observation contains *)
Record observed := {
  o_names : list frec;                 (* decoded name table *)
  o_fvar_axes : list N;
  o_fvar_inst : list (N * option N);   (* subfamily id, postscript id *)
  o_stat_axes : option (list N);       (* None: the STAT table came from FEA *)
  o_adj : list N; o_size : list N; o_elided : option N;  (* ids as the font refers to FEA names *)
  (* EVERY feature record with parameters: (size feature?, positions of its name groups in
     o_size / o_adj, the ids that record holds) *)
  o_records : list (bool * list nat * list N)
}.

(* every feature record carries its own clone of its tag's parameters (compile_ctx.rs build());
   remap_name_ids visits every record, so a record's ids are its tag's ids *)
Definition record_ids (refs : list N) (pos : list nat) : list N := map (fun p => nth p refs 0xFFFF) pos.

Definition records_agree (r : fea_refs) (recs : list (bool * list nat * list N)) : bool :=
  forallb (fun e : bool * list nat * list N => let '(sz, pos, ids) := e in
                    list_n_eqb (record_ids (if sz then r_size r else r_adj r) pos) ids) recs.

Definition inst_ids_eqb (m : list (option N * option (option N))) (o : list (N * option N)) : bool :=
  (fix go m o := match m, o with
     | [], [] => true
     | (Some s, p) :: m', (s', p') :: o' =>
         (s =? s') && match p, p' with
                      | None, None => true
                      | Some (Some x), Some y => x =? y
                      | _, _ => false
                      end && go m' o'
     | _, _ => false
     end) m o.

(* the whole pipeline for one iteration order `nm` of the source names and one
   iteration order choice `rp` of reusable_names *)
Definition font_agrees_with (nm : names) (rp : rmap) (axes : list axis) (insts : list inst)
    (prog : list (gkind * list nspec)) (version : option str) (o : observed) : bool :=
  let fin := extend nm rp in
  match fea_alloc (fnb_empty, refs_empty) prog with
  | None => false
  | Some (b, r) =>
      let '(fea, r') := fea_remapped fin b r in
      same_records (final_names fin fea version) (o_names o)
      && match all_some (fvar_axis_ids fin axes) with
         | Some ids => list_n_eqb ids (o_fvar_axes o)
         | None => false
         end
      && inst_ids_eqb (fvar_inst_ids fin axes insts) (o_fvar_inst o)
      && match o_stat_axes o with
         | Some ids => match all_some (stat_axis_ids fin axes) with
                       | Some m => list_n_eqb m ids
                       | None => false
                       end
         | None => true
         end
      && list_n_eqb (r_adj r') (o_adj o) && list_n_eqb (r_size r') (o_size o)
      && opt_n_eqb (r_elided r') (o_elided o)
      && records_agree r' (o_records o)
  end.

(* the result no longer depends on an iteration order: one evaluation *)
Definition font_agrees (adds : list (N * str)) (major : Z) (minor : N) (vendor : str)
    (axes : list axis) (insts : list inst) (prog : list (gkind * list nspec))
    (version : option str) (o : observed) : bool :=
  let nm := nb_run adds major minor vendor in
  font_agrees_with nm (alloc nm axes insts) axes insts prog version o.

(* StaticMetadata::new alone: `nm` is the input map in its observed iteration order *)
Definition alloc_agrees (nm : names) (axes : list axis) (insts : list inst) (out : names) : bool :=
  same_names (extend nm (alloc nm axes insts)) out.
