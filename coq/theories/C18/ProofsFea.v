(* C18 — lemmas about names that come from feature code: fea-rs id allocation,
   remap_name_ids, and the merge into the final name table. *)
From Coq Require Import List NArith ZArith Bool Permutation Lia.
From Coq Require Import ZifyBool ZifyN ZifyNat.
From FV.C18 Require Import Model Proofs.
Import ListNotations.
Open Scope N_scope.

(* ------------------------------------------------------------------------- *)
(* fea-rs NameBuilder                                                          *)

Definition specs_under (b : fnb) (id : N) : list nspec :=
  map snd (filter (fun r => fst r =? id) (f_recs b)).

Definition fnb_inv (b : fnb) : Prop := Forall (fun r => fst r <= f_last b) (f_recs b).

Definition ne_specs (specs : list nspec) : list nspec := filter (fun sp => nonempty (snd sp)) specs.

Lemma fold_add_recs : forall specs b id,
  f_recs (fold_left (fun b sp => fnb_add b id sp) specs b) = f_recs b ++ map (pair id) specs.
Proof.
  induction specs as [|sp specs IH]; intros b id; simpl; [rewrite app_nil_r; reflexivity|].
  rewrite IH. simpl. rewrite <- app_assoc. reflexivity.
Qed.

Lemma fold_add_last : forall specs b id, f_last b <= id -> specs <> [] ->
  f_last (fold_left (fun b sp => fnb_add b id sp) specs b) = id.
Proof.
  induction specs as [|sp specs IH]; intros b id L NE; [contradiction|]. simpl.
  destruct specs as [|sp' specs'].
  - simpl. lia.
  - apply IH; [simpl; lia|discriminate].
Qed.

Lemma specs_under_app : forall b id l,
  map snd (filter (fun r : N * nspec => fst r =? id) (f_recs b ++ l))
  = specs_under b id ++ map snd (filter (fun r : N * nspec => fst r =? id) l).
Proof. intros. unfold specs_under. rewrite filter_app, map_app. reflexivity. Qed.

Lemma filter_pair_same : forall id (l : list nspec),
  map snd (filter (fun r : N * nspec => fst r =? id) (map (pair id) l)) = l.
Proof.
  induction l as [|x l IH]; simpl; [reflexivity|]. rewrite N.eqb_refl. simpl. f_equal. exact IH.
Qed.

Lemma filter_pair_other : forall id id' (l : list nspec), id' <> id ->
  map snd (filter (fun r : N * nspec => fst r =? id) (map (pair id') l)) = [].
Proof.
  induction l as [|x l IH]; simpl; intro H; [reflexivity|].
  destruct (N.eqb_spec id' id); [contradiction|]. apply IH. exact H.
Qed.

Lemma specs_under_fresh : forall b id, fnb_inv b -> f_last b < id -> specs_under b id = [].
Proof.
  intros b id I L. unfold specs_under, fnb_inv in *.
  induction (f_recs b) as [|r l IH]; simpl; [reflexivity|].
  inversion I; subst. destruct (N.eqb_spec (fst r) id); [lia|]. apply IH. assumption.
Qed.

Lemma fnb_anon_spec : forall b specs,
  fnb_inv b -> f_last b < LAST_ALLOWED -> ne_specs specs <> [] ->
  let id := f_last b + 1 in
  let b' := fst (fnb_anon b specs) in
  snd (fnb_anon b specs) = id
  /\ f_recs b' = f_recs b ++ map (pair id) (ne_specs specs)
  /\ f_last b' = id
  /\ fnb_inv b'.
Proof.
  intros b specs I L NE. unfold fnb_anon, fnb_next. unfold LAST_ALLOWED in *.
  destruct (N.leb_spec (f_last b + 1) 32767); [|lia]. simpl.
  fold (ne_specs specs). split; [reflexivity|]. split; [apply fold_add_recs|].
  assert (E : f_last (fold_left (fun b0 sp => fnb_add b0 (f_last b + 1) sp) (ne_specs specs) b) = f_last b + 1)
    by (apply fold_add_last; [lia|exact NE]).
  split; [exact E|]. unfold fnb_inv. rewrite E, fold_add_recs. apply Forall_app. split.
  - eapply Forall_impl; [|exact I]. simpl. intros r Hr. lia.
  - rewrite Forall_forall. intros r Hr. apply in_map_iff in Hr as [sp [<- _]]. simpl. lia.
Qed.

Definition group_ok (g : gkind * list nspec) : Prop :=
  is_anon (fst g) = true /\ ne_specs (snd g) <> [].

Lemma fea_step_anon : forall b r g,
  is_anon (fst g) = true ->
  exists r', fea_step (b, r) g = Some (fst (fnb_anon b (snd g)), r')
             /\ r_all r' = r_all r ++ [snd (fnb_anon b (snd g))].
Proof.
  intros b r [k specs] A. cbn [fst snd] in *. unfold fea_step. cbn [fst snd].
  destruct (fnb_anon b specs) as [b' id]. cbn [fst snd].
  destruct k; try discriminate; eexists; split; reflexivity.
Qed.

Lemma fea_alloc_anon : forall prog b0 r0 b r,
  fnb_inv b0 -> Forall group_ok prog -> f_last b0 + N.of_nat (length prog) <= LAST_ALLOWED ->
  fea_alloc (b0, r0) prog = Some (b, r) ->
  let ids := map (fun n => f_last b0 + 1 + N.of_nat n) (seq 0 (length prog)) in
  r_all r = r_all r0 ++ ids
  /\ Forall2 (fun g id => specs_under b id = ne_specs (snd g)) prog ids
  /\ (forall id, id <= f_last b0 -> specs_under b id = specs_under b0 id)
  /\ f_last b = f_last b0 + N.of_nat (length prog)
  /\ fnb_inv b.
Proof.
  induction prog as [|g prog IH]; intros b0 r0 b r I G L H.
  - simpl in H. inversion H; subst. simpl. rewrite app_nil_r. repeat split; auto. lia.
  - inversion G as [|? ? [GA GN] G']; subst.
    cbn [fea_alloc] in H.
    destruct (fea_step_anon b0 r0 g GA) as [r1 [S1 A1]]. rewrite S1 in H.
    cbn [length] in L.
    destruct (fnb_anon_spec b0 (snd g) I ltac:(unfold LAST_ALLOWED in *; lia) GN) as [E1 [E2 [E3 E4]]].
    set (b1 := fst (fnb_anon b0 (snd g))) in *.
    specialize (IH b1 r1 b r E4 G' ltac:(rewrite E3; lia) H).
    destruct IH as [J1 [J2 [J3 [J4 J5]]]].
    cbn [length seq map]. rewrite <- seq_shift, map_map.
    assert (EM : map (fun n => f_last b1 + 1 + N.of_nat n) (seq 0 (length prog))
                 = map (fun x => f_last b0 + 1 + N.of_nat (S x)) (seq 0 (length prog))).
    { apply map_ext. intro n. rewrite E3. lia. }
    rewrite EM in J1, J2.
    split; [|split; [|split; [|split]]].
    + rewrite J1, A1, E1, <- app_assoc. f_equal. cbn [app]. f_equal. lia.
    + constructor; [|exact J2].
      replace (f_last b0 + 1 + N.of_nat 0) with (f_last b0 + 1) by lia.
      rewrite (J3 (f_last b0 + 1)) by (rewrite E3; lia).
      unfold specs_under at 1. fold b1. rewrite E2. rewrite specs_under_app.
      rewrite (specs_under_fresh b0 _ I) by lia. simpl. apply filter_pair_same.
    + intros id Hid. rewrite (J3 id) by (rewrite E3; lia).
      unfold specs_under at 1. rewrite E2. rewrite specs_under_app.
      rewrite filter_pair_other by lia. apply app_nil_r.
    + rewrite J4, E3. lia.
    + exact J5.
Qed.

(* ------------------------------------------------------------------------- *)
(* remap_name_ids + merge_name_records                                         *)

Lemma fkey_eqb_eq : forall a b, fkey_eqb a b = true <-> a = b.
Proof.
  intros [[[p e] l] i] [[[p' e'] l'] i']. unfold fkey_eqb.
  rewrite !andb_true_iff, !N.eqb_eq. split.
  - intros [[[-> ->] ->] ->]. reflexivity.
  - intro H. inversion H. auto.
Qed.

Lemma fupsert_in_new : forall k v m, In (k, v) (fupsert k v m).
Proof.
  induction m as [|[k' v'] m IH]; simpl; [left; reflexivity|].
  destruct (fkey_eqb k' k); [left; reflexivity|right; exact IH].
Qed.

Lemma fupsert_in_old : forall k v k' v' m, In (k', v') m -> k' <> k -> In (k', v') (fupsert k v m).
Proof.
  induction m as [|[k0 v0] m IH]; simpl; intros H NE; [contradiction|].
  destruct (fkey_eqb k0 k) eqn:E.
  - apply fkey_eqb_eq in E. subst. destruct H as [H|H]; [inversion H; subst; contradiction|right; exact H].
  - destruct H as [H|H]; [left; exact H|right; apply IH; assumption].
Qed.

Definition fmerge (recs base : list frec) : list frec :=
  fold_left (fun m e => fupsert (fst e) (snd e) m) recs base.

Lemma fmerge_keep : forall recs base k v,
  In (k, v) base -> ~ In k (map fst recs) -> In (k, v) (fmerge recs base).
Proof.
  unfold fmerge. induction recs as [|[k0 v0] recs IH]; simpl; intros base k v H NI; [exact H|].
  apply IH.
  - apply fupsert_in_old; [exact H|]. intro E. apply NI. left. symmetry. exact E.
  - intro H1. apply NI. right. exact H1.
Qed.

Lemma fmerge_in : forall recs base k v,
  NoDup (map fst recs) -> In (k, v) recs -> In (k, v) (fmerge recs base).
Proof.
  unfold fmerge. induction recs as [|[k0 v0] recs IH]; simpl; intros base k v ND H; [contradiction|].
  inversion ND as [|? ? NI ND']; subst. destruct H as [H|H].
  - inversion H; subst. apply (fmerge_keep recs); [apply fupsert_in_new|exact NI].
  - apply IH; assumption.
Qed.

Definition fid (e : frec) : N := let '(_, _, _, i) := fst e in i.

(* the ids remap_name_ids can move without saturating *)
Definition movable (off : N) (id : N) : Prop := id <= 255 \/ (256 <= id /\ id + off <= LAST_ALLOWED).

Lemma adjust_movable : forall off id, movable off id ->
  adjust_id off id = if id <=? 255 then id else id + off.
Proof.
  intros off id M. unfold adjust_id, LAST_ALLOWED in *.
  destruct (N.eqb_spec id 0xFFFF); destruct (N.leb_spec id 255); simpl; try reflexivity; try lia.
  - destruct M as [M|[M1 M2]]; unfold LAST_ALLOWED in *; lia.
  - destruct (N.leb_spec (id + off) 32767); [reflexivity|].
    destruct M as [M|[M1 M2]]; unfold LAST_ALLOWED in *; lia.
Qed.

Definition adj_rec (off : N) (e : frec) : frec :=
  let '((p, en, l, id), s) := e in ((p, en, l, adjust_id off id), s).

Lemma adj_rec_key_inj : forall off a b,
  movable off (fid a) -> movable off (fid b) ->
  fst (adj_rec off a) = fst (adj_rec off b) -> fst a = fst b.
Proof.
  intros off [[[[p e] l] i] s] [[[[p' e'] l'] i'] s'] Ma Mb H. unfold fid in *. simpl in *.
  rewrite (adjust_movable off i Ma), (adjust_movable off i' Mb) in H.
  inversion H; subst. f_equal.
  destruct (N.leb_spec i 255); destruct (N.leb_spec i' 255); try lia;
    destruct Ma as [Ma|[Ma1 Ma2]]; destruct Mb as [Mb|[Mb1 Mb2]]; lia.
Qed.

Lemma NoDup_map_inj_in : forall {A B} (f : A -> B) l,
  (forall x y, In x l -> In y l -> f x = f y -> x = y) -> NoDup l -> NoDup (map f l).
Proof.
  intros A B f l. induction l as [|x l IH]; simpl; intros Inj ND; [constructor|].
  inversion ND; subst. constructor.
  - intro H. apply in_map_iff in H as [y [E Hy]].
    assert (y = x) by (apply Inj; [right; exact Hy|left; reflexivity|exact E]). subst. contradiction.
  - apply IH; [|assumption]. intros a b Ha Hb. apply Inj; right; assumption.
Qed.

Lemma adj_keys_nodup : forall off recs,
  NoDup (map fst recs) -> (forall e, In e recs -> movable off (fid e)) ->
  NoDup (map fst (map (adj_rec off) recs)).
Proof.
  intros off recs ND M. rewrite map_map.
  induction recs as [|a recs IH]; simpl; [constructor|].
  simpl in ND. inversion ND as [|? ? NI ND']; subst. constructor.
  - intro H. apply in_map_iff in H as [b [E Hb]].
    apply NI. apply in_map_iff. exists b. split; [|exact Hb].
    apply (adj_rec_key_inj off b a); [apply M; right; exact Hb|apply M; left; reflexivity|exact E].
  - apply IH; [exact ND'|]. intros e He. apply M. right. exact He.
Qed.

Lemma remap_shape : forall first recs r, 256 < first ->
  remap first recs r =
    (map (adj_rec (first - 256)) recs,
     {| r_adj := map (adjust_id (first - 256)) (r_adj r);
        r_size := map (adjust_id (first - 256)) (r_size r);
        r_elided := option_map (adjust_id (first - 256)) (r_elided r);
        r_all := r_all r |}).
Proof.
  intros first recs r H. unfold remap. destruct (N.eqb_spec (first - 256) 0); [lia|]. reflexivity.
Qed.

Lemma remap_merge_sound : forall fin recs r,
  255 < max_name_id fin ->
  let off := max_name_id fin - 255 in
  NoDup (map fst recs) ->
  (forall e, In e recs -> movable off (fid e)) ->
  let recs' := fst (remap (max_name_id fin + 1) recs r) in
  let r' := snd (remap (max_name_id fin + 1) recs r) in
  let out := merge_records fin (Some recs') in
  (forall p e l id s, In ((p, e, l, id), s) recs -> In ((p, e, l, adjust_id off id), s) out)
  /\ (forall k s, In (k, s) fin -> 256 <= fst k -> In ((3, snd k, 0x409, fst k), s) out)
  /\ r_adj r' = map (adjust_id off) (r_adj r)
  /\ r_size r' = map (adjust_id off) (r_size r)
  /\ r_elided r' = option_map (adjust_id off) (r_elided r).
Proof.
  intros fin recs r HM off ND MV recs' r' out. subst recs' r' out.
  rewrite remap_shape by lia.
  replace (max_name_id fin + 1 - 256) with off by (subst off; lia).
  cbn [fst snd r_adj r_size r_elided]. unfold merge_records. fold (fmerge (map (adj_rec off) recs) (ir_records fin)).
  split; [|split; [|repeat split; reflexivity]].
  - intros p e l id s H. apply fmerge_in.
    + apply adj_keys_nodup; assumption.
    + apply in_map_iff. exists ((p, e, l, id), s). split; [reflexivity|exact H].
  - intros k s H Hk. apply fmerge_keep.
    + unfold ir_records. apply in_map_iff. exists (k, s). split; [reflexivity|exact H].
    + intro H1. rewrite map_map in H1. apply in_map_iff in H1 as [[[[[p e] l] i] s'] [E He]].
      simpl in E. inversion E; subst. clear E.
      pose proof (MV _ He) as M. unfold fid in M. simpl in M.
      rewrite (adjust_movable off i M) in *.
      pose proof (max_name_id_ge fin k s H) as LE.
      destruct (N.leb_spec i 255); [lia|]. destruct M as [M|[M1 M2]]; [lia|]. subst off. lia.
Qed.

(* a static font has no IR name above 255: FEA ids are left alone *)
Lemma static_no_remap : forall fin b r,
  max_name_id fin = 255 ->
  fea_remapped fin b r = (fnb_build b, r).
Proof.
  intros fin b r H. unfold fea_remapped. destruct (fnb_build b); [|reflexivity].
  rewrite H. reflexivity.
Qed.

(* ------------------------------------------------------------------------- *)
(* every feature record, not only the first of its tag                         *)

Lemma adjust_sentinel : forall off, adjust_id off 0xFFFF = 0xFFFF.
Proof. intro off. unfold adjust_id. reflexivity. Qed.

(* a record's ids are looked up in its tag's ids: remapping the tag's ids and then
   reading the record = reading the record and remapping every id it holds *)
Lemma record_ids_remap : forall off refs pos,
  record_ids (map (adjust_id off) refs) pos = map (adjust_id off) (record_ids refs pos).
Proof.
  intros off refs pos. unfold record_ids. rewrite map_map. apply map_ext. intro p.
  rewrite <- (adjust_sentinel off) at 1. apply map_nth.
Qed.
