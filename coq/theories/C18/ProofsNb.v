(* C18 — the fontir NameBuilder (two hash maps, sequential fallbacks) refines the
   decision table spec_name. *)
From Coq Require Import List NArith ZArith Bool Lia.
From Coq Require Import ZifyBool ZifyN ZifyNat.
From FV.C18 Require Import Model Proofs.
Import ListNotations.
Open Scope N_scope.

(* ------------------------------------------------------------------------- *)
(* association-list facts                                                      *)

Lemma lookup_upsert_same : forall k v m, lookup k (upsert k v m) = Some v.
Proof.
  induction m as [|[k' v'] m IH]; simpl.
  - rewrite (proj2 (nkey_eqb_eq k k) eq_refl). reflexivity.
  - destruct (nkey_eqb k' k) eqn:E; simpl.
    + rewrite (proj2 (nkey_eqb_eq k k) eq_refl). reflexivity.
    + rewrite E. exact IH.
Qed.

Lemma lookup_upsert_other : forall k k' v m, k' <> k -> lookup k' (upsert k v m) = lookup k' m.
Proof.
  induction m as [|[k0 v0] m IH]; simpl; intro NE.
  - destruct (nkey_eqb k k') eqn:E; [apply nkey_eqb_eq in E; congruence|reflexivity].
  - destruct (nkey_eqb k0 k) eqn:E; simpl.
    + apply nkey_eqb_eq in E. subst k0.
      destruct (nkey_eqb k k') eqn:E'; [apply nkey_eqb_eq in E'; congruence|reflexivity].
    + destruct (nkey_eqb k0 k'); [reflexivity|apply IH; exact NE].
Qed.

Lemma upsert_keys : forall k v m k', In k' (map fst (upsert k v m)) <-> k' = k \/ In k' (map fst m).
Proof.
  induction m as [|[k0 v0] m IH]; simpl; intro k'.
  - split; [intros [H|[]]; left; congruence|intros [H|[]]; left; congruence].
  - destruct (nkey_eqb k0 k) eqn:E; simpl.
    + apply nkey_eqb_eq in E. subst. split; [intros [H|H]; [left; congruence|right; right; exact H]|].
      intros [H|[H|H]]; [left; congruence|left; congruence|right; exact H].
    + rewrite IH. split; [intros [H|[H|H]]; auto|intros [H|[H|H]]; auto].
Qed.

Lemma upsert_nodup : forall k v m, NoDup (map fst m) -> NoDup (map fst (upsert k v m)).
Proof.
  induction m as [|[k0 v0] m IH]; simpl; intro ND.
  - constructor; [intros []|constructor].
  - inversion ND as [|? ? NI ND']; subst. destruct (nkey_eqb k0 k) eqn:E; simpl.
    + apply nkey_eqb_eq in E. subst. constructor; assumption.
    + constructor; [|apply IH; exact ND'].
      intro H. apply upsert_keys in H as [H|H]; [|contradiction].
      subst. rewrite (proj2 (nkey_eqb_eq k k) eq_refl) in E. discriminate.
Qed.

Lemma lookup_remove_same : forall k m, lookup k (remove_key k m) = None.
Proof.
  induction m as [|[k0 v0] m IH]; simpl; [reflexivity|].
  destruct (nkey_eqb k0 k) eqn:E; simpl; [exact IH|rewrite E; exact IH].
Qed.

Lemma lookup_remove_other : forall k k' m, k' <> k -> lookup k' (remove_key k m) = lookup k' m.
Proof.
  induction m as [|[k0 v0] m IH]; simpl; intro NE; [reflexivity|].
  destruct (nkey_eqb k0 k) eqn:E; simpl.
  - apply nkey_eqb_eq in E. subst.
    destruct (nkey_eqb k k') eqn:E'; [apply nkey_eqb_eq in E'; congruence|apply IH; exact NE].
  - destruct (nkey_eqb k0 k'); [reflexivity|apply IH; exact NE].
Qed.

Lemma filter_nodup_keys : forall (f : nkey * str -> bool) m, NoDup (map fst m) -> NoDup (map fst (filter f m)).
Proof.
  induction m as [|e m IH]; simpl; intro ND; [constructor|].
  inversion ND as [|? ? NI ND']; subst. destruct (f e); simpl; [|apply IH; exact ND'].
  constructor; [|apply IH; exact ND'].
  intro H. apply NI. apply in_map_iff in H as [x [E Hx]]. apply filter_In in Hx as [Hx _].
  rewrite <- E. apply in_map. exact Hx.
Qed.

Lemma lookup_in : forall k v m, lookup k m = Some v -> In (k, v) m.
Proof.
  induction m as [|[k0 v0] m IH]; simpl; intro H; [discriminate|].
  destruct (nkey_eqb k0 k) eqn:E.
  - apply nkey_eqb_eq in E. inversion H; subst. left. reflexivity.
  - right. apply IH. exact H.
Qed.

Lemma in_lookup : forall k v m, NoDup (map fst m) -> In (k, v) m -> lookup k m = Some v.
Proof.
  induction m as [|[k0 v0] m IH]; simpl; intros ND H; [contradiction|].
  inversion ND as [|? ? NI ND']; subst. destruct H as [H|H].
  - inversion H; subst. rewrite (proj2 (nkey_eqb_eq k k) eq_refl). reflexivity.
  - destruct (nkey_eqb k0 k) eqn:E.
    + apply nkey_eqb_eq in E. subst. exfalso. apply NI. apply in_map_iff. exists (k, v). auto.
    + apply IH; assumption.
Qed.

Lemma ilookup_iupsert_same : forall id k m, ilookup id (iupsert id k m) = Some k.
Proof.
  induction m as [|[i k'] m IH]; simpl; [rewrite N.eqb_refl; reflexivity|].
  destruct (N.eqb_spec i id); simpl; [rewrite N.eqb_refl; reflexivity|].
  destruct (N.eqb_spec i id); [contradiction|exact IH].
Qed.

Lemma ilookup_iupsert_other : forall id id' k m, id' <> id -> ilookup id' (iupsert id k m) = ilookup id' m.
Proof.
  induction m as [|[i k'] m IH]; simpl; intro NE.
  - destruct (N.eqb_spec id id'); [congruence|reflexivity].
  - destruct (N.eqb_spec i id); simpl.
    + subst. destruct (N.eqb_spec id id'); [congruence|reflexivity].
    + destruct (N.eqb_spec i id'); [reflexivity|apply IH; exact NE].
Qed.

Lemma ilookup_iremove_same : forall id m, ilookup id (iremove id m) = None.
Proof.
  induction m as [|[i k] m IH]; simpl; [reflexivity|].
  destruct (N.eqb_spec i id); simpl; [exact IH|].
  destruct (N.eqb_spec i id); [contradiction|exact IH].
Qed.

Lemma ilookup_iremove_other : forall id id' m, id' <> id -> ilookup id' (iremove id m) = ilookup id' m.
Proof.
  induction m as [|[i k] m IH]; simpl; intro NE; [reflexivity|].
  destruct (N.eqb_spec i id); simpl.
  - subst. destruct (N.eqb_spec id id'); [congruence|apply IH; exact NE].
  - destruct (N.eqb_spec i id'); [reflexivity|apply IH; exact NE].
Qed.

(* ------------------------------------------------------------------------- *)
(* well-formed builder states                                                  *)

Definition nb_wf (b : nbs) : Prop :=
  NoDup (map fst (nb_names b))
  /\ (forall id k, ilookup id (nb_idx b) = Some k -> fst k = id /\ exists v, lookup k (nb_names b) = Some v)
  /\ (forall k v, lookup k (nb_names b) = Some v -> ilookup (fst k) (nb_idx b) = Some k /\ k = key_of (fst k) v).

Lemma nb_wf_empty : nb_wf nb_empty.
Proof. repeat split; simpl; try constructor; intros; discriminate. Qed.

Lemma nb_contains_get : forall b id, nb_wf b ->
  nb_contains b id = match nb_get b id with Some _ => true | None => false end.
Proof.
  intros b id [_ [W _]]. unfold nb_contains, nb_get.
  destruct (ilookup id (nb_idx b)) as [k|] eqn:E; [|reflexivity].
  destruct (W id k E) as [_ [v ->]]. reflexivity.
Qed.

Lemma nb_add_spec : forall b id v, nb_wf b -> nb_contains b id = false ->
  nb_wf (nb_add b id v)
  /\ forall id', nb_get (nb_add b id v) id' = if id' =? id then Some (crnorm v) else nb_get b id'.
Proof.
  intros b id v [W1 [W2 W3]] C. unfold nb_contains in C.
  destruct (ilookup id (nb_idx b)) as [k0|] eqn:E0; [discriminate|].
  set (v' := crnorm v). set (k := key_of id v').
  assert (Kf : fst k = id) by reflexivity.
  split; [split; [|split]|].
  - simpl. apply upsert_nodup. exact W1.
  - simpl. intros id' k'' H. destruct (N.eqb_spec id' id) as [->|NE].
    + rewrite ilookup_iupsert_same in H. inversion H; subst k''. split; [exact Kf|].
      exists v'. apply lookup_upsert_same.
    + rewrite ilookup_iupsert_other in H by exact NE. destruct (W2 id' k'' H) as [F [x Hx]].
      split; [exact F|]. exists x. rewrite lookup_upsert_other; [exact Hx|].
      intro Ek. subst k''. exact (NE (eq_trans (eq_sym F) Kf)).
  - simpl. intros k'' x H. destruct (nkey_eqb k'' k) eqn:Ek.
    + apply nkey_eqb_eq in Ek. subst k''. rewrite lookup_upsert_same in H. inversion H; subst x.
      rewrite Kf. split; [apply ilookup_iupsert_same|reflexivity].
    + apply nkey_eqb_neq in Ek. rewrite lookup_upsert_other in H by exact Ek.
      destruct (W3 k'' x H) as [F1 F2]. split; [|exact F2].
      rewrite ilookup_iupsert_other; [exact F1|]. intro Ei. rewrite Ei in F1. congruence.
  - intro id'. unfold nb_get. simpl. destruct (N.eqb_spec id' id) as [->|NE].
    + rewrite ilookup_iupsert_same. apply lookup_upsert_same.
    + rewrite ilookup_iupsert_other by exact NE.
      destruct (ilookup id' (nb_idx b)) as [k''|] eqn:E; [|reflexivity].
      apply lookup_upsert_other. intro Ek. subst k''. destruct (W2 id' k E) as [F _]. congruence.
Qed.

Lemma nb_remove_spec : forall b id, nb_wf b ->
  nb_wf (nb_remove b id)
  /\ forall id', nb_get (nb_remove b id) id' = if id' =? id then None else nb_get b id'.
Proof.
  intros b id W. pose proof W as [W1 [W2 W3]]. unfold nb_remove.
  destruct (ilookup id (nb_idx b)) as [k|] eqn:E0.
  - destruct (W2 id k E0) as [Kf _].
    split; [split; [|split]|].
    + simpl. apply filter_nodup_keys. exact W1.
    + simpl. intros id' k'' H. destruct (N.eqb_spec id' id) as [->|NE].
      * rewrite ilookup_iremove_same in H. discriminate.
      * rewrite ilookup_iremove_other in H by exact NE. destruct (W2 id' k'' H) as [F [x Hx]].
        split; [exact F|]. exists x. rewrite lookup_remove_other; [exact Hx|]. intro Ek. subst. congruence.
    + simpl. intros k'' x H. destruct (nkey_eqb k'' k) eqn:Ek.
      * apply nkey_eqb_eq in Ek. subst. rewrite lookup_remove_same in H. discriminate.
      * apply nkey_eqb_neq in Ek. rewrite lookup_remove_other in H by exact Ek.
        destruct (W3 k'' x H) as [F1 F2]. split; [|exact F2].
        rewrite ilookup_iremove_other; [exact F1|]. intro Ei. rewrite Ei in F1. congruence.
    + intro id'. unfold nb_get. simpl. destruct (N.eqb_spec id' id) as [->|NE].
      * rewrite ilookup_iremove_same. reflexivity.
      * rewrite ilookup_iremove_other by exact NE.
        destruct (ilookup id' (nb_idx b)) as [k''|] eqn:E; [|reflexivity].
        apply lookup_remove_other. intro Ek. subst. destruct (W2 id' k E) as [F _]. congruence.
  - split; [exact W|]. intro id'. destruct (N.eqb_spec id' id) as [->|NE]; [|reflexivity].
    unfold nb_get. rewrite E0. reflexivity.
Qed.

Lemma nb_add_absent_spec : forall b id v, nb_wf b ->
  nb_wf (nb_add_absent b id v)
  /\ forall id', nb_get (nb_add_absent b id v) id' =
       if id' =? id then Some (match nb_get b id with Some x => x | None => crnorm v end)
       else nb_get b id'.
Proof.
  intros b id v W. unfold nb_add_absent. pose proof (nb_contains_get b id W) as C.
  destruct (nb_contains b id) eqn:E.
  - split; [exact W|]. intro id'. destruct (N.eqb_spec id' id) as [->|NE]; [|reflexivity].
    destruct (nb_get b id); [reflexivity|discriminate].
  - destruct (nb_add_spec b id v W E) as [W' G]. split; [exact W'|]. intro id'. rewrite G.
    destruct (nb_get b id); [discriminate|reflexivity].
Qed.

Lemma nb_apply_fallback_eq : forall b id fb x, nb_get b fb = Some x ->
  nb_apply_fallback b id fb = nb_add_absent b id x.
Proof. intros b id fb x H. unfold nb_apply_fallback, nb_add_absent. rewrite H. reflexivity. Qed.

(* ------------------------------------------------------------------------- *)
(* build = the table                                                           *)

Lemma nb_build_state_spec : forall b major minor vendor, nb_wf b ->
  nb_wf (nb_build_state b major minor vendor)
  /\ forall id, nb_get (nb_build_state b major minor vendor) id = spec_pre (nb_get b) major minor vendor id.
Proof.
  intros b major minor vendor W0. unfold nb_build_state.
  set (g := nb_get b).
  (* legacy subfamily *)
  assert (S2 : (match g 2 with Some x => x | None => crnorm (fst (nb_sub_fallback b)) end) = sp_s2 g).
  { unfold sp_s2, sp_fb, nb_sub_fallback. fold g. destruct (g 2); [reflexivity|].
    destruct (is_ribbi (or_default (g 17) s_regular)); reflexivity. }
  assert (SF : (if nb_contains b 2 then None else snd (nb_sub_fallback b)) = sp_suffix g).
  { rewrite (nb_contains_get b 2 W0). unfold sp_suffix, sp_fb, nb_sub_fallback. fold g.
    destruct (g 2); [reflexivity|]. destruct (is_ribbi (or_default (g 17) s_regular)); reflexivity. }
  rewrite SF.
  destruct (nb_add_absent_spec b 2 (fst (nb_sub_fallback b)) W0) as [W1 G1].
  set (b1 := nb_add_absent b 2 (fst (nb_sub_fallback b))) in *. fold g in G1. rewrite S2 in G1.
  (* legacy family *)
  match goal with |- context [nb_add_absent b1 1 ?v] =>
    destruct (nb_add_absent_spec b1 1 v W1) as [W2 G2]; set (b2 := nb_add_absent b1 1 v) in * end.
  assert (S1 : forall id', nb_get b2 id' = if id' =? 1 then Some (sp_s1 g) else nb_get b1 id').
  { intro id'. rewrite G2. destruct (id' =? 1); [|reflexivity]. f_equal.
    rewrite !G1. simpl. unfold sp_s1. destruct (g 1); reflexivity. }
  clear G2.
  (* typographic family / subfamily *)
  assert (E21 : nb_get b2 1 = Some (sp_s1 g)) by (rewrite S1; reflexivity).
  rewrite (nb_apply_fallback_eq b2 16 1 _ E21).
  destruct (nb_add_absent_spec b2 16 (sp_s1 g) W2) as [W3 G3].
  set (b3 := nb_add_absent b2 16 (sp_s1 g)) in *.
  assert (S16 : forall id', nb_get b3 id' = if id' =? 16 then Some (sp_s16 g) else nb_get b2 id').
  { intro id'. rewrite G3. destruct (id' =? 16); [|reflexivity]. f_equal.
    rewrite S1, G1. simpl. reflexivity. }
  clear G3.
  assert (E32 : nb_get b3 2 = Some (sp_s2 g)) by (rewrite S16, S1, G1; reflexivity).
  rewrite (nb_apply_fallback_eq b3 17 2 _ E32).
  destruct (nb_add_absent_spec b3 17 (sp_s2 g) W3) as [W4 G4].
  set (b4 := nb_add_absent b3 17 (sp_s2 g)) in *.
  assert (S17 : forall id', nb_get b4 id' = if id' =? 17 then Some (sp_s17 g) else nb_get b3 id').
  { intro id'. rewrite G4. destruct (id' =? 17); [|reflexivity]. f_equal.
    rewrite S16, S1, G1. simpl. reflexivity. }
  clear G4.
  (* version *)
  destruct (nb_add_absent_spec b4 5 (version_string major minor) W4) as [W5 G5].
  set (b5 := nb_add_absent b4 5 (version_string major minor)) in *.
  assert (S5 : forall id', nb_get b5 id' = if id' =? 5 then Some (sp_s5 g major minor) else nb_get b4 id').
  { intro id'. rewrite G5. destruct (id' =? 5); [|reflexivity]. f_equal.
    rewrite S17, S16, S1, G1. simpl. reflexivity. }
  clear G5.
  (* full name *)
  assert (E516 : nb_get b5 16 = Some (sp_s16 g)) by (rewrite S5, S17, S16; reflexivity).
  assert (E517 : nb_get b5 17 = Some (sp_s17 g)) by (rewrite S5, S17; reflexivity).
  rewrite E516, E517. cbn [or_default].
  destruct (nb_add_absent_spec b5 4 (make_family_name (sp_s16 g) (sp_s17 g)) W5) as [W6 G6].
  set (b6 := nb_add_absent b5 4 (make_family_name (sp_s16 g) (sp_s17 g))) in *.
  assert (S4 : forall id', nb_get b6 id' = if id' =? 4 then Some (sp_s4 g) else nb_get b5 id').
  { intro id'. rewrite G6. destruct (id' =? 4); [|reflexivity]. f_equal.
    rewrite S5, S17, S16, S1, G1. simpl. reflexivity. }
  clear G6.
  (* PostScript name *)
  assert (E616 : nb_get b6 16 = Some (sp_s16 g)) by (rewrite S4; exact E516).
  assert (E617 : nb_get b6 17 = Some (sp_s17 g)) by (rewrite S4; exact E517).
  rewrite E616, E617. cbn [or_default].
  destruct (nb_add_absent_spec b6 6 (ps_from (sp_s16 g) (sp_s17 g)) W6) as [W7 G7].
  set (b7 := nb_add_absent b6 6 (ps_from (sp_s16 g) (sp_s17 g))) in *.
  assert (S6 : forall id', nb_get b7 id' = if id' =? 6 then Some (sp_s6 g) else nb_get b6 id').
  { intro id'. rewrite G7. destruct (id' =? 6); [|reflexivity]. f_equal.
    rewrite S4, S5, S17, S16, S1, G1. simpl. reflexivity. }
  clear G7.
  (* unique id *)
  assert (E75 : nb_get b7 5 = Some (sp_s5 g major minor)) by (rewrite S6, S4, S5; reflexivity).
  assert (E76 : nb_get b7 6 = Some (sp_s6 g)) by (rewrite S6; reflexivity).
  rewrite E75, E76. cbn [or_default].
  destruct (nb_add_absent_spec b7 3 (uid_from (sp_s5 g major minor) vendor (sp_s6 g)) W7) as [W8 G8].
  set (b8 := nb_add_absent b7 3 (uid_from (sp_s5 g major minor) vendor (sp_s6 g))) in *.
  assert (S3 : forall id', nb_get b8 id' = if id' =? 3 then Some (sp_s3 g major minor vendor) else nb_get b7 id').
  { intro id'. rewrite G8. destruct (id' =? 3); [|reflexivity]. f_equal.
    rewrite S6, S4, S5, S17, S16, S1, G1. simpl. reflexivity. }
  clear G8.
  (* the view before the typographic names are dropped *)
  assert (V : forall id, nb_get b8 id =
     if id =? 3 then Some (sp_s3 g major minor vendor) else if id =? 6 then Some (sp_s6 g)
     else if id =? 4 then Some (sp_s4 g) else if id =? 5 then Some (sp_s5 g major minor)
     else if id =? 17 then Some (sp_s17 g) else if id =? 16 then Some (sp_s16 g)
     else if id =? 1 then Some (sp_s1 g) else if id =? 2 then Some (sp_s2 g) else g id).
  { intro id. rewrite S3, S6, S4, S5, S17, S16, S1, G1. reflexivity. }
  rewrite (V 1), (V 2), (V 16), (V 17). cbn [N.eqb Pos.eqb str_opt_eqb].
  fold (sp_drop g).
  destruct (sp_drop g) eqn:D.
  - destruct (nb_remove_spec b8 16 W8) as [W9 G9].
    destruct (nb_remove_spec (nb_remove b8 16) 17 W9) as [W10 G10].
    split; [exact W10|]. intro id. rewrite G10, G9, V. unfold spec_pre. rewrite D.
    destruct (N.eqb_spec id 17) as [->|N17]; [reflexivity|].
    destruct (N.eqb_spec id 16) as [->|N16]; [reflexivity|].
    destruct (N.eqb_spec id 3) as [->|N3]; [reflexivity|].
    destruct (N.eqb_spec id 6) as [->|N6]; [reflexivity|].
    destruct (N.eqb_spec id 4) as [->|N4]; [reflexivity|].
    destruct (N.eqb_spec id 5) as [->|N5]; [reflexivity|].
    destruct (N.eqb_spec id 1) as [->|N1]; [reflexivity|].
    destruct (N.eqb_spec id 2) as [->|N2]; reflexivity.
  - split; [exact W8|]. intro id. rewrite V. unfold spec_pre. rewrite D.
    destruct (N.eqb_spec id 3) as [->|N3]; [reflexivity|].
    destruct (N.eqb_spec id 6) as [->|N6]; [reflexivity|].
    destruct (N.eqb_spec id 4) as [->|N4]; [reflexivity|].
    destruct (N.eqb_spec id 5) as [->|N5]; [reflexivity|].
    destruct (N.eqb_spec id 17) as [->|N17]; [reflexivity|].
    destruct (N.eqb_spec id 16) as [->|N16]; [reflexivity|].
    destruct (N.eqb_spec id 1) as [->|N1]; [reflexivity|].
    destruct (N.eqb_spec id 2) as [->|N2]; reflexivity.
Qed.

Lemma nb_wf_in : forall b k v, nb_wf b ->
  (In (k, v) (nb_names b) <-> nb_get b (fst k) = Some v /\ k = key_of (fst k) v).
Proof.
  intros b k v [W1 [W2 W3]]. split.
  - intro H. apply in_lookup in H; [|exact W1]. destruct (W3 k v H) as [F1 F2].
    split; [|exact F2]. unfold nb_get. rewrite F1. exact H.
  - intros [H E]. unfold nb_get in H. destruct (ilookup (fst k) (nb_idx b)) as [k'|] eqn:Ei; [|discriminate].
    destruct (W2 _ _ Ei) as [F _]. destruct (W3 k' v H) as [_ F2]. rewrite F in F2.
    rewrite <- E in F2. subst k'. apply lookup_in. exact H.
Qed.

Lemma nb_build_spec : forall b major minor vendor k v, nb_wf b ->
  (In (k, v) (nb_build b major minor vendor)
   <-> spec_name (nb_get b) major minor vendor (fst k) = Some v /\ k = key_of (fst k) v).
Proof.
  intros b major minor vendor k v W. destruct (nb_build_state_spec b major minor vendor W) as [WB G].
  unfold nb_build. rewrite filter_In. rewrite (nb_wf_in _ k v WB). rewrite G. unfold spec_name. simpl.
  split.
  - intros [[H E] NE]. rewrite H, NE. auto.
  - intros [H E]. destruct (spec_pre (nb_get b) major minor vendor (fst k)) as [x|]; [|discriminate].
    destruct (nonempty x) eqn:NE; [|discriminate]. inversion H; subst. auto.
Qed.

(* ------------------------------------------------------------------------- *)
(* the front end's adds                                                        *)

Definition supplied (adds : list (N * str)) (id : N) : option str :=
  match find (fun a => fst a =? id) adds with Some a => Some (crnorm (snd a)) | None => None end.

Lemma adds_spec : forall adds b,
  nb_wf b -> NoDup (map fst adds) -> (forall a, In a adds -> nb_get b (fst a) = None) ->
  nb_wf (fold_left (fun b a => nb_add b (fst a) (snd a)) adds b)
  /\ forall id, nb_get (fold_left (fun b a => nb_add b (fst a) (snd a)) adds b) id =
       match supplied adds id with Some v => Some v | None => nb_get b id end.
Proof.
  induction adds as [|a adds IH]; intros b W ND F; simpl.
  - split; [exact W|]. intro id. reflexivity.
  - inversion ND as [|? ? NI ND']; subst.
    assert (C : nb_contains b (fst a) = false).
    { rewrite (nb_contains_get b _ W), (F a (or_introl eq_refl)). reflexivity. }
    destruct (nb_add_spec b (fst a) (snd a) W C) as [W' G].
    destruct (IH (nb_add b (fst a) (snd a)) W' ND') as [W'' G''].
    { intros a' Ha'. rewrite G. destruct (N.eqb_spec (fst a') (fst a)) as [E|NE].
      - exfalso. apply NI. rewrite <- E. apply in_map. exact Ha'.
      - apply F. right. exact Ha'. }
    split; [exact W''|]. intro id. rewrite G''. unfold supplied. simpl.
    destruct (N.eqb_spec (fst a) id) as [E|NE].
    + subst id. destruct (find (fun a0 => fst a0 =? fst a) adds) as [a'|] eqn:Ef.
      * apply find_some in Ef as [H1 H2]. apply N.eqb_eq in H2. exfalso. apply NI. rewrite <- H2.
        apply in_map. exact H1.
      * rewrite G, N.eqb_refl. reflexivity.
    + destruct (find (fun a0 => fst a0 =? id) adds); [reflexivity|].
      rewrite G. destruct (N.eqb_spec id (fst a)); [congruence|reflexivity].
Qed.

Lemma spec_name_ext : forall g g' major minor vendor id,
  (forall i, g i = g' i) -> spec_name g major minor vendor id = spec_name g' major minor vendor id.
Proof.
  intros g g' major minor vendor id H.
  unfold spec_name, spec_pre, sp_drop, sp_s3, sp_s6, sp_s4, sp_s5, sp_s17, sp_s16, sp_s1, sp_suffix, sp_s2, sp_fb.
  rewrite !H. reflexivity.
Qed.

Lemma nb_run_spec : forall adds major minor vendor k v,
  NoDup (map fst adds) ->
  (In (k, v) (nb_run adds major minor vendor)
   <-> spec_name (supplied adds) major minor vendor (fst k) = Some v /\ k = key_of (fst k) v).
Proof.
  intros adds major minor vendor k v ND. unfold nb_run.
  destruct (adds_spec adds nb_empty nb_wf_empty ND) as [W G]; [intros; reflexivity|].
  rewrite (nb_build_spec _ major minor vendor k v W).
  rewrite (spec_name_ext _ (supplied adds) major minor vendor (fst k)); [reflexivity|].
  intro i. rewrite G. destruct (supplied adds i); reflexivity.
Qed.

(* ------------------------------------------------------------------------- *)
(* the table NameBuilder produces is a legal input of the registration theorems *)

Lemma nb_run_nodup : forall adds major minor vendor,
  NoDup (map fst adds) -> NoDup (map fst (nb_run adds major minor vendor)).
Proof.
  intros adds major minor vendor ND. unfold nb_run, nb_build.
  destruct (adds_spec adds nb_empty nb_wf_empty ND) as [W _]; [intros; reflexivity|].
  destruct (nb_build_state_spec _ major minor vendor W) as [[WB _] _].
  apply filter_nodup_keys. exact WB.
Qed.

Lemma nb_run_nonempty : forall adds major minor vendor,
  Forall (fun e => snd e <> []) (nb_run adds major minor vendor).
Proof.
  intros. unfold nb_run, nb_build. rewrite Forall_forall. intros e H. apply filter_In in H as [_ H].
  destruct e as [k v]. cbn [snd] in *. intro C. subst v. discriminate.
Qed.
