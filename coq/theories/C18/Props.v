(* C18 — Names referenced from other tables exist and say what the source says.
   Property theorems only; proofs are in Proofs.v, ProofsFea.v, ProofsNb.v.

   Reading guide.  `nm` is the name map the front end hands to StaticMetadata::new
   (a HashMap, modelled as a list in iteration order).  `alloc nm axes insts` is
   the content of `reusable_names` after registration, `extend nm rp` the final
   `names` when reusable_names is iterated in order `rp`.  `reusable_name_id` is
   what fvar.rs / stat.rs use to pick the id for a string (None = the unwrap()
   panics).  `NoDup (map fst nm)`: nm is a map (one record per key).

   State after the repairs of name-alloc-hash-order, fvar-instance-reserved-id,
   source-name-id-collision, stat-elided-id-shifted and fea-size-name-wrong: the
   refutation theorems of those classes are gone, their statements now hold
   without the side conditions they needed.  The harness reports each class
   again under its key should it return. *)
From Coq Require Import List NArith ZArith Bool Permutation Lia.
From FV.C18 Require Import Model Proofs ProofsFea ProofsNb.
Import ListNotations.
Open Scope N_scope.

(* ------------------------------------------------------------------------- *)
(* 1. fvar / STAT ids exist, are allowed where they are used, and carry the source string *)

(* For EVERY source name map (any ids, including ids above 255), every axis list,
   every instance list and EVERY iteration order of reusable_names: the id fvar
   and STAT pick for an axis label exists, is >= 256 and its record is the label;
   the subfamily id of every kept instance exists, its record is the instance
   name, and it is >= 256 or, at the default instance only, 2 or 17; PostScript
   name ids exist, are >= 256 and carry the PostScript name.  No unwrap() in
   fvar.rs / stat.rs can fail. *)
Theorem used_ids_exist : forall nm axes insts rp,
  NoDup (map fst nm) -> Permutation rp (alloc nm axes insts) ->
  let fin := extend nm rp in
  (forall a, In a (variable_axes axes) ->
     exists id enc, reusable_name_id fin (a_label a) false = Some id
                    /\ 256 <= id /\ In ((id, enc), a_label a) fin)
  /\ (forall i, In i (kept_instances axes insts) ->
     exists id enc, reusable_name_id fin (i_name i) (is_default axes i) = Some id
                    /\ In ((id, enc), i_name i) fin
                    /\ instance_id_allowed (is_default axes i) id)
  /\ (forall i p, In i (kept_instances axes insts) -> i_ps i = Some p ->
     exists id enc, reusable_name_id fin p false = Some id
                    /\ 256 <= id /\ In ((id, enc), p) fin).
Proof. exact Proofs.used_ids_exist. Qed.
Print Assumptions used_ids_exist.

Definition ex_nm : names := [((1, 1), [70;97;109]); ((2, 1), [82;101;103;117;108;97;114])].
Definition ex_axes : list axis := [{| a_label := [87]; a_min := 400; a_def := 400; a_max := 700 |}].
Definition ex_insts : list inst :=
  [{| i_name := [82;101;103;117;108;97;114]; i_ps := None; i_loc := [400%Z] |};
   {| i_name := [66]; i_ps := Some [70;45;66]; i_loc := [700%Z] |}].
Example used_ids_exist_nonvacuous :
  NoDup (map fst ex_nm)
  /\ fvar_axis_ids (extend ex_nm (alloc ex_nm ex_axes ex_insts)) ex_axes = [Some 256]
  /\ fvar_inst_ids (extend ex_nm (alloc ex_nm ex_axes ex_insts)) ex_axes ex_insts
     = [(Some 2, Some (Some NO_PS)); (Some 257, Some (Some 258))].
Proof. split; [repeat constructor; simpl; intuition discriminate|split; reflexivity]. Qed.

(* the former failing inputs, now on the right side of the theorem: a default
   instance named like the family gets an id >= 256; a source record 256 keeps its
   id and the axis label gets 257 *)
Example former_refutations_now_hold :
  fvar_inst_ids (extend [((1, 1), [70]); ((2, 1), [82])]
                   (alloc [((1, 1), [70]); ((2, 1), [82])] ex_axes [{| i_name := [70]; i_ps := None; i_loc := [400%Z] |}]))
     ex_axes [{| i_name := [70]; i_ps := None; i_loc := [400%Z] |}] = [(Some 257, None)]
  /\ let nm := [((1, 1), [70]); ((2, 1), [82]); ((256, 1), [83])] in
     lookup (256, 1) (extend nm (alloc nm ex_axes [])) = Some [83]
     /\ fvar_axis_ids (extend nm (alloc nm ex_axes [])) ex_axes = [Some 257].
Proof. repeat split; reflexivity. Qed.

(* two source records above 255 that share a string, the largest id among them
   (reusable_names, keyed by the string, keeps only one of the two keys): numbering
   still starts after the largest SOURCE id, in both iteration orders *)
Example shared_string_above_255_keeps_both_records :
  let nm := [((1, 1), [70]); ((2, 1), [82]); ((256, 1), [65]); ((257, 1), [65])] in
  let nm' := [((257, 1), [65]); ((1, 1), [70]); ((256, 1), [65]); ((2, 1), [82])] in
  let insts := [{| i_name := [66]; i_ps := None; i_loc := [700%Z] |}] in
  same_names (extend nm (alloc nm ex_axes insts))
    [((1, 1), [70]); ((2, 1), [82]); ((256, 1), [65]); ((257, 1), [65]); ((258, 1), [87]); ((259, 1), [66])] = true
  /\ same_names (extend nm' (alloc nm' ex_axes insts)) (extend nm (alloc nm ex_axes insts)) = true
  /\ length (reusable0 nm) = 1%nat.
Proof. repeat split; reflexivity. Qed.

(* Ids below 256 are used only where the specification allows — unconditionally:
   whatever id reusable_name_id returns for an instance is >= 256, or 2 / 17 and
   then the instance is the default one; for axes and PostScript names it is >= 256. *)
Theorem instance_ids_allowed : forall nm s allow id,
  reusable_name_id nm s allow = Some id ->
  instance_id_allowed allow id /\ (allow = false -> 256 <= id).
Proof.
  intros nm s allow id H. destruct (rni_in _ _ _ _ H) as [_ A]. split.
  - apply id_allowed_spec. exact A.
  - intros ->. apply id_allowed_false. exact A.
Qed.
Print Assumptions instance_ids_allowed.

(* No source record is lost or changed by registration, whatever ids the source
   uses (UFO openTypeNameRecords can supply ids above 255), and the final table
   has one record per key — for every iteration order. *)
Theorem source_records_kept : forall nm axes insts rp,
  NoDup (map fst nm) -> Permutation rp (alloc nm axes insts) ->
  (forall k s, In (k, s) nm -> In (k, s) (extend nm rp))
  /\ NoDup (map fst (extend nm rp)).
Proof.
  intros nm axes insts rp ND P. split.
  - intros k s H. apply (Proofs.source_records_kept nm axes insts rp k s ND P H).
  - apply (final_keys_nodup nm axes insts rp ND P).
Qed.
Print Assumptions source_records_kept.

(* Every record of the final IR table is non-empty when the source strings, the
   labels and the instance names are. *)
Theorem final_records_nonempty : forall nm axes insts rp,
  NoDup (map fst nm) -> Permutation rp (alloc nm axes insts) ->
  Forall (fun e => snd e <> []) nm ->
  Forall (fun s => s <> []) (map fst (alloc nm axes insts)) ->
  Forall (fun e => snd e <> []) (extend nm rp).
Proof. exact Proofs.final_records_nonempty. Qed.
Print Assumptions final_records_nonempty.

(* The only strings in reusable_names are source strings, axis labels, instance
   names and instance PostScript names. *)
Theorem registered_strings_are_source : forall nm axes insts s,
  In s (map fst (alloc nm axes insts)) ->
  (exists k, In (k, s) nm)
  \/ (exists a, In a (variable_axes axes) /\ a_label a = s)
  \/ (exists i, In i (kept_instances axes insts) /\ (i_name i = s \/ i_ps i = Some s)).
Proof. exact Proofs.registered_strings_are_source. Qed.
Print Assumptions registered_strings_are_source.

(* ------------------------------------------------------------------------- *)
(* 2. the result depends on nothing but the source                             *)

(* For every iteration order of the source map and every iteration order of
   reusable_names — no side condition on coinciding strings or on the ids the
   source uses — the newly registered entries are the same list, the final table
   is the same set of records, and the ids fvar / STAT derive from it are the same. *)
Theorem names_depend_only_on_source : forall nm nm' axes insts rp rp',
  Permutation nm nm' -> NoDup (map fst nm) ->
  Permutation rp (alloc nm axes insts) -> Permutation rp' (alloc nm' axes insts) ->
  filter (newb nm') (alloc nm' axes insts) = filter (newb nm) (alloc nm axes insts)
  /\ Permutation (extend nm' rp') (extend nm rp)
  /\ forall s allow, reusable_name_id (extend nm' rp') s allow = reusable_name_id (extend nm rp) s allow.
Proof.
  intros nm nm' axes insts rp rp' P ND Hp Hp'.
  split; [apply alloc_new_perm; exact P|].
  pose proof (extend_perm_invariant nm nm' axes insts rp rp' P ND Hp Hp') as E.
  split; [exact E|]. intros s allow. apply rni_perm. exact E.
Qed.
Print Assumptions names_depend_only_on_source.

(* the input of DESIGN 6.3 (family, style and default instance all "R"): both
   iteration orders now register the same entries *)
Example names_depend_only_on_source_nonvacuous :
  let nm := [((1, 1), [82]); ((2, 1), [82])] in
  let nm' := [((2, 1), [82]); ((1, 1), [82])] in
  let insts := [{| i_name := [82]; i_ps := None; i_loc := [400%Z] |}; {| i_name := [66]; i_ps := None; i_loc := [700%Z] |}] in
  Permutation nm nm' /\ NoDup (map fst nm)
  /\ alloc nm ex_axes insts = alloc nm' ex_axes insts
  /\ alloc nm ex_axes insts = [([87], (256, 1)); ([66], (257, 1))].
Proof.
  split; [apply perm_swap|]. split; [repeat constructor; simpl; intuition discriminate|]. split; reflexivity.
Qed.

(* ------------------------------------------------------------------------- *)
(* 3. names supplied through feature code                                      *)

(* fea-rs gives every anonymous name group (featureNames, cvParameters labels,
   sizemenuname, STAT names) that has a non-empty string a fresh id, in order,
   and the records under that id are exactly the group's non-empty strings —
   for every program, from every builder state whose records respect `f_last`. *)
Theorem fea_ids_say_source : forall prog b0 r0 b r,
  fnb_inv b0 -> Forall group_ok prog -> f_last b0 + N.of_nat (length prog) <= LAST_ALLOWED ->
  fea_alloc (b0, r0) prog = Some (b, r) ->
  let ids := map (fun n => f_last b0 + 1 + N.of_nat n) (seq 0 (length prog)) in
  r_all r = r_all r0 ++ ids
  /\ Forall2 (fun g id => specs_under b id = ne_specs (snd g)) prog ids
  /\ (forall id, id <= f_last b0 -> specs_under b id = specs_under b0 id)
  /\ f_last b = f_last b0 + N.of_nat (length prog)
  /\ fnb_inv b.
Proof. exact ProofsFea.fea_alloc_anon. Qed.
Print Assumptions fea_ids_say_source.

Definition ex_prog : list (gkind * list nspec) :=
  [(GAdj, [((3, 1, 1033), [65])]); (GSize, [((3, 1, 1033), [84]); ((1, 0, 0), [77])])].
Example fea_ids_say_source_nonvacuous :
  fnb_inv fnb_empty /\ Forall group_ok ex_prog
  /\ option_map (fun st => r_all (snd st)) (fea_alloc (fnb_empty, refs_empty) ex_prog) = Some [256; 257].
Proof.
  split; [constructor|]. split; [|reflexivity].
  repeat constructor; simpl; discriminate.
Qed.

(* REFUTED without the non-empty hypothesis: a group whose strings are all
   empty gets an id that is handed out again, so two features share one id and
   the first shows the second's name.  (Real code: known finding fea-name-id-shared.) *)
Theorem fea_empty_group_refuted : exists prog b r,
  fea_alloc (fnb_empty, refs_empty) prog = Some (b, r)
  /\ r_adj r = [256; 256] /\ specs_under b 256 = [((3, 1, 1033), [83])].
Proof.
  exists [(GAdj, [((3, 1, 1033), [])]); (GAdj, [((3, 1, 1033), [83])])].
  eexists. eexists. split; [reflexivity|]. split; reflexivity.
Qed.
Print Assumptions fea_empty_group_refuted.

(* After remap_name_ids and merge_name_records: every FEA record is in the final
   table under its adjusted id (FEA wins on reserved ids, as documented), no IR
   record with id >= 256 (axis / instance names) is touched, and EVERY reference —
   stylistic-set / character-variant / STAT ids, the size feature's name entry and
   the STAT elided fallback id — is moved by the same adjust_id as the records, so
   reserved ids stay put and the others follow their records. *)
Theorem fea_names_survive_merge : forall fin recs r,
  255 < max_name_id fin ->
  let off := max_name_id fin - 255 in
  NoDup (map fst recs) ->
  (forall e, In e recs -> movable off (fid e)) ->
  let recs' := fst (remap (max_name_id fin + 1) recs r) in
  let r' := snd (remap (max_name_id fin + 1) recs r) in
  let out := merge_records fin (Some recs') in
  (forall p e l id s, In ((p, e, l, id), s) recs -> In ((p, e, l, adjust_id off id), s) out)
  /\ (forall k s, In (k, s) fin -> 256 <= fst k -> In ((3, snd k, 0x409, fst k), s) out)
  /\ r_adj r' = map (adjust_id off) (r_adj r)
  /\ r_size r' = map (adjust_id off) (r_size r)
  /\ r_elided r' = option_map (adjust_id off) (r_elided r).
Proof. exact ProofsFea.remap_merge_sound. Qed.
Print Assumptions fea_names_survive_merge.

Definition ex_fin : names := [((1, 1), [70]); ((256, 1), [87]); ((257, 1), [66])].
Example fea_names_survive_merge_nonvacuous :
  255 < max_name_id ex_fin
  /\ NoDup (map fst [((3, 1, 1033, 256), [65]); ((3, 1, 1033, 9), [68])])
  /\ (forall e, In e [((3, 1, 1033, 256), [65]); ((3, 1, 1033, 9), [68])] -> movable (max_name_id ex_fin - 255) (fid e)).
Proof.
  split; [reflexivity|]. split.
  - repeat constructor; simpl; intuition discriminate.
  - intros e [<-|[<-|[]]]; unfold movable, fid, LAST_ALLOWED; cbn [fst snd]; vm_compute; [right|left]; try split; discriminate.
Qed.

(* ... and this holds for EVERY feature record, not the first of each tag: a record
   holds a clone of its tag's name ids (at positions `pos` of the reference list), so
   after remap_name_ids each id the record holds is the adjusted id, under which
   (previous theorem) the merged table has exactly the FEA's records.  A second
   `ss01` record (script-specific rules, or the tag in GSUB and GPOS) therefore
   refers to the same moved name as the first. *)
Theorem every_feature_record_follows_its_names : forall fin recs r pos (sz : bool),
  255 < max_name_id fin ->
  let off := max_name_id fin - 255 in
  let r' := snd (remap (max_name_id fin + 1) recs r) in
  record_ids (if sz then r_size r' else r_adj r') pos
  = map (adjust_id off) (record_ids (if sz then r_size r else r_adj r) pos).
Proof.
  intros fin recs r pos sz HM off r'. subst r'. rewrite remap_shape by lia.
  replace (max_name_id fin + 1 - 256) with off by (subst off; lia).
  cbn [snd r_adj r_size]. destruct sz; apply record_ids_remap.
Qed.
Print Assumptions every_feature_record_follows_its_names.

Example every_feature_record_nonvacuous :
  255 < max_name_id ex_fin
  /\ records_agree (snd (remap (max_name_id ex_fin + 1) [] {| r_adj := [256; 257]; r_size := [258]; r_elided := None; r_all := [] |}))
       [(false, [0%nat], [258]); (false, [0%nat], [258]); (false, [1%nat], [259]); (true, [0%nat], [260])] = true.
Proof. split; reflexivity. Qed.

(* A static font (no IR name above 255): FEA ids and references are left alone. *)
Theorem static_font_refs_intact : forall fin b r,
  max_name_id fin = 255 -> fea_remapped fin b r = (fnb_build b, r).
Proof. exact ProofsFea.static_no_remap. Qed.
Print Assumptions static_font_refs_intact.

(* the former failing inputs: the size name entry and a reserved elided fallback id *)
Example size_and_elided_follow_their_records :
  (let prog := [(GSize, [((3, 1, 1033), [84])])] in
   match fea_alloc (fnb_empty, refs_empty) prog with
   | Some (b, r) =>
       r_size (snd (fea_remapped ex_fin b r)) = [258]
       /\ strings_of_id (final_names ex_fin (fst (fea_remapped ex_fin b r)) None) 258 = [[84]]
   | None => False
   end)
  /\ (let prog := [(GExplicit 8, [((3, 1, 1033), [82])]); (GElidedId 8, []); (GAdj, [((3, 1, 1033), [87])])] in
      match fea_alloc (fnb_empty, refs_empty) prog with
      | Some (b, r) => r_elided (snd (fea_remapped ex_fin b r)) = Some 8
      | None => False
      end).
Proof. split; [split; reflexivity|reflexivity]. Qed.

(* An ElidedFallbackNameID the feature file's own name table does not declare makes
   fea-rs panic (fea_alloc = None).  Known finding fea-stat-elided-id-panic. *)
Example elided_id_not_in_fea_names_panics :
  fea_alloc (fnb_empty, refs_empty) [(GElidedId 2, []); (GAdj, [((3, 1, 1033), [87])])] = None.
Proof. reflexivity. Qed.

(* ------------------------------------------------------------------------- *)
(* 4. family / style / version / unique id follow the documented fallbacks      *)

(* For every sequence of `add` calls that names each id at most once, every
   version and vendor: the table NameBuilder::build produces (two hash maps,
   nine sequential fallback steps, removal, retain) is exactly the decision
   table `spec_name` applied to what the source supplied; each record's key
   has the encoding its string requires.  spec_name reads: legacy subfamily =
   supplied, else the typographic subfamily when RIBBI, else "Regular"; legacy
   family = supplied, else typographic family (default "New Font") plus the
   non-RIBBI style; typographic names default to the legacy ones and are
   dropped when equal to them; version = supplied else "Version M.mmm"; full
   name = family + style words; PostScript name = family without spaces, "-",
   style, restricted to printable ASCII minus "[](){}<>/%"; unique id =
   version;vendor;PostScript name; empty strings are not emitted. *)
Theorem fallback_chain_table : forall adds major minor vendor k v,
  NoDup (map fst adds) ->
  (In (k, v) (nb_run adds major minor vendor)
   <-> spec_name (supplied adds) major minor vendor (fst k) = Some v /\ k = key_of (fst k) v).
Proof. exact ProofsNb.nb_run_spec. Qed.
Print Assumptions fallback_chain_table.

(* Glue: the table NameBuilder produces from a source that names each id once is
   a legal input of the registration theorems above (one record per key, no empty
   record), so for such a source every id fvar / STAT use exists, is allowed where
   it is used and carries the source string — from fontinfo fields to fvar, for
   every HashMap iteration order, whatever ids the source uses. *)
Theorem source_to_fvar_ids_exist : forall adds major minor vendor axes insts rp,
  NoDup (map fst adds) ->
  let nm := nb_run adds major minor vendor in
  Permutation rp (alloc nm axes insts) ->
  let fin := extend nm rp in
  Forall (fun e => snd e <> []) nm
  /\ (forall a, In a (variable_axes axes) ->
     exists id enc, reusable_name_id fin (a_label a) false = Some id
                    /\ 256 <= id /\ In ((id, enc), a_label a) fin)
  /\ (forall i, In i (kept_instances axes insts) ->
     exists id enc, reusable_name_id fin (i_name i) (is_default axes i) = Some id
                    /\ In ((id, enc), i_name i) fin
                    /\ instance_id_allowed (is_default axes i) id)
  /\ (forall i p, In i (kept_instances axes insts) -> i_ps i = Some p ->
     exists id enc, reusable_name_id fin p false = Some id
                    /\ 256 <= id /\ In ((id, enc), p) fin).
Proof.
  intros adds major minor vendor axes insts rp ND nm P fin.
  split; [apply nb_run_nonempty|].
  apply Proofs.used_ids_exist; [apply nb_run_nodup; exact ND|exact P].
Qed.
Print Assumptions source_to_fvar_ids_exist.

(* typographic family "Fam", typographic subfamily "Light", nothing else *)
Example fallback_chain_nonvacuous :
  let adds := [(16, [70;97;109]); (17, [76;105;103;104;116])] in
  NoDup (map fst adds)
  /\ spec_name (supplied adds) 1 5 [78;79;78;69] 1 = Some [70;97;109;32;76;105;103;104;116]
  /\ spec_name (supplied adds) 1 5 [78;79;78;69] 2 = Some s_regular
  /\ spec_name (supplied adds) 1 5 [78;79;78;69] 3
     = Some [49;46;48;48;53;59;78;79;78;69;59;70;97;109;45;76;105;103;104;116]
  /\ same_names (nb_run adds 1 5 [78;79;78;69])
       [((1, 1), [70;97;109;32;76;105;103;104;116]); ((2, 1), s_regular);
        ((3, 1), [49;46;48;48;53;59;78;79;78;69;59;70;97;109;45;76;105;103;104;116]);
        ((4, 1), [70;97;109;32;76;105;103;104;116]);
        ((5, 1), [86;101;114;115;105;111;110;32;49;46;48;48;53]);
        ((6, 1), [70;97;109;45;76;105;103;104;116]);
        ((16, 1), [70;97;109]); ((17, 1), [76;105;103;104;116])] = true.
Proof.
  split; [repeat constructor; simpl; intuition discriminate|]. repeat split; reflexivity.
Qed.

(* Outside the hypothesis: the same id added twice with strings that need
   different encodings leaves the first record behind (stale key in `names`).
   (Real code: UFO openTypeNameRecords can do this, known finding namebuilder-stale-record.) *)
Example duplicate_id_leaves_stale_record :
  let out := nb_run [(1, [65]); (1, [66; 0x1D400])] 0 0 [78] in
  lookup (1, 1) out = Some [65] /\ lookup (1, 10) out = Some [66; 0x1D400].
Proof. split; reflexivity. Qed.
