(* C18 — lemmas about the model in Model.v. *)
From Coq Require Import List NArith ZArith Bool Permutation Lia.
From Coq Require Import ZifyBool ZifyN ZifyNat.
From FV.C18 Require Import Model.
Import ListNotations.
Open Scope N_scope.

(* ------------------------------------------------------------------------- *)
(* equality tests                                                              *)

Lemma str_eqb_eq : forall a b, str_eqb a b = true <-> a = b.
Proof.
  induction a as [|x a IH]; intros [|y b]; simpl; split; intro H; try reflexivity; try discriminate.
  - apply andb_true_iff in H as [H1 H2]. apply N.eqb_eq in H1. apply IH in H2. congruence.
  - inversion H; subst. rewrite N.eqb_refl. simpl. apply IH. reflexivity.
Qed.

Lemma str_eqb_refl : forall a, str_eqb a a = true.
Proof. intro a. apply str_eqb_eq. reflexivity. Qed.

Lemma str_eqb_neq : forall a b, str_eqb a b = false <-> a <> b.
Proof.
  intros a b. split.
  - intros H E. apply str_eqb_eq in E. congruence.
  - intro H. destruct (str_eqb a b) eqn:E; [apply str_eqb_eq in E; contradiction|reflexivity].
Qed.

Lemma nkey_eqb_eq : forall a b, nkey_eqb a b = true <-> a = b.
Proof.
  intros [a1 a2] [b1 b2]. unfold nkey_eqb. simpl. rewrite andb_true_iff, !N.eqb_eq.
  split; [intros [-> ->]; reflexivity|intro H; inversion H; auto].
Qed.

Lemma nkey_eqb_neq : forall a b, nkey_eqb a b = false <-> a <> b.
Proof.
  intros a b. split.
  - intros H E. apply nkey_eqb_eq in E. congruence.
  - intro H. destruct (nkey_eqb a b) eqn:E; [apply nkey_eqb_eq in E; contradiction|reflexivity].
Qed.

(* ------------------------------------------------------------------------- *)
(* upsert / extend                                                             *)

Lemma upsert_fresh : forall k v m, ~ In k (map fst m) -> upsert k v m = m ++ [(k, v)].
Proof.
  induction m as [|[k' v'] m IH]; simpl; intro H; [reflexivity|].
  destruct (nkey_eqb k' k) eqn:E.
  - apply nkey_eqb_eq in E. subst. exfalso. apply H. left. reflexivity.
  - f_equal. apply IH. intro H1. apply H. right. exact H1.
Qed.

Definition swap (e : str * nkey) : nkey * str := (snd e, fst e).

Lemma extend_fresh : forall rp nm,
  NoDup (map snd rp) ->
  (forall e, In e rp -> ~ In (snd e) (map fst nm)) ->
  extend nm rp = nm ++ map swap rp.
Proof.
  unfold extend.
  induction rp as [|[s k] rp IH]; intros nm ND F; simpl.
  - rewrite app_nil_r. reflexivity.
  - simpl in ND. inversion ND as [|? ? Hk ND']; subst.
    rewrite upsert_fresh by (apply (F (s, k)); left; reflexivity).
    rewrite IH.
    + rewrite <- app_assoc. reflexivity.
    + exact ND'.
    + intros e He. rewrite map_app. simpl. intro H. apply in_app_or in H as [H|[H|[]]].
      * apply (F e); [right; exact He|exact H].
      * apply Hk. rewrite H. apply in_map. exact He.
Qed.

Lemma NoDup_app_single : forall {A} (l : list A) x, NoDup l -> ~ In x l -> NoDup (l ++ [x]).
Proof.
  intros A l x. induction l as [|y l IH]; simpl; intros ND NI.
  - constructor; [intros []|constructor].
  - inversion ND; subst. constructor.
    + intro H. apply in_app_or in H as [H|[H|[]]]; [contradiction|]. apply NI. left. symmetry. exact H.
    + apply IH; [assumption|]. intro H. apply NI. right. exact H.
Qed.

Lemma upsert_same : forall k v m, NoDup (map fst m) -> In (k, v) m -> upsert k v m = m.
Proof.
  induction m as [|[k' v'] m IH]; simpl; intros ND H; [contradiction|].
  inversion ND as [|? ? NI ND']; subst. destruct (nkey_eqb k' k) eqn:E.
  - apply nkey_eqb_eq in E. subst k'. destruct H as [H|H]; [inversion H; reflexivity|].
    exfalso. apply NI. apply in_map_iff. exists (k, v). auto.
  - destruct H as [H|H]; [inversion H; subst; rewrite (proj2 (nkey_eqb_eq k k) eq_refl) in E; discriminate|].
    f_equal. apply IH; assumption.
Qed.

(* entries classified by `isnew`: old ones are already in the table, new ones have
   fresh, pairwise distinct keys *)
Lemma extend_general : forall (isnew : str * nkey -> bool) rp l,
  NoDup (map fst l) ->
  (forall e, In e rp -> isnew e = false -> In (swap e) l) ->
  (forall e, In e rp -> isnew e = true -> ~ In (snd e) (map fst l)) ->
  NoDup (map snd (filter isnew rp)) ->
  extend l rp = l ++ map swap (filter isnew rp).
Proof.
  unfold extend. intros isnew.
  induction rp as [|[s k] rp IH]; intros l ND A B C; simpl.
  - rewrite app_nil_r. reflexivity.
  - destruct (isnew (s, k)) eqn:E.
    + simpl in C. rewrite E in C. simpl in C. inversion C as [|? ? Ck C']; subst.
      rewrite upsert_fresh by (apply (B (s, k)); [left; reflexivity|exact E]).
      rewrite IH.
      * simpl. rewrite <- app_assoc. reflexivity.
      * rewrite map_app. simpl. apply NoDup_app_single; [exact ND|].
        apply (B (s, k)); [left; reflexivity|exact E].
      * intros e He Ee. apply in_or_app. left. apply A; [right; exact He|exact Ee].
      * intros e He Ee H. rewrite map_app in H. simpl in H. apply in_app_or in H as [H|[H|[]]].
        -- apply (B e); [right; exact He|exact Ee|exact H].
        -- apply Ck. rewrite H. apply in_map. apply filter_In. split; assumption.
      * exact C'.
    + simpl in C. rewrite E in C.
      assert (Hin : In (k, s) l) by (apply (A (s, k)); [left; reflexivity|exact E]).
      rewrite (upsert_same k s l ND Hin). apply IH; auto.
      * intros e He. apply A. right. exact He.
      * intros e He. apply B. right. exact He.
Qed.

(* ------------------------------------------------------------------------- *)
(* the largest source id                                                       *)

Lemma max_fold_ge : forall (nm : names) acc,
  acc <= fold_left (fun m (e : nkey * str) => N.max m (fst (fst e))) nm acc.
Proof.
  induction nm as [|e nm IH]; intro acc; cbn [fold_left]; [lia|].
  eapply N.le_trans; [|apply IH]. lia.
Qed.

Lemma max_fold_in : forall (nm : names) acc k s, In (k, s) nm ->
  fst k <= fold_left (fun m (e : nkey * str) => N.max m (fst (fst e))) nm acc.
Proof.
  induction nm as [|e nm IH]; intros acc k s H; [contradiction|]. cbn [fold_left].
  destruct H as [H|H].
  - subst e. cbn [fst]. eapply N.le_trans; [|apply max_fold_ge]. lia.
  - apply IH with s. exact H.
Qed.

Lemma max_name_id_ge : forall nm k s, In (k, s) nm -> fst k <= max_name_id nm.
Proof. intros nm k s H. unfold max_name_id. apply max_fold_in with s. exact H. Qed.

Lemma max_name_id_255 : forall nm, 255 <= max_name_id nm.
Proof. intro nm. unfold max_name_id. apply max_fold_ge. Qed.

Lemma max_name_id_perm : forall nm nm', Permutation nm nm' -> max_name_id nm = max_name_id nm'.
Proof.
  unfold max_name_id. intros nm nm' P. generalize 255.
  induction P; intro a; cbn [fold_left].
  - reflexivity.
  - apply IHP.
  - f_equal. lia.
  - rewrite IHP1. apply IHP2.
Qed.

(* ------------------------------------------------------------------------- *)
(* reusable_names before registration                                          *)

Lemma rmap_mem_true : forall s m, rmap_mem s m = true <-> In s (map fst m).
Proof.
  intros s m. unfold rmap_mem. rewrite existsb_exists. split.
  - intros [e [He E]]. apply str_eqb_eq in E. subst. apply in_map. exact He.
  - intro H. apply in_map_iff in H as [e [E He]]. exists e. split; [exact He|]. subst. apply str_eqb_refl.
Qed.

Lemma rmap_upsert_in : forall s k m e, In e (rmap_upsert s k m) -> e = (s, k) \/ In e m.
Proof.
  induction m as [|[s' k'] m IH]; simpl; intros e H.
  - destruct H as [H|[]]. left. auto.
  - destruct (str_eqb s' s).
    + destruct H as [H|H]; [left; auto|right; right; exact H].
    + destruct H as [H|H]; [right; left; exact H|]. apply IH in H as [H|H]; auto.
Qed.

Lemma rmap_upsert_strs : forall s k m s', In s' (map fst (rmap_upsert s k m)) <-> s' = s \/ In s' (map fst m).
Proof.
  induction m as [|[s0 k0] m IH]; simpl; intro s'.
  - split; [intros [H|[]]; left; auto|intros [H|[]]; left; auto].
  - destruct (str_eqb s0 s) eqn:E; simpl.
    + apply str_eqb_eq in E. subst. split; [intros [H|H]; auto|intros [H|[H|H]]; auto].
    + rewrite IH. split; [intros [H|[H|H]]; auto|intros [H|[H|H]]; auto].
Qed.

Lemma rmap_upsert_nodup : forall s k m, NoDup (map fst m) -> NoDup (map fst (rmap_upsert s k m)).
Proof.
  induction m as [|[s0 k0] m IH]; simpl; intro ND.
  - constructor; [intros []|constructor].
  - inversion ND as [|? ? NI ND']; subst. destruct (str_eqb s0 s) eqn:E; simpl.
    + apply str_eqb_eq in E. subst. constructor; assumption.
    + constructor; [|apply IH; exact ND'].
      intro H. apply rmap_upsert_strs in H as [H|H]; [|contradiction].
      subst. rewrite str_eqb_refl in E. discriminate.
Qed.

Lemma rmap_mem_upsert : forall s k m s', rmap_mem s' (rmap_upsert s k m) = str_eqb s s' || rmap_mem s' m.
Proof.
  intros s k m s'. destruct (rmap_mem s' (rmap_upsert s k m)) eqn:E.
  - apply rmap_mem_true in E. apply rmap_upsert_strs in E as [E|E].
    + subst. rewrite str_eqb_refl. reflexivity.
    + apply rmap_mem_true in E. rewrite E. symmetry. apply orb_true_r.
  - symmetry. apply orb_false_iff. split.
    + apply str_eqb_neq. intro H. subst.
      assert (T : rmap_mem s' (rmap_upsert s' k m) = true) by (apply rmap_mem_true, rmap_upsert_strs; left; reflexivity).
      congruence.
    + destruct (rmap_mem s' m) eqn:M; [|reflexivity]. apply rmap_mem_true in M.
      assert (T : rmap_mem s' (rmap_upsert s k m) = true) by (apply rmap_mem_true, rmap_upsert_strs; right; exact M).
      congruence.
Qed.

Definition r0_step (m : rmap) (e : nkey * str) : rmap :=
  if 255 <? fst (fst e) then rmap_upsert (snd e) (fst e) m else m.

Lemma reusable0_fold : forall nm, reusable0 nm = fold_left r0_step nm [].
Proof. reflexivity. Qed.

Lemma r0_fold_in : forall nm acc s k,
  In (s, k) (fold_left r0_step nm acc) -> In (s, k) acc \/ (In (k, s) nm /\ 255 < fst k).
Proof.
  induction nm as [|e nm IH]; simpl; intros acc s k H; [auto|].
  apply IH in H as [H|[H1 H2]]; [|right; split; [right; exact H1|exact H2]].
  unfold r0_step in H. destruct (N.ltb_spec 255 (fst (fst e))); [|auto].
  apply rmap_upsert_in in H as [H|H]; [|auto]. inversion H; subst. right. split; [left; destruct e; reflexivity|assumption].
Qed.

Lemma r0_fold_nodup : forall nm acc, NoDup (map fst acc) -> NoDup (map fst (fold_left r0_step nm acc)).
Proof.
  induction nm as [|e nm IH]; simpl; intros acc H; [exact H|]. apply IH.
  unfold r0_step. destruct (255 <? fst (fst e)); [apply rmap_upsert_nodup|]; exact H.
Qed.

Lemma r0_fold_mem : forall nm acc s,
  rmap_mem s (fold_left r0_step nm acc)
  = rmap_mem s acc || existsb (fun e : nkey * str => (255 <? fst (fst e)) && str_eqb (snd e) s) nm.
Proof.
  induction nm as [|e nm IH]; simpl; intros acc s; [rewrite orb_false_r; reflexivity|].
  rewrite IH. unfold r0_step. destruct (255 <? fst (fst e)); simpl.
  - rewrite rmap_mem_upsert. rewrite (orb_comm (str_eqb (snd e) s)), orb_assoc. reflexivity.
  - reflexivity.
Qed.

Lemma reusable0_in : forall nm s k, In (s, k) (reusable0 nm) -> In (k, s) nm /\ 255 < fst k.
Proof. intros nm s k H. rewrite reusable0_fold in H. apply r0_fold_in in H as [[]|H]. exact H. Qed.

Lemma reusable0_nodup : forall nm, NoDup (map fst (reusable0 nm)).
Proof. intro nm. rewrite reusable0_fold. apply r0_fold_nodup. constructor. Qed.

Lemma existsb_perm : forall {A} (f : A -> bool) l l', Permutation l l' -> existsb f l = existsb f l'.
Proof.
  intros A f l l' P. induction P; simpl.
  - reflexivity.
  - rewrite IHP. reflexivity.
  - rewrite !orb_assoc, (orb_comm (f y)). reflexivity.
  - congruence.
Qed.

Lemma reusable0_mem_perm : forall nm nm' s, Permutation nm nm' ->
  rmap_mem s (reusable0 nm) = rmap_mem s (reusable0 nm').
Proof.
  intros nm nm' s P. rewrite !reusable0_fold, !r0_fold_mem. f_equal. apply existsb_perm. exact P.
Qed.

(* ------------------------------------------------------------------------- *)
(* registration invariant                                                      *)

(* reusable_names = the source's entries followed by the registered ones, whose ids
   are g0+1, g0+2, ... in insertion order (g0 = largest source id); strings distinct *)
Definition reg_inv (nm : names) (st : N * rmap) : Prop :=
  let '(gen, m) := st in
  exists m1, m = reusable0 nm ++ m1
    /\ gen = max_name_id nm + N.of_nat (length m1)
    /\ (forall n e, nth_error m1 n = Some e -> snd e = key_of (max_name_id nm + 1 + N.of_nat n) (fst e))
    /\ NoDup (map fst m).

Lemma reg_inv_init : forall nm, reg_inv nm (max_name_id nm, reusable0 nm).
Proof.
  intro nm. exists []. rewrite app_nil_r. split; [reflexivity|]. split; [simpl; lia|]. split.
  - intros n e H. destruct n; discriminate.
  - apply reusable0_nodup.
Qed.

Lemma register_inv : forall nm st s, reg_inv nm st -> reg_inv nm (register st s).
Proof.
  intros nm [gen m] s [m1 [Hm [Hg [Hk Hn]]]]. unfold register.
  destruct (rmap_mem s m) eqn:E; [exists m1; auto|].
  exists (m1 ++ [(s, key_of (gen + 1) s)]). split; [rewrite Hm, app_assoc; reflexivity|].
  rewrite app_length. cbn [length]. split; [lia|]. split.
  - intros n e H. destruct (Nat.lt_ge_cases n (length m1)) as [L|L].
    + rewrite nth_error_app1 in H by exact L. apply Hk. exact H.
    + rewrite nth_error_app2 in H by exact L.
      destruct (n - length m1)%nat eqn:D; simpl in H.
      * inversion H; subst e. cbn [fst snd]. f_equal. lia.
      * destruct n0; discriminate.
  - rewrite map_app. simpl. apply NoDup_app_single.
    + exact Hn.
    + intro H. apply rmap_mem_true in H. congruence.
Qed.

Lemma register_mono : forall st s e, In e (snd st) -> In e (snd (register st s)).
Proof.
  intros [gen m] s e H. unfold register. destruct (rmap_mem s m); simpl in *; [exact H|].
  apply in_or_app. left. exact H.
Qed.

Lemma register_has : forall st s, In s (map fst (snd (register st s))).
Proof.
  intros [gen m] s. unfold register. destruct (rmap_mem s m) eqn:E; simpl.
  - apply rmap_mem_true. exact E.
  - rewrite map_app. apply in_or_app. right. left. reflexivity.
Qed.

Lemma register_mono_str : forall st s s', In s' (map fst (snd st)) -> In s' (map fst (snd (register st s))).
Proof.
  intros st s s' H. apply in_map_iff in H as [e [E He]]. subst.
  apply in_map. apply register_mono. exact He.
Qed.

Lemma fold_register_inv : forall nm l st, reg_inv nm st -> reg_inv nm (fold_left register l st).
Proof. intros nm. induction l as [|s l IH]; simpl; intros st H; [exact H|]. apply IH. apply register_inv. exact H. Qed.

Lemma fold_register_mono : forall l st e, In e (snd st) -> In e (snd (fold_left register l st)).
Proof. induction l as [|s l IH]; simpl; intros st e H; [exact H|]. apply IH. apply register_mono. exact H. Qed.

Lemma fold_register_has : forall l st s, In s l -> In s (map fst (snd (fold_left register l st))).
Proof.
  induction l as [|x l IH]; simpl; intros st s H; [contradiction|]. destruct H as [->|H].
  - pose proof (register_has st s) as R. apply in_map_iff in R as [e [E He]]. subst.
    apply in_map. apply fold_register_mono. exact He.
  - apply IH. exact H.
Qed.

Lemma reg_inst_inv : forall nm0 nm axes st i, reg_inv nm0 st -> reg_inv nm0 (reg_inst nm axes st i).
Proof.
  intros nm0 nm axes st i H. unfold reg_inst.
  destruct (is_default axes i && reuses_subfamily nm (i_name i)); destruct (i_ps i);
    repeat apply register_inv; exact H.
Qed.

Lemma reg_inst_mono : forall nm axes st i e, In e (snd st) -> In e (snd (reg_inst nm axes st i)).
Proof.
  intros nm axes st i e H. unfold reg_inst.
  destruct (is_default axes i && reuses_subfamily nm (i_name i)); destruct (i_ps i);
    repeat apply register_mono; exact H.
Qed.

Lemma in_fst_mono : forall (P : N * rmap -> N * rmap) st s,
  (forall e, In e (snd st) -> In e (snd (P st))) ->
  In s (map fst (snd st)) -> In s (map fst (snd (P st))).
Proof.
  intros P st s M H. apply in_map_iff in H as [e [E He]]. subst. apply in_map. apply M. exact He.
Qed.

Lemma reg_inst_has_ps : forall nm axes st i p, i_ps i = Some p -> In p (map fst (snd (reg_inst nm axes st i))).
Proof. intros nm axes st i p H. unfold reg_inst. rewrite H. apply register_has. Qed.

Lemma reg_inst_has_name : forall nm axes st i,
  is_default axes i && reuses_subfamily nm (i_name i) = false ->
  In (i_name i) (map fst (snd (reg_inst nm axes st i))).
Proof.
  intros nm axes st i H. unfold reg_inst. rewrite H. destruct (i_ps i).
  - apply register_mono_str. apply register_has.
  - apply register_has.
Qed.

Lemma fold_reg_inst_inv : forall nm0 nm axes l st, reg_inv nm0 st -> reg_inv nm0 (fold_left (reg_inst nm axes) l st).
Proof. intros nm0 nm axes. induction l as [|i l IH]; simpl; intros st H; [exact H|]. apply IH. apply reg_inst_inv. exact H. Qed.

Lemma fold_reg_inst_mono : forall nm axes l st e, In e (snd st) -> In e (snd (fold_left (reg_inst nm axes) l st)).
Proof. induction l as [|i l IH]; simpl; intros st e H; [exact H|]. apply IH. apply reg_inst_mono. exact H. Qed.

Lemma fold_reg_inst_mono_str : forall nm axes l st s,
  In s (map fst (snd st)) -> In s (map fst (snd (fold_left (reg_inst nm axes) l st))).
Proof.
  intros nm axes l st s H. apply in_map_iff in H as [e [E He]]. subst. apply in_map.
  apply fold_reg_inst_mono. exact He.
Qed.

Lemma fold_reg_inst_has_ps : forall nm axes l st i p,
  In i l -> i_ps i = Some p -> In p (map fst (snd (fold_left (reg_inst nm axes) l st))).
Proof.
  induction l as [|x l IH]; simpl; intros st i p H Hp; [contradiction|]. destruct H as [->|H].
  - apply fold_reg_inst_mono_str. apply reg_inst_has_ps. exact Hp.
  - apply IH with i; assumption.
Qed.

Lemma fold_reg_inst_has_name : forall nm axes l st i,
  In i l -> is_default axes i && reuses_subfamily nm (i_name i) = false ->
  In (i_name i) (map fst (snd (fold_left (reg_inst nm axes) l st))).
Proof.
  induction l as [|x l IH]; simpl; intros st i H Hd; [contradiction|]. destruct H as [->|H].
  - apply fold_reg_inst_mono_str. apply reg_inst_has_name. exact Hd.
  - apply IH; assumption.
Qed.

(* ------------------------------------------------------------------------- *)
(* the final table                                                             *)

Lemma filter_perm : forall {A} (f : A -> bool) l l', Permutation l l' -> Permutation (filter f l) (filter f l').
Proof.
  intros A f l l' P. induction P; simpl.
  - constructor.
  - destruct (f x); [constructor|]; assumption.
  - destruct (f x), (f y); try constructor; try apply Permutation_refl. 
  - eapply Permutation_trans; eassumption.
Qed.

Definition alloc_state (nm : names) (axes : list axis) (insts : list inst) : N * rmap :=
  fold_left (reg_inst nm axes) (kept_instances axes insts)
    (fold_left register (map a_label (variable_axes axes)) (max_name_id nm, reusable0 nm)).

Lemma alloc_is_state : forall nm axes insts, alloc nm axes insts = snd (alloc_state nm axes insts).
Proof. reflexivity. Qed.

Lemma alloc_inv : forall nm axes insts, reg_inv nm (alloc_state nm axes insts).
Proof.
  intros nm axes insts. unfold alloc_state.
  apply fold_reg_inst_inv. apply fold_register_inv. apply reg_inv_init.
Qed.

(* an entry is new when its id lies above every source id *)
Definition newb (nm : names) (e : str * nkey) : bool := max_name_id nm <? fst (snd e).

Lemma filter_all_false : forall {A} (f : A -> bool) l, (forall x, In x l -> f x = false) -> filter f l = [].
Proof.
  induction l as [|x l IH]; simpl; intro H; [reflexivity|].
  rewrite (H x (or_introl eq_refl)). apply IH. intros y Hy. apply H. right. exact Hy.
Qed.

Lemma filter_all_true : forall {A} (f : A -> bool) l, (forall x, In x l -> f x = true) -> filter f l = l.
Proof.
  induction l as [|x l IH]; simpl; intro H; [reflexivity|].
  rewrite (H x (or_introl eq_refl)). f_equal. apply IH. intros y Hy. apply H. right. exact Hy.
Qed.

(* alloc = source entries ++ registered entries, with everything the proofs need *)
Lemma alloc_split : forall nm axes insts,
  exists m1, alloc nm axes insts = reusable0 nm ++ m1
    /\ filter (newb nm) (alloc nm axes insts) = m1
    /\ NoDup (map snd m1)
    /\ NoDup (map fst (alloc nm axes insts))
    /\ (forall s k, In (s, k) m1 -> exists id, k = key_of id s /\ max_name_id nm < id).
Proof.
  intros nm axes insts. pose proof (alloc_inv nm axes insts) as I. rewrite alloc_is_state.
  destruct (alloc_state nm axes insts) as [gen m]. destruct I as [m1 [Hm [Hg [Hk Hn]]]]. simpl.
  assert (Hnew : forall s k, In (s, k) m1 -> exists id, k = key_of id s /\ max_name_id nm < id).
  { intros s k H. apply In_nth_error in H as [n Hn']. exists (max_name_id nm + 1 + N.of_nat n).
    split; [apply (Hk n (s, k) Hn')|lia]. }
  exists m1. split; [exact Hm|]. split; [|split; [|split; [exact Hn|exact Hnew]]].
  - rewrite Hm, filter_app. rewrite filter_all_false, filter_all_true; [reflexivity| |].
    + intros [s k] H. destruct (Hnew s k H) as [id [-> Hid]]. unfold newb, key_of. cbn [fst snd].
      apply N.ltb_lt. exact Hid.
    + intros [s k] H. apply reusable0_in in H as [H _]. apply max_name_id_ge in H.
      unfold newb. cbn [fst snd]. apply N.ltb_ge. exact H.
  - apply NoDup_nth_error. intros i j Hi E. rewrite map_length in Hi. rewrite !nth_error_map in E.
    destruct (nth_error m1 i) as [ei|] eqn:Ei; [|apply nth_error_None in Ei; lia].
    destruct (nth_error m1 j) as [ej|] eqn:Ej; [|discriminate].
    simpl in E. inversion E as [E']. rewrite (Hk i ei Ei), (Hk j ej Ej) in E'.
    unfold key_of in E'. apply (f_equal fst) in E'. cbn [fst] in E'. lia.
Qed.

(* the final table is the source table followed by the newly registered names, whatever
   order reusable_names is iterated in: no source record is touched *)
Lemma final_form : forall nm axes insts rp,
  NoDup (map fst nm) -> Permutation rp (alloc nm axes insts) ->
  extend nm rp = nm ++ map swap (filter (newb nm) rp).
Proof.
  intros nm axes insts rp ND P.
  destruct (alloc_split nm axes insts) as [m1 [Ha [Hf [Hk [_ Hnew]]]]].
  apply extend_general.
  - exact ND.
  - intros [s k] He E. apply (Permutation_in _ P) in He. rewrite Ha in He.
    apply in_app_or in He as [He|He].
    + apply reusable0_in in He as [He _]. exact He.
    + destruct (Hnew s k He) as [id [-> Hid]]. unfold newb, key_of in E. cbn [fst snd] in E.
      apply N.ltb_ge in E. lia.
  - intros [s k] He E H. unfold newb in E. cbn [fst snd] in *. apply N.ltb_lt in E.
    apply in_map_iff in H as [[k' v] [Ek Hk']]. cbn [fst] in Ek. subst k'.
    apply max_name_id_ge in Hk'. lia.
  - apply Permutation_NoDup with (map snd m1); [|exact Hk].
    apply Permutation_map. rewrite <- Hf. apply filter_perm. apply Permutation_sym. exact P.
Qed.

Lemma nodup_app : forall {A} (l l' : list A),
  NoDup l -> NoDup l' -> (forall x, In x l -> ~ In x l') -> NoDup (l ++ l').
Proof.
  induction l as [|x l IH]; simpl; intros l' N1 N2 D; [exact N2|].
  inversion N1; subst. constructor.
  - intro H. apply in_app_or in H as [H|H]; [contradiction|]. apply (D x); auto.
  - apply IH; [assumption|assumption|]. intros y Hy. apply D. right. exact Hy.
Qed.

(* one record per key in the final table *)
Lemma final_keys_nodup : forall nm axes insts rp,
  NoDup (map fst nm) -> Permutation rp (alloc nm axes insts) ->
  NoDup (map fst (extend nm rp)).
Proof.
  intros nm axes insts rp ND P. rewrite (final_form nm axes insts rp ND P).
  destruct (alloc_split nm axes insts) as [m1 [_ [Hf [Hk _]]]].
  rewrite map_app, map_map. apply nodup_app.
  - exact ND.
  - change (fun x : str * nkey => fst (swap x)) with (fun x : str * nkey => snd x).
    apply Permutation_NoDup with (map snd m1); [|exact Hk].
    apply Permutation_map. rewrite <- Hf. apply filter_perm. apply Permutation_sym. exact P.
  - intros k Hk1 Hk2. apply in_map_iff in Hk1 as [[k' v] [E H1]]. cbn [fst] in E. subst k'.
    apply in_map_iff in Hk2 as [[s k'] [E H2]]. unfold swap in E. cbn [fst snd] in E. subst k'.
    apply filter_In in H2 as [_ H2]. unfold newb in H2. cbn [fst snd] in H2. apply N.ltb_lt in H2.
    apply max_name_id_ge in H1. lia.
Qed.

(* ------------------------------------------------------------------------- *)
(* reverse_names / reusable_name_id                                            *)

Lemma in_ids_of : forall nm s id, In id (ids_of nm s) <-> exists enc, In ((id, enc), s) nm.
Proof.
  intros nm s id. unfold ids_of. rewrite in_map_iff. split.
  - intros [[[i enc] v] [E H]]. simpl in E. subst. apply filter_In in H as [H E]. simpl in E.
    apply str_eqb_eq in E. subst. exists enc. exact H.
  - intros [enc H]. exists ((id, enc), s). split; [reflexivity|]. apply filter_In. split; [exact H|].
    simpl. apply str_eqb_refl.
Qed.

Lemma min_list_spec : forall l m, min_list l = Some m -> In m l /\ Forall (fun x => m <= x) l.
Proof.
  induction l as [|x l IH]; simpl; intros m H; [discriminate|].
  destruct (min_list l) as [m'|] eqn:E.
  - inversion H; subst. destruct (IH m' eq_refl) as [I F]. split.
    + destruct (N.min_spec x m') as [[_ ->]|[_ ->]]; [left; reflexivity|right; exact I].
    + constructor; [lia|]. eapply Forall_impl; [|exact F]. simpl. intros a Ha. lia.
  - inversion H; subst. destruct l; [|simpl in E; destruct (min_list l); discriminate].
    split; [left; reflexivity|]. constructor; [lia|constructor].
Qed.

Lemma min_list_some : forall l x, In x l -> exists m, min_list l = Some m.
Proof.
  intros [|y l] x H; [contradiction|]. simpl. destruct (min_list l); eexists; reflexivity.
Qed.

Lemma min_list_perm : forall l l', Permutation l l' -> min_list l = min_list l'.
Proof.
  intros l l' P. destruct (min_list l) as [m|] eqn:E; destruct (min_list l') as [m'|] eqn:E'.
  - apply min_list_spec in E as [I F]. apply min_list_spec in E' as [I' F'].
    rewrite Forall_forall in F, F'. f_equal. apply N.le_antisymm.
    + apply F. apply Permutation_in with l'; [apply Permutation_sym; exact P|exact I'].
    + apply F'. apply Permutation_in with l; assumption.
  - apply min_list_spec in E as [I _]. apply (Permutation_in _ P) in I.
    destruct (min_list_some _ _ I) as [x Hx]. congruence.
  - apply min_list_spec in E' as [I _]. apply (Permutation_in _ (Permutation_sym P)) in I.
    destruct (min_list_some _ _ I) as [x Hx]. congruence.
  - reflexivity.
Qed.



Lemma rni_in : forall nm s allow m,
  reusable_name_id nm s allow = Some m -> In m (ids_of nm s) /\ id_allowed allow m = true.
Proof.
  intros nm s allow m H. unfold reusable_name_id in H. apply min_list_spec in H as [H _].
  apply filter_In in H. exact H.
Qed.

Lemma rni_some : forall nm s allow id,
  In id (ids_of nm s) -> id_allowed allow id = true ->
  exists m, reusable_name_id nm s allow = Some m /\ m <= id.
Proof.
  intros nm s allow id H A. unfold reusable_name_id.
  assert (I : In id (filter (id_allowed allow) (ids_of nm s))) by (apply filter_In; split; assumption).
  destruct (min_list_some _ _ I) as [m E]. exists m. split; [exact E|].
  apply min_list_spec in E as [_ F]. rewrite Forall_forall in F. apply F. exact I.
Qed.

Lemma rni_perm : forall nm nm' s allow, Permutation nm nm' ->
  reusable_name_id nm s allow = reusable_name_id nm' s allow.
Proof.
  intros nm nm' s allow P. unfold reusable_name_id, ids_of. apply min_list_perm.
  apply filter_perm. apply Permutation_map. apply filter_perm. exact P.
Qed.

(* fvar InstanceRecord.subfamilyNameID: 2 or 17 only for the default instance, else >= 256 *)
Definition instance_id_allowed (dflt : bool) (id : N) : Prop :=
  256 <= id \/ (dflt = true /\ (id = 2 \/ id = 17)).

Lemma id_allowed_spec : forall allow id, id_allowed allow id = true -> instance_id_allowed allow id.
Proof.
  intros allow id H. unfold id_allowed in H. apply orb_true_iff in H as [H|H].
  - left. apply N.leb_le. exact H.
  - apply andb_true_iff in H as [H1 H2]. right. split; [exact H1|].
    apply orb_true_iff in H2 as [H2|H2]; apply N.eqb_eq in H2; auto.
Qed.

Lemma id_allowed_false : forall id, id_allowed false id = true -> 256 <= id.
Proof.
  intros id H. unfold id_allowed in H. simpl in H. rewrite orb_false_r in H. apply N.leb_le. exact H.
Qed.

Lemma id_allowed_ge : forall allow id, 256 <= id -> id_allowed allow id = true.
Proof. intros allow id H. unfold id_allowed. apply orb_true_iff. left. apply N.leb_le. exact H. Qed.

(* ------------------------------------------------------------------------- *)
(* every id fvar / STAT use exists and carries the source string               *)

Lemma label_registered : forall nm axes insts a,
  In a (variable_axes axes) -> In (a_label a) (map fst (alloc nm axes insts)).
Proof.
  intros nm axes insts a H. rewrite alloc_is_state. unfold alloc_state.
  apply fold_reg_inst_mono_str. apply fold_register_has. apply in_map. exact H.
Qed.

Lemma ps_registered : forall nm axes insts i p,
  In i (kept_instances axes insts) -> i_ps i = Some p -> In p (map fst (alloc nm axes insts)).
Proof.
  intros nm axes insts i p H Hp. rewrite alloc_is_state. unfold alloc_state.
  apply fold_reg_inst_has_ps with i; assumption.
Qed.

Lemma name_registered : forall nm axes insts i,
  In i (kept_instances axes insts) ->
  is_default axes i && reuses_subfamily nm (i_name i) = false ->
  In (i_name i) (map fst (alloc nm axes insts)).
Proof.
  intros nm axes insts i H Hd. rewrite alloc_is_state. unfold alloc_state.
  apply fold_reg_inst_has_name; assumption.
Qed.

(* a registered string has a record with an id >= 256 in the final table *)
Lemma registered_has_record : forall nm axes insts rp s,
  NoDup (map fst nm) -> Permutation rp (alloc nm axes insts) ->
  In s (map fst (alloc nm axes insts)) ->
  exists id enc, 256 <= id /\ In ((id, enc), s) (extend nm rp).
Proof.
  intros nm axes insts rp s ND P H. rewrite (final_form nm axes insts rp ND P).
  destruct (alloc_split nm axes insts) as [m1 [Ha [Hf [_ [_ Hnew]]]]].
  apply in_map_iff in H as [[s' k] [E He]]. simpl in E. subst s'.
  pose proof He as He0. rewrite Ha in He. apply in_app_or in He as [He|He].
  - apply reusable0_in in He as [He Hk]. destruct k as [id enc]. exists id, enc. cbn [fst] in Hk.
    split; [lia|]. apply in_or_app. left. exact He.
  - destruct (Hnew s k He) as [id [-> Hid]]. exists id, (encoding_for s).
    pose proof (max_name_id_255 nm). split; [lia|]. apply in_or_app. right.
    apply in_map_iff. exists (s, key_of id s). split; [reflexivity|]. apply filter_In. split.
    + apply Permutation_in with (alloc nm axes insts); [apply Permutation_sym; exact P|exact He0].
    + unfold newb, key_of. cbn [fst snd]. apply N.ltb_lt. exact Hid.
Qed.

Lemma registered_usable : forall nm axes insts rp s allow,
  NoDup (map fst nm) -> Permutation rp (alloc nm axes insts) ->
  In s (map fst (alloc nm axes insts)) ->
  exists m enc, reusable_name_id (extend nm rp) s allow = Some m
                /\ In ((m, enc), s) (extend nm rp)
                /\ id_allowed allow m = true.
Proof.
  intros nm axes insts rp s allow ND P H.
  destruct (registered_has_record nm axes insts rp s ND P H) as [id [enc [Hid Hin]]].
  assert (Hid' : In id (ids_of (extend nm rp) s)) by (apply in_ids_of; eexists; exact Hin).
  destruct (rni_some _ s allow id Hid' (id_allowed_ge allow id Hid)) as [m [Hm _]].
  destruct (rni_in _ _ _ _ Hm) as [Hm1 Hm2]. apply in_ids_of in Hm1 as [enc' Hm1].
  exists m, enc'. auto.
Qed.

Lemma reuse_usable : forall nm rp0 s,
  reuses_subfamily nm s = true ->
  exists m enc, reusable_name_id (nm ++ rp0) s true = Some m /\ In ((m, enc), s) (nm ++ rp0)
                /\ id_allowed true m = true.
Proof.
  intros nm rp0 s H. unfold reuses_subfamily in H. apply existsb_exists in H as [[[id en] v] [F1 F2]].
  cbn [fst snd] in F2. apply andb_true_iff in F2 as [F2 F3]. apply str_eqb_eq in F2. subst v.
  assert (Hid : In id (ids_of (nm ++ rp0) s)).
  { apply in_ids_of. exists en. apply in_or_app. left. exact F1. }
  assert (A : id_allowed true id = true) by (unfold id_allowed; rewrite F3; apply orb_true_r).
  destruct (rni_some _ s true id Hid A) as [m [Hm _]].
  destruct (rni_in _ _ _ _ Hm) as [Hm1 Hm2]. apply in_ids_of in Hm1 as [enc Hm1].
  exists m, enc. auto.
Qed.

Lemma used_ids_exist : forall nm axes insts rp,
  NoDup (map fst nm) -> Permutation rp (alloc nm axes insts) ->
  let fin := extend nm rp in
  (forall a, In a (variable_axes axes) ->
     exists id enc, reusable_name_id fin (a_label a) false = Some id
                    /\ 256 <= id /\ In ((id, enc), a_label a) fin)
  /\ (forall i, In i (kept_instances axes insts) ->
     exists id enc, reusable_name_id fin (i_name i) (is_default axes i) = Some id
                    /\ In ((id, enc), i_name i) fin
                    /\ instance_id_allowed (is_default axes i) id)
  /\ (forall i p, In i (kept_instances axes insts) -> i_ps i = Some p ->
     exists id enc, reusable_name_id fin p false = Some id
                    /\ 256 <= id /\ In ((id, enc), p) fin).
Proof.
  intros nm axes insts rp ND P fin. subst fin. repeat split.
  - intros a Ha.
    destruct (registered_usable nm axes insts rp (a_label a) false ND P (label_registered nm axes insts a Ha))
      as [m [enc [H1 [H2 H3]]]].
    exists m, enc. repeat split; auto. apply id_allowed_false. exact H3.
  - intros i Hi.
    destruct (is_default axes i && reuses_subfamily nm (i_name i)) eqn:D.
    + apply andb_true_iff in D as [D1 D2]. rewrite D1.
      rewrite (final_form nm axes insts rp ND P).
      destruct (reuse_usable nm (map swap (filter (newb nm) rp)) (i_name i) D2) as [m [enc [H1 [H2 H3]]]].
      exists m, enc. repeat split; auto. apply id_allowed_spec. exact H3.
    + destruct (registered_usable nm axes insts rp (i_name i) (is_default axes i) ND P
                  (name_registered nm axes insts i Hi D)) as [m [enc [H1 [H2 H3]]]].
      exists m, enc. repeat split; auto. apply id_allowed_spec. exact H3.
  - intros i p Hi Hp.
    destruct (registered_usable nm axes insts rp p false ND P (ps_registered nm axes insts i p Hi Hp))
      as [m [enc [H1 [H2 H3]]]].
    exists m, enc. repeat split; auto. apply id_allowed_false. exact H3.
Qed.

(* no source record is lost or changed, whatever ids the source uses *)
Lemma source_records_kept : forall nm axes insts rp k s,
  NoDup (map fst nm) -> Permutation rp (alloc nm axes insts) ->
  In (k, s) nm -> In (k, s) (extend nm rp).
Proof.
  intros nm axes insts rp k s ND P H. rewrite (final_form nm axes insts rp ND P).
  apply in_or_app. left. exact H.
Qed.

(* every record of the final table is non-empty when the source strings are *)
Lemma final_records_nonempty : forall nm axes insts rp,
  NoDup (map fst nm) -> Permutation rp (alloc nm axes insts) ->
  Forall (fun e => snd e <> []) nm ->
  Forall (fun s => s <> []) (map fst (alloc nm axes insts)) ->
  Forall (fun e => snd e <> []) (extend nm rp).
Proof.
  intros nm axes insts rp ND P Hn Hr. rewrite (final_form nm axes insts rp ND P).
  apply Forall_app. split; [exact Hn|].
  rewrite Forall_forall in *. intros e He. apply in_map_iff in He as [[s k] [E He]]. subst e. simpl.
  apply filter_In in He as [He _].
  apply Hr. apply in_map_iff. exists (s, k). split; [reflexivity|].
  apply Permutation_in with rp; assumption.
Qed.

(* only source strings, labels, instance names and instance PostScript names are in reusable_names *)
Lemma register_only : forall st s e, In e (snd (register st s)) -> In e (snd st) \/ fst e = s.
Proof.
  intros [gen m] s e. unfold register. destruct (rmap_mem s m); simpl; [auto|].
  intro H. apply in_app_or in H as [H|[H|[]]]; [auto|]. subst. right. reflexivity.
Qed.

Lemma fold_register_only : forall l st e,
  In e (snd (fold_left register l st)) -> In e (snd st) \/ In (fst e) l.
Proof.
  induction l as [|s l IH]; simpl; intros st e H; [auto|].
  apply IH in H as [H|H]; [|auto]. apply register_only in H as [H|H]; auto.
Qed.

Lemma reg_inst_only : forall nm axes st i e,
  In e (snd (reg_inst nm axes st i)) -> In e (snd st) \/ fst e = i_name i \/ i_ps i = Some (fst e).
Proof.
  intros nm axes st i e. unfold reg_inst.
  destruct (is_default axes i && reuses_subfamily nm (i_name i)); destruct (i_ps i) as [p|]; intro H.
  - apply register_only in H as [H|H]; [auto|]. right. right. subst. reflexivity.
  - auto.
  - apply register_only in H as [H|H].
    + apply register_only in H as [H|H]; auto.
    + right. right. subst. reflexivity.
  - apply register_only in H as [H|H]; auto.
Qed.

Lemma fold_reg_inst_only : forall nm axes l st e,
  In e (snd (fold_left (reg_inst nm axes) l st)) ->
  In e (snd st) \/ exists i, In i l /\ (fst e = i_name i \/ i_ps i = Some (fst e)).
Proof.
  induction l as [|i l IH]; simpl; intros st e H; [auto|].
  apply IH in H as [H|[i' [H1 H2]]].
  - apply reg_inst_only in H as [H|H]; [auto|]. right. exists i. split; [left; reflexivity|exact H].
  - right. exists i'. split; [right; exact H1|exact H2].
Qed.

Lemma registered_strings_are_source : forall nm axes insts s,
  In s (map fst (alloc nm axes insts)) ->
  (exists k, In (k, s) nm)
  \/ (exists a, In a (variable_axes axes) /\ a_label a = s)
  \/ (exists i, In i (kept_instances axes insts) /\ (i_name i = s \/ i_ps i = Some s)).
Proof.
  intros nm axes insts s H. apply in_map_iff in H as [e [E He]]. subst s.
  rewrite alloc_is_state in He. unfold alloc_state in He.
  apply fold_reg_inst_only in He as [He|[i [H1 H2]]].
  - apply fold_register_only in He as [He|He].
    + left. destruct e as [s k]. apply reusable0_in in He as [He _]. exists k. exact He.
    + right. left. apply in_map_iff in He as [a [E Ha]]. exists a. auto.
  - right. right. exists i. split; [exact H1|]. destruct H2 as [H2|H2]; [left; symmetry; exact H2|right; exact H2].
Qed.

(* ------------------------------------------------------------------------- *)
(* independence of HashMap iteration order                                     *)

Lemma reuses_perm : forall nm nm' s, Permutation nm nm' -> reuses_subfamily nm' s = reuses_subfamily nm s.
Proof. intros nm nm' s P. unfold reuses_subfamily. symmetry. apply existsb_perm. exact P. Qed.

(* two registration states that differ only in which source entries they started from *)
Definition sim (base base' : rmap) (st st' : N * rmap) : Prop :=
  fst st = fst st' /\ exists new, snd st = base ++ new /\ snd st' = base' ++ new.

Lemma rmap_mem_app : forall s m m', rmap_mem s (m ++ m') = rmap_mem s m || rmap_mem s m'.
Proof. intros. unfold rmap_mem. apply existsb_app. Qed.

Lemma register_sim : forall base base' st st' s,
  (forall x, rmap_mem x base = rmap_mem x base') ->
  sim base base' st st' -> sim base base' (register st s) (register st' s).
Proof.
  intros base base' [g m] [g' m'] s Hb [Hg [new [H1 H2]]]. simpl in Hg, H1, H2. subst g' m m'.
  unfold register. rewrite !rmap_mem_app, (Hb s).
  destruct (rmap_mem s base' || rmap_mem s new).
  - split; [reflexivity|]. exists new. auto.
  - split; [reflexivity|]. exists (new ++ [(s, key_of (g + 1) s)]). simpl. rewrite !app_assoc. auto.
Qed.

Lemma fold_register_sim : forall base base' l st st',
  (forall x, rmap_mem x base = rmap_mem x base') ->
  sim base base' st st' -> sim base base' (fold_left register l st) (fold_left register l st').
Proof.
  intros base base' l. induction l as [|s l IH]; simpl; intros st st' Hb H; [exact H|].
  apply IH; [exact Hb|]. apply register_sim; assumption.
Qed.

Lemma reg_inst_sim : forall base base' nm nm' axes st st' i,
  Permutation nm nm' -> (forall x, rmap_mem x base = rmap_mem x base') ->
  sim base base' st st' -> sim base base' (reg_inst nm axes st i) (reg_inst nm' axes st' i).
Proof.
  intros base base' nm nm' axes st st' i P Hb H. unfold reg_inst.
  rewrite (reuses_perm nm nm' (i_name i) P).
  destruct (is_default axes i && reuses_subfamily nm (i_name i)); destruct (i_ps i);
    repeat apply register_sim; assumption.
Qed.

Lemma fold_reg_inst_sim : forall base base' nm nm' axes l st st',
  Permutation nm nm' -> (forall x, rmap_mem x base = rmap_mem x base') ->
  sim base base' st st' ->
  sim base base' (fold_left (reg_inst nm axes) l st) (fold_left (reg_inst nm' axes) l st').
Proof.
  intros base base' nm nm' axes l. induction l as [|i l IH]; simpl; intros st st' P Hb H; [exact H|].
  apply IH; [exact P|exact Hb|]. apply reg_inst_sim; assumption.
Qed.

(* the newly registered entries do not depend on the iteration order of the source map *)
Lemma alloc_new_perm : forall nm nm' axes insts,
  Permutation nm nm' ->
  filter (newb nm') (alloc nm' axes insts) = filter (newb nm) (alloc nm axes insts).
Proof.
  intros nm nm' axes insts P.
  assert (S : sim (reusable0 nm) (reusable0 nm') (alloc_state nm axes insts) (alloc_state nm' axes insts)).
  { unfold alloc_state. apply fold_reg_inst_sim; [exact P|intro x; apply reusable0_mem_perm; exact P|].
    apply fold_register_sim; [intro x; apply reusable0_mem_perm; exact P|].
    split; [simpl; apply max_name_id_perm; exact P|]. exists []. simpl. rewrite !app_nil_r. auto. }
  destruct S as [_ [new [S1 S2]]]. rewrite <- !alloc_is_state in S1, S2.
  destruct (alloc_split nm axes insts) as [m1 [Ha [Hf _]]].
  destruct (alloc_split nm' axes insts) as [m1' [Ha' [Hf' _]]].
  rewrite Hf, Hf'. rewrite Ha in S1. rewrite Ha' in S2.
  apply app_inv_head in S1. apply app_inv_head in S2. congruence.
Qed.

Lemma extend_perm_invariant : forall nm nm' axes insts rp rp',
  Permutation nm nm' -> NoDup (map fst nm) ->
  Permutation rp (alloc nm axes insts) -> Permutation rp' (alloc nm' axes insts) ->
  Permutation (extend nm' rp') (extend nm rp).
Proof.
  intros nm nm' axes insts rp rp' P ND Hp Hp'.
  assert (ND' : NoDup (map fst nm')) by (apply Permutation_NoDup with (map fst nm); [apply Permutation_map; exact P|exact ND]).
  rewrite (final_form nm axes insts rp ND Hp), (final_form nm' axes insts rp' ND' Hp').
  apply Permutation_app; [apply Permutation_sym; exact P|]. apply Permutation_map.
  eapply Permutation_trans; [apply filter_perm; exact Hp'|].
  rewrite (alloc_new_perm nm nm' axes insts P).
  apply Permutation_sym. apply filter_perm. exact Hp.
Qed.
