(* C18 — lemmas about the model in Model.v. *)
From Coq Require Import List NArith ZArith Bool Permutation Lia.
From Coq Require Import ZifyBool ZifyN ZifyNat.
From FV.C18 Require Import Model.
Import ListNotations.
Open Scope N_scope.

(* ------------------------------------------------------------------------- *)
(* equality tests                                                              *)

Lemma str_eqb_eq : forall a b, str_eqb a b = true <-> a = b.
Proof.
  induction a as [|x a IH]; intros [|y b]; simpl; split; intro H; try reflexivity; try discriminate.
  - apply andb_true_iff in H as [H1 H2]. apply N.eqb_eq in H1. apply IH in H2. congruence.
  - inversion H; subst. rewrite N.eqb_refl. simpl. apply IH. reflexivity.
Qed.

Lemma str_eqb_refl : forall a, str_eqb a a = true.
Proof. intro a. apply str_eqb_eq. reflexivity. Qed.

Lemma str_eqb_neq : forall a b, str_eqb a b = false <-> a <> b.
Proof.
  intros a b. split.
  - intros H E. apply str_eqb_eq in E. congruence.
  - intro H. destruct (str_eqb a b) eqn:E; [apply str_eqb_eq in E; contradiction|reflexivity].
Qed.

Lemma nkey_eqb_eq : forall a b, nkey_eqb a b = true <-> a = b.
Proof.
  intros [a1 a2] [b1 b2]. unfold nkey_eqb. simpl. rewrite andb_true_iff, !N.eqb_eq.
  split; [intros [-> ->]; reflexivity|intro H; inversion H; auto].
Qed.

Lemma nkey_eqb_neq : forall a b, nkey_eqb a b = false <-> a <> b.
Proof.
  intros a b. split.
  - intros H E. apply nkey_eqb_eq in E. congruence.
  - intro H. destruct (nkey_eqb a b) eqn:E; [apply nkey_eqb_eq in E; contradiction|reflexivity].
Qed.

(* ------------------------------------------------------------------------- *)
(* upsert / extend                                                             *)

Lemma upsert_fresh : forall k v m, ~ In k (map fst m) -> upsert k v m = m ++ [(k, v)].
Proof.
  induction m as [|[k' v'] m IH]; simpl; intro H; [reflexivity|].
  destruct (nkey_eqb k' k) eqn:E.
  - apply nkey_eqb_eq in E. subst. exfalso. apply H. left. reflexivity.
  - f_equal. apply IH. intro H1. apply H. right. exact H1.
Qed.

Definition swap (e : str * nkey) : nkey * str := (snd e, fst e).

Lemma extend_fresh : forall rp nm,
  NoDup (map snd rp) ->
  (forall e, In e rp -> ~ In (snd e) (map fst nm)) ->
  extend nm rp = nm ++ map swap rp.
Proof.
  unfold extend.
  induction rp as [|[s k] rp IH]; intros nm ND F; simpl.
  - rewrite app_nil_r. reflexivity.
  - simpl in ND. inversion ND as [|? ? Hk ND']; subst.
    rewrite upsert_fresh by (apply (F (s, k)); left; reflexivity).
    rewrite IH.
    + rewrite <- app_assoc. reflexivity.
    + exact ND'.
    + intros e He. rewrite map_app. simpl. intro H. apply in_app_or in H as [H|[H|[]]].
      * apply (F e); [right; exact He|exact H].
      * apply Hk. rewrite H. apply in_map. exact He.
Qed.

Lemma NoDup_app_single : forall {A} (l : list A) x, NoDup l -> ~ In x l -> NoDup (l ++ [x]).
Proof.
  intros A l x. induction l as [|y l IH]; simpl; intros ND NI.
  - constructor; [intros []|constructor].
  - inversion ND; subst. constructor.
    + intro H. apply in_app_or in H as [H|[H|[]]]; [contradiction|]. apply NI. left. symmetry. exact H.
    + apply IH; [assumption|]. intro H. apply NI. right. exact H.
Qed.

(* ------------------------------------------------------------------------- *)
(* registration invariant                                                      *)

Lemma rmap_mem_true : forall s m, rmap_mem s m = true <-> In s (map fst m).
Proof.
  intros s m. unfold rmap_mem. rewrite existsb_exists. split.
  - intros [e [He E]]. apply str_eqb_eq in E. subst. apply in_map. exact He.
  - intro H. apply in_map_iff in H as [e [E He]]. exists e. split; [exact He|]. subst. apply str_eqb_refl.
Qed.

(* ids are 256, 257, ... in insertion order; each key is the key of its string; strings distinct *)
Definition reg_inv (st : N * rmap) : Prop :=
  let '(gen, m) := st in
  gen = 255 + N.of_nat (length m)
  /\ (forall n e, nth_error m n = Some e -> snd e = key_of (256 + N.of_nat n) (fst e))
  /\ NoDup (map fst m).

Lemma reg_inv_init : reg_inv (255, []).
Proof.
  simpl. split; [lia|]. split; [|constructor].
  intros n e H. destruct n; discriminate.
Qed.

Lemma register_inv : forall st s, reg_inv st -> reg_inv (register st s).
Proof.
  intros [gen m] s [Hg [Hk Hn]]. unfold register.
  destruct (rmap_mem s m) eqn:E; [simpl; auto|].
  unfold reg_inv. rewrite app_length. cbn [length]. split; [lia|]. split.
  - intros n e H. destruct (Nat.lt_ge_cases n (length m)) as [L|L].
    + rewrite nth_error_app1 in H by exact L. apply Hk. exact H.
    + rewrite nth_error_app2 in H by exact L.
      destruct (n - length m)%nat eqn:D; simpl in H.
      * inversion H; subst e. cbn [fst snd]. f_equal. lia.
      * destruct n0; discriminate.
  - rewrite map_app. simpl. apply NoDup_app_single.
    + exact Hn.
    + intro H. apply rmap_mem_true in H. congruence.
Qed.

Lemma register_mono : forall st s e, In e (snd st) -> In e (snd (register st s)).
Proof.
  intros [gen m] s e H. unfold register. destruct (rmap_mem s m); simpl in *; [exact H|].
  apply in_or_app. left. exact H.
Qed.

Lemma register_has : forall st s, In s (map fst (snd (register st s))).
Proof.
  intros [gen m] s. unfold register. destruct (rmap_mem s m) eqn:E; simpl.
  - apply rmap_mem_true. exact E.
  - rewrite map_app. apply in_or_app. right. left. reflexivity.
Qed.

Lemma register_mono_str : forall st s s', In s' (map fst (snd st)) -> In s' (map fst (snd (register st s))).
Proof.
  intros st s s' H. apply in_map_iff in H as [e [E He]]. subst.
  apply in_map. apply register_mono. exact He.
Qed.

Lemma fold_register_inv : forall l st, reg_inv st -> reg_inv (fold_left register l st).
Proof. induction l as [|s l IH]; simpl; intros st H; [exact H|]. apply IH. apply register_inv. exact H. Qed.

Lemma fold_register_mono : forall l st e, In e (snd st) -> In e (snd (fold_left register l st)).
Proof. induction l as [|s l IH]; simpl; intros st e H; [exact H|]. apply IH. apply register_mono. exact H. Qed.

Lemma fold_register_has : forall l st s, In s l -> In s (map fst (snd (fold_left register l st))).
Proof.
  induction l as [|x l IH]; simpl; intros st s H; [contradiction|]. destruct H as [->|H].
  - pose proof (register_has st s) as R. apply in_map_iff in R as [e [E He]]. subst.
    apply in_map. apply fold_register_mono. exact He.
  - apply IH. exact H.
Qed.

Lemma reg_inst_inv : forall nm axes st i, reg_inv st -> reg_inv (reg_inst nm axes st i).
Proof.
  intros nm axes st i H. unfold reg_inst.
  destruct (is_default axes i && reuses_subfamily nm (i_name i)); destruct (i_ps i);
    repeat apply register_inv; exact H.
Qed.

Lemma reg_inst_mono : forall nm axes st i e, In e (snd st) -> In e (snd (reg_inst nm axes st i)).
Proof.
  intros nm axes st i e H. unfold reg_inst.
  destruct (is_default axes i && reuses_subfamily nm (i_name i)); destruct (i_ps i);
    repeat apply register_mono; exact H.
Qed.

Lemma in_fst_mono : forall (P : N * rmap -> N * rmap) st s,
  (forall e, In e (snd st) -> In e (snd (P st))) ->
  In s (map fst (snd st)) -> In s (map fst (snd (P st))).
Proof.
  intros P st s M H. apply in_map_iff in H as [e [E He]]. subst. apply in_map. apply M. exact He.
Qed.

Lemma reg_inst_has_ps : forall nm axes st i p, i_ps i = Some p -> In p (map fst (snd (reg_inst nm axes st i))).
Proof. intros nm axes st i p H. unfold reg_inst. rewrite H. apply register_has. Qed.

Lemma reg_inst_has_name : forall nm axes st i,
  is_default axes i && reuses_subfamily nm (i_name i) = false ->
  In (i_name i) (map fst (snd (reg_inst nm axes st i))).
Proof.
  intros nm axes st i H. unfold reg_inst. rewrite H. destruct (i_ps i).
  - apply register_mono_str. apply register_has.
  - apply register_has.
Qed.

Lemma fold_reg_inst_inv : forall nm axes l st, reg_inv st -> reg_inv (fold_left (reg_inst nm axes) l st).
Proof. induction l as [|i l IH]; simpl; intros st H; [exact H|]. apply IH. apply reg_inst_inv. exact H. Qed.

Lemma fold_reg_inst_mono : forall nm axes l st e, In e (snd st) -> In e (snd (fold_left (reg_inst nm axes) l st)).
Proof. induction l as [|i l IH]; simpl; intros st e H; [exact H|]. apply IH. apply reg_inst_mono. exact H. Qed.

Lemma fold_reg_inst_mono_str : forall nm axes l st s,
  In s (map fst (snd st)) -> In s (map fst (snd (fold_left (reg_inst nm axes) l st))).
Proof.
  intros nm axes l st s H. apply in_map_iff in H as [e [E He]]. subst. apply in_map.
  apply fold_reg_inst_mono. exact He.
Qed.

Lemma fold_reg_inst_has_ps : forall nm axes l st i p,
  In i l -> i_ps i = Some p -> In p (map fst (snd (fold_left (reg_inst nm axes) l st))).
Proof.
  induction l as [|x l IH]; simpl; intros st i p H Hp; [contradiction|]. destruct H as [->|H].
  - apply fold_reg_inst_mono_str. apply reg_inst_has_ps. exact Hp.
  - apply IH with i; assumption.
Qed.

Lemma fold_reg_inst_has_name : forall nm axes l st i,
  In i l -> is_default axes i && reuses_subfamily nm (i_name i) = false ->
  In (i_name i) (map fst (snd (fold_left (reg_inst nm axes) l st))).
Proof.
  induction l as [|x l IH]; simpl; intros st i H Hd; [contradiction|]. destruct H as [->|H].
  - apply fold_reg_inst_mono_str. apply reg_inst_has_name. exact Hd.
  - apply IH; assumption.
Qed.

(* ------------------------------------------------------------------------- *)
(* source names with reserved ids only                                         *)

Definition ids_reserved (nm : names) : Prop := Forall (fun e => fst (fst e) <= 255) nm.

Lemma reusable0_nil : forall nm, ids_reserved nm -> reusable0 nm = [].
Proof.
  unfold reusable0. intros nm H.
  assert (G : forall acc, fold_left (fun m e => if 255 <? fst (fst e) then rmap_upsert (snd e) (fst e) m else m) nm acc = acc).
  { induction H as [|e nm He H IH]; simpl; intro acc; [reflexivity|].
    destruct (N.ltb_spec 255 (fst (fst e))); [lia|]. apply IH. }
  apply G.
Qed.

Definition alloc_state (nm : names) (axes : list axis) (insts : list inst) : N * rmap :=
  fold_left (reg_inst nm axes) (kept_instances axes insts)
    (fold_left register (map a_label (variable_axes axes)) (255, reusable0 nm)).

Lemma alloc_is_state : forall nm axes insts, alloc nm axes insts = snd (alloc_state nm axes insts).
Proof. reflexivity. Qed.

Lemma alloc_inv : forall nm axes insts, ids_reserved nm -> reg_inv (alloc_state nm axes insts).
Proof.
  intros nm axes insts H. unfold alloc_state. rewrite (reusable0_nil nm H).
  apply fold_reg_inst_inv. apply fold_register_inv. apply reg_inv_init.
Qed.

Lemma reg_inv_entry : forall gen m s k, reg_inv (gen, m) -> In (s, k) m -> exists id, k = key_of id s /\ 256 <= id.
Proof.
  intros gen m s k [_ [Hk _]] H. apply In_nth_error in H as [n Hn].
  exists (256 + N.of_nat n). split; [|lia]. apply (Hk n (s, k) Hn).
Qed.

Lemma reg_inv_nodup_keys : forall gen m, reg_inv (gen, m) -> NoDup (map snd m).
Proof.
  intros gen m [_ [Hk _]]. apply NoDup_nth_error. intros i j Hi E.
  rewrite map_length in Hi. rewrite !nth_error_map in E.
  destruct (nth_error m i) as [ei|] eqn:Ei; [|apply nth_error_None in Ei; lia].
  destruct (nth_error m j) as [ej|] eqn:Ej; [|discriminate].
  simpl in E. inversion E as [E']. rewrite (Hk i ei Ei), (Hk j ej Ej) in E'.
  unfold key_of in E'. apply (f_equal fst) in E'. cbn [fst] in E'. lia.
Qed.

Lemma reg_inv_nodup_strs : forall gen m, reg_inv (gen, m) -> NoDup (map fst m).
Proof. intros gen m [_ [_ H]]. exact H. Qed.

(* the final table is the source table followed by the registered names, whatever
   order reusable_names is iterated in *)
Lemma final_form : forall nm axes insts rp,
  ids_reserved nm -> Permutation rp (alloc nm axes insts) ->
  extend nm rp = nm ++ map swap rp.
Proof.
  intros nm axes insts rp R P.
  pose proof (alloc_inv nm axes insts R) as I. rewrite alloc_is_state in P.
  destruct (alloc_state nm axes insts) as [gen m] eqn:S. simpl in P.
  apply extend_fresh.
  - apply Permutation_NoDup with (map snd m).
    + apply Permutation_map. apply Permutation_sym. exact P.
    + apply reg_inv_nodup_keys with gen. exact I.
  - intros [s k] He. simpl. apply (Permutation_in _ P) in He.
    destruct (reg_inv_entry gen m s k I He) as [id [-> Hid]].
    intro H. apply in_map_iff in H as [e [E He']].
    unfold ids_reserved in R. rewrite Forall_forall in R. specialize (R e He').
    cbv beta in R. destruct e as [[i en] v]. cbn [fst] in *. unfold key_of in E. inversion E. lia.
Qed.

(* ------------------------------------------------------------------------- *)
(* reverse_names / reusable_name_id                                            *)

Lemma in_ids_of : forall nm s id, In id (ids_of nm s) <-> exists enc, In ((id, enc), s) nm.
Proof.
  intros nm s id. unfold ids_of. rewrite in_map_iff. split.
  - intros [[[i enc] v] [E H]]. simpl in E. subst. apply filter_In in H as [H E]. simpl in E.
    apply str_eqb_eq in E. subst. exists enc. exact H.
  - intros [enc H]. exists ((id, enc), s). split; [reflexivity|]. apply filter_In. split; [exact H|].
    simpl. apply str_eqb_refl.
Qed.

Lemma min_list_spec : forall l m, min_list l = Some m -> In m l /\ Forall (fun x => m <= x) l.
Proof.
  induction l as [|x l IH]; simpl; intros m H; [discriminate|].
  destruct (min_list l) as [m'|] eqn:E.
  - inversion H; subst. destruct (IH m' eq_refl) as [I F]. split.
    + destruct (N.min_spec x m') as [[_ ->]|[_ ->]]; [left; reflexivity|right; exact I].
    + constructor; [lia|]. eapply Forall_impl; [|exact F]. simpl. intros a Ha. lia.
  - inversion H; subst. destruct l; [|simpl in E; destruct (min_list l); discriminate].
    split; [left; reflexivity|]. constructor; [lia|constructor].
Qed.

Lemma min_list_some : forall l x, In x l -> exists m, min_list l = Some m.
Proof.
  intros [|y l] x H; [contradiction|]. simpl. destruct (min_list l); eexists; reflexivity.
Qed.

Lemma rni_in : forall nm s allow m,
  reusable_name_id nm s allow = Some m -> In m (ids_of nm s) /\ (allow || (256 <=? m)) = true.
Proof.
  intros nm s allow m H. unfold reusable_name_id in H. apply min_list_spec in H as [H _].
  apply filter_In in H. exact H.
Qed.

Lemma rni_some : forall nm s allow id,
  In id (ids_of nm s) -> (allow || (256 <=? id)) = true ->
  exists m, reusable_name_id nm s allow = Some m /\ m <= id.
Proof.
  intros nm s allow id H A. unfold reusable_name_id.
  assert (I : In id (filter (fun id => allow || (256 <=? id)) (ids_of nm s))) by (apply filter_In; split; assumption).
  destruct (min_list_some _ _ I) as [m E]. exists m. split; [exact E|].
  apply min_list_spec in E as [_ F]. rewrite Forall_forall in F. apply F. exact I.
Qed.

Lemma min_list_perm : forall l l', Permutation l l' -> min_list l = min_list l'.
Proof.
  intros l l' P. destruct (min_list l) as [m|] eqn:E; destruct (min_list l') as [m'|] eqn:E'.
  - apply min_list_spec in E as [I F]. apply min_list_spec in E' as [I' F'].
    rewrite Forall_forall in F, F'. f_equal. apply N.le_antisymm.
    + apply F. apply Permutation_in with l'; [apply Permutation_sym; exact P|exact I'].
    + apply F'. apply Permutation_in with l; assumption.
  - apply min_list_spec in E as [I _]. apply (Permutation_in _ P) in I.
    destruct (min_list_some _ _ I) as [x Hx]. congruence.
  - apply min_list_spec in E' as [I _]. apply (Permutation_in _ (Permutation_sym P)) in I.
    destruct (min_list_some _ _ I) as [x Hx]. congruence.
  - reflexivity.
Qed.

Lemma filter_perm : forall {A} (f : A -> bool) l l', Permutation l l' -> Permutation (filter f l) (filter f l').
Proof.
  intros A f l l' P. induction P; simpl.
  - constructor.
  - destruct (f x); [constructor|]; assumption.
  - destruct (f x), (f y); try constructor; try apply Permutation_refl. 
  - eapply Permutation_trans; eassumption.
Qed.

Lemma rni_perm : forall nm nm' s allow, Permutation nm nm' ->
  reusable_name_id nm s allow = reusable_name_id nm' s allow.
Proof.
  intros nm nm' s allow P. unfold reusable_name_id, ids_of. apply min_list_perm.
  apply filter_perm. apply Permutation_map. apply filter_perm. exact P.
Qed.

(* ------------------------------------------------------------------------- *)
(* every id fvar / STAT use exists and carries the source string               *)

Lemma label_registered : forall nm axes insts a,
  In a (variable_axes axes) -> In (a_label a) (map fst (alloc nm axes insts)).
Proof.
  intros nm axes insts a H. rewrite alloc_is_state. unfold alloc_state.
  apply fold_reg_inst_mono_str. apply fold_register_has. apply in_map. exact H.
Qed.

Lemma ps_registered : forall nm axes insts i p,
  In i (kept_instances axes insts) -> i_ps i = Some p -> In p (map fst (alloc nm axes insts)).
Proof.
  intros nm axes insts i p H Hp. rewrite alloc_is_state. unfold alloc_state.
  apply fold_reg_inst_has_ps with i; assumption.
Qed.

Lemma name_registered : forall nm axes insts i,
  In i (kept_instances axes insts) ->
  is_default axes i && reuses_subfamily nm (i_name i) = false ->
  In (i_name i) (map fst (alloc nm axes insts)).
Proof.
  intros nm axes insts i H Hd. rewrite alloc_is_state. unfold alloc_state.
  apply fold_reg_inst_has_name; assumption.
Qed.

Lemma registered_usable : forall nm axes insts rp s allow,
  ids_reserved nm -> Permutation rp (alloc nm axes insts) ->
  In s (map fst (alloc nm axes insts)) ->
  exists m enc, reusable_name_id (extend nm rp) s allow = Some m
                /\ In ((m, enc), s) (extend nm rp)
                /\ (allow = false -> 256 <= m).
Proof.
  intros nm axes insts rp s allow R P H.
  rewrite (final_form nm axes insts rp R P).
  apply in_map_iff in H as [[s' k] [E He]]. simpl in E. subst s'.
  pose proof (alloc_inv nm axes insts R) as I. rewrite alloc_is_state in He.
  destruct (alloc_state nm axes insts) as [gen m0] eqn:S. simpl in He.
  destruct (reg_inv_entry gen m0 s k I He) as [id [-> Hid]].
  assert (Hin : In ((id, encoding_for s), s) (nm ++ map swap rp)).
  { apply in_or_app. right. apply in_map_iff. exists (s, key_of id s). split; [reflexivity|].
    apply Permutation_in with m0; [|exact He]. apply Permutation_sym.
    rewrite alloc_is_state, S in P. exact P. }
  assert (Hid' : In id (ids_of (nm ++ map swap rp) s)) by (apply in_ids_of; eexists; exact Hin).
  destruct (rni_some _ s allow id Hid') as [m [Hm Hle]].
  { destruct (N.leb_spec 256 id); [apply orb_true_r|lia]. }
  destruct (rni_in _ _ _ _ Hm) as [Hm1 Hm2]. apply in_ids_of in Hm1 as [enc Hm1].
  exists m, enc. split; [exact Hm|]. split; [exact Hm1|].
  intros ->. simpl in Hm2. apply N.leb_le in Hm2. exact Hm2.
Qed.

Lemma reuse_usable : forall nm rp0 s,
  reuses_subfamily nm s = true ->
  exists m enc, reusable_name_id (nm ++ rp0) s true = Some m /\ In ((m, enc), s) (nm ++ rp0).
Proof.
  intros nm rp0 s H. unfold reuses_subfamily, first_hit in H.
  destruct (find (fun e => str_eqb (snd e) s) nm) as [[[id en] v]|] eqn:F; [|discriminate].
  apply find_some in F as [F1 F2]. simpl in F2. apply str_eqb_eq in F2. subst v.
  assert (Hid : In id (ids_of (nm ++ rp0) s)).
  { apply in_ids_of. exists en. apply in_or_app. left. exact F1. }
  destruct (rni_some _ s true id Hid eq_refl) as [m [Hm _]].
  destruct (rni_in _ _ _ _ Hm) as [Hm1 _]. apply in_ids_of in Hm1 as [enc Hm1].
  exists m, enc. split; assumption.
Qed.

Lemma used_ids_exist : forall nm axes insts rp,
  ids_reserved nm -> Permutation rp (alloc nm axes insts) ->
  let fin := extend nm rp in
  (forall a, In a (variable_axes axes) ->
     exists id enc, reusable_name_id fin (a_label a) false = Some id
                    /\ 256 <= id /\ In ((id, enc), a_label a) fin)
  /\ (forall i, In i (kept_instances axes insts) ->
     exists id enc, reusable_name_id fin (i_name i) (is_default axes i) = Some id
                    /\ In ((id, enc), i_name i) fin
                    /\ (is_default axes i = false -> 256 <= id))
  /\ (forall i p, In i (kept_instances axes insts) -> i_ps i = Some p ->
     exists id enc, reusable_name_id fin p false = Some id
                    /\ 256 <= id /\ In ((id, enc), p) fin).
Proof.
  intros nm axes insts rp R P fin. subst fin. repeat split.
  - intros a Ha.
    destruct (registered_usable nm axes insts rp (a_label a) false R P (label_registered nm axes insts a Ha))
      as [m [enc [H1 [H2 H3]]]].
    exists m, enc. repeat split; auto.
  - intros i Hi.
    destruct (is_default axes i && reuses_subfamily nm (i_name i)) eqn:D.
    + apply andb_true_iff in D as [D1 D2]. rewrite D1.
      rewrite (final_form nm axes insts rp R P).
      destruct (reuse_usable nm (map swap rp) (i_name i) D2) as [m [enc [H1 H2]]].
      exists m, enc. repeat split; auto. discriminate.
    + destruct (registered_usable nm axes insts rp (i_name i) (is_default axes i) R P
                  (name_registered nm axes insts i Hi D)) as [m [enc [H1 [H2 H3]]]].
      exists m, enc. repeat split; auto.
  - intros i p Hi Hp.
    destruct (registered_usable nm axes insts rp p false R P (ps_registered nm axes insts i p Hi Hp))
      as [m [enc [H1 [H2 H3]]]].
    exists m, enc. repeat split; auto.
Qed.

(* every record of the final table is non-empty when the source strings are *)
Lemma final_records_nonempty : forall nm axes insts rp,
  ids_reserved nm -> Permutation rp (alloc nm axes insts) ->
  Forall (fun e => snd e <> []) nm ->
  Forall (fun s => s <> []) (map fst (alloc nm axes insts)) ->
  Forall (fun e => snd e <> []) (extend nm rp).
Proof.
  intros nm axes insts rp R P Hn Hr. rewrite (final_form nm axes insts rp R P).
  apply Forall_app. split; [exact Hn|].
  rewrite Forall_forall in *. intros e He. apply in_map_iff in He as [[s k] [E He]]. subst e. simpl.
  apply Hr. apply in_map_iff. exists (s, k). split; [reflexivity|].
  apply Permutation_in with rp; assumption.
Qed.

(* only labels, instance names and instance PostScript names are ever registered *)
Lemma register_only : forall st s e, In e (snd (register st s)) -> In e (snd st) \/ fst e = s.
Proof.
  intros [gen m] s e. unfold register. destruct (rmap_mem s m); simpl; [auto|].
  intro H. apply in_app_or in H as [H|[H|[]]]; [auto|]. subst. right. reflexivity.
Qed.

Lemma fold_register_only : forall l st e,
  In e (snd (fold_left register l st)) -> In e (snd st) \/ In (fst e) l.
Proof.
  induction l as [|s l IH]; simpl; intros st e H; [auto|].
  apply IH in H as [H|H]; [|auto]. apply register_only in H as [H|H]; auto.
Qed.

Lemma reg_inst_only : forall nm axes st i e,
  In e (snd (reg_inst nm axes st i)) -> In e (snd st) \/ fst e = i_name i \/ i_ps i = Some (fst e).
Proof.
  intros nm axes st i e. unfold reg_inst.
  destruct (is_default axes i && reuses_subfamily nm (i_name i)); destruct (i_ps i) as [p|]; intro H.
  - apply register_only in H as [H|H]; [auto|]. right. right. subst. reflexivity.
  - auto.
  - apply register_only in H as [H|H].
    + apply register_only in H as [H|H]; auto.
    + right. right. subst. reflexivity.
  - apply register_only in H as [H|H]; auto.
Qed.

Lemma fold_reg_inst_only : forall nm axes l st e,
  In e (snd (fold_left (reg_inst nm axes) l st)) ->
  In e (snd st) \/ exists i, In i l /\ (fst e = i_name i \/ i_ps i = Some (fst e)).
Proof.
  induction l as [|i l IH]; simpl; intros st e H; [auto|].
  apply IH in H as [H|[i' [H1 H2]]].
  - apply reg_inst_only in H as [H|H]; [auto|]. right. exists i. split; [left; reflexivity|exact H].
  - right. exists i'. split; [right; exact H1|exact H2].
Qed.

Lemma registered_strings_are_source : forall nm axes insts s,
  ids_reserved nm -> In s (map fst (alloc nm axes insts)) ->
  (exists a, In a (variable_axes axes) /\ a_label a = s)
  \/ (exists i, In i (kept_instances axes insts) /\ (i_name i = s \/ i_ps i = Some s)).
Proof.
  intros nm axes insts s R H. apply in_map_iff in H as [e [E He]]. subst s.
  rewrite alloc_is_state in He. unfold alloc_state in He. rewrite (reusable0_nil nm R) in He.
  apply fold_reg_inst_only in He as [He|[i [H1 H2]]].
  - apply fold_register_only in He as [[]|He]. left. apply in_map_iff in He as [a [E Ha]]. exists a. auto.
  - right. exists i. split; [exact H1|]. destruct H2 as [H2|H2]; [left; symmetry; exact H2|right; exact H2].
Qed.

(* ------------------------------------------------------------------------- *)
(* ids below 256 only where the specification allows                           *)

(* fvar InstanceRecord.subfamilyNameID: 2 or 17 only for the default instance, else >= 256 *)
Definition instance_id_allowed (dflt : bool) (id : N) : Prop :=
  256 <= id \/ (dflt = true /\ (id = 2 \/ id = 17)).

Lemma instance_ids_allowed_outside : forall nm axes insts rp i,
  ids_reserved nm -> Permutation rp (alloc nm axes insts) ->
  In i (kept_instances axes insts) ->
  (forall k, In (k, i_name i) nm -> fst k = 2 \/ fst k = 17) ->
  exists id, reusable_name_id (extend nm rp) (i_name i) (is_default axes i) = Some id
             /\ instance_id_allowed (is_default axes i) id.
Proof.
  intros nm axes insts rp i R P Hi Hs.
  destruct (used_ids_exist nm axes insts rp R P) as [_ [U _]].
  destruct (U i Hi) as [id [enc [H1 [_ H3]]]]. exists id. split; [exact H1|].
  destruct (rni_in _ _ _ _ H1) as [H4 _]. apply in_ids_of in H4 as [enc' H4].
  rewrite (final_form nm axes insts rp R P) in H4. apply in_app_or in H4 as [H4|H4].
  - destruct (is_default axes i) eqn:D.
    + right. split; [reflexivity|]. apply (Hs (id, enc')). exact H4.
    + left. apply H3. reflexivity.
  - left. apply in_map_iff in H4 as [[s k] [E He]]. unfold swap in E. simpl in E. inversion E; subst.
    apply (Permutation_in _ P) in He.
    pose proof (alloc_inv nm axes insts R) as I. rewrite alloc_is_state in He.
    destruct (alloc_state nm axes insts) as [gen m0]. simpl in He.
    destruct (reg_inv_entry gen m0 _ _ I He) as [id' [E' Hid]]. unfold key_of in E'. inversion E'. lia.
Qed.

(* ------------------------------------------------------------------------- *)
(* independence of HashMap iteration order                                     *)

Lemma find_perm_some : forall {A} (f : A -> bool) l l' x,
  Permutation l l' -> find f l = Some x -> exists y, find f l' = Some y.
Proof.
  intros A f l l' x P H. apply find_some in H as [H1 H2]. apply (Permutation_in _ P) in H1.
  destruct (find f l') as [y|] eqn:E; [eexists; reflexivity|].
  exfalso. pose proof (find_none f l' E x H1). congruence.
Qed.

Definition no_coincidence (nm : names) (axes : list axis) (insts : list inst) : Prop :=
  forall i, In i (kept_instances axes insts) -> is_default axes i = true ->
    (forall k, In (k, i_name i) nm -> fst k = 2 \/ fst k = 17)
    \/ (forall k, In (k, i_name i) nm -> fst k <> 2 /\ fst k <> 17).

Lemma reuses_perm : forall nm nm' s,
  Permutation nm nm' ->
  (forall k, In (k, s) nm -> fst k = 2 \/ fst k = 17) \/ (forall k, In (k, s) nm -> fst k <> 2 /\ fst k <> 17) ->
  reuses_subfamily nm' s = reuses_subfamily nm s.
Proof.
  intros nm nm' s P C.
  assert (G : forall l, (forall e, In e l -> In e nm) ->
              forall e, find (fun e : nkey * str => str_eqb (snd e) s) l = Some e -> In (fst e, s) nm).
  { intros l Hl e H. apply find_some in H as [H1 H2]. apply str_eqb_eq in H2. subst s.
    destruct e; simpl. apply Hl. exact H1. }
  unfold reuses_subfamily, first_hit.
  destruct (find (fun e : nkey * str => str_eqb (snd e) s) nm) as [e|] eqn:E;
    destruct (find (fun e : nkey * str => str_eqb (snd e) s) nm') as [e'|] eqn:E'; cbv beta iota.
  - pose proof (G nm (fun e H => H) e E) as H1.
    pose proof (G nm' (fun e H => Permutation_in e (Permutation_sym P) H) e' E') as H2.
    destruct e as [[i en] v], e' as [[i' en'] v']. cbn [fst snd] in *.
    destruct C as [C|C].
    + destruct (C _ H1) as [A|A]; destruct (C _ H2) as [B|B]; cbn [fst] in A, B; subst; reflexivity.
    + destruct (C _ H1) as [A1 A2]. destruct (C _ H2) as [B1 B2]. cbn [fst] in A1, A2, B1, B2.
      apply N.eqb_neq in A1, A2, B1, B2. rewrite A1, A2, B1, B2. reflexivity.
  - destruct (find_perm_some (fun e : nkey * str => str_eqb (snd e) s) nm nm' e P E) as [y Hy].
    rewrite E' in Hy. discriminate.
  - destruct (find_perm_some (fun e : nkey * str => str_eqb (snd e) s) nm' nm e' (Permutation_sym P) E') as [y Hy].
    rewrite E in Hy. discriminate.
  - reflexivity.
Qed.

Lemma fold_left_ext_in : forall {A B} (f g : A -> B -> A) l a,
  (forall a b, In b l -> f a b = g a b) -> fold_left f l a = fold_left g l a.
Proof.
  induction l as [|b l IH]; simpl; intros a H; [reflexivity|].
  rewrite H by (left; reflexivity). apply IH. intros a' b' Hb. apply H. right. exact Hb.
Qed.

Lemma ids_reserved_perm : forall nm nm', Permutation nm nm' -> ids_reserved nm -> ids_reserved nm'.
Proof.
  unfold ids_reserved. intros nm nm' P H. rewrite Forall_forall in *. intros e He.
  apply H. apply Permutation_in with nm'; [apply Permutation_sym; exact P|exact He].
Qed.

Lemma alloc_perm_invariant : forall nm nm' axes insts,
  Permutation nm nm' -> ids_reserved nm -> no_coincidence nm axes insts ->
  alloc nm' axes insts = alloc nm axes insts.
Proof.
  intros nm nm' axes insts P R C. unfold alloc.
  rewrite (reusable0_nil nm R), (reusable0_nil nm' (ids_reserved_perm nm nm' P R)).
  f_equal. apply fold_left_ext_in. intros st i Hi. unfold reg_inst.
  destruct (is_default axes i) eqn:D; [|reflexivity]. simpl.
  rewrite (reuses_perm nm nm' (i_name i) P (C i Hi D)). reflexivity.
Qed.

Lemma extend_perm_invariant : forall nm nm' axes insts rp rp',
  Permutation nm nm' -> ids_reserved nm -> no_coincidence nm axes insts ->
  Permutation rp (alloc nm axes insts) -> Permutation rp' (alloc nm' axes insts) ->
  Permutation (extend nm' rp') (extend nm rp).
Proof.
  intros nm nm' axes insts rp rp' P R C Hp Hp'.
  rewrite (final_form nm axes insts rp R Hp).
  rewrite (final_form nm' axes insts rp' (ids_reserved_perm nm nm' P R) Hp').
  apply Permutation_app; [apply Permutation_sym; exact P|].
  apply Permutation_map. rewrite (alloc_perm_invariant nm nm' axes insts P R C) in Hp'.
  eapply Permutation_trans; [exact Hp'|apply Permutation_sym; exact Hp].
Qed.
