(* C04 — constant values give zero deltas (the dense .notdef copy is neutral, MVAR omits only
   constants); AdvanceDeltas::add reproduces every master of every glyph; the HVAR delta set
   is the gvar phantom-point delta set. *)
From Coq Require Import List ZArith QArith Qabs Qround Bool Lia Lqa Sorting.Permutation.
From Coq Require Import ZifyBool.
From FV.C07 Require Import Tents Trim Influence Deltas Main OrderIndep.
From FV.C07 Require Props.
From FV.C04 Require Import Model ProofsBasic ProofsZp ProofsMaster.
Import ListNotations.
Open Scope Z_scope.

(* what is subtracted from a master value is the interpolation of the deltas so far *)
Lemma subtract_is_interp infl i l x res :
  NoDup (map fst res) -> Forall (fun p : nat * Q => (fst p < i)%nat) res -> (i <= length infl)%nat ->
  (V.subtract_influences x (V.weights_at 0 (firstn i infl) l) res == x - V.interpolate infl res l)%Q.
Proof.
  intros Hnd Hlt Hi. rewrite subtract_sumw, sumw_weights, sumall_interpolate; [reflexivity|exact Hnd|exact Hlt|exact Hi].
Qed.

Definition zeros_from (k : nat) : list (nat * Q) := map (fun j => (j, inject_Z 0)) (seq 1 k).

Lemma interp_zeros infl l k : (V.interpolate infl (zeros_from k) l == 0)%Q.
Proof.
  unfold zeros_from. generalize 1%nat. induction k as [|k IH]; intro s; cbn [seq map V.interpolate]; [reflexivity|].
  rewrite IH. destruct (nth_error infl s); change (inject_Z 0) with 0%Q; ring.
Qed.

(* all values equal to c, the first region constantly 1: every later delta is 0 *)
Lemma const_from infl (c : Z) r0 :
  nth_error infl 0 = Some r0 -> (forall x, (V.scalar_at r0 x == 1)%Q) ->
  forall sl i', (S i' + length sl <= length infl)%nat ->
    V.deltas_from true (S i') (V.delta_weights_from (S i') infl sl) (somes (repeat c (length sl)))
                  ((0%nat, inject_Z c) :: zeros_from i')
    = (0%nat, inject_Z c) :: zeros_from (i' + length sl).
Proof.
  intros Hr0 H1. induction sl as [|l sl IH]; intros i' Hlen.
  - cbn. rewrite Nat.add_0_r. reflexivity.
  - cbn [length repeat somes map V.delta_weights_from V.deltas_from]. fold (somes (repeat c (length sl))).
    cbn [length] in Hlen.
    set (res := (0%nat, inject_Z c) :: zeros_from i').
    assert (Hsub : (V.subtract_influences (inject_Z c) (V.weights_at 0 (firstn (S i') infl) l) res == 0)%Q).
    { rewrite subtract_is_interp.
      - unfold res. cbn [V.interpolate]. rewrite Hr0, H1, interp_zeros. ring.
      - unfold res, zeros_from. cbn [map fst]. rewrite map_map. cbn [fst]. rewrite map_id.
        constructor; [rewrite in_seq; lia|apply seq_NoDup].
      - unfold res, zeros_from. constructor; [cbn; lia|]. apply Forall_forall. intros p Hp.
        apply in_map_iff in Hp as (j & <- & Hj). apply in_seq in Hj. cbn [fst]. lia.
      - lia. }
    assert (Hd : V.apply_rounding true (V.subtract_influences (inject_Z c) (V.weights_at 0 (firstn (S i') infl) l) res) = inject_Z 0).
    { unfold V.apply_rounding. rewrite (round_ties_even_comp _ _ Hsub). change 0%Q with (inject_Z 0).
      rewrite round_ties_even_int. reflexivity. }
    rewrite Hd.
    replace (res ++ [(S i', inject_Z 0)]) with ((0%nat, inject_Z c) :: zeros_from (S i')).
    + rewrite (IH (S i')) by lia. f_equal. f_equal. lia.
    + unfold res, zeros_from. rewrite seq_S, map_app. reflexivity.
Qed.

Lemma map_const {A} (f : A -> Z) c ls : (forall l, In l ls -> f l = c) -> map f ls = repeat c (length ls).
Proof.
  induction ls as [|l ls IH]; intro H; cbn [map length repeat]; [reflexivity|].
  rewrite H by (left; reflexivity). rewrite IH; [reflexivity|]. intros l' Hl'. apply H. right. exact Hl'.
Qed.

Section Const.
  Variable n : nat.
  Variable pts : points.
  Hypothesis Hwf : wf_points n pts.
  Variable o : V.loc.
  Variable c : Z.
  Hypothesis Hin0 : In (o, c) pts.
  Hypothesis Ho : is_origin o.
  Hypothesis Hconst : forall l v, In (l, v) pts -> v = c.

  Local Notation locs := (map fst pts).
  Local Notation m := (V.model_new (map fst pts)).

  Lemma const_raw : raw_deltas locs pts = (0%nat, inject_Z c) :: zeros_from (length (V.m_locs m) - 1).
  Proof.
    unfold raw_deltas. unfold V.deltas.
    destruct (inv n pts Hwf) as (_ & _ & _ & Hw). rewrite Hw.
    rewrite (model_vals_somes n pts Hwf).
    destruct (first_loc n pts Hwf o c Hin0 Ho) as (rest & Hm).
    assert (Hz : zvals pts = repeat c (length (V.m_locs m))).
    { unfold zvals. clear Hm.
      assert (A : forall l, In l (V.m_locs m) -> match lookup l pts with Some v => v | None => 0 end = c).
      { intros l Hl. destruct (in_locs_lookup n pts Hwf l Hl) as (v & Hv & E). rewrite E. eapply Hconst. exact Hv. }
      apply map_const. exact A. }
    rewrite Hz, Hm. cbn [length repeat somes map V.delta_weights_from firstn V.weights_at V.deltas_from app V.subtract_influences].
    fold (somes (repeat c (length rest))).
    unfold V.apply_rounding. rewrite round_ties_even_int.
    destruct (first_region n pts Hwf o c Hin0 Ho) as (r0 & Hr0 & _).
    pose proof (const_from (V.m_infl m) c r0 Hr0 (first_region_one n pts Hwf o c Hin0 Ho r0 Hr0) rest 0) as E.
    change (zeros_from 0) with (@nil (nat * Q)) in E. rewrite E.
    - f_equal. f_equal. cbn [length]. lia.
    - pose proof (infl_len n pts Hwf) as L. rewrite L, Hm. cbn [length]. lia.
  Qed.

  Theorem const_deltas_zero : Forall (fun rd => snd rd = 0) (narrow pts).
  Proof.
    unfold narrow. rewrite narrow_with_pick, const_raw. cbn [flat_map].
    rewrite (pick_default n pts Hwf o c Hin0 Ho). cbn [app].
    unfold zeros_from. generalize (seq 1 (length (V.m_locs m) - 1)).
    intro js.
      induction js as [|j js IH]; cbn [map flat_map]; [constructor|].
      apply Forall_app. split; [|exact IH].
      unfold pick. cbn [fst snd]. destruct (nth_error (V.m_infl m) j) as [r|]; [|constructor].
      destruct (region_is_default r); [constructor|]. constructor; [|constructor]. cbn [snd].
      rewrite ot_round_inject. reflexivity.
  Qed.

  Lemma const_deltas_fit : deltas_fit pts.
  Proof.
    unfold deltas_fit, deltas_fit_with. rewrite const_raw. constructor; [left; reflexivity|].
    unfold zeros_from. apply Forall_forall. intros p Hp. apply in_map_iff in Hp as (j & <- & _).
    right. cbn [snd]. rewrite ot_round_inject. reflexivity.
  Qed.
End Const.

(* ---- the dense copy of .notdef ------------------------------------------------------------------ *)
Lemma densify_wf n all_locs l0 v0 :
  length l0 = n -> Forall (fun l => length l = n) all_locs -> wf_points n (densify all_locs l0 v0).
Proof.
  intros Hl Hall. unfold wf_points, wf_input, densify. cbn [map fst]. rewrite map_map. cbn [fst]. rewrite map_id.
  split.
  - constructor.
    + intro H. apply filter_In in H as [_ H]. rewrite loc_eqb_refl in H. discriminate.
    + apply NoDup_filter. apply nodup_locs_NoDup.
  - constructor; [exact Hl|]. apply Forall_forall. intros l H. apply filter_In in H as [H _].
    apply (proj1 (nodup_locs_In _ _)) in H. rewrite Forall_forall in Hall. apply Hall. exact H.
Qed.

Lemma densify_const all_locs l0 v0 l v : In (l, v) (densify all_locs l0 v0) -> v = v0.
Proof.
  unfold densify. intros [E|H]; [congruence|]. apply in_map_iff in H as (x & E & _). congruence.
Qed.

(* the dense copy gives .notdef only zero deltas *)
Theorem notdef_dense_copy_zero n all_locs l0 v0 :
  length l0 = n -> Forall (fun l => length l = n) all_locs -> is_origin l0 ->
  Forall (fun rd => snd rd = 0) (narrow (densify all_locs l0 v0)).
Proof.
  intros Hl Hall Ho. apply (const_deltas_zero n _ (densify_wf n all_locs l0 v0 Hl Hall) l0 v0).
  - left. reflexivity.
  - exact Ho.
  - apply densify_const.
Qed.

(* ---- AdvanceDeltas::add --------------------------------------------------------------------------- *)
Lemma model_points_cases first all_locs nd pts :
  glyph_model_points first all_locs nd pts = Some pts
  \/ exists l0 v0, pts = [(l0, v0)] /\
       glyph_model_points first all_locs nd pts = if first && nd then Some (densify all_locs l0 v0) else None.
Proof.
  destruct pts as [|[l0 v0] [|q t]]; cbn [glyph_model_points]; [left; reflexivity| |left; reflexivity].
  right. exists l0, v0. split; reflexivity.
Qed.

Theorem add_glyph_master n first all_locs nd pts o v0 :
  wf_points n pts -> Forall (fun l => length l = n) all_locs -> In (o, v0) pts -> is_origin o ->
  (glyph_model_points first all_locs nd pts = Some pts -> deltas_fit pts) ->
  forall l v, In (l, v) pts ->
    (Qabs (font_value v0 (add_glyph first all_locs nd pts) l - inject_Z v) <= 1 # 2)%Q
    /\ (font_value v0 (add_glyph first all_locs nd pts) o == inject_Z v0)%Q.
Proof.
  intros Hwf Hall Hin0 Ho Hfit l v Hlv. unfold add_glyph.
  destruct (model_points_cases first all_locs nd pts) as [E|(l0 & w0 & Ep & E)].
  - rewrite E. split.
    + apply (value_at_master n pts Hwf o v0 Hin0 Ho (Hfit E) l v Hlv).
    + apply (value_at_default n pts Hwf o v0 Hin0 Ho (Hfit E)).
  - rewrite E. subst pts. destruct Hin0 as [E0|[]]. injection E0 as -> ->.
    destruct Hlv as [E1|[]]. injection E1 as <- <-.
    assert (Hlen : length o = n).
    { destruct Hwf as [_ Hl]. cbn [map fst] in Hl. inversion Hl; assumption. }
    destruct (first && nd).
    + pose proof (densify_wf n all_locs o v0 Hlen Hall) as Hw.
      assert (Hi : In (o, v0) (densify all_locs o v0)) by (left; reflexivity).
      pose proof (const_deltas_fit n _ Hw o v0 Hi Ho (densify_const all_locs o v0)) as Hf.
      split.
      * apply (value_at_master n _ Hw o v0 Hi Ho Hf o v0 Hi).
      * apply (value_at_default n _ Hw o v0 Hi Ho Hf).
    + unfold font_value, eval_deltas. cbn [fold_right]. split.
      * setoid_replace (inject_Z v0 + 0 - inject_Z v0)%Q with 0%Q by ring. cbn. discriminate.
      * ring.
Qed.

(* ---- gvar phantom points --------------------------------------------------------------------------- *)
Lemma phantom_model_same n global locs :
  NoDup global -> NoDup locs -> Forall (fun l => length l = n) locs ->
  V.model_new (phantom_model_locs global locs) = V.model_new locs.
Proof.
  intros Hg Hl Hn. unfold phantom_model_locs.
  match goal with |- context [if ?c then _ else _] => destruct c eqn:E end; [|reflexivity].
  apply andb_true_iff in E as [E1 E2]. apply Nat.eqb_eq in E1.
  apply (model_order_independent n locs global Hn). symmetry.
  apply NoDup_Permutation_bis; [exact Hg|apply Nat.eq_le_incl; symmetry; exact E1|].
  intros x Hx. rewrite forallb_forall in E2. apply mem_loc_In. apply E2. exact Hx.
Qed.

Lemma narrow_with_model mlocs mlocs' pts :
  V.model_new mlocs = V.model_new mlocs' -> narrow_with mlocs pts = narrow_with mlocs' pts.
Proof. intro E. unfold narrow_with, raw_deltas. rewrite E. reflexivity. Qed.

Theorem phantom_is_narrow n global g :
  wf_points n (glyph_points Horizontal g) -> NoDup global ->
  (forall s, In s (g_srcs g) -> fits_u16 (ot_round (s_width s)) = true) ->
  phantom_width_deltas global g = narrow (glyph_points Horizontal g).
Proof.
  intros Hwf Hg Hfit. unfold phantom_width_deltas, narrow.
  assert (E : map (fun s => (s_loc s, sat_u16 (ot_round (s_width s)))) (g_srcs g) = glyph_points Horizontal g).
  { unfold glyph_points. apply map_ext_in. intros s Hs. cbn [advance_value]. rewrite (sat_u16_fits _ (Hfit s Hs)). reflexivity. }
  rewrite E. apply narrow_with_model. destruct Hwf as [Hnd Hlen].
  apply (phantom_model_same n); assumption.
Qed.

(* a delta set of a one-point set is empty in effect *)
Lemma single_point_zero n l0 v0 : length l0 = n -> is_origin l0 ->
  Forall (fun rd => snd rd = 0) (narrow [(l0, v0)]).
Proof.
  intros Hl Ho. apply (const_deltas_zero n [(l0, v0)]) with (o := l0) (c := v0).
  - split; cbn [map fst]; [constructor; [intros []|constructor]|constructor; [exact Hl|constructor]].
  - left. reflexivity.
  - exact Ho.
  - intros l v [E|[]]. congruence.
Qed.

(* HVAR and the phantom points describe the same advance at EVERY location *)
Theorem hvar_agrees_with_phantom n first all_locs global g o :
  let pts := glyph_points Horizontal g in
  wf_points n pts -> Forall (fun l => length l = n) all_locs -> NoDup global ->
  In o (map fst pts) -> is_origin o ->
  (forall s, In s (g_srcs g) -> fits_u16 (ot_round (s_width s)) = true) ->
  forall l, (eval_deltas (add_glyph first all_locs (g_notdef g) pts) l
             == eval_deltas (phantom_width_deltas global g) l)%Q.
Proof.
  intros pts Hwf Hall Hg Hino Ho Hfit l.
  rewrite (phantom_is_narrow n global g Hwf Hg Hfit). fold pts. unfold add_glyph.
  destruct (model_points_cases first all_locs (g_notdef g) pts) as [E|(l0 & w0 & Ep & E)].
  - rewrite E. reflexivity.
  - rewrite E, Ep. rewrite Ep in Hino, Hwf. destruct Hino as [<-|[]]. cbn [fst] in *.
    assert (Hlen : length l0 = n).
    { destruct Hwf as [_ Hl]. cbn [map fst] in Hl. inversion Hl; assumption. }
    rewrite (eval_deltas_zero (narrow [(l0, w0)]) l (single_point_zero n l0 w0 Hlen Ho)).
    destruct (first && g_notdef g).
    + apply eval_deltas_zero. apply (notdef_dense_copy_zero n); assumption.
    + reflexivity.
Qed.
