(* C04 — comparison functions used by the correspondence run (definitions only; the
   soundness of `row_matches` / `check_glyph` is proved in ProofsIvs.v). *)
From Coq Require Import List ZArith QArith Qabs Qround Bool.
From FV.Base Require Import Harness.
From FV.C04 Require Import Model.
Import ListNotations.
Open Scope Z_scope.

(* harness notation for a glyph: (is .notdef, [(location, width, height)]) *)
Definition mk_glyph (nd : bool) (srcs : list (V.loc * Q * option Q)) : glyph :=
  mkGlyph nd (map (fun x => let '(l, w, h) := x in mkSrc l w h (0, 0)%Q) srcs).

Fixpoint forallb2 {A B} (f : A -> B -> bool) (a : list A) (b : list B) : bool :=
  match a, b with
  | [], [] => true
  | x :: a', y :: b' => f x y && forallb2 f a' b'
  | _, _ => false
  end.

(* ---- locations that are not multiples of 1/16384: the model works with the common
   denominator D of the design, the font stores coordinates rounded to F2Dot14 ------------ *)
Definition quant (D : Z) (z : Z) : Z := ot_round ((z * 16384) # (Z.to_pos D)).
Definition quant_region (D : Z) (r : V.region) : fregion :=
  map (fun t => (quant D (V.tmin t), quant D (V.tpeak t), quant D (V.tmax t))) (V.tents r).

Definition row_matches_q (D : Z) (model_ds : list (V.region * Z)) (row : list (fregion * Z)) : bool :=
  if D =? 16384 then row_matches model_ds row
  else rows_eqb (canon (map (fun rd => (quant_region D (fst rd), snd rd)) model_ds)) (canon row).

(* a pre-rounding value exactly on a rounding tie: f64 arithmetic may then round the other way than
   exact arithmetic (region scalars are ratios of coordinate differences such as 4096/12288 = 1/3, not
   exact in binary even when the coordinates are; observed: 3 - 2*(1/3) - 2*(2/3) - 1/2 is 0.5 exactly
   but 0.5000000000000002 in f64).  A delta set that differs from the model's is tolerated when the
   model meets such a tie for that glyph / metric; the property predicate is evaluated on the real
   tables regardless. *)
Definition is_tie (q : Q) : bool := Qeq_bool (q - inject_Z (Qfloor q)) (1 # 2).

Fixpoint ties_from (i : nat) (ws : list (list (nat * Q))) (vals : list (option Q)) (res : list (nat * Q)) : bool :=
  match ws, vals with
  | w :: ws', v :: vals' =>
      match v with
      | Some x =>
          let pre := V.subtract_influences x w res in
          is_tie pre || ties_from (S i) ws' vals' (res ++ [(i, V.apply_rounding true pre)])
      | None => ties_from (S i) ws' vals' res
      end
  | _, _ => false
  end.

Definition has_tie (pts : points) : bool :=
  let m := V.model_new (map fst pts) in ties_from 0 (V.m_weights m) (model_vals m pts) [].

Definition glyph_tie_flags (d : direction) (gs : list glyph) : list bool :=
  let all_locs := flat_map (fun g => map s_loc (g_srcs g)) gs in
  (fix go (first : bool) (l : list glyph) : list bool :=
     match l with
     | [] => []
     | g :: t =>
         match glyph_model_points first all_locs (g_notdef g) (glyph_points d g) with
         | Some p => has_tie p
         | None => false
         end :: go false t
     end) true gs.

Fixpoint rows_match_or_tie (D : Z) (ds : list (list (V.region * Z))) (rows : list (list (fregion * Z)))
         (ties : list bool) : bool :=
  match ds, rows, ties with
  | [], [], [] => true
  | x :: ds', r :: rows', t :: ties' => (row_matches_q D x r || t) && rows_match_or_tie D ds' rows' ties'
  | _, _, _ => false
  end.

(* ---- advances ------------------------------------------------------------------------- *)
(* font_defaults: hmtx/vmtx advance per glyph; font_rows: the HVAR/VVAR delta set per glyph;
   has_map: the table has a DeltaSetIndexMap (the direct store is only possible with one model).
   The certified whole-table check is required for F2Dot14-exact designs without a tie. *)
Definition check_advances (D : Z) (d : direction) (origin : V.loc) (global : list V.loc) (gs : list glyph)
           (font_defaults : list Z) (font_rows : list (list (fregion * Z))) (has_map : bool) : bool :=
  let ds := advance_deltas d gs in
  let ties := glyph_tie_flags d gs in
  list_eqb Z.eqb (map (default_advance d origin) gs) font_defaults
  && (has_map || is_single_model d global gs)
  && (negb (D =? 16384) || existsb (fun b => b) ties || check_font d origin gs font_defaults font_rows)
  && rows_match_or_tie D ds font_rows ties.

(* the x deltas of (right - left) phantom point per gvar tuple, per glyph *)
Definition check_phantoms (D : Z) (global : list V.loc) (gs : list glyph)
           (font_rows : list (list (fregion * Z))) : bool :=
  rows_match_or_tie D (map (phantom_width_deltas global) gs) font_rows
    (map (fun g => has_tie (glyph_points Horizontal g)) gs).

(* the spec evaluation of the decoded store against the harness's own exact evaluator *)
Definition check_ivs_eval (st : ivs) (map : option (list (nat * nat)))
           (probes : list (nat * list Z * Q)) : bool :=
  forallb (fun p => let '(gid, coords, expect) := p in
                    match ivs_delta st map gid coords with
                    | Some q => Qeq_bool q expect
                    | None => false
                    end) probes.

(* ---- global metrics --------------------------------------------------------------------- *)
Definition opt_row_matches (D : Z) (a : option (list (V.region * Z))) (b : option (list (fregion * Z))) : bool :=
  match a, b with
  | None, None => true
  | Some x, Some y => row_matches_q D x y
  | _, _ => false
  end.

(* per metric: the MVAR delta set (None: no value record), the default field (None: the table
   holding it is absent), the rounded per-master values the harness expects *)
Definition check_metric (D : Z) (upem : Q) (origin : V.loc) (masters : list (V.loc * fontinfo))
           (x : metric * option (list (fregion * Z)) * option Z * list Z) : bool :=
  let '(m, rec, fld, expect) := x in
  let vals := ufo_metric_vals upem masters m in
  list_eqb Z.eqb (map (fun p => ot_round (snd p)) vals) expect
  && ((if has_mvar_tag m then opt_row_matches D (mvar_record vals) rec
       else match rec with None => true | Some _ => false end)
      || has_tie (metric_points vals))
  && match fld with
     | Some f => default_field (field_signed m) vals origin =? f
     | None => true
     end.

Definition check_metrics (D : Z) (upem : Q) (origin : V.loc) (masters : list (V.loc * fontinfo))
           (xs : list (metric * option (list (fregion * Z)) * option Z * list Z)) : bool :=
  forallb (check_metric D upem origin masters) xs.

(* a master compiled on its own: every default field is the rounded source value *)
Definition check_static (upem : Q) (fi : fontinfo) (xs : list (metric * Z)) : bool :=
  forallb (fun x => let '(m, f) := x in
                    (if field_signed m then sat_i16 else sat_u16) (ot_round (ufo_metric upem fi m)) =? f) xs.

(* fontinfo literal: the explicit keys as an association list *)
Definition metric_eqb (a b : metric) : bool :=
  match a, b with
  | Ascender, Ascender | Descender, Descender | HheaAscender, HheaAscender | HheaDescender, HheaDescender
  | HheaLineGap, HheaLineGap | VheaAscender, VheaAscender | VheaDescender, VheaDescender
  | VheaLineGap, VheaLineGap | Os2TypoAscender, Os2TypoAscender | Os2TypoDescender, Os2TypoDescender
  | Os2TypoLineGap, Os2TypoLineGap | Os2WinAscent, Os2WinAscent | Os2WinDescent, Os2WinDescent
  | CapHeight, CapHeight | CaretSlopeRise, CaretSlopeRise | CaretSlopeRun, CaretSlopeRun
  | CaretOffset, CaretOffset | VheaCaretSlopeRise, VheaCaretSlopeRise | VheaCaretSlopeRun, VheaCaretSlopeRun
  | VheaCaretOffset, VheaCaretOffset | UnderlineThickness, UnderlineThickness
  | UnderlinePosition, UnderlinePosition | XHeight, XHeight | StrikeoutPosition, StrikeoutPosition
  | StrikeoutSize, StrikeoutSize | SubscriptXOffset, SubscriptXOffset | SubscriptXSize, SubscriptXSize
  | SubscriptYOffset, SubscriptYOffset | SubscriptYSize, SubscriptYSize
  | SuperscriptXOffset, SuperscriptXOffset | SuperscriptXSize, SuperscriptXSize
  | SuperscriptYOffset, SuperscriptYOffset | SuperscriptYSize, SuperscriptYSize => true
  | _, _ => false
  end.

Definition mk_fontinfo (asc desc xh cap : option Q) (tanv : Q) (explicit : list (metric * Q)) : fontinfo :=
  mkFontinfo asc desc xh cap tanv
    (fun m => match find (fun p => metric_eqb (fst p) m) explicit with
              | Some p => Some (snd p)
              | None => None
              end).
