(* C04 — the OpenType reading of a delta set.  On the regions the variation model builds,
   the specification's region scalar is fontc's scalar; a decoded delta set that
   `row_matches` the model's denotes the same function of the location. *)
From Coq Require Import List ZArith QArith Qabs Qround Bool Lia Lqa Sorting.Permutation.
From Coq Require Import ZifyBool.
From FV.C07 Require Import Tents Trim Influence Deltas Main.
From FV.C04 Require Import Model ProofsBasic ProofsZp ProofsMaster ProofsGlyph.
Import ListNotations.
Open Scope Z_scope.

Lemma ratio_zero d : (V.ratio 0 d == 0)%Q.
Proof. unfold V.ratio, Qdiv. change (inject_Z 0) with 0%Q. ring. Qed.

(* ---- one axis ------------------------------------------------------------------------------ *)
Lemma spec_axis_tent t v : valid t -> zp_tent t ->
  (spec_axis_scalar (tent_coords t) v == V.tent_scalar t v)%Q.
Proof.
  intros Hv Hz. destruct t as [s p e]. unfold tent_coords, spec_axis_scalar, V.tent_scalar. cbn [V.tmin V.tpeak V.tmax].
  pose proof (proj2 (tent_valid_iff _) Hv) as Hvb. rewrite Hvb. cbn [negb].
  destruct Hv as [[H1 H2] H3]. cbn [V.tmin V.tpeak V.tmax] in H1, H2, H3.
  replace ((p <? s) || (e <? p)) with false by lia.
  replace ((s <? 0) && (0 <? e) && negb (p =? 0)) with false by lia.
  destruct (Z.eqb_spec p 0) as [Hp|Hp].
  - (* peak 0: the tent is (0,0,0) *)
    destruct (Hz Hp) as (A & _ & C). cbn in A, C. subst s p e.
    destruct (v =? 0); reflexivity.
  - destruct (Z.eqb_spec v p) as [Hvp|Hvp].
    + subst v. replace ((p <? s) || (e <? p)) with false by lia. reflexivity.
    + rewrite andb_false_r. cbn [andb].
      destruct (Z.lt_trichotomy v s) as [L|[L|L]].
      * replace ((v <? s) || (e <? v)) with true by lia. replace ((v <=? s) || (e <=? v)) with true by lia. reflexivity.
      * subst v. replace ((s <? s) || (e <? s)) with false by lia. replace ((s <=? s) || (e <=? s)) with true by lia.
        replace (s <? p) with true by lia. rewrite Z.sub_diag. apply ratio_zero.
      * destruct (Z.lt_trichotomy v e) as [M|[M|M]].
        -- replace ((v <? s) || (e <? v)) with false by lia. replace ((v <=? s) || (e <=? v)) with false by lia.
           destruct (Z.ltb_spec v p) as [N|N]; [reflexivity|].
           rewrite <- (ratio_neg (e - v) (e - p)). unfold V.ratio. f_equiv; f_equiv; ring.
        -- subst v. replace ((e <? s) || (e <? e)) with false by lia. replace ((e <=? s) || (e <=? e)) with true by lia.
           replace (e <? p) with false by lia. rewrite Z.sub_diag. apply ratio_zero.
        -- replace ((v <? s) || (e <? v)) with true by lia. replace ((v <=? s) || (e <=? v)) with true by lia. reflexivity.
Qed.

(* ---- a region ------------------------------------------------------------------------------- *)
Definition region_ok (r : V.region) : Prop := Forall (fun t => valid t /\ zp_tent t) (V.tents r).

Lemma spec_scalar_region r : region_ok r -> forall l, length l = length (V.tents r) ->
  (spec_scalar (region_coords r) l == V.scalar_at r l)%Q.
Proof.
  unfold region_ok, region_coords, V.scalar_at. induction 1 as [|t ts [Hv Hz] _ IH]; intros [|v l] Hl;
    cbn [length] in Hl; try discriminate; cbn [map spec_scalar V.scalar_tents]; [reflexivity|].
  rewrite (spec_axis_tent t v Hv Hz), IH by lia. reflexivity.
Qed.

Lemma wf_zp_ok l r : wf_region l r -> zp_region r -> region_ok r.
Proof.
  intros [Hw _] Hz. unfold region_ok, zp_region in *.
  induction Hw as [|v t l' ts [_ Hv] _ IH]; [constructor|].
  inversion Hz; subst. constructor; [split; assumption|apply IH; assumption].
Qed.

(* every region of a narrowed delta set is one of the model's *)
Lemma narrow_regions_ok n pts : wf_points n pts ->
  Forall (fun rd => region_ok (fst rd) /\ length (V.tents (fst rd)) = n) (narrow pts).
Proof.
  intro Hwf. unfold narrow. rewrite narrow_with_pick. apply Forall_forall. intros rd H.
  apply in_flat_map in H as (kd & _ & H). unfold pick in H.
  destruct (nth_error (V.m_infl (V.model_new (map fst pts))) (fst kd)) as [r|] eqn:Hr; [|destruct H].
  destruct (region_is_default r); [destruct H|]. destruct H as [<-|[]]. cbn [fst].
  assert (Hlt : (fst kd < length (V.m_locs (V.model_new (map fst pts))))%nat).
  { rewrite <- (infl_len n pts Hwf). apply nth_error_Some. congruence. }
  destruct (nth_error (V.m_locs (V.model_new (map fst pts))) (fst kd)) as [l|] eqn:Hl; [|apply nth_error_None in Hl; lia].
  destruct (wf_at n pts Hwf (fst kd) l Hl) as (r' & Hr' & A & B). rewrite Hr in Hr'. injection Hr' as <-.
  split; [exact (wf_zp_ok l r A B)|]. rewrite (wf_length l r A). apply (len_mlocs n pts Hwf). eapply nth_error_In. exact Hl.
Qed.

(* the model's delta set read the OpenType way *)
Definition as_row (ds : list (V.region * Z)) : list (fregion * Z) :=
  map (fun rd => (region_coords (fst rd), snd rd)) ds.

Lemma as_row_eval n ds : Forall (fun rd => region_ok (fst rd) /\ length (V.tents (fst rd)) = n) ds ->
  forall l, length l = n -> (row_eval (as_row ds) l == eval_deltas ds l)%Q.
Proof.
  unfold as_row, row_eval, eval_deltas. induction 1 as [|[r d] ds [Hok Hlen] _ IH]; intros l Hl; cbn [map fold_right fst snd]; [reflexivity|].
  cbn [fst] in Hok, Hlen. rewrite (spec_scalar_region r Hok l) by lia. rewrite IH by exact Hl. reflexivity.
Qed.

(* ---- canonical form --------------------------------------------------------------------------- *)
Lemma row_eval_app a b c : (row_eval (a ++ b) c == row_eval a c + row_eval b c)%Q.
Proof. unfold row_eval. induction a as [|x a IH]; cbn [app fold_right]; [ring|]. rewrite IH. ring. Qed.

Lemma row_eval_perm a b c : Permutation a b -> (row_eval a c == row_eval b c)%Q.
Proof.
  unfold row_eval. induction 1 as [|x a b _ IH|x y a|a b d _ IH1 _ IH2]; cbn [fold_right].
  - reflexivity.
  - rewrite IH. reflexivity.
  - ring.
  - rewrite IH1. exact IH2.
Qed.

Lemma row_eval_filter row c :
  (row_eval (filter (fun rd => negb (snd rd =? 0)) row) c == row_eval row c)%Q.
Proof.
  unfold row_eval. induction row as [|[r d] row IH]; cbn [filter fold_right snd]; [reflexivity|].
  destruct (Z.eqb_spec d 0) as [->|Hd]; cbn [negb fold_right snd].
  - rewrite IH. change (inject_Z 0) with 0%Q. ring.
  - rewrite IH. reflexivity.
Qed.

Lemma canon_eval row c : (row_eval (canon row) c == row_eval row c)%Q.
Proof.
  unfold canon. rewrite (row_eval_perm _ _ c (isort_perm _ flat_key _)). apply row_eval_filter.
Qed.

Lemma coords_eqb_eq a b : coords_eqb a b = true -> a = b.
Proof. destruct a as [[a1 a2] a3], b as [[b1 b2] b3]. unfold coords_eqb. intro H. f_equal; [f_equal|]; lia. Qed.

Lemma fregion_eqb_eq a : forall b, fregion_eqb a b = true -> a = b.
Proof.
  induction a as [|x a IH]; intros [|y b] H; cbn [fregion_eqb] in H; try discriminate; [reflexivity|].
  apply andb_true_iff in H as [H1 H2]. apply coords_eqb_eq in H1. apply IH in H2. congruence.
Qed.

Lemma rows_eqb_eq a : forall b, rows_eqb a b = true -> a = b.
Proof.
  induction a as [|[r d] a IH]; intros [|[r' d'] b] H; cbn [rows_eqb] in H; try discriminate; [reflexivity|].
  apply andb_true_iff in H as [H H3]. apply andb_true_iff in H as [H1 H2].
  apply fregion_eqb_eq in H1. apply Z.eqb_eq in H2. apply IH in H3. congruence.
Qed.

(* a decoded delta set accepted by row_matches means, at every location, what the model's means *)
Theorem row_matches_sound ds row : row_matches ds row = true ->
  forall c, (row_eval row c == row_eval (as_row ds) c)%Q.
Proof.
  unfold row_matches. intros H c. apply rows_eqb_eq in H. fold (as_row ds) in H.
  rewrite <- (canon_eval row c), <- H. apply canon_eval.
Qed.

(* ---- the certified per-glyph check -------------------------------------------------------------- *)
(* hmtx/vmtx default + decoded HVAR/VVAR delta set, evaluated per the specification *)
Definition font_advance_spec (dflt : Z) (row : list (fregion * Z)) (l : V.loc) : Q :=
  (inject_Z dflt + row_eval row l)%Q.

Lemma add_glyph_regions_ok n first all_locs nd pts o :
  wf_points n pts -> Forall (fun l => length l = n) all_locs -> In o (map fst pts) ->
  Forall (fun rd => region_ok (fst rd) /\ length (V.tents (fst rd)) = n) (add_glyph first all_locs nd pts).
Proof.
  intros Hwf Hall Hino. unfold add_glyph.
  destruct (model_points_cases first all_locs nd pts) as [E|(l0 & w0 & Ep & E)]; rewrite E.
  - apply narrow_regions_ok. exact Hwf.
  - destruct (first && nd); [|constructor]. apply narrow_regions_ok. apply densify_wf; [|exact Hall].
    subst pts. destruct Hwf as [_ Hl]. cbn [map fst] in Hl. inversion Hl; assumption.
Qed.

Theorem check_glyph_sound n first all_locs nd pts o dflt row :
  wf_points n pts -> Forall (fun l => length l = n) all_locs -> is_origin o ->
  check_glyph first all_locs nd pts o dflt row = true ->
  forall l v, In (l, v) pts ->
    (Qabs (font_advance_spec dflt row l - inject_Z v) <= 1 # 2)%Q
    /\ (l = o -> font_advance_spec dflt row l == inject_Z v)%Q.
Proof.
  intros Hwf Hall Ho Hc l v Hlv. unfold check_glyph in Hc.
  apply andb_true_iff in Hc as [Hc Hfit]. apply andb_true_iff in Hc as [Hd Hm].
  destruct (lookup o pts) as [v0|] eqn:Hlk; [|discriminate].
  apply andb_true_iff in Hd as [Hd Hu]. apply Z.eqb_eq in Hd. rewrite (sat_u16_fits _ Hu) in Hd. subst dflt.
  pose proof (lookup_some pts o v0 Hlk) as Hin0.
  assert (Hino : In o (map fst pts)) by (apply in_map_iff; exists (o, v0); split; [reflexivity|exact Hin0]).
  assert (Hlen : length l = n).
  { destruct Hwf as [_ Hl]. rewrite Forall_forall in Hl. apply Hl. apply in_map_iff. exists (l, v). split; [reflexivity|exact Hlv]. }
  assert (Hleno : length o = n).
  { destruct Hwf as [_ Hl]. rewrite Forall_forall in Hl. apply Hl. exact Hino. }
  assert (Hf : glyph_model_points first all_locs nd pts = Some pts -> deltas_fit pts).
  { intro E. rewrite E in Hfit. apply deltas_fitb_sound. exact Hfit. }
  destruct (add_glyph_master n first all_locs nd pts o v0 Hwf Hall Hin0 Ho Hf l v Hlv) as [B D].
  pose proof (add_glyph_regions_ok n first all_locs nd pts o Hwf Hall Hino) as Hok.
  assert (E : forall x, length x = n ->
             (font_advance_spec v0 row x == font_value v0 (add_glyph first all_locs nd pts) x)%Q).
  { intros x Hx. unfold font_advance_spec, font_value.
    rewrite (row_matches_sound _ _ Hm x), (as_row_eval n _ Hok x Hx). reflexivity. }
  split.
  - rewrite (E l Hlen). exact B.
  - intros ->. rewrite (E o Hleno), D.
    assert (v = v0) by (pose proof (lookup_in pts (proj1 Hwf) o v Hlv) as E'; congruence).
    subst. reflexivity.
Qed.

(* ---- the whole table ----------------------------------------------------------------------------- *)
Lemma check_glyphs_sound n all_locs o : Forall (fun l => length l = n) all_locs -> is_origin o ->
  forall gs first dflts rows,
  Forall (fun g : bool * points => wf_points n (snd g)) gs ->
  check_glyphs first all_locs o gs dflts rows = true ->
  forall k nd pts dflt row,
    nth_error gs k = Some (nd, pts) -> nth_error dflts k = Some dflt -> nth_error rows k = Some row ->
    forall l v, In (l, v) pts ->
      (Qabs (font_advance_spec dflt row l - inject_Z v) <= 1 # 2)%Q
      /\ (l = o -> font_advance_spec dflt row l == inject_Z v)%Q.
Proof.
  intros Hall Ho. induction gs as [|[nd0 p0] gs IH]; intros first dflts rows Hwf Hc k nd pts dflt row Hg Hd Hr l v Hlv.
  - destruct k; discriminate.
  - destruct dflts as [|d0 dflts]; [discriminate|]. destruct rows as [|r0 rows]; [discriminate|].
    cbn [check_glyphs] in Hc. apply andb_true_iff in Hc as [H0 Hrest].
    inversion Hwf as [|? ? Hw0 Hwf']; subst. cbn [snd] in Hw0.
    destruct k as [|k]; cbn [nth_error] in Hg, Hd, Hr.
    + injection Hg as <- <-. injection Hd as <-. injection Hr as <-.
      exact (check_glyph_sound n first all_locs nd0 p0 o d0 r0 Hw0 Hall Ho H0 l v Hlv).
    + exact (IH false dflts rows Hwf' Hrest k nd pts dflt row Hg Hd Hr l v Hlv).
Qed.

Theorem check_font_sound n d o gs dflts rows :
  Forall (fun g => wf_points n (glyph_points d g)) gs -> is_origin o ->
  check_font d o gs dflts rows = true ->
  forall k g dflt row,
    nth_error gs k = Some g -> nth_error dflts k = Some dflt -> nth_error rows k = Some row ->
    forall s, In s (g_srcs g) ->
      (Qabs (font_advance_spec dflt row (s_loc s) - inject_Z (advance_value d s)) <= 1 # 2)%Q
      /\ (s_loc s = o -> font_advance_spec dflt row (s_loc s) == inject_Z (advance_value d s))%Q.
Proof.
  intros Hwf Ho Hc k g dflt row Hg Hd Hr s Hs. unfold check_font in Hc.
  assert (Hall : Forall (fun l => length l = n) (flat_map (fun g => map s_loc (g_srcs g)) gs)).
  { apply Forall_forall. intros l Hl. apply in_flat_map in Hl as (g' & Hg' & Hl).
    rewrite Forall_forall in Hwf. destruct (Hwf g' Hg') as [_ Hlen]. rewrite Forall_forall in Hlen. apply Hlen.
    unfold glyph_points. rewrite map_map. cbn [fst]. exact Hl. }
  refine (check_glyphs_sound n _ o Hall Ho _ true dflts rows _ Hc k (g_notdef g) (glyph_points d g) dflt row _ Hd Hr
            (s_loc s) (advance_value d s) _).
  - apply Forall_forall. intros x Hx. apply in_map_iff in Hx as (g' & <- & Hg'). cbn [snd].
    rewrite Forall_forall in Hwf. apply Hwf. exact Hg'.
  - exact (map_nth_error (fun g => (g_notdef g, glyph_points d g)) k gs Hg).
  - unfold glyph_points. apply in_map_iff. exists s. split; [reflexivity|exact Hs].
Qed.
