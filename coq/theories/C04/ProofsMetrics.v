(* C04 — one global metric: the OS/2 / hhea / vhea / post field plus its MVAR record
   reproduce every master; a record is omitted exactly for metrics constant after rounding. *)
From Coq Require Import List ZArith QArith Qabs Qround Bool Lia Lqa Sorting.Permutation.
From Coq Require Import ZifyBool.
From FV.C07 Require Import Tents Trim Influence Deltas Main.
From FV.C04 Require Import Model ProofsBasic ProofsZp ProofsMaster ProofsGlyph.
Import ListNotations.
Open Scope Z_scope.

Definition field_fits (signed : bool) (z : Z) : bool := if signed then fits_i16 z else fits_u16 z.

Section Metric.
  Variable n : nat.
  Variable vals : list (V.loc * Q).
  Local Notation pts := (metric_points vals).
  Hypothesis Hwf : wf_points n pts.
  Variable o : V.loc.
  Variable x0 : Q.
  Hypothesis Hin0 : In (o, x0) vals.
  Hypothesis Ho : is_origin o.

  Lemma in_pts l x : In (l, x) vals -> In (l, ot_round x) pts.
  Proof. intro H. unfold metric_points. apply in_map_iff. exists (l, x). split; [reflexivity|exact H]. Qed.

  Lemma metric_at_default : (metric_at vals o == inject_Z (ot_round x0))%Q.
  Proof. unfold metric_at. exact (interpolate_default n pts Hwf o (ot_round x0) (in_pts o x0 Hin0) Ho). Qed.

  Lemma default_field_exact signed : field_fits signed (ot_round x0) = true ->
    default_field signed vals o = ot_round x0.
  Proof.
    intro Hf. unfold default_field. rewrite (ot_round_comp _ _ metric_at_default), ot_round_inject.
    unfold field_fits in Hf. destruct signed; [apply sat_i16_fits|apply sat_u16_fits]; exact Hf.
  Qed.

  Lemma record_cases :
    mvar_record vals = Some (narrow pts)
    \/ (mvar_record vals = None /\ Forall (fun rd => snd rd = 0) (narrow pts)).
  Proof.
    unfold mvar_record.
    destruct (Nat.eqb (length (raw_deltas (map fst pts) pts)) 1) eqn:E1.
    - right. split; [reflexivity|]. apply Nat.eqb_eq in E1.
      destruct (raw_shape n pts Hwf o (ot_round x0) (in_pts o x0 Hin0) Ho) as (ds & _ & E).
      rewrite E in E1. cbn [length] in E1. rewrite combine_length, seq_length, map_length, Nat.min_id in E1.
      destruct ds; [|cbn [length] in E1; lia].
      unfold narrow. rewrite narrow_with_pick, E. cbn [length seq map combine flat_map].
      rewrite (pick_default n pts Hwf o (ot_round x0) (in_pts o x0 Hin0) Ho). constructor.
    - destruct (forallb (fun rd => snd rd =? 0) (narrow pts)) eqn:E2.
      + right. split; [reflexivity|]. rewrite forallb_forall in E2. apply Forall_forall.
        intros rd H. apply Z.eqb_eq. apply E2. exact H.
      + left. reflexivity.
  Qed.

  Theorem metric_master signed : deltas_fit pts -> field_fits signed (ot_round x0) = true ->
    forall l x, In (l, x) vals ->
      (Qabs (font_metric signed vals o l - inject_Z (ot_round x)) <= 1 # 2)%Q.
  Proof.
    intros Hfit Hf l x Hlx. unfold font_metric. rewrite (default_field_exact signed Hf).
    pose proof (value_at_master n pts Hwf o (ot_round x0) (in_pts o x0 Hin0) Ho Hfit l (ot_round x) (in_pts l x Hlx)) as B.
    destruct record_cases as [E|[E Z]]; rewrite E; [exact B|].
    unfold font_value in B. rewrite (eval_deltas_zero _ l Z) in B.
    setoid_replace (inject_Z (ot_round x0) + 0)%Q with (inject_Z (ot_round x0)) in B by ring. exact B.
  Qed.

  Theorem metric_default signed : deltas_fit pts -> field_fits signed (ot_round x0) = true ->
    (font_metric signed vals o o == inject_Z (ot_round x0))%Q.
  Proof.
    intros Hfit Hf. unfold font_metric. rewrite (default_field_exact signed Hf).
    destruct record_cases as [E|[E Z]]; rewrite E; [|reflexivity].
    exact (value_at_default n pts Hwf o (ot_round x0) (in_pts o x0 Hin0) Ho Hfit).
  Qed.

  (* no record only when the metric is the same in every master (after rounding) *)
  Theorem omitted_constant : mvar_record vals = None -> deltas_fit pts ->
    forall l x, In (l, x) vals -> ot_round x = ot_round x0.
  Proof.
    intros E Hfit l x Hlx.
    pose proof (value_at_master n pts Hwf o (ot_round x0) (in_pts o x0 Hin0) Ho Hfit l (ot_round x) (in_pts l x Hlx)) as B.
    destruct record_cases as [E'|[_ Z]]; [congruence|].
    unfold font_value in B. rewrite (eval_deltas_zero _ l Z) in B.
    setoid_replace (inject_Z (ot_round x0) + 0)%Q with (inject_Z (ot_round x0)) in B by ring.
    symmetry. apply int_close_eq. exact B.
  Qed.

  (* ... and always then *)
  Theorem constant_omitted : (forall l x, In (l, x) vals -> ot_round x = ot_round x0) -> mvar_record vals = None.
  Proof.
    intro Hc.
    assert (Z : Forall (fun rd => snd rd = 0) (narrow pts)).
    { apply (const_deltas_zero n pts Hwf o (ot_round x0) (in_pts o x0 Hin0) Ho).
      intros l v H. unfold metric_points in H. apply in_map_iff in H as ([l' x] & E & Hx).
      cbn [fst snd] in E. injection E as <- <-. eapply Hc. exact Hx. }
    unfold mvar_record. destruct (Nat.eqb (length (raw_deltas (map fst pts) pts)) 1); [reflexivity|].
    replace (forallb (fun rd => snd rd =? 0) (narrow pts)) with true; [reflexivity|].
    symmetry. apply forallb_forall. intros rd H. rewrite Forall_forall in Z. apply Z.eqb_eq. apply Z. exact H.
  Qed.
End Metric.
