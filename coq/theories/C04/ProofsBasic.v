(* C04 — basic facts: rounding, saturation, location equality, lookups, sums. *)
From Coq Require Import List ZArith QArith Qabs Qround Bool Lia Lqa Sorting.Permutation.
From Coq Require Import ZifyBool.
From FV.C07 Require Import Tents Trim Influence Deltas Main.
From FV.C04 Require Import Model.
Import ListNotations.
Open Scope Z_scope.

(* ---- ot_round ---------------------------------------------------------------------- *)
Lemma Qfloor_unique (q : Q) (z : Z) : (inject_Z z <= q < inject_Z (z + 1))%Q -> Qfloor q = z.
Proof.
  intros [H1 H2].
  pose proof (Qfloor_le q) as A. pose proof (Qlt_floor q) as B.
  assert (C : (inject_Z z < inject_Z (Qfloor q + 1))%Q) by lra.
  assert (D : (inject_Z (Qfloor q) < inject_Z (z + 1))%Q) by lra.
  rewrite <- Zlt_Qlt in C, D. lia.
Qed.

Lemma ot_round_inject z : ot_round (inject_Z z) = z.
Proof.
  unfold ot_round. apply Qfloor_unique.
  rewrite inject_Z_plus. change (inject_Z 1) with 1%Q. lra.
Qed.

Lemma ot_round_bound q : (Qabs (inject_Z (ot_round q) - q) <= 1 # 2)%Q.
Proof.
  unfold ot_round.
  pose proof (Qfloor_le (q + (1 # 2))) as A. pose proof (Qlt_floor (q + (1 # 2))) as B.
  rewrite inject_Z_plus in B. change (inject_Z 1) with 1%Q in B.
  apply Qabs_Qle_condition. lra.
Qed.

Lemma ot_round_comp a b : (a == b)%Q -> ot_round a = ot_round b.
Proof. intro H. unfold ot_round. apply Qfloor_comp. rewrite H. reflexivity. Qed.

(* two integers within 1/2 of the same rational ... are not necessarily equal; but an
   integer within 1/2 of another integer (strictly less than 1 apart) is that integer *)
Lemma int_close_eq (a b : Z) : (Qabs (inject_Z a - inject_Z b) <= 1 # 2)%Q -> a = b.
Proof.
  intro H. apply Qabs_Qle_condition in H as [H1 H2].
  assert (A : (inject_Z a < inject_Z (b + 1))%Q) by (rewrite inject_Z_plus; change (inject_Z 1) with 1%Q; lra).
  assert (B : (inject_Z b < inject_Z (a + 1))%Q) by (rewrite inject_Z_plus; change (inject_Z 1) with 1%Q; lra).
  rewrite <- Zlt_Qlt in A, B. lia.
Qed.

(* ---- saturation ---------------------------------------------------------------------- *)
Lemma sat_fits lo hi z : fits lo hi z = true -> sat lo hi z = z.
Proof. unfold fits, sat. lia. Qed.

Lemma sat_i16_fits z : fits_i16 z = true -> sat_i16 z = z.
Proof. apply sat_fits. Qed.

Lemma sat_u16_fits z : fits_u16 z = true -> sat_u16 z = z.
Proof. apply sat_fits. Qed.

Lemma sat_idem lo hi z : lo <= hi -> sat lo hi (sat lo hi z) = sat lo hi z.
Proof. unfold sat. lia. Qed.

(* ---- locations ------------------------------------------------------------------------- *)
Lemma loc_eqb_eq a : forall b, loc_eqb a b = true <-> a = b.
Proof.
  induction a as [|x a IH]; intros [|y b]; cbn [loc_eqb]; split; intro H;
    try reflexivity; try discriminate.
  - apply andb_true_iff in H as [H1 H2]. apply Z.eqb_eq in H1. apply IH in H2. congruence.
  - inversion H; subst. apply andb_true_iff. split; [apply Z.eqb_refl|apply IH; reflexivity].
Qed.

Lemma loc_eqb_refl a : loc_eqb a a = true.
Proof. apply loc_eqb_eq. reflexivity. Qed.

Lemma loc_eqb_neq a b : a <> b -> loc_eqb a b = false.
Proof. intro H. destruct (loc_eqb a b) eqn:E; [|reflexivity]. apply loc_eqb_eq in E. contradiction. Qed.

Lemma mem_loc_In ls l : mem_loc ls l = true <-> In l ls.
Proof.
  unfold mem_loc. rewrite existsb_exists. split.
  - intros (x & Hx & E). apply loc_eqb_eq in E. subst. exact Hx.
  - intro H. exists l. split; [exact H|apply loc_eqb_refl].
Qed.

Lemma lookup_in (pts : points) : NoDup (map fst pts) ->
  forall l v, In (l, v) pts -> lookup l pts = Some v.
Proof.
  induction pts as [|[k w] pts IH]; intros Hnd l v Hin; [destruct Hin|].
  cbn [map fst] in Hnd. inversion Hnd as [|? ? Hk Hnd']; subst. cbn [lookup].
  destruct Hin as [E|Hin].
  - injection E as -> ->. rewrite loc_eqb_refl. reflexivity.
  - destruct (loc_eqb k l) eqn:E.
    + apply loc_eqb_eq in E. subst k. exfalso. apply Hk. apply in_map_iff. exists (l, v). split; [reflexivity|exact Hin].
    + apply IH; assumption.
Qed.

Lemma lookup_some (pts : points) l v : lookup l pts = Some v -> In (l, v) pts.
Proof.
  induction pts as [|[k w] pts IH]; cbn [lookup]; [discriminate|].
  destruct (loc_eqb k l) eqn:E.
  - intro H. injection H as <-. apply loc_eqb_eq in E. subst. left. reflexivity.
  - intro H. right. apply IH. exact H.
Qed.

Lemma nodup_locs_NoDup ls : NoDup (nodup_locs ls).
Proof.
  induction ls as [|l t IH]; cbn [nodup_locs]; [constructor|].
  destruct (mem_loc t l) eqn:E; [exact IH|]. constructor; [|exact IH].
  intro H. assert (Hin : In l t).
  { clear -H. induction t as [|x t IH]; cbn [nodup_locs] in H; [exact H|].
    destruct (mem_loc t x); [right; apply IH; exact H|]. destruct H as [->|H]; [left; reflexivity|right; apply IH; exact H]. }
  apply mem_loc_In in Hin. congruence.
Qed.

Lemma nodup_locs_In ls l : In l (nodup_locs ls) <-> In l ls.
Proof.
  induction ls as [|x t IH]; cbn [nodup_locs]; [tauto|].
  destruct (mem_loc t x) eqn:E.
  - apply mem_loc_In in E. rewrite IH. split; [intro H; right; exact H|]. intros [->|H]; assumption.
  - cbn [In]. rewrite IH. tauto.
Qed.

(* ---- origin ------------------------------------------------------------------------------ *)
Lemma all_inactive_origin (l : V.loc) : forallb negb (map V.nz l) = true -> is_origin l.
Proof.
  unfold is_origin. induction l as [|v l IH]; cbn [map forallb]; intro H; [constructor|].
  apply andb_true_iff in H as [H1 H2]. constructor; [|apply IH; exact H2].
  unfold V.nz in H1. lia.
Qed.

Lemma origin_all_inactive (l : V.loc) : is_origin l -> forallb negb (map V.nz l) = true.
Proof.
  unfold is_origin. induction 1 as [|v l Hv _ IH]; cbn [map forallb]; [reflexivity|].
  subst v. rewrite IH. reflexivity.
Qed.

(* ---- sums --------------------------------------------------------------------------------- *)
Lemma eval_deltas_app a b l : (eval_deltas (a ++ b) l == eval_deltas a l + eval_deltas b l)%Q.
Proof.
  unfold eval_deltas. induction a as [|x a IH]; cbn [app fold_right]; [ring|]. rewrite IH. ring.
Qed.

Lemma eval_deltas_zero ds l : Forall (fun rd => snd rd = 0) ds -> (eval_deltas ds l == 0)%Q.
Proof.
  unfold eval_deltas. induction 1 as [|x ds Hx _ IH]; cbn [fold_right]; [reflexivity|].
  rewrite IH, Hx. change (inject_Z 0) with 0%Q. ring.
Qed.

Lemma In_nth_error_ex {A} (l : list A) x : In x l -> exists k, nth_error l k = Some x.
Proof. apply In_nth_error. Qed.
