(* C04 — the delta set handed to the variation store reproduces every master:
   base value + sum of scalar * (narrowed) delta is within 1/2 of the rounded master
   value at each master location, exact at the default location; constant values give
   all-zero deltas. *)
From Coq Require Import List ZArith QArith Qabs Qround Bool Lia Lqa Sorting.Permutation.
From Coq Require Import ZifyBool.
From FV.C07 Require Import Tents Trim Influence Deltas Main.
From FV.C07 Require Props.
From FV.C04 Require Import Model ProofsBasic ProofsZp.
Import ListNotations.
Open Scope Z_scope.

(* a point set: distinct locations with n coordinates each *)
Definition wf_points (n : nat) (pts : points) : Prop := wf_input n (map fst pts).

(* no delta other than the default region's is changed by the cast to i16 *)
Definition deltas_fit_with (mlocs : list V.loc) (pts : points) : Prop :=
  Forall (fun kd : nat * Q => fst kd = 0%nat \/ fits_i16 (ot_round (snd kd)) = true) (raw_deltas mlocs pts).
Definition deltas_fit (pts : points) : Prop := deltas_fit_with (map fst pts) pts.

Lemma deltas_fitb_sound pts : deltas_fitb pts = true -> deltas_fit pts.
Proof.
  unfold deltas_fitb, deltas_fit, deltas_fit_with. rewrite forallb_forall, Forall_forall.
  intros H kd Hin. specialize (H kd Hin). apply orb_true_iff in H as [H|H]; [left; apply Nat.eqb_eq; exact H|right; exact H].
Qed.

(* the closure of narrow_with *)
Definition pick (infl : list V.region) (kd : nat * Q) : list (V.region * Z) :=
  match nth_error infl (fst kd) with
  | Some r => if region_is_default r then [] else [(r, sat_i16 (ot_round (snd kd)))]
  | None => []
  end.

Lemma narrow_with_pick mlocs pts :
  narrow_with mlocs pts = flat_map (pick (V.m_infl (V.model_new mlocs))) (raw_deltas mlocs pts).
Proof. reflexivity. Qed.

(* ---- shape of the delta list when every location has a value ------------------------------ *)
Definition somes (zs : list Z) : list (option Q) := map (fun z => Some (inject_Z z)) zs.

Lemma deltas_from_shape : forall ws zs i res, length ws = length zs ->
  exists ds, length ds = length zs /\
    V.deltas_from true i ws (somes zs) res = res ++ combine (seq i (length zs)) (map inject_Z ds).
Proof.
  induction ws as [|w ws IH]; intros [|z zs] i res Hlen; cbn [length] in Hlen; try discriminate.
  - exists []. split; [reflexivity|]. cbn. rewrite app_nil_r. reflexivity.
  - cbn [somes map V.deltas_from]. fold (somes zs).
    set (d := V.subtract_influences (inject_Z z) w res).
    destruct (IH zs (S i) (res ++ [(i, V.apply_rounding true d)])) as (ds & Hl & E); [lia|].
    exists (V.round_ties_even d :: ds). split; [cbn [length]; lia|].
    rewrite E, <- app_assoc. cbn [length seq map combine app]. reflexivity.
Qed.

(* ---- interpolation of the non-default part -------------------------------------------------- *)
Lemma interp_nondefault infl l : forall rest : list (nat * Q),
  Forall (fun kd => exists r z, nth_error infl (fst kd) = Some r /\ region_is_default r = false
                               /\ snd kd = inject_Z z /\ fits_i16 z = true) rest ->
  (V.interpolate infl rest l == eval_deltas (flat_map (pick infl) rest) l)%Q.
Proof.
  induction 1 as [|[k d] rest (r & z & Hr & Hd & Hz & Hf) _ IH]; cbn [flat_map V.interpolate]; [reflexivity|].
  cbn [fst snd] in *. rewrite eval_deltas_app, <- IH. unfold pick. cbn [fst snd].
  rewrite Hr, Hd, Hz, ot_round_inject, (sat_i16_fits _ Hf).
  unfold eval_deltas. cbn [fold_right fst snd]. ring.
Qed.

(* ---- the main section: one point set --------------------------------------------------------- *)
Section OneSet.
  Variable n : nat.
  Variable pts : points.
  Hypothesis Hwf : wf_points n pts.
  Variable o : V.loc.
  Variable v0 : Z.
  Hypothesis Hin0 : In (o, v0) pts.
  Hypothesis Ho : is_origin o.

  Let locs := map fst pts.
  Let m := V.model_new locs.

  Lemma m_locs_sorted : V.m_locs m = V.sort_locations locs.
  Proof. reflexivity. Qed.

  Lemma inv : Permutation (V.m_locs m) locs
              /\ Forall2 wf_region (V.m_locs m) (V.m_infl m)
              /\ later_dead (V.m_locs m) (V.m_infl m)
              /\ V.m_weights m = V.delta_weights_from 0 (V.m_infl m) (V.m_locs m).
  Proof. exact (model_invariants n locs Hwf). Qed.

  Lemma nodup_pts : NoDup (map fst pts).
  Proof. exact (proj1 Hwf). Qed.

  Lemma in_locs_lookup l : In l (V.m_locs m) -> exists v, In (l, v) pts /\ lookup l pts = Some v.
  Proof.
    intro H. destruct inv as (Hp & _). apply (Permutation_in _ Hp) in H.
    unfold locs in H. apply in_map_iff in H as ([l' v] & E & Hin). cbn [fst] in E. subst l'.
    exists v. split; [exact Hin|apply lookup_in; [exact nodup_pts|exact Hin]].
  Qed.

  Definition zvals : list Z :=
    map (fun l => match lookup l pts with Some v => v | None => 0 end) (V.m_locs m).

  Lemma model_vals_somes : model_vals m pts = somes zvals.
  Proof.
    unfold model_vals, somes, zvals. rewrite map_map. apply map_ext_in.
    intros l Hl. destruct (in_locs_lookup l Hl) as (v & _ & E). rewrite E. reflexivity.
  Qed.

  Lemma first_loc : exists rest, V.m_locs m = o :: rest.
  Proof.
    assert (H : nth_error (V.sort_locations locs) 0 = Some o).
    { apply (origin_first n locs o Hwf); [|exact Ho]. unfold locs. apply in_map_iff. exists (o, v0). split; [reflexivity|exact Hin0]. }
    rewrite m_locs_sorted. destruct (V.sort_locations locs) as [|h t]; [discriminate|].
    cbn in H. injection H as ->. exists t. reflexivity.
  Qed.

  Lemma infl_len : length (V.m_infl m) = length (V.m_locs m).
  Proof. destruct inv as (_ & A & _). exact (Forall2_len _ _ _ A). Qed.

  Lemma wf_at k l : nth_error (V.m_locs m) k = Some l ->
    exists r, nth_error (V.m_infl m) k = Some r /\ wf_region l r /\ zp_region r.
  Proof.
    intro Hk. destruct inv as (_ & A & _).
    assert (Hlt : (k < length (V.m_infl m))%nat) by (rewrite infl_len; apply nth_error_Some; congruence).
    destruct (nth_error (V.m_infl m) k) as [r|] eqn:Hr; [|apply nth_error_None in Hr; lia].
    exists r. split; [reflexivity|]. split.
    - clear -A Hk Hr. revert k Hk Hr. induction A as [|l0 r0 ls rs H0 _ IH]; intros [|k] Hk Hr; cbn in Hk, Hr; try discriminate.
      + injection Hk as <-. injection Hr as <-. exact H0.
      + eapply IH; eassumption.
    - pose proof (model_zp n locs Hwf) as Z. fold m in Z. rewrite Forall_forall in Z. apply Z.
      eapply nth_error_In. exact Hr.
  Qed.

  Lemma nodup_mlocs : NoDup (V.m_locs m).
  Proof. destruct inv as (Hp & _). eapply Permutation_NoDup; [symmetry; exact Hp|exact nodup_pts]. Qed.

  Lemma len_mlocs l : In l (V.m_locs m) -> length l = n.
  Proof.
    intro H. destruct inv as (Hp & _). apply (Permutation_in _ Hp) in H.
    destruct Hwf as [_ Hl]. rewrite Forall_forall in Hl. apply Hl. exact H.
  Qed.

  (* a region other than the first is not the default region *)
  Lemma later_not_default k l r : (0 < k)%nat -> nth_error (V.m_locs m) k = Some l ->
    nth_error (V.m_infl m) k = Some r -> region_is_default r = false.
  Proof.
    intros Hk Hl Hr. destruct (wf_at k l Hl) as (r' & Hr' & [_ Hact] & _).
    rewrite Hr in Hr'. injection Hr' as <-.
    destruct (region_is_default r) eqn:E; [|reflexivity]. exfalso.
    unfold region_is_default in E. rewrite Hact in E. apply all_inactive_origin in E.
    destruct first_loc as (rest & Hm).
    assert (l = o).
    { eapply origin_unique; [apply len_mlocs; eapply nth_error_In; exact Hl
                            |apply len_mlocs; rewrite Hm; left; reflexivity|exact E|exact Ho]. }
    subst l. pose proof nodup_mlocs as Hnd. rewrite Hm in Hnd, Hl.
    destruct k; [lia|]. cbn in Hl. inversion Hnd as [|? ? Hnot _]; subst. apply Hnot. eapply nth_error_In. exact Hl.
  Qed.

  (* the raw deltas: the default's own value first, then one integer per other master *)
  Lemma raw_shape : exists ds, S (length ds) = length (V.m_locs m) /\
    raw_deltas locs pts = (0%nat, inject_Z v0) :: combine (seq 1 (length ds)) (map inject_Z ds).
  Proof.
    unfold raw_deltas. fold m. unfold V.deltas. destruct inv as (_ & _ & _ & Hw). rewrite Hw, model_vals_somes.
    destruct first_loc as (rest & Hm). unfold zvals. rewrite Hm. cbn [map V.delta_weights_from].
    rewrite (lookup_in pts nodup_pts o v0 Hin0).
    cbn [firstn V.weights_at somes map V.deltas_from app V.subtract_influences].
    fold (somes (map (fun l => match lookup l pts with Some v => v | None => 0 end) rest)).
    set (zs := map (fun l => match lookup l pts with Some v => v | None => 0 end) rest).
    destruct (deltas_from_shape (V.delta_weights_from 1 (V.m_infl m) rest) zs 1
                [(0%nat, V.apply_rounding true (inject_Z v0))]) as (ds & Hl & E).
    { unfold zs. rewrite map_length. clear. generalize 1%nat. induction rest as [|a rest IH]; intro i; cbn; [reflexivity|]. rewrite IH. reflexivity. }
    exists ds. split; [unfold zs in Hl; rewrite map_length in Hl; cbn [length]; lia|].
    rewrite E. cbn [app]. unfold V.apply_rounding. rewrite round_ties_even_int, Hl. reflexivity.
  Qed.

  Lemma first_region : exists r0, nth_error (V.m_infl m) 0 = Some r0 /\ wf_region o r0 /\ zp_region r0.
  Proof. destruct first_loc as (rest & Hm). apply wf_at. rewrite Hm. reflexivity. Qed.

  Lemma first_region_one r0 : nth_error (V.m_infl m) 0 = Some r0 -> forall x, (V.scalar_at r0 x == 1)%Q.
  Proof.
    intros Hr x. destruct first_region as (r & Hr' & A & B). rewrite Hr in Hr'. injection Hr' as <-.
    exact (origin_region_scalar o r0 A B Ho x).
  Qed.

  Lemma pick_default d : pick (V.m_infl m) (0%nat, d) = [].
  Proof.
    destruct first_region as (r0 & Hr0 & [_ Ha] & _). unfold pick. cbn [fst]. rewrite Hr0.
    unfold region_is_default. rewrite Ha, (origin_all_inactive o Ho). reflexivity.
  Qed.

  (* ---- the stored delta set means what the model's deltas mean --------------------------------- *)
  Lemma narrow_interpolate : deltas_fit pts -> forall l,
    (V.interpolate (V.m_infl m) (raw_deltas locs pts) l == inject_Z v0 + eval_deltas (narrow pts) l)%Q.
  Proof.
    intros Hfit l. unfold narrow. fold locs. rewrite narrow_with_pick. fold m.
    destruct raw_shape as (ds & Hlen & E). unfold deltas_fit, deltas_fit_with in Hfit. fold locs in Hfit. rewrite E in *.
    destruct first_loc as (rest & Hm).
    destruct (wf_at 0 o) as (r0 & Hr0 & Hwf0 & Hz0); [rewrite Hm; reflexivity|].
    cbn [V.interpolate flat_map]. rewrite Hr0.
    assert (Hd0 : pick (V.m_infl m) (0%nat, inject_Z v0) = []).
    { unfold pick. cbn [fst]. rewrite Hr0. unfold region_is_default. destruct Hwf0 as [_ Ha]. rewrite Ha, (origin_all_inactive o Ho). reflexivity. }
    rewrite Hd0. cbn [app]. rewrite (origin_region_scalar o r0 Hwf0 Hz0 Ho l).
    rewrite <- interp_nondefault; [ring|].
    inversion Hfit as [|? ? _ Hfit']; subst. rewrite Forall_forall in Hfit'. apply Forall_forall.
    intros [k d] Hkd. pose proof (in_combine_l _ _ _ _ Hkd) as Hk. pose proof (in_combine_r _ _ _ _ Hkd) as Hd.
    apply in_seq in Hk. apply in_map_iff in Hd as (z & <- & _).
    assert (Hkl : (k < length (V.m_locs m))%nat) by lia.
    destruct (nth_error (V.m_locs m) k) as [lk|] eqn:Hlk; [|apply nth_error_None in Hlk; lia].
    destruct (wf_at k lk Hlk) as (r & Hr & _).
    exists r, z. cbn [fst snd]. split; [exact Hr|]. split; [eapply later_not_default; [|exact Hlk|exact Hr]; lia|].
    split; [reflexivity|]. destruct (Hfit' _ Hkd) as [H0|H1]; cbn [fst snd] in *; [lia|].
    rewrite ot_round_inject in H1. exact H1.
  Qed.

  (* ---- every master is reproduced ------------------------------------------------------------- *)
  Theorem value_at_master : deltas_fit pts -> forall l v, In (l, v) pts ->
    (Qabs (font_value v0 (narrow pts) l - inject_Z v) <= 1 # 2)%Q.
  Proof.
    intros Hfit l v Hlv. unfold font_value. rewrite <- (narrow_interpolate Hfit l).
    destruct inv as (Hp & _).
    assert (Hl : In l (V.m_locs m)).
    { apply (Permutation_in _ (Permutation_sym Hp)). unfold locs. apply in_map_iff. exists (l, v). split; [reflexivity|exact Hlv]. }
    apply In_nth_error in Hl as (k & Hk).
    unfold raw_deltas. fold m.
    refine (Props.deltas_reproduce_rounded n locs Hwf (model_vals m pts) _ k l (inject_Z v) Hk _).
    - unfold model_vals. rewrite map_length. reflexivity.
    - unfold model_vals. rewrite (map_nth_error _ _ _ Hk), (lookup_in pts nodup_pts l v Hlv). reflexivity.
  Qed.

  (* GlobalMetrics::get at the default location *)
  Lemma interpolate_default :
    (V.interpolate (V.m_infl m) (raw_deltas locs pts) o == inject_Z v0)%Q.
  Proof.
    assert (Hino : In o locs) by (unfold locs; apply in_map_iff; exists (o, v0); split; [reflexivity|exact Hin0]).
    destruct (Props.default_exact n locs o Hwf Hino Ho) as [H0 H]. cbn zeta in H0, H.
    assert (E := H true (model_vals m pts) (inject_Z v0)).
    unfold raw_deltas. unfold m in *. rewrite E.
    - rewrite Props.default_exact_integer. reflexivity.
    - unfold model_vals. rewrite map_length. reflexivity.
    - unfold model_vals. rewrite (map_nth_error _ _ _ H0), (lookup_in pts nodup_pts o v0 Hin0). reflexivity.
  Qed.

  Theorem value_at_default : deltas_fit pts -> (font_value v0 (narrow pts) o == inject_Z v0)%Q.
  Proof.
    intros Hfit. unfold font_value. rewrite <- (narrow_interpolate Hfit o). exact interpolate_default.
  Qed.
End OneSet.
