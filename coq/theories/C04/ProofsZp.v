(* C04 — one more invariant of the variation model (FV.C07): a tent whose peak is 0 is
   the all-zero tent (0,0,0) in every influence region.  It makes the default master's
   region the constant 1, and makes fontc's scalar agree with the OpenType scalar (which
   ignores every axis whose peak is 0). *)
From Coq Require Import List ZArith QArith Qabs Bool Lia Lqa Sorting.Permutation Sorting.Sorted.
From Coq Require Import ZifyBool.
From FV.C07 Require Import Tents Trim Influence Deltas Main.
From FV.C04 Require Import Model ProofsBasic.
Import ListNotations.
Open Scope Z_scope.

Definition zp_tent (t : V.tent) : Prop := V.tpeak t = 0 -> is_zero_tent t.
Definition zp_region (r : V.region) : Prop := Forall zp_tent (V.tents r).

Lemma tent_new_peak mn pk mx : V.tpeak (V.tent_new mn pk mx) = pk.
Proof. unfold V.tent_new. destruct (0 <? pk); reflexivity. Qed.

Lemma region_tents_zp locs l : forall i, Forall zp_tent (V.region_tents locs i l).
Proof.
  induction l as [|v l IH]; intro i; cbn [V.region_tents]; constructor; [|apply IH].
  destruct (Z.eqb_spec v 0) as [->|Hv].
  - intros _. unfold V.tent_new. cbn. repeat split.
  - intro H. rewrite tent_new_peak in H. contradiction.
Qed.

Lemma region_of_zp locs l : zp_region (V.region_of locs l).
Proof. unfold zp_region, V.region_of. cbn [V.tents]. apply region_tents_zp. Qed.

Lemma cut_tent_peak x : V.tpeak (V.cut_tent x) = V.tpeak (fst (fst x)).
Proof. destruct x as [[t pp] act]. unfold V.cut_tent. cbn [fst]. destruct (pp <? V.tpeak t); reflexivity. Qed.

Lemma map2_cut_zp xs : forall f,
  Forall good xs -> Forall2 flag_ok xs f ->
  Forall zp_tent (map (fun x => fst (fst x)) xs) ->
  Forall zp_tent (V.map2 V.apply_cut xs f).
Proof.
  induction xs as [|x xs IH]; intros f Hg HF Hz; inversion HF as [|? fl ? f' Hfl HF']; subst;
    cbn [V.map2]; [constructor|].
  inversion Hg as [|? ? Hgx Hgxs]; subst. cbn [map] in Hz. inversion Hz as [|? ? Hzx Hzxs]; subst.
  constructor; [|apply IH; assumption].
  unfold V.apply_cut. destruct fl; [|exact Hzx].
  intro Hp. rewrite cut_tent_peak in Hp. exfalso.
  specialize (Hfl eq_refl). destruct x as [[t pp] act]. cbn [fst] in Hp.
  unfold V.cand in Hfl. apply andb_true_iff in Hfl as [Ha _].
  destruct Hgx as (_ & _ & Hact). apply Hact in Ha. contradiction.
Qed.

Lemma trim_zp l lp r prev :
  wf_region l r -> wf_region lp prev -> length lp = length l -> zp_region r -> zp_region (V.trim r prev).
Proof.
  intros Hr Hp Hlen Hz. unfold V.trim.
  destruct (negb (V.bools_eqb (V.active r) (V.active prev))); [exact Hz|].
  rewrite (wf_peaks _ _ Hp).
  destruct (forallb V.overlap1 (combine (V.tents r) lp)) eqn:Hov; cbn [negb]; [|exact Hz].
  destruct (axis_inputs_good l r lp Hr Hlen Hov) as (Hg & Ht & Hpp & Ha).
  fold (axis_inputs r lp).
  destruct (one_pass_flags (axis_inputs r lp)) as [HF _].
  unfold zp_region. cbn [V.tents]. apply map2_cut_zp; [exact Hg|exact HF|].
  rewrite Ht. exact Hz.
Qed.

Lemma fold_trim_zp acc : forall alocs l r,
  Forall2 wf_region alocs acc -> Forall (fun a => length a = length l) alocs ->
  wf_region l r -> zp_region r -> zp_region (fold_left V.trim acc r).
Proof.
  induction acc as [|p acc IH]; intros alocs l r HA HL Hr Hz; cbn [fold_left]; [exact Hz|].
  inversion HA as [|lp ? alocs' ? Hp HA']; subst. inversion HL as [|? ? Hlp HL']; subst.
  eapply IH; [exact HA'|exact HL'|eapply trim_wf; eassumption|eapply trim_zp; eassumption].
Qed.

Lemma influence_acc_zp full rest : forall alocs acc,
  Forall2 wf_region alocs acc -> Forall zp_region acc ->
  Forall (fun a => length a = length (hd [] full)) (alocs ++ rest) ->
  incl rest full ->
  Forall zp_region (V.influence_acc acc (map (V.region_of full) rest)).
Proof.
  induction rest as [|lj rest IH]; intros alocs acc HA HZ HL Hincl; cbn [map V.influence_acc]; [exact HZ|].
  assert (Hlj_in : In lj full) by (apply Hincl; left; reflexivity).
  pose proof (region_of_wf full lj Hlj_in) as Hrj.
  assert (HLa : Forall (fun a => length a = length lj) alocs).
  { apply Forall_app in HL as [HL1 HL2]. inversion HL2 as [|? ? Hlj _]; subst.
    eapply Forall_impl; [|exact HL1]. intros a Ha. cbn beta in *. congruence. }
  pose proof (fold_trim_wf acc alocs lj _ HA HLa Hrj) as Hnew.
  pose proof (fold_trim_zp acc alocs lj _ HA HLa Hrj (region_of_zp full lj)) as Hnz.
  apply (IH (alocs ++ [lj])).
  - apply Forall2_app; [exact HA|constructor; [exact Hnew|constructor]].
  - apply Forall_app. split; [exact HZ|constructor; [exact Hnz|constructor]].
  - rewrite <- app_assoc. exact HL.
  - intros x Hx. apply Hincl. right. exact Hx.
Qed.

Theorem model_zp n locs : wf_input n locs -> Forall zp_region (V.m_infl (V.model_new locs)).
Proof.
  intros [Hnd Hlen]. unfold V.model_new. cbn [V.m_infl].
  set (s := V.sort_locations locs).
  assert (Hp : Permutation s locs) by apply sort_perm.
  unfold V.master_influence, V.regions_for.
  apply (influence_acc_zp s s [] []).
  - constructor.
  - constructor.
  - cbn [app]. assert (Hs : Forall (fun l => length l = n) s).
    { eapply Permutation_Forall; [symmetry; exact Hp|exact Hlen]. }
    destruct s as [|h t]; [constructor|]. cbn [hd]. inversion Hs as [|? ? Hh _]; subst.
    eapply Forall_impl; [|exact Hs]. intros a Ha. cbn beta in *. congruence.
  - apply incl_refl.
Qed.

(* a region all of whose tents are (0,0,0) is the constant 1 *)
Lemma zero_tents_scalar ts : Forall is_zero_tent ts -> forall l, (V.scalar_tents ts l == 1)%Q.
Proof.
  induction 1 as [|t ts Ht _ IH]; intros [|v l]; cbn [V.scalar_tents]; try reflexivity.
  rewrite IH. destruct t as [mn pk mx]. destruct Ht as (A & B & C). cbn in A, B, C. subst.
  unfold V.tent_scalar. cbn. destruct (v =? 0); ring.
Qed.

Lemma origin_region_scalar l r : wf_region l r -> zp_region r -> is_origin l ->
  forall x, (V.scalar_at r x == 1)%Q.
Proof.
  intros [Hw _] Hz Ho x. unfold V.scalar_at. apply zero_tents_scalar.
  unfold zp_region in Hz. unfold is_origin in Ho.
  revert Hz Ho. induction Hw as [|v t l' ts [Hp _] _ IH]; intros Hz Ho; [constructor|].
  inversion Hz as [|? ? Hzt Hzts]; subst. inversion Ho as [|? ? Hv Ho']; subst.
  constructor; [apply Hzt; congruence|apply IH; assumption].
Qed.
