(* C04 — the property theorems of Props.v, proved (Props.v only restates them). *)
From Coq Require Import List ZArith QArith Qabs Qround Bool Lia Lqa.
From FV.C07 Require Import Tents Trim Main.
From FV.C04 Require Import Model ProofsBasic ProofsZp ProofsMaster ProofsGlyph ProofsMetrics ProofsIvs.
Import ListNotations.
Open Scope Z_scope.

Lemma advance_master_top : forall n d first all_locs g o v0,
  let pts := glyph_points d g in
  wf_points n pts -> Forall (fun l => length l = n) all_locs -> is_origin o ->
  In (o, v0) pts -> fits_u16 v0 = true ->
  (glyph_model_points first all_locs (g_notdef g) pts = Some pts -> deltas_fit pts) ->
  forall s, In s (g_srcs g) ->
    (Qabs (font_value (default_advance d o g) (add_glyph first all_locs (g_notdef g) pts) (s_loc s)
           - inject_Z (advance_value d s)) <= 1 # 2)%Q
    /\ (font_value (default_advance d o g) (add_glyph first all_locs (g_notdef g) pts) o == inject_Z v0)%Q.
Proof.
  intros n d first all_locs g o v0 pts Hwf Hall Ho Hin0 Hu Hfit s Hs.
  assert (Hd : default_advance d o g = v0).
  { unfold default_advance. fold pts. rewrite (lookup_in pts (proj1 Hwf) o v0 Hin0). apply sat_u16_fits. exact Hu. }
  rewrite Hd. apply (add_glyph_master n first all_locs (g_notdef g) pts o v0 Hwf Hall Hin0 Ho Hfit).
  unfold pts, glyph_points. apply in_map_iff. exists s. split; [reflexivity|exact Hs].
Qed.

Lemma advance_within_one_top : forall n first all_locs g o v0,
  let pts := glyph_points Horizontal g in
  wf_points n pts -> Forall (fun l => length l = n) all_locs -> is_origin o ->
  In (o, v0) pts -> fits_u16 v0 = true ->
  (glyph_model_points first all_locs (g_notdef g) pts = Some pts -> deltas_fit pts) ->
  forall s, In s (g_srcs g) ->
    (Qabs (font_value (default_advance Horizontal o g) (add_glyph first all_locs (g_notdef g) pts) (s_loc s)
           - s_width s) <= 1)%Q.
Proof.
  intros n first all_locs g o v0 pts Hwf Hall Ho Hin0 Hu Hfit s Hs.
  destruct (advance_master_top n Horizontal first all_locs g o v0 Hwf Hall Ho Hin0 Hu Hfit s Hs) as [B _].
  cbn [advance_value] in B. pose proof (ot_round_bound (s_width s)) as R.
  apply Qabs_Qle_condition in B. apply Qabs_Qle_condition in R. apply Qabs_Qle_condition. subst pts. lra.
Qed.

Lemma notdef_neutral_top : forall n all_locs l0 v0,
  length l0 = n -> Forall (fun l => length l = n) all_locs -> is_origin l0 ->
  Forall (fun rd => snd rd = 0) (narrow (densify all_locs l0 v0))
  /\ forall l, (font_value v0 (narrow (densify all_locs l0 v0)) l == inject_Z v0)%Q.
Proof.
  intros n all_locs l0 v0 Hl Hall Ho. pose proof (notdef_dense_copy_zero n all_locs l0 v0 Hl Hall Ho) as Z.
  split; [exact Z|]. intro l. unfold font_value. rewrite (eval_deltas_zero _ l Z). ring.
Qed.

Lemma phantom_height_top : forall n (vorigin : gsource -> Z) g o t0 b0,
  wf_points n (phantom_top vorigin g) -> wf_points n (phantom_bottom vorigin g) -> is_origin o ->
  In (o, t0) (phantom_top vorigin g) -> In (o, b0) (phantom_bottom vorigin g) ->
  deltas_fit (phantom_top vorigin g) -> deltas_fit (phantom_bottom vorigin g) ->
  forall s, In s (g_srcs g) ->
    (Qabs ((font_value t0 (narrow (phantom_top vorigin g)) (s_loc s)
            - font_value b0 (narrow (phantom_bottom vorigin g)) (s_loc s))
           - inject_Z (instance_height s)) <= 1)%Q.
Proof.
  intros n vo g o t0 b0 Ht Hb Ho It Ib Ft Fb s Hs.
  assert (A : In (s_loc s, vo s) (phantom_top vo g)) by (unfold phantom_top; apply in_map_iff; exists s; split; [reflexivity|exact Hs]).
  assert (B : In (s_loc s, vo s - instance_height s) (phantom_bottom vo g)) by (unfold phantom_bottom; apply in_map_iff; exists s; split; [reflexivity|exact Hs]).
  pose proof (value_at_master n _ Ht o t0 It Ho Ft _ _ A) as P.
  pose proof (value_at_master n _ Hb o b0 Ib Ho Fb _ _ B) as Q.
  unfold Zminus in Q. rewrite inject_Z_plus, inject_Z_opp in Q.
  apply Qabs_Qle_condition in P. apply Qabs_Qle_condition in Q. apply Qabs_Qle_condition. lra.
Qed.

Lemma metric_every_master_top : forall n vals o x0 signed,
  wf_points n (metric_points vals) -> In (o, x0) vals -> is_origin o ->
  deltas_fit (metric_points vals) -> field_fits signed (ot_round x0) = true ->
  (forall l x, In (l, x) vals ->
     (Qabs (font_metric signed vals o l - inject_Z (ot_round x)) <= 1 # 2)%Q)
  /\ default_field signed vals o = ot_round x0
  /\ (font_metric signed vals o o == inject_Z (ot_round x0))%Q.
Proof.
  intros n vals o x0 signed Hwf Hin Ho Hfit Hf. split; [|split].
  - exact (metric_master n vals Hwf o x0 Hin Ho signed Hfit Hf).
  - exact (default_field_exact n vals Hwf o x0 Hin Ho signed Hf).
  - exact (metric_default n vals Hwf o x0 Hin Ho signed Hfit Hf).
Qed.

Lemma mvar_iff_top : forall n vals o x0,
  wf_points n (metric_points vals) -> In (o, x0) vals -> is_origin o -> deltas_fit (metric_points vals) ->
  (mvar_record vals = None <-> forall l x, In (l, x) vals -> ot_round x = ot_round x0).
Proof.
  intros n vals o x0 Hwf Hin Ho Hfit. split.
  - intro E. exact (omitted_constant n vals Hwf o x0 Hin Ho E Hfit).
  - exact (constant_omitted n vals Hwf o x0 Hin Ho).
Qed.

Lemma ufo_metric_top : forall n upem masters (mt : metric) o fi0,
  let vals := ufo_metric_vals upem masters mt in
  wf_points n (metric_points vals) -> In (o, fi0) masters -> is_origin o ->
  deltas_fit (metric_points vals) ->
  field_fits (field_signed mt) (ot_round (ufo_metric upem fi0 mt)) = true ->
  forall l fi, In (l, fi) masters ->
    (Qabs (font_metric (field_signed mt) vals o l - inject_Z (ot_round (ufo_metric upem fi mt))) <= 1 # 2)%Q.
Proof.
  intros n upem masters mt o fi0 vals Hwf Hin Ho Hfit Hf l fi Hl.
  assert (A : In (o, ufo_metric upem fi0 mt) vals) by (unfold vals, ufo_metric_vals; apply in_map_iff; exists (o, fi0); split; [reflexivity|exact Hin]).
  assert (B : In (l, ufo_metric upem fi mt) vals) by (unfold vals, ufo_metric_vals; apply in_map_iff; exists (l, fi); split; [reflexivity|exact Hl]).
  exact (metric_master n vals Hwf o _ A Ho (field_signed mt) Hfit Hf l _ B).
Qed.

Lemma spec_scalar_model_top : forall n locs, wf_input n locs ->
  forall r, In r (V.m_infl (V.model_new locs)) ->
  forall l, length l = n -> (spec_scalar (region_coords r) l == V.scalar_at r l)%Q.
Proof.
  intros n locs Hwf r Hr l Hl.
  destruct (model_invariants n locs Hwf) as (Hp & A & _). cbn zeta in Hp, A.
  pose proof (model_zp n locs Hwf) as Z. rewrite Forall_forall in Z.
  apply In_nth_error in Hr as (k & Hk).
  assert (Hex : exists lk, nth_error (V.m_locs (V.model_new locs)) k = Some lk /\ wf_region lk r).
  { clear -A Hk. revert k Hk. induction A as [|l0 r0 ls rs H0 _ IH]; intros [|k] Hk; cbn in Hk; try discriminate.
    - injection Hk as <-. exists l0. split; [reflexivity|exact H0].
    - destruct (IH k Hk) as (lk & E & W). exists lk. split; [exact E|exact W]. }
  destruct Hex as (lk & Hlk & W).
  apply spec_scalar_region.
  - apply (wf_zp_ok lk r W). apply Z. eapply nth_error_In. exact Hk.
  - rewrite (wf_length lk r W), Hl. symmetry.
    destruct Hwf as [_ Hlen]. rewrite Forall_forall in Hlen. apply Hlen.
    apply (Permutation.Permutation_in _ Hp). eapply nth_error_In. exact Hlk.
Qed.

