(* C04 — advances and global metrics at each master.  Executable model of

     fontbe/src/metric_variations.rs   AdvanceDeltas::{new, add, is_single_model}
     fontbe/src/hvar.rs, vvar.rs       (what is handed to the variation store builder)
     fontbe/src/metrics_and_limits.rs  hmtx advance            (width.ot_round() -> u16)
     fontbe/src/vertical_metrics.rs    vmtx advance            (GlyphInstance::height)
     fontir/src/ir.rs                  GlobalMetricsBuilder::{populate_defaults, build},
                                       GlobalMetrics::get, GlyphInstance::{height, vertical_origin,
                                       add_phantom_points}
     ufo2fontir/src/source.rs          GlobalMetricsWork (fontinfo.plist -> metric values)
     fontbe/src/mvar.rs                MvarBuilder::add_deltas
     fontbe/src/os2.rs, post.rs, metrics_and_limits.rs, vertical_metrics.rs  (default fields)
     fontbe/src/glyphs.rs              model choice for the gvar phantom points

   on top of the model of the variation model (FV.C07.Model: locations are integer
   vectors scaled by one common denominator, scalars / deltas are rationals), and the
   OpenType item variation store evaluation written from the specification
   (otvarcommonformats: "Variation regions", "Item variation store", HVAR/MVAR).
   Definitions only; proofs are in Proofs*.v. *)
From Coq Require Import List ZArith QArith Qabs Qround Bool.
From FV.C07 Require Model.
Import ListNotations.
Module V := FV.C07.Model.
Open Scope Z_scope.

(* ---- numbers ------------------------------------------------------------------ *)
(* write_fonts::OtRound for f64: (x + 0.5).floor() *)
Definition ot_round (q : Q) : Z := Qfloor (q + (1 # 2)).
(* `as i16` / `as u16` on a float saturates *)
Definition sat (lo hi z : Z) : Z := Z.max lo (Z.min hi z).
Definition sat_u16 : Z -> Z := sat 0 65535.
Definition sat_i16 : Z -> Z := sat (-32768) 32767.
Definition fits (lo hi z : Z) : bool := (lo <=? z) && (z <=? hi).
Definition fits_i16 : Z -> bool := fits (-32768) 32767.
Definition fits_u16 : Z -> bool := fits 0 65535.

Fixpoint loc_eqb (a b : V.loc) : bool :=
  match a, b with
  | [], [] => true
  | x :: a', y :: b' => (x =? y) && loc_eqb a' b'
  | _, _ => false
  end.
Definition mem_loc (ls : list V.loc) (l : V.loc) : bool := existsb (loc_eqb l) ls.

(* HashMap<NormalizedLocation, Vec<f64>> with one (already rounded, hence integer)
   value per location: an association list *)
Definition points := list (V.loc * Z).

Fixpoint lookup (l : V.loc) (pts : points) : option Z :=
  match pts with
  | [] => None
  | (k, v) :: t => if loc_eqb k l then Some v else lookup l t
  end.

(* ---- one call of VariationModel::deltas + the filter_map that follows it ---------- *)
(* point_seqs reordered to the model's location order (None: not in point_seqs) *)
Definition model_vals (m : V.model) (pts : points) : list (option Q) :=
  map (fun l => option_map inject_Z (lookup l pts)) (V.m_locs m).

(* model.deltas(&advances): deltas_with_rounding(.., RoundTiesEven) *)
Definition raw_deltas (mlocs : list V.loc) (pts : points) : list (nat * Q) :=
  let m := V.model_new mlocs in V.deltas m true (model_vals m pts).

(* VariationRegion::is_default: active_axes is empty *)
Definition region_is_default (r : V.region) : bool := forallb negb (V.active r).

(* .filter_map(|(region, values)| if region.is_default() { None }
                                  else { Some((region.to_write_fonts..., values[0].ot_round())) })
   the target type of ot_round is i16 *)
Definition narrow_with (mlocs : list V.loc) (pts : points) : list (V.region * Z) :=
  let infl := V.m_infl (V.model_new mlocs) in
  flat_map (fun kd : nat * Q =>
              match nth_error infl (fst kd) with
              | Some r => if region_is_default r then [] else [(r, sat_i16 (ot_round (snd kd)))]
              | None => []
              end) (raw_deltas mlocs pts).

(* the model is the one of the point set's own locations (AdvanceDeltas caches models by
   location set; VariationModel::new is a function of the set: FV.C07 theorem 8) *)
Definition narrow (pts : points) : list (V.region * Z) := narrow_with (map fst pts) pts.

(* what a delta set means at a location: sum of scalar * delta *)
Definition eval_deltas (ds : list (V.region * Z)) (l : V.loc) : Q :=
  fold_right (fun rd acc => V.scalar_at (fst rd) l * inject_Z (snd rd) + acc)%Q 0%Q ds.

(* default value from the base table plus the variation *)
Definition font_value (dflt : Z) (ds : list (V.region * Z)) (l : V.loc) : Q :=
  (inject_Z dflt + eval_deltas ds l)%Q.

(* ---- AdvanceDeltas ---------------------------------------------------------------- *)
Inductive direction := Horizontal | Vertical.

(* one GlyphInstance as far as advances go; typo = (OS/2 typo ascender, descender)
   of the global metrics interpolated at the instance's location, used only when
   the source gives no height *)
Record gsource := mkSrc { s_loc : V.loc; s_width : Q; s_height : option Q; s_typo : Q * Q }.

(* GlyphInstance::height : u16 *)
Definition instance_height (s : gsource) : Z :=
  sat_u16 (ot_round (match s_height s with
                     | Some h => h
                     | None => (fst (s_typo s) - snd (s_typo s))%Q
                     end)).

(* the `advance` of AdvanceDeltas::add (an f64 holding an integer) *)
Definition advance_value (d : direction) (s : gsource) : Z :=
  match d with
  | Horizontal => ot_round (s_width s)
  | Vertical => instance_height s
  end.

Record glyph := mkGlyph { g_notdef : bool; g_srcs : list gsource }.

Definition glyph_points (d : direction) (g : glyph) : points :=
  map (fun s => (s_loc s, advance_value d s)) (g_srcs g).

Fixpoint nodup_locs (ls : list V.loc) : list V.loc :=
  match ls with
  | [] => []
  | l :: t => if mem_loc t l then nodup_locs t else l :: nodup_locs t
  end.

(* for loc in self.glyph_locations { advances.entry(loc).or_insert(notdef_dim) } *)
Definition densify (all_locs : list V.loc) (l0 : V.loc) (v0 : Z) : points :=
  (l0, v0) :: map (fun l => (l, v0)) (filter (fun l => negb (loc_eqb l l0)) (nodup_locs all_locs)).

(* the point set that reaches the variation model, if any *)
Definition glyph_model_points (first : bool) (all_locs : list V.loc) (notdef : bool) (pts : points)
  : option points :=
  match pts with
  | [(l0, v0)] => if first && notdef then Some (densify all_locs l0 v0) else None
  | _ => Some pts
  end.

(* AdvanceDeltas::add: the delta set pushed for one glyph *)
Definition add_glyph (first : bool) (all_locs : list V.loc) (notdef : bool) (pts : points)
  : list (V.region * Z) :=
  match glyph_model_points first all_locs notdef pts with
  | Some p => narrow p
  | None => []
  end.

Fixpoint add_all (first : bool) (all_locs : list V.loc) (gs : list (bool * points))
  : list (list (V.region * Z)) :=
  match gs with
  | [] => []
  | (nd, p) :: t => add_glyph first all_locs nd p :: add_all false all_locs t
  end.

(* all glyphs of the font in glyph order *)
Definition advance_deltas (d : direction) (gs : list glyph) : list (list (V.region * Z)) :=
  add_all true (flat_map (fun g => map s_loc (g_srcs g)) gs)
          (map (fun g => (g_notdef g, glyph_points d g)) gs).

(* is_single_model: the cache starts with the global model's location set *)
Definition same_set (a b : list V.loc) : bool := forallb (mem_loc b) a && forallb (mem_loc a) b.

Fixpoint single_from (first : bool) (global all_locs : list V.loc) (gs : list (bool * points)) : bool :=
  match gs with
  | [] => true
  | (nd, p) :: t =>
      match glyph_model_points first all_locs nd p with
      | Some q => same_set (map fst q) global
      | None => true
      end && single_from false global all_locs t
  end.

Definition is_single_model (d : direction) (global : list V.loc) (gs : list glyph) : bool :=
  single_from true global (flat_map (fun g => map s_loc (g_srcs g)) gs)
              (map (fun g => (g_notdef g, glyph_points d g)) gs).

(* hmtx / vmtx advance of a glyph: from its default instance, as u16 *)
Definition default_advance (d : direction) (origin : V.loc) (g : glyph) : Z :=
  match lookup origin (glyph_points d g) with
  | Some v => sat_u16 v
  | None => 0
  end.

(* ---- gvar phantom points (fontbe/src/glyphs.rs + add_phantom_points) ------------------ *)
(* the global model is used when the glyph defines exactly the global locations *)
Definition phantom_model_locs (global locs : list V.loc) : list V.loc :=
  if Nat.eqb (length global) (length locs) && forallb (mem_loc locs) global then global else locs.

(* x of the right phantom point: `advance_width: u16 = self.width.ot_round()`; the left one is 0.
   GlyphDelta x is an i16.  Result: the x deltas of (right - left) per non-default region. *)
Definition phantom_width_deltas (global : list V.loc) (g : glyph) : list (V.region * Z) :=
  let pts := map (fun s => (s_loc s, sat_u16 (ot_round (s_width s)))) (g_srcs g) in
  narrow_with (phantom_model_locs global (map fst pts)) pts.

(* vertical: top = vertical_origin (i16), bottom = top - height *)
Definition phantom_top (vorigin : gsource -> Z) (g : glyph) : points :=
  map (fun s => (s_loc s, vorigin s)) (g_srcs g).
Definition phantom_bottom (vorigin : gsource -> Z) (g : glyph) : points :=
  map (fun s => (s_loc s, vorigin s - instance_height s)) (g_srcs g).

(* ---- global metrics ------------------------------------------------------------------ *)
(* GlobalMetricsBuilder::build for one metric: values rounded (OtRound to f64), then the model of
   the locations that define the metric *)
Definition metric_points (vals : list (V.loc * Q)) : points :=
  map (fun p => (fst p, ot_round (snd p))) vals.

(* GlobalMetrics::get: interpolate_from_deltas over all delta sets, default region included *)
Definition metric_at (vals : list (V.loc * Q)) (l : V.loc) : Q :=
  let pts := metric_points vals in
  let m := V.model_new (map fst pts) in
  V.interpolate (V.m_infl m) (V.deltas m true (model_vals m pts)) l.

(* MvarBuilder::add_deltas: nothing for a single delta set, nothing when every delta rounds to 0 *)
Definition mvar_record (vals : list (V.loc * Q)) : option (list (V.region * Z)) :=
  let pts := metric_points vals in
  if Nat.eqb (length (raw_deltas (map fst pts) pts)) 1 then None
  else let ds := narrow pts in
       if forallb (fun rd => snd rd =? 0) ds then None else Some ds.

(* the field of OS/2, hhea, vhea or post: metrics.at(default).<metric>.ot_round() into an
   i16 (signed = true) or u16 field *)
Definition default_field (signed : bool) (vals : list (V.loc * Q)) (origin : V.loc) : Z :=
  (if signed then sat_i16 else sat_u16) (ot_round (metric_at vals origin)).

(* the metric at a location as a variable-font consumer computes it *)
Definition font_metric (signed : bool) (vals : list (V.loc * Q)) (origin l : V.loc) : Q :=
  match mvar_record vals with
  | Some ds => font_value (default_field signed vals origin) ds l
  | None => inject_Z (default_field signed vals origin)
  end.

(* ---- fontinfo.plist -> metric values (ufo2fontir GlobalMetricsWork + populate_defaults) ---- *)
Inductive metric :=
| Ascender | Descender | HheaAscender | HheaDescender | HheaLineGap
| VheaAscender | VheaDescender | VheaLineGap
| Os2TypoAscender | Os2TypoDescender | Os2TypoLineGap | Os2WinAscent | Os2WinDescent
| CapHeight | CaretSlopeRise | CaretSlopeRun | CaretOffset
| VheaCaretSlopeRise | VheaCaretSlopeRun | VheaCaretOffset
| UnderlineThickness | UnderlinePosition | XHeight | StrikeoutPosition | StrikeoutSize
| SubscriptXOffset | SubscriptXSize | SubscriptYOffset | SubscriptYSize
| SuperscriptXOffset | SuperscriptXSize | SuperscriptYOffset | SuperscriptYSize.

(* GlobalMetric::mvar_tag is Some *)
Definition has_mvar_tag (m : metric) : bool :=
  match m with
  | Ascender | Descender | HheaAscender | HheaDescender | HheaLineGap => false
  | _ => true
  end.

(* the field is unsigned (OS/2 usWinAscent, usWinDescent); every other one is an i16 / FWord *)
Definition field_signed (m : metric) : bool :=
  match m with Os2WinAscent | Os2WinDescent => false | _ => true end.

(* the fontinfo keys the UFO front end reads; None = key absent *)
Record fontinfo := mkFontinfo {
  fi_ascender : option Q; fi_descender : option Q; fi_x_height : option Q; fi_cap_height : option Q;
  fi_tan : Q;  (* tan(-italicAngle in radians), 0 when |italicAngle| < f64::EPSILON or absent *)
  fi_explicit : metric -> option Q  (* openTypeOS2*, openTypeHhea*, openTypeVhea*, postscriptUnderline* *)
}.

Definition or_else (o : option Q) (d : Q) : Q := match o with Some x => x | None => d end.
Definition Qmax0 (q : Q) : Q := if Qle_bool 0 q then q else 0%Q.

Section Ufo.
  Variable upem : Q.
  Variable fi : fontinfo.
  Local Open Scope Q_scope.
  Let ex := fi_explicit fi.
  Let asc := or_else (fi_ascender fi) ((8 # 10) * upem).
  Let desc := or_else (fi_descender fi) (- (2 # 10) * upem).
  Let xh := or_else (fi_x_height fi) ((1 # 2) * upem).
  Let line_gap := or_else (ex Os2TypoLineGap) (Qmax0 (upem * (12 # 10) + desc - asc)).
  Let sub_x_size := or_else (ex SubscriptXSize) (upem * (65 # 100)).
  Let sub_y_size := or_else (ex SubscriptYSize) (upem * (60 # 100)).
  Let sub_y_off := or_else (ex SubscriptYOffset) (upem * (75 # 1000)).
  Let sup_y_off := or_else (ex SuperscriptYOffset) (upem * (35 # 100)).
  Let und_thick := or_else (ex UnderlineThickness) ((5 # 100) * upem).
  (* adjust_offset(offset, italic_angle) *)
  Let adjust (offset : Q) : Q := offset * fi_tan fi.

  Definition ufo_metric (m : metric) : Q :=
    match m with
    | Ascender => asc
    | Descender => desc
    | Os2TypoLineGap => line_gap
    | Os2TypoAscender => or_else (ex m) asc
    | Os2TypoDescender => or_else (ex m) desc
    | HheaAscender => or_else (ex m) (asc + line_gap)
    | HheaDescender => or_else (ex m) desc
    | HheaLineGap => or_else (ex m) 0
    | Os2WinAscent => or_else (ex m) (asc + line_gap)
    | Os2WinDescent => or_else (ex m) (Qabs desc)
    | CapHeight => or_else (fi_cap_height fi) ((7 # 10) * upem)
    | XHeight => xh
    | CaretSlopeRise => or_else (ex m) upem
    | CaretSlopeRun => or_else (ex m) (adjust upem)
    | CaretOffset => or_else (ex m) 0
    | SubscriptXSize => sub_x_size
    | SubscriptYSize => sub_y_size
    | SubscriptXOffset => or_else (ex m) (adjust (- sub_y_off))
    | SubscriptYOffset => sub_y_off
    | SuperscriptXSize => or_else (ex m) sub_x_size
    | SuperscriptYSize => or_else (ex m) sub_y_size
    | SuperscriptXOffset => or_else (ex m) (adjust sup_y_off)
    | SuperscriptYOffset => sup_y_off
    | UnderlineThickness => und_thick
    | UnderlinePosition => or_else (ex m) (- (75 # 1000) * upem)
    | StrikeoutSize => or_else (ex m) und_thick
    | StrikeoutPosition => or_else (ex m) (if Qeq_bool xh 0 then upem * (22 # 100) else xh * (6 # 10))
    | VheaCaretSlopeRise => or_else (ex m) 0
    | VheaCaretSlopeRun => or_else (ex m) 1
    | VheaCaretOffset => or_else (ex m) 0
    | VheaAscender => or_else (ex m) 0
    | VheaDescender => or_else (ex m) 0
    | VheaLineGap => or_else (ex m) 0
    end.
End Ufo.

(* one value per (non-sparse) master *)
Definition ufo_metric_vals (upem : Q) (masters : list (V.loc * fontinfo)) (m : metric) : list (V.loc * Q) :=
  map (fun p => (fst p, ufo_metric upem (snd p) m)) masters.

(* fontir/src/glyph.rs synthesize_notdef (advance part): when the source has no .notdef, one is
   generated with width upem/2 and height ascender - descender, at the default location and at every
   other global location whose interpolated (ascender, descender, typo ascender, typo descender)
   differ from the default's *)
Definition q4_eqb (a b : Q * Q * Q * Q) : bool :=
  let '(a1, a2, a3, a4) := a in let '(b1, b2, b3, b4) := b in
  Qeq_bool a1 b1 && Qeq_bool a2 b2 && Qeq_bool a3 b3 && Qeq_bool a4 b4.

Definition synth_notdef (upem : Q) (origin : V.loc) (masters : list (V.loc * fontinfo)) : glyph :=
  let at_ m l := metric_at (ufo_metric_vals upem masters m) l in
  let key l := (at_ Ascender l, at_ Descender l, at_ Os2TypoAscender l, at_ Os2TypoDescender l) in
  let w := inject_Z (ot_round (upem * (1 # 2))) in
  let src l := mkSrc l w (Some (at_ Ascender l - at_ Descender l)%Q) (at_ Os2TypoAscender l, at_ Os2TypoDescender l) in
  mkGlyph true
    (src origin ::
     map src (filter (fun l => negb (loc_eqb l origin) && negb (q4_eqb (key l) (key origin))) (map fst masters))).

(* ---- OpenType item variation store, from the specification --------------------------- *)
(* region axis coordinates (start, peak, end) as raw F2Dot14 integers; a normalized
   coordinate is a raw F2Dot14 integer too, so the model's common denominator is 16384 *)
Definition axis_coords := (Z * Z * Z)%type.
Definition fregion := list axis_coords.

(* "Variation regions": the per-axis scalar *)
Definition spec_axis_scalar (a : axis_coords) (c : Z) : Q :=
  let '(s, p, e) := a in
  if (p <? s) || (e <? p) then 1%Q
  else if (s <? 0) && (0 <? e) && negb (p =? 0) then 1%Q
  else if p =? 0 then 1%Q
  else if (c <? s) || (e <? c) then 0%Q
  else if c =? p then 1%Q
  else if c <? p then V.ratio (c - s) (p - s)
  else V.ratio (e - c) (e - p).

Fixpoint spec_scalar (r : fregion) (coords : list Z) : Q :=
  match r, coords with
  | a :: r', c :: cs => (spec_axis_scalar a c * spec_scalar r' cs)%Q
  | a :: r', [] => (spec_axis_scalar a 0 * spec_scalar r' [])%Q
  | [], _ => 1%Q
  end.

(* ItemVariationData: region indexes and one row of deltas per item *)
Record ivd := mkIvd { ivd_regions : list nat; ivd_rows : list (list Z) }.
Record ivs := mkIvs { ivs_regions : list fregion; ivs_data : list ivd }.

(* the delta set (outer, inner) as (region, delta) pairs; None = index out of range *)
Definition ivs_row (st : ivs) (outer inner : nat) : option (list (fregion * Z)) :=
  match nth_error (ivs_data st) outer with
  | None => None
  | Some d =>
      match nth_error (ivd_rows d) inner with
      | None => None
      | Some row =>
          if negb (Nat.eqb (length row) (length (ivd_regions d))) then None else
          (fix go (ris : list nat) (ds : list Z) : option (list (fregion * Z)) :=
             match ris, ds with
             | ri :: ris', dv :: ds' =>
                 match nth_error (ivs_regions st) ri, go ris' ds' with
                 | Some r, Some t => Some ((r, dv) :: t)
                 | _, _ => None
                 end
             | _, _ => Some []
             end) (ivd_regions d) row
      end
  end.

Definition row_eval (row : list (fregion * Z)) (coords : list Z) : Q :=
  fold_right (fun rd acc => spec_scalar (fst rd) coords * inject_Z (snd rd) + acc)%Q 0%Q row.

(* DeltaSetIndexMap lookup ("if a given glyph ID is greater than mapCount - 1, the last
   entry is used"); no map: outer 0, inner = glyph id *)
Definition dsim_lookup (map : option (list (nat * nat))) (gid : nat) : nat * nat :=
  match map with
  | None => (0%nat, gid)
  | Some es => nth gid es (last es (0%nat, 0%nat))
  end.

Definition ivs_delta (st : ivs) (map : option (list (nat * nat))) (gid : nat) (coords : list Z) : option Q :=
  let '(o, i) := dsim_lookup map gid in
  option_map (fun row => row_eval row coords) (ivs_row st o i).

(* ---- certified comparison of a decoded delta set with the model's ------------------------- *)
Definition tent_coords (t : V.tent) : axis_coords := (V.tmin t, V.tpeak t, V.tmax t).
Definition region_coords (r : V.region) : fregion := map tent_coords (V.tents r).

Definition flat_key (rd : fregion * Z) : list Z :=
  snd rd :: flat_map (fun a => let '(s, p, e) := a in [s; p; e]) (fst rd).

(* non-zero entries in a canonical order (VariationStoreBuilder may drop, add and reorder
   regions; a zero delta means nothing) *)
Definition canon (row : list (fregion * Z)) : list (fregion * Z) :=
  V.isort (fregion * Z) flat_key (filter (fun rd => negb (snd rd =? 0)) row).

Definition coords_eqb (a b : axis_coords) : bool :=
  let '(a1, a2, a3) := a in let '(b1, b2, b3) := b in (a1 =? b1) && (a2 =? b2) && (a3 =? b3).

Fixpoint fregion_eqb (a b : fregion) : bool :=
  match a, b with
  | [], [] => true
  | x :: a', y :: b' => coords_eqb x y && fregion_eqb a' b'
  | _, _ => false
  end.

Fixpoint rows_eqb (a b : list (fregion * Z)) : bool :=
  match a, b with
  | [], [] => true
  | (r, d) :: a', (r', d') :: b' => fregion_eqb r r' && (d =? d') && rows_eqb a' b'
  | _, _ => false
  end.

Definition row_matches (model_ds : list (V.region * Z)) (row : list (fregion * Z)) : bool :=
  rows_eqb (canon (map (fun rd => (region_coords (fst rd), snd rd)) model_ds)) (canon row).

(* ---- certified whole-table check (soundness: ProofsIvs.check_font_sound) --------------------- *)
(* no delta other than the default region's is changed by the cast to i16 *)
Definition deltas_fitb (pts : points) : bool :=
  forallb (fun kd : nat * Q => Nat.eqb (fst kd) 0 || fits_i16 (ot_round (snd kd))) (raw_deltas (map fst pts) pts).

(* one glyph: decoded hmtx/vmtx advance `dflt` and decoded HVAR/VVAR delta set `row` *)
Definition check_glyph (first : bool) (all_locs : list V.loc) (nd : bool) (pts : points)
           (o : V.loc) (dflt : Z) (row : list (fregion * Z)) : bool :=
  match lookup o pts with
  | Some v0 => (sat_u16 v0 =? dflt) && fits_u16 v0
  | None => false
  end
  && row_matches (add_glyph first all_locs nd pts) row
  && match glyph_model_points first all_locs nd pts with
     | Some p => deltas_fitb p
     | None => true
     end.

Fixpoint check_glyphs (first : bool) (all_locs : list V.loc) (o : V.loc) (gs : list (bool * points))
         (dflts : list Z) (rows : list (list (fregion * Z))) : bool :=
  match gs, dflts, rows with
  | [], [], [] => true
  | (nd, p) :: gs', d :: dflts', r :: rows' =>
      check_glyph first all_locs nd p o d r && check_glyphs false all_locs o gs' dflts' rows'
  | _, _, _ => false
  end.

(* all glyphs of the font in glyph order *)
Definition check_font (d : direction) (o : V.loc) (gs : list glyph) (dflts : list Z)
           (rows : list (list (fregion * Z))) : bool :=
  check_glyphs true (flat_map (fun g => map s_loc (g_srcs g)) gs) o
               (map (fun g => (g_notdef g, glyph_points d g)) gs) dflts rows.
