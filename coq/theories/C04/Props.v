(* C04 — Advances and global metrics at each master location equal the master's.
   Property theorems only; proofs are in Proofs*.v.

   Reading guide.  A location is a vector of integers (normalized coordinates times one
   common denominator; 16384 when they are F2Dot14 values).  `points` = one rounded value
   per location (what AdvanceDeltas::add / GlobalMetricsBuilder::build hand to
   VariationModel::deltas).  `narrow pts` = the (region, i16 delta) list that reaches the
   variation store builder.  `font_value d ds l` = d + sum over ds of scalar(region, l) * delta:
   what a variable-font consumer computes from the base table value d and the delta set ds.
   `wf_points n pts`: the locations are distinct and have n coordinates.  `deltas_fit pts`:
   no non-default delta is changed by the cast to i16 (values that do not fit are C19's
   subject; theorem 9 shows the hypothesis is needed). *)
From Coq Require Import List ZArith QArith Qabs Qround Bool Lia Lqa.
From FV.C07 Require Import Tents Trim Main.
From FV.C04 Require Import Model ProofsBasic ProofsZp ProofsMaster ProofsGlyph ProofsMetrics ProofsIvs ProofsTop.
Import ListNotations.
Open Scope Z_scope.

(* 1. ADVANCES.  For every glyph (dense, sparse, single-master, the dense copy of a first
      .notdef), in both directions, for every number of axes and every master layout: at each
      master location of the glyph, hmtx/vmtx advance + HVAR/VVAR variation is within 1/2 of that
      master's rounded advance, and at the default location it is exactly the default master's. *)
Theorem advance_at_every_master : forall n d first all_locs g o v0,
  let pts := glyph_points d g in
  wf_points n pts -> Forall (fun l => length l = n) all_locs -> is_origin o ->
  In (o, v0) pts -> fits_u16 v0 = true ->
  (glyph_model_points first all_locs (g_notdef g) pts = Some pts -> deltas_fit pts) ->
  forall s, In s (g_srcs g) ->
    (Qabs (font_value (default_advance d o g) (add_glyph first all_locs (g_notdef g) pts) (s_loc s)
           - inject_Z (advance_value d s)) <= 1 # 2)%Q
    /\ (font_value (default_advance d o g) (add_glyph first all_locs (g_notdef g) pts) o == inject_Z v0)%Q.
Proof. exact advance_master_top. Qed.
Print Assumptions advance_at_every_master.

(* 1'. ... hence within 1 unit of the source advance width itself. *)
Theorem advance_width_within_one_of_source : forall n first all_locs g o v0,
  let pts := glyph_points Horizontal g in
  wf_points n pts -> Forall (fun l => length l = n) all_locs -> is_origin o ->
  In (o, v0) pts -> fits_u16 v0 = true ->
  (glyph_model_points first all_locs (g_notdef g) pts = Some pts -> deltas_fit pts) ->
  forall s, In s (g_srcs g) ->
    (Qabs (font_value (default_advance Horizontal o g) (add_glyph first all_locs (g_notdef g) pts) (s_loc s)
           - s_width s) <= 1)%Q.
Proof. exact advance_within_one_top. Qed.
Print Assumptions advance_width_within_one_of_source.

(* 2. The dense copy made for a first .notdef with a single master changes nothing: all its deltas
      are 0 (so .notdef keeps its advance everywhere), and the delta sets of the other glyphs do
      not depend on the first glyph at all. *)
Theorem notdef_dense_copy_neutral : forall n all_locs l0 v0,
  length l0 = n -> Forall (fun l => length l = n) all_locs -> is_origin l0 ->
  Forall (fun rd => snd rd = 0) (narrow (densify all_locs l0 v0))
  /\ forall l, (font_value v0 (narrow (densify all_locs l0 v0)) l == inject_Z v0)%Q.
Proof. exact notdef_neutral_top. Qed.
Print Assumptions notdef_dense_copy_neutral.

Theorem later_glyphs_independent_of_first : forall all_locs g g' gs,
  tl (add_all true all_locs (g :: gs)) = tl (add_all true all_locs (g' :: gs)).
Proof. intros all_locs [nd p] [nd' p'] gs. reflexivity. Qed.
Print Assumptions later_glyphs_independent_of_first.

(* 3. HVAR agrees with the gvar phantom points: for every glyph whose advances fit u16 the HVAR delta
      set and the x deltas of the right phantom point denote the same function of the location
      (they are the same list when the glyph has several masters; both vanish when it has one). *)
Theorem hvar_agrees_with_gvar_phantom_points : forall n first all_locs global g o,
  let pts := glyph_points Horizontal g in
  wf_points n pts -> Forall (fun l => length l = n) all_locs -> NoDup global ->
  In o (map fst pts) -> is_origin o ->
  (forall s, In s (g_srcs g) -> fits_u16 (ot_round (s_width s)) = true) ->
  forall l, (eval_deltas (add_glyph first all_locs (g_notdef g) pts) l
             == eval_deltas (phantom_width_deltas global g) l)%Q.
Proof. exact hvar_agrees_with_phantom. Qed.
Print Assumptions hvar_agrees_with_gvar_phantom_points.

(* 3'. Vertically the phantom points carry top and bottom separately (each rounded on its own), so
       the advance height they give is within 1 unit of the master's (VVAR: within 1/2). *)
Theorem phantom_height_within_one : forall n (vorigin : gsource -> Z) g o t0 b0,
  wf_points n (phantom_top vorigin g) -> wf_points n (phantom_bottom vorigin g) -> is_origin o ->
  In (o, t0) (phantom_top vorigin g) -> In (o, b0) (phantom_bottom vorigin g) ->
  deltas_fit (phantom_top vorigin g) -> deltas_fit (phantom_bottom vorigin g) ->
  forall s, In s (g_srcs g) ->
    (Qabs ((font_value t0 (narrow (phantom_top vorigin g)) (s_loc s)
            - font_value b0 (narrow (phantom_bottom vorigin g)) (s_loc s))
           - inject_Z (instance_height s)) <= 1)%Q.
Proof. exact phantom_height_top. Qed.
Print Assumptions phantom_height_within_one.

(* 4. GLOBAL METRICS.  For every metric given one value per (non-sparse) master: the default field
      plus the MVAR record (if any) evaluated at each master is within 1/2 of that master's rounded
      value - equal to it wherever the interpolated value is an integer - and the default field is
      exactly the default master's rounded value. *)
Theorem metric_at_every_master : forall n vals o x0 signed,
  wf_points n (metric_points vals) -> In (o, x0) vals -> is_origin o ->
  deltas_fit (metric_points vals) -> field_fits signed (ot_round x0) = true ->
  (forall l x, In (l, x) vals ->
     (Qabs (font_metric signed vals o l - inject_Z (ot_round x)) <= 1 # 2)%Q)
  /\ default_field signed vals o = ot_round x0
  /\ (font_metric signed vals o o == inject_Z (ot_round x0))%Q.
Proof. exact metric_every_master_top. Qed.
Print Assumptions metric_at_every_master.

(* 4'. "Equal" cannot be had in general with integer deltas: with an interior master the value the
       font gives at that master can differ from the master's (integer) value by a fraction (here 1/4;
       rounding the interpolated value still returns the master's value unless the distance is
       exactly 1/2).  All hypotheses of theorem 4 hold for this input. *)
Definition interior_metric : list (V.loc * Q) :=
  [([0; 0], 500 # 1); ([16384; 0], 601 # 1); ([0; 16384], 450 # 1); ([16384; 16384], 700 # 1); ([8192; 8192], 521 # 1)].

Theorem metric_exactly_equal_refuted :
  exists n vals o x0 l x,
    wf_points n (metric_points vals) /\ In (o, x0) vals /\ is_origin o /\ deltas_fit (metric_points vals) /\
    field_fits true (ot_round x0) = true /\ In (l, x) vals /\
    ~ (font_metric true vals o l == inject_Z (ot_round x))%Q.
Proof.
  exists 2%nat, interior_metric, [0; 0], (500 # 1)%Q, [8192; 8192], (521 # 1)%Q.
  split; [|split; [|split; [|split; [|split; [|split]]]]].
  - split; cbn; repeat constructor; cbn; intuition discriminate.
  - left. reflexivity.
  - repeat constructor.
  - apply deltas_fitb_sound. vm_compute. reflexivity.
  - reflexivity.
  - do 4 right. left. reflexivity.
  - intro H. vm_compute in H. discriminate H.
Qed.
Print Assumptions metric_exactly_equal_refuted.

(* 5. MVAR has no record for a metric if and only if the metric is the same, after rounding, in
      every master. *)
Theorem mvar_omits_exactly_the_constant_metrics : forall n vals o x0,
  wf_points n (metric_points vals) -> In (o, x0) vals -> is_origin o -> deltas_fit (metric_points vals) ->
  (mvar_record vals = None <-> forall l x, In (l, x) vals -> ot_round x = ot_round x0).
Proof. exact mvar_iff_top. Qed.
Print Assumptions mvar_omits_exactly_the_constant_metrics.

(* 6. ... instantiated with what a UFO master's fontinfo.plist gives (explicit key, or the fallback
      chain of populate_defaults): every MVAR-tagged metric, every master. *)
Theorem ufo_metric_in_font_at_every_master : forall n upem masters (mt : metric) o fi0,
  let vals := ufo_metric_vals upem masters mt in
  wf_points n (metric_points vals) -> In (o, fi0) masters -> is_origin o ->
  deltas_fit (metric_points vals) ->
  field_fits (field_signed mt) (ot_round (ufo_metric upem fi0 mt)) = true ->
  forall l fi, In (l, fi) masters ->
    (Qabs (font_metric (field_signed mt) vals o l - inject_Z (ot_round (ufo_metric upem fi mt))) <= 1 # 2)%Q.
Proof. exact ufo_metric_top. Qed.
Print Assumptions ufo_metric_in_font_at_every_master.

(* 7. THE OPENTYPE READING.  In every influence region of the variation model a tent with peak 0 is
      (0,0,0); therefore the region scalar of the OpenType specification (which ignores axes with
      peak 0) equals fontc's scalar on the model's regions, at every location. *)
Theorem spec_scalar_is_model_scalar : forall n locs, wf_input n locs ->
  forall r, In r (V.m_infl (V.model_new locs)) ->
  forall l, length l = n -> (spec_scalar (region_coords r) l == V.scalar_at r l)%Q.
Proof. exact spec_scalar_model_top. Qed.
Print Assumptions spec_scalar_is_model_scalar.

(* 8. CERTIFIED CHECK of a decoded font.  `row_matches` compares a decoded HVAR/VVAR/MVAR delta set
      with the model's, ignoring zero deltas and order; when it accepts, the decoded set evaluated
      per the OpenType specification is the model's delta set evaluated by fontc's scalar, at every
      location.  Hence: if `check_glyph` accepts the decoded default advance and delta set of a
      glyph, the real table values reproduce every master of the glyph. *)
Theorem decoded_delta_set_denotes_the_models : forall ds row, row_matches ds row = true ->
  forall c, (row_eval row c == row_eval (as_row ds) c)%Q.
Proof. exact row_matches_sound. Qed.
Print Assumptions decoded_delta_set_denotes_the_models.

(* `check_font` is what the correspondence run evaluates on the decoded hmtx+HVAR (vmtx+VVAR) of
   every generated font whose coordinates are F2Dot14-exact: when it accepts, every glyph at every
   one of its master locations has, in the REAL tables read per the specification, an advance
   within 1/2 of that master's rounded advance, and exactly the default master's at the default. *)
Theorem check_font_is_sound : forall n d o gs dflts rows,
  Forall (fun g => wf_points n (glyph_points d g)) gs -> is_origin o ->
  check_font d o gs dflts rows = true ->
  forall k g dflt row,
    nth_error gs k = Some g -> nth_error dflts k = Some dflt -> nth_error rows k = Some row ->
    forall s, In s (g_srcs g) ->
      (Qabs (font_advance_spec dflt row (s_loc s) - inject_Z (advance_value d s)) <= 1 # 2)%Q
      /\ (s_loc s = o -> font_advance_spec dflt row (s_loc s) == inject_Z (advance_value d s))%Q.
Proof. exact check_font_sound. Qed.
Print Assumptions check_font_is_sound.

(* 9. The side condition is needed: for the code that exists a delta beyond i16 is clamped and the
      master is NOT reproduced (two masters, advance 0 and 40000: the font gives 32767). *)
Theorem master_bound_without_fit_refuted :
  exists n pts o v0 l v,
    wf_points n pts /\ In (o, v0) pts /\ is_origin o /\ In (l, v) pts /\
    ~ (Qabs (font_value v0 (narrow pts) l - inject_Z v) <= 1 # 2)%Q.
Proof.
  exists 1%nat, [([0], 0); ([16384], 40000)], [0], 0, [16384], 40000.
  split; [|split; [|split; [|split]]].
  - split; cbn [map fst]; repeat constructor; cbn; intuition discriminate.
  - left. reflexivity.
  - repeat constructor.
  - right. left. reflexivity.
  - intro H. vm_compute in H. apply H. reflexivity.
Qed.
Print Assumptions master_bound_without_fit_refuted.

(* ---- the hypotheses are satisfiable, the conclusions not vacuous ----------------------------------- *)
(* two axes; default, both axis ends, a corner and an interior master *)
Example ex_glyph : glyph :=
  mkGlyph false
    [ mkSrc [0; 0] (500 # 1) (Some (1000 # 1)) (0, 0)%Q;
      mkSrc [16384; 0] (1201 # 2) (Some (1000 # 1)) (0, 0)%Q;
      mkSrc [0; 16384] (450 # 1) (Some (1100 # 1)) (0, 0)%Q;
      mkSrc [16384; 16384] (700 # 1) (Some (1101 # 2)) (0, 0)%Q;
      mkSrc [8192; 8192] (521 # 1) (Some (990 # 1)) (0, 0)%Q ].

Example ex_wf : wf_points 2 (glyph_points Horizontal ex_glyph).
Proof. split; cbn [glyph_points ex_glyph g_srcs map fst s_loc]; repeat constructor; cbn; intuition discriminate. Qed.

Example ex_fit : deltas_fit (glyph_points Horizontal ex_glyph).
Proof. apply deltas_fitb_sound. vm_compute. reflexivity. Qed.

(* the delta set; at the interior master the font gives 520.75 for the source's 521 *)
Example ex_deltas :
  map snd (narrow (glyph_points Horizontal ex_glyph)) = [101; -50; 149; -42]
  /\ Qeq (font_value 500 (narrow (glyph_points Horizontal ex_glyph)) [8192; 8192]) (2083 # 4).
Proof. split; vm_compute; reflexivity. Qed.

(* the certified check accepts the same delta set with the regions in another order and an extra
   all-zero column, as a variation store builder may emit it *)
Example ex_check :
  check_glyph false [] false (glyph_points Horizontal ex_glyph) [0; 0] 500
    [ ([(0, 0, 0); (0, 16384, 16384)], -50); ([(0, 16384, 16384); (0, 0, 0)], 101);
      ([(0, 8192, 16384); (0, 8192, 16384)], -42); ([(0, 16384, 16384); (0, 16384, 16384)], 149);
      ([(0, 4096, 8192); (0, 0, 0)], 0) ] = true.
Proof. vm_compute. reflexivity. Qed.

(* a metric with a different value in every master, and one constant after rounding *)
Example ex_metric : list (V.loc * Q) := [([0], 500 # 1); ([16384], 1101 # 2); ([8192], 520 # 1)].
Example ex_metric_wf : wf_points 1 (metric_points ex_metric).
Proof. split; cbn; repeat constructor; cbn; intuition discriminate. Qed.
Example ex_metric_record :
  option_map (map snd) (mvar_record ex_metric) = Some [20; 51]
  /\ mvar_record [([0], 500 # 1); ([16384], 2001 # 4)] = None.
Proof. split; vm_compute; reflexivity. Qed.
