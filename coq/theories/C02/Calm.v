(* C02 — no scheduler panic: for a graph accepted by calm_graph, the handlers' hard rewrites
   (`.expect("... has to be pending")`) and complete-without-running actions always find their job
   pending, so no reachable state of any schedule is a panic state. *)
From Coq Require Import List NArith Bool Arith Lia.
From FV.C02 Require Import Model Graph GraphFacts Ops Inv Steps Steps2 Steps3 Acc Acc2 Reach NoPanic LiveCheck Live3.
Import ListNotations.
Open Scope N_scope.

Lemma calm_actions_split G c mid : forall pre0 a post,
  calm_actions G c pre0 (mid ++ a :: post) = true ->
  match a with
  | Rewrite false j _ => gate_ok G c (pre0 ++ mid) j = true
  | CompleteNow j => gate_ok G c (pre0 ++ mid) j = true
  | _ => True
  end.
Proof.
  induction mid as [|x mid IH]; intros pre0 a post H; cbn [app calm_actions] in H.
  - apply andb_true_iff in H as [H _]. rewrite app_nil_r. destruct a as [d|[|] j acc|j]; auto.
  - apply andb_true_iff in H as [_ H]. specialize (IH (pre0 ++ [x]) a post H).
    rewrite <- app_assoc in IH. exact IH.
Qed.

Section Calm.
  Variable G : graph.
  Hypothesis Hwf : wf_graph G.
  Hypothesis Hcalm : calm_graph G = true.
  Notation Inv := (Inv G).
  Notation Inv2 := (Inv2 G).

  (* j is created with Unknown access and only the handler of c ever settles it *)
  Definition gated (c j : N) : Prop :=
    (exists d, In d (all_decls G) /\ jid d = j /\ jacc d = AUnknown)
    /\ (forall c' a, In a (handler G c') -> settles j a = true -> c' = c).

  Definition unsettled (cur : option (N * list action)) (st : state) (c j : N) : Prop :=
    delivered_run st c -> forall a, In a (done_of G cur c) -> settles j a = false.

  Definition Inv4 (cur : option (N * list action)) (st : state) : Prop :=
    forall c j, gated c j -> unsettled cur st c j -> In j (g_added st) ->
      exists pj, lookup j (pending st) = Some pj /\ pacc pj = AUnknown /\ ~ In j (g_launched st).

  (* ---- what calm_graph says ------------------------------------------------------------------ *)
  Lemma gate_ok_gated c pre j : gate_ok G c pre j = true ->
    gated c j
    /\ (In j (map jid (statics G)) \/ In j (map jid (add_decls pre)))
    /\ (forall x, In x pre -> settles j x = false).
  Proof.
    unfold gate_ok. intro H. apply andb_true_iff in H as [H H4]. apply andb_true_iff in H as [H H3].
    apply andb_true_iff in H as [H1 H2].
    split; [split|split].
    - unfold declared_unknown in H1. destruct (find (fun d => jid d =? j) (all_decls G)) as [d|] eqn:F; [|discriminate].
      apply find_some in F as [Hd Hj]. apply N.eqb_eq in Hj. exists d. split; [exact Hd|]. split; [exact Hj|].
      destruct (jacc d); try discriminate. reflexivity.
    - intros c' a Ha Hs. unfold only_settler in H4. rewrite forallb_forall in H4.
      assert (Hne : handler G c' <> []) by (intro E; rewrite E in Ha; destruct Ha).
      specialize (H4 _ (handler_in G c' Hne)). cbn [fst snd] in H4.
      apply orb_true_iff in H4 as [H4|H4]; [apply N.eqb_eq in H4; exact H4|].
      apply negb_true_iff in H4. assert (X : existsb (settles j) (handler G c') = true) by (apply existsb_exists; exists a; auto).
      congruence.
    - apply orb_true_iff in H2 as [H2|H2]; apply memN_In in H2; auto.
    - intros x Hx. apply negb_true_iff in H3. destruct (settles j x) eqn:E; [|reflexivity].
      assert (X : existsb (settles j) pre = true) by (apply existsb_exists; exists x; auto). congruence.
  Qed.

  Lemma calm_at c pre a post : handler G c = pre ++ a :: post ->
    match a with
    | Rewrite false j _ => gate_ok G c pre j = true
    | CompleteNow j => gate_ok G c pre j = true
    | _ => True
    end.
  Proof.
    intro Hh. assert (Hne : handler G c <> []) by (rewrite Hh; destruct pre; discriminate).
    unfold calm_graph in Hcalm. rewrite forallb_forall in Hcalm. specialize (Hcalm _ (handler_in G c Hne)).
    cbn [fst snd] in Hcalm. rewrite Hh in Hcalm. exact (calm_actions_split G c pre [] a post Hcalm).
  Qed.

  (* a gated job is the job of its declaration, never an also-completes id *)
  Lemma gated_entry cur st c j pj : Inv cur st -> gated c j -> lookup j (pending st) = Some pj -> palso pj = false.
  Proof.
    intros HI [(d & Hd & Hj & _) _] Hl.
    pose proof (v_entry _ _ _ HI j pj Hl) as (_ & _ & [(E & _)|(_ & _ & d2 & Hd2 & Hi2)]); [exact E|].
    exfalso. rewrite <- Hj in Hi2. exact (jid_not_in_group G Hwf d2 d Hd2 Hd Hi2).
  Qed.

  Lemma gated_not_also c j d : gated c j -> In d (all_decls G) -> ~ In j (map fst (jalso d)).
  Proof. intros [(d0 & Hd0 & Hj & _) _] Hd Hin. rewrite <- Hj in Hin. exact (jid_not_in_group G Hwf d d0 Hd Hd0 Hin). Qed.

  (* ---- preservation ------------------------------------------------------------------------------ *)
  Lemma insert_inv4 cur cur' st d :
    Inv cur st -> Inv4 cur st -> In d (all_decls G) ->
    (forall i, In i (decl_ids d) -> ~ In i (g_added st)) ->
    (forall c x, In x (done_of G cur c) -> In x (done_of G cur' c)) ->
    Inv4 cur' (insert st d).
  Proof.
    intros HI H4 Hd Hfresh Hmono c j Hg Hun Hadd.
    destruct (insert_fields st d) as (Fs & Fe & Fl & Fw & Fa).
    rewrite Fa, in_app_iff, <- in_rev in Hadd. rewrite Fl.
    destruct (in_dec N.eq_dec j (decl_ids d)) as [Hin|Hout].
    - destruct Hg as [(d0 & Hd0 & Hj & Hu) _].
      assert (d0 = d) by (apply (decl_unique G Hwf d0 d j Hd0 Hd); [rewrite <- Hj; apply jid_in_decl_ids|exact Hin]).
      subst d0. exists (job_entry d). split; [rewrite <- Hj; apply insert_lookup_job|]. split; [exact Hu|].
      intro Hl. apply (Hfresh j Hin). apply (v_launched_added _ _ _ HI). exact Hl.
    - destruct Hadd as [Hadd|Hadd]; [contradiction|].
      destruct (H4 c j Hg) as (pj & Hl & Hp & Hn); [|exact Hadd|].
      + intros Hdel a Ha. apply Hun; [unfold delivered_run in *; rewrite Fs, Fl; exact Hdel|apply Hmono; exact Ha].
      + exists pj. split; [rewrite insert_lookup_other by exact Hout; exact Hl|]. split; assumption.
  Qed.

  Lemma done_prefix i done a c x : In x (done_of G (Some (i, done)) c) -> In x (done_of G (Some (i, done ++ [a])) c).
  Proof. unfold done_of. destruct (N.eqb_spec i c); [|tauto]. intro H. apply in_or_app. left. exact H. Qed.

  Lemma self_done i done a : In a (done_of G (Some (i, done ++ [a])) i).
  Proof. unfold done_of. rewrite N.eqb_refl. apply in_or_app. right. left. reflexivity. Qed.

  Lemma action_inv4 st i done a todo :
    handler G i = done ++ a :: todo -> In i (success st) -> In i (g_launched st) ->
    Inv (Some (i, done)) st -> Inv4 (Some (i, done)) st -> err (do_action st a) = false ->
    Inv4 (Some (i, done ++ [a])) (do_action st a).
  Proof.
    intros Hh His Hil HI H4 He.
    assert (Hain : In a (handler G i)) by (rewrite Hh; apply in_or_app; right; left; reflexivity).
    (* the action itself does not settle a job that is still unsettled afterwards *)
    assert (Hself : forall st' c j, gated c j -> In i (success st') -> In i (g_launched st') ->
              unsettled (Some (i, done ++ [a])) st' c j -> settles j a = false).
    { intros st' c j Hg Hs' Hl' Hun. destruct (settles j a) eqn:E; [|reflexivity].
      assert (c = i) by (symmetry; apply (proj2 Hg i a Hain E)). subst c.
      rewrite <- E. apply Hun; [split; assumption|apply self_done]. }
    destruct a as [d|soft k acc0|k]; cbn [do_action] in *.
    - (* Add *)
      assert (Hd_in : In d (add_decls (handler G i))).
      { rewrite Hh. unfold add_decls. rewrite flat_map_app. apply in_or_app. right. left. reflexivity. }
      apply (insert_inv4 (Some (i, done))); [exact HI|exact H4|exact (handler_decl_in G i d Hd_in)| |intros c x; apply done_prefix].
      intros x Hx Hxa.
      assert (Hxi : In x (add_ids (handler G i))).
      { rewrite Hh, add_ids_app, add_ids_cons_add. apply in_or_app. right. apply in_or_app. left. exact Hx. }
      destruct (v_created _ _ _ HI x Hxa) as [Hs|(c & Hc & Hcl & Hxc)].
      + exact (static_handler_disjoint G Hwf x i Hs Hxi).
      + destruct (N.eq_dec c i) as [->|Hne].
        * unfold done_of in Hxc. rewrite N.eqb_refl in Hxc.
          pose proof (handler_ids_nodup G Hwf i) as Hnd. rewrite Hh, add_ids_app, add_ids_cons_add in Hnd.
          apply (NoDup_app_disjoint _ _ x Hnd Hxc). apply in_or_app. left. exact Hx.
        * unfold done_of in Hxc. destruct (N.eqb_spec i c); [congruence|].
          apply Hne. exact (handlers_disjoint G Hwf x c i Hxc Hxi).
    - (* Rewrite *)
      assert (Hgen : forall st', success st' = success st -> g_launched st' = g_launched st -> g_added st' = g_added st ->
                (forall j, j <> k -> lookup j (pending st') = lookup j (pending st)) ->
                Inv4 (Some (i, done ++ [Rewrite soft k acc0])) st').
      { intros st' Es El Ea Hent c j Hg Hun Hadd.
        assert (Hs' : In i (success st')) by (rewrite Es; exact His).
        assert (Hl' : In i (g_launched st')) by (rewrite El; exact Hil).
        pose proof (Hself st' c j Hg Hs' Hl' Hun) as Hns. cbn [settles] in Hns. apply N.eqb_neq in Hns.
        destruct (H4 c j Hg) as (pj & Hl & Hp & Hn); [|rewrite <- Ea; exact Hadd|].
        - intros Hdel x Hx. apply Hun; [unfold delivered_run in *; rewrite Es, El; exact Hdel|apply done_prefix; exact Hx].
        - exists pj. split; [rewrite Hent by (intro E; apply Hns; symmetry; exact E); exact Hl|]. rewrite El. split; assumption. }
      destruct (lookup k (pending st)) as [pk|] eqn:Hl.
      + apply Hgen; try reflexivity. intros j Hne. cbn [set_pending pending]. apply lookup_set_entry_ne. exact Hne.
      + destruct soft; [|cbn in He; discriminate]. apply Hgen; reflexivity.
    - (* CompleteNow *)
      destruct (lookup k (pending st)) as [pk|] eqn:Hl; [|cbn in He; discriminate].
      destruct (palso pk) eqn:Hal; [cbn in He; discriminate|].
      destruct (memN k (g_launched st)) eqn:Hm; [cbn in He; discriminate|]. cbn [orb] in *.
      apply memN_false in Hm.
      destruct (job_group G Hwf _ st k pk HI Hl Hal) as (d & Hd & Hj & Hp & Hpd).
      destruct (finish_counters_fields st k pk) as (Fp & Fs & Fe & Fa & Fl & Fw). cbn zeta in *.
      set (st1 := finish_counters st k pk) in *.
      assert (Hl1 : lookup k (pending st1) = Some pk) by (rewrite Fp; exact Hl).
      assert (Hnd : NoDup (k :: map fst (pals pk))).
      { rewrite Hp, <- Hj. constructor; [apply (jid_not_also G Hwf d Hd)|apply (alsos_nodup G Hwf d Hd)]. }
      pose proof (complete_with_also_ok st1 k pk Hl1 Hnd He) as Hc.
      intros c j Hg Hun Hadd. rewrite (c_added _ _ _ Hc), Fa in Hadd.
      assert (Hs' : In i (success (complete_with_also st1 k))) by (apply (c_succ _ _ _ Hc); right; rewrite Fs; exact His).
      assert (Hl' : In i (g_launched (complete_with_also st1 k))) by (rewrite (c_launched _ _ _ Hc), Fl; exact Hil).
      pose proof (Hself _ c j Hg Hs' Hl' Hun) as Hns. cbn [settles] in Hns. apply N.eqb_neq in Hns.
      destruct (H4 c j Hg) as (pj & Hlj & Hpj & Hn); [|exact Hadd|].
      + intros [D1 D2] x Hx. apply Hun; [|apply done_prefix; exact Hx].
        split; [apply (c_succ _ _ _ Hc); right; rewrite Fs; exact D1|rewrite (c_launched _ _ _ Hc), Fl; exact D2].
      + assert (Hjn : ~ In j (k :: map fst (pals pk))).
        { intros [E|Hin]; [apply Hns; exact E|]. rewrite Hp in Hin. exact (gated_not_also c j d Hg Hd Hin). }
        exists pj. split; [rewrite (c_lookup _ _ _ Hc j Hjn), Fp; exact Hlj|]. split; [exact Hpj|].
        rewrite (c_launched _ _ _ Hc), Fl. exact Hn.
  Qed.

  (* ---- the handlers' actions never panic ------------------------------------------------------- *)
  Lemma cwa_noerr cur st k pk d :
    Inv cur st -> err st = false -> lookup k (pending st) = Some pk -> In d (all_decls G) -> jid d = k -> pals pk = jalso d ->
    forall st1, pending st1 = pending st -> success st1 = success st -> err st1 = false ->
    err (complete_with_also st1 k) = false.
  Proof.
    intros HI He Hl Hd Hj Hp st1 Ep Es Ee.
    assert (Hk : In k (map fst (pending st))) by (apply lookup_Some_in; eexists; exact Hl).
    pose proof Hk as Hk'. apply (v_keys _ _ _ HI) in Hk' as [Hka Hks].
    unfold complete_with_also. rewrite Ep, Hl.
    assert (E : fold_left (fun s (a : N * N) => complete_one s (fst a)) (pals pk) (complete_one st1 k)
                = fold_left complete_one (k :: map fst (pals pk)) st1) by (cbn [fold_left]; apply fold_fst).
    rewrite E. apply fold_complete_noerr; [exact Ee| |].
    - rewrite Hp, <- Hj. constructor; [apply (jid_not_also G Hwf d Hd)|apply (alsos_nodup G Hwf d Hd)].
    - rewrite Ep, Es. intros x [<-|Hx]; [split; assumption|]. rewrite Hp in Hx.
      destruct (v_group _ _ _ HI d x Hd Hx) as (GA & _ & GS). rewrite Hj in GA, GS.
      assert (Hxs : ~ In x (success st)) by (intro H; apply Hks; apply GS; exact H).
      split; [apply (v_keys _ _ _ HI); split; [apply GA; exact Hka|exact Hxs]|exact Hxs].
  Qed.

  Lemma action_noerr st i done a todo :
    handler G i = done ++ a :: todo -> In i (success st) -> In i (g_launched st) ->
    Inv (Some (i, done)) st -> Inv4 (Some (i, done)) st -> err st = false ->
    incl (static_ids G) (g_added st) ->
    err (do_action st a) = false.
  Proof.
    intros Hh His Hil HI H4 He Hstat.
    (* a gated job whose gate is still closed in the executed part of this handler is pending *)
    assert (Hpend : forall j, gate_ok G i done j = true ->
              exists pj, lookup j (pending st) = Some pj /\ pacc pj = AUnknown /\ ~ In j (g_launched st)).
    { intros j Hgo. destruct (gate_ok_gated i done j Hgo) as (Hg & Hwhere & Hnone).
      apply (H4 i j Hg).
      - intros _ x Hx. unfold done_of in Hx. rewrite N.eqb_refl in Hx. apply Hnone. exact Hx.
      - destruct Hwhere as [Hs|Ha].
        + apply Hstat. apply in_map_iff in Hs as (d & <- & Hd). unfold static_ids. apply in_flat_map.
          exists d. split; [exact Hd|apply jid_in_decl_ids].
        + apply (v_handled _ _ _ HI i His Hil). unfold done_of. rewrite N.eqb_refl.
          apply in_map_iff in Ha as (d & <- & Hd). unfold add_ids. apply in_flat_map.
          exists d. split; [exact Hd|apply jid_in_decl_ids]. }
    pose proof (calm_at i done a todo Hh) as Hc.
    destruct a as [d|soft k acc0|k]; cbn [do_action].
    - rewrite insert_sticky. exact He.
    - destruct (lookup k (pending st)) as [pk|] eqn:Hl; [cbn; exact He|].
      destruct soft; [exact He|]. destruct (Hpend k Hc) as (pj & Hlj & _). congruence.
    - destruct (Hpend k Hc) as (pk & Hl & _ & Hn). rewrite Hl.
      destruct (gate_ok_gated i done k Hc) as (Hg & _ & _).
      rewrite (gated_entry _ st i k pk HI Hg Hl). apply memN_false in Hn. rewrite Hn. cbn [orb].
      destruct (job_group G Hwf _ st k pk HI Hl (gated_entry _ st i k pk HI Hg Hl)) as (d & Hd & Hj & Hp & _).
      destruct (finish_counters_fields st k pk) as (Fp & Fs & Fe & _). cbn zeta in *.
      apply (cwa_noerr (Some (i, done)) st k pk d HI He Hl Hd Hj Hp); [exact Fp|exact Fs|rewrite Fe; exact He].
  Qed.

  Lemma handler_fold_calm todo : forall st i done,
    handler G i = done ++ todo -> In i (success st) -> In i (g_launched st) ->
    Inv (Some (i, done)) st -> Inv4 (Some (i, done)) st -> err st = false ->
    incl (static_ids G) (g_added st) ->
    err (fold_left do_action todo st) = false /\ Inv4 (Some (i, done ++ todo)) (fold_left do_action todo st).
  Proof.
    induction todo as [|a todo IH]; intros st i done Hh His Hil HI H4 He Hstat; cbn [fold_left].
    - rewrite app_nil_r. auto.
    - pose proof (action_noerr st i done a todo Hh His Hil HI H4 He Hstat) as E1.
      destruct (do_action_mono st a i E1 His Hil) as [His' Hil'].
      replace (done ++ a :: todo) with ((done ++ [a]) ++ todo) by (rewrite <- app_assoc; reflexivity).
      apply IH; try assumption.
      + rewrite <- app_assoc. exact Hh.
      + apply (action_inv G Hwf) with (todo := todo); assumption.
      + apply action_inv4 with (todo := todo); assumption.
      + intros x Hx. apply (gr_added _ _ (do_action_grows st a E1)). apply Hstat. exact Hx.
  Qed.

  Lemma inv4_cur_ext cur cur' st : (forall c, done_of G cur c = done_of G cur' c) -> Inv4 cur st -> Inv4 cur' st.
  Proof.
    intros Hc H4 c j Hg Hun Hadd. apply (H4 c j Hg); [|exact Hadd]. intros Hd x Hx. rewrite Hc in Hx. exact (Hun Hd x Hx).
  Qed.

  (* ---- every step from a good state is good ----------------------------------------------------- *)
  Lemma step_calm st e st' :
    reach G st -> err st = false -> Inv4 None st -> step G st e = Some st' ->
    err st' = false /\ Inv4 None st'.
  Proof.
    intros Hreach He H4 Hs. destruct (reach_inv G Hwf st Hreach He) as [HI _].
    destruct e as [i|i|i]; cbn [step] in Hs.
    - (* launch *)
      destruct (lookup i (pending st)) as [pi|] eqn:Hl; [|discriminate].
      destruct (palso pi || prun pi || negb (can_run st i (pacc pi))) eqn:Hguard; [discriminate|].
      injection Hs as <-. split; [exact He|].
      apply orb_false_iff in Hguard as [_ Hcan]. apply negb_false_iff in Hcan.
      assert (Hik : In i (map fst (pending st))) by (apply lookup_Some_in; eexists; exact Hl).
      intros c j Hg Hun Hadd. cbn [g_added] in Hadd.
      destruct (H4 c j Hg) as (pj & Hlj & Hpj & Hn); [|exact Hadd|].
      + intros [D1 D2] x Hx. apply Hun; [split; [exact D1|right; exact D2]|exact Hx].
      + assert (Hne : j <> i).
        { intros ->. rewrite Hl in Hlj. injection Hlj as <-. rewrite Hpj in Hcan. discriminate. }
        exists pj. cbn [pending g_launched]. split; [rewrite lookup_set_entry_ne by exact Hne; exact Hlj|].
        split; [exact Hpj|]. intros [E|Hin]; [apply Hne; symmetry; exact E|contradiction].
    - (* worker finish *)
      destruct (lookup i (pending st)) as [pi|] eqn:Hl; [|discriminate].
      destruct (memN i (g_launched st) && negb (memN i (g_wfin st))); [|discriminate].
      injection Hs as <-. destruct (finish_counters_fields st i pi) as (Fp & Fs & Fe & Fa & Fl & Fw). cbn zeta in *.
      split; [rewrite Fe; exact He|].
      intros c j Hg Hun Hadd. rewrite Fa in Hadd. rewrite Fp, Fl. apply (H4 c j Hg); [|exact Hadd].
      intros Hd x Hx. apply Hun; [unfold delivered_run in *; rewrite Fs, Fl; exact Hd|exact Hx].
    - (* delivery *)
      destruct (memN i (g_launched st) && memN i (g_wfin st) && negb (memN i (success st))) eqn:Hg; [|discriminate].
      injection Hs as <-. apply andb_true_iff in Hg as [Hg H3]. apply andb_true_iff in Hg as [H1 H2].
      apply negb_true_iff in H3. apply memN_In in H1, H2. apply memN_false in H3.
      pose proof (delivery_never_panics G Hwf st i Hreach He H1 H2 H3) as E1.
      pose proof (deliver_complete_inv G Hwf st i HI H1 H2 H3 E1) as HI1.
      assert (Hik : In i (map fst (pending st))).
      { apply (v_keys _ _ _ HI). split; [apply (v_launched_added _ _ _ HI); exact H1|exact H3]. }
      apply lookup_Some_in in Hik as [pi Hl].
      assert (Hal : palso pi = false).
      { destruct (v_launched_job _ _ _ HI i H1) as (d & Hd & Hj).
        pose proof (v_entry _ _ _ HI i pi Hl) as (_ & _ & [(E & _)|(_ & _ & d2 & Hd2 & Hi2)]); [exact E|].
        exfalso. rewrite <- Hj in Hi2. exact (jid_not_in_group G Hwf d2 d Hd2 Hd Hi2). }
      destruct (job_group G Hwf None st i pi HI Hl Hal) as (d & Hd & Hj & Hp & Hpd).
      assert (Hnd : NoDup (i :: map fst (pals pi))).
      { rewrite Hp, <- Hj. constructor; [apply (jid_not_also G Hwf d Hd)|apply (alsos_nodup G Hwf d Hd)]. }
      pose proof (complete_with_also_ok st i pi Hl Hnd E1) as Hc.
      assert (H41 : Inv4 (Some (i, [])) (complete_with_also st i)).
      { intros c j Hgt Hun Hadd. rewrite (c_added _ _ _ Hc) in Hadd.
        destruct (H4 c j Hgt) as (pj & Hlj & Hpj & Hn); [|exact Hadd|].
        - intros [D1 D2] x Hx. assert (Hci : c <> i) by (intros ->; contradiction).
          apply Hun.
          + split; [apply (c_succ _ _ _ Hc); right; exact D1|rewrite (c_launched _ _ _ Hc); exact D2].
          + unfold done_of in *. destruct (N.eqb_spec i c) as [E|_]; [exfalso; apply Hci; symmetry; exact E|exact Hx].
        - assert (Hjn : ~ In j (i :: map fst (pals pi))).
          { intros [E|Hin]; [apply Hn; rewrite <- E; exact H1|]. rewrite Hp in Hin. exact (gated_not_also c j d Hgt Hd Hin). }
          exists pj. split; [rewrite (c_lookup _ _ _ Hc j Hjn); exact Hlj|]. split; [exact Hpj|].
          rewrite (c_launched _ _ _ Hc). exact Hn. }
      assert (His : In i (success (complete_with_also st i))) by (apply (c_succ _ _ _ Hc); left; left; reflexivity).
      assert (Hil : In i (g_launched (complete_with_also st i))) by (rewrite (c_launched _ _ _ Hc); exact H1).
      assert (Hstat : incl (static_ids G) (g_added (complete_with_also st i))).
      { rewrite (c_added _ _ _ Hc). exact (reach_static_added G Hwf st Hreach He). }
      destruct (handler_fold_calm (handler G i) (complete_with_also st i) i [] eq_refl His Hil HI1 H41 E1 Hstat) as [R1 R2].
      split; [exact R1|]. cbn [app] in R2. apply (inv4_cur_ext (Some (i, handler G i)) None); [|exact R2].
      intro c. unfold done_of. destruct (N.eqb_spec i c) as [->|_]; reflexivity.
  Qed.

  Lemma init_calm : err (init G) = false /\ Inv4 None (init G).
  Proof.
    destruct (init_fold_inv G Hwf (statics G) [] (empty_state) eq_refl (inv_empty G None) eq_refl eq_refl)
      as (A & B & C & D & E).
    cbn zeta in *. fold (init G) in *. unfold init in *. fold empty_state in *.
    assert (Herr : err (fold_left insert (statics G) empty_state) = false) by (rewrite E; reflexivity).
    split; [exact Herr|].
    assert (Hreach : reach G (init G)) by apply reach_init.
    destruct (reach_inv G Hwf (init G) Hreach Herr) as [HI HI2]. unfold init in HI, HI2. fold empty_state in HI, HI2.
    intros c j Hg _ Hadd.
    assert (Hk : In j (map fst (pending (fold_left insert (statics G) empty_state)))).
    { apply (v_keys _ _ _ HI). split; [exact Hadd|]. rewrite B. intros []. }
    apply lookup_Some_in in Hk as [pj Hl]. exists pj. split; [exact Hl|]. split; [|rewrite D; intros []].
    destruct Hg as [(d & Hd & Hj & Hu) _].
    destruct (w_acc _ _ _ HI2 j pj Hl) as [Hi|(c0 & sf & [Hc0 _] & _)]; [|rewrite B in Hc0; destruct Hc0].
    rewrite Hi, (init_acc_decl G Hwf d j Hd) by (rewrite <- Hj; apply jid_in_decl_ids). exact Hu.
  Qed.

  Theorem reach_calm st : reach G st -> err st = false /\ Inv4 None st.
  Proof.
    induction 1 as [|st e st' Hr IH Hs]; [exact init_calm|].
    destruct IH as [He H4]. exact (step_calm st e st' Hr He H4 Hs).
  Qed.
End Calm.

(* in every schedule of a graph with unique ids accepted by calm_graph, no panic state is ever reached *)
Theorem never_panics_in_all_schedules G evs st :
  wf_graph G -> calm_graph G = true -> run G (init G) evs = Some st -> err st = false.
Proof.
  intros Hwf Hcalm Hrun. apply (reach_calm G Hwf Hcalm st). eapply run_reach; [apply reach_init|exact Hrun].
Qed.
