(* C02 — delivery: completing a job, running its handler; the reachable-state theorem. *)
From Coq Require Import List NArith Bool Arith Lia.
From FV.C02 Require Import Model Graph GraphFacts Ops Inv Steps.
Import ListNotations.
Open Scope N_scope.

Section Steps2.
  Variable G : graph.
  Hypothesis Hwf : wf_graph G.
  Notation Inv := (Inv G).

  (* ---- completing a list of ids ------------------------------------------------------- *)
  Record completed (st st' : state) (ids : list N) : Prop := mkCompleted {
    c_cnt : cnt st' = cnt st;
    c_added : g_added st' = g_added st;
    c_launched : g_launched st' = g_launched st;
    c_wfin : g_wfin st' = g_wfin st;
    c_err : err st' = false;
    c_succ : forall k, In k (success st') <-> In k ids \/ In k (success st);
    c_keys : forall k, In k (map fst (pending st')) <-> In k (map fst (pending st)) /\ ~ In k ids;
    c_lookup : forall k, ~ In k ids -> lookup k (pending st') = lookup k (pending st);
    c_nodup : NoDup (map fst (pending st)) -> NoDup (map fst (pending st'));
    c_fresh : forall k, In k ids -> ~ In k (success st);
  }.

  Lemma completed_nil st : err st = false -> completed st st [].
  Proof.
    intro H. constructor; try reflexivity; try exact H.
    - intro k. cbn [In]. tauto.
    - intro k. cbn [In]. tauto.
    - intro H0. exact H0.
    - intros k [].
  Qed.

  Lemma fold_complete_ok (als : list N) : forall st,
    err (fold_left complete_one als st) = false -> NoDup als ->
    completed st (fold_left complete_one als st) als.
  Proof.
    induction als as [|a als IH]; intros st He Hnd; cbn [fold_left] in *; [apply completed_nil; exact He|].
    inversion Hnd as [|? ? Hna Hnd']; subst.
    assert (He1 : err (complete_one st a) = false).
    { destruct (err (complete_one st a)) eqn:E; [|reflexivity].
      assert (X : err (fold_left complete_one als (complete_one st a)) = true).
      { clear -E. revert E. generalize (complete_one st a). induction als as [|b als IHa]; intros s E; cbn [fold_left]; [exact E|].
        apply IHa. apply complete_one_sticky. exact E. }
      congruence. }
    destruct (complete_one_ok st a He1) as (E0 & Hin & Hns & Eq).
    specialize (IH (complete_one st a) He Hnd'). destruct IH as [I1 I2 I3 I4 I5 I6 I7 I8 I9 I10].
    assert (F1 : cnt (complete_one st a) = cnt st) by (rewrite Eq; reflexivity).
    assert (F2 : g_added (complete_one st a) = g_added st) by (rewrite Eq; reflexivity).
    assert (F3 : g_launched (complete_one st a) = g_launched st) by (rewrite Eq; reflexivity).
    assert (F4 : g_wfin (complete_one st a) = g_wfin st) by (rewrite Eq; reflexivity).
    assert (F5 : success (complete_one st a) = a :: success st) by (rewrite Eq; reflexivity).
    assert (F6 : pending (complete_one st a) = remove_key a (pending st)) by (rewrite Eq; reflexivity).
    constructor.
    - rewrite I1. exact F1.
    - rewrite I2. exact F2.
    - rewrite I3. exact F3.
    - rewrite I4. exact F4.
    - exact I5.
    - intro k. rewrite I6, F5. cbn [In]. tauto.
    - intro k. rewrite I7, F6, in_remove_key. cbn [In]. intuition congruence.
    - intros k Hk. cbn [In] in Hk. rewrite I8 by tauto. rewrite F6. apply lookup_remove_key_ne. intro E. apply Hk. left. congruence.
    - intro H. apply I9. rewrite F6. apply NoDup_remove_key. exact H.
    - intros k [<-|Hk]; [exact Hns|]. intro Hs. apply (I10 k Hk). rewrite F5. right. exact Hs.
  Qed.

  Lemma fold_fst (l : list (N * N)) : forall s,
    fold_left (fun s (a : N * N) => complete_one s (fst a)) l s = fold_left complete_one (map fst l) s.
  Proof. induction l as [|a l IH]; intro s; cbn [fold_left map]; [reflexivity|apply IH]. Qed.

  Lemma complete_with_also_ok st i pj :
    lookup i (pending st) = Some pj -> NoDup (i :: map fst (pals pj)) ->
    err (complete_with_also st i) = false ->
    completed st (complete_with_also st i) (i :: map fst (pals pj)).
  Proof.
    intros Hl Hnd He. unfold complete_with_also in *. rewrite Hl in *.
    assert (E : fold_left (fun s (a : N * N) => complete_one s (fst a)) (pals pj) (complete_one st i)
                = fold_left complete_one (i :: map fst (pals pj)) st).
    { cbn [fold_left]. apply fold_fst. }
    rewrite E in *. apply fold_complete_ok; assumption.
  Qed.

  (* ---- Deliver, first part: the job and its also-completes ids become complete ---------- *)
  Lemma deliver_complete_inv st i :
    Inv None st -> In i (g_launched st) -> In i (g_wfin st) -> ~ In i (success st) ->
    err (complete_with_also st i) = false ->
    Inv (Some (i, [])) (complete_with_also st i).
  Proof.
    intros HI Hla Hw Hns He.
    assert (Hia : In i (g_added st)) by (apply (v_launched_added _ _ _ HI); exact Hla).
    assert (Hik : In i (map fst (pending st))) by (apply (v_keys _ _ _ HI); split; assumption).
    apply lookup_Some_in in Hik as [pj Hl].
    assert (Hal : palso pj = false).
    { destruct (v_launched_job _ _ _ HI i Hla) as (d & Hd & Hj).
      pose proof (v_entry _ _ _ HI i pj Hl) as (_ & _ & [(E & _)|(_ & _ & d2 & Hd2 & Hi2)]); [exact E|].
      exfalso. assert (d2 = d) by (eapply (decl_unique G Hwf); [exact Hd2|exact Hd|apply also_in_decl_ids; exact Hi2|rewrite <- Hj; apply jid_in_decl_ids]).
      subst d2. apply (jid_not_also G Hwf d Hd). rewrite Hj. exact Hi2. }
    destruct (job_group G Hwf None st i pj HI Hl Hal) as (d & Hd & Hj & Hp & Hpd).
    assert (Hnd : NoDup (i :: map fst (pals pj))).
    { rewrite Hp, <- Hj. constructor; [apply (jid_not_also G Hwf d Hd)|apply (alsos_nodup G Hwf d Hd)]. }
    destruct (complete_with_also_ok st i pj Hl Hnd He) as [C1 C2 C3 C4 C5 C6 C7 C8 C9 C10].
    set (st' := complete_with_also st i) in *.
    assert (Hgrp : forall x, In x (i :: map fst (pals pj)) -> In x (jid d :: map fst (jalso d))) by (rewrite Hp, Hj; tauto).
    constructor; rewrite ?C1, ?C2, ?C3, ?C4.
    - apply C9. apply HI.
    - intro k. rewrite C7, C6, (v_keys _ _ _ HI). tauto.
    - apply HI.
    - intros x Hx. apply C6 in Hx as [Hx|Hx]; [|apply (v_succ_wfin _ _ _ HI); exact Hx].
      destruct Hx as [<-|Hx]; [exact Hw|]. rewrite Hp in Hx.
      apply (v_group _ _ _ HI d x Hd Hx). rewrite Hj. exact Hw.
    - apply HI.
    - apply HI.
    - apply HI.
    - intros d0 Hd0 Hw0. destruct (v_wfin_src _ _ _ HI d0 Hd0 Hw0) as [H|H]; [left; exact H|right; apply C6; right; exact H].
    - intro d0. rewrite (v_cnt _ _ _ HI). reflexivity.
    - intros k pk Hk. destruct (in_dec N.eq_dec k (i :: map fst (pals pj))) as [Hin|Hout].
      + exfalso. assert (Hkk : In k (map fst (pending st'))) by (apply lookup_Some_in; eexists; exact Hk).
        apply C7 in Hkk. tauto.
      + rewrite C8 in Hk by exact Hout. pose proof (v_entry _ _ _ HI k pk Hk) as (A & B & C).
        unfold entry_ok. rewrite C3. split; [exact A|split; [exact B|exact C]].
    - intros d0 a Hd0 Ha. rewrite C2, C4. destruct (v_group _ _ _ HI d0 a Hd0 Ha) as (A & B & C).
      split; [exact A|]. split; [exact B|]. rewrite !C6.
      destruct (in_dec N.eq_dec (jid d0) (decl_ids d)) as [Hin|Hout].
      + assert (d0 = d) by (eapply (decl_unique G Hwf); [exact Hd0|exact Hd|apply jid_in_decl_ids|exact Hin]). subst d0.
        split; intros _; left; [right; rewrite Hp; exact Ha|left; exact (eq_sym Hj)].
      + assert (N1 : ~ In (jid d0) (i :: map fst (pals pj))).
        { intro Hx. apply Hout. assert (d0 = d) by (eapply (group_member G Hwf); [exact Hd|exact Hd0|apply Hgrp; exact Hx|apply jid_in_decl_ids]).
          subst d0. apply jid_in_decl_ids. }
        assert (N2 : ~ In a (i :: map fst (pals pj))).
        { intro Hx. apply Hout. assert (d0 = d) by (eapply (group_member G Hwf); [exact Hd|exact Hd0|apply Hgrp; exact Hx|apply also_in_decl_ids; exact Ha]).
          subst d0. apply jid_in_decl_ids. }
        rewrite C. tauto.
    - intros x Hx. destruct (v_created _ _ _ HI x Hx) as [Hs|(c & Hc & Hcl & Hxc)]; [left; exact Hs|].
      right. exists c. split; [apply C6; right; exact Hc|]. split; [exact Hcl|].
      unfold done_of. destruct (N.eqb_spec i c) as [->|_]; [contradiction|exact Hxc].
    - intros c Hc Hcl. apply C6 in Hc. unfold done_of. destruct (N.eqb_spec i c) as [->|Hne]; [intros x []|].
      destruct Hc as [[E|Hc]|Hc]; [congruence| |apply (v_handled _ _ _ HI c Hc Hcl)].
      (* an also-completes id has no handler *)
      rewrite Hp in Hc. rewrite (also_no_handler G Hwf d c Hd Hc). intros x [].
  Qed.
End Steps2.
