(* C02 — reachable states, monotonicity, and the history of a launch. *)
From Coq Require Import List NArith Bool Arith Lia.
From FV.C02 Require Import Model Graph GraphFacts Ops Inv Steps Steps2 Steps3 Acc Acc2.
Import ListNotations.
Open Scope N_scope.

Section Reach.
  Variable G : graph.
  Hypothesis Hwf : wf_graph G.
  Notation Inv := (Inv G).
  Notation Inv2 := (Inv2 G).

  Inductive reach : state -> Prop :=
  | reach_init : reach (init G)
  | reach_step st e st' : reach st -> step G st e = Some st' -> reach st'.

  Lemma run_reach evs : forall s st, reach s -> run G s evs = Some st -> reach st.
  Proof.
    induction evs as [|e evs IH]; intros s st Hs Hr; cbn [run] in Hr; [injection Hr as <-; exact Hs|].
    destruct (step G s e) as [s1|] eqn:E; [|discriminate]. eapply IH; [eapply reach_step; eassumption|exact Hr].
  Qed.

  Lemma reach_err_false st : reach st -> forall st' e, step G st e = Some st' -> err st' = false -> err st = false.
  Proof.
    intros _ st' e Hs He. destruct (err st) eqn:X; [|reflexivity].
    rewrite (step_err_sticky G st e st' Hs X) in He. discriminate.
  Qed.

  Lemma reach_inv st : reach st -> err st = false -> Inv None st /\ Inv2 None st.
  Proof.
    induction 1 as [|st e st' Hr IH Hs]; intro He.
    - destruct (init_inv G Hwf) as (A & _ & _). split; [exact A|].
      unfold init. apply (init_fold_inv2 G Hwf); [intros d Hd; apply (static_decl_in G); exact Hd|apply inv2_empty].
    - pose proof (reach_err_false st Hr st' e Hs He) as He0. destruct (IH He0) as [A B].
      split; [eapply (step_inv G Hwf); eassumption|eapply (step_inv2 G Hwf); eassumption].
  Qed.

  (* ---- monotonicity ------------------------------------------------------------------- *)
  Record grows (st st' : state) : Prop := mkGrows {
    gr_succ : incl (success st) (success st');
    gr_wfin : incl (g_wfin st) (g_wfin st');
    gr_launched : incl (g_launched st) (g_launched st');
    gr_added : incl (g_added st) (g_added st');
  }.

  Lemma grows_refl st : grows st st.
  Proof. constructor; apply incl_refl. Qed.

  Lemma grows_trans a b c : grows a b -> grows b c -> grows a c.
  Proof. intros [A1 A2 A3 A4] [B1 B2 B3 B4]. constructor; eapply incl_tran; eassumption. Qed.

  Lemma complete_one_grows st i : err (complete_one st i) = false -> grows st (complete_one st i).
  Proof.
    intro He. destruct (complete_one_ok st i He) as (_ & _ & _ & Eq). rewrite Eq.
    constructor; cbn; try apply incl_refl. apply incl_tl. apply incl_refl.
  Qed.

  Lemma fold_complete_grows (als : list (N * N)) : forall st,
    err (fold_left (fun s a => complete_one s (fst a)) als st) = false ->
    grows st (fold_left (fun s a => complete_one s (fst a)) als st).
  Proof.
    induction als as [|a als IH]; intros st He; cbn [fold_left] in *; [apply grows_refl|].
    assert (E1 : err (complete_one st (fst a)) = false).
    { destruct (err (complete_one st (fst a))) eqn:X; [|reflexivity]. rewrite fold_complete_sticky in He by exact X. discriminate. }
    eapply grows_trans; [apply complete_one_grows; exact E1|apply IH; exact He].
  Qed.

  Lemma complete_with_also_grows st i : err (complete_with_also st i) = false -> grows st (complete_with_also st i).
  Proof.
    unfold complete_with_also. destruct (lookup i (pending st)); [|cbn; discriminate]. intro He.
    assert (E1 : err (complete_one st i) = false).
    { destruct (err (complete_one st i)) eqn:X; [|reflexivity]. rewrite fold_complete_sticky in He by exact X. discriminate. }
    eapply grows_trans; [apply complete_one_grows; exact E1|apply fold_complete_grows; exact He].
  Qed.

  Lemma finish_counters_grows st i pj : grows st (finish_counters st i pj).
  Proof.
    destruct (finish_counters_fields st i pj) as (Fp & Fs & Fe & Fa & Fl & Fw). cbn zeta in *.
    constructor; rewrite ?Fs, ?Fa, ?Fl, ?Fw; try apply incl_refl. apply incl_appr. apply incl_refl.
  Qed.

  Lemma do_action_grows st a : err (do_action st a) = false -> grows st (do_action st a).
  Proof.
    intro He. destruct a as [d|soft j acc|j]; cbn [do_action] in *.
    - destruct (insert_fields st d) as (Fs & Fe & Fl & Fw & Fa). constructor; rewrite ?Fs, ?Fl, ?Fw, ?Fa; try apply incl_refl.
      apply incl_appr. apply incl_refl.
    - destruct (lookup j (pending st)); [constructor; cbn; apply incl_refl|].
      destruct soft; [apply grows_refl|discriminate].
    - destruct (lookup j (pending st)) as [pj|]; [|discriminate].
      destruct (palso pj || memN j (g_launched st)); [discriminate|].
      eapply grows_trans; [apply finish_counters_grows|apply complete_with_also_grows; exact He].
  Qed.

  Lemma fold_action_grows acts : forall st, err (fold_left do_action acts st) = false ->
    grows st (fold_left do_action acts st).
  Proof.
    induction acts as [|a acts IH]; intros st He; cbn [fold_left] in *; [apply grows_refl|].
    assert (E1 : err (do_action st a) = false).
    { destruct (err (do_action st a)) eqn:X; [|reflexivity]. rewrite fold_action_sticky in He by exact X. discriminate. }
    eapply grows_trans; [apply do_action_grows; exact E1|apply IH; exact He].
  Qed.

  Lemma step_grows st e st' : step G st e = Some st' -> err st' = false -> grows st st'.
  Proof.
    intros Hs He. destruct e as [i|i|i]; cbn [step] in Hs.
    - destruct (lookup i (pending st)) as [pj|]; [|discriminate].
      destruct (palso pj || prun pj || negb (can_run st i (pacc pj))); [discriminate|]. injection Hs as <-.
      constructor; cbn; try apply incl_refl. apply incl_tl. apply incl_refl.
    - destruct (lookup i (pending st)) as [pj|]; [|discriminate].
      destruct (memN i (g_launched st) && negb (memN i (g_wfin st))); [|discriminate]. injection Hs as <-.
      apply finish_counters_grows.
    - destruct (memN i (g_launched st) && memN i (g_wfin st) && negb (memN i (success st))); [|discriminate].
      injection Hs as <-.
      assert (E1 : err (complete_with_also st i) = false).
      { destruct (err (complete_with_also st i)) eqn:X; [|reflexivity]. rewrite fold_action_sticky in He by exact X. discriminate. }
      eapply grows_trans; [apply complete_with_also_grows; exact E1|apply fold_action_grows; exact He].
  Qed.

  Lemma init_static_added : incl (static_ids G) (g_added (init G)).
  Proof. destruct (init_inv G Hwf) as (_ & A & _). rewrite A. intros x Hx. apply in_rev. rewrite rev_involutive. exact Hx. Qed.

  Lemma reach_static_added st : reach st -> err st = false -> incl (static_ids G) (g_added st).
  Proof.
    induction 1 as [|st e st' Hr IH Hs]; intro He; [apply init_static_added|].
    pose proof (reach_err_false st Hr st' e Hs He) as He0.
    eapply incl_tran; [apply IH; exact He0|apply (gr_added _ _ (step_grows st e st' Hs He))].
  Qed.

  (* only a launch changes the set of launched jobs, by putting the job in front *)
  Lemma launched_const_complete_one s k : g_launched (complete_one s k) = g_launched s.
  Proof. unfold complete_one. destruct (lookup k (pending s)); [|reflexivity]. destruct (memN k (success s)); reflexivity. Qed.

  Lemma launched_const_fold_complete (l : list (N * N)) : forall s,
    g_launched (fold_left (fun s a => complete_one s (fst a)) l s) = g_launched s.
  Proof. induction l as [|a l IHl]; intro s; cbn [fold_left]; [reflexivity|]. rewrite IHl. apply launched_const_complete_one. Qed.

  Lemma launched_const_complete_with_also s k : g_launched (complete_with_also s k) = g_launched s.
  Proof.
    unfold complete_with_also. destruct (lookup k (pending s)); [|reflexivity].
    rewrite launched_const_fold_complete. apply launched_const_complete_one.
  Qed.

  Lemma launched_const_action a s : g_launched (do_action s a) = g_launched s.
  Proof.
    destruct a as [d|soft j acc|j]; cbn [do_action].
    - apply insert_fields.
    - destruct (lookup j (pending s)); [reflexivity|]. destruct soft; reflexivity.
    - destruct (lookup j (pending s)) as [pj|]; [|reflexivity].
      destruct (palso pj || memN j (g_launched s)); [reflexivity|]. rewrite launched_const_complete_with_also.
      destruct (finish_counters_fields s j pj) as (_ & _ & _ & _ & Fl & _). exact Fl.
  Qed.

  Lemma launched_const_actions acts : forall s, g_launched (fold_left do_action acts s) = g_launched s.
  Proof. induction acts as [|a acts IHa]; intro s; cbn [fold_left]; [reflexivity|]. rewrite IHa. apply launched_const_action. Qed.

  Lemma step_launched st e st' : step G st e = Some st' ->
    g_launched st' = g_launched st \/ (exists i, e = Launch i /\ g_launched st' = i :: g_launched st).
  Proof.
    intro Hs. destruct e as [i|i|i]; cbn [step] in Hs.
    - destruct (lookup i (pending st)) as [pj|]; [|discriminate].
      destruct (palso pj || prun pj || negb (can_run st i (pacc pj))); [discriminate|]. injection Hs as <-.
      right. exists i. split; reflexivity.
    - destruct (lookup i (pending st)) as [pj|]; [|discriminate].
      destruct (memN i (g_launched st) && negb (memN i (g_wfin st))); [|discriminate]. injection Hs as <-.
      left. destruct (finish_counters_fields st i pj) as (_ & _ & _ & _ & Fl & _). exact Fl.
    - destruct (memN i (g_launched st) && memN i (g_wfin st) && negb (memN i (success st))); [|discriminate].
      injection Hs as <-. left. rewrite launched_const_actions. apply launched_const_complete_with_also.
  Qed.

  (* ---- the moment a job was launched ------------------------------------------------------ *)
  (* if y has been launched, there was a reachable state st0 in which y was pending, not an
     also-completes entry, runnable under its then-current access, and the state right after that
     launch (st1) is reachable too; everything complete/finished then still is *)
  Lemma launched_history st y : reach st -> err st = false -> In y (g_launched st) ->
    exists st0 pj st1,
      reach st0 /\ err st0 = false /\ lookup y (pending st0) = Some pj /\ palso pj = false
      /\ can_run st0 y (pacc pj) = true
      /\ reach st1 /\ err st1 = false /\ In y (g_launched st1)
      /\ success st1 = success st0 /\ g_wfin st1 = g_wfin st0
      /\ grows st1 st /\ g_added st1 = g_added st0
      /\ g_launched st1 = y :: g_launched st0 /\ (exists ext, g_launched st = ext ++ g_launched st1).
  Proof.
    induction 1 as [|st e st' Hr IH Hs]; intros He Hy.
    - exfalso. destruct (init_inv G Hwf) as (A & _ & _).
      pose proof (v_launched_added _ _ _ A y Hy) as Hya.
      (* nothing is launched initially: launched ⊆ added but g_launched (init) = [] *)
      clear -Hy Hwf. unfold init in Hy.
      assert (Hl : forall ds s, g_launched (fold_left insert ds s) = g_launched s).
      { induction ds as [|d ds IHd]; intro s; cbn [fold_left]; [reflexivity|]. rewrite IHd. apply insert_fields. }
      rewrite Hl in Hy. destruct Hy.
    - pose proof (reach_err_false st Hr st' e Hs He) as He0.
      pose proof (step_grows st e st' Hs He) as Hg.
      destruct (in_dec N.eq_dec y (g_launched st)) as [Hin|Hout].
      + destruct (IH He0 Hin) as (st0 & pj & st1 & A1 & A2 & A3 & A4 & A5 & A6 & A7 & A8 & A9 & A10 & A11 & A12 & A13 & ext & A14).
        exists st0, pj, st1. split; [exact A1|]. split; [exact A2|]. split; [exact A3|]. split; [exact A4|]. split; [exact A5|].
        split; [exact A6|]. split; [exact A7|]. split; [exact A8|]. split; [exact A9|]. split; [exact A10|].
        split; [eapply grows_trans; [exact A11|exact Hg]|]. split; [exact A12|]. split; [exact A13|].
        destruct (step_launched st e st' Hs) as [E|(i & _ & E)]; rewrite E, A14; [exists ext|exists (i :: ext)]; reflexivity.
      + (* this very step launched y *)
        destruct e as [i|i|i]; cbn [step] in Hs.
        * destruct (lookup i (pending st)) as [pj|] eqn:Hl; [|discriminate].
          destruct (palso pj || prun pj || negb (can_run st i (pacc pj))) eqn:Hgd; [discriminate|].
          injection Hs as Hs. pose proof Hgd as Hguard.
          apply orb_false_iff in Hgd as [Hgd Hcr]. apply orb_false_iff in Hgd as [Hal _].
          apply negb_false_iff in Hcr.
          assert (y = i).
          { rewrite <- Hs in Hy. cbn [g_launched] in Hy. destruct Hy as [E|Hy]; [congruence|contradiction]. }
          subst i. exists st, pj, st'. split; [exact Hr|]. split; [exact He0|]. split; [exact Hl|]. split; [exact Hal|].
          split; [exact Hcr|]. split.
          { apply (reach_step st (Launch y) st' Hr). cbn [step]. rewrite Hl, Hguard, Hs. reflexivity. }
          split; [exact He|]. split; [exact Hy|]. rewrite <- Hs. cbn [success g_wfin g_added]. split; [reflexivity|]. split; [reflexivity|].
          split; [rewrite Hs; apply grows_refl|]. split; [reflexivity|]. split; [reflexivity|]. exists []. reflexivity.
        * exfalso. apply Hout. destruct Hg as [_ _ G3 _].
          destruct (lookup i (pending st)) as [pj|]; [|discriminate].
          destruct (memN i (g_launched st) && negb (memN i (g_wfin st))); [|discriminate]. injection Hs as <-.
          destruct (finish_counters_fields st i pj) as (_ & _ & _ & _ & Fl & _). cbn zeta in Fl. rewrite Fl in Hy. exact Hy.
        * exfalso. apply Hout.
          destruct (memN i (g_launched st) && memN i (g_wfin st) && negb (memN i (success st))); [|discriminate].
          injection Hs as <-.
          (* delivering launches nothing *)
          assert (Hc : forall s k, g_launched (complete_one s k) = g_launched s).
          { intros s k. unfold complete_one. destruct (lookup k (pending s)); [|reflexivity]. destruct (memN k (success s)); reflexivity. }
          assert (Hfc : forall (l : list (N * N)) s, g_launched (fold_left (fun s a => complete_one s (fst a)) l s) = g_launched s).
          { induction l as [|a l IHl]; intro s; cbn [fold_left]; [reflexivity|]. rewrite IHl. apply Hc. }
          assert (Hca : forall s k, g_launched (complete_with_also s k) = g_launched s).
          { intros s k. unfold complete_with_also. destruct (lookup k (pending s)); [|reflexivity]. rewrite Hfc. apply Hc. }
          assert (Hda : forall a s, g_launched (do_action s a) = g_launched s).
          { intros a s. destruct a as [d|soft j acc|j]; cbn [do_action].
            - apply insert_fields.
            - destruct (lookup j (pending s)); [reflexivity|]. destruct soft; reflexivity.
            - destruct (lookup j (pending s)) as [pj|]; [|reflexivity].
              destruct (palso pj || memN j (g_launched s)); [reflexivity|]. rewrite Hca.
              destruct (finish_counters_fields s j pj) as (_ & _ & _ & _ & Fl & _). exact Fl. }
          assert (Hfa : forall acts s, g_launched (fold_left do_action acts s) = g_launched s).
          { induction acts as [|a acts IHa]; intro s; cbn [fold_left]; [reflexivity|]. rewrite IHa. apply Hda. }
          rewrite Hfa, Hca in Hy. exact Hy.
  Qed.
End Reach.
