(* C02 — third invariant: a job that has been settled (its Unknown access rewritten by a handler
   that ran when the job existed, or completed by a handler) stays settled. *)
From Coq Require Import List NArith Bool Arith Lia.
From FV.C02 Require Import Model Graph GraphFacts Ops Inv Steps Steps2 Steps3 Acc Acc2 Reach.
Import ListNotations.
Open Scope N_scope.

Lemma snoc_split {A} (done pre post : list A) x y :
  done ++ [x] = pre ++ y :: post ->
  (post = [] /\ x = y /\ done = pre) \/ (exists post', post = post' ++ [x] /\ done = pre ++ y :: post').
Proof.
  intro H. induction post as [|a l _] using rev_ind.
  - left. apply app_inj_tail in H as [H1 H2]. auto.
  - right. exists l. replace (pre ++ y :: l ++ [a]) with ((pre ++ y :: l) ++ [a]) in H
      by (rewrite <- app_assoc; reflexivity).
    apply app_inj_tail in H as [H1 H2]. subst. auto.
Qed.

Lemma add_ids_cons_add d t : add_ids (Add d :: t) = decl_ids d ++ add_ids t.
Proof. unfold add_ids, add_decls. cbn [flat_map app]. reflexivity. Qed.

Lemma add_ids_cons_other a t : (forall d, a <> Add d) -> add_ids (a :: t) = add_ids t.
Proof. intro H. unfold add_ids, add_decls. destruct a; cbn [flat_map app]; [exfalso; eapply H; reflexivity|reflexivity|reflexivity]. Qed.

Section Live3.
  Variable G : graph.
  Hypothesis Hwf : wf_graph G.
  (* no handler rewrites an access to Unknown *)
  Hypothesis Hnu : forall c soft j acc, In (Rewrite soft j acc) (handler G c) -> acc <> AUnknown.
  Notation Inv := (Inv G).
  Notation Inv2 := (Inv2 G).

  Record Inv3 (cur : option (N * list action)) (st : state) : Prop := mkInv3 {
    x_rw : forall j pj c pre post soft acc,
      lookup j (pending st) = Some pj -> delivered_run st c ->
      done_of G cur c = pre ++ Rewrite soft j acc :: post ->
      In j (static_ids G) \/ In j (add_ids pre) ->
      pacc pj <> AUnknown;
    x_cn : forall c j, delivered_run st c -> In (CompleteNow j) (done_of G cur c) -> In j (success st);
  }.

  Lemma inv3_no_success cur st : success st = [] -> Inv3 cur st.
  Proof.
    intro H. constructor.
    - intros j pj c pre post soft acc _ [Hc _]. rewrite H in Hc. destruct Hc.
    - intros c j [Hc _]. rewrite H in Hc. destruct Hc.
  Qed.

  (* the part of a handler that has run, one action later *)
  Lemma split_old i done a c pre x post :
    done_of G (Some (i, done ++ [a])) c = pre ++ x :: post ->
    (c = i /\ post = [] /\ a = x /\ done = pre)
    \/ exists post', done_of G (Some (i, done)) c = pre ++ x :: post'.
  Proof.
    unfold done_of. destruct (N.eqb_spec i c) as [->|Hne]; intro H.
    - apply snoc_split in H as [(A & B & C)|(post' & A & B)]; [left; auto|right; exists post'; exact B].
    - right. exists post. exact H.
  Qed.

  Lemma in_done_old i done a c x :
    In x (done_of G (Some (i, done ++ [a])) c) -> (c = i /\ x = a) \/ In x (done_of G (Some (i, done)) c).
  Proof.
    unfold done_of. destruct (N.eqb_spec i c) as [->|Hne]; intro H; [|right; exact H].
    apply in_app_or in H as [H|[H|[]]]; [right; exact H|left; auto].
  Qed.

  Lemma done_sub_handler i done todo c x :
    handler G i = done ++ todo -> In x (done_of G (Some (i, done)) c) -> In x (handler G c).
  Proof.
    intros Hh. unfold done_of. destruct (N.eqb_spec i c) as [->|Hne]; intro H; [|exact H].
    rewrite Hh. apply in_or_app. left. exact H.
  Qed.

  (* ids completed by a handler action or a delivery were not delivered runs before, and are not afterwards
     unless they were launched *)
  Lemma completed_delivered st st' ids c :
    completed st st' ids -> (forall x, In x ids -> In x (g_launched st) -> x = c -> False) ->
    delivered_run st' c -> In c ids \/ delivered_run st c.
  Proof.
    intros Hc _ [H1 H2]. apply (c_succ _ _ _ Hc) in H1 as [H1|H1]; [left; exact H1|].
    right. split; [exact H1|]. rewrite <- (c_launched _ _ _ Hc). exact H2.
  Qed.

  Lemma action_inv3 st i done a todo :
    handler G i = done ++ a :: todo -> In i (success st) -> In i (g_launched st) ->
    Inv (Some (i, done)) st -> Inv3 (Some (i, done)) st -> err (do_action st a) = false ->
    Inv3 (Some (i, done ++ [a])) (do_action st a).
  Proof.
    intros Hh His Hil HI [A B] He.
    assert (Hain : In a (handler G i)) by (rewrite Hh; apply in_or_app; right; left; reflexivity).
    destruct a as [d|soft k acc0|k]; cbn [do_action] in *.
    - (* Add *)
      destruct (insert_fields st d) as (Fs & Fe & Fl & Fw & Fa).
      assert (Hd : In d (add_decls (handler G i))).
      { rewrite Hh. unfold add_decls. rewrite flat_map_app. apply in_or_app. right. left. reflexivity. }
      constructor; unfold delivered_run; rewrite ?Fs, ?Fl.
      + intros j pj c pre post soft acc Hl Hc Hsp Hor.
        apply split_old in Hsp as [(_ & _ & E & _)|(post' & Hsp)]; [discriminate|].
        destruct (in_dec N.eq_dec j (decl_ids d)) as [Hin|Hout].
        * exfalso.
          assert (Hji : In j (add_ids (handler G i))).
          { unfold add_ids. apply in_flat_map. exists d. split; assumption. }
          destruct Hor as [Hst|Hpre]; [exact (static_handler_disjoint G Hwf j i Hst Hji)|].
          destruct (N.eq_dec c i) as [->|Hne].
          -- unfold done_of in Hsp. rewrite N.eqb_refl in Hsp.
             pose proof (handler_ids_nodup G Hwf i) as Hnd. rewrite Hh, Hsp in Hnd.
             rewrite <- app_assoc, add_ids_app in Hnd.
             apply (NoDup_app_disjoint _ _ j Hnd Hpre).
             cbn [app]. rewrite add_ids_cons_other by (intros ? ?; discriminate).
             rewrite add_ids_app, add_ids_cons_add. apply in_or_app. right. apply in_or_app. left. exact Hin.
          -- assert (Hjc : In j (add_ids (handler G c))).
             { unfold done_of in Hsp. destruct (N.eqb_spec i c); [congruence|]. rewrite Hsp, add_ids_app.
               apply in_or_app. left. exact Hpre. }
             apply Hne. exact (handlers_disjoint G Hwf j c i Hjc Hji).
        * rewrite insert_lookup_other in Hl by exact Hout. eapply A; eassumption.
      + intros c j Hc Hin. apply in_done_old in Hin as [[_ E]|Hin]; [discriminate|]. eapply B; eassumption.
    - (* Rewrite *)
      assert (Hacc : acc0 <> AUnknown) by (eapply Hnu; exact Hain).
      assert (Hgen : forall st', success st' = success st -> g_launched st' = g_launched st ->
                (forall j pj, lookup j (pending st') = Some pj ->
                              (j = k /\ pacc pj = acc0) \/ (j <> k /\ lookup j (pending st) = Some pj)) ->
                Inv3 (Some (i, done ++ [Rewrite soft k acc0])) st').
      { intros st' Es El Hent. constructor; unfold delivered_run; rewrite ?Es, ?El.
        - intros j pj c pre post sf acc Hl Hc Hsp Hor.
          destruct (Hent j pj Hl) as [[-> ->]|[Hne Hl0]]; [exact Hacc|].
          apply split_old in Hsp as [(_ & _ & E & _)|(post' & Hsp)]; [injection E as _ E _; congruence|].
          eapply A; eassumption.
        - intros c j Hc Hin. apply in_done_old in Hin as [[_ E]|Hin]; [discriminate|]. eapply B; eassumption. }
      destruct (lookup k (pending st)) as [pk|] eqn:Hl.
      + assert (Hkk : In k (map fst (pending st))) by (apply lookup_Some_in; eexists; exact Hl).
        apply Hgen; [reflexivity|reflexivity|]. cbn [set_pending pending].
        intros j pj Hj. destruct (N.eq_dec j k) as [->|Hne].
        * rewrite lookup_set_entry_eq in Hj by exact Hkk. injection Hj as <-. left. auto.
        * rewrite lookup_set_entry_ne in Hj by exact Hne. right. auto.
      + destruct soft; [|cbn in He; discriminate]. apply Hgen; [reflexivity|reflexivity|].
        intros j pj Hj. right. split; [intros ->; congruence|exact Hj].
    - (* CompleteNow *)
      destruct (lookup k (pending st)) as [pk|] eqn:Hl; [|cbn in He; discriminate].
      destruct (palso pk) eqn:Hal; [cbn in He; discriminate|].
      destruct (memN k (g_launched st)) eqn:Hm; [cbn in He; discriminate|]. cbn [orb] in *.
      apply memN_false in Hm.
      destruct (job_group G Hwf _ st k pk HI Hl Hal) as (d & Hd & Hj & Hp & Hpd).
      destruct (finish_counters_fields st k pk) as (Fp & Fs & Fe & Fa & Fl & Fw). cbn zeta in *.
      set (st1 := finish_counters st k pk) in *.
      assert (Hl1 : lookup k (pending st1) = Some pk) by (rewrite Fp; exact Hl).
      assert (Hnd : NoDup (k :: map fst (pals pk))).
      { rewrite Hp, <- Hj. constructor; [apply (jid_not_also G Hwf d Hd)|apply (alsos_nodup G Hwf d Hd)]. }
      pose proof (complete_with_also_ok st1 k pk Hl1 Hnd He) as Hc.
      assert (Hdel : forall c, delivered_run (complete_with_also st1 k) c -> delivered_run st c).
      { intros c [H1 H2]. apply (c_succ _ _ _ Hc) in H1. rewrite (c_launched _ _ _ Hc), Fl in H2.
        destruct H1 as [[<-|H1]|H1].
        - contradiction.
        - exfalso. rewrite Hp in H1. destruct (v_launched_job _ _ _ HI c H2) as (d0 & Hd0 & Hj0).
          rewrite <- Hj0 in H1. exact (jid_not_in_group G Hwf d d0 Hd Hd0 H1).
        - rewrite Fs in H1. split; assumption. }
      constructor.
      + intros j pj c pre post sf acc Hlj Hcd Hsp Hor. apply Hdel in Hcd.
        apply split_old in Hsp as [(_ & _ & E & _)|(post' & Hsp)]; [discriminate|].
        assert (Hjn : ~ In j (k :: map fst (pals pk))).
        { assert (Hk : In j (map fst (pending (complete_with_also st1 k)))) by (apply lookup_Some_in; eexists; exact Hlj).
          apply (c_keys _ _ _ Hc) in Hk. tauto. }
        rewrite (c_lookup _ _ _ Hc j Hjn), Fp in Hlj. eapply A; eassumption.
      + intros c j Hcd Hin. apply (c_succ _ _ _ Hc). apply in_done_old in Hin as [[_ E]|Hin].
        * injection E as ->. left. left. reflexivity.
        * right. rewrite Fs. apply Hdel in Hcd. eapply B; eassumption.
  Qed.

  Lemma handler_fold_inv3 todo : forall st i done,
    handler G i = done ++ todo -> In i (success st) -> In i (g_launched st) ->
    Inv (Some (i, done)) st -> Inv3 (Some (i, done)) st -> err (fold_left do_action todo st) = false ->
    Inv3 (Some (i, done ++ todo)) (fold_left do_action todo st).
  Proof.
    induction todo as [|a todo IH]; intros st i done Hh His Hil HI HI3 He; cbn [fold_left] in *.
    - rewrite app_nil_r. exact HI3.
    - assert (E1 : err (do_action st a) = false).
      { destruct (err (do_action st a)) eqn:X; [|reflexivity]. rewrite fold_action_sticky in He by exact X. discriminate. }
      destruct (do_action_mono st a i E1 His Hil) as [His' Hil'].
      replace (done ++ a :: todo) with ((done ++ [a]) ++ todo) by (rewrite <- app_assoc; reflexivity).
      apply IH; try assumption.
      + rewrite <- app_assoc. exact Hh.
      + apply (action_inv G Hwf) with (todo := todo); assumption.
      + apply action_inv3 with (todo := todo); assumption.
  Qed.

  Lemma inv3_cur_ext cur cur' st :
    (forall c, done_of G cur c = done_of G cur' c) -> Inv3 cur st -> Inv3 cur' st.
  Proof.
    intros Hc [A B]. constructor.
    - intros j pj c pre post soft acc Hl Hd Hsp Hor. rewrite <- Hc in Hsp. eapply A; eassumption.
    - intros c j Hd Hin. rewrite <- Hc in Hin. eapply B; eassumption.
  Qed.

  Lemma step_inv3 st e st' : Inv None st -> Inv3 None st -> step G st e = Some st' -> err st' = false -> Inv3 None st'.
  Proof.
    intros HI [A B] Hs He. destruct e as [i|i|i]; cbn [step] in Hs.
    - (* launch *)
      destruct (lookup i (pending st)) as [pi|] eqn:Hl; [|discriminate].
      destruct (palso pi || prun pi || negb (can_run st i (pacc pi))); [discriminate|].
      injection Hs as <-.
      assert (Hik : In i (map fst (pending st))) by (apply lookup_Some_in; eexists; exact Hl).
      assert (Hdel : forall c, delivered_run (mkState (set_entry i (mkP (pacc pi) true (palso pi) (pdisc pi) (pals pi)) (pending st))
                             (cnt st) (success st) (err st) (g_added st) (i :: g_launched st) (g_wfin st)) c -> delivered_run st c).
      { intros c [H1 H2]. cbn [success g_launched] in *. split; [exact H1|]. destruct H2 as [<-|H2]; [|exact H2].
        exfalso. apply (v_keys _ _ _ HI) in Hik. tauto. }
      constructor.
      + intros j pj c pre post soft acc Hlj Hcd Hsp Hor. apply Hdel in Hcd. cbn [pending] in Hlj.
        destruct (N.eq_dec j i) as [->|Hne].
        * rewrite lookup_set_entry_eq in Hlj by exact Hik. injection Hlj as <-. cbn [pacc]. eapply A; eassumption.
        * rewrite lookup_set_entry_ne in Hlj by exact Hne. eapply A; eassumption.
      + intros c j Hcd Hin. apply Hdel in Hcd. cbn [success]. eapply B; eassumption.
    - (* worker finish *)
      destruct (lookup i (pending st)) as [pi|] eqn:Hl; [|discriminate].
      destruct (memN i (g_launched st) && negb (memN i (g_wfin st))); [|discriminate].
      injection Hs as <-. destruct (finish_counters_fields st i pi) as (Fp & Fs & Fe & Fa & Fl & Fw). cbn zeta in *.
      constructor; unfold delivered_run; rewrite ?Fp, ?Fs, ?Fl; assumption.
    - (* delivery *)
      destruct (memN i (g_launched st) && memN i (g_wfin st) && negb (memN i (success st))) eqn:Hg; [|discriminate].
      injection Hs as <-. apply andb_true_iff in Hg as [Hg H3]. apply andb_true_iff in Hg as [H1 H2].
      apply negb_true_iff in H3. apply memN_In in H1, H2. apply memN_false in H3.
      assert (E1 : err (complete_with_also st i) = false).
      { destruct (err (complete_with_also st i)) eqn:X; [|reflexivity]. rewrite fold_action_sticky in He by exact X. discriminate. }
      pose proof (deliver_complete_inv G Hwf st i HI H1 H2 H3 E1) as HI1.
      assert (Hik : In i (map fst (pending st))).
      { apply (v_keys _ _ _ HI). split; [apply (v_launched_added _ _ _ HI); exact H1|exact H3]. }
      apply lookup_Some_in in Hik as [pi Hl].
      assert (Hal : palso pi = false).
      { destruct (v_launched_job _ _ _ HI i H1) as (d & Hd & Hj).
        pose proof (v_entry _ _ _ HI i pi Hl) as (_ & _ & [(E & _)|(_ & _ & d2 & Hd2 & Hi2)]); [exact E|].
        exfalso. rewrite <- Hj in Hi2. exact (jid_not_in_group G Hwf d2 d Hd2 Hd Hi2). }
      destruct (job_group G Hwf None st i pi HI Hl Hal) as (d & Hd & Hj & Hp & Hpd).
      assert (Hnd : NoDup (i :: map fst (pals pi))).
      { rewrite Hp, <- Hj. constructor; [apply (jid_not_also G Hwf d Hd)|apply (alsos_nodup G Hwf d Hd)]. }
      pose proof (complete_with_also_ok st i pi Hl Hnd E1) as Hc.
      assert (HI31 : Inv3 (Some (i, [])) (complete_with_also st i)).
      { assert (Hdel : forall c, delivered_run (complete_with_also st i) c -> c = i \/ (c <> i /\ delivered_run st c)).
        { intros c [X1 X2]. apply (c_succ _ _ _ Hc) in X1. rewrite (c_launched _ _ _ Hc) in X2.
          destruct X1 as [[<-|X1]|X1]; [left; reflexivity| |].
          - exfalso. rewrite Hp in X1. destruct (v_launched_job _ _ _ HI c X2) as (d0 & Hd0 & Hj0).
            rewrite <- Hj0 in X1. exact (jid_not_in_group G Hwf d d0 Hd Hd0 X1).
          - right. split; [intros ->; contradiction|split; assumption]. }
        constructor.
        - intros j pj c pre post soft acc Hlj Hcd Hsp Hor. apply Hdel in Hcd as [->|[Hne Hcd]].
          + unfold done_of in Hsp. rewrite N.eqb_refl in Hsp. destruct pre; discriminate.
          + assert (Hjn : ~ In j (i :: map fst (pals pi))).
            { assert (Hk : In j (map fst (pending (complete_with_also st i)))) by (apply lookup_Some_in; eexists; exact Hlj).
              apply (c_keys _ _ _ Hc) in Hk. tauto. }
            rewrite (c_lookup _ _ _ Hc j Hjn) in Hlj.
            unfold done_of in Hsp. destruct (N.eqb_spec i c) as [E|_]; [congruence|].
            eapply A; eassumption.
        - intros c j Hcd Hin. apply Hdel in Hcd as [->|[Hne Hcd]].
          + unfold done_of in Hin. rewrite N.eqb_refl in Hin. destruct Hin.
          + unfold done_of in Hin. destruct (N.eqb_spec i c) as [E|_]; [congruence|].
            apply (c_succ _ _ _ Hc). right. eapply B; eassumption. }
      assert (His : In i (success (complete_with_also st i))) by (apply (c_succ _ _ _ Hc); left; left; reflexivity).
      assert (Hil : In i (g_launched (complete_with_also st i))) by (rewrite (c_launched _ _ _ Hc); exact H1).
      pose proof (handler_fold_inv3 (handler G i) (complete_with_also st i) i [] eq_refl His Hil HI1 HI31 He) as R.
      cbn [app] in R. apply (inv3_cur_ext (Some (i, handler G i)) None); [|exact R].
      intro c. unfold done_of. destruct (N.eqb_spec i c) as [->|_]; reflexivity.
  Qed.

  Lemma init_success : success (init G) = [].
  Proof.
    unfold init. generalize (statics G). intro l.
    assert (H : forall st, success st = [] -> success (fold_left insert l st) = []).
    { induction l as [|d l IH]; intros st Hs; cbn [fold_left]; [exact Hs|].
      apply IH. destruct (insert_fields st d) as (Fs & _). rewrite Fs. exact Hs. }
    apply H. reflexivity.
  Qed.

  Theorem reach_inv3 st : reach G st -> err st = false -> Inv3 None st.
  Proof.
    induction 1 as [|st e st' Hr IH Hs]; intro He.
    - apply inv3_no_success. apply init_success.
    - pose proof (reach_err_false G st Hr st' e Hs He) as He0.
      destruct (reach_inv G Hwf st Hr He0) as [HI _].
      eapply step_inv3; [exact HI|apply IH; exact He0|exact Hs|exact He].
  Qed.
End Live3.
