(* C02 — the bookkeeping invariant of the scheduler and its preservation. *)
From Coq Require Import List NArith Bool Arith Lia.
From FV.C02 Require Import Model Graph GraphFacts Ops.
Import ListNotations.
Open Scope N_scope.

Section Inv.
  Variable G : graph.
  Hypothesis Hwf : wf_graph G.

  (* ids added, of discriminant d, whose work has not finished *)
  Definition is_open (wfin : list N) (d : N) (i : N) : bool := (disc_of G i =? d) && negb (memN i wfin).
  Definition count_open (added wfin : list N) (d : N) : nat := length (filter (is_open wfin d) added).

  (* the part of c's handler that has run: all of it, except for the handler in progress *)
  Definition done_of (cur : option (N * list action)) (c : N) : list action :=
    match cur with
    | Some (c0, dn) => if c0 =? c then dn else handler G c
    | None => handler G c
    end.

  Definition entry_ok (st : state) (i : N) (pj : pjob) : Prop :=
    pdisc pj = disc_of G i
    /\ (prun pj = true <-> In i (g_launched st))
    /\ ((palso pj = false /\ exists d, In d (all_decls G) /\ jid d = i /\ pals pj = jalso d)
        \/ (palso pj = true /\ pals pj = [] /\ exists d, In d (all_decls G) /\ In i (map fst (jalso d)))).

  (* a job and the ids it also completes move together *)
  Definition group_ok (st : state) : Prop :=
    forall d a, In d (all_decls G) -> In a (map fst (jalso d)) ->
      (In (jid d) (g_added st) <-> In a (g_added st))
      /\ (In (jid d) (g_wfin st) <-> In a (g_wfin st))
      /\ (In (jid d) (success st) <-> In a (success st)).

  Record Inv (cur : option (N * list action)) (st : state) : Prop := mkInv {
    v_pnd : NoDup (map fst (pending st));
    v_keys : forall i, In i (map fst (pending st)) <-> In i (g_added st) /\ ~ In i (success st);
    v_added_nd : NoDup (g_added st);
    v_succ_wfin : incl (success st) (g_wfin st);
    v_wfin_added : incl (g_wfin st) (g_added st);
    v_launched_added : incl (g_launched st) (g_added st);
    v_launched_job : forall i, In i (g_launched st) -> exists d, In d (all_decls G) /\ jid d = i;
    v_wfin_src : forall d, In d (all_decls G) -> In (jid d) (g_wfin st) ->
                           In (jid d) (g_launched st) \/ In (jid d) (success st);
    v_cnt : forall d, cnt st d = count_open (g_added st) (g_wfin st) d;
    v_entry : forall i pj, lookup i (pending st) = Some pj -> entry_ok st i pj;
    v_group : group_ok st;
    (* an id exists because it is static or because the job whose handler adds it was run and delivered *)
    v_created : forall i, In i (g_added st) ->
                  In i (static_ids G)
                  \/ exists c, In c (success st) /\ In c (g_launched st) /\ In i (add_ids (done_of cur c));
    v_handled : forall c, In c (success st) -> In c (g_launched st) ->
                  incl (add_ids (done_of cur c)) (g_added st);
  }.

  (* ---- counting ------------------------------------------------------------------ *)
  Lemma count_open_ext added w1 w2 d : (forall i, In i w1 <-> In i w2) ->
    count_open added w1 d = count_open added w2 d.
  Proof.
    intro H. unfold count_open. f_equal. apply filter_ext. intro i. unfold is_open. f_equal. f_equal.
    destruct (memN i w1) eqn:E1, (memN i w2) eqn:E2; try reflexivity.
    - apply memN_In in E1. apply H in E1. apply memN_In in E1. congruence.
    - apply memN_In in E2. apply H in E2. apply memN_In in E2. congruence.
  Qed.

  Lemma count_open_cons i added wfin d : ~ In i wfin ->
    count_open (i :: added) wfin d = ((if (disc_of G i =? d)%N then 1 else 0) + count_open added wfin d)%nat.
  Proof.
    intro Hn. unfold count_open. cbn [filter]. unfold is_open at 1.
    apply memN_false in Hn. rewrite Hn. cbn [negb]. rewrite andb_true_r.
    destruct (disc_of G i =? d); cbn [length]; lia.
  Qed.

  (* one more id finishes *)
  Lemma is_open_cons_ne wfin d i x : x <> i -> is_open (i :: wfin) d x = is_open wfin d x.
  Proof.
    intro Hne. unfold is_open. f_equal. f_equal. unfold memN. cbn [existsb].
    destruct (N.eqb_spec x i); [contradiction|reflexivity].
  Qed.

  Lemma is_open_cons_eq wfin d i : is_open (i :: wfin) d i = false.
  Proof. unfold is_open, memN. cbn [existsb]. rewrite N.eqb_refl. cbn [orb negb]. apply andb_false_r. Qed.

  Lemma is_open_notin wfin d i : ~ In i wfin -> is_open wfin d i = (disc_of G i =? d).
  Proof. intro Hn. unfold is_open. apply memN_false in Hn. rewrite Hn. cbn [negb]. apply andb_true_r. Qed.

  Lemma count_open_finish added wfin i d : NoDup added -> In i added -> ~ In i wfin ->
    count_open added wfin d = ((if (disc_of G i =? d)%N then 1 else 0) + count_open added (i :: wfin) d)%nat.
  Proof.
    intros Hnd Hin Hn. unfold count_open. induction added as [|x added IH]; [destruct Hin|].
    inversion Hnd as [|? ? Hx Hnd']; subst. cbn [filter].
    destruct Hin as [->|Hin].
    - rewrite is_open_cons_eq, (is_open_notin wfin d i Hn).
      assert (E : filter (is_open wfin d) added = filter (is_open (i :: wfin) d) added).
      { apply filter_ext_in. intros y Hy. symmetry. apply is_open_cons_ne. intros ->. contradiction. }
      rewrite E. destruct (disc_of G i =? d); cbn [length]; lia.
    - specialize (IH Hnd' Hin).
      rewrite (is_open_cons_ne wfin d i x) by (intros ->; contradiction).
      destruct (is_open wfin d x); cbn [length]; lia.
  Qed.

  (* ---- the initial state and insertion ---------------------------------------------- *)
  Definition empty_state : state := mkState [] (fun _ => O) [] false [] [] [].

  Lemma filter_none {A} (f : A -> bool) l : (forall x, In x l -> f x = false) -> filter f l = [].
  Proof.
    induction l as [|x l IH]; intro H; [reflexivity|]. cbn [filter].
    rewrite (H x (or_introl eq_refl)). apply IH. intros y Hy. apply H. right. exact Hy.
  Qed.

  Lemma inv_empty cur : Inv cur empty_state.
  Proof.
    constructor; cbn.
    - constructor.
    - intro i. tauto.
    - constructor.
    - intros x [].
    - intros x [].
    - intros x [].
    - intros i [].
    - intros d _ [].
    - intro d. reflexivity.
    - intros i pj H. discriminate.
    - intros d a _ _. tauto.
    - intros i [].
    - intros c [].
  Qed.

  (* counting after an insertion *)
  Lemma count_open_insert ids added wfin d0 :
    (forall i, In i ids -> ~ In i wfin) ->
    count_open (rev ids ++ added) wfin d0
    = (count_open added wfin d0 + disc_count d0 (map (disc_of G) ids))%nat.
  Proof.
    intro Hn. unfold count_open. rewrite filter_app, app_length.
    assert (E : length (filter (is_open wfin d0) (rev ids)) = disc_count d0 (map (disc_of G) ids)).
    { unfold disc_count. induction ids as [|i ids IH]; [reflexivity|].
      cbn [rev map filter]. rewrite filter_app, app_length. rewrite IH by (intros j Hj; apply Hn; right; exact Hj).
      cbn [filter]. unfold is_open. specialize (Hn i (or_introl eq_refl)). apply memN_false in Hn. rewrite Hn.
      cbn [negb]. rewrite andb_true_r. rewrite (N.eqb_sym d0). destruct (disc_of G i =? d0); cbn [length]; lia. }
    lia.
  Qed.

  Lemma decl_discs d : In d (all_decls G) ->
    map (disc_of G) (decl_ids d) = map snd (jalso d) ++ [jdisc d].
  Proof.
    intro Hd. unfold decl_ids. rewrite map_app. cbn [map]. rewrite (disc_of_jid G Hwf d Hd). f_equal.
    rewrite map_map. apply map_ext_in. intros a Ha. apply (disc_of_also G Hwf d a Hd Ha).
  Qed.

  Lemma insert_inv cur cur' st d :
    Inv cur st -> In d (all_decls G) ->
    (forall i, In i (decl_ids d) -> ~ In i (g_added st)) ->
    (forall i, In i (decl_ids d) ->
       In i (static_ids G)
       \/ exists c, In c (success st) /\ In c (g_launched st) /\ In i (add_ids (done_of cur' c))) ->
    (forall c, incl (add_ids (done_of cur c)) (add_ids (done_of cur' c))) ->
    (forall c, In c (success st) -> In c (g_launched st) ->
               incl (add_ids (done_of cur' c)) (rev (decl_ids d) ++ g_added st)) ->
    Inv cur' (insert st d).
  Proof.
    intros HI Hd Hfresh Hnew Hmono Hhand.
    destruct (insert_fields st d) as (Fs & Fe & Fl & Fw & Fa).
    pose proof (decl_ids_nodup G Hwf d Hd) as Hdn.
    constructor.
    - apply insert_nodup. apply HI.
    - intro i. rewrite insert_keys, Fa, Fs, in_app_iff, <- in_rev, (v_keys _ _ HI).
      split.
      + intros [H|[H1 H2]]; [|tauto]. split; [tauto|].
        intro Hs. apply (Hfresh i H). apply (v_wfin_added _ _ HI). apply (v_succ_wfin _ _ HI). exact Hs.
      + intros [[H|H] Hn]; tauto.
    - rewrite Fa. apply NoDup_app_intro; [apply NoDup_rev; exact Hdn|apply HI|].
      intros x Hx Hx2. apply in_rev in Hx. exact (Hfresh x Hx Hx2).
    - rewrite Fs, Fw. apply HI.
    - rewrite Fw, Fa. intros x Hx. apply in_or_app. right. apply (v_wfin_added _ _ HI). exact Hx.
    - rewrite Fl, Fa. intros x Hx. apply in_or_app. right. apply (v_launched_added _ _ HI). exact Hx.
    - rewrite Fl. apply HI.
    - rewrite Fw, Fl, Fs. apply HI.
    - intro d0. rewrite insert_cnt, Fa, Fw, (v_cnt _ _ HI), count_open_insert.
      + rewrite (decl_discs d Hd). reflexivity.
      + intros i Hi Hw. apply (Hfresh i Hi). apply (v_wfin_added _ _ HI). exact Hw.
    - (* entries *)
      intros i pj Hl. destruct (in_dec N.eq_dec i (decl_ids d)) as [Hin|Hout].
      + unfold decl_ids in Hin. apply in_app_or in Hin as [Hal|[<-|[]]].
        * apply in_map_iff in Hal as (a & <- & Ha).
          rewrite (insert_lookup_also st d a Hdn Ha) in Hl. injection Hl as <-.
          unfold entry_ok, also_entry. cbn [pdisc prun palso pals]. rewrite Fl.
          split; [symmetry; apply (disc_of_also G Hwf d a Hd Ha)|].
          split.
          { split; [discriminate|]. intro Hx. exfalso. apply (Hfresh (fst a)).
            - apply also_in_decl_ids. apply in_map. exact Ha.
            - apply (v_launched_added _ _ HI). exact Hx. }
          right. split; [reflexivity|]. split; [reflexivity|]. exists d. split; [exact Hd|apply in_map; exact Ha].
        * rewrite insert_lookup_job in Hl. injection Hl as <-.
          unfold entry_ok, job_entry. cbn [pdisc prun palso pals]. rewrite Fl.
          split; [symmetry; apply (disc_of_jid G Hwf d Hd)|].
          split.
          { split; [discriminate|]. intro Hx. exfalso. apply (Hfresh (jid d)); [apply jid_in_decl_ids|].
            apply (v_launched_added _ _ HI). exact Hx. }
          left. split; [reflexivity|]. exists d. repeat split; assumption.
      + rewrite insert_lookup_other in Hl by exact Hout.
        pose proof (v_entry _ _ HI i pj Hl) as (A & B & C). unfold entry_ok. rewrite Fl. split; [exact A|split; [exact B|exact C]].
    - (* groups *)
      intros d0 a Hd0 Ha. rewrite Fa, Fw, Fs. destruct (v_group _ _ HI d0 a Hd0 Ha) as (A & B & C).
      split; [|split; assumption]. rewrite !in_app_iff, <- !in_rev.
      destruct (in_dec N.eq_dec (jid d0) (decl_ids d)) as [Hj|Hj].
      * assert (d0 = d) by (eapply (decl_unique G Hwf); [exact Hd0|exact Hd|apply jid_in_decl_ids|exact Hj]). subst d0.
        split; intros _; left; [apply also_in_decl_ids; exact Ha|exact Hj].
      * destruct (in_dec N.eq_dec a (decl_ids d)) as [Hj2|Hj2].
        -- assert (d0 = d) by (eapply (decl_unique G Hwf); [exact Hd0|exact Hd|apply also_in_decl_ids; exact Ha|exact Hj2]).
           subst d0. exfalso. apply Hj. apply jid_in_decl_ids.
        -- rewrite A. tauto.
    - (* created *)
      intros i. rewrite Fa, Fs, Fl, in_app_iff, <- in_rev. intros [Hi|Hi]; [apply Hnew; exact Hi|].
      destruct (v_created _ _ HI i Hi) as [Hs|(c & Hc & Hcl & Hic)]; [left; exact Hs|].
      right. exists c. split; [exact Hc|]. split; [exact Hcl|apply Hmono; exact Hic].
    - rewrite Fs, Fa, Fl. exact Hhand.
  Qed.
End Inv.
