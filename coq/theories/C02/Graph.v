(* C02 — static facts about a job graph (ids, creators, gates). *)
From Coq Require Import List NArith Bool Arith Lia.
From FV.C02 Require Import Model.
Import ListNotations.
Open Scope N_scope.

(* ids a declaration inserts: the also-completes ids first, then the job *)
Definition decl_ids (d : jobdecl) : list N := map fst (jalso d) ++ [jid d].

Definition add_decls (acts : list action) : list jobdecl :=
  flat_map (fun a => match a with Add d => [d] | _ => [] end) acts.

Definition add_ids (acts : list action) : list N := flat_map decl_ids (add_decls acts).

Definition static_ids (G : graph) : list N := flat_map decl_ids (statics G).

Definition handler_ids (G : graph) : list N :=
  flat_map (fun h => add_ids (snd h)) (handlers G).

Definition all_ids (G : graph) : list N := static_ids G ++ handler_ids G.

Definition all_decls (G : graph) : list jobdecl :=
  statics G ++ flat_map (fun h => add_decls (snd h)) (handlers G).


(* every id is created at most once, and a job has at most one handler entry *)
Definition also_ids (G : graph) : list N := flat_map (fun d => map fst (jalso d)) (all_decls G).

(* ... and only jobs (not also-completes ids) have completion handlers *)
Definition wf_graph (G : graph) : Prop :=
  NoDup (all_ids G) /\ NoDup (map fst (handlers G))
  /\ (forall c, In c (map fst (handlers G)) -> ~ In c (also_ids G)).

(* discriminant of an id (job or also-completes id) *)
Fixpoint disc_in (i : N) (ds : list jobdecl) : option N :=
  match ds with
  | [] => None
  | d :: t => if jid d =? i then Some (jdisc d)
              else match lookup i (jalso d) with
                   | Some x => Some x
                   | None => disc_in i t
                   end
  end.

Definition disc_of (G : graph) (i : N) : N :=
  match disc_in i (all_decls G) with Some d => d | None => 0 end.

Lemma lookup_In {A} k (l : list (N * A)) v : lookup k l = Some v -> In (k, v) l.
Proof.
  induction l as [|[k' v'] l IH]; cbn [lookup]; [discriminate|].
  destruct (N.eqb_spec k' k) as [->|Hne]; intro H.
  - injection H as ->. left. reflexivity.
  - right. apply IH. exact H.
Qed.

Lemma lookup_None {A} k (l : list (N * A)) : lookup k l = None <-> ~ In k (map fst l).
Proof.
  induction l as [|[k' v'] l IH]; cbn [lookup map fst In]; [tauto|].
  destruct (N.eqb_spec k' k) as [->|Hne]; split; intro H.
  - discriminate.
  - exfalso. apply H. left. reflexivity.
  - intros [E|Hin]; [contradiction|]. apply IH in H. contradiction.
  - apply IH. intro Hin. apply H. right. exact Hin.
Qed.

Lemma lookup_Some_in {A} k (l : list (N * A)) : In k (map fst l) <-> exists v, lookup k l = Some v.
Proof.
  split.
  - intro H. destruct (lookup k l) eqn:E; [eexists; reflexivity|]. apply lookup_None in E. contradiction.
  - intros [v H]. destruct (in_dec N.eq_dec k (map fst l)) as [Hin|Hn]; [exact Hin|].
    apply lookup_None in Hn. congruence.
Qed.

Lemma in_remove_key {A} k k' (l : list (N * A)) :
  In k' (map fst (remove_key k l)) <-> In k' (map fst l) /\ k' <> k.
Proof.
  induction l as [|[k0 v0] l IH]; cbn [remove_key map fst In]; [tauto|].
  destruct (N.eqb_spec k0 k) as [->|Hne]; cbn [map fst In]; rewrite IH; intuition congruence.
Qed.

Lemma lookup_remove_key_ne {A} k k' (l : list (N * A)) :
  k' <> k -> lookup k' (remove_key k l) = lookup k' l.
Proof.
  intro Hne. induction l as [|[k0 v0] l IH]; cbn [remove_key lookup]; [reflexivity|].
  destruct (N.eqb_spec k0 k) as [->|H0].
  - destruct (N.eqb_spec k k'); [congruence|exact IH].
  - cbn [lookup]. destruct (N.eqb_spec k0 k'); [reflexivity|exact IH].
Qed.

Lemma lookup_remove_key_eq {A} k (l : list (N * A)) : lookup k (remove_key k l) = None.
Proof. apply lookup_None. rewrite in_remove_key. tauto. Qed.

Lemma NoDup_remove_key {A} k (l : list (N * A)) :
  NoDup (map fst l) -> NoDup (map fst (remove_key k l)).
Proof.
  induction l as [|[k0 v0] l IH]; cbn [remove_key map fst]; intro H; [constructor|].
  inversion H as [|? ? Hn Hnd]; subst.
  destruct (N.eqb_spec k0 k); [apply IH; exact Hnd|].
  cbn [map fst]. constructor; [|apply IH; exact Hnd]. rewrite in_remove_key. tauto.
Qed.

Lemma memN_In k l : memN k l = true <-> In k l.
Proof.
  unfold memN. rewrite existsb_exists. split.
  - intros (x & Hx & E). apply N.eqb_eq in E. subst. exact Hx.
  - intro H. exists k. split; [exact H|apply N.eqb_refl].
Qed.

Lemma memN_false k l : memN k l = false <-> ~ In k l.
Proof. rewrite <- memN_In. destruct (memN k l); split; intro H; congruence. Qed.

Lemma set_entry_keys i pj l : map fst (set_entry i pj l) = map fst l.
Proof.
  induction l as [|[k v] l IH]; cbn [set_entry map fst]; [reflexivity|].
  destruct (N.eqb_spec k i); cbn [map fst]; [reflexivity|rewrite IH; reflexivity].
Qed.

Lemma lookup_set_entry_ne i pj l k : k <> i -> lookup k (set_entry i pj l) = lookup k l.
Proof.
  intro Hne. induction l as [|[k0 v0] l IH]; cbn [set_entry lookup]; [reflexivity|].
  destruct (N.eqb_spec k0 i) as [->|H0]; cbn [lookup].
  - destruct (N.eqb_spec i k); [congruence|reflexivity].
  - destruct (N.eqb_spec k0 k); [reflexivity|exact IH].
Qed.

Lemma lookup_set_entry_eq i pj l : In i (map fst l) -> lookup i (set_entry i pj l) = Some pj.
Proof.
  induction l as [|[k0 v0] l IH]; cbn [set_entry lookup map fst In]; [tauto|].
  destruct (N.eqb_spec k0 i) as [->|H0]; cbn [lookup].
  - rewrite N.eqb_refl. reflexivity.
  - destruct (N.eqb_spec k0 i); [contradiction|]. intros [E|Hin]; [contradiction|]. apply IH. exact Hin.
Qed.
