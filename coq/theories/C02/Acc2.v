(* C02 — the second invariant holds in every reachable state. *)
From Coq Require Import List NArith Bool Arith Lia.
From FV.C02 Require Import Model Graph GraphFacts Ops Inv Steps Steps2 Steps3 Acc.
Import ListNotations.
Open Scope N_scope.

Section Acc2.
  Variable G : graph.
  Hypothesis Hwf : wf_graph G.
  Notation Inv := (Inv G).
  Notation Inv2 := (Inv2 G).

  (* a job id is never one of the also-completes ids of a job *)
  Lemma jid_not_in_group d d0 : In d (all_decls G) -> In d0 (all_decls G) ->
    In (jid d0) (map fst (jalso d)) -> False.
  Proof.
    intros Hd Hd0 Hin.
    assert (d0 = d) by (apply (decl_unique G Hwf d0 d (jid d0) Hd0 Hd); [apply jid_in_decl_ids|apply also_in_decl_ids; exact Hin]).
    subst d0. exact (jid_not_also G Hwf d Hd Hin).
  Qed.

  Lemma done_of_mono i done a c x : In x (done_of G (Some (i, done)) c) -> In x (done_of G (Some (i, done ++ [a])) c).
  Proof.
    unfold done_of. destruct (N.eqb_spec i c); [|tauto]. intro H. apply in_or_app. left. exact H.
  Qed.

  Lemma action_inv2 st i done a :
    In i (success st) -> In i (g_launched st) ->
    Inv (Some (i, done)) st -> Inv2 (Some (i, done)) st -> err (do_action st a) = false ->
    (forall d, a = Add d -> In d (all_decls G)) ->
    Inv2 (Some (i, done ++ [a])) (do_action st a).
  Proof.
    intros His Hil HI HI2 He Hadd.
    assert (Hself : In a (done_of G (Some (i, done ++ [a])) i)).
    { unfold done_of. rewrite N.eqb_refl. apply in_or_app. right. left. reflexivity. }
    destruct a as [d|soft j acc|j]; cbn [do_action] in *.
    - apply (insert_inv2 G Hwf (Some (i, done))); [exact HI2|apply Hadd; reflexivity|].
      intros c x. apply done_of_mono.
    - destruct (lookup j (pending st)) as [pj|] eqn:Hl.
      + assert (Hjk : In j (map fst (pending st))) by (apply lookup_Some_in; eexists; exact Hl).
        destruct HI2 as [A B]. constructor; cbn [set_pending pending success g_launched]; unfold delivered_run; cbn [set_pending success g_launched].
        * intros k pk Hk. destruct (N.eq_dec k j) as [->|Hne].
          -- rewrite lookup_set_entry_eq in Hk by exact Hjk. injection Hk as <-. cbn [pacc].
             right. exists i, soft. split; [split; assumption|exact Hself].
          -- rewrite lookup_set_entry_ne in Hk by exact Hne.
             destruct (A k pk Hk) as [H|(c & sf & H1 & H3)]; [left; exact H|].
             right. exists c, sf. split; [exact H1|apply done_of_mono; exact H3].
        * intros d Hd Hs. destruct (B d Hd Hs) as [H|(c & H1 & H3)]; [left; exact H|].
          right. exists c. split; [exact H1|apply done_of_mono; exact H3].
      + destruct soft; [|cbn in He; discriminate]. destruct HI2 as [A B]. constructor.
        * intros k pk Hk. destruct (A k pk Hk) as [H|(c & sf & H1 & H3)]; [left; exact H|].
          right. exists c, sf. split; [exact H1|apply done_of_mono; exact H3].
        * intros d Hd Hs. destruct (B d Hd Hs) as [H|(c & H1 & H3)]; [left; exact H|].
          right. exists c. split; [exact H1|apply done_of_mono; exact H3].
    - destruct (lookup j (pending st)) as [pj|] eqn:Hl; [|cbn in He; discriminate].
      destruct (palso pj) eqn:Hal; [cbn in He; discriminate|].
      destruct (memN j (g_launched st)) eqn:Hm; [cbn in He; discriminate|]. cbn [orb] in *.
      destruct (job_group G Hwf _ st j pj HI Hl Hal) as (d & Hd & Hj & Hp & Hpd).
      destruct (finish_counters_fields st j pj) as (Fp & Fs & Fe & Fa & Fl & Fw). cbn zeta in *.
      set (st1 := finish_counters st j pj) in *.
      assert (Hl1 : lookup j (pending st1) = Some pj) by (rewrite Fp; exact Hl).
      assert (Hnd : NoDup (j :: map fst (pals pj))).
      { rewrite Hp, <- Hj. constructor; [apply (jid_not_also G Hwf d Hd)|apply (alsos_nodup G Hwf d Hd)]. }
      pose proof (complete_with_also_ok st1 j pj Hl1 Hnd He) as Hc.
      apply (completed_inv2 G (Some (i, done)) _ st1 _ (j :: map fst (pals pj))); [apply wfinish_inv2; exact HI2|exact Hc| |].
      + intros c x _ _. apply done_of_mono.
      + intros d0 Hd0 [E|Hin].
        * right. exists i. rewrite Fs, Fl. split; [right; exact His|]. split; [exact Hil|]. rewrite <- E. exact Hself.
        * exfalso. rewrite Hp in Hin. eapply jid_not_in_group; [exact Hd|exact Hd0|exact Hin].
  Qed.

  Lemma handler_fold_inv12 todo : forall st i done,
    handler G i = done ++ todo -> In i (success st) -> In i (g_launched st) ->
    Inv (Some (i, done)) st -> Inv2 (Some (i, done)) st -> err (fold_left do_action todo st) = false ->
    Inv2 (Some (i, done ++ todo)) (fold_left do_action todo st).
  Proof.
    induction todo as [|a todo IH]; intros st i done Hh His Hil HI HI2 He; cbn [fold_left] in *.
    - rewrite app_nil_r. exact HI2.
    - assert (E1 : err (do_action st a) = false).
      { destruct (err (do_action st a)) eqn:X; [|reflexivity]. rewrite fold_action_sticky in He by exact X. discriminate. }
      destruct (do_action_mono st a i E1 His Hil) as [His' Hil'].
      replace (done ++ a :: todo) with ((done ++ [a]) ++ todo) by (rewrite <- app_assoc; reflexivity).
      apply IH; try assumption.
      + rewrite <- app_assoc. exact Hh.
      + apply (action_inv G Hwf) with (todo := todo); assumption.
      + apply action_inv2; try assumption. intros d ->. apply (handler_decl_in G i).
        rewrite Hh. unfold add_decls. rewrite flat_map_app. apply in_or_app. right. left. reflexivity.
  Qed.

  Lemma inv2_cur_ext cur cur' st :
    (forall c, done_of G cur c = done_of G cur' c) -> Inv2 cur st -> Inv2 cur' st.
  Proof.
    intros Hc [A B]. constructor.
    - intros j pj Hl. destruct (A j pj Hl) as [H|(c & sf & H1 & H3)]; [left; exact H|]. right. exists c, sf. rewrite <- Hc. auto.
    - intros d Hd Hs. destruct (B d Hd Hs) as [H|(c & H1 & H3)]; [left; exact H|]. right. exists c. rewrite <- Hc. auto.
  Qed.

  Lemma step_inv2 st e st' : Inv None st -> Inv2 None st -> step G st e = Some st' -> err st' = false -> Inv2 None st'.
  Proof.
    intros HI HI2 Hs He. destruct e as [i|i|i]; cbn [step] in Hs.
    - destruct (lookup i (pending st)) as [pj|] eqn:Hl; [|discriminate].
      destruct (palso pj || prun pj || negb (can_run st i (pacc pj))); [discriminate|].
      injection Hs as <-. apply launch_inv2; assumption.
    - destruct (lookup i (pending st)) as [pj|] eqn:Hl; [|discriminate].
      destruct (memN i (g_launched st) && negb (memN i (g_wfin st))); [|discriminate].
      injection Hs as <-. apply wfinish_inv2; assumption.
    - destruct (memN i (g_launched st) && memN i (g_wfin st) && negb (memN i (success st))) eqn:Hg; [|discriminate].
      injection Hs as <-. apply andb_true_iff in Hg as [Hg H3]. apply andb_true_iff in Hg as [H1 H2].
      apply negb_true_iff in H3. apply memN_In in H1, H2. apply memN_false in H3.
      assert (E1 : err (complete_with_also st i) = false).
      { destruct (err (complete_with_also st i)) eqn:X; [|reflexivity]. rewrite fold_action_sticky in He by exact X. discriminate. }
      pose proof (deliver_complete_inv G Hwf st i HI H1 H2 H3 E1) as HI1.
      assert (Hik : In i (map fst (pending st))).
      { apply (v_keys _ _ _ HI). split; [apply (v_launched_added _ _ _ HI); exact H1|exact H3]. }
      apply lookup_Some_in in Hik as [pj Hl].
      assert (Hal : palso pj = false).
      { destruct (v_launched_job _ _ _ HI i H1) as (d & Hd & Hj).
        pose proof (v_entry _ _ _ HI i pj Hl) as (_ & _ & [(E & _)|(_ & _ & d2 & Hd2 & Hi2)]); [exact E|].
        exfalso. rewrite <- Hj in Hi2. eapply jid_not_in_group; [exact Hd2|exact Hd|exact Hi2]. }
      destruct (job_group G Hwf None st i pj HI Hl Hal) as (d & Hd & Hj & Hp & Hpd).
      assert (Hnd : NoDup (i :: map fst (pals pj))).
      { rewrite Hp, <- Hj. constructor; [apply (jid_not_also G Hwf d Hd)|apply (alsos_nodup G Hwf d Hd)]. }
      pose proof (complete_with_also_ok st i pj Hl Hnd E1) as Hc.
      assert (HI21 : Inv2 (Some (i, [])) (complete_with_also st i)).
      { apply (completed_inv2 G None _ st _ (i :: map fst (pals pj))); [exact HI2|exact Hc| |].
        - intros c x Hcs _ Hx. unfold done_of in *. destruct (N.eqb_spec i c) as [->|_]; [contradiction|exact Hx].
        - intros d0 Hd0 [E|Hin]; [left; rewrite <- E; exact H1|].
          exfalso. rewrite Hp in Hin. eapply jid_not_in_group; [exact Hd|exact Hd0|exact Hin]. }
      assert (His : In i (success (complete_with_also st i))) by (apply (c_succ _ _ _ Hc); left; left; reflexivity).
      assert (Hil : In i (g_launched (complete_with_also st i))) by (rewrite (c_launched _ _ _ Hc); exact H1).
      pose proof (handler_fold_inv12 (handler G i) (complete_with_also st i) i [] eq_refl His Hil HI1 HI21 He) as R.
      cbn [app] in R. apply (inv2_cur_ext (Some (i, handler G i)) None); [|exact R].
      intro c. unfold done_of. destruct (N.eqb_spec i c) as [->|_]; reflexivity.
  Qed.

  Lemma init_fold_inv2 todo : forall st, (forall d, In d todo -> In d (all_decls G)) ->
    Inv2 None st -> Inv2 None (fold_left insert todo st).
  Proof.
    induction todo as [|d todo IH]; intros st Hin HI2; cbn [fold_left]; [exact HI2|].
    apply IH; [intros d0 Hd0; apply Hin; right; exact Hd0|].
    apply (insert_inv2 G Hwf None None); [exact HI2|apply Hin; left; reflexivity|tauto].
  Qed.

  Lemma run_inv12 evs : forall st st', Inv None st -> Inv2 None st -> err st = false ->
    run G st evs = Some st' -> err st' = false -> Inv None st' /\ Inv2 None st'.
  Proof.
    induction evs as [|e evs IH]; intros st st' HI HI2 He Hr He'; cbn [run] in Hr.
    - injection Hr as <-. split; assumption.
    - destruct (step G st e) as [st1|] eqn:Hs; [|discriminate].
      assert (E1 : err st1 = false).
      { destruct (err st1) eqn:X; [|reflexivity]. exfalso.
        assert (Hst : forall evs s s', run G s evs = Some s' -> err s = true -> err s' = true).
        { clear. induction evs as [|e evs IHe]; intros s s' Hr E; cbn [run] in Hr; [injection Hr as <-; exact E|].
          destruct (step G s e) as [s1|] eqn:Hs; [|discriminate]. eapply IHe; [exact Hr|eapply step_err_sticky; eassumption]. }
        rewrite (Hst evs st1 st' Hr X) in He'. discriminate. }
      eapply IH; [eapply (step_inv G Hwf); eassumption|eapply step_inv2; eassumption|exact E1|exact Hr|exact He'].
  Qed.

  Theorem reachable_inv12 evs st : run G (init G) evs = Some st -> err st = false ->
    Inv None st /\ Inv2 None st.
  Proof.
    destruct (init_inv G Hwf) as (A & _ & C). intros Hr He.
    eapply run_inv12; [exact A| |exact C|exact Hr|exact He].
    unfold init. apply init_fold_inv2; [intros d Hd; apply (static_decl_in G); exact Hd|apply inv2_empty].
  Qed.
End Acc2.
