(* C02 — functions evaluated by the correspondence run. *)
From Coq Require Import List NArith Bool.
From FV.C02 Require Import Model.
Import ListNotations.

(* replay the recorded history: every recorded event must be enabled in the
   model, no panic state is reached, and at the end nothing is pending *)
Definition replay_ok (G : graph) (trace : list event) : bool :=
  match run G (init G) trace with
  | Some st => negb (err st) && (match pending st with [] => true | _ => false end)
  | None => false
  end.

(* first event of the history that the model refuses (diagnostics) *)
Fixpoint first_refused (G : graph) (st : state) (k : N) (evs : list event) : option (N * event) :=
  match evs with
  | [] => None
  | e :: t => match step G st e with
              | Some st' => if err st' then Some (k, e) else first_refused G st' (N.succ k) t
              | None => Some (k, e)
              end
  end.

From FV.C02 Require Import Safe LiveCheck.

(* one instance: the recorded history is a run of the model, the graph is safe for the listed
   pairs (each pair = two jobs that touched the same context item, one of them writing, in the
   order observed), the graph can never get stuck (live_graph, ranks = a layering of the graph's constraints supplied by the harness) and its handlers never panic (calm_graph) *)
Definition check_instance (G : graph) (trace : list event) (order : list N)
           (pairs hpairs ranks : list (N * N)) : bool :=
  replay_ok G trace && safe_graph G order pairs && live_ranked G ranks && calm_graph G.

(* the pairs safe_graph cannot certify (diagnostics) *)
Definition failing_pairs (G : graph) (order : list N) (pairs : list (N * N)) : list (N * N) :=
  filter (fun p => negb (pair_ok (snd (closure G order)) p)) pairs.
