(* C02 — second invariant: where the read access of a pending job comes from, and how a
   job can have become complete. *)
From Coq Require Import List NArith Bool Arith Lia.
From FV.C02 Require Import Model Graph GraphFacts Ops Inv Steps Steps2 Steps3.
Import ListNotations.
Open Scope N_scope.

(* the read access a job is inserted with *)
Fixpoint acc_in (i : N) (ds : list jobdecl) : option access :=
  match ds with
  | [] => None
  | d :: t => if memN i (decl_ids d) then Some (jacc d) else acc_in i t
  end.

Definition init_acc (G : graph) (i : N) : access :=
  match acc_in i (all_decls G) with Some a => a | None => ANone end.

Section Acc.
  Variable G : graph.
  Hypothesis Hwf : wf_graph G.

  Lemma acc_in_found ds : forall d i, NoDup (flat_map decl_ids ds) -> In d ds -> In i (decl_ids d) ->
    acc_in i ds = Some (jacc d).
  Proof.
    induction ds as [|d0 ds IH]; intros d i Hnd Hd Hi; [destruct Hd|]. cbn [acc_in flat_map] in *.
    destruct Hd as [->|Hd].
    - apply memN_In in Hi. rewrite Hi. reflexivity.
    - destruct (memN i (decl_ids d0)) eqn:E.
      + exfalso. apply memN_In in E. eapply (NoDup_app_disjoint _ _ i Hnd); [exact E|].
        apply in_flat_map. exists d. split; assumption.
      + apply IH; [apply NoDup_app_remove_l in Hnd; exact Hnd|exact Hd|exact Hi].
  Qed.

  Lemma init_acc_decl d i : In d (all_decls G) -> In i (decl_ids d) -> init_acc G i = jacc d.
  Proof. intros Hd Hi. unfold init_acc. rewrite (acc_in_found _ d i (decls_nodup G Hwf) Hd Hi). reflexivity. Qed.

  Definition delivered_run (st : state) (c : N) : Prop := In c (success st) /\ In c (g_launched st).

  Record Inv2 (cur : option (N * list action)) (st : state) : Prop := mkInv2 {
    w_acc : forall j pj, lookup j (pending st) = Some pj ->
              pacc pj = init_acc G j
              \/ exists c soft, delivered_run st c /\ In (Rewrite soft j (pacc pj)) (done_of G cur c);
    w_succ : forall d, In d (all_decls G) -> In (jid d) (success st) ->
              In (jid d) (g_launched st)
              \/ exists c, delivered_run st c /\ In (CompleteNow (jid d)) (done_of G cur c);
  }.

  Lemma inv2_empty cur : Inv2 cur (empty_state).
  Proof. constructor; cbn; [intros j pj H; discriminate|intros d _ []]. Qed.

  (* an insertion *)
  Lemma insert_inv2 cur cur' st d :
    Inv2 cur st -> In d (all_decls G) ->
    (forall c a, In a (done_of G cur c) -> In a (done_of G cur' c)) ->
    Inv2 cur' (insert st d).
  Proof.
    intros [A B] Hd Hmono. destruct (insert_fields st d) as (Fs & Fe & Fl & Fw & Fa).
    pose proof (decl_ids_nodup G Hwf d Hd) as Hdn.
    constructor.
    - intros j pj Hl. destruct (in_dec N.eq_dec j (decl_ids d)) as [Hin|Hout].
      + left. rewrite (init_acc_decl d j Hd Hin). unfold decl_ids in Hin.
        apply in_app_or in Hin as [Hal|[<-|[]]].
        * apply in_map_iff in Hal as (a & <- & Ha). rewrite (insert_lookup_also st d a Hdn Ha) in Hl.
          injection Hl as <-. reflexivity.
        * rewrite insert_lookup_job in Hl. injection Hl as <-. reflexivity.
      + rewrite insert_lookup_other in Hl by exact Hout. destruct (A j pj Hl) as [H|(c & soft & [H1 H2] & H3)]; [left; exact H|].
        right. exists c, soft. unfold delivered_run. rewrite Fs, Fl. split; [split; assumption|apply Hmono; exact H3].
    - intros d0 Hd0 Hs. rewrite Fs in Hs. rewrite Fl. destruct (B d0 Hd0 Hs) as [H|(c & [H1 H2] & H3)]; [left; exact H|].
      right. exists c. unfold delivered_run. rewrite Fs, Fl. split; [split; assumption|apply Hmono; exact H3].
  Qed.

  Lemma launch_inv2 cur st i pj :
    Inv2 cur st -> lookup i (pending st) = Some pj ->
    Inv2 cur (mkState (set_entry i (mkP (pacc pj) true (palso pj) (pdisc pj) (pals pj)) (pending st))
                      (cnt st) (success st) (err st) (g_added st) (i :: g_launched st) (g_wfin st)).
  Proof.
    intros [A B] Hl.
    assert (Hik : In i (map fst (pending st))) by (apply lookup_Some_in; eexists; exact Hl).
    constructor; cbn [pending success g_launched].
    - intros j pj' Hj. destruct (N.eq_dec j i) as [->|Hne].
      + rewrite lookup_set_entry_eq in Hj by exact Hik. injection Hj as <-. cbn [pacc].
        destruct (A i pj Hl) as [H|(c & soft & [H1 H2] & H3)]; [left; exact H|].
        right. exists c, soft. split; [split; [exact H1|right; exact H2]|exact H3].
      + rewrite lookup_set_entry_ne in Hj by exact Hne.
        destruct (A j pj' Hj) as [H|(c & soft & [H1 H2] & H3)]; [left; exact H|].
        right. exists c, soft. split; [split; [exact H1|right; exact H2]|exact H3].
    - intros d Hd Hs. destruct (B d Hd Hs) as [H|(c & [H1 H2] & H3)]; [left; right; exact H|].
      right. exists c. split; [split; [exact H1|right; exact H2]|exact H3].
  Qed.

  Lemma wfinish_inv2 cur st i pj : Inv2 cur st -> Inv2 cur (finish_counters st i pj).
  Proof.
    intros [A B]. destruct (finish_counters_fields st i pj) as (Fp & Fs & Fe & Fa & Fl & Fw). cbn zeta in *.
    constructor; unfold delivered_run; rewrite ?Fp, ?Fs, ?Fl; assumption.
  Qed.

  (* completing a set of ids: pending shrinks, success grows *)
  Lemma completed_inv2 cur cur' st st' ids :
    Inv2 cur st -> completed st st' ids ->
    (forall c a, In c (success st) -> In c (g_launched st) -> In a (done_of G cur c) -> In a (done_of G cur' c)) ->
    (forall d, In d (all_decls G) -> In (jid d) ids ->
       In (jid d) (g_launched st)
       \/ exists c, (In c ids \/ In c (success st)) /\ In c (g_launched st) /\ In (CompleteNow (jid d)) (done_of G cur' c)) ->
    Inv2 cur' st'.
  Proof.
    intros [A B] [C1 C2 C3 C4 C5 C6 C7 C8 C9 C10] Hsame Hnew.
    constructor; unfold delivered_run; rewrite ?C3.
    - intros j pj Hl. destruct (in_dec N.eq_dec j ids) as [Hin|Hout].
      + exfalso. assert (Hk : In j (map fst (pending st'))) by (apply lookup_Some_in; eexists; exact Hl).
        apply C7 in Hk. tauto.
      + rewrite C8 in Hl by exact Hout. destruct (A j pj Hl) as [H|(c & soft & [H1 H2] & H3)]; [left; exact H|].
        right. exists c, soft. split; [split; [apply C6; right; exact H1|exact H2]|apply Hsame; assumption].
    - intros d Hd Hs. apply C6 in Hs as [Hs|Hs].
      + destruct (Hnew d Hd Hs) as [H|(c & H1 & H2 & H3)]; [left; exact H|].
        right. exists c. split; [split; [apply C6; exact H1|exact H2]|exact H3].
      + destruct (B d Hd Hs) as [H|(c & [H1 H2] & H3)]; [left; exact H|].
        right. exists c. split; [split; [apply C6; right; exact H1|exact H2]|apply Hsame; assumption].
  Qed.
End Acc.
