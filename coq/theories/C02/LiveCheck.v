(* C02 — progress ("unable to proceed" never happens): the decidable conditions on a job graph
   under which the scheduler can never get stuck.  Executable definitions only; the theorem
   that these conditions exclude a stuck state in every schedule is in Live.v.

   A rank rk : N -> N is the certificate: every dependency of a job has a smaller rank than the
   job.  The harness supplies the rank of an id as the position of its job in the recorded
   launch order (any topological order would do). *)
From Coq Require Import List NArith Bool Arith.
From FV.C02 Require Import Model Graph.
Import ListNotations.
Open Scope N_scope.

Definition is_unknown (a : access) : bool := match a with AUnknown => true | _ => false end.

(* an action that takes job j out of the Unknown state: a rewrite of its access, or completing it *)
Definition settles (j : N) (a : action) : bool :=
  match a with Rewrite _ i _ => i =? j | CompleteNow i => i =? j | Add _ => false end.

(* a job added with Unknown access is settled later in the same handler *)
Fixpoint adds_settled (acts : list action) : bool :=
  match acts with
  | [] => true
  | Add d :: t => (negb (is_unknown (jacc d)) || existsb (settles (jid d)) t) && adds_settled t
  | _ :: t => adds_settled t
  end.

Section Check.
  Variable G : graph.
  Variable rk : N -> N.

  (* (id, discriminant) of every id of the graph *)
  Definition id_table : list (N * N) := map (fun i => (i, disc_of G i)) (all_ids G).

  Definition atom_ok (tbl : list (N * N)) (j : N) (a : atom) : bool :=
    match a with
    | Spec i => negb (memN i (map fst tbl)) || (rk i <? rk j)
    | Var dsc => forallb (fun e => negb (snd e =? dsc) || (rk (fst e) <? rk j)) tbl
    end.

  (* everything the access waits for has a smaller rank than j *)
  Definition acc_ok (tbl : list (N * N)) (j : N) (a : access) : bool :=
    match a with
    | ANone => true
    | AUnknown => true
    | AAll => forallb (fun e => (fst e =? j) || (rk (fst e) <? rk j)) tbl
    | ASet l => forallb (atom_ok tbl j) l
    end.

  Definition action_ok (tbl : list (N * N)) (c : N) (a : action) : bool :=
    match a with
    | Add d => (rk c <? rk (jid d)) && acc_ok tbl (jid d) (jacc d)
    | Rewrite _ j acc => negb (is_unknown acc) && acc_ok tbl j acc
    | CompleteNow j => match handler G j with [] => true | _ => false end
    end.

  Definition handler_ok (tbl : list (N * N)) (h : N * list action) : bool :=
    memN (fst h) (map jid (all_decls G))
    && forallb (action_ok tbl (fst h)) (snd h)
    && adds_settled (snd h).

  Definition static_ok (tbl : list (N * N)) (d : jobdecl) : bool :=
    acc_ok tbl (jid d) (jacc d)
    && (negb (is_unknown (jacc d))
        || existsb (fun h => (rk (fst h) <? rk (jid d)) && existsb (settles (jid d)) (snd h)) (handlers G)).

  Definition also_rank_ok (d : jobdecl) : bool :=
    forallb (fun a => rk (fst a) =? rk (jid d)) (jalso d).

  Definition live_graph : bool :=
    let tbl := id_table in
    forallb also_rank_ok (all_decls G)
    && forallb (handler_ok tbl) (handlers G)
    && forallb (static_ok tbl) (statics G).
End Check.

(* ---- the rank supplied by the harness: position of the job in the launch order -------------- *)
Fixpoint positions (l : list N) (k : N) : list (N * N) :=
  match l with [] => [] | x :: t => (x, k) :: positions t (N.succ k) end.

Definition owner_table (G : graph) : list (N * N) :=
  flat_map (fun d => map (fun i => (i, jid d)) (decl_ids d)) (all_decls G).

Definition completer_table (G : graph) : list (N * N) :=
  flat_map (fun h => flat_map (fun a => match a with CompleteNow j => [(j, fst h)] | _ => [] end) (snd h))
           (handlers G).

Definition rank_table (G : graph) (order : list N) : list (N * N) :=
  let pos := positions order 0 in
  let comp := completer_table G in
  map (fun io =>
         (fst io,
          match lookup (snd io) pos with
          | Some k => 2 * k + 2
          | None => match lookup (snd io) comp with
                    | Some c => match lookup c pos with Some k => 2 * k + 3 | None => 0 end
                    | None => 0
                    end
          end))
      (owner_table G).

Definition rank_of (rt : list (N * N)) (i : N) : N :=
  match lookup i rt with Some r => r | None => 0 end.

Definition live_instance (G : graph) (order : list N) : bool :=
  let rt := rank_table G order in live_graph G (rank_of rt).

(* the rank supplied as an explicit table (a certificate computed by the harness from the graph alone: a layering
   of the dependency constraints, independent of the schedule that happened to be recorded) *)
Definition live_ranked (G : graph) (ranks : list (N * N)) : bool := live_graph G (rank_of ranks).

Definition live_failures_ranked (G : graph) (ranks : list (N * N)) : list N * list N * list N :=
  let rk := rank_of ranks in
  let tbl := id_table G in
  (map jid (filter (fun d => negb (also_rank_ok rk d)) (all_decls G)),
   map fst (filter (fun h => negb (handler_ok G rk tbl h)) (handlers G)),
   map jid (filter (fun d => negb (static_ok G rk tbl d)) (statics G))).

(* diagnostics: the declarations / handlers the check rejects *)
Definition live_failures (G : graph) (order : list N) : list N * list N * list N :=
  let rt := rank_table G order in
  let rk := rank_of rt in
  let tbl := id_table G in
  (map jid (filter (fun d => negb (also_rank_ok rk d)) (all_decls G)),
   map fst (filter (fun h => negb (handler_ok G rk tbl h)) (handlers G)),
   map jid (filter (fun d => negb (static_ok G rk tbl d)) (statics G))).

(* ---- no handler panic ------------------------------------------------------------------------
   The handlers' hard rewrites (`.expect("... has to be pending")`) and complete-without-running
   actions panic when their job is not pending.  A job is gated by handler c when it is created
   with Unknown access and only c's handler ever settles it: it cannot start, hence cannot
   complete, before that handler runs. *)
Definition only_settler (G : graph) (c j : N) : bool :=
  forallb (fun h => (fst h =? c) || negb (existsb (settles j) (snd h))) (handlers G).

Definition declared_unknown (G : graph) (j : N) : bool :=
  match find (fun d => jid d =? j) (all_decls G) with
  | Some d => is_unknown (jacc d)
  | None => false
  end.

Definition gate_ok (G : graph) (c : N) (pre : list action) (j : N) : bool :=
  declared_unknown G j
  && (memN j (map jid (statics G)) || memN j (map jid (add_decls pre)))
  && negb (existsb (settles j) pre)
  && only_settler G c j.

Fixpoint calm_actions (G : graph) (c : N) (pre acts : list action) : bool :=
  match acts with
  | [] => true
  | a :: t =>
      match a with
      | Rewrite false j _ => gate_ok G c pre j
      | CompleteNow j => gate_ok G c pre j
      | _ => true
      end && calm_actions G c (pre ++ [a]) t
  end.

Definition calm_graph (G : graph) : bool :=
  forallb (fun h => calm_actions G (fst h) [] (snd h)) (handlers G).

Definition calm_failures (G : graph) : list N :=
  map fst (filter (fun h => negb (calm_actions G (fst h) [] (snd h))) (handlers G)).
