(* C02 — handler actions, the initial state, and the invariant for every reachable state. *)
From Coq Require Import List NArith Bool Arith Lia.
From FV.C02 Require Import Model Graph GraphFacts Ops Inv Steps Steps2.
Import ListNotations.
Open Scope N_scope.

Section Steps3.
  Variable G : graph.
  Hypothesis Hwf : wf_graph G.
  Notation Inv := (Inv G).

  Lemma add_ids_app a b : add_ids (a ++ b) = add_ids a ++ add_ids b.
  Proof. unfold add_ids, add_decls. rewrite !flat_map_app. reflexivity. Qed.

  (* the invariant only looks at the ids the finished part of a handler has added *)
  Lemma inv_cur_ext cur cur' st :
    (forall c, add_ids (done_of G cur c) = add_ids (done_of G cur' c)) -> Inv cur st -> Inv cur' st.
  Proof.
    intros Hc HI. destruct HI. constructor; try assumption.
    - intros i Hi. destruct (v_created i Hi) as [Hs|(c & A & B & C)]; [left; exact Hs|].
      right. exists c. rewrite <- Hc. auto.
    - intros c A B. rewrite <- Hc. apply v_handled; assumption.
  Qed.

  (* ---- Rewrite -------------------------------------------------------------------------- *)
  Lemma rewrite_inv cur st j pj acc :
    Inv cur st -> lookup j (pending st) = Some pj ->
    Inv cur (set_pending st (set_entry j (mkP acc (prun pj) (palso pj) (pdisc pj) (pals pj)) (pending st))).
  Proof.
    intros HI Hl.
    assert (Hjk : In j (map fst (pending st))) by (apply lookup_Some_in; eexists; exact Hl).
    destruct HI. constructor; cbn [set_pending pending cnt success err g_added g_launched g_wfin]; try assumption.
    - rewrite set_entry_keys. assumption.
    - intro k. rewrite set_entry_keys. apply v_keys.
    - intros k pk Hk. destruct (N.eq_dec k j) as [->|Hne].
      + rewrite lookup_set_entry_eq in Hk by exact Hjk. injection Hk as <-.
        pose proof (v_entry j pj Hl) as (A & B & C). unfold entry_ok. cbn [pdisc prun palso pals g_launched].
        split; [exact A|split; [exact B|exact C]].
      + rewrite lookup_set_entry_ne in Hk by exact Hne.
        pose proof (v_entry k pk Hk) as (A & B & C). unfold entry_ok. cbn [g_launched]. split; [exact A|split; [exact B|exact C]].
  Qed.

  (* ---- CompleteNow ------------------------------------------------------------------------ *)
  Lemma completenow_inv cur st j pj :
    Inv cur st -> lookup j (pending st) = Some pj -> palso pj = false -> ~ In j (g_launched st) ->
    err (complete_with_also (finish_counters st j pj) j) = false ->
    Inv cur (complete_with_also (finish_counters st j pj) j).
  Proof.
    intros HI Hl Hal Hnl He.
    destruct (job_group G Hwf cur st j pj HI Hl Hal) as (d & Hd & Hj & Hp & Hpd).
    assert (Hjk : In j (map fst (pending st))) by (apply lookup_Some_in; eexists; exact Hl).
    pose proof (proj1 (v_keys _ _ _ HI j) Hjk) as [Hja Hjs].
    assert (Hjw : ~ In j (g_wfin st)).
    { intro Hw. rewrite <- Hj in Hw. destruct (v_wfin_src _ _ _ HI d Hd Hw) as [H|H]; rewrite Hj in H; contradiction. }
    destruct (finish_counters_fields st j pj) as (Fp & Fs & Fe & Fa & Fl & Fw). cbn zeta in *.
    set (st1 := finish_counters st j pj) in *.
    assert (Hl1 : lookup j (pending st1) = Some pj) by (rewrite Fp; exact Hl).
    assert (Hnd : NoDup (j :: map fst (pals pj))).
    { rewrite Hp, <- Hj. constructor; [apply (jid_not_also G Hwf d Hd)|apply (alsos_nodup G Hwf d Hd)]. }
    destruct (complete_with_also_ok st1 j pj Hl1 Hnd He) as [C1 C2 C3 C4 C5 C6 C7 C8 C9 C10].
    set (st2 := complete_with_also st1 j) in *.
    assert (Hgrp : forall x, In x (j :: map fst (pals pj)) -> In x (jid d :: map fst (jalso d))) by (rewrite Hp, Hj; tauto).
    assert (Hids_added : forall x, In x (j :: map fst (pals pj)) -> In x (g_added st)).
    { intros x [<-|Hx]; [exact Hja|]. rewrite Hp in Hx. apply (v_group _ _ _ HI d x Hd Hx). rewrite Hj. exact Hja. }
    constructor; rewrite ?C1, ?C2, ?C3, ?C4, ?Fa, ?Fl, ?Fw.
    - apply C9. rewrite Fp. apply HI.
    - intro k. rewrite C7, C6, Fp, Fs, (v_keys _ _ _ HI). tauto.
    - apply HI.
    - intros x Hx. apply C6 in Hx. rewrite Fs in Hx. apply in_or_app.
      destruct Hx as [Hx|Hx]; [left; exact Hx|right; apply (v_succ_wfin _ _ _ HI); exact Hx].
    - intros x Hx. apply in_app_or in Hx as [Hx|Hx]; [apply Hids_added; exact Hx|apply (v_wfin_added _ _ _ HI); exact Hx].
    - apply HI.
    - apply HI.
    - intros d0 Hd0 Hw. apply in_app_or in Hw as [Hw|Hw].
      + right. apply C6. left. exact Hw.
      + destruct (v_wfin_src _ _ _ HI d0 Hd0 Hw) as [H|H]; [left; exact H|right; apply C6; right; rewrite Fs; exact H].
    - intro d0. apply (finish_counters_cnt G Hwf cur st j pj d HI Hd Hj Hp Hpd Hja Hjw).
    - intros k pk Hk. destruct (in_dec N.eq_dec k (j :: map fst (pals pj))) as [Hin|Hout].
      + exfalso. assert (Hkk : In k (map fst (pending st2))) by (apply lookup_Some_in; eexists; exact Hk).
        apply C7 in Hkk. tauto.
      + rewrite C8 in Hk by exact Hout. rewrite Fp in Hk. pose proof (v_entry _ _ _ HI k pk Hk) as (A & B & C).
        unfold entry_ok. rewrite C3, Fl. split; [exact A|split; [exact B|exact C]].
    - intros d0 a Hd0 Ha. rewrite C2, C4, Fa, Fw. destruct (v_group _ _ _ HI d0 a Hd0 Ha) as (A & B & C).
      split; [exact A|]. rewrite !C6, Fs, !in_app_iff.
      destruct (in_dec N.eq_dec (jid d0) (decl_ids d)) as [Hin|Hout].
      + assert (d0 = d) by (eapply (decl_unique G Hwf); [exact Hd0|exact Hd|apply jid_in_decl_ids|exact Hin]). subst d0.
        split; split; intros _; left; try (right; rewrite Hp; exact Ha); left; exact (eq_sym Hj).
      + assert (N1 : ~ In (jid d0) (j :: map fst (pals pj))).
        { intro Hx. apply Hout. assert (d0 = d) by (eapply (group_member G Hwf); [exact Hd|exact Hd0|apply Hgrp; exact Hx|apply jid_in_decl_ids]).
          subst d0. apply jid_in_decl_ids. }
        assert (N2 : ~ In a (j :: map fst (pals pj))).
        { intro Hx. apply Hout. assert (d0 = d) by (eapply (group_member G Hwf); [exact Hd|exact Hd0|apply Hgrp; exact Hx|apply also_in_decl_ids; exact Ha]).
          subst d0. apply jid_in_decl_ids. }
        rewrite B, C. tauto.
    - intros x Hx. destruct (v_created _ _ _ HI x Hx) as [Hs|(c & Hc & Hcl & Hxc)]; [left; exact Hs|].
      right. exists c. split; [apply C6; right; rewrite Fs; exact Hc|]. split; [exact Hcl|exact Hxc].
    - intros c Hc Hcl. apply C6 in Hc. rewrite Fs in Hc. destruct Hc as [Hc|Hc]; [|apply (v_handled _ _ _ HI c Hc Hcl)].
      (* the ids completed here were never launched *)
      exfalso. destruct Hc as [<-|Hc]; [contradiction|].
      destruct (v_launched_job _ _ _ HI c Hcl) as (dc & Hdc & Hjc). rewrite Hp in Hc.
      assert (dc = d) by (apply (decl_unique G Hwf dc d c Hdc Hd); [rewrite <- Hjc; apply jid_in_decl_ids|apply also_in_decl_ids; exact Hc]).
      subst dc. apply (jid_not_also G Hwf d Hd). rewrite Hjc. exact Hc.
  Qed.

  (* ---- one handler action -------------------------------------------------------------------- *)
  Lemma action_inv st i done a todo :
    handler G i = done ++ a :: todo -> In i (success st) -> In i (g_launched st) ->
    Inv (Some (i, done)) st -> err (do_action st a) = false ->
    Inv (Some (i, done ++ [a])) (do_action st a).
  Proof.
    intros Hh His Hil HI He.
    assert (Hdone : forall c, c <> i -> done_of G (Some (i, done ++ [a])) c = done_of G (Some (i, done)) c).
    { intros c Hc. unfold done_of. destruct (N.eqb_spec i c); [congruence|reflexivity]. }
    assert (Hdi : forall dn, done_of G (Some (i, dn)) i = dn) by (intro dn; unfold done_of; rewrite N.eqb_refl; reflexivity).
    destruct a as [d|soft j acc|j]; cbn [do_action] in *.
    - (* Add *)
      assert (Hd_in : In d (add_decls (handler G i))).
      { rewrite Hh. unfold add_decls. rewrite flat_map_app. apply in_or_app. right. left. reflexivity. }
      assert (Hd : In d (all_decls G)) by (eapply (handler_decl_in G); exact Hd_in).
      assert (Hnd : NoDup (add_ids done ++ decl_ids d ++ add_ids todo)).
      { pose proof (handler_ids_nodup G Hwf i) as H. rewrite Hh, add_ids_app in H.
        replace (Add d :: todo) with ([Add d] ++ todo) in H by reflexivity. rewrite add_ids_app in H.
        unfold add_ids at 2 in H. cbn [add_decls flat_map app] in H. rewrite app_nil_r in H. exact H. }
      assert (Hself : forall x, In x (decl_ids d) -> In x (add_ids (handler G i))).
      { intros x Hx. rewrite Hh, add_ids_app. apply in_or_app. right.
        replace (Add d :: todo) with ([Add d] ++ todo) by reflexivity. rewrite add_ids_app. apply in_or_app. left.
        unfold add_ids. cbn [add_decls flat_map app]. rewrite app_nil_r. exact Hx. }
      apply (insert_inv G Hwf (Some (i, done)) (Some (i, done ++ [Add d]))); [exact HI|exact Hd| | | |].
      + intros x Hx Hxa. destruct (v_created _ _ _ HI x Hxa) as [Hs|(c & Hc & Hcl & Hxc)].
        * eapply (static_handler_disjoint G Hwf); [exact Hs|apply Hself; exact Hx].
        * destruct (N.eq_dec c i) as [->|Hne].
          -- rewrite Hdi in Hxc. eapply (NoDup_app_disjoint (add_ids done) (decl_ids d ++ add_ids todo) x); [exact Hnd|exact Hxc|].
             apply in_or_app. left. exact Hx.
          -- unfold done_of in Hxc. destruct (N.eqb_spec i c); [congruence|].
             apply Hne. eapply (handlers_disjoint G Hwf); [exact Hxc|apply Hself; exact Hx].
      + intros x Hx. right. exists i. split; [exact His|]. split; [exact Hil|].
        rewrite Hdi, add_ids_app. apply in_or_app. right. unfold add_ids. cbn [add_decls flat_map app]. rewrite app_nil_r. exact Hx.
      + intros c x Hx. destruct (N.eq_dec c i) as [->|Hne].
        * rewrite Hdi in *. rewrite add_ids_app. apply in_or_app. left. exact Hx.
        * rewrite Hdone by exact Hne. exact Hx.
      + intros c Hc Hcl x Hx. destruct (N.eq_dec c i) as [->|Hne].
        * rewrite Hdi, add_ids_app in Hx. apply in_app_or in Hx as [Hx|Hx].
          -- apply in_or_app. right. apply (v_handled _ _ _ HI i His Hil). rewrite Hdi. exact Hx.
          -- apply in_or_app. left. apply in_rev. rewrite rev_involutive.
             unfold add_ids in Hx. cbn [add_decls flat_map app] in Hx. rewrite app_nil_r in Hx. exact Hx.
        * rewrite Hdone in Hx by exact Hne. apply in_or_app. right. apply (v_handled _ _ _ HI c Hc Hcl). exact Hx.
    - (* Rewrite *)
      assert (Hext : forall c, add_ids (done_of G (Some (i, done)) c) = add_ids (done_of G (Some (i, done ++ [Rewrite soft j acc])) c)).
      { intro c. destruct (N.eq_dec c i) as [->|Hne]; [|rewrite Hdone by exact Hne; reflexivity].
        rewrite !Hdi, add_ids_app. unfold add_ids at 3. cbn. rewrite app_nil_r. reflexivity. }
      destruct (lookup j (pending st)) as [pj|] eqn:Hl.
      + apply (inv_cur_ext _ _ _ Hext). apply rewrite_inv; assumption.
      + destruct soft; [|cbn in He; discriminate]. apply (inv_cur_ext _ _ _ Hext). exact HI.
    - (* CompleteNow *)
      assert (Hext : forall c, add_ids (done_of G (Some (i, done)) c) = add_ids (done_of G (Some (i, done ++ [CompleteNow j])) c)).
      { intro c. destruct (N.eq_dec c i) as [->|Hne]; [|rewrite Hdone by exact Hne; reflexivity].
        rewrite !Hdi, add_ids_app. unfold add_ids at 3. cbn. rewrite app_nil_r. reflexivity. }
      destruct (lookup j (pending st)) as [pj|] eqn:Hl; [|cbn in He; discriminate].
      destruct (palso pj) eqn:Hal; [cbn in He; discriminate|].
      destruct (memN j (g_launched st)) eqn:Hm; [cbn in He; discriminate|]. cbn [orb] in *.
      apply (inv_cur_ext _ _ _ Hext). apply completenow_inv; try assumption. apply memN_false. exact Hm.
  Qed.

  (* success and launched only grow through an action *)
  Lemma do_action_mono st a i : err (do_action st a) = false ->
    In i (success st) -> In i (g_launched st) ->
    In i (success (do_action st a)) /\ In i (g_launched (do_action st a)).
  Proof.
    intros He Hs Hl. destruct a as [d|soft j acc|j]; cbn [do_action] in *.
    - destruct (insert_fields st d) as (Fs & _ & Fl & _). rewrite Fs, Fl. tauto.
    - destruct (lookup j (pending st)); [tauto|]. destruct soft; [tauto|discriminate].
    - destruct (lookup j (pending st)) as [pj|] eqn:Hlk; [|discriminate].
      destruct (palso pj || memN j (g_launched st)) eqn:Hg; [discriminate|].
      apply orb_false_iff in Hg as [Hal Hm].
      destruct (finish_counters_fields st j pj) as (Fp & Fs & Fe & Fa & Fl & Fw). cbn zeta in *.
      unfold complete_with_also in *. rewrite Fp, Hlk in *.
      set (st1 := finish_counters st j pj) in *.
      assert (Hgen : forall (l : list (N * N)) s, In i (success s) -> In i (g_launched s) ->
                err (fold_left (fun s a => complete_one s (fst a)) l s) = false ->
                In i (success (fold_left (fun s a => complete_one s (fst a)) l s))
                /\ In i (g_launched (fold_left (fun s a => complete_one s (fst a)) l s))).
      { induction l as [|a l IHl]; intros s A B E; cbn [fold_left] in *; [tauto|].
        assert (E1 : err (complete_one s (fst a)) = false).
        { destruct (err (complete_one s (fst a))) eqn:X; [|reflexivity]. rewrite fold_complete_sticky in E by exact X. discriminate. }
        destruct (complete_one_ok s (fst a) E1) as (_ & _ & _ & Eq). apply IHl; [| |exact E]; rewrite Eq; cbn [success g_launched In]; tauto. }
      assert (E1 : err (complete_one st1 j) = false).
      { destruct (err (complete_one st1 j)) eqn:X; [|reflexivity]. rewrite fold_complete_sticky in He by exact X. discriminate. }
      destruct (complete_one_ok st1 j E1) as (_ & _ & _ & Eq).
      apply Hgen; [| |exact He]; rewrite Eq; cbn [success g_launched In]; rewrite ?Fs, ?Fl; tauto.
  Qed.

  Lemma handler_fold_inv todo : forall st i done,
    handler G i = done ++ todo -> In i (success st) -> In i (g_launched st) ->
    Inv (Some (i, done)) st -> err (fold_left do_action todo st) = false ->
    Inv (Some (i, done ++ todo)) (fold_left do_action todo st).
  Proof.
    induction todo as [|a todo IH]; intros st i done Hh His Hil HI He; cbn [fold_left] in *.
    - rewrite app_nil_r. exact HI.
    - assert (E1 : err (do_action st a) = false).
      { destruct (err (do_action st a)) eqn:X; [|reflexivity]. rewrite fold_action_sticky in He by exact X. discriminate. }
      destruct (do_action_mono st a i E1 His Hil) as [His' Hil'].
      replace (done ++ a :: todo) with ((done ++ [a]) ++ todo) by (rewrite <- app_assoc; reflexivity).
      apply IH; try assumption.
      + rewrite <- app_assoc. exact Hh.
      + apply action_inv with (todo := todo); assumption.
  Qed.

  (* ---- the initial state ---------------------------------------------------------------------- *)
  Lemma init_fold_inv todo : forall processed st,
    statics G = processed ++ todo -> Inv None st -> success st = [] ->
    g_added st = rev (flat_map decl_ids processed) ->
    let st' := fold_left insert todo st in
    Inv None st' /\ success st' = [] /\ g_added st' = rev (static_ids G) /\ g_launched st' = g_launched st
    /\ err st' = err st.
  Proof.
    induction todo as [|d todo IH]; intros processed st Hs HI Hsu Ha; cbn [fold_left].
    - rewrite app_nil_r in Hs. cbn zeta. split; [exact HI|]. split; [exact Hsu|]. split; [rewrite Ha; unfold static_ids; rewrite Hs; reflexivity|].
      split; reflexivity.
    - assert (Hd : In d (all_decls G)).
      { apply (static_decl_in G). rewrite Hs. apply in_or_app. right. left. reflexivity. }
      assert (Hnd : NoDup (static_ids G)).
      { destruct Hwf as (H & _). unfold all_ids in H. apply NoDup_app_remove_r in H. exact H. }
      destruct (insert_fields st d) as (Fs & Fe & Fl & Fw & Fa).
      destruct (IH (processed ++ [d]) (insert st d)) as (A & B & C & D & E).
      + rewrite <- app_assoc. exact Hs.
      + apply (insert_inv G Hwf None None); [exact HI|exact Hd| | | |].
        * intros x Hx Hxa. rewrite Ha, <- in_rev in Hxa. unfold static_ids in Hnd. rewrite Hs in Hnd.
          rewrite flat_map_app in Hnd. cbn [flat_map] in Hnd.
          eapply (NoDup_app_disjoint _ _ x Hnd); [exact Hxa|apply in_or_app; left; exact Hx].
        * intros x Hx. left. unfold static_ids. rewrite Hs, flat_map_app. apply in_or_app. right. cbn [flat_map].
          apply in_or_app. left. exact Hx.
        * intros c x Hx. exact Hx.
        * intros c Hc. rewrite Hsu in Hc. destruct Hc.
      + rewrite Fs. exact Hsu.
      + rewrite Fa, Ha, flat_map_app, rev_app_distr. cbn [flat_map]. rewrite app_nil_r. reflexivity.
      + cbn zeta in *. rewrite Fl in D. rewrite Fe in E. split; [exact A|]. split; [exact B|]. split; [exact C|]. split; [exact D|exact E].
  Qed.

  Lemma init_inv : Inv None (init G) /\ g_added (init G) = rev (static_ids G) /\ err (init G) = false.
  Proof.
    destruct (init_fold_inv (statics G) [] (empty_state) eq_refl (inv_empty G None) eq_refl eq_refl) as (A & _ & C & _ & E).
    unfold init. fold empty_state. cbn zeta in *. split; [exact A|]. split; [exact C|]. rewrite E. reflexivity.
  Qed.

  (* ---- every event ------------------------------------------------------------------------------- *)
  Lemma step_inv st e st' : Inv None st -> step G st e = Some st' -> err st' = false -> Inv None st'.
  Proof.
    intros HI Hs He. destruct e as [i|i|i]; cbn [step] in Hs.
    - destruct (lookup i (pending st)) as [pj|] eqn:Hl; [|discriminate].
      destruct (palso pj || prun pj || negb (can_run st i (pacc pj))) eqn:Hg; [discriminate|].
      injection Hs as <-. apply orb_false_iff in Hg as [Hg _]. apply orb_false_iff in Hg as [Hal _].
      apply launch_inv; assumption.
    - destruct (lookup i (pending st)) as [pj|] eqn:Hl; [|discriminate].
      destruct (memN i (g_launched st) && negb (memN i (g_wfin st))) eqn:Hg; [|discriminate].
      injection Hs as <-. apply andb_true_iff in Hg as [H1 H2]. apply negb_true_iff in H2.
      apply wfinish_inv; [exact Hwf|exact HI|exact Hl|apply memN_In; exact H1|apply memN_false; exact H2].
    - destruct (memN i (g_launched st) && memN i (g_wfin st) && negb (memN i (success st))) eqn:Hg; [|discriminate].
      injection Hs as <-. apply andb_true_iff in Hg as [Hg H3]. apply andb_true_iff in Hg as [H1 H2].
      apply negb_true_iff in H3. apply memN_In in H1, H2. apply memN_false in H3.
      assert (E1 : err (complete_with_also st i) = false).
      { destruct (err (complete_with_also st i)) eqn:X; [|reflexivity]. rewrite fold_action_sticky in He by exact X. discriminate. }
      pose proof (deliver_complete_inv G Hwf st i HI H1 H2 H3 E1) as HI1.
      assert (Hsucc : In i (success (complete_with_also st i)) /\ In i (g_launched (complete_with_also st i))).
      { assert (Hik : In i (map fst (pending st))).
        { apply (v_keys _ _ _ HI). split; [apply (v_launched_added _ _ _ HI); exact H1|exact H3]. }
        apply lookup_Some_in in Hik as [pj Hl]. unfold complete_with_also in *. rewrite Hl in *.
        assert (E0 : err (complete_one st i) = false).
        { destruct (err (complete_one st i)) eqn:X; [|reflexivity]. rewrite fold_complete_sticky in E1 by exact X. discriminate. }
        destruct (complete_one_ok st i E0) as (_ & _ & _ & Eq).
        assert (Hgen : forall (l : list (N * N)) s, In i (success s) -> In i (g_launched s) ->
                  err (fold_left (fun s a => complete_one s (fst a)) l s) = false ->
                  In i (success (fold_left (fun s a => complete_one s (fst a)) l s))
                  /\ In i (g_launched (fold_left (fun s a => complete_one s (fst a)) l s))).
        { induction l as [|a l IHl]; intros s A B E; cbn [fold_left] in *; [tauto|].
          assert (E2 : err (complete_one s (fst a)) = false).
          { destruct (err (complete_one s (fst a))) eqn:X; [|reflexivity]. rewrite fold_complete_sticky in E by exact X. discriminate. }
          destruct (complete_one_ok s (fst a) E2) as (_ & _ & _ & Eq2). apply IHl; [| |exact E]; rewrite Eq2; cbn [success g_launched In]; tauto. }
        apply Hgen; [| |exact E1]; rewrite Eq; cbn [success g_launched In]; tauto. }
      destruct Hsucc as [His Hil].
      pose proof (handler_fold_inv (handler G i) (complete_with_also st i) i [] eq_refl His Hil HI1 He) as HI2.
      cbn [app] in HI2. apply (inv_cur_ext (Some (i, handler G i)) None); [|exact HI2].
      intro c. unfold done_of. destruct (N.eqb_spec i c) as [->|_]; reflexivity.
  Qed.

  Lemma step_err_sticky st e st' : step G st e = Some st' -> err st = true -> err st' = true.
  Proof.
    intros Hs He. destruct e as [i|i|i]; cbn [step] in Hs.
    - destruct (lookup i (pending st)) as [pj|]; [|discriminate].
      destruct (palso pj || prun pj || negb (can_run st i (pacc pj))); [discriminate|]. injection Hs as <-. exact He.
    - destruct (lookup i (pending st)) as [pj|]; [|discriminate].
      destruct (memN i (g_launched st) && negb (memN i (g_wfin st))); [|discriminate]. injection Hs as <-.
      rewrite finish_counters_err. exact He.
    - destruct (memN i (g_launched st) && memN i (g_wfin st) && negb (memN i (success st))); [|discriminate].
      injection Hs as <-. apply fold_action_sticky. apply complete_with_also_sticky. exact He.
  Qed.

  Lemma run_inv evs : forall st st', Inv None st -> err st = false ->
    run G st evs = Some st' -> err st' = false -> Inv None st'.
  Proof.
    induction evs as [|e evs IH]; intros st st' HI He Hr He'; cbn [run] in Hr.
    - injection Hr as <-. exact HI.
    - destruct (step G st e) as [st1|] eqn:Hs; [|discriminate].
      assert (E1 : err st1 = false).
      { destruct (err st1) eqn:X; [|reflexivity]. exfalso.
        assert (Hst : forall evs s s', run G s evs = Some s' -> err s = true -> err s' = true).
        { clear. induction evs as [|e evs IHe]; intros s s' Hr E; cbn [run] in Hr; [injection Hr as <-; exact E|].
          destruct (step G s e) as [s1|] eqn:Hs; [|discriminate]. eapply IHe; [exact Hr|eapply step_err_sticky; eassumption]. }
        rewrite (Hst evs st1 st' Hr X) in He'. discriminate. }
      eapply IH; [eapply step_inv; eassumption|exact E1|exact Hr|exact He'].
  Qed.

  (* The bookkeeping invariant holds in every state the scheduler can reach without having panicked. *)
  Theorem reachable_inv evs st : run G (init G) evs = Some st -> err st = false -> Inv None st.
  Proof.
    destruct init_inv as (A & _ & C). intros Hr He. eapply run_inv; [exact A|exact C|exact Hr|exact He].
  Qed.
End Steps3.
