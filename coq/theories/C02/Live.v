(* C02 — progress: a graph that passes live_graph never reaches a state in which jobs are pending,
   none is running and none can be launched ("unable to proceed"), in any schedule. *)
From Coq Require Import List NArith Bool Arith Lia.
From FV.C02 Require Import Model Graph GraphFacts Ops Inv Steps Steps2 Steps3 Acc Acc2 Reach LiveCheck Live3.
Import ListNotations.
Open Scope N_scope.

Lemma lookup_nodup_in {A} k (v : A) l : NoDup (map fst l) -> In (k, v) l -> lookup k l = Some v.
Proof.
  induction l as [|[k' v'] l IH]; cbn [map fst lookup In]; intros Hnd Hin; [destruct Hin|].
  inversion Hnd as [|? ? Hn Hnd']; subst. destruct Hin as [E|Hin].
  - injection E as -> ->. rewrite N.eqb_refl. reflexivity.
  - destruct (N.eqb_spec k' k) as [->|Hne].
    + exfalso. apply Hn. apply (in_map fst) in Hin. exact Hin.
    + apply IH; assumption.
Qed.

Lemma min_exists (f : N -> N) (l : list N) : l <> [] -> exists m, In m l /\ forall k, In k l -> f m <= f k.
Proof.
  induction l as [|x l IH]; [congruence|]. intros _. destruct l as [|y l'].
  - exists x. split; [left; reflexivity|]. intros k [<-|[]]. lia.
  - destruct IH as (m & Hm & Hmin); [discriminate|]. destruct (N.leb_spec (f x) (f m)).
    + exists x. split; [left; reflexivity|]. intros k [<-|Hk]; [lia|]. specialize (Hmin k Hk). lia.
    + exists m. split; [right; exact Hm|]. intros k [<-|Hk]; [lia|apply Hmin; exact Hk].
Qed.

Lemma in_add_decls d acts : In d (add_decls acts) <-> In (Add d) acts.
Proof.
  unfold add_decls. rewrite in_flat_map. split.
  - intros (a & Ha & Hd). destruct a; cbn in Hd; try contradiction. destruct Hd as [<-|[]]. exact Ha.
  - intro H. exists (Add d). split; [exact H|left; reflexivity].
Qed.

Lemma adds_settled_split pre : forall d post,
  adds_settled (pre ++ Add d :: post) = true -> jacc d = AUnknown -> existsb (settles (jid d)) post = true.
Proof.
  induction pre as [|a pre IH]; intros d post H Hu; cbn [app adds_settled] in H.
  - apply andb_true_iff in H as [H _]. rewrite Hu in H. cbn in H. exact H.
  - destruct a; [apply andb_true_iff in H as [_ H]| |]; apply IH; assumption.
Qed.

Section Live.
  Variable G : graph.
  Hypothesis Hwf : wf_graph G.
  Variable rk : N -> N.
  Hypothesis Hlive : live_graph G rk = true.
  Notation Inv := (Inv G).
  Notation Inv2 := (Inv2 G).
  Notation tbl := (id_table G).

  Lemma live_parts :
    forallb (also_rank_ok rk) (all_decls G) = true
    /\ forallb (handler_ok G rk tbl) (handlers G) = true
    /\ forallb (static_ok G rk tbl) (statics G) = true.
  Proof.
    unfold live_graph in Hlive. cbn zeta in Hlive.
    apply andb_true_iff in Hlive as [H12 H3]. apply andb_true_iff in H12 as [H1 H2]. auto.
  Qed.

  Lemma tbl_keys : map fst tbl = all_ids G.
  Proof. unfold id_table. rewrite map_map. cbn [fst]. apply map_id. Qed.

  Lemma tbl_in i : In i (all_ids G) -> In (i, disc_of G i) tbl.
  Proof. intro H. unfold id_table. apply in_map_iff. exists i. auto. Qed.

  (* ---- what acc_ok says ---------------------------------------------------------------- *)
  Lemma acc_ok_spec j l i : acc_ok rk tbl j (ASet l) = true -> In (Spec i) l -> In i (all_ids G) -> rk i < rk j.
  Proof.
    intros H Hin Hi. cbn [acc_ok] in H. rewrite forallb_forall in H. specialize (H _ Hin). cbn [atom_ok] in H.
    apply orb_true_iff in H as [H|H]; [|apply N.ltb_lt; exact H].
    apply negb_true_iff, memN_false in H. rewrite tbl_keys in H. contradiction.
  Qed.

  Lemma acc_ok_var j l dsc i : acc_ok rk tbl j (ASet l) = true -> In (Var dsc) l -> In i (all_ids G) ->
    disc_of G i = dsc -> rk i < rk j.
  Proof.
    intros H Hin Hi Hd. cbn [acc_ok] in H. rewrite forallb_forall in H. specialize (H _ Hin). cbn [atom_ok] in H.
    rewrite forallb_forall in H. specialize (H _ (tbl_in i Hi)). cbn [fst snd] in H.
    apply orb_true_iff in H as [H|H]; [|apply N.ltb_lt; exact H].
    apply negb_true_iff, N.eqb_neq in H. contradiction.
  Qed.

  Lemma acc_ok_all j i : acc_ok rk tbl j AAll = true -> In i (all_ids G) -> i <> j -> rk i < rk j.
  Proof.
    intros H Hi Hne. cbn [acc_ok] in H. rewrite forallb_forall in H. specialize (H _ (tbl_in i Hi)). cbn [fst] in H.
    apply orb_true_iff in H as [H|H]; [apply N.eqb_eq in H; contradiction|apply N.ltb_lt; exact H].
  Qed.

  (* ---- what the check says about handlers and declarations -------------------------------- *)
  Lemma hok c : handler G c <> [] -> handler_ok G rk tbl (c, handler G c) = true.
  Proof.
    intro H. destruct live_parts as (_ & H2 & _). rewrite forallb_forall in H2. apply H2. apply handler_in. exact H.
  Qed.

  Lemma in_handler_ne c (a : action) : In a (handler G c) -> handler G c <> [].
  Proof. intros H E. rewrite E in H. destruct H. Qed.

  Lemma F_hkey c : handler G c <> [] -> exists d, In d (all_decls G) /\ jid d = c.
  Proof.
    intro H. pose proof (hok c H) as Hk. unfold handler_ok in Hk. cbn [fst snd] in Hk.
    apply andb_true_iff in Hk as [Hk _]. apply andb_true_iff in Hk as [Hk _].
    apply memN_In, in_map_iff in Hk as (d & E & Hd). exists d. auto.
  Qed.

  Lemma F_act c a : In a (handler G c) -> action_ok G rk tbl c a = true.
  Proof.
    intro Hin. pose proof (hok c (in_handler_ne c a Hin)) as Hk. unfold handler_ok in Hk. cbn [fst snd] in Hk.
    apply andb_true_iff in Hk as [Hk _]. apply andb_true_iff in Hk as [_ Hk].
    rewrite forallb_forall in Hk. apply Hk. exact Hin.
  Qed.

  Lemma F_settled c pre d post : handler G c = pre ++ Add d :: post -> jacc d = AUnknown ->
    exists a, In a post /\ settles (jid d) a = true.
  Proof.
    intros Hh Hu. assert (Hne : handler G c <> []) by (rewrite Hh; destruct pre; discriminate).
    pose proof (hok c Hne) as Hk. unfold handler_ok in Hk. cbn [fst snd] in Hk.
    apply andb_true_iff in Hk as [_ Hk]. rewrite Hh in Hk.
    apply (adds_settled_split pre d post Hk) in Hu. apply existsb_exists in Hu. exact Hu.
  Qed.

  Lemma F_add c d : In (Add d) (handler G c) -> rk c < rk (jid d) /\ acc_ok rk tbl (jid d) (jacc d) = true.
  Proof.
    intro H. apply F_act in H. cbn [action_ok] in H. apply andb_true_iff in H as [H1 H2].
    apply N.ltb_lt in H1. auto.
  Qed.

  Lemma F_rw c soft j acc : In (Rewrite soft j acc) (handler G c) -> acc <> AUnknown /\ acc_ok rk tbl j acc = true.
  Proof.
    intro H. apply F_act in H. cbn [action_ok] in H. apply andb_true_iff in H as [H1 H2].
    split; [|exact H2]. intros ->. discriminate.
  Qed.

  Lemma F_cn c j : In (CompleteNow j) (handler G c) -> handler G j = [].
  Proof. intro H. apply F_act in H. cbn [action_ok] in H. destruct (handler G j); [reflexivity|discriminate]. Qed.

  Lemma F_static d : In d (statics G) ->
    acc_ok rk tbl (jid d) (jacc d) = true
    /\ (jacc d = AUnknown -> exists c a, rk c < rk (jid d) /\ In a (handler G c) /\ settles (jid d) a = true).
  Proof.
    intro Hd. destruct live_parts as (_ & _ & H3). rewrite forallb_forall in H3. specialize (H3 d Hd).
    unfold static_ok in H3. apply andb_true_iff in H3 as [H1 H2]. split; [exact H1|].
    intro Hu. rewrite Hu in H2. cbn [is_unknown negb orb] in H2. apply existsb_exists in H2 as ([c acts] & Hh & H2).
    cbn [fst snd] in H2. apply andb_true_iff in H2 as [Hr Hs]. apply existsb_exists in Hs as (a & Ha & Hs).
    pose proof Hwf as (_ & Hnd & _). pose proof (lookup_nodup_in c acts (handlers G) Hnd Hh) as Hl.
    exists c, a. split; [apply N.ltb_lt; exact Hr|]. split; [|exact Hs]. unfold handler. rewrite Hl. exact Ha.
  Qed.

  Lemma F_also d a : In d (all_decls G) -> In a (map fst (jalso d)) -> rk a = rk (jid d).
  Proof.
    intros Hd Ha. destruct live_parts as (H1 & _). rewrite forallb_forall in H1. specialize (H1 d Hd).
    unfold also_rank_ok in H1. rewrite forallb_forall in H1. apply in_map_iff in Ha as (x & <- & Hx).
    apply N.eqb_eq. apply H1. exact Hx.
  Qed.

  Lemma decl_origin d : In d (all_decls G) -> In d (statics G) \/ exists c, In (Add d) (handler G c).
  Proof.
    intro Hd. unfold all_decls in Hd. apply in_app_or in Hd as [Hd|Hd]; [left; exact Hd|right].
    apply in_flat_map in Hd as ([c acts] & Hh & Hd). cbn [snd] in Hd.
    pose proof Hwf as (_ & Hnd & _). pose proof (lookup_nodup_in c acts (handlers G) Hnd Hh) as Hl.
    exists c. unfold handler. rewrite Hl. apply in_add_decls. exact Hd.
  Qed.

  Lemma rk_decl_ids d i : In d (all_decls G) -> In i (decl_ids d) -> rk i = rk (jid d).
  Proof.
    intros Hd Hi. unfold decl_ids in Hi. apply in_app_or in Hi as [Hi|[<-|[]]]; [apply F_also; assumption|reflexivity].
  Qed.

  Lemma jid_in_all d : In d (all_decls G) -> In (jid d) (all_ids G).
  Proof. intro Hd. rewrite all_ids_decls. apply in_flat_map. exists d. split; [exact Hd|apply jid_in_decl_ids]. Qed.

  Lemma add_ids_in_all c i : In i (add_ids (handler G c)) -> In i (all_ids G).
  Proof.
    intro H. unfold all_ids. apply in_or_app. right. unfold handler_ids. apply in_flat_map.
    exists (c, handler G c). split; [|exact H]. apply handler_in. intro E. rewrite E in H. destruct H.
  Qed.

  Lemma added_in_all st : Inv None st -> incl (g_added st) (all_ids G).
  Proof.
    intros HI i Hi. destruct (v_created _ _ _ HI i Hi) as [Hs|(c & _ & _ & Hc)].
    - unfold all_ids. apply in_or_app. left. exact Hs.
    - unfold done_of in Hc. eapply add_ids_in_all. exact Hc.
  Qed.

  (* ---- the main argument ---------------------------------------------------------------------- *)
  Section Stuck.
    Variable st : state.
    Hypothesis Hreach : reach G st.
    Hypothesis Herr : err st = false.
    Variables (j : N) (pj : pjob).
    Hypothesis Hlj : lookup j (pending st) = Some pj.
    Hypothesis Hmin : forall k, In k (map fst (pending st)) -> rk j <= rk k.

    Let HI : Inv None st := proj1 (reach_inv G Hwf st Hreach Herr).
    Let HI2 : Inv2 None st := proj2 (reach_inv G Hwf st Hreach Herr).

    Lemma Hnu : forall c soft k acc, In (Rewrite soft k acc) (handler G c) -> acc <> AUnknown.
    Proof. intros c soft k acc H. apply (F_rw c soft k acc H). Qed.

    Let HI3 : Inv3 G None st := reach_inv3 G Hwf Hnu st Hreach Herr.

    Lemma pending_in_all k : In k (map fst (pending st)) -> In k (all_ids G).
    Proof. intro H. apply (v_keys _ _ _ HI) in H as [H _]. apply (added_in_all st HI). exact H. Qed.

    (* everything of smaller rank is complete, and ran if it has a handler *)
    Lemma lower_done : forall i, In i (all_ids G) -> rk i < rk j ->
      In i (success st) /\ (handler G i <> [] -> In i (g_launched st)).
    Proof.
      assert (H : forall r i, rk i = r -> In i (all_ids G) -> rk i < rk j ->
                    In i (success st) /\ (handler G i <> [] -> In i (g_launched st))).
      { intro r. induction r as [r IH] using (well_founded_induction N.lt_wf_0). intros i Er Hi Hlt.
        assert (Hadded : In i (g_added st)).
        { unfold all_ids in Hi. apply in_app_or in Hi as [Hs|Hh].
          - apply (reach_static_added G Hwf st Hreach Herr). exact Hs.
          - unfold handler_ids in Hh. apply in_flat_map in Hh as ([c acts] & Hh & Hia). cbn [snd] in Hia.
            pose proof Hwf as (_ & Hnd & _). pose proof (lookup_nodup_in c acts (handlers G) Hnd Hh) as Hl.
            assert (Hacts : handler G c = acts) by (unfold handler; rewrite Hl; reflexivity).
            rewrite <- Hacts in Hia.
            unfold add_ids in Hia. apply in_flat_map in Hia as (d & Hd & Hid).
            pose proof (handler_decl_in G c d Hd) as Hdall.
            apply in_add_decls in Hd. destruct (F_add c d Hd) as [Hrk _].
            rewrite <- (rk_decl_ids d i Hdall Hid) in Hrk.
            assert (Hcne : handler G c <> []) by (eapply in_handler_ne; exact Hd).
            destruct (F_hkey c Hcne) as (dc & Hdc & Hjc).
            assert (Hcall : In c (all_ids G)) by (rewrite <- Hjc; apply jid_in_all; exact Hdc).
            destruct (IH (rk c) ltac:(lia) c eq_refl Hcall ltac:(lia)) as [Hcs Hcl].
            apply (v_handled _ _ _ HI c Hcs (Hcl Hcne)). unfold done_of.
            unfold add_ids. apply in_flat_map. exists d. split; [apply in_add_decls; exact Hd|exact Hid]. }
        assert (Hsucc : In i (success st)).
        { destruct (in_dec N.eq_dec i (success st)) as [Hs|Hn]; [exact Hs|]. exfalso.
          assert (Hk : In i (map fst (pending st))) by (apply (v_keys _ _ _ HI); auto).
          specialize (Hmin i Hk). lia. }
        split; [exact Hsucc|]. intro Hne. destruct (F_hkey i Hne) as (d0 & Hd0 & Hj0). subst i.
        destruct (w_succ _ _ _ HI2 d0 Hd0 Hsucc) as [Hl|(c & _ & Hcn)]; [exact Hl|].
        exfalso. unfold done_of in Hcn. apply F_cn in Hcn. contradiction. }
      intros i. apply (H (rk i) i eq_refl).
    Qed.

    Lemma lower_delivered c : handler G c <> [] -> rk c < rk j -> delivered_run st c.
    Proof.
      intros Hne Hlt. destruct (F_hkey c Hne) as (dc & Hdc & Hjc).
      assert (Hcall : In c (all_ids G)) by (rewrite <- Hjc; apply jid_in_all; exact Hdc).
      destruct (lower_done c Hcall Hlt) as [A B]. split; [exact A|apply B; exact Hne].
    Qed.

    Hypothesis Hjob : palso pj = false.

    (* a settling action of a delivered handler, executed when j existed, contradicts Unknown *)
    Lemma settled_not_unknown c pre a post :
      handler G c = pre ++ a :: post -> settles j a = true -> delivered_run st c ->
      In j (static_ids G) \/ In j (add_ids pre) -> pacc pj <> AUnknown.
    Proof.
      intros Hh Hs Hd Hor. destruct a as [d|soft k acc|k]; cbn [settles] in Hs; [discriminate| |];
        apply N.eqb_eq in Hs; subst k.
      - eapply (x_rw _ _ _ HI3); [exact Hlj|exact Hd|unfold done_of; exact Hh|exact Hor].
      - exfalso. assert (Hsu : In j (success st)).
        { eapply (x_cn _ _ _ HI3); [exact Hd|]. unfold done_of. rewrite Hh. apply in_or_app. right. left. reflexivity. }
        assert (Hk : In j (map fst (pending st))) by (apply lookup_Some_in; eexists; exact Hlj).
        apply (v_keys _ _ _ HI) in Hk. tauto.
    Qed.

    Lemma min_can_run : can_run st j (pacc pj) = true.
    Proof.
      destruct (job_group G Hwf None st j pj HI Hlj Hjob) as (d & Hd & Hjd & _ & _).
      (* the access is sound for the rank, and is not Unknown *)
      assert (Hacc : acc_ok rk tbl j (pacc pj) = true /\ pacc pj <> AUnknown).
      { destruct (w_acc _ _ _ HI2 j pj Hlj) as [Hinit|(c & soft & _ & Hrw)].
        - rewrite (init_acc_decl G Hwf d j Hd) in Hinit by (rewrite <- Hjd; apply jid_in_decl_ids).
          destruct (decl_origin d Hd) as [Hst|(c & Hadd)].
          + destruct (F_static d Hst) as [Hok Hun]. rewrite Hjd in Hok, Hun. rewrite Hinit. split; [exact Hok|].
            intro Hu. destruct (Hun Hu) as (c & a & Hrk & Ha & Hs).
            apply in_split in Ha as (pre & post & Hh).
            assert (Hne : handler G c <> []) by (rewrite Hh; destruct pre; discriminate).
            refine (settled_not_unknown c pre a post Hh Hs (lower_delivered c Hne Hrk) _ _).
            * left. unfold static_ids. apply in_flat_map. exists d. split; [exact Hst|rewrite <- Hjd; apply jid_in_decl_ids].
            * rewrite Hinit. exact Hu.
          + destruct (F_add c d Hadd) as [Hrk Hok]. rewrite Hjd in Hok, Hrk. rewrite Hinit. split; [exact Hok|].
            intro Hu. apply in_split in Hadd as (pre & post & Hh).
            destruct (F_settled c pre d post Hh Hu) as (a & Ha & Hs). rewrite Hjd in Hs.
            apply in_split in Ha as (p1 & p2 & Hp).
            assert (Hh2 : handler G c = (pre ++ Add d :: p1) ++ a :: p2) by (rewrite Hh, Hp, <- app_assoc; reflexivity).
            assert (Hne : handler G c <> []) by (rewrite Hh; destruct pre; discriminate).
            refine (settled_not_unknown c _ a p2 Hh2 Hs (lower_delivered c Hne Hrk) _ _).
            * right. rewrite add_ids_app, add_ids_cons_add. apply in_or_app. right. apply in_or_app. left.
              rewrite <- Hjd. apply jid_in_decl_ids.
            * rewrite Hinit. exact Hu.
        - unfold done_of in Hrw. destruct (F_rw c soft j (pacc pj) Hrw) as [A B]. auto. }
      destruct Hacc as [Hok Hnu']. destruct (pacc pj) as [| | |l] eqn:Ea; cbn [can_run].
      - reflexivity.
      - congruence.
      - apply negb_true_iff. unfold anything_else_pending.
        destruct (existsb (fun p => negb (fst p =? j)) (pending st)) eqn:Ex; [|reflexivity]. exfalso.
        apply existsb_exists in Ex as ([k pk] & Hin & Hne). cbn [fst] in Hne.
        apply negb_true_iff, N.eqb_neq in Hne.
        assert (Hk : In k (map fst (pending st))) by (apply in_map_iff; exists (k, pk); auto).
        pose proof (acc_ok_all j k Hok (pending_in_all k Hk) Hne). specialize (Hmin k Hk). lia.
      - apply forallb_forall. intros [i|dsc] Hin; cbn [fulfilled].
        + apply negb_true_iff. unfold is_pending. destruct (lookup i (pending st)) as [pi|] eqn:Hli; [|reflexivity]. exfalso.
          assert (Hk : In i (map fst (pending st))) by (apply lookup_Some_in; eexists; exact Hli).
          pose proof (acc_ok_spec j l i Hok Hin (pending_in_all i Hk)). specialize (Hmin i Hk). lia.
        + apply Nat.eqb_eq. rewrite (v_cnt _ _ _ HI). unfold count_open.
          rewrite filter_none; [reflexivity|]. intros x Hx. unfold is_open.
          destruct (N.eqb_spec (disc_of G x) dsc) as [Hd'|_]; [|reflexivity]. cbn [andb].
          apply negb_false_iff. apply memN_In.
          destruct (in_dec N.eq_dec x (g_wfin st)) as [Hw|Hnw]; [exact Hw|]. exfalso.
          assert (Hns : ~ In x (success st)) by (intro Hs; apply Hnw; apply (v_succ_wfin _ _ _ HI); exact Hs).
          assert (Hk : In x (map fst (pending st))) by (apply (v_keys _ _ _ HI); auto).
          pose proof (acc_ok_var j l dsc x Hok Hin (pending_in_all x Hk) Hd'). specialize (Hmin x Hk). lia.
    Qed.
  End Stuck.

  (* ---- progress ------------------------------------------------------------------------------- *)
  Theorem never_stuck st :
    reach G st -> err st = false -> pending st <> [] ->
    (forall i pj, lookup i (pending st) = Some pj -> prun pj = false) ->
    launchable st <> [].
  Proof.
    intros Hreach Herr Hne Hnorun.
    destruct (reach_inv G Hwf st Hreach Herr) as [HI HI2].
    assert (Hkne : map fst (pending st) <> []) by (destruct (pending st); [congruence|discriminate]).
    destruct (min_exists rk (map fst (pending st)) Hkne) as (m & Hm & Hmin).
    (* the job that owns m *)
    assert (Hown : exists j pj, lookup j (pending st) = Some pj /\ palso pj = false /\ rk j = rk m).
    { apply lookup_Some_in in Hm as Hm'. destruct Hm' as [pm Hlm]. destruct (palso pm) eqn:Hal.
      - pose proof (v_entry _ _ _ HI m pm Hlm) as (_ & _ & [(E & _)|(_ & _ & d & Hd & Hmd)]); [congruence|].
        destruct (v_group _ _ _ HI d m Hd Hmd) as (Ga & _ & Gs).
        apply (v_keys _ _ _ HI) in Hm as [Hma Hms].
        assert (Hjk : In (jid d) (map fst (pending st))) by (apply (v_keys _ _ _ HI); tauto).
        apply lookup_Some_in in Hjk as [pd Hld]. exists (jid d), pd. split; [exact Hld|].
        split; [|symmetry; apply F_also; assumption].
        pose proof (v_entry _ _ _ HI (jid d) pd Hld) as (_ & _ & [(E & _)|(_ & _ & d2 & Hd2 & Hi2)]); [exact E|].
        exfalso. exact (jid_not_in_group G Hwf d2 d Hd2 Hd Hi2).
      - exists m, pm. auto. }
    destruct Hown as (j & pj & Hlj & Hjob & Hrk).
    assert (Hmin' : forall k, In k (map fst (pending st)) -> rk j <= rk k) by (intros k Hk; rewrite Hrk; apply Hmin; exact Hk).
    pose proof (min_can_run st Hreach Herr j pj Hlj Hmin' Hjob) as Hcan.
    unfold launchable. intro E.
    assert (Hin : In (j, pj) (filter (fun p => negb (palso (snd p)) && negb (prun (snd p)) && can_run st (fst p) (pacc (snd p))) (pending st))).
    { apply filter_In. split; [apply lookup_In; exact Hlj|]. cbn [fst snd]. rewrite Hjob, (Hnorun j pj Hlj), Hcan. reflexivity. }
    apply (in_map fst) in Hin. rewrite E in Hin. destruct Hin.
  Qed.
End Live.

(* for every schedule: after any sequence of events the model admits, either the build is finished, or a
   job is running, or a job can be launched *)
Theorem progress_in_all_schedules G rk evs st :
  wf_graph G -> live_graph G rk = true ->
  run G (init G) evs = Some st -> err st = false ->
  pending st = []
  \/ (exists i pj, lookup i (pending st) = Some pj /\ prun pj = true)
  \/ launchable st <> [].
Proof.
  intros Hwf Hlive Hrun Herr.
  assert (Hcase : pending st = [] \/ pending st <> []) by (destruct (pending st); [left; reflexivity|right; discriminate]).
  destruct Hcase as [E|Hne]; [left; exact E|right].
  destruct (existsb (fun p => prun (snd p)) (pending st)) eqn:Ex.
  - left. apply existsb_exists in Ex as ([i pj] & Hin & Hr). cbn [snd] in Hr.
    assert (Hk : In i (map fst (pending st))) by (apply in_map_iff; exists (i, pj); auto).
    assert (Hreach : reach G st) by (eapply run_reach; [apply reach_init|exact Hrun]).
    destruct (reach_inv G Hwf st Hreach Herr) as [HI _].
    exists i, pj. split; [|exact Hr]. apply lookup_nodup_in; [apply (v_pnd _ _ _ HI)|exact Hin].
  - right. assert (Hreach : reach G st) by (eapply run_reach; [apply reach_init|exact Hrun]).
    apply (never_stuck G Hwf rk Hlive st Hreach Herr); [exact Hne|].
    intros i pj Hl. destruct (prun pj) eqn:Hr; [|reflexivity].
    assert (existsb (fun p => prun (snd p)) (pending st) = true).
    { apply existsb_exists. exists (i, pj). split; [apply lookup_In; exact Hl|exact Hr]. }
    congruence.
Qed.
