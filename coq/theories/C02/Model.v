(* C02 — model of the job scheduler: fontc/src/workload.rs (Workload::insert,
   can_run / is_dep_fulfilled, the launch loop, worker completion, handle_success)
   and fontdrasil/src/orchestration.rs (Access).  Executable definitions only.

   Identifiers and discriminants are interned to N by the harness.  A job graph G
   lists the statically created jobs and, per job, the actions its completion
   handler performs on the scheduler thread (handle_success): jobs it adds, read
   accesses it rewrites, jobs it completes without running (emit_to_binary =
   false).  The scheduler's nondeterminism is the choice of the next event. *)
From Coq Require Import List NArith Bool Arith.
Import ListNotations.
Open Scope N_scope.

Inductive atom := Spec (i : N) | Var (d : N).
Inductive access := ANone | AUnknown | AAll | ASet (l : list atom).

(* a job: its id, discriminant, read access, and the ids it also completes
   (each with its own discriminant) *)
Record jobdecl := mkJob { jid : N; jdisc : N; jacc : access; jalso : list (N * N) }.

Inductive action :=
| Add (d : jobdecl)
| Rewrite (soft : bool) (i : N) (a : access)  (* soft: silently skipped if i is not pending *)
| CompleteNow (i : N).

Record graph := mkGraph { statics : list jobdecl; handlers : list (N * list action) }.

(* ---- association lists ---------------------------------------------------- *)
Fixpoint lookup {A} (k : N) (l : list (N * A)) : option A :=
  match l with
  | [] => None
  | (k', v) :: t => if k' =? k then Some v else lookup k t
  end.

Fixpoint remove_key {A} (k : N) (l : list (N * A)) : list (N * A) :=
  match l with
  | [] => []
  | (k', v) :: t => if k' =? k then remove_key k t else (k', v) :: remove_key k t
  end.

Definition memN (k : N) (l : list N) : bool := existsb (N.eqb k) l.

Definition handler (G : graph) (i : N) : list action :=
  match lookup i (handlers G) with Some a => a | None => [] end.

(* ---- scheduler state --------------------------------------------------------- *)
(* an entry of jobs_pending *)
Record pjob := mkP { pacc : access; prun : bool; palso : bool; pdisc : N; pals : list (N * N) }.

Record state := mkState {
  pending : list (N * pjob);            (* jobs_pending *)
  cnt : N -> nat;                        (* count_pending, per discriminant *)
  success : list N;                      (* success *)
  err : bool;                            (* a scheduler panic was hit *)
  (* ghost history, not used by any decision *)
  g_added : list N;                      (* every id ever inserted *)
  g_launched : list N;                   (* jobs handed to a worker *)
  g_wfin : list N;                       (* ids whose work has finished (counters decremented) *)
}.

Definition upd (f : N -> nat) (k : N) (v : nat) : N -> nat := fun k' => if k' =? k then v else f k'.

(* insert_with_bookkeeping: HashMap::insert overwrites an existing entry *)
Definition insert_bk (st : state) (id : N) (pj : pjob) : state :=
  mkState ((id, pj) :: remove_key id (pending st))
          (upd (cnt st) (pdisc pj) (S (cnt st (pdisc pj))))
          (success st) (err st)
          (id :: g_added st) (g_launched st) (g_wfin st).

(* Workload::insert: pending entries for the also-completes ids first, then the job *)
Definition insert (st : state) (d : jobdecl) : state :=
  let st1 := fold_left (fun s a => insert_bk s (fst a) (mkP (jacc d) false true (snd a) [])) (jalso d) st in
  insert_bk st1 (jid d) (mkP (jacc d) false false (jdisc d) (jalso d)).

Definition set_err (st : state) : state :=
  mkState (pending st) (cnt st) (success st) true (g_added st) (g_launched st) (g_wfin st).

(* complete_one: both panics are error states *)
Definition complete_one (st : state) (id : N) : state :=
  match lookup id (pending st) with
  | None => set_err st
  | Some _ =>
      if memN id (success st) then set_err st
      else mkState (remove_key id (pending st)) (cnt st) (id :: success st) (err st)
                   (g_added st) (g_launched st) (g_wfin st)
  end.

(* complete the job and everything it also completes *)
Definition complete_with_also (st : state) (id : N) : state :=
  match lookup id (pending st) with
  | None => set_err st
  | Some pj => fold_left (fun s a => complete_one s (fst a)) (pals pj) (complete_one st id)
  end.

Definition dec (st : state) (d : N) : state :=
  mkState (pending st) (upd (cnt st) d (Nat.pred (cnt st d))) (success st) (err st)
          (g_added st) (g_launched st) (g_wfin st).

Definition add_wfin (st : state) (ids : list N) : state :=
  mkState (pending st) (cnt st) (success st) (err st) (g_added st) (g_launched st) (ids ++ g_wfin st).

(* the counters a finishing job decrements: its own discriminant and those of its also-completes *)
Definition finish_counters (st : state) (id : N) (pj : pjob) : state :=
  add_wfin (fold_left (fun s a => dec s (snd a)) (pals pj) (dec st (pdisc pj)))
           (id :: map fst (pals pj)).

(* ---- can_run ---------------------------------------------------------------- *)
Definition is_pending (st : state) (i : N) : bool :=
  match lookup i (pending st) with Some _ => true | None => false end.

Definition fulfilled (st : state) (a : atom) : bool :=
  match a with
  | Spec i => negb (is_pending st i)
  | Var d => Nat.eqb (cnt st d) 0
  end.

Definition anything_else_pending (st : state) (i : N) : bool :=
  existsb (fun p => negb (fst p =? i)) (pending st).

Definition can_run (st : state) (i : N) (a : access) : bool :=
  match a with
  | ANone => true
  | AUnknown => false
  | AAll => negb (anything_else_pending st i)
  | ASet l => forallb (fulfilled st) l
  end.

(* ---- events ------------------------------------------------------------------- *)
Inductive event := Launch (i : N) | WFinish (i : N) | Deliver (i : N).

Definition set_pending (st : state) (p : list (N * pjob)) : state :=
  mkState p (cnt st) (success st) (err st) (g_added st) (g_launched st) (g_wfin st).

Fixpoint set_entry (i : N) (pj : pjob) (l : list (N * pjob)) : list (N * pjob) :=
  match l with
  | [] => []
  | (k, v) :: t => if k =? i then (k, pj) :: t else (k, v) :: set_entry i pj t
  end.

Definition do_action (st : state) (a : action) : state :=
  match a with
  | Add d => insert st d
  | Rewrite soft i acc =>
      match lookup i (pending st) with
      | Some pj => set_pending st (set_entry i (mkP acc (prun pj) (palso pj) (pdisc pj) (pals pj)) (pending st))
      | None => if soft then st else set_err st
      end
  | CompleteNow i =>
      (* completing a job that a worker is running makes the later delivery of the worker's
         message panic ("completed but isn't pending"); the model raises the error here *)
      match lookup i (pending st) with
      | Some pj => if palso pj || memN i (g_launched st) then set_err st
                   else complete_with_also (finish_counters st i pj) i
      | None => set_err st
      end
  end.

Definition step (G : graph) (st : state) (e : event) : option state :=
  match e with
  | Launch i =>
      match lookup i (pending st) with
      | Some pj =>
          if palso pj || prun pj || negb (can_run st i (pacc pj)) then None
          else Some (mkState (set_entry i (mkP (pacc pj) true (palso pj) (pdisc pj) (pals pj)) (pending st))
                             (cnt st) (success st) (err st)
                             (g_added st) (i :: g_launched st) (g_wfin st))
      | None => None
      end
  | WFinish i =>
      (* a worker finishes a launched job: decrement the counters at once *)
      match lookup i (pending st) with
      | Some pj =>
          if memN i (g_launched st) && negb (memN i (g_wfin st))
          then Some (finish_counters st i pj) else None
      | None => None
      end
  | Deliver i =>
      (* the scheduler thread receives the completion message and runs handle_success *)
      if memN i (g_launched st) && memN i (g_wfin st) && negb (memN i (success st))
      then Some (fold_left do_action (handler G i) (complete_with_also st i))
      else None
  end.

Definition init (G : graph) : state :=
  fold_left insert (statics G) (mkState [] (fun _ => O) [] false [] [] []).

Fixpoint run (G : graph) (st : state) (evs : list event) : option state :=
  match evs with
  | [] => Some st
  | e :: t => match step G st e with Some st' => run G st' t | None => None end
  end.

(* the jobs update_launchable would return *)
Definition launchable (st : state) : list N :=
  map fst (filter (fun p => negb (palso (snd p)) && negb (prun (snd p)) && can_run st (fst p) (pacc (snd p)))
                  (pending st)).
