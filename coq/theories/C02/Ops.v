(* C02 — what each scheduler primitive does to the state fields. *)
From Coq Require Import List NArith Bool Arith Lia.
From FV.C02 Require Import Model Graph.
Import ListNotations.
Open Scope N_scope.

(* ---- insert_bk / insert ------------------------------------------------------- *)
Definition also_entry (d : jobdecl) (a : N * N) : pjob := mkP (jacc d) false true (snd a) [].
Definition job_entry (d : jobdecl) : pjob := mkP (jacc d) false false (jdisc d) (jalso d).

Definition insert_alsos (st : state) (d : jobdecl) (als : list (N * N)) : state :=
  fold_left (fun s a => insert_bk s (fst a) (also_entry d a)) als st.

Lemma insert_unfold st d : insert st d = insert_bk (insert_alsos st d (jalso d)) (jid d) (job_entry d).
Proof. reflexivity. Qed.

Lemma insert_alsos_fields d als : forall st,
  success (insert_alsos st d als) = success st
  /\ err (insert_alsos st d als) = err st
  /\ g_launched (insert_alsos st d als) = g_launched st
  /\ g_wfin (insert_alsos st d als) = g_wfin st
  /\ g_added (insert_alsos st d als) = rev (map fst als) ++ g_added st.
Proof.
  induction als as [|a als IH]; intro st; cbn [insert_alsos fold_left map rev app].
  - repeat split; reflexivity.
  - destruct (IH (insert_bk st (fst a) (also_entry d a))) as (A & B & C & D & E).
    unfold insert_alsos in *. rewrite A, B, C, D, E. cbn [insert_bk success err g_launched g_wfin g_added].
    repeat split; try reflexivity. rewrite <- app_assoc. reflexivity.
Qed.

Lemma insert_fields st d :
  success (insert st d) = success st
  /\ err (insert st d) = err st
  /\ g_launched (insert st d) = g_launched st
  /\ g_wfin (insert st d) = g_wfin st
  /\ g_added (insert st d) = rev (decl_ids d) ++ g_added st.
Proof.
  rewrite insert_unfold. destruct (insert_alsos_fields d (jalso d) st) as (A & B & C & D & E).
  cbn [insert_bk success err g_launched g_wfin g_added]. rewrite A, B, C, D, E.
  repeat split; try reflexivity. unfold decl_ids. rewrite rev_app_distr. reflexivity.
Qed.

(* keys of pending after inserting *)
Lemma insert_bk_keys st id pj k :
  In k (map fst (pending (insert_bk st id pj))) <-> k = id \/ In k (map fst (pending st)).
Proof.
  cbn [insert_bk pending map fst In]. rewrite in_remove_key.
  destruct (N.eq_dec k id); intuition congruence.
Qed.

Lemma insert_alsos_keys d als : forall st k,
  In k (map fst (pending (insert_alsos st d als))) <-> In k (map fst als) \/ In k (map fst (pending st)).
Proof.
  induction als as [|a als IH]; intros st k; cbn [insert_alsos fold_left map In]; [tauto|].
  unfold insert_alsos in IH. rewrite IH, insert_bk_keys. intuition.
Qed.

Lemma insert_keys st d k :
  In k (map fst (pending (insert st d))) <-> In k (decl_ids d) \/ In k (map fst (pending st)).
Proof.
  rewrite insert_unfold, insert_bk_keys, insert_alsos_keys. unfold decl_ids. rewrite in_app_iff. cbn [In].
  intuition.
Qed.

Lemma insert_bk_nodup st id pj :
  NoDup (map fst (pending st)) -> NoDup (map fst (pending (insert_bk st id pj))).
Proof.
  intro H. cbn [insert_bk pending map fst]. constructor.
  - rewrite in_remove_key. tauto.
  - apply NoDup_remove_key. exact H.
Qed.

Lemma insert_alsos_nodup d als : forall st,
  NoDup (map fst (pending st)) -> NoDup (map fst (pending (insert_alsos st d als))).
Proof.
  induction als as [|a als IH]; intros st H; cbn [insert_alsos fold_left]; [exact H|].
  apply IH. apply insert_bk_nodup. exact H.
Qed.

Lemma insert_nodup st d :
  NoDup (map fst (pending st)) -> NoDup (map fst (pending (insert st d))).
Proof. intro H. rewrite insert_unfold. apply insert_bk_nodup. apply insert_alsos_nodup. exact H. Qed.

(* lookups after inserting *)
Lemma insert_bk_lookup st id pj k :
  lookup k (pending (insert_bk st id pj)) = if id =? k then Some pj else lookup k (pending st).
Proof.
  cbn [insert_bk pending lookup]. destruct (N.eqb_spec id k) as [->|Hne]; [reflexivity|].
  apply lookup_remove_key_ne. congruence.
Qed.

Lemma insert_alsos_lookup_other d als : forall st k, ~ In k (map fst als) ->
  lookup k (pending (insert_alsos st d als)) = lookup k (pending st).
Proof.
  induction als as [|a als IH]; intros st k Hn; cbn [insert_alsos fold_left]; [reflexivity|].
  cbn [map In] in Hn. unfold insert_alsos in IH. rewrite IH by tauto.
  rewrite insert_bk_lookup. destruct (N.eqb_spec (fst a) k); [exfalso; apply Hn; left; assumption|reflexivity].
Qed.

Lemma insert_alsos_lookup_new d als : forall st a, NoDup (map fst als) -> In a als ->
  lookup (fst a) (pending (insert_alsos st d als)) = Some (also_entry d a).
Proof.
  induction als as [|a0 als IH]; intros st a Hnd Hin; [destruct Hin|].
  cbn [map] in Hnd. inversion Hnd as [|? ? Hn Hnd']; subst.
  cbn [insert_alsos fold_left]. destruct Hin as [->|Hin].
  - fold (insert_alsos (insert_bk st (fst a) (also_entry d a)) d als).
    rewrite insert_alsos_lookup_other by exact Hn. rewrite insert_bk_lookup, N.eqb_refl. reflexivity.
  - apply IH; assumption.
Qed.

Lemma insert_lookup_other st d k : ~ In k (decl_ids d) ->
  lookup k (pending (insert st d)) = lookup k (pending st).
Proof.
  intro Hn. unfold decl_ids in Hn. rewrite in_app_iff in Hn. cbn [In] in Hn.
  rewrite insert_unfold, insert_bk_lookup. destruct (N.eqb_spec (jid d) k); [exfalso; apply Hn; right; left; assumption|].
  apply insert_alsos_lookup_other. tauto.
Qed.

Lemma insert_lookup_job st d : lookup (jid d) (pending (insert st d)) = Some (job_entry d).
Proof. rewrite insert_unfold, insert_bk_lookup, N.eqb_refl. reflexivity. Qed.

Lemma insert_lookup_also st d a : NoDup (decl_ids d) -> In a (jalso d) ->
  lookup (fst a) (pending (insert st d)) = Some (also_entry d a).
Proof.
  intros Hnd Hin. unfold decl_ids in Hnd.
  assert (Hne : jid d <> fst a).
  { intro E. apply NoDup_remove_2 in Hnd. rewrite app_nil_r in Hnd. apply Hnd. rewrite E. apply in_map. exact Hin. }
  rewrite insert_unfold, insert_bk_lookup. destruct (N.eqb_spec (jid d) (fst a)); [contradiction|].
  apply insert_alsos_lookup_new; [|exact Hin]. apply NoDup_remove_1 in Hnd. rewrite app_nil_r in Hnd. exact Hnd.
Qed.

(* counters after inserting: one more per inserted id of that discriminant *)
Definition disc_count (d0 : N) (ds : list N) : nat := length (filter (N.eqb d0) ds).

Lemma insert_bk_cnt st id pj d0 :
  cnt (insert_bk st id pj) d0 = (cnt st d0 + if (d0 =? pdisc pj)%N then 1 else 0)%nat.
Proof. cbn [insert_bk cnt]. unfold upd. destruct (N.eqb_spec d0 (pdisc pj)) as [->|]; lia. Qed.

Lemma insert_alsos_cnt d als : forall st d0,
  cnt (insert_alsos st d als) d0 = (cnt st d0 + disc_count d0 (map snd als))%nat.
Proof.
  induction als as [|a als IH]; intros st d0; cbn [insert_alsos fold_left map]; [unfold disc_count; cbn; lia|].
  unfold insert_alsos in IH. rewrite IH, insert_bk_cnt. cbn [also_entry pdisc].
  unfold disc_count. cbn [filter]. destruct (d0 =? snd a); cbn [length]; lia.
Qed.

Lemma insert_cnt st d d0 :
  cnt (insert st d) d0 = (cnt st d0 + disc_count d0 (map snd (jalso d) ++ [jdisc d]))%nat.
Proof.
  rewrite insert_unfold, insert_bk_cnt, insert_alsos_cnt. cbn [job_entry pdisc].
  unfold disc_count. rewrite filter_app, app_length. cbn [filter]. destruct (d0 =? jdisc d); cbn [length]; lia.
Qed.

(* ---- complete_one ---------------------------------------------------------------- *)
Lemma complete_one_ok st id :
  err (complete_one st id) = false ->
  err st = false /\ In id (map fst (pending st)) /\ ~ In id (success st)
  /\ complete_one st id = mkState (remove_key id (pending st)) (cnt st) (id :: success st) (err st)
                                   (g_added st) (g_launched st) (g_wfin st).
Proof.
  unfold complete_one. destruct (lookup id (pending st)) eqn:E; [|cbn; discriminate].
  destruct (memN id (success st)) eqn:M; [cbn; discriminate|]. cbn [err]. intro H.
  split; [exact H|]. split; [apply lookup_Some_in; eexists; exact E|]. split; [apply memN_false; exact M|reflexivity].
Qed.

Lemma set_err_err st : err (set_err st) = true.
Proof. reflexivity. Qed.

(* err is sticky *)
Lemma complete_one_sticky st id : err st = true -> err (complete_one st id) = true.
Proof.
  unfold complete_one. intro H. destruct (lookup id (pending st)); [|reflexivity].
  destruct (memN id (success st)); [reflexivity|exact H].
Qed.

Lemma insert_bk_sticky st id pj : err (insert_bk st id pj) = err st.
Proof. reflexivity. Qed.

Lemma insert_sticky st d : err (insert st d) = err st.
Proof. apply insert_fields. Qed.

Lemma fold_complete_sticky als : forall st, err st = true ->
  err (fold_left (fun s (a : N * N) => complete_one s (fst a)) als st) = true.
Proof. induction als as [|a als IH]; intros st H; cbn [fold_left]; [exact H|]. apply IH. apply complete_one_sticky. exact H. Qed.

Lemma complete_with_also_sticky st id : err st = true -> err (complete_with_also st id) = true.
Proof.
  unfold complete_with_also. intro H. destruct (lookup id (pending st)); [|reflexivity].
  apply fold_complete_sticky. apply complete_one_sticky. exact H.
Qed.

Lemma dec_err st d : err (dec st d) = err st.
Proof. reflexivity. Qed.

Lemma fold_dec_err (als : list (N * N)) : forall st, err (fold_left (fun s a => dec s (snd a)) als st) = err st.
Proof. induction als as [|a als IH]; intro st; cbn [fold_left]; [reflexivity|]. rewrite IH. reflexivity. Qed.

Lemma finish_counters_err st i pj : err (finish_counters st i pj) = err st.
Proof. unfold finish_counters, add_wfin. cbn [err]. rewrite fold_dec_err. reflexivity. Qed.

Lemma do_action_sticky st a : err st = true -> err (do_action st a) = true.
Proof.
  intro H. destruct a as [d|soft i acc|i]; cbn [do_action].
  - rewrite insert_sticky. exact H.
  - destruct (lookup i (pending st)); [exact H|]. destruct soft; [exact H|reflexivity].
  - destruct (lookup i (pending st)) as [p|]; [|reflexivity].
    destruct (palso p || memN i (g_launched st)); [reflexivity|].
    apply complete_with_also_sticky. rewrite finish_counters_err. exact H.
Qed.

Lemma fold_action_sticky acts : forall st, err st = true -> err (fold_left do_action acts st) = true.
Proof. induction acts as [|a acts IH]; intros st H; cbn [fold_left]; [exact H|]. apply IH. apply do_action_sticky. exact H. Qed.
