(* C02 — the completed-twice / completed-but-not-pending panics of complete_one are unreachable when a
   completion message is delivered: for every graph with unique ids and every schedule. *)
From Coq Require Import List NArith Bool Arith Lia.
From FV.C02 Require Import Model Graph GraphFacts Ops Inv Steps Steps2 Steps3 Acc Acc2 Reach.
Import ListNotations.
Open Scope N_scope.

Lemma complete_one_noerr st id : err st = false -> In id (map fst (pending st)) -> ~ In id (success st) ->
  err (complete_one st id) = false
  /\ (forall k, k <> id -> In k (map fst (pending (complete_one st id))) <-> In k (map fst (pending st)))
  /\ (forall k, In k (success (complete_one st id)) <-> k = id \/ In k (success st)).
Proof.
  intros He Hin Hns. unfold complete_one. apply lookup_Some_in in Hin as [pj Hl]. rewrite Hl.
  apply memN_false in Hns. rewrite Hns. cbn [err pending success]. split; [exact He|]. split.
  - intros k Hk. rewrite in_remove_key. tauto.
  - intro k. cbn [In]. split; intros [H|H]; auto.
Qed.

Lemma fold_complete_noerr (ids : list N) : forall st, err st = false -> NoDup ids ->
  (forall k, In k ids -> In k (map fst (pending st)) /\ ~ In k (success st)) ->
  err (fold_left complete_one ids st) = false.
Proof.
  induction ids as [|i ids IH]; intros st He Hnd Hall; cbn [fold_left]; [exact He|].
  inversion Hnd as [|? ? Hni Hnd']; subst.
  destruct (Hall i (or_introl eq_refl)) as [Hp Hs].
  destruct (complete_one_noerr st i He Hp Hs) as (E1 & Hk & Hsu).
  apply IH; [exact E1|exact Hnd'|].
  intros k Hkin. destruct (Hall k (or_intror Hkin)) as [Hkp Hks].
  assert (Hne : k <> i) by (intros ->; contradiction).
  split; [apply Hk; assumption|]. intro H. apply Hsu in H as [H|H]; [contradiction|contradiction].
Qed.

Section NoPanic.
  Variable G : graph.
  Hypothesis Hwf : wf_graph G.

  Theorem delivery_never_panics st i :
    reach G st -> err st = false ->
    In i (g_launched st) -> In i (g_wfin st) -> ~ In i (success st) ->
    err (complete_with_also st i) = false.
  Proof.
    intros Hr He Hl Hw Hns. destruct (reach_inv G Hwf st Hr He) as [HI _].
    assert (Hia : In i (g_added st)) by (apply (v_launched_added _ _ _ HI); exact Hl).
    assert (Hik : In i (map fst (pending st))) by (apply (v_keys _ _ _ HI); split; assumption).
    pose proof Hik as Hik'. apply lookup_Some_in in Hik' as [pj Hlk].
    assert (Hal : palso pj = false).
    { destruct (v_launched_job _ _ _ HI i Hl) as (d & Hd & Hj).
      pose proof (v_entry _ _ _ HI i pj Hlk) as (_ & _ & [(E & _)|(_ & _ & d2 & Hd2 & Hi2)]); [exact E|].
      exfalso. rewrite <- Hj in Hi2. eapply (jid_not_in_group G Hwf); [exact Hd2|exact Hd|exact Hi2]. }
    destruct (job_group G Hwf None st i pj HI Hlk Hal) as (d & Hd & Hj & Hp & Hpd).
    unfold complete_with_also. rewrite Hlk.
    assert (E : fold_left (fun s (a : N * N) => complete_one s (fst a)) (pals pj) (complete_one st i)
                = fold_left complete_one (i :: map fst (pals pj)) st) by (cbn [fold_left]; apply fold_fst).
    rewrite E. apply fold_complete_noerr; [exact He| |].
    - rewrite Hp, <- Hj. constructor; [apply (jid_not_also G Hwf d Hd)|apply (alsos_nodup G Hwf d Hd)].
    - intros k [<-|Hk]; [split; assumption|]. rewrite Hp in Hk.
      destruct (v_group _ _ _ HI d k Hd Hk) as (GA & _ & GS). rewrite Hj in GA, GS.
      assert (Hks : ~ In k (success st)) by (intro H; apply Hns; apply GS; exact H).
      split; [apply (v_keys _ _ _ HI); split; [apply GA; exact Hia|exact Hks]|exact Hks].
  Qed.
End NoPanic.
