(* C02 — failing-input search: an adversarial scheduler for the model.  Given a pair (w, y) that
   safe_graph could not certify, it looks for a schedule in which y starts while w's work has not
   finished: it launches whatever is launchable, lets workers finish (w last), and delivers
   completion messages only when nothing else can happen (the creator of w last of all) - the
   counter-before-delivery window of issues 647/655/1436.  A schedule it returns is checked by
   running it through `run`, so it is a genuine execution of the model. *)
From Coq Require Import List NArith Bool.
From FV.C02 Require Import Model Graph Order Safe LiveCheck.
Import ListNotations.
Open Scope N_scope.

Definition running (st : state) : list N :=
  filter (fun i => negb (memN i (g_wfin st))) (rev (g_launched st)).
Definition deliverable (st : state) : list N :=
  filter (fun i => memN i (g_wfin st) && negb (memN i (success st))) (rev (g_launched st)).

Definition pick_not (avoid : list N) (l : list N) : option N :=
  match filter (fun i => negb (memN i avoid)) l with
  | x :: _ => Some x
  | [] => match l with x :: _ => Some x | [] => None end
  end.

Fixpoint adversary (G : graph) (w y : N) (avoid : list N) (fuel : nat) (st : state) (acc : list event)
  : option (list event) :=
  match fuel with
  | O => None
  | S f =>
      if memN y (launchable st) then
        if memN w (g_wfin st) then None else Some (rev (Launch y :: acc))
      else
        match pick_not [] (launchable st) with
        | Some i => match step G st (Launch i) with
                    | Some st' => adversary G w y avoid f st' (Launch i :: acc)
                    | None => None
                    end
        | None =>
            match pick_not [w] (running st) with
            | Some i => match step G st (WFinish i) with
                        | Some st' => adversary G w y avoid f st' (WFinish i :: acc)
                        | None => None
                        end
            | None =>
                match pick_not avoid (deliverable st) with
                | Some i => match step G st (Deliver i) with
                            | Some st' => if err st' then None else adversary G w y avoid f st' (Deliver i :: acc)
                            | None => None
                            end
                | None => None
                end
            end
        end
  end.

(* delay the delivery of w's creator chain *)
Fixpoint creator_chain (G : graph) (fuel : nat) (i : N) : list N :=
  match fuel with
  | O => []
  | S f => match creator G i with Some c => c :: creator_chain G f c | None => [] end
  end.

Definition bad_schedule (G : graph) (p : N * N) : option (list event) :=
  let '(w, y) := p in
  adversary G w y (creator_chain G 8 w) (4 * length (all_ids G) + 16) (init G) [].

(* the schedule found really is a run of the model in which y has started and w has not finished *)
Definition confirms (G : graph) (p : N * N) (sched : list event) : bool :=
  match run G (init G) sched with
  | Some st => negb (err st) && memN (snd p) (g_launched st) && negb (memN (fst p) (g_wfin st))
  | None => false
  end.

(* ---- search for a stuck state ("unable to proceed") ------------------------------------------ *)
(* a scheduler driven by a fixed policy: `eager` delivers completion messages before launching,
   `lifo` delivers the newest message first, `avoid` lists jobs whose message is delivered last *)
Fixpoint drive (G : graph) (avoid : list N) (eager lifo : bool) (fuel : nat) (st : state) (acc : list event)
  : list event * state :=
  match fuel with
  | O => (rev acc, st)
  | S f =>
      let dl := if lifo then rev (deliverable st) else deliverable st in
      let try_deliver (k : unit -> list event * state) :=
        match pick_not avoid dl with
        | Some i => match step G st (Deliver i) with
                    | Some st' => if err st' then (rev (Deliver i :: acc), st') else drive G avoid eager lifo f st' (Deliver i :: acc)
                    | None => (rev acc, st)
                    end
        | None => k tt
        end in
      let try_launch (k : unit -> list event * state) :=
        match pick_not [] (launchable st) with
        | Some i => match step G st (Launch i) with
                    | Some st' => drive G avoid eager lifo f st' (Launch i :: acc)
                    | None => (rev acc, st)
                    end
        | None => k tt
        end in
      let try_finish (k : unit -> list event * state) :=
        match pick_not [] (running st) with
        | Some i => match step G st (WFinish i) with
                    | Some st' => drive G avoid eager lifo f st' (WFinish i :: acc)
                    | None => (rev acc, st)
                    end
        | None => k tt
        end in
      if eager then try_deliver (fun _ => try_launch (fun _ => try_finish (fun _ => (rev acc, st))))
      else try_launch (fun _ => try_finish (fun _ => try_deliver (fun _ => (rev acc, st))))
  end.

Definition is_stuck (st : state) : bool :=
  negb (err st)
  && match pending st with [] => false | _ => true end
  && match launchable st with [] => true | _ => false end
  && forallb (fun p => negb (prun (snd p))) (pending st).

(* the schedule really is a run of the model that ends with jobs pending, nothing running, nothing launchable *)
Definition confirms_stuck (G : graph) (sched : list event) : bool :=
  match run G (init G) sched with Some st => is_stuck st | None => false end.

Definition stuck_schedule (G : graph) : option (list event) :=
  let fuel := (4 * length (all_ids G) + 16)%nat in
  let policies :=
    flat_map (fun avoid => [(avoid, false, false); (avoid, false, true); (avoid, true, false); (avoid, true, true)])
             ([] :: map (fun h => [fst h]) (handlers G)) in
  let fix first (ps : list (list N * bool * bool)) : option (list event) :=
    match ps with
    | [] => None
    | (avoid, eager, lifo) :: t =>
        let '(sched, st) := drive G avoid eager lifo fuel (init G) [] in
        if is_stuck st && confirms_stuck G sched then Some sched else first t
    end in
  first policies.

(* a schedule that ends in a panic state (a handler's hard rewrite or complete-now action finds its job gone) *)
Definition confirms_panic (G : graph) (sched : list event) : bool :=
  match run G (init G) sched with Some st => err st | None => false end.

Definition panic_schedule (G : graph) : option (list event) :=
  let fuel := (4 * length (all_ids G) + 16)%nat in
  let policies :=
    flat_map (fun avoid => [(avoid, false, false); (avoid, false, true); (avoid, true, false); (avoid, true, true)])
             ([] :: map (fun h => [fst h]) (handlers G)) in
  let fix first (ps : list (list N * bool * bool)) : option (list event) :=
    match ps with
    | [] => None
    | (avoid, eager, lifo) :: t =>
        let '(sched, st) := drive G avoid eager lifo fuel (init G) [] in
        if err st && confirms_panic G sched then Some sched else first t
    end in
  first policies.

Inductive finding :=
| Unordered (w y : N) (schedule : option (list event))
| Stuck (rejected_decls rejected_handlers rejected_statics : list N) (schedule : option (list event))
| Panics (rejected_handlers : list N) (schedule : option (list event)).

(* for a failing instance: the first uncertified pairs, each with a confirmed bad schedule if one is found, and, when
   the progress condition live_graph rejects the graph, what it rejects together with a confirmed stuck schedule *)
Definition search_instance (G : graph) (trace : list event) (order : list N) (pairs hpairs ranks : list (N * N))
  : list finding :=
  map (fun p => match bad_schedule G p with
                | Some s => if confirms G p s then Unordered (fst p) (snd p) (Some s) else Unordered (fst p) (snd p) None
                | None => Unordered (fst p) (snd p) None
                end)
      (firstn 3 (filter (fun p => negb (pair_ok (snd (closure G order)) p)) pairs))
  ++ (if live_ranked G ranks then []
      else let '(a, b, c) := live_failures_ranked G ranks in [Stuck a b c (stuck_schedule G)])
  ++ (if calm_graph G then [] else [Panics (calm_failures G) (panic_schedule G)]).
