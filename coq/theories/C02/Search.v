(* C02 — failing-input search: an adversarial scheduler for the model.  Given a pair (w, y) that
   safe_graph could not certify, it looks for a schedule in which y starts while w's work has not
   finished: it launches whatever is launchable, lets workers finish (w last), and delivers
   completion messages only when nothing else can happen (the creator of w last of all) - the
   counter-before-delivery window of issues 647/655/1436.  A schedule it returns is checked by
   running it through `run`, so it is a genuine execution of the model. *)
From Coq Require Import List NArith Bool.
From FV.C02 Require Import Model Graph Order Safe.
Import ListNotations.
Open Scope N_scope.

Definition running (st : state) : list N :=
  filter (fun i => negb (memN i (g_wfin st))) (rev (g_launched st)).
Definition deliverable (st : state) : list N :=
  filter (fun i => memN i (g_wfin st) && negb (memN i (success st))) (rev (g_launched st)).

Definition pick_not (avoid : list N) (l : list N) : option N :=
  match filter (fun i => negb (memN i avoid)) l with
  | x :: _ => Some x
  | [] => match l with x :: _ => Some x | [] => None end
  end.

Fixpoint adversary (G : graph) (w y : N) (avoid : list N) (fuel : nat) (st : state) (acc : list event)
  : option (list event) :=
  match fuel with
  | O => None
  | S f =>
      if memN y (launchable st) then
        if memN w (g_wfin st) then None else Some (rev (Launch y :: acc))
      else
        match pick_not [] (launchable st) with
        | Some i => match step G st (Launch i) with
                    | Some st' => adversary G w y avoid f st' (Launch i :: acc)
                    | None => None
                    end
        | None =>
            match pick_not [w] (running st) with
            | Some i => match step G st (WFinish i) with
                        | Some st' => adversary G w y avoid f st' (WFinish i :: acc)
                        | None => None
                        end
            | None =>
                match pick_not avoid (deliverable st) with
                | Some i => match step G st (Deliver i) with
                            | Some st' => if err st' then None else adversary G w y avoid f st' (Deliver i :: acc)
                            | None => None
                            end
                | None => None
                end
            end
        end
  end.

(* delay the delivery of w's creator chain *)
Fixpoint creator_chain (G : graph) (fuel : nat) (i : N) : list N :=
  match fuel with
  | O => []
  | S f => match creator G i with Some c => c :: creator_chain G f c | None => [] end
  end.

Definition bad_schedule (G : graph) (p : N * N) : option (list event) :=
  let '(w, y) := p in
  adversary G w y (creator_chain G 8 w) (4 * length (all_ids G) + 16) (init G) [].

(* the schedule found really is a run of the model in which y has started and w has not finished *)
Definition confirms (G : graph) (p : N * N) (sched : list event) : bool :=
  match run G (init G) sched with
  | Some st => negb (err st) && memN (snd p) (g_launched st) && negb (memN (fst p) (g_wfin st))
  | None => false
  end.

(* for a failing instance: the first uncertified pair together with a confirmed bad schedule, if found *)
Definition search_instance (G : graph) (trace : list event) (order : list N) (pairs hpairs : list (N * N))
  : list (N * N * option (list event)) :=
  map (fun p => match bad_schedule G p with
                | Some s => if confirms G p s then (fst p, snd p, Some s) else (fst p, snd p, None)
                | None => (fst p, snd p, None)
                end)
      (firstn 3 (filter (fun p => negb (pair_ok (snd (closure G order)) p)) pairs)).
