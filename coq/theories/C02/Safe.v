(* C02 — the decidable condition safe_graph and its soundness for every schedule. *)
From Coq Require Import List NArith Bool Arith Lia.
From FV.C02 Require Import Model Graph GraphFacts Ops Inv Steps Steps2 Steps3 Acc Acc2 Reach Order.
Import ListNotations.
Open Scope N_scope.

(* Tables.  For a job y two bit sets: D y = ids certainly COMPLETE whenever y has started,
   W y = ids whose work has certainly FINISHED whenever y has started (D y is a subset of W y). *)
Definition tget (t : list (N * N)) (z : N) : N := match lookup z t with Some s => s | None => 0 end.

(* per-id facts, computed once from the graph *)
Record idinfo := mkInfo { i_static : bool; i_creator : option N; i_owner : option N; i_disc : N }.

Definition no_completers (G : graph) (c : N) : bool := match completers_of G c with [] => true | _ => false end.

Definition info_of (G : graph) (i : N) : idinfo :=
  mkInfo (is_static G i)
         (match creator G i with Some c => if no_completers G c then Some c else None | None => None end)
         (owner_of G i) (disc_of G i).

Definition infos (G : graph) : list (N * idinfo) := map (fun i => (i, info_of G i)) (all_ids G).

(* x certainly exists once y has started: static, or created by a handler that ran and is in the set d *)
Definition exists_b (inf : list (N * idinfo)) (d : N) (x : N) : bool :=
  match lookup x inf with
  | Some fi => i_static fi || match i_creator fi with Some c => N.testbit d c | None => false end
  | None => false
  end.

Definition viaD (tD tW : list (N * N)) (z : N) (p : N * N) : N * N :=
  (N.lor (fst p) (N.setbit (tget tD z) z), N.lor (snd p) (N.setbit (tget tW z) z)).
Definition viaW (tD tW : list (N * N)) (z : N) (p : N * N) : N * N :=
  (N.lor (fst p) (tget tD z), N.lor (snd p) (N.setbit (tget tW z) z)).

(* a variant dependency on discriminant d: every certainly-existing id of that discriminant has finished *)
Definition var_step (inf : list (N * idinfo)) (tD tW : list (N * N)) (d : N) (p : N * N) : N * N :=
  fold_left (fun p zi =>
               let '(z, fi) := zi in
               if (i_disc fi =? d) && exists_b inf (fst p) z then
                 match i_owner fi with
                 | Some o => viaW tD tW o (fst p, N.setbit (snd p) z)
                 | None => viaW tD tW z p
                 end
               else p) inf p.

Definition atom_step (inf : list (N * idinfo)) (tD tW : list (N * N)) (p : N * N) (a : atom) : N * N :=
  match a with
  | Spec x => if exists_b inf (fst p) x then
                match lookup x inf with
                | Some fi => match i_owner fi with
                             | Some o => viaD tD tW o (viaD tD tW x p)   (* x is an also-completes id of o *)
                             | None => viaD tD tW x p
                             end
                | None => viaD tD tW x p
                end
              else p
  | Var d => var_step inf tD tW d p
  end.

Fixpoint iter {A} (n : nat) (f : A -> A) (s : A) : A := match n with O => s | S k => iter k f (f s) end.

Definition deps (inf : list (N * idinfo)) (tD tW : list (N * N)) (a : access) (p : N * N) : N * N :=
  match a with
  | ASet l => iter 2 (fun p => fold_left (atom_step inf tD tW) l p) p
  | _ => p
  end.

Definition entry (G : graph) (inf : list (N * idinfo)) (tD tW : list (N * N)) (y : N) : N * N :=
  match owner_of G y with
  | Some o => viaD tD tW o (0, 0)
  | None =>
      let p0 := match creator G y with Some c => viaD tD tW c (0, 0) | None => (0, 0) end in
      match shape_of G y with
      | ShapeC c => viaD tD tW c p0
      | ShapeB g a => deps inf tD tW a (viaD tD tW g p0)
      | ShapeA a => deps inf tD tW a p0
      | _ => p0
      end
  end.

Definition closure (G : graph) (order : list N) : list (N * N) * list (N * N) :=
  let inf := infos G in
  fold_left (fun t y => let e := entry G inf (fst t) (snd t) y in ((y, fst e) :: fst t, (y, snd e) :: snd t))
            order ([], []).

(* (w, y): w's work has certainly finished whenever y has started *)
Definition pair_ok (tW : list (N * N)) (p : N * N) : bool := let '(w, y) := p in N.testbit (tget tW y) w.

Fixpoint nodupb (l : list N) : bool :=
  match l with [] => true | x :: t => negb (memN x t) && nodupb t end.

Definition wf_graphb (G : graph) : bool :=
  nodupb (all_ids G) && nodupb (map fst (handlers G))
  && forallb (fun c => negb (memN c (also_ids G))) (map fst (handlers G)).

Definition safe_graph (G : graph) (order : list N) (pairs : list (N * N)) : bool :=
  wf_graphb G && forallb (pair_ok (snd (closure G order))) pairs.

Lemma nodupb_sound l : nodupb l = true -> NoDup l.
Proof.
  induction l as [|x l IH]; cbn [nodupb]; intro H; [constructor|].
  apply andb_true_iff in H as [H1 H2]. constructor; [apply memN_false; apply negb_true_iff; exact H1|apply IH; exact H2].
Qed.

Lemma wf_graphb_sound G : wf_graphb G = true -> wf_graph G.
Proof.
  unfold wf_graphb, wf_graph. intro H. apply andb_true_iff in H as [H H3]. apply andb_true_iff in H as [H1 H2].
  split; [apply nodupb_sound; exact H1|]. split; [apply nodupb_sound; exact H2|].
  intros c Hc. rewrite forallb_forall in H3. specialize (H3 c Hc). apply negb_true_iff in H3. apply memN_false. exact H3.
Qed.

Section Safe.
  Variable G : graph.
  Hypothesis Hwf : wf_graph G.
  Notation before := (before G).
  Notation reach := (reach G).

  Notation wfin_before := (wfin_before G).

  Definition soundD (y : N) (s : N) : Prop := forall x, N.testbit s x = true -> before x y.
  Definition soundW (y : N) (s : N) : Prop := forall x, N.testbit s x = true -> wfin_before x y.
  Definition sound (y : N) (p : N * N) : Prop := soundD y (fst p) /\ soundW y (snd p).

  Definition tbl_sound (tD tW : list (N * N)) : Prop :=
    (forall z s, lookup z tD = Some s -> soundD z s) /\ (forall z s, lookup z tW = Some s -> soundW z s).

  Lemma tgetD_sound tD tW z : tbl_sound tD tW -> soundD z (tget tD z).
  Proof.
    intros [Ht _] x Hx. unfold tget in Hx. destruct (lookup z tD) as [s|] eqn:E; [exact (Ht z s E x Hx)|].
    rewrite N.bits_0 in Hx. discriminate.
  Qed.

  Lemma tgetW_sound tD tW z : tbl_sound tD tW -> soundW z (tget tW z).
  Proof.
    intros [_ Ht] x Hx. unfold tget in Hx. destruct (lookup z tW) as [s|] eqn:E; [exact (Ht z s E x Hx)|].
    rewrite N.bits_0 in Hx. discriminate.
  Qed.

  Lemma zero_sound y : sound y (0, 0).
  Proof. split; intros x Hx; cbn [fst snd] in Hx; rewrite N.bits_0 in Hx; discriminate. Qed.

  (* z is complete before y: everything known about z carries over *)
  Lemma viaD_sound tD tW z y p : tbl_sound tD tW -> before z y -> sound y p -> sound y (viaD tD tW z p).
  Proof.
    intros Ht Hzy [HD HW]. split; cbn [viaD fst snd]; intros x Hx; rewrite N.lor_spec in Hx; apply orb_true_iff in Hx as [Hx|Hx].
    - apply HD. exact Hx.
    - apply N.setbit_iff in Hx as [<-|Hx]; [exact Hzy|].
      eapply before_trans; [exact Hzy|exact (tgetD_sound tD tW z Ht x Hx)].
    - apply HW. exact Hx.
    - apply N.setbit_iff in Hx as [<-|Hx]; [apply (before_wfin G Hwf); exact Hzy|].
      intros st Hr He Hs. apply (tgetW_sound tD tW z Ht x Hx st Hr He). right. exact (Hzy st Hr He Hs).
  Qed.

  (* a job whose work has finished has started *)
  Lemma wfin_started st z : reach st -> err st = false -> owner_of G z = None -> In z (g_wfin st) -> started st z.
  Proof.
    intros Hr He Hown Hw. destruct (reach_inv G Hwf st Hr He) as [HI _].
    assert (Hza : In z (g_added st)) by (apply (v_wfin_added _ _ _ HI); exact Hw).
    destruct (added_decl G Hwf st z Hr He Hza) as (d & Hd & Hzd). unfold decl_ids in Hzd. apply in_app_or in Hzd as [Hal|[E|[]]].
    - exfalso. exact (owner_none G z d Hown Hd Hal).
    - subst z. exact (v_wfin_src _ _ _ HI d Hd Hw).
  Qed.

  (* z's work has finished before y starts (z a job): everything known about z carries over *)
  Lemma viaW_sound tD tW z y p : tbl_sound tD tW -> wfin_before z y -> owner_of G z = None ->
    sound y p -> sound y (viaW tD tW z p).
  Proof.
    intros Ht Hzy Hown [HD HW]. split; cbn [viaW fst snd]; intros x Hx; rewrite N.lor_spec in Hx; apply orb_true_iff in Hx as [Hx|Hx].
    - apply HD. exact Hx.
    - intros st Hr He Hs. apply (tgetD_sound tD tW z Ht x Hx st Hr He).
      apply (wfin_started st z Hr He Hown). exact (Hzy st Hr He Hs).
    - apply HW. exact Hx.
    - apply N.setbit_iff in Hx as [<-|Hx]; [exact Hzy|].
      intros st Hr He Hs. apply (tgetW_sound tD tW z Ht x Hx st Hr He).
      apply (wfin_started st z Hr He Hown). exact (Hzy st Hr He Hs).
  Qed.

  Lemma lookup_infos i fi : lookup i (infos G) = Some fi -> fi = info_of G i.
  Proof.
    unfold infos. induction (all_ids G) as [|k l IH]; cbn [map lookup]; [discriminate|].
    destruct (N.eqb_spec k i) as [->|_]; [intro H; injection H as <-; reflexivity|exact IH].
  Qed.

  Lemma in_infos z fi : In (z, fi) (infos G) -> fi = info_of G z.
  Proof. unfold infos. intro H. apply in_map_iff in H as (k & E & _). injection E as <- <-. reflexivity. Qed.

  Lemma exists_b_sound y d x : soundD y d -> exists_b (infos G) d x = true -> exists_before G x y.
  Proof.
    intros Hs H. unfold exists_b in H. destruct (lookup x (infos G)) as [fi|] eqn:E; [|discriminate].
    apply lookup_infos in E. subst fi. cbn [info_of i_static i_creator] in H.
    apply orb_true_iff in H as [H|H]; [left; exact H|].
    destruct (creator G x) as [c|] eqn:Ec; [|discriminate].
    destruct (no_completers G c) eqn:En; [|discriminate].
    right. exists c. split; [exact Ec|]. split; [|apply Hs; exact H].
    unfold no_completers in En. destruct (completers_of G c); [reflexivity|discriminate].
  Qed.

  (* an also-completes id finishes together with its owner *)
  Lemma wfin_owner z o y : owner_of G z = Some o -> wfin_before z y -> wfin_before o y.
  Proof.
    intros Ho Hz st Hr He Hs. destruct (owner_spec G z o Ho) as (d & Hd & <- & Hzd).
    destruct (reach_inv G Hwf st Hr He) as [HI _]. apply (v_group _ _ _ HI d z Hd Hzd). exact (Hz st Hr He Hs).
  Qed.

  Lemma before_also_owner z o y : owner_of G z = Some o -> before z y -> before o y.
  Proof.
    intros Ho Hz st Hr He Hs. destruct (owner_spec G z o Ho) as (d & Hd & <- & Hzd).
    destruct (reach_inv G Hwf st Hr He) as [HI _]. apply (v_group _ _ _ HI d z Hd Hzd). exact (Hz st Hr He Hs).
  Qed.

  Lemma owner_is_job z o : owner_of G z = Some o -> owner_of G o = None.
  Proof.
    intro Ho. destruct (owner_spec G z o Ho) as (d & Hd & <- & _).
    destruct (owner_of G (jid d)) as [o2|] eqn:E; [|reflexivity]. exfalso.
    destruct (owner_spec G (jid d) o2 E) as (d2 & Hd2 & _ & Hin).
    eapply (jid_not_in_group G Hwf); [exact Hd2|exact Hd|exact Hin].
  Qed.

  Lemma var_step_sound tD tW y l d p : tbl_sound tD tW -> launch_acc G y = Some (ASet l) -> owner_of G y = None ->
    In (Var d) l -> sound y p -> sound y (var_step (infos G) tD tW d p).
  Proof.
    intros Ht Hla Hown Hin. unfold var_step.
    assert (Hgen : forall zs p, incl zs (infos G) -> sound y p ->
              sound y (fold_left (fun p zi => let '(z, fi) := zi in
                 if (i_disc fi =? d) && exists_b (infos G) (fst p) z then
                   match i_owner fi with Some o => viaW tD tW o (fst p, N.setbit (snd p) z) | None => viaW tD tW z p end
                 else p) zs p)).
    { induction zs as [|[z fi] zs IH]; intros q Hi Hq; cbn [fold_left]; [exact Hq|].
      apply IH; [intros k Hk; apply Hi; right; exact Hk|].
      destruct ((i_disc fi =? d) && exists_b (infos G) (fst q) z) eqn:Eg; [|exact Hq].
      apply andb_true_iff in Eg as [Ed Eb]. apply N.eqb_eq in Ed.
      assert (Hfi : fi = info_of G z) by (apply in_infos; apply Hi; left; reflexivity). subst fi.
      cbn [info_of i_disc i_owner] in *.
      assert (Hzw : wfin_before z y).
      { apply (wfin_var G Hwf y l z Hla Hown); [rewrite Ed; exact Hin|]. eapply exists_b_sound; [apply Hq|exact Eb]. }
      destruct (owner_of G z) as [o|] eqn:Eo.
      - apply viaW_sound; [exact Ht|eapply wfin_owner; eassumption|eapply owner_is_job; exact Eo|].
        destruct Hq as [HD HW]. split; cbn [fst snd]; [exact HD|].
        intros x Hx. apply N.setbit_iff in Hx as [<-|Hx]; [exact Hzw|apply HW; exact Hx].
      - apply viaW_sound; assumption. }
    intros Hp. apply Hgen; [apply incl_refl|exact Hp].
  Qed.

  Lemma deps_sound tD tW y a l p : tbl_sound tD tW -> launch_acc G y = Some (ASet l) -> owner_of G y = None ->
    a = ASet l -> sound y p -> sound y (deps (infos G) tD tW a p).
  Proof.
    intros Ht Hla Hown -> Hp. unfold deps.
    assert (Hfold : forall l' q, incl l' l -> sound y q -> sound y (fold_left (atom_step (infos G) tD tW) l' q)).
    { induction l' as [|a l' IH]; intros q Hi Hq; cbn [fold_left]; [exact Hq|].
      apply IH; [intros z Hz; apply Hi; right; exact Hz|].
      destruct a as [x|d]; cbn [atom_step].
      - destruct (exists_b (infos G) (fst q) x) eqn:Eb; [|exact Hq].
        assert (Hxy : before x y).
        { apply (before_spec G Hwf y l x Hla Hown); [apply Hi; left; reflexivity|].
          eapply exists_b_sound; [apply Hq|exact Eb]. }
        destruct (lookup x (infos G)) as [fi|] eqn:El; [|apply viaD_sound; assumption].
        apply lookup_infos in El. subst fi. cbn [info_of i_owner].
        destruct (owner_of G x) as [o|] eqn:Eo; [|apply viaD_sound; assumption].
        apply viaD_sound; [exact Ht|eapply before_also_owner; eassumption|apply viaD_sound; assumption].
      - eapply var_step_sound; try eassumption. apply Hi. left. reflexivity. }
    cbn [iter]. apply Hfold; [apply incl_refl|]. apply Hfold; [apply incl_refl|exact Hp].
  Qed.

  Lemma entry_sound tD tW y : tbl_sound tD tW -> sound y (entry G (infos G) tD tW y).
  Proof.
    intro Ht. unfold entry. destruct (owner_of G y) as [o|] eqn:Eo.
    - apply viaD_sound; [exact Ht|apply (before_owner G Hwf); exact Eo|apply zero_sound].
    - assert (Hs0 : sound y (match creator G y with Some c => viaD tD tW c (0, 0) | None => (0, 0) end)).
      { destruct (creator G y) as [c|] eqn:Ec; [|apply zero_sound].
        apply viaD_sound; [exact Ht|apply (before_creator G Hwf); exact Ec|apply zero_sound]. }
      destruct (shape_of G y) as [a|g a|c| |] eqn:Es; try exact Hs0.
      + destruct a as [| | |l]; try exact Hs0.
        eapply deps_sound; [exact Ht| |exact Eo|reflexivity|exact Hs0]. unfold launch_acc. rewrite Es. reflexivity.
      + assert (Hs1 : sound y (viaD tD tW g (match creator G y with Some c => viaD tD tW c (0, 0) | None => (0, 0) end))).
        { apply viaD_sound; [exact Ht|eapply (before_gate G Hwf); eassumption|exact Hs0]. }
        destruct a as [| | |l]; try exact Hs1.
        eapply deps_sound; [exact Ht| |exact Eo|reflexivity|exact Hs1]. unfold launch_acc. rewrite Es. reflexivity.
      + apply viaD_sound; [exact Ht|eapply (before_completer G Hwf); eassumption|exact Hs0].
  Qed.

  Lemma closure_sound order : tbl_sound (fst (closure G order)) (snd (closure G order)).
  Proof.
    unfold closure.
    assert (H : forall t, tbl_sound (fst t) (snd t) ->
              tbl_sound (fst (fold_left (fun t y => let e := entry G (infos G) (fst t) (snd t) y in
                                                   ((y, fst e) :: fst t, (y, snd e) :: snd t)) order t))
                        (snd (fold_left (fun t y => let e := entry G (infos G) (fst t) (snd t) y in
                                                   ((y, fst e) :: fst t, (y, snd e) :: snd t)) order t))).
    { induction order as [|y order IH]; intros t Ht; cbn [fold_left]; [exact Ht|].
      apply IH. cbn [fst snd]. pose proof (entry_sound (fst t) (snd t) y Ht) as [ED EW]. destruct Ht as [HtD HtW].
      split; intros z s Hl; cbn [lookup] in Hl; destruct (N.eqb_spec y z) as [->|_].
      - injection Hl as <-. exact ED.
      - exact (HtD z s Hl).
      - injection Hl as <-. exact EW.
      - exact (HtW z s Hl). }
    apply H. split; intros z s Hl; discriminate.
  Qed.

  Lemma pair_ok_sound tD tW w y : tbl_sound tD tW -> pair_ok tW (w, y) = true -> wfin_before w y.
  Proof. intros Ht H. cbn [pair_ok] in H. exact (tgetW_sound tD tW y Ht w H). Qed.
End Safe.

(* ---- the theorems ------------------------------------------------------------------------------ *)

(* For every job graph accepted by safe_graph, in every state the scheduler can reach by any
   interleaving of launches, worker completions and message deliveries without having panicked,
   each listed pair (w, y) is ordered: if y has started, w's work has finished. *)
Theorem sched_safe : forall G order pairs, safe_graph G order pairs = true ->
  forall evs st, run G (init G) evs = Some st -> err st = false ->
  forall w y, In (w, y) pairs -> started st y -> In w (g_wfin st).
Proof.
  intros G order pairs Hs evs st Hr He w y Hin Hst.
  unfold safe_graph in Hs. apply andb_true_iff in Hs as [Hw Hp]. apply wf_graphb_sound in Hw.
  rewrite forallb_forall in Hp. specialize (Hp (w, y) Hin).
  pose proof (pair_ok_sound G (fst (closure G order)) (snd (closure G order)) w y (closure_sound G Hw order) Hp) as H.
  apply (H st); [eapply run_reach; [apply reach_init|exact Hr]|exact He|exact Hst].
Qed.

(* The scheduler's bookkeeping is exact in every reachable non-panicked state: pending = inserted and
   not complete; each per-discriminant counter = number of inserted ids of that discriminant whose
   work has not finished; complete => finished => inserted. *)
Theorem sched_bookkeeping : forall G, wf_graph G ->
  forall evs st, run G (init G) evs = Some st -> err st = false ->
  (forall i, In i (map fst (pending st)) <-> In i (g_added st) /\ ~ In i (success st))
  /\ (forall d, cnt st d = count_open G (g_added st) (g_wfin st) d)
  /\ incl (success st) (g_wfin st) /\ incl (g_wfin st) (g_added st)
  /\ NoDup (map fst (pending st)) /\ NoDup (g_added st).
Proof.
  intros G Hwf evs st Hr He. pose proof (reachable_inv G Hwf evs st Hr He) as HI.
  split; [apply HI|]. split; [apply HI|]. split; [apply HI|]. split; [apply HI|]. split; apply HI.
Qed.

(* What a launch means: when a job is launched, every specific dependency that exists is complete and
   every id of a discriminant it depends on as a variant has finished its work. *)
Theorem launch_semantics : forall G, wf_graph G ->
  forall evs st i pj, run G (init G) evs = Some st -> err st = false ->
  lookup i (pending st) = Some pj -> can_run st i (pacc pj) = true ->
  forall l, pacc pj = ASet l ->
  (forall x, In (Spec x) l -> In x (g_added st) -> In x (success st))
  /\ (forall d x, In (Var d) l -> In x (g_added st) -> disc_of G x = d -> In x (g_wfin st)).
Proof.
  intros G Hwf evs st i pj Hr He Hl Hcr l Hpa. pose proof (reachable_inv G Hwf evs st Hr He) as HI.
  rewrite Hpa in Hcr. cbn [can_run] in Hcr. rewrite forallb_forall in Hcr. split.
  - intros x Hx Hxa. specialize (Hcr _ Hx). cbn [fulfilled] in Hcr. apply negb_true_iff in Hcr. unfold is_pending in Hcr.
    destruct (in_dec N.eq_dec x (success st)) as [Hy|Hn]; [exact Hy|exfalso].
    assert (Hk : In x (map fst (pending st))) by (apply (v_keys _ _ _ HI); split; assumption).
    apply lookup_Some_in in Hk as [v Hv]. rewrite Hv in Hcr. discriminate.
  - intros d x Hd Hxa Hdx. specialize (Hcr _ Hd). cbn [fulfilled] in Hcr. apply Nat.eqb_eq in Hcr.
    rewrite (v_cnt _ _ _ HI) in Hcr. unfold count_open in Hcr. apply length_zero_iff_nil in Hcr.
    destruct (in_dec N.eq_dec x (g_wfin st)) as [Hy|Hn]; [exact Hy|exfalso].
    assert (Hf : In x (filter (is_open G (g_wfin st) d) (g_added st))).
    { apply filter_In. split; [exact Hxa|]. unfold is_open. rewrite Hdx, N.eqb_refl. apply memN_false in Hn. rewrite Hn. reflexivity. }
    rewrite Hcr in Hf. destruct Hf.
Qed.

(* the same fact in terms of reachable states *)
Lemma safe_graph_pairs G order pairs : safe_graph G order pairs = true ->
  wf_graph G /\ forall w y, In (w, y) pairs -> wfin_before G w y.
Proof.
  intro Hs. unfold safe_graph in Hs. apply andb_true_iff in Hs as [Hw Hp]. apply wf_graphb_sound in Hw.
  split; [exact Hw|]. intros w y Hin. rewrite forallb_forall in Hp. specialize (Hp (w, y) Hin).
  exact (pair_ok_sound G (fst (closure G order)) (snd (closure G order)) w y (closure_sound G Hw order) Hp).
Qed.
