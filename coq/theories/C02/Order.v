(* C02 — forced orderings: which jobs are certainly complete whenever a job has started. *)
From Coq Require Import List NArith Bool Arith Lia.
From FV.C02 Require Import Model Graph GraphFacts Ops Inv Steps Steps2 Steps3 Acc Acc2 Reach.
Import ListNotations.
Open Scope N_scope.

(* ---- executable descriptions of the graph ------------------------------------------------- *)
Definition creator (G : graph) (j : N) : option N :=
  match filter (fun h => memN j (add_ids (snd h))) (handlers G) with
  | h :: _ => Some (fst h)
  | [] => None
  end.

Definition is_static (G : graph) (j : N) : bool := memN j (static_ids G).

Definition rewrites_in (j : N) (c : N) (acts : list action) : list (N * access) :=
  flat_map (fun a => match a with Rewrite _ k acc => if k =? j then [(c, acc)] else [] | _ => [] end) acts.
Definition rewrites_of (G : graph) (j : N) : list (N * access) :=
  flat_map (fun h => rewrites_in j (fst h) (snd h)) (handlers G).

Definition completes_in (j : N) (c : N) (acts : list action) : list N :=
  flat_map (fun a => match a with CompleteNow k => if k =? j then [c] else [] | _ => [] end) acts.
Definition completers_of (G : graph) (j : N) : list N :=
  flat_map (fun h => completes_in j (fst h) (snd h)) (handlers G).

Definition owner_of (G : graph) (j : N) : option N :=
  match filter (fun d => memN j (map fst (jalso d))) (all_decls G) with
  | d :: _ => Some (jid d)
  | [] => None
  end.

(* the read access a job has when it is launched, for the three shapes that occur:
   A: never rewritten, inserted with a known access;
   B: inserted with Unknown, rewritten by exactly one handler (its gate);
   C: inserted with Unknown, never rewritten, completed without running by one handler. *)
Inductive shape := ShapeA (a : access) | ShapeB (g : N) (a : access) | ShapeC (c : N) | ShapeNever | ShapeBad.

Definition is_unknown (a : access) : bool := match a with AUnknown => true | _ => false end.

Definition shape_of (G : graph) (y : N) : shape :=
  match rewrites_of G y, completers_of G y with
  | [], [] => if is_unknown (init_acc G y) then ShapeNever else ShapeA (init_acc G y)
  | [(g, a)], [] => if is_unknown (init_acc G y) then ShapeB g a else ShapeBad
  | [], [c] => if is_unknown (init_acc G y) then ShapeC c else ShapeBad
  | _, _ => ShapeBad
  end.

Section Order.
  Variable G : graph.
  Hypothesis Hwf : wf_graph G.
  Notation Inv := (Inv G).
  Notation Inv2 := (Inv2 G).
  Notation reach := (reach G).

  Definition started (st : state) (y : N) : Prop := In y (g_launched st) \/ In y (success st).

  (* whenever y has started, x is complete *)
  Definition before (x y : N) : Prop :=
    forall st, reach st -> err st = false -> started st y -> In x (success st).

  Lemma before_trans x z y : before z y -> before x z -> before x y.
  Proof. intros H1 H2 st Hr He Hs. apply (H2 st Hr He). right. apply (H1 st Hr He Hs). Qed.

  (* ---- facts about the executable descriptions ----------------------------------------------- *)
  Lemma creator_spec j c : creator G j = Some c -> In j (add_ids (handler G c)).
  Proof.
    unfold creator. destruct (filter _ (handlers G)) as [|h t] eqn:E; [discriminate|]. intro H. injection H as <-.
    assert (Hin : In h (filter (fun h => memN j (add_ids (snd h))) (handlers G))) by (rewrite E; left; reflexivity).
    apply filter_In in Hin as [Hh Hm]. apply memN_In in Hm.
    destruct Hwf as (_ & Hk & _). unfold handler.
    assert (El : lookup (fst h) (handlers G) = Some (snd h)).
    { clear -Hh Hk. induction (handlers G) as [|[k v] l IH]; [destruct Hh|]. cbn [map fst] in Hk. inversion Hk as [|? ? Hn Hk']; subst.
      cbn [lookup]. destruct Hh as [<-|Hh]; cbn [fst snd]; [rewrite N.eqb_refl; reflexivity|].
      destruct (N.eqb_spec k (fst h)) as [->|_]; [exfalso; apply Hn; apply in_map; exact Hh|apply IH; assumption]. }
    rewrite El. exact Hm.
  Qed.

  Lemma handler_entry c : handler G c <> [] -> In (c, handler G c) (handlers G).
  Proof. apply handler_in. Qed.

  Lemma rewrite_listed c soft y acc : In (Rewrite soft y acc) (handler G c) -> In (c, acc) (rewrites_of G y).
  Proof.
    intro H. unfold rewrites_of. apply in_flat_map. exists (c, handler G c). split.
    - apply handler_entry. intro E. rewrite E in H. destruct H.
    - cbn [fst snd]. unfold rewrites_in. apply in_flat_map. exists (Rewrite soft y acc). split; [exact H|].
      rewrite N.eqb_refl. left. reflexivity.
  Qed.

  Lemma complete_listed c y : In (CompleteNow y) (handler G c) -> In c (completers_of G y).
  Proof.
    intro H. unfold completers_of. apply in_flat_map. exists (c, handler G c). split.
    - apply handler_entry. intro E. rewrite E in H. destruct H.
    - cbn [fst snd]. unfold completes_in. apply in_flat_map. exists (CompleteNow y). split; [exact H|].
      rewrite N.eqb_refl. left. reflexivity.
  Qed.

  Lemma owner_spec j o : owner_of G j = Some o ->
    exists d, In d (all_decls G) /\ jid d = o /\ In j (map fst (jalso d)).
  Proof.
    unfold owner_of. destruct (filter _ (all_decls G)) as [|d t] eqn:E; [discriminate|]. intro H. injection H as <-.
    assert (Hin : In d (filter (fun d => memN j (map fst (jalso d))) (all_decls G))) by (rewrite E; left; reflexivity).
    apply filter_In in Hin as [Hd Hm]. apply memN_In in Hm. exists d. repeat split; assumption.
  Qed.

  Lemma owner_none j d : owner_of G j = None -> In d (all_decls G) -> ~ In j (map fst (jalso d)).
  Proof.
    unfold owner_of. destruct (filter _ (all_decls G)) as [|d0 t] eqn:E; [|discriminate]. intros _ Hd Hin.
    assert (Hf : In d (filter (fun d => memN j (map fst (jalso d))) (all_decls G))).
    { apply filter_In. split; [exact Hd|apply memN_In; exact Hin]. }
    rewrite E in Hf. destruct Hf.
  Qed.

  (* ---- what the invariants say about started jobs ---------------------------------------------- *)
  Lemma started_added st y : reach st -> err st = false -> started st y -> In y (g_added st).
  Proof.
    intros Hr He [H|H]; destruct (reach_inv G Hwf st Hr He) as [HI _].
    - apply (v_launched_added _ _ _ HI). exact H.
    - apply (v_wfin_added _ _ _ HI). apply (v_succ_wfin _ _ _ HI). exact H.
  Qed.

  (* an id present in the graph is an id of some declaration *)
  Lemma added_decl st y : reach st -> err st = false -> In y (g_added st) ->
    exists d, In d (all_decls G) /\ In y (decl_ids d).
  Proof.
    intros Hr He Hy. destruct (reach_inv G Hwf st Hr He) as [HI _].
    destruct (v_created _ _ _ HI y Hy) as [Hs|(c & _ & _ & Hc)].
    - unfold static_ids in Hs. apply in_flat_map in Hs as (d & Hd & Hyd). exists d. split; [apply (static_decl_in G); exact Hd|exact Hyd].
    - cbn [done_of] in Hc. unfold add_ids in Hc. apply in_flat_map in Hc as (d & Hd & Hyd). exists d.
      split; [eapply (handler_decl_in G); exact Hd|exact Hyd].
  Qed.

  (* B1: the creator of a dynamically added job is complete *)
  Lemma before_creator y c : creator G y = Some c -> before c y.
  Proof.
    intros Hc st Hr He Hs. pose proof (started_added st y Hr He Hs) as Hya.
    destruct (reach_inv G Hwf st Hr He) as [HI _].
    apply creator_spec in Hc.
    destruct (v_created _ _ _ HI y Hya) as [Hst|(c' & Hc1 & _ & Hc3)].
    - exfalso. eapply (static_handler_disjoint G Hwf); eassumption.
    - cbn [done_of] in Hc3. assert (c' = c) by (eapply (handlers_disjoint G Hwf); eassumption). subst c'. exact Hc1.
  Qed.

  (* B5: an also-completes id is complete exactly when its owner is *)
  Lemma before_owner y o : owner_of G y = Some o -> before o y.
  Proof.
    intros Ho st Hr He Hs. destruct (owner_spec y o Ho) as (d & Hd & <- & Hy).
    destruct (reach_inv G Hwf st Hr He) as [HI _].
    destruct Hs as [Hl|Hsu].
    - exfalso. destruct (v_launched_job _ _ _ HI y Hl) as (d2 & Hd2 & Hj2). rewrite <- Hj2 in Hy.
      eapply (jid_not_in_group G Hwf); [exact Hd|exact Hd2|exact Hy].
    - apply (v_group _ _ _ HI d y Hd Hy). exact Hsu.
  Qed.

  (* the access a job is launched with *)
  Lemma launch_access st0 y pj : reach st0 -> err st0 = false ->
    lookup y (pending st0) = Some pj -> can_run st0 y (pacc pj) = true ->
    match shape_of G y with
    | ShapeA a => pacc pj = a
    | ShapeB g a => pacc pj = a /\ In g (success st0)
    | ShapeC _ | ShapeNever => False
    | ShapeBad => True
    end.
  Proof.
    intros Hr He Hl Hcr. destruct (reach_inv G Hwf st0 Hr He) as [_ HI2].
    assert (Hnu : pacc pj <> AUnknown) by (intro E; rewrite E in Hcr; discriminate).
    destruct (w_acc _ _ _ HI2 y pj Hl) as [Hi|(c & soft & [Hcs _] & Hrw)].
    - (* still the inserted access *)
      unfold shape_of. destruct (rewrites_of G y) as [|[g a] [|]]; destruct (completers_of G y) as [|c [|]];
        try exact I; destruct (init_acc G y) eqn:E; cbn [is_unknown]; try exact I; try (exfalso; apply Hnu; congruence); congruence.
    - cbn [done_of] in Hrw. apply rewrite_listed in Hrw.
      unfold shape_of. destruct (rewrites_of G y) as [|[g a] [|]] eqn:Er; [destruct Hrw| |destruct (completers_of G y) as [|? [|]]; exact I].
      destruct Hrw as [E|[]]. injection E as <- <-.
      destruct (completers_of G y) as [|c0 [|]]; try exact I.
      destruct (is_unknown (init_acc G y)); [split; [reflexivity|exact Hcs]|exact I].
  Qed.

  (* a job of shape C or Never is never launched *)
  Lemma never_launched st y : reach st -> err st = false -> In y (g_launched st) ->
    match shape_of G y with ShapeC _ | ShapeNever => False | _ => True end.
  Proof.
    intros Hr He Hy. destruct (launched_history G Hwf st y Hr He Hy) as (st0 & pj & st1 & A1 & A2 & A3 & A4 & A5 & _).
    pose proof (launch_access st0 y pj A1 A2 A3 A5) as H. destruct (shape_of G y); try exact I; exact H.
  Qed.

  (* B2: the gate of a job inserted with an unknown access is complete *)
  Lemma before_gate y g a : shape_of G y = ShapeB g a -> owner_of G y = None -> before g y.
  Proof.
    intros Hsh Hown st Hr He Hs.
    assert (Hl : In y (g_launched st)).
    { destruct Hs as [H|H]; [exact H|].
      destruct (reach_inv G Hwf st Hr He) as [HI HI2].
      assert (Hya : In y (g_added st)) by (apply (v_wfin_added _ _ _ HI); apply (v_succ_wfin _ _ _ HI); exact H).
      destruct (added_decl st y Hr He Hya) as (d & Hd & Hyd). unfold decl_ids in Hyd. apply in_app_or in Hyd as [Hal|[E|[]]].
      - exfalso. exact (owner_none y d Hown Hd Hal).
      - subst y. destruct (w_succ _ _ _ HI2 d Hd H) as [Hla|(c & _ & Hcn)]; [exact Hla|].
        exfalso. cbn [done_of] in Hcn. apply complete_listed in Hcn. unfold shape_of in Hsh.
        destruct (rewrites_of G (jid d)) as [|[? ?] [|]]; destruct (completers_of G (jid d)) as [|? [|]]; try discriminate; try destruct Hcn;
          destruct (is_unknown (init_acc G (jid d))); discriminate. }
    destruct (launched_history G Hwf st y Hr He Hl) as (st0 & pj & st1 & A1 & A2 & A3 & A4 & A5 & A6 & A7 & A8 & A9 & A10 & A11 & A12 & _).
    pose proof (launch_access st0 y pj A1 A2 A3 A5) as H. rewrite Hsh in H. destruct H as [_ Hg].
    apply (gr_succ _ _ A11). rewrite A9. exact Hg.
  Qed.

  (* B4: the handler that completes a job without running it *)
  Lemma before_completer y c : shape_of G y = ShapeC c -> owner_of G y = None -> before c y.
  Proof.
    intros Hsh Hown st Hr He Hs.
    destruct (reach_inv G Hwf st Hr He) as [HI HI2].
    destruct Hs as [Hl|Hsu].
    - exfalso. pose proof (never_launched st y Hr He Hl) as H. rewrite Hsh in H. exact H.
    - assert (Hya : In y (g_added st)) by (apply (v_wfin_added _ _ _ HI); apply (v_succ_wfin _ _ _ HI); exact Hsu).
      destruct (added_decl st y Hr He Hya) as (d & Hd & Hyd). unfold decl_ids in Hyd. apply in_app_or in Hyd as [Hal|[E|[]]].
      + exfalso. exact (owner_none y d Hown Hd Hal).
      + subst y. destruct (w_succ _ _ _ HI2 d Hd Hsu) as [Hla|(c' & [Hc1 _] & Hcn)].
        * exfalso. pose proof (never_launched st (jid d) Hr He Hla) as H. rewrite Hsh in H. exact H.
        * cbn [done_of] in Hcn. apply complete_listed in Hcn. unfold shape_of in Hsh.
          destruct (rewrites_of G (jid d)) as [|[? ?] [|]]; destruct (completers_of G (jid d)) as [|c0 [|]]; try discriminate;
            destruct (is_unknown (init_acc G (jid d))); try discriminate.
          injection Hsh as <-. destruct Hcn as [<-|[]]. exact Hc1.
  Qed.

  (* a job that is complete and has no completer was launched *)
  Lemma complete_was_launched st c : reach st -> err st = false -> In c (success st) ->
    completers_of G c = [] -> handler G c <> [] -> In c (g_launched st).
  Proof.
    intros Hr He Hc Hnc Hh. destruct (reach_inv G Hwf st Hr He) as [HI HI2].
    assert (Hca : In c (g_added st)) by (apply (v_wfin_added _ _ _ HI); apply (v_succ_wfin _ _ _ HI); exact Hc).
    destruct (added_decl st c Hr He Hca) as (d & Hd & Hcd). unfold decl_ids in Hcd. apply in_app_or in Hcd as [Hal|[E|[]]].
    - exfalso. apply Hh. apply (also_no_handler G Hwf d c Hd Hal).
    - subst c. destruct (w_succ _ _ _ HI2 d Hd Hc) as [Hla|(c' & _ & Hcn)]; [exact Hla|].
      exfalso. cbn [done_of] in Hcn. apply complete_listed in Hcn. rewrite Hnc in Hcn. destruct Hcn.
  Qed.

  (* x exists whenever y has started: x is static, or its creator (which ran) is complete before y *)
  Definition exists_before (x y : N) : Prop :=
    is_static G x = true
    \/ exists c, creator G x = Some c /\ completers_of G c = [] /\ before c y.

  Lemma exists_before_added x y st : exists_before x y -> reach st -> err st = false -> started st y ->
    In x (g_added st).
  Proof.
    intros [Hs|(c & Hc & Hnc & Hb)] Hr He Hst.
    - apply (reach_static_added G Hwf st Hr He). apply memN_In. exact Hs.
    - pose proof (Hb st Hr He Hst) as Hcs. destruct (reach_inv G Hwf st Hr He) as [HI _].
      pose proof (creator_spec x c Hc) as Hx.
      assert (Hh : handler G c <> []) by (intro E; rewrite E in Hx; destruct Hx).
      pose proof (complete_was_launched st c Hr He Hcs Hnc Hh) as Hcl.
      apply (v_handled _ _ _ HI c Hcs Hcl). cbn [done_of]. exact Hx.
  Qed.

  (* the access under which y is launched, if it can be launched at all *)
  Definition launch_acc (y : N) : option access :=
    match shape_of G y with ShapeA a => Some a | ShapeB _ a => Some a | _ => None end.

  Lemma started_launched st y : reach st -> err st = false -> started st y ->
    owner_of G y = None -> (exists a, launch_acc y = Some a) -> In y (g_launched st).
  Proof.
    intros Hr He Hs Hown [a Ha]. destruct Hs as [H|H]; [exact H|].
    destruct (reach_inv G Hwf st Hr He) as [HI HI2].
    assert (Hya : In y (g_added st)) by (apply (v_wfin_added _ _ _ HI); apply (v_succ_wfin _ _ _ HI); exact H).
    destruct (added_decl st y Hr He Hya) as (d & Hd & Hyd). unfold decl_ids in Hyd. apply in_app_or in Hyd as [Hal|[E|[]]].
    - exfalso. exact (owner_none y d Hown Hd Hal).
    - subst y. destruct (w_succ _ _ _ HI2 d Hd H) as [Hla|(c & _ & Hcn)]; [exact Hla|].
      exfalso. cbn [done_of] in Hcn. apply complete_listed in Hcn. unfold launch_acc, shape_of in Ha.
      destruct (rewrites_of G (jid d)) as [|[? ?] [|]]; destruct (completers_of G (jid d)) as [|? [|]]; try discriminate; try destruct Hcn;
        destruct (is_unknown (init_acc G (jid d))); discriminate.
  Qed.

  (* B3: a specific dependency on something that certainly exists *)
  Lemma before_spec y l x : launch_acc y = Some (ASet l) -> owner_of G y = None ->
    In (Spec x) l -> exists_before x y -> before x y.
  Proof.
    intros Ha Hown Hin Hex st Hr He Hs.
    pose proof (started_launched st y Hr He Hs Hown (ex_intro _ _ Ha)) as Hl.
    destruct (launched_history G Hwf st y Hr He Hl) as (st0 & pj & st1 & A1 & A2 & A3 & A4 & A5 & A6 & A7 & A8 & A9 & A10 & A11 & A12 & _).
    pose proof (launch_access st0 y pj A1 A2 A3 A5) as Hacc.
    assert (Hpa : pacc pj = ASet l).
    { unfold launch_acc in Ha. destruct (shape_of G y); try discriminate; injection Ha as ->; [exact Hacc|apply Hacc]. }
    rewrite Hpa in A5. cbn [can_run] in A5. rewrite forallb_forall in A5. specialize (A5 _ Hin). cbn [fulfilled] in A5.
    apply negb_true_iff in A5. unfold is_pending in A5.
    (* x exists in st1 (y has started there), hence in st0; it is not pending there, so it is complete *)
    assert (Hxa : In x (g_added st0)).
    { rewrite <- A12. apply (exists_before_added x y st1 Hex A6 A7). left. exact A8. }
    destruct (reach_inv G Hwf st0 A1 A2) as [HI0 _].
    apply (gr_succ _ _ A11). rewrite A9.
    destruct (in_dec N.eq_dec x (success st0)) as [Hyes|Hno]; [exact Hyes|exfalso].
    assert (Hk : In x (map fst (pending st0))) by (apply (v_keys _ _ _ HI0); split; assumption).
    apply lookup_Some_in in Hk as [v Hv]. rewrite Hv in A5. discriminate.
  Qed.

  (* a variant dependency on the discriminant of something that certainly exists: its work has finished *)
  Definition wfin_before (w y : N) : Prop :=
    forall st, reach st -> err st = false -> started st y -> In w (g_wfin st).

  Lemma wfin_var y l w : launch_acc y = Some (ASet l) -> owner_of G y = None ->
    In (Var (disc_of G w)) l -> exists_before w y -> wfin_before w y.
  Proof.
    intros Ha Hown Hin Hex st Hr He Hs.
    pose proof (started_launched st y Hr He Hs Hown (ex_intro _ _ Ha)) as Hl.
    destruct (launched_history G Hwf st y Hr He Hl) as (st0 & pj & st1 & A1 & A2 & A3 & A4 & A5 & A6 & A7 & A8 & A9 & A10 & A11 & A12 & _).
    pose proof (launch_access st0 y pj A1 A2 A3 A5) as Hacc.
    assert (Hpa : pacc pj = ASet l).
    { unfold launch_acc in Ha. destruct (shape_of G y); try discriminate; injection Ha as ->; [exact Hacc|apply Hacc]. }
    rewrite Hpa in A5. cbn [can_run] in A5. rewrite forallb_forall in A5. specialize (A5 _ Hin). cbn [fulfilled] in A5.
    apply Nat.eqb_eq in A5.
    assert (Hwa : In w (g_added st0)).
    { rewrite <- A12. apply (exists_before_added w y st1 Hex A6 A7). left. exact A8. }
    destruct (reach_inv G Hwf st0 A1 A2) as [HI0 _].
    apply (gr_wfin _ _ A11). rewrite A10.
    rewrite (v_cnt _ _ _ HI0) in A5. unfold count_open in A5. apply length_zero_iff_nil in A5.
    destruct (in_dec N.eq_dec w (g_wfin st0)) as [Hyes|Hno]; [exact Hyes|exfalso].
    assert (Hf : In w (filter (is_open G (g_wfin st0) (disc_of G w)) (g_added st0))).
    { apply filter_In. split; [exact Hwa|]. unfold is_open. rewrite N.eqb_refl. apply memN_false in Hno. rewrite Hno. reflexivity. }
    rewrite A5 in Hf. destruct Hf.
  Qed.

  Lemma before_wfin x y : before x y -> wfin_before x y.
  Proof.
    intros H st Hr He Hs. destruct (reach_inv G Hwf st Hr He) as [HI _].
    apply (v_succ_wfin _ _ _ HI). apply (H st Hr He Hs).
  Qed.
End Order.
