(* C02 — property theorems about the model of the job scheduler (FV.C02.Model).
   Statements only; proofs are in Inv, Steps*, Acc*, Reach, Order, Safe, Live3, Live. *)
From Coq Require Import List NArith Bool.
From FV.C02 Require Import Model Graph Inv Order Safe Reach NoPanic LiveCheck Live Calm Search.
Import ListNotations.

(* 1. Task-graph safety in all schedules.  For every job graph G (static jobs, dynamically added
      jobs, access rewrites, jobs completed without running) accepted by the decidable condition
      safe_graph, and EVERY sequence of launch / worker-finish / delivery events the scheduler
      admits: no panic state aside, whenever the second job of a listed pair has started, the first
      job's work has finished.  The pairs are the jobs that touch a common context item. *)
Theorem task_graph_safe_in_all_schedules : forall G order pairs, safe_graph G order pairs = true ->
  forall evs st, run G (init G) evs = Some st -> err st = false ->
  forall w y, In (w, y) pairs -> started st y -> In w (g_wfin st).
Proof. exact sched_safe. Qed.
Print Assumptions task_graph_safe_in_all_schedules.

(* 2. The scheduler's bookkeeping is exact in every reachable state of every graph whose ids are
      unique: pending = inserted minus complete, counters = open jobs per discriminant. *)
Theorem bookkeeping_exact : forall G, wf_graph G ->
  forall evs st, run G (init G) evs = Some st -> err st = false ->
  (forall i, In i (map fst (pending st)) <-> In i (g_added st) /\ ~ In i (success st))
  /\ (forall d, cnt st d = count_open G (g_added st) (g_wfin st) d)
  /\ incl (success st) (g_wfin st) /\ incl (g_wfin st) (g_added st)
  /\ NoDup (map fst (pending st)) /\ NoDup (g_added st).
Proof. exact sched_bookkeeping. Qed.
Print Assumptions bookkeeping_exact.

(* 3. What a launch guarantees (is_dep_fulfilled made semantic). *)
Theorem launch_guarantees : forall G, wf_graph G ->
  forall evs st i pj, run G (init G) evs = Some st -> err st = false ->
  lookup i (pending st) = Some pj -> can_run st i (pacc pj) = true ->
  forall l, pacc pj = ASet l ->
  (forall x, In (Spec x) l -> In x (g_added st) -> In x (success st))
  /\ (forall d x, In (Var d) l -> In x (g_added st) -> disc_of G x = d -> In x (g_wfin st)).
Proof. exact launch_semantics. Qed.
Print Assumptions launch_guarantees.

(* 4. The completed-twice / completed-but-not-pending panics are unreachable: in every reachable
      non-panicked state of every graph with unique ids, delivering the completion message of a launched,
      finished, not yet completed job completes it and the ids it also completes without panic. *)
Theorem completion_delivery_never_panics : forall G, wf_graph G -> forall st i,
  reach G st -> err st = false ->
  In i (g_launched st) -> In i (g_wfin st) -> ~ In i (success st) ->
  err (complete_with_also st i) = false.
Proof. exact delivery_never_panics. Qed.
Print Assumptions completion_delivery_never_panics.

(* 5. Progress: 'unable to proceed' is unreachable.  For every job graph with unique ids accepted by the
      decidable condition live_graph (for some rank rk: every dependency of a job, the creator of a
      dynamically added job and the handler that settles a job created with Unknown access all rank
      below it), and EVERY sequence of events the scheduler admits: unless the build has finished, some
      job is running or some job can be launched - the condition under which Workload::exec returns
      Error::UnableToProceed never holds. *)
Theorem never_unable_to_proceed : forall G rk, wf_graphb G = true -> live_graph G rk = true ->
  forall evs st, run G (init G) evs = Some st -> err st = false ->
  pending st = []
  \/ (exists i pj, lookup i (pending st) = Some pj /\ prun pj = true)
  \/ launchable st <> [].
Proof. intros G rk Hw Hl evs st. exact (progress_in_all_schedules G rk evs st (wf_graphb_sound G Hw) Hl). Qed.
Print Assumptions never_unable_to_proceed.

(* 6. No scheduler panic.  For every job graph with unique ids accepted by the decidable condition
      calm_graph (every hard access rewrite and every complete-without-running action of a handler
      targets a job created with Unknown access that no other handler settles), NO sequence of events
      the scheduler admits reaches a panic state: neither the completed-twice / not-pending panics of
      complete_one, nor the handlers' "has to be pending" panics. *)
Theorem no_scheduler_panic_in_any_schedule : forall G, wf_graphb G = true -> calm_graph G = true ->
  forall evs st, run G (init G) evs = Some st -> err st = false.
Proof. intros G Hw Hc evs st. exact (never_panics_in_all_schedules G evs st (wf_graphb_sound G Hw) Hc). Qed.
Print Assumptions no_scheduler_panic_in_any_schedule.

(* 7. The property as a whole, with no side condition on the run: for a graph accepted by the four
      decidable conditions (evaluated in Coq on the graph of every compiled source), in every schedule
      no panic state is reached, the build never becomes unable to proceed, and every listed pair of
      jobs that touch a common value is ordered. *)
Theorem valid_source_never_fails : forall G rk order pairs,
  calm_graph G = true -> live_graph G rk = true -> safe_graph G order pairs = true ->
  forall evs st, run G (init G) evs = Some st ->
  err st = false
  /\ (pending st = [] \/ (exists i pj, lookup i (pending st) = Some pj /\ prun pj = true) \/ launchable st <> [])
  /\ (forall w y, In (w, y) pairs -> started st y -> In w (g_wfin st)).
Proof.
  intros G rk order pairs Hc Hl Hs evs st Hr.
  assert (Hw : wf_graphb G = true) by (unfold safe_graph in Hs; apply andb_true_iff in Hs as [Hw _]; exact Hw).
  pose proof (no_scheduler_panic_in_any_schedule G Hw Hc evs st Hr) as He.
  split; [exact He|]. split.
  - exact (never_unable_to_proceed G rk Hw Hl evs st Hr He).
  - exact (task_graph_safe_in_all_schedules G order pairs Hs evs st Hr He).
Qed.
Print Assumptions valid_source_never_fails.

(* The hypotheses are satisfiable: a small graph with a gate (job 2 starts Unknown and is rewritten by
   the handler of job 0, which also adds job 3); job 2 reads what job 3 writes. *)
Example tiny : graph :=
  mkGraph [mkJob 0 0 ANone []; mkJob 1 1 (ASet [Var 0]) [(4, 4)]; mkJob 2 2 AUnknown []]
          [(0, [Add (mkJob 3 3 ANone []); Rewrite false 2 (ASet [Var 0; Var 3])])].
Example tiny_safe : safe_graph tiny [0; 1; 3; 2] [(0, 1); (3, 2); (0, 2)] = true.
Proof. vm_compute. reflexivity. Qed.
Example tiny_runs :
  exists st, run tiny (init tiny) [Launch 0; WFinish 0; Launch 1; Deliver 0; Launch 3; WFinish 3; Launch 2] = Some st
             /\ err st = false /\ started st 2.
Proof. eexists. split; [vm_compute; reflexivity|]. split; [reflexivity|]. left. cbn. auto. Qed.
(* ... and the variant-only dependency of issue 647/655/1436 is rejected: without the gate, job 2 may
   start before job 3 exists *)
Example ungated : graph :=
  mkGraph [mkJob 0 0 ANone []; mkJob 2 2 (ASet [Var 0; Var 3]) []]
          [(0, [Add (mkJob 3 3 ANone [])])].
Example ungated_unsafe : safe_graph ungated [0; 3; 2] [(3, 2)] = false.
Proof. vm_compute. reflexivity. Qed.
Example ungated_bad_schedule :
  exists st, run ungated (init ungated) [Launch 0; WFinish 0; Launch 2] = Some st
             /\ err st = false /\ started st 2 /\ ~ In 3%N (g_wfin st).
Proof. eexists. split; [vm_compute; reflexivity|]. split; [reflexivity|]. split; [left; cbn; auto|]. cbn. intuition discriminate. Qed.

(* progress: the gated graph passes the progress condition with its launch order as rank ... *)
Example tiny_live : wf_graphb tiny = true /\ live_instance tiny [0; 1; 3; 2] = true.
Proof. vm_compute. split; reflexivity. Qed.
(* ... and a graph whose gate is never opened (nobody rewrites job 2) is rejected, with a stuck schedule *)
Example gate_forgotten : graph :=
  mkGraph [mkJob 0 0 ANone []; mkJob 2 2 AUnknown []] [(0, [Add (mkJob 3 3 ANone [])])].
Example gate_forgotten_rejected : live_instance gate_forgotten [0; 3; 2] = false.
Proof. vm_compute. reflexivity. Qed.
Example gate_forgotten_stuck :
  exists sched st, stuck_schedule gate_forgotten = Some sched /\ run gate_forgotten (init gate_forgotten) sched = Some st
                   /\ is_stuck st = true.   (* no panic, jobs pending, none running, none launchable *)
Proof. eexists. eexists. split; [vm_compute; reflexivity|]. split; [vm_compute; reflexivity|]. vm_compute. reflexivity. Qed.

(* no panic: the gated graph is calm; a graph whose hard rewrite targets a job that may already have run is not,
   and a schedule reaching the panic is found *)
Example tiny_calm : calm_graph tiny = true.
Proof. vm_compute. reflexivity. Qed.
Example late_rewrite : graph :=
  mkGraph [mkJob 0 0 ANone []; mkJob 2 2 ANone []] [(0, [Rewrite false 2 (ASet [Var 0])])].
Example late_rewrite_rejected : calm_graph late_rewrite = false.
Proof. vm_compute. reflexivity. Qed.
Example late_rewrite_panics :
  exists sched st, panic_schedule late_rewrite = Some sched /\ run late_rewrite (init late_rewrite) sched = Some st
                   /\ err st = true.
Proof. eexists. eexists. split; [vm_compute; reflexivity|]. split; [vm_compute; reflexivity|]. reflexivity. Qed.
