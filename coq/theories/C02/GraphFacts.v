(* C02 — consequences of wf_graph. *)
From Coq Require Import List NArith Bool Arith Lia.
From FV.C02 Require Import Model Graph.
Import ListNotations.
Open Scope N_scope.

Lemma NoDup_app_remove_l {A} (a b : list A) : NoDup (a ++ b) -> NoDup b.
Proof. induction a as [|x a IH]; cbn [app]; intro H; [exact H|]. inversion H; subst. apply IH. assumption. Qed.

Lemma NoDup_app_remove_r {A} (a b : list A) : NoDup (a ++ b) -> NoDup a.
Proof.
  induction a as [|x a IH]; cbn [app]; intro H; [constructor|]. inversion H as [|? ? Hn Hnd]; subst.
  constructor; [intro Hin; apply Hn; apply in_or_app; left; exact Hin|apply IH; exact Hnd].
Qed.

Lemma NoDup_app_disjoint {A} (a b : list A) x : NoDup (a ++ b) -> In x a -> In x b -> False.
Proof.
  induction a as [|y a IH]; cbn [app]; intros H Ha Hb; [destruct Ha|]. inversion H as [|? ? Hn Hnd]; subst.
  destruct Ha as [->|Ha]; [apply Hn; apply in_or_app; right; exact Hb|eapply IH; eassumption].
Qed.

Lemma NoDup_app_intro {A} (a b : list A) : NoDup a -> NoDup b -> (forall x, In x a -> In x b -> False) -> NoDup (a ++ b).
Proof.
  induction a as [|y a IH]; cbn [app]; intros Ha Hb Hd; [exact Hb|]. inversion Ha as [|? ? Hn Hnd]; subst.
  constructor.
  - intro Hin. apply in_app_or in Hin as [Hin|Hin]; [contradiction|]. eapply Hd; [left; reflexivity|exact Hin].
  - apply IH; [exact Hnd|exact Hb|]. intros x Hx Hxb. eapply Hd; [right; exact Hx|exact Hxb].
Qed.

Lemma flat_map_flat_map {A B C} (f : A -> list B) (g : B -> list C) l :
  flat_map g (flat_map f l) = flat_map (fun x => flat_map g (f x)) l.
Proof. induction l as [|x l IH]; cbn [flat_map]; [reflexivity|]. rewrite flat_map_app, IH. reflexivity. Qed.

Lemma all_ids_decls G : all_ids G = flat_map decl_ids (all_decls G).
Proof.
  unfold all_ids, all_decls, static_ids, handler_ids. rewrite flat_map_app. f_equal.
  rewrite flat_map_flat_map. reflexivity.
Qed.

Lemma NoDup_flat_map_disjoint {A B} (f : A -> list B) l x y b :
  NoDup (flat_map f l) -> In x l -> In y l -> In b (f x) -> In b (f y) -> x = y.
Proof.
  induction l as [|z l IH]; cbn [flat_map]; intros Hnd Hx Hy Hbx Hby; [destruct Hx|].
  apply NoDup_app_remove_l in Hnd as Hnd'.
  assert (Hdisj : forall w, In w l -> In b (f z) -> In b (f w) -> False).
  { intros w Hw Hz Hbw. clear IH. revert Hnd. generalize (f z) Hz. intros fz Hfz Hnd.
    induction fz as [|c fz IHf]; [destruct Hfz|]. cbn [app] in Hnd. inversion Hnd as [|? ? Hn Hnd2]; subst.
    destruct Hfz as [->|Hfz]; [|apply IHf; assumption].
    apply Hn. apply in_or_app. right. apply in_flat_map. exists w. split; assumption. }
  destruct Hx as [->|Hx]; destruct Hy as [->|Hy]; try reflexivity.
  - exfalso. eapply Hdisj; eassumption.
  - exfalso. eapply Hdisj; eassumption.
  - eapply IH; eassumption.
Qed.

Lemma NoDup_flat_map_inner {A B} (f : A -> list B) l x :
  NoDup (flat_map f l) -> In x l -> NoDup (f x).
Proof.
  induction l as [|z l IH]; cbn [flat_map]; intros Hnd Hx; [destruct Hx|].
  destruct Hx as [->|Hx].
  - apply NoDup_app_remove_r in Hnd. exact Hnd.
  - apply IH; [apply NoDup_app_remove_l in Hnd; exact Hnd|exact Hx].
Qed.

Section WF.
  Variable G : graph.
  Hypothesis Hwf : wf_graph G.

  Lemma decls_nodup : NoDup (flat_map decl_ids (all_decls G)).
  Proof. rewrite <- all_ids_decls. exact (proj1 Hwf). Qed.

  Lemma decl_ids_nodup d : In d (all_decls G) -> NoDup (decl_ids d).
  Proof. intro H. eapply NoDup_flat_map_inner; [exact decls_nodup|exact H]. Qed.

  Lemma decl_unique d1 d2 i : In d1 (all_decls G) -> In d2 (all_decls G) ->
    In i (decl_ids d1) -> In i (decl_ids d2) -> d1 = d2.
  Proof. intros. eapply NoDup_flat_map_disjoint; [exact decls_nodup| | | |]; eassumption. Qed.

  Lemma jid_in_decl_ids d : In (jid d) (decl_ids d).
  Proof. unfold decl_ids. apply in_or_app. right. left. reflexivity. Qed.

  Lemma also_in_decl_ids d a : In a (map fst (jalso d)) -> In a (decl_ids d).
  Proof. intro H. unfold decl_ids. apply in_or_app. left. exact H. Qed.

  Lemma jid_not_also d : In d (all_decls G) -> ~ In (jid d) (map fst (jalso d)).
  Proof.
    intros Hd Hin. pose proof (decl_ids_nodup d Hd) as Hnd. unfold decl_ids in Hnd.
    apply NoDup_remove_2 in Hnd. rewrite app_nil_r in Hnd. contradiction.
  Qed.

  Lemma alsos_nodup d : In d (all_decls G) -> NoDup (map fst (jalso d)).
  Proof.
    intros Hd. pose proof (decl_ids_nodup d Hd) as Hnd. unfold decl_ids in Hnd.
    apply NoDup_remove_1 in Hnd. rewrite app_nil_r in Hnd. exact Hnd.
  Qed.

  (* discriminants *)
  Lemma disc_in_found ds : forall d, NoDup (flat_map decl_ids ds) -> In d ds ->
    disc_in (jid d) ds = Some (jdisc d)
    /\ forall a, In a (jalso d) -> disc_in (fst a) ds = Some (snd a).
  Proof.
    induction ds as [|d0 ds IH]; intros d Hnd Hin; [destruct Hin|].
    cbn [flat_map] in Hnd. cbn [disc_in].
    destruct Hin as [->|Hin].
    - split.
      + rewrite N.eqb_refl. reflexivity.
      + intros a Ha.
        assert (Hnd0 : NoDup (decl_ids d)) by (apply NoDup_app_remove_r in Hnd; exact Hnd).
        unfold decl_ids in Hnd0.
        destruct (N.eqb_spec (jid d) (fst a)) as [E|_].
        * exfalso. apply NoDup_remove_2 in Hnd0. rewrite app_nil_r in Hnd0. apply Hnd0. rewrite E. apply in_map. exact Ha.
        * apply NoDup_remove_1 in Hnd0. rewrite app_nil_r in Hnd0.
          clear -Hnd0 Ha. induction (jalso d) as [|[k v] l IHl]; [destruct Ha|].
          cbn [map fst] in Hnd0. inversion Hnd0 as [|? ? Hn Hnd1]; subst. cbn [lookup].
          destruct Ha as [<-|Ha].
          -- cbn [fst snd]. rewrite N.eqb_refl. reflexivity.
          -- destruct (N.eqb_spec k (fst a)) as [->|_]; [exfalso; apply Hn; apply in_map; exact Ha|apply IHl; assumption].
    - (* the id is not among d0's ids *)
      assert (Hdisj : forall i, In i (decl_ids d) -> ~ In i (decl_ids d0)).
      { intros i Hi Hi0. clear IH. revert Hnd. generalize (decl_ids d0) Hi0. intros l0 Hl0 Hnd.
        induction l0 as [|c l0 IHl]; [destruct Hl0|]. cbn [app] in Hnd. inversion Hnd as [|? ? Hn Hnd2]; subst.
        destruct Hl0 as [->|Hl0]; [|apply IHl; assumption].
        apply Hn. apply in_or_app. right. apply in_flat_map. exists d. split; assumption. }
      assert (Hnd' : NoDup (flat_map decl_ids ds)) by (apply NoDup_app_remove_l in Hnd; exact Hnd).
      destruct (IH d Hnd' Hin) as [A B].
      assert (Hskip : forall i, In i (decl_ids d) ->
                (if jid d0 =? i then Some (jdisc d0) else match lookup i (jalso d0) with Some x => Some x | None => disc_in i ds end)
                = disc_in i ds).
      { intros i Hi. specialize (Hdisj i Hi). unfold decl_ids in Hdisj. rewrite in_app_iff in Hdisj. cbn [In] in Hdisj.
        destruct (N.eqb_spec (jid d0) i); [exfalso; apply Hdisj; right; left; assumption|].
        destruct (lookup i (jalso d0)) eqn:E; [|reflexivity].
        exfalso. apply Hdisj. left. apply lookup_Some_in. eexists. exact E. }
      split.
      + rewrite Hskip by apply jid_in_decl_ids. exact A.
      + intros a Ha. rewrite Hskip by (apply also_in_decl_ids; apply in_map; exact Ha). apply B. exact Ha.
  Qed.

  Lemma disc_of_jid d : In d (all_decls G) -> disc_of G (jid d) = jdisc d.
  Proof. intro H. unfold disc_of. destruct (disc_in_found _ d decls_nodup H) as [A _]. rewrite A. reflexivity. Qed.

  Lemma disc_of_also d a : In d (all_decls G) -> In a (jalso d) -> disc_of G (fst a) = snd a.
  Proof. intros H Ha. unfold disc_of. destruct (disc_in_found _ d decls_nodup H) as [_ B]. rewrite (B a Ha). reflexivity. Qed.

  (* handlers *)
  Lemma handler_in c : handler G c <> [] -> In (c, handler G c) (handlers G).
  Proof.
    unfold handler. destruct (lookup c (handlers G)) eqn:E; [|intro H; contradiction H; reflexivity].
    intros _. apply lookup_In. exact E.
  Qed.

  Lemma handler_decl_in c d : In d (add_decls (handler G c)) -> In d (all_decls G).
  Proof.
    intro H. unfold all_decls. apply in_or_app. right. apply in_flat_map.
    exists (c, handler G c). split; [|exact H]. apply handler_in. intro E. rewrite E in H. destruct H.
  Qed.

  Lemma static_decl_in d : In d (statics G) -> In d (all_decls G).
  Proof. intro H. unfold all_decls. apply in_or_app. left. exact H. Qed.

  Lemma static_handler_disjoint i c : In i (static_ids G) -> In i (add_ids (handler G c)) -> False.
  Proof.
    intros Hs Hh. destruct Hwf as (Hnd & _ & _). unfold all_ids in Hnd.
    assert (Hh' : In i (handler_ids G)).
    { unfold handler_ids. apply in_flat_map. exists (c, handler G c). split; [|exact Hh].
      apply handler_in. intro E. rewrite E in Hh. destruct Hh. }
    clear -Hnd Hs Hh'. induction (static_ids G) as [|x l IH]; [destruct Hs|].
    cbn [app] in Hnd. inversion Hnd as [|? ? Hn Hnd']; subst.
    destruct Hs as [->|Hs]; [apply Hn; apply in_or_app; right; exact Hh'|apply IH; assumption].
  Qed.

  Lemma handlers_disjoint i c1 c2 : In i (add_ids (handler G c1)) -> In i (add_ids (handler G c2)) -> c1 = c2.
  Proof.
    intros H1 H2. destruct Hwf as (Hnd & Hk & _). unfold all_ids in Hnd. apply NoDup_app_remove_l in Hnd.
    unfold handler_ids in Hnd.
    assert (I1 : In (c1, handler G c1) (handlers G)) by (apply handler_in; intro E; rewrite E in H1; destruct H1).
    assert (I2 : In (c2, handler G c2) (handlers G)) by (apply handler_in; intro E; rewrite E in H2; destruct H2).
    pose proof (NoDup_flat_map_disjoint (fun h => add_ids (snd h)) (handlers G) _ _ i Hnd I1 I2 H1 H2) as E.
    congruence.
  Qed.

  Lemma handler_ids_nodup c : NoDup (add_ids (handler G c)).
  Proof.
    destruct (handler G c) eqn:E; [constructor|]. rewrite <- E.
    destruct Hwf as (Hnd & _ & _). unfold all_ids in Hnd. apply NoDup_app_remove_l in Hnd. unfold handler_ids in Hnd.
    apply (NoDup_flat_map_inner (fun h => add_ids (snd h)) (handlers G) (c, handler G c) Hnd).
    apply handler_in. rewrite E. discriminate.
  Qed.
  Lemma also_no_handler d a : In d (all_decls G) -> In a (map fst (jalso d)) -> handler G a = [].
  Proof.
    intros Hd Ha. unfold handler. destruct (lookup a (handlers G)) eqn:E; [|reflexivity].
    exfalso. destruct Hwf as (_ & _ & Hh). apply (Hh a).
    - apply lookup_Some_in. eexists. exact E.
    - unfold also_ids. apply in_flat_map. exists d. split; assumption.
  Qed.
End WF.
