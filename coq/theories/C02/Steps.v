(* C02 — every scheduler event preserves the bookkeeping invariant. *)
From Coq Require Import List NArith Bool Arith Lia.
From FV.C02 Require Import Model Graph GraphFacts Ops Inv.
Import ListNotations.
Open Scope N_scope.

Section Steps.
  Variable G : graph.
  Hypothesis Hwf : wf_graph G.
  Notation Inv := (Inv G).

  (* ---- Launch ---------------------------------------------------------------------- *)
  Lemma launch_inv cur st i pj :
    Inv cur st -> lookup i (pending st) = Some pj -> palso pj = false ->
    Inv cur (mkState (set_entry i (mkP (pacc pj) true (palso pj) (pdisc pj) (pals pj)) (pending st))
                     (cnt st) (success st) (err st) (g_added st) (i :: g_launched st) (g_wfin st)).
  Proof.
    intros HI Hl Hal.
    assert (Hik : In i (map fst (pending st))) by (apply lookup_Some_in; eexists; exact Hl).
    pose proof (v_entry _ _ _ HI i pj Hl) as (Ed & Er & Ek).
    constructor; cbn [pending cnt success err g_added g_launched g_wfin].
    - rewrite set_entry_keys. apply HI.
    - intro k. rewrite set_entry_keys. apply HI.
    - apply HI.
    - apply HI.
    - apply HI.
    - intros x [<-|Hx]; [apply (v_keys _ _ _ HI); exact Hik|apply (v_launched_added _ _ _ HI); exact Hx].
    - intros x [<-|Hx]; [|apply (v_launched_job _ _ _ HI); exact Hx].
      destruct Ek as [(_ & d & Hd & Hj & _)|(E & _)]; [exists d; split; assumption|congruence].
    - intros d Hd Hw. destruct (v_wfin_src _ _ _ HI d Hd Hw) as [H|H]; [left; right; exact H|right; exact H].
    - apply HI.
    - intros k pk Hk. destruct (N.eq_dec k i) as [->|Hne].
      + rewrite lookup_set_entry_eq in Hk by exact Hik. injection Hk as <-.
        unfold entry_ok. cbn [pdisc prun palso pals g_launched].
        split; [exact Ed|]. split; [split; [intros _; left; reflexivity|reflexivity]|exact Ek].
      + rewrite lookup_set_entry_ne in Hk by exact Hne.
        pose proof (v_entry _ _ _ HI k pk Hk) as (A & B & C). unfold entry_ok. cbn [g_launched].
        split; [exact A|]. split; [|exact C]. rewrite B. split; [intro H; right; exact H|intros [E|H]; [congruence|exact H]].
    - intros d a Hd Ha. apply (v_group _ _ _ HI d a Hd Ha).
    - intros x Hx. destruct (v_created _ _ _ HI x Hx) as [Hs|(c & Hc & Hcl & Hxc)]; [left; exact Hs|].
      right. exists c. split; [exact Hc|]. split; [right; exact Hcl|exact Hxc].
    - intros c Hc [<-|Hcl]; [|apply (v_handled _ _ _ HI c Hc Hcl)].
      exfalso. apply (v_keys _ _ _ HI) in Hik. tauto.
  Qed.

  (* ---- finishing: counters ------------------------------------------------------------ *)
  Lemma dec_cnt st dd d0 : cnt (dec st dd) d0 = if d0 =? dd then Nat.pred (cnt st d0) else cnt st d0.
  Proof. cbn [dec cnt]. unfold upd. destruct (N.eqb_spec d0 dd) as [->|]; reflexivity. Qed.

  (* decrementing the counter of one id that moves to wfin *)
  Lemma dec_one added wfin (c : N -> nat) x :
    NoDup added -> In x added -> ~ In x wfin ->
    (forall d0, c d0 = count_open G added wfin d0) ->
    forall d0, (if d0 =? disc_of G x then Nat.pred (c d0) else c d0) = count_open G added (x :: wfin) d0.
  Proof.
    intros Hnd Hin Hn Hc d0. rewrite Hc. rewrite (count_open_finish G added wfin x d0 Hnd Hin Hn).
    rewrite (N.eqb_sym d0). destruct (disc_of G x =? d0); cbn; lia.
  Qed.

  Lemma fold_dec_fields (als : list (N * N)) : forall st,
    let st' := fold_left (fun s a => dec s (snd a)) als st in
    pending st' = pending st /\ success st' = success st /\ err st' = err st /\ g_added st' = g_added st
    /\ g_launched st' = g_launched st /\ g_wfin st' = g_wfin st.
  Proof.
    induction als as [|a als IH]; intro st; cbn [fold_left]; [repeat split; reflexivity|].
    destruct (IH (dec st (snd a))) as (A & B & C & D & E & F). cbn zeta. rewrite A, B, C, D, E, F. repeat split; reflexivity.
  Qed.

  Lemma fold_dec_cnt added : forall (als : list (N * N)) st wfin,
    NoDup added -> NoDup (map fst als) ->
    (forall a, In a als -> In (fst a) added /\ ~ In (fst a) wfin /\ snd a = disc_of G (fst a)) ->
    (forall d0, cnt st d0 = count_open G added wfin d0) ->
    forall d0, cnt (fold_left (fun s a => dec s (snd a)) als st) d0
               = count_open G added (rev (map fst als) ++ wfin) d0.
  Proof.
    induction als as [|a als IH]; intros st wfin Hnd Hals Hin Hc d0; cbn [fold_left map rev app]; [apply Hc|].
    cbn [map] in Hals. inversion Hals as [|? ? Hna Hals']; subst.
    destruct (Hin a (or_introl eq_refl)) as (Ha1 & Ha2 & Ha3).
    rewrite (IH (dec st (snd a)) (fst a :: wfin) Hnd Hals').
    - apply count_open_ext. intro k. repeat rewrite in_app_iff. cbn [In]. tauto.
    - intros b Hb. destruct (Hin b (or_intror Hb)) as (B1 & B2 & B3). split; [exact B1|]. split; [|exact B3].
      intros [E|H]; [|contradiction]. apply Hna. rewrite E. apply in_map. exact Hb.
    - intro d1. rewrite dec_cnt, Ha3. apply dec_one; assumption.
  Qed.

  (* the ids of a pending job and its discriminants, as the invariant describes them *)
  Lemma job_group cur st i pj :
    Inv cur st -> lookup i (pending st) = Some pj -> palso pj = false ->
    exists d, In d (all_decls G) /\ jid d = i /\ pals pj = jalso d /\ pdisc pj = jdisc d.
  Proof.
    intros HI Hl Hal. pose proof (v_entry _ _ _ HI i pj Hl) as (Ed & _ & [(_ & d & Hd & Hj & Hp)|(E & _)]); [|congruence].
    exists d. repeat split; try assumption. rewrite Ed, <- Hj. apply (disc_of_jid G Hwf d Hd).
  Qed.

  Lemma finish_counters_fields st i pj :
    let st' := finish_counters st i pj in
    pending st' = pending st /\ success st' = success st /\ err st' = err st /\ g_added st' = g_added st
    /\ g_launched st' = g_launched st /\ g_wfin st' = (i :: map fst (pals pj)) ++ g_wfin st.
  Proof.
    unfold finish_counters, add_wfin. cbn [pending success err g_added g_launched g_wfin].
    destruct (fold_dec_fields (pals pj) (dec st (pdisc pj))) as (A & B & C & D & E & F).
    cbn zeta in *. rewrite A, B, C, D, E, F. repeat split; reflexivity.
  Qed.

  Lemma finish_counters_cnt cur st i pj d :
    Inv cur st -> In d (all_decls G) -> jid d = i -> pals pj = jalso d -> pdisc pj = jdisc d ->
    In i (g_added st) -> ~ In i (g_wfin st) ->
    forall d0, cnt (finish_counters st i pj) d0
               = count_open G (g_added st) ((i :: map fst (pals pj)) ++ g_wfin st) d0.
  Proof.
    intros HI Hd Hj Hp Hpd Hia Hiw d0. unfold finish_counters, add_wfin. cbn [cnt].
    assert (Hals : forall a, In a (pals pj) ->
              In (fst a) (g_added st) /\ ~ In (fst a) (i :: g_wfin st) /\ snd a = disc_of G (fst a)).
    { intros a Ha. rewrite Hp in Ha. pose proof (v_group _ _ _ HI d (fst a) Hd (in_map fst _ _ Ha)) as (GA & GW & _).
      rewrite Hj in GA, GW. split; [apply GA; exact Hia|]. split.
      - intros [E|H]; [|apply Hiw; apply GW; exact H].
        apply (jid_not_also G Hwf d Hd). rewrite Hj, E. apply in_map. exact Ha.
      - symmetry. apply (disc_of_also G Hwf d a Hd Ha). }
    rewrite (fold_dec_cnt (g_added st) (pals pj) (dec st (pdisc pj)) (i :: g_wfin st)).
    - apply count_open_ext. intro k. repeat rewrite in_app_iff. rewrite <- in_rev. cbn [In]. tauto.
    - apply HI.
    - rewrite Hp. apply (alsos_nodup G Hwf d Hd).
    - exact Hals.
    - intro d1. rewrite dec_cnt. rewrite Hpd, <- (disc_of_jid G Hwf d Hd), Hj.
      apply dec_one; [apply HI|exact Hia|exact Hiw|apply HI].
  Qed.

  (* membership in a job's group *)
  Lemma group_member d d0 x : In d (all_decls G) -> In d0 (all_decls G) ->
    In x (jid d :: map fst (jalso d)) -> In x (decl_ids d0) -> d0 = d.
  Proof.
    intros Hd Hd0 Hx Hx0. eapply (decl_unique G Hwf); [exact Hd0|exact Hd|exact Hx0|].
    destruct Hx as [<-|Hx]; [apply jid_in_decl_ids|apply also_in_decl_ids; exact Hx].
  Qed.

  (* ---- WFinish ------------------------------------------------------------------------ *)
  Lemma wfinish_inv cur st i pj :
    Inv cur st -> lookup i (pending st) = Some pj -> In i (g_launched st) -> ~ In i (g_wfin st) ->
    Inv cur (finish_counters st i pj).
  Proof.
    intros HI Hl Hla Hnw.
    assert (Hal : palso pj = false).
    { destruct (v_launched_job _ _ _ HI i Hla) as (d & Hd & Hj).
      pose proof (v_entry _ _ _ HI i pj Hl) as (_ & _ & [(E & _)|(_ & _ & d2 & Hd2 & Hi2)]); [exact E|].
      exfalso. assert (d2 = d) by (eapply (decl_unique G Hwf); [exact Hd2|exact Hd|apply also_in_decl_ids; exact Hi2|rewrite <- Hj; apply jid_in_decl_ids]).
      subst d2. apply (jid_not_also G Hwf d Hd). rewrite Hj. exact Hi2. }
    destruct (job_group cur st i pj HI Hl Hal) as (d & Hd & Hj & Hp & Hpd).
    assert (Hia : In i (g_added st)) by (apply (v_launched_added _ _ _ HI); exact Hla).
    destruct (finish_counters_fields st i pj) as (Fp & Fs & Fe & Fa & Fl & Fw). cbn zeta in *.
    assert (Hgrp : forall x, In x (i :: map fst (pals pj)) -> In x (jid d :: map fst (jalso d))) by (rewrite Hp, Hj; tauto).
    constructor; rewrite ?Fp, ?Fs, ?Fe, ?Fa, ?Fl, ?Fw.
    - apply HI.
    - apply HI.
    - apply HI.
    - intros x Hx. apply in_or_app. right. apply (v_succ_wfin _ _ _ HI). exact Hx.
    - intros x Hx. apply in_app_or in Hx as [Hx|Hx]; [|apply (v_wfin_added _ _ _ HI); exact Hx].
      destruct Hx as [<-|Hx]; [exact Hia|].
      rewrite Hp in Hx. apply (v_group _ _ _ HI d x Hd Hx). rewrite Hj. exact Hia.
    - apply HI.
    - apply HI.
    - intros d0 Hd0 Hw. apply in_app_or in Hw as [Hw|Hw]; [|apply (v_wfin_src _ _ _ HI d0 Hd0 Hw)].
      assert (d0 = d) by (eapply group_member; [exact Hd|exact Hd0|apply Hgrp; exact Hw|apply jid_in_decl_ids]).
      subst d0. left. rewrite Hj. exact Hla.
    - intro d0. apply (finish_counters_cnt cur st i pj d HI Hd Hj Hp Hpd Hia Hnw).
    - intros k pk Hk. pose proof (v_entry _ _ _ HI k pk Hk) as (A & B & C). unfold entry_ok. rewrite Fl. repeat split; try assumption; apply B.
    - intros d0 a Hd0 Ha. rewrite Fa, Fw, Fs. destruct (v_group _ _ _ HI d0 a Hd0 Ha) as (A & B & C).
      split; [exact A|]. split; [|exact C]. rewrite !in_app_iff.
      destruct (in_dec N.eq_dec (jid d0) (decl_ids d)) as [Hin|Hout].
      + assert (d0 = d) by (eapply (decl_unique G Hwf); [exact Hd0|exact Hd|apply jid_in_decl_ids|exact Hin]). subst d0.
        split; intros _; left; [right; rewrite Hp; exact Ha|left; exact (eq_sym Hj)].
      + assert (N1 : ~ In (jid d0) (i :: map fst (pals pj))).
        { intro Hx. apply Hout. assert (d0 = d) by (eapply group_member; [exact Hd|exact Hd0|apply Hgrp; exact Hx|apply jid_in_decl_ids]).
          subst d0. apply jid_in_decl_ids. }
        assert (N2 : ~ In a (i :: map fst (pals pj))).
        { intro Hx. apply Hout. assert (d0 = d) by (eapply group_member; [exact Hd|exact Hd0|apply Hgrp; exact Hx|apply also_in_decl_ids; exact Ha]).
          subst d0. apply jid_in_decl_ids. }
        rewrite B. tauto.
    - apply HI.
    - apply HI.
  Qed.
End Steps.
