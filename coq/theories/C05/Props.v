(* C05 — Every emitted font is a well-formed, internally consistent OpenType file.
   Statements only; proofs in ProofsSfnt / ProofsGraph / ProofsAbs / ProofsBuild / ProofsGen /
   ProofsVar.  The declarative side (WF_sfnt, WF_abs, graph_ok, ...) is in Spec.v.

   Two kinds of theorem:
   * certified checkers — `check_sfnt` (the file's directory, offsets, padding, checksums,
     head.checkSumAdjustment, required tables) and `check_abs` (glyph counts, every cross-table
     index, the component graph) are sound against the declarative statements.  ./check C05 runs
     them, inside Coq, on the fonts the real compiler emits.
   * generator side — the model of FontBuilder::build yields a well-formed container for EVERY
     set of tables; the glyph-indexed tables are maps over one glyph order; component glyph ids
     come from that order; the variation model's regions and delta sets (FV.C07) are in range;
     and FontWork::exec fails, rather than drops a table, when a table cannot be serialised. *)
From Coq Require Import List NArith ZArith QArith Bool Sorting.Sorted Sorting.Permutation.
From FV.C05 Require Import Model Spec ProofsSfnt ProofsGraph ProofsAbs ProofsBuild ProofsGen ProofsVar.
Import ListNotations.
Open Scope N_scope.

(** * the container *)

(* A file accepted by check_sfnt is a TrueType-flavoured sfnt whose directory is strictly sorted by
   tag with correct binary-search fields; its tables tile the file exactly (header, then the
   tables each padded to four bytes, then nothing); every table is aligned, inside the file, zero
   padded and has the checksum its record states (head summed with checkSumAdjustment zero); the
   ten required tables are present; head.checkSumAdjustment is 0xB1B0AFBA minus the checksum of the
   whole file.  No assumption on f. *)
Theorem check_sfnt_sound : forall f : list N, check_sfnt f = true -> WF_sfnt f.
Proof. exact ProofsSfnt.check_sfnt_sound. Qed.
Print Assumptions check_sfnt_sound.

(* FontBuilder::build (write-fonts, as driven by fontbe/src/font.rs): for every list of tables with
   distinct tags, whose word lists have the length their byte length requires and zero padding,
   fewer than 4096 of them and the required ones among them — whatever their contents and
   whatever physical order they are written in — the assembled file is well formed in the above
   sense.  In particular the adjustment stored in head makes the whole file sum to 0xB1B0AFBA. *)
Theorem build_wf : forall ts : list tbl, tables_ok ts -> WF_sfnt (build ts).
Proof. exact ProofsBuild.build_wf. Qed.
Print Assumptions build_wf.

(* ... and so is the file in the order FontBuilder actually uses (ordered_tags) *)
Theorem fontbuilder_wf : forall ts : list tbl, tables_ok ts -> WF_sfnt (fontbuilder ts).
Proof. exact ProofsBuild.fontbuilder_wf. Qed.
Print Assumptions fontbuilder_wf.

Definition ex_tables : list tbl :=
  [ mkTbl 0x4F532F32 5 [0x01020304; 0x05000000]; mkTbl 0x636D6170 4 [7]; mkTbl 0x676C7966 0 [];
    mkTbl TAG_head 54 [0x00010000; 0x00010000; 0xDEADBEEF; 0x5F0F3CF5; 3; 4; 5; 6; 7; 8; 9; 10; 11; 0x00010000];
    mkTbl 0x68686561 4 [1]; mkTbl 0x686D7478 6 [1; 0x00020000]; mkTbl 0x6C6F6361 4 [0];
    mkTbl 0x6D617870 6 [0x00005000; 0x00010000]; mkTbl 0x6E616D65 7 [1; 0x61626300]; mkTbl 0x706F7374 4 [3] ].

Example build_nonvacuous :
  tables_ok ex_tables /\ check_sfnt (fontbuilder ex_tables) = true
  /\ cksum (fontbuilder ex_tables) = ADJ_MAGIC.
Proof.
  split; [|split; vm_compute; reflexivity].
  split; [|split; [|split]].
  - cbn. repeat (constructor; [cbn; intuition discriminate|]). constructor.
  - repeat (constructor; [split; [reflexivity|split; [reflexivity|cbn; intro; try discriminate; Lia.lia]]|]). constructor.
  - cbn. Lia.lia.
  - intros t Ht. cbn in Ht |- *. intuition (subst; auto 12).
Qed.

(** * the component graph *)

(* The interesting part of the decoded-font checker.  If graph_okb accepts a glyph table then every
   component glyph id exists, no glyph reaches itself through component references, no chain of
   references is longer than maxp.maxComponentDepth, simple glyphs are within maxPoints /
   maxContours, and every composite has at most maxComponentElements components and a flattened
   outline (defined by the inductive relation `flat`) within maxCompositePoints /
   maxCompositeContours.  No assumption on the glyph table: cycles, dangling references and any
   sharing are all inputs. *)
Theorem acyclic_checker_sound : forall mp gl, graph_okb mp gl = true -> graph_ok mp gl.
Proof. exact ProofsGraph.graph_okb_sound. Qed.
Print Assumptions acyclic_checker_sound.

(* the flattened totals are a function of the glyph: two derivations agree *)
Theorem flat_totals_unique : forall gl g p c p' c',
  flat gl g p c -> flat gl g p' c' -> p = p' /\ c = c'.
Proof. intros gl g p c p' c' H H'. exact (proj1 (ProofsGraph.flat_unique gl) g p c H p' c' H'). Qed.
Print Assumptions flat_totals_unique.

Example graph_nonvacuous :
  let gl := [GEmpty; GSimple 12 2; GComposite [1; 1]; GComposite [2; 0; 1]; GSimple 4 1; GComposite [3; 4]] in
  graph_okb (mkMaxp 6 12 2 40 7 3 3) gl = true
  /\ graph_ok (mkMaxp 6 12 2 40 7 3 3) gl
  (* one point too few, too small a depth, a cycle and a dangling reference are each rejected *)
  /\ graph_okb (mkMaxp 6 12 2 39 7 3 3) gl = false
  /\ graph_okb (mkMaxp 6 12 2 40 7 3 2) gl = false
  /\ graph_okb (mkMaxp 3 9 9 99 99 9 9) [GSimple 1 1; GComposite [2]; GComposite [1]] = false
  /\ graph_okb (mkMaxp 2 9 9 99 99 9 9) [GSimple 1 1; GComposite [2]] = false.
Proof.
  cbv zeta. split; [vm_compute; reflexivity|]. split; [apply acyclic_checker_sound; vm_compute; reflexivity|].
  repeat split; vm_compute; reflexivity.
Qed.

(** * the decoded font *)

(* A decoded font accepted by check_abs satisfies WF_abs: maxp, loca/glyf, hmtx, vmtx, post and gvar
   agree on the glyph count; cmap, GDEF, GSUB and GPOS use only existing glyph ids; the component
   graph is as in acyclic_checker_sound; every LangSys feature index, feature lookup index, nested
   lookup index, feature-variation feature / lookup / axis index, mark filtering set, STAT axis
   index is in range; every name id used by fvar, STAT or feature parameters has a name record;
   avar, gvar and every variation store count fvar's axes, every region index names a region and
   every delta-set index (HVAR / VVAR mapping, MVAR, GDEF and GPOS VariationIndex tables) names an
   existing row; variation tables do not occur without fvar.  No assumption on the input. *)
Theorem check_abs_sound : forall a : font_abs, check_abs a = true -> WF_abs a.
Proof. exact ProofsAbs.check_abs_sound. Qed.
Print Assumptions check_abs_sound.

(* the whole checker: file and decoded tables *)
Theorem check_font_sound : forall f a, check_font f a = true -> WF_sfnt f /\ WF_abs a.
Proof.
  intros f a H. unfold check_font in H. apply andb_true_iff in H. destruct H as [H1 H2].
  split; [apply check_sfnt_sound; exact H1|apply check_abs_sound; exact H2].
Qed.
Print Assumptions check_font_sound.

(* a font emitted by fontc (resources/testdata/glyphs3/glyph-with-bracket-component.glyphs: one
   axis, composites, GSUB feature variations, HVAR, STAT), as printed by the harness *)
Example check_font_nonvacuous :
  check_font [65536;1048832;262144;1195656518;1114117;1136;22;1196643650;4151962408;1160;120;1213612370;1693279318;1280;55;1330851634;1584495714;392;96;1398030676;2020632717;1336;28;1668112752;1087365365;508;60;1719034226;2160159122;1364;52;1735162214;1736714258;580;74;1735811442;2236499161;1416;90;1751474532;781045105;268;54;1751672161;95159907;324;36;1752003704;231342130;488;20;1819239265;3276887;568;12;1835104368;589834;360;32;1851878757;509165458;656;380;1886352244;1049278984;1036;98;65536;196608;2879463898;1594834165;197608;0;3872998683;0;3872998683;65336;29492000;6;131072;0;65536;65601336;780;50;29492200;0;0;0;5;65536;327688;131072;1;0;0;0;65537;262850;6553605;524938;39321600;4915850;39321600;22937650;19660800;0;0;0;131072;131072;0;20047;1313144896;10821809;52494136;13108200;13107200;65536;500;45875200;2097153;32768050;49152000;49152000;51118080;49152000;2;3;20;196609;20;262184;6;262145;131237;548536319;165;548536319;4284342096;65536;0;21;1376285;1900581;131122;4281860546;52428803;458752;386998545;622924065;838963454;2717986046;3569877992;4229444099;2214658047;0;0;393217;65535;0;0;393219;0;10;8257539;66569;65574;3;66569;131086;2490371;66569;196666;3407875;66569;262182;3;66569;327730;7208963;66569;393252;10485763;66569;1048604;12845059;66569;1114120;14680067;66569;16777228;15204355;66569;16842762;15990860;6881378;7471205;2097222;7471201;7209067;7077993;7208992;5505128;6881390;5374053;6750325;7077985;7471155;3014704;3145776;3866702;5177422;4522043;4980841;6422642;6619206;7471201;7209067;7077993;7209005;5505128;6881390;5636197;7471219;6881391;7208992;3342382;3145776;3145787;6684783;7209076;6488096;3145774;3538990;3145804;6881378;7471205;4587634;6357102;7012460;6881390;2949204;6815849;7209036;6881378;7471205;2097222;7471201;7209067;7077993;7209044;6815849;7209047;6619241;6750312;7602242;7077985;6488171;131072;0;4288413746;0;0;0;0;0;327680;16908438;16974084;125136489;842023473;410349161;842023473;776098369;1129006420;779510130;1097626672;823425381;1848525394;1094929221;1412331105;1916890228;808517632;65536;786432;0;131073;65540;65536;65537;917538;3014656;4718593;1145457748;524292;0;4294901761;1;1920365166;524288;1;262145;1;524289;393218;65538;65538;65536;1;16;30;65536;393217;11264;1073741825;1;0;786432;65536;65536;20;0;0;0;65536;786433;22;65537;16384;1073741829;1;36;618537984;65538;524289;20;0;2;2003265652;16777216;65536;1048578;65556;131080;2003265652;6553600;6553600;58982400;256;1114112;6553600;16842752;58982400;65536;65537;32;327680;34;0;458766;1376284;1073741825;524294;536871040;2392451;65544;401408;8454180;2172911617;524294;536871040;14582147;65544;401408;8454180;2172911616]
    (mkFA (mkMaxp 5 8 2 0 0 1 1) [GSimple 8 2;GEmpty;GComposite [1];GEmpty;GComposite [3]] (5,20) None (Some ([0;258;150;259;260],3)) [0;1;2] [1;2;3;4;5;6;16;17;256;257] [2;17;256;257] (Some 1) None (Some (1,5)) (Some ((mkStore 1 1 [(5,[0])]),None)) None None (Some (1,[])) (Some (mkGdef [1;4] 0 None [])) (Some (mkLayout [(None,[0])] [[]] [(mkLookup [1;2;3;4] [] None [])] [(mkFv [0] [(0,[0])])])) None) = true.
Proof. vm_compute. reflexivity. Qed.

(** * where fontbe assembles the tables *)

(* glyf (hence loca), hmtx, post, gvar and HVAR are maps over the one final glyph order: whenever
   the backend produces them they have exactly one entry per glyph name, for every source. *)
Theorem same_order_same_length : forall order src adv var hv nm rn b,
  be_build order src adv var hv nm rn = Some b ->
  length (be_glyf b) = length order /\ length (be_hmtx b) = length order /\ length (be_post b) = length order
  /\ length (be_gvar b) = length order /\ length (be_hvar b) = length order.
Proof. exact ProofsGen.same_order_same_length. Qed.
Print Assumptions same_order_same_length.

(* every composite in the emitted glyf comes from a source composite, component by component: the
   stored glyph id is below the glyph count and is the position, in the final glyph order, of the
   glyph the source names (create_component_ref_name). *)
Theorem component_refs_in_range : forall order src adv var hv nm rn b,
  be_build order src adv var hv nm rn = Some b ->
  forall g cs, glyph_at (be_glyf b) g = Some (GComposite cs) ->
  exists name names, nth_error order (N.to_nat g) = Some name /\ src name = SComposite names
    /\ Forall2 (fun nm c => c < N.of_nat (length (be_glyf b)) /\ nth_error order (N.to_nat c) = Some nm) names cs.
Proof. exact ProofsGen.component_refs_in_range. Qed.
Print Assumptions component_refs_in_range.

(* ... and a component naming a glyph that is not in the final order never reaches the font: the
   build fails (GlyphProblem::NotInGlyphOrder) *)
Theorem missing_component_is_error : forall order src adv var hv nm rn name names c,
  In name order -> src name = SComposite names -> In c names -> ~ In c order ->
  be_build order src adv var hv nm rn = None.
Proof. exact ProofsGen.missing_component_is_error. Qed.
Print Assumptions missing_component_is_error.

(* post names.  The model follows post.rs: with production names each glyph's name is looked up
   in public.postscriptNames, stripped of every character outside [A-Za-z0-9._] and, if an earlier
   glyph already has that name, given the first free ".N" suffix; the length check comes AFTER that,
   on the final names.  Whenever the backend produces a post table, its names are exactly those
   final names, one per glyph, and every one of them fits the Pascal string it is stored in (255
   bytes); if any final name is longer the build fails.  For every glyph order, name function and
   rename map. *)
Theorem post_names_fit : forall order src adv var hv nm rn b,
  be_build order src adv var hv nm rn = Some b ->
  be_post b = final_names order nm rn /\ forall n, In n (be_post b) -> (length n <= 255)%nat.
Proof. exact ProofsGen.post_names_fit. Qed.
Print Assumptions post_names_fit.

Theorem long_name_is_error : forall order src adv var hv nm rn n,
  In n (final_names order nm rn) -> (255 < length n)%nat -> be_build order src adv var hv nm rn = None.
Proof. exact ProofsGen.long_name_is_error. Qed.
Print Assumptions long_name_is_error.

(* Why the check must follow the de-duplication: two glyphs whose production names are the same
   254-byte string both pass a check on the incoming names, yet the second final name is
   "<254 bytes>.1" = 256 bytes; the model (as the code) refuses.  With 253 bytes the second name is
   exactly 255 bytes and is accepted; a 258-byte name that loses five illegal characters fits;
   a literal "x.1" pushes a duplicate of "x" to "x.2". *)
Example post_suffix_boundary :
  let x := fun k => repeat 120 k in
  let b := fun names rn => option_map be_post
             (be_build (count_up (length names) 0) (fun _ => SEmpty) (fun n => n) (fun n => n) (fun n => n)
                       (fun g => nth (N.to_nat g) names []) rn) in
  forallb name_fits [x 254%nat; x 254%nat] = true
  /\ b [x 254%nat; [116]] (Some [(1, x 254%nat)]) = None
  /\ b [x 253%nat; [116]] (Some [(1, x 253%nat)]) = Some [x 253%nat; x 253%nat ++ [46; 49]]
  /\ b [[97]; x 253%nat ++ [45; 32; 195; 169; 45]] (Some []) = Some [[97]; x 253%nat]
  /\ b [[120]; [120; 46; 49]; [116]] (Some [(2, [120])]) = Some [[120]; [120; 46; 49]; [120; 46; 50]]
  /\ b [x 254%nat; x 254%nat ++ [45]] None = Some [x 254%nat; x 254%nat ++ [45]].
Proof. vm_compute. repeat split; reflexivity. Qed.

Example be_nonvacuous :
  let order := [10; 20; 30; 40] in
  let src := fun n => if n =? 10 then SSimple 4 1 else if n =? 20 then SEmpty
                      else if n =? 30 then SComposite [10; 20] else SComposite [30; 10] in
  let id := fun n : N => n in
  let nm := fun n : N => [n] in
  option_map be_glyf (be_build order src id id id nm None)
    = Some [GSimple 4 1; GEmpty; GComposite [0; 1]; GComposite [2; 0]]
  /\ be_build order (fun n => if n =? 40 then SComposite [99] else src n) id id id nm None = None
  /\ be_build order src id id id (fun n => if n =? 30 then repeat 65 256 else [n]) None = None.
Proof. vm_compute. auto. Qed.

(** * FontWork::exec and bytes_for *)

(* A successful job holds exactly the tables that exist: none is lost ... *)
Theorem exec_keeps_every_table : forall slots,
  (forall s t, In s slots -> s_bytes s = Some t -> t_tag t = s_tag s) ->
  forall ts, exec_tables slots = Some ts -> map t_tag ts = map s_tag (filter s_has slots).
Proof. exact ProofsGen.exec_keeps_every_table. Qed.
Print Assumptions exec_keeps_every_table.

(* ... a table that exists but cannot be serialised (write_fonts::dump_table fails validation or
   offset packing) fails the job with Error::DumpTableError instead of being left out ... *)
Theorem serialisation_failure_is_reported : forall slots s,
  In s slots -> s_has s = true -> s_bytes s = None -> exec_tables slots = None.
Proof. exact ProofsGen.serialisation_failure_is_reported. Qed.
Print Assumptions serialisation_failure_is_reported.

(* ... and the font of a successful job is a well-formed container whenever its tables include the
   required ones. *)
Theorem exec_ok_is_wf : forall slots ts f,
  exec_tables slots = Some ts -> tables_ok ts -> exec_font slots = Some f -> WF_sfnt f.
Proof. exact ProofsGen.exec_ok_is_wf. Qed.
Print Assumptions exec_ok_is_wf.

(* Before the repair (fix: in known_findings.txt) bytes_for mapped a failed dump_table to None, exec
   skipped the table and returned Ok.  On the witness - all ten required tables exist, `name` does not
   serialise - the unrepaired loop yields a font without a name table, the repaired one an error.
   (The harness keeps the real inputs - name storage beyond 64 KiB, GDEF carets beyond 64 KiB - and
   reports key table-dropped-when-serialisation-fails should the drop return.) *)
Theorem silent_drop_unrepaired :
  (forall t, In t required_tags -> exists s, In s drop_witness /\ s_tag s = t /\ s_has s = true)
  /\ ~ WF_sfnt (fontbuilder (exec_tables_unrepaired drop_witness))
  /\ exec_font drop_witness = None.
Proof. exact ProofsGen.silent_drop_unrepaired. Qed.
Print Assumptions silent_drop_unrepaired.

(** * variation data (on top of FV.C07) *)

(* For every set of distinct master locations over n axes: the variation model has one region per
   master; every region has exactly n (start, peak, end) triples, each ordered and not straddling
   zero (what a VariationRegion / gvar tuple must satisfy); and every delta set the model produces,
   for any values and either rounding mode, is attached to one of those regions.  So region indices
   and axis counts that gvar / HVAR / MVAR / GDEF derive from the model are in range by
   construction.  (How write-fonts' VariationStoreBuilder renumbers regions is not modelled; the
   decoded-font checker covers it on the emitted fonts.) *)
Theorem variation_regions_well_formed : forall n locs, FV.C07.Main.wf_input n locs ->
  let m := FV.C07.Model.model_new locs in
  length (FV.C07.Model.m_infl m) = length locs
  /\ Forall (fun r => length (FV.C07.Model.tents r) = n) (FV.C07.Model.m_infl m)
  /\ Forall (fun r => Forall (fun t => (FV.C07.Model.tmin t <= FV.C07.Model.tpeak t <= FV.C07.Model.tmax t)%Z
                                       /\ ~ (FV.C07.Model.tmin t < 0 < FV.C07.Model.tmax t)%Z)
                             (FV.C07.Model.tents r)) (FV.C07.Model.m_infl m)
  /\ forall rounding vals k d, In (k, d) (FV.C07.Model.deltas m rounding vals) ->
       (k < length (FV.C07.Model.m_infl m))%nat.
Proof. exact ProofsVar.variation_regions_well_formed. Qed.
Print Assumptions variation_regions_well_formed.
