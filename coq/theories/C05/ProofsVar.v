(* C05 — region indices and axis counts of the variation data, on top of the C07 model of
   fontdrasil's VariationModel (FV.C07): every region the model hands to gvar / HVAR / MVAR /
   GDEF spans exactly the font's axes with start <= peak <= end on each, and every delta set
   it produces names one of those regions. *)
From Coq Require Import List ZArith QArith Bool Lia Sorting.Permutation.
From FV.C07 Require Import Model Main Props.
Import ListNotations.

Module V := FV.C07.Model.

Lemma Forall2_length {A B} (R : A -> B -> Prop) l1 l2 : Forall2 R l1 l2 -> length l1 = length l2.
Proof. induction 1; cbn; congruence. Qed.

Lemma delta_weights_length infl locs : forall i, length (V.delta_weights_from i infl locs) = length locs.
Proof. induction locs as [|l t IH]; intro i; cbn; [reflexivity|f_equal; apply IH]. Qed.

Lemma deltas_from_index rounding : forall ws vals i res bound,
  (forall k d, In (k, d) res -> (k < bound)%nat) -> (i + length ws <= bound)%nat ->
  forall k d, In (k, d) (V.deltas_from rounding i ws vals res) -> (k < bound)%nat.
Proof.
  induction ws as [|w ws IH]; intros vals i res bound Hres Hb k d Hin; cbn [V.deltas_from] in Hin.
  - eapply Hres; exact Hin.
  - destruct vals as [|v vals]; [eapply Hres; exact Hin|]. cbn [length] in Hb.
    destruct v as [x|].
    + eapply (IH vals (S i)); [| |exact Hin]; [|lia].
      intros k' d' H'. apply in_app_or in H'. destruct H' as [H'|[H'|[]]]; [eapply Hres; exact H'|].
      inversion H'; subst. lia.
    + eapply (IH vals (S i)); [exact Hres| |exact Hin]. lia.
Qed.

Theorem variation_regions_well_formed n locs : wf_input n locs ->
  let m := V.model_new locs in
  (* one region per master *)
  length (V.m_infl m) = length locs
  (* axis count: every region has one (start, peak, end) triple per axis *)
  /\ Forall (fun r => length (V.tents r) = n) (V.m_infl m)
  (* each triple is ordered and does not straddle zero *)
  /\ Forall (fun r => Forall (fun t => (V.tmin t <= V.tpeak t <= V.tmax t)%Z
                                      /\ ~ (V.tmin t < 0 < V.tmax t)%Z) (V.tents r)) (V.m_infl m)
  (* region index in range: every delta the model produces belongs to one of these regions *)
  /\ forall rounding vals k d, In (k, d) (V.deltas m rounding vals) -> (k < length (V.m_infl m))%nat.
Proof.
  intros W m. pose proof (tents_valid n locs W) as TV. cbv zeta in TV. fold m in TV.
  pose proof (model_locations_are_the_masters n locs W) as P. fold m in P.
  destruct W as [_ Hlen].
  assert (Hl : Forall (fun l => length l = n) (V.m_locs m))
    by (eapply Permutation_Forall; [apply Permutation_sym; exact P|exact Hlen]).
  assert (L : length (V.m_infl m) = length locs).
  { rewrite <- (Forall2_length _ _ _ TV). apply Permutation_length. exact P. }
  split; [exact L|]. split; [|split].
  - clear P L. induction TV as [|l r ls rs Hlr _ IH]; [constructor|].
    inversion Hl; subst. constructor; [|apply IH; assumption].
    rewrite <- (Forall2_length _ _ _ Hlr). reflexivity.
  - clear P L Hl. induction TV as [|l r ls rs Hlr _ IH]; [constructor|]. constructor; [|exact IH].
    clear IH. induction Hlr as [|v t vs ts (_ & A & B) _ IH]; constructor; [split; assumption|exact IH].
  - intros rounding vals k d Hin. unfold V.deltas in Hin.
    eapply deltas_from_index; [| |exact Hin].
    + intros k' d' [].
    + assert (E : length (V.m_weights m) = length (V.m_locs m)).
      { unfold m, V.model_new. cbn [V.m_weights V.m_locs]. apply delta_weights_length. }
      rewrite E. cbn [Nat.add]. apply Nat.eq_le_incl. exact (Forall2_length _ _ _ TV).
Qed.

Example variation_regions_nonvacuous :
  let locs := [[0; 0]; [10; 0]; [0; 10]; [10; 10]; [-10; 0]]%Z in
  wf_input 2 locs
  /\ map (fun r => length (V.tents r)) (V.m_infl (V.model_new locs)) = [2; 2; 2; 2; 2]%nat
  /\ map fst (V.deltas (V.model_new locs) true [Some (500#1); Some (400#1); Some (700#1); Some (520#1); Some (910#1)]%Q)
     = [0; 1; 2; 3; 4]%nat.
Proof.
  cbv zeta. split; [|split; vm_compute; reflexivity].
  split; [|repeat constructor].
  repeat (constructor; [cbn; intuition discriminate|]). constructor.
Qed.
