(* C05 — Every emitted font is a well-formed, internally consistent OpenType file.

   Executable definitions only (no proofs).  Four parts:

   A. the sfnt container, read from the file itself.  A file is the list of its big-endian
      32-bit words (fontc's output length is always a multiple of four: FontBuilder::build pads
      every table, the last one included; the harness rejects any other length before it builds
      the term).  `check_sfnt` is the boolean checker for the directory.
   B. write-fonts' FontBuilder::build as fontbe/src/font.rs drives it (`build`, `fontbuilder`):
      physical table order, offsets, per-table checksums, directory sorted by tag,
      head.checkSumAdjustment.  Tables are opaque word lists.
   C. the decoded font (`font_abs`: what an independent reader sees in the tables) and the boolean
      checker `check_abs` for glyph-count agreement, cross-table indices and the component graph.
   D. the two places of fontbe where the tables are put together: the map over the final glyph
      order (glyphs.rs / metrics_and_limits.rs / post.rs / gvar.rs / hvar.rs) and FontWork::exec
      with `bytes_for` (font.rs), which fails the build when a table cannot be serialised. *)
From Coq Require Import List NArith Bool.
Import ListNotations.
Open Scope N_scope.

(* ================================================================== *)
(** * A. the sfnt container *)

Definition W32 : N := 4294967296.

Definition sumN (l : list N) : N := fold_right N.add 0 l.
(* OpenType table checksum: sum of the big-endian u32 words modulo 2^32 *)
Definition cksum (l : list N) : N := sumN l mod W32.

Record trec := mkRec { r_tag : N; r_sum : N; r_off : N; r_len : N }.

Record sfdir := mkDir { d_ver : N; d_n : N; d_sr : N; d_es : N; d_rs : N; d_recs : list trec }.

Fixpoint parse_recs (n : nat) (ws : list N) : option (list trec) :=
  match n with
  | O => Some []
  | S n' =>
      match ws with
      | t :: c :: o :: l :: rest =>
          match parse_recs n' rest with
          | Some rs => Some (mkRec t c o l :: rs)
          | None => None
          end
      | _ => None
      end
  end.

(* sfntVersion u32 | numTables u16, searchRange u16 | entrySelector u16, rangeShift u16 | records *)
Definition parse_dir (f : list N) : option sfdir :=
  match f with
  | v :: a :: b :: rest =>
      let n := a / 65536 in
      match parse_recs (N.to_nat n) rest with
      | Some rs => Some (mkDir v n (a mod 65536) (b / 65536) (b mod 65536) rs)
      | None => None
      end
  | _ => None
  end.

Definition nwords (len : N) : N := (len + 3) / 4.

(* the words a table record designates *)
Definition slice (f : list N) (off len : N) : list N :=
  firstn (N.to_nat (nwords len)) (skipn (N.to_nat (off / 4)) f).

Definition set_nth (i : nat) (v : N) (l : list N) : list N :=
  firstn i l ++ match skipn i l with [] => [] | _ :: t => v :: t end.

Definition TAG_head : N := 0x68656164.

(* the head table is summed with checkSumAdjustment (bytes 8..12) set to zero *)
Definition masked (tag len : N) (ws : list N) : list N :=
  if (tag =? TAG_head) && (12 <=? len) then set_nth 2 0 ws else ws.

(* bytes between the end of the table and the next 4-byte boundary are zero *)
Definition pad_ok (len : N) (ws : list N) : bool :=
  match len mod 4 with
  | 0 => true
  | r => (last ws 0 mod 256 ^ (4 - r)) =? 0
  end.

Definition table_okb (f : list N) (r : trec) : bool :=
  let ws := slice f (r_off r) (r_len r) in
  (r_off r mod 4 =? 0)
  && (N.of_nat (length ws) =? nwords (r_len r))
  && pad_ok (r_len r) ws
  && (r_sum r =? cksum (masked (r_tag r) (r_len r) ws)).

Fixpoint strict_asc (l : list N) : bool :=
  match l with
  | x :: ((y :: _) as t) => (x <? y) && strict_asc t
  | _ => true
  end.

(* insertion sort by a numeric key (stable) *)
Section ISort.
  Variable A : Type.
  Variable key : A -> N.
  Fixpoint insert_by (x : A) (l : list A) : list A :=
    match l with
    | [] => [x]
    | y :: t => if key x <=? key y then x :: l else y :: insert_by x t
    end.
  Fixpoint isort (l : list A) : list A :=
    match l with
    | [] => []
    | x :: t => insert_by x (isort t)
    end.
End ISort.
Arguments insert_by {A}.
Arguments isort {A}.

(* tables laid end to end from `pos`, each padded to four bytes; result = end position *)
Fixpoint chainb (pos : N) (l : list trec) : option N :=
  match l with
  | [] => Some pos
  | r :: t => if r_off r =? pos then chainb (pos + 4 * nwords (r_len r)) t else None
  end.

(* required for a TrueType-flavoured OpenType font *)
Definition required_tags : list N :=
  [ 0x636D6170 (* cmap *); 0x676C7966 (* glyf *); TAG_head; 0x68686561 (* hhea *);
    0x686D7478 (* hmtx *); 0x6C6F6361 (* loca *); 0x6D617870 (* maxp *); 0x6E616D65 (* name *);
    0x4F532F32 (* OS/2 *); 0x706F7374 (* post *) ].

Definition memN (x : N) (l : list N) : bool := existsb (N.eqb x) l.

Definition search_okb (d : sfdir) : bool :=
  let n := d_n d in
  (1 <=? n) && (d_es d =? N.log2 n) && (d_sr d =? 16 * 2 ^ N.log2 n) && (d_rs d =? 16 * n - d_sr d).

Definition ADJ_MAGIC : N := 0xB1B0AFBA.

(* head.checkSumAdjustment = 0xB1B0AFBA - (checksum of the whole file with that field zero) *)
Definition head_adjust_okb (f : list N) (recs : list trec) : bool :=
  match find (fun r => r_tag r =? TAG_head) recs with
  | Some h =>
      let i := N.to_nat (r_off h / 4 + 2) in
      (12 <=? r_len h) && Nat.ltb i (length f)
      && (nth i f 0 =? (ADJ_MAGIC + W32 - cksum (set_nth i 0 f)) mod W32)
  | None => false
  end.

Definition check_sfnt (f : list N) : bool :=
  match parse_dir f with
  | None => false
  | Some d =>
      (d_ver d =? 0x00010000)
      && search_okb d
      && strict_asc (map r_tag (d_recs d))
      && match chainb (12 + 16 * d_n d) (isort r_off (d_recs d)) with
         | Some e => e =? 4 * N.of_nat (length f)
         | None => false
         end
      && forallb (table_okb f) (d_recs d)
      && forallb (fun t => memN t (map r_tag (d_recs d))) required_tags
      && head_adjust_okb f (d_recs d)
  end.

(* big-endian packing of bytes into words (what the harness does before printing a file) *)
Fixpoint pack_words (b : list N) : list N :=
  match b with
  | b0 :: b1 :: b2 :: b3 :: t => (((b0 * 256 + b1) * 256 + b2) * 256 + b3) :: pack_words t
  | _ => []
  end.

(* ================================================================== *)
(** * B. FontBuilder::build *)

Record tbl := mkTbl { t_tag : N; t_len : N; t_words : list N }.

(* offsets and checksums in physical order (the loop over table_order) *)
Fixpoint layout (pos : N) (ts : list tbl) : list trec :=
  match ts with
  | [] => []
  | t :: rest =>
      mkRec (t_tag t) (cksum (masked (t_tag t) (t_len t) (t_words t))) pos (t_len t)
        :: layout (pos + 4 * nwords (t_len t)) rest
  end.

Definition rec_words (r : trec) : list N := [r_tag r; r_sum r; r_off r; r_len r].

(* TableDirectory::from_table_records + write_into *)
Definition dir_words (n : N) (recs : list trec) : list N :=
  let sr := 16 * 2 ^ N.log2 n in
  [0x00010000; n * 65536 + sr; N.log2 n * 65536 + (16 * n - sr)] ++ flat_map rec_words recs.

Definition is_head (t : tbl) : bool := (t_tag t =? TAG_head) && (12 <=? t_len t).

(* `ts` is the list of tables in physical order *)
Definition build (ts : list tbl) : list N :=
  let n := N.of_nat (length ts) in
  let recs := layout (12 + 16 * n) ts in
  let dir := dir_words n (isort r_tag recs) in
  (* checksums.push(directory checksum); fold(wrapping_add) *)
  let total := (sumN (map r_sum recs) + cksum dir) mod W32 in
  let adj := (ADJ_MAGIC + W32 - total) mod W32 in
  dir ++ flat_map (fun t => if is_head t then set_nth 2 adj (t_words t) else t_words t) ts.

(* FontBuilder::ordered_tags: recommended order, then the other tags ascending, DSIG last *)
Definition recommended_ttf : list N :=
  [ TAG_head; 0x68686561; 0x6D617870; 0x4F532F32; 0x686D7478; 0x4C545348; 0x56444D58; 0x68646D78;
    0x636D6170; 0x6670676D; 0x70726570; 0x63767420; 0x6C6F6361; 0x676C7966; 0x6B65726E; 0x6E616D65;
    0x706F7374; 0x67617370; 0x50434C54 ].

Fixpoint index_of (x : N) (l : list N) (i : N) : option N :=
  match l with
  | [] => None
  | y :: t => if x =? y then Some i else index_of x t (i + 1)
  end.

Definition order_key (tag : N) : N :=
  if tag =? 0x44534947 (* DSIG *) then 2 * 2 ^ 40 + tag
  else match index_of tag recommended_ttf 0 with
       | Some i => i * W32 + tag
       | None => 2 ^ 40 + tag
       end.

(* the BTreeMap of tables in tag order -> the file *)
Definition fontbuilder (ts : list tbl) : list N := build (isort (fun t => order_key (t_tag t)) ts).

(* the tables of a file, as the builder's input: rebuilding a file from its own tables must give
   the file back (used by the correspondence run: physical order, offsets, checksums, directory
   and adjustment of the real output are exactly what `fontbuilder` computes) *)
Definition tables_of_file (f : list N) : option (list tbl) :=
  match parse_dir f with
  | Some d => Some (map (fun r => mkTbl (r_tag r) (r_len r) (slice f (r_off r) (r_len r))) (d_recs d))
  | None => None
  end.

Fixpoint words_eqb (a b : list N) : bool :=
  match a, b with
  | [], [] => true
  | x :: a', y :: b' => (x =? y) && words_eqb a' b'
  | _, _ => false
  end.

Definition rebuild_eqb (f : list N) : bool :=
  match tables_of_file f with
  | Some ts => words_eqb (fontbuilder ts) f
  | None => false
  end.

(* ================================================================== *)
(** * C. the decoded font *)

Inductive glyph := GEmpty | GSimple (npts nctr : N) | GComposite (comps : list N).

Record maxp := mkMaxp {
  mp_glyphs : N; mp_pts : N; mp_ctrs : N; mp_cpts : N; mp_cctrs : N; mp_elems : N; mp_depth : N }.

(* ItemVariationStore: axis count of the region list, number of regions, and per
   ItemVariationData (itemCount, regionIndexes) *)
Record store := mkStore { st_axes : N; st_regions : N; st_data : list (N * list N) }.

(* a GSUB/GPOS lookup: every glyph id it mentions (coverage, class definitions, substitutes,
   ...), the lookup indices of its sequence-lookup records, its mark filtering set, and the
   (outer, inner) delta-set indices of its VariationIndex tables *)
Record lookup := mkLookup {
  lk_glyphs : list N; lk_nested : list N; lk_markset : option N; lk_varidx : list (N * N) }.

(* FeatureVariationRecord: axis indices of its conditions; substitutions (feature index,
   lookup indices of the alternate feature) *)
Record fvrec := mkFv { fv_axes : list N; fv_subst : list (N * list N) }.

Record layout_tbl := mkLayout {
  ly_langsys : list (option N * list N);   (* required feature index, feature indices *)
  ly_features : list (list N);             (* lookup indices per feature *)
  ly_lookups : list lookup;
  ly_fvars : list fvrec }.

Record gdef := mkGdef {
  gd_glyphs : list N; gd_marksets : N; gd_store : option store; gd_varidx : list (N * N) }.

Record font_abs := mkFA {
  fa_maxp : maxp;
  fa_glyphs : list glyph;               (* glyf read through loca: one entry per loca interval *)
  fa_hmtx : N * N;                      (* hhea.numberOfHMetrics, byte length of hmtx *)
  fa_vmtx : option (N * N);             (* vhea.numOfLongVerMetrics, byte length of vmtx *)
  fa_post : option (list N * N);        (* version 2: glyphNameIndex, number of strings *)
  fa_cmap : list N;                     (* glyph ids cmap maps to *)
  fa_name_ids : list N;                 (* name ids with a record in name *)
  fa_name_refs : list N;                (* name ids used by fvar, STAT, GSUB/GPOS feature parameters *)
  fa_fvar : option N;                   (* axisCount *)
  fa_avar : option N;                   (* axisCount *)
  fa_gvar : option (N * N);             (* axisCount, glyphCount *)
  fa_hvar : option (store * option (list (N * N)));   (* store, advance-width mapping entries *)
  fa_vvar : option (store * option (list (N * N)));
  fa_mvar : option (store * list (N * N));            (* store, value-record delta-set indices *)
  fa_stat : option (N * list N);        (* designAxisCount, axis indices used by axis values *)
  fa_gdef : option gdef;
  fa_gsub : option layout_tbl;
  fa_gpos : option layout_tbl }.

Definition all_ltb (l : list N) (b : N) : bool := forallb (fun x => x <? b) l.

(* ---- the component graph ---------------------------------------------------- *)

Definition glyph_at (gl : list glyph) (g : N) : option glyph := nth_error gl (N.to_nat g).

(* depth, total points, total contours of the flattened glyph *)
Definition info := (N * N * N)%type.
Definition i_depth (x : info) : N := fst (fst x).
Definition i_pts (x : info) : N := snd (fst x).
Definition i_ctrs (x : info) : N := snd x.

Definition tab_at (T : list info) (g : N) : info := nth (N.to_nat g) T (0, 0, 0).

Fixpoint comp_info (T : list info) (cs : list N) : info :=
  match cs with
  | [] => (0, 0, 0)
  | c :: t =>
      let x := tab_at T c in
      let y := comp_info T t in
      (N.max (1 + i_depth x) (i_depth y), i_pts x + i_pts y, i_ctrs x + i_ctrs y)
  end.

Definition glyph_info (T : list info) (g : glyph) : info :=
  match g with
  | GEmpty => (0, 0, 0)
  | GSimple p c => (0, p, c)
  | GComposite cs => comp_info T cs
  end.

(* one round: every glyph recomputed from the previous table *)
Definition info_step (gl : list glyph) (T : list info) : list info := map (glyph_info T) gl.

Fixpoint iterate {A} (n : nat) (f : A -> A) (x : A) : A :=
  match n with O => x | S n' => iterate n' f (f x) end.

Definition info_eqb (a b : info) : bool :=
  (i_depth a =? i_depth b) && (i_pts a =? i_pts b) && (i_ctrs a =? i_ctrs b).

Fixpoint infos_eqb (a b : list info) : bool :=
  match a, b with
  | [], [] => true
  | x :: a', y :: b' => info_eqb x y && infos_eqb a' b'
  | _, _ => false
  end.

(* the table after maxComponentDepth + 1 rounds; it is used only if it is a fixed point *)
Definition info_table (gl : list glyph) (depth : N) : list info :=
  iterate (S (N.to_nat depth)) (info_step gl) (map (fun _ => (0, 0, 0)) gl).

Definition glyph_limits_okb (mp : maxp) (ng : N) (g : glyph) (x : info) : bool :=
  match g with
  | GEmpty => true
  | GSimple p c => (p <=? mp_pts mp) && (c <=? mp_ctrs mp)
  | GComposite cs =>
      all_ltb cs ng
      && (N.of_nat (length cs) <=? mp_elems mp)
      && (i_depth x <=? mp_depth mp) && (i_pts x <=? mp_cpts mp) && (i_ctrs x <=? mp_cctrs mp)
  end.

Fixpoint limits_okb (mp : maxp) (ng : N) (gl : list glyph) (T : list info) : bool :=
  match gl, T with
  | [], [] => true
  | g :: gl', x :: T' => glyph_limits_okb mp ng g x && limits_okb mp ng gl' T'
  | _, _ => false
  end.

(* acyclic, references in range, depth and totals within maxp *)
Definition graph_okb (mp : maxp) (gl : list glyph) : bool :=
  let T := info_table gl (mp_depth mp) in
  infos_eqb (info_step gl T) T && limits_okb mp (N.of_nat (length gl)) gl T.

(* ---- glyph-indexed tables ----------------------------------------------------- *)

(* n long metrics (4 bytes) followed by one side bearing (2 bytes) per remaining glyph *)
Definition mtx_okb (ng : N) (m : N * N) : bool :=
  let '(nlong, len) := m in (1 <=? nlong) && (nlong <=? ng) && (len =? 4 * nlong + 2 * (ng - nlong)).

Definition varidx_okb (st : option store) (v : N * N) : bool :=
  let '(o, i) := v in
  ((o =? 0xFFFF) && (i =? 0xFFFF))     (* "no variation data" *)
  || match st with
     | Some s => match nth_error (st_data s) (N.to_nat o) with
                 | Some (cnt, _) => i <? cnt
                 | None => false
                 end
     | None => false
     end.

Definition store_okb (axes : N) (s : store) : bool :=
  (st_axes s =? axes) && forallb (fun d => all_ltb (snd d) (st_regions s)) (st_data s).

(* HVAR / VVAR: without a mapping the glyph id is the inner index of data block 0 *)
Definition metric_var_okb (axes ng : N) (x : store * option (list (N * N))) : bool :=
  let '(s, m) := x in
  store_okb axes s
  && match m with
     | None => match st_data s with (cnt, _) :: _ => cnt =? ng | [] => false end
     | Some es => (1 <=? N.of_nat (length es)) && (N.of_nat (length es) <=? ng)
                  && forallb (varidx_okb (Some s)) es
     end.

Definition opt_okb {A} (f : A -> bool) (o : option A) : bool :=
  match o with Some x => f x | None => true end.

Definition lookup_okb (ng nlook marksets : N) (st : option store) (l : lookup) : bool :=
  all_ltb (lk_glyphs l) ng && all_ltb (lk_nested l) nlook
  && opt_okb (fun m => m <? marksets) (lk_markset l)
  && forallb (varidx_okb st) (lk_varidx l).

Definition layout_okb (ng axes marksets : N) (st : option store) (t : layout_tbl) : bool :=
  let nfeat := N.of_nat (length (ly_features t)) in
  let nlook := N.of_nat (length (ly_lookups t)) in
  forallb (fun ls => opt_okb (fun r => r <? nfeat) (fst ls) && all_ltb (snd ls) nfeat) (ly_langsys t)
  && forallb (fun ft => all_ltb ft nlook) (ly_features t)
  && forallb (lookup_okb ng nlook marksets st) (ly_lookups t)
  && forallb (fun fv => all_ltb (fv_axes fv) axes
                        && forallb (fun s => (fst s <? nfeat) && all_ltb (snd s) nlook) (fv_subst fv))
             (ly_fvars t).

Definition gdef_okb (ng axes : N) (g : gdef) : bool :=
  all_ltb (gd_glyphs g) ng && opt_okb (store_okb axes) (gd_store g)
  && forallb (varidx_okb (gd_store g)) (gd_varidx g).

Definition is_none {A} (o : option A) : bool := match o with None => true | Some _ => false end.

(* variation tables need fvar, and all of them count the same axes *)
Definition axes_okb (a : font_abs) : bool :=
  match fa_fvar a with
  | None =>
      is_none (fa_avar a) && is_none (fa_gvar a) && is_none (fa_hvar a) && is_none (fa_vvar a)
      && is_none (fa_mvar a)
  | Some n =>
      (1 <=? n)
      && opt_okb (fun k => k =? n) (fa_avar a)
      && opt_okb (fun x => fst x =? n) (fa_gvar a)
  end.

Definition check_abs (a : font_abs) : bool :=
  let ng := N.of_nat (length (fa_glyphs a)) in
  let axes := match fa_fvar a with Some n => n | None => 0 end in
  let marksets := match fa_gdef a with Some g => gd_marksets g | None => 0 end in
  let gstore := match fa_gdef a with Some g => gd_store g | None => None end in
  (1 <=? ng) && (mp_glyphs (fa_maxp a) =? ng)
  && mtx_okb ng (fa_hmtx a) && opt_okb (mtx_okb ng) (fa_vmtx a)
  && opt_okb (fun p => (N.of_nat (length (fst p)) =? ng) && all_ltb (fst p) (258 + snd p)) (fa_post a)
  && opt_okb (fun x => snd x =? ng) (fa_gvar a)
  && all_ltb (fa_cmap a) ng
  && graph_okb (fa_maxp a) (fa_glyphs a)
  && forallb (fun i => memN i (fa_name_ids a)) (fa_name_refs a)
  && axes_okb a
  && opt_okb (metric_var_okb axes ng) (fa_hvar a)
  && opt_okb (metric_var_okb axes ng) (fa_vvar a)
  && opt_okb (fun x => store_okb axes (fst x) && forallb (varidx_okb (Some (fst x))) (snd x)) (fa_mvar a)
  && opt_okb (fun x => all_ltb (snd x) (fst x)) (fa_stat a)
  && opt_okb (gdef_okb ng axes) (fa_gdef a)
  && opt_okb (layout_okb ng axes marksets gstore) (fa_gsub a)
  && opt_okb (layout_okb ng axes marksets gstore) (fa_gpos a).

Definition check_font (f : list N) (a : font_abs) : bool := check_sfnt f && check_abs a.

(* ================================================================== *)
(** * D. where fontbe puts the tables together *)

(* ---- every glyph-indexed table is a map over the one final glyph order ---------- *)
(* Glyph names are interned to numbers.  `order` is the final glyph order
   (context.ir.glyph_order); a source glyph is its outline kind with components by name. *)
Inductive src_glyph := SEmpty | SSimple (npts nctr : N) | SComposite (comps : list N).

Fixpoint gid_of (name : N) (order : list N) (i : N) : option N :=
  match order with
  | [] => None
  | x :: t => if x =? name then Some i else gid_of name t (i + 1)
  end.

(* create_component_ref_name: the glyph id comes from the final glyph order; a name that is not
   in it is GlyphProblem::NotInGlyphOrder and the build fails *)
Fixpoint resolve_comps (order : list N) (cs : list N) : option (list N) :=
  match cs with
  | [] => Some []
  | c :: t =>
      match gid_of c order 0, resolve_comps order t with
      | Some g, Some r => Some (g :: r)
      | _, _ => None
      end
  end.

Definition compile_glyph (order : list N) (s : src_glyph) : option glyph :=
  match s with
  | SEmpty => Some GEmpty
  | SSimple p c => Some (GSimple p c)
  | SComposite cs => option_map GComposite (resolve_comps order cs)
  end.

Fixpoint sequence {A} (l : list (option A)) : option (list A) :=
  match l with
  | [] => Some []
  | Some x :: t => option_map (cons x) (sequence t)
  | None :: _ => None
  end.

(* ---- post names (post.rs PostWork::exec) --------------------------------------------- *)
(* A name is its UTF-8 bytes.  With production names (static_metadata.postscript_names = Some map):
   rename through the map, strip every character outside [A-Za-z0-9._] (all bytes of a non-ASCII
   character go), make duplicates unique with a ".N" suffix, THEN check that every final name fits
   a Pascal string.  The suffix makes names longer, so the check is on the final names. *)
Definition name := list N.

Definition keep_char (c : N) : bool :=
  ((48 <=? c) && (c <=? 57)) || ((65 <=? c) && (c <=? 90)) || ((97 <=? c) && (c <=? 122))
  || (c =? 46) || (c =? 95).

(* HashMap<String, usize> `seen`: newest entry first *)
Fixpoint seen_get (seen : list (name * N)) (k : name) : option N :=
  match seen with
  | [] => None
  | (k', v) :: t => if words_eqb k' k then Some v else seen_get t k
  end.

(* format!("{n}") *)
Fixpoint dec_digits (fuel : nat) (n : N) : name :=
  match fuel with
  | O => []
  | S f => if n <? 10 then [48 + n] else dec_digits f (n / 10) ++ [48 + n mod 10]
  end.
Definition dec (n : N) : name := dec_digits (S (N.to_nat (N.log2 n))) n.

Definition suffixed (nm : name) (n : N) : name := nm ++ [46] ++ dec n.

(* while seen.contains_key(&format!("{name}.{n}")) { n += 1 }: at most |seen| keys are taken *)
Fixpoint free_suffix (fuel : nat) (seen : list (name * N)) (nm : name) (n : N) : N :=
  match fuel with
  | O => n
  | S f => match seen_get seen (suffixed nm n) with
           | Some _ => free_suffix f seen nm (n + 1)
           | None => n
           end
  end.

Definition post_step (st : list (name * N) * list name) (raw : name) : list (name * N) * list name :=
  let nm := filter keep_char raw in
  match seen_get (fst st) nm with
  | Some n =>
      let n' := free_suffix (S (length (fst st))) (fst st) nm n in
      let nm1 := suffixed nm n' in
      ((nm1, 1) :: (nm, n' + 1) :: fst st, snd st ++ [nm1])
  | None => ((nm, 1) :: fst st, snd st ++ [nm])
  end.

Definition production_names (raws : list name) : list name := snd (fold_left post_step raws ([], [])).

Fixpoint lookup_rename (m : list (N * name)) (g : N) : option name :=
  match m with
  | [] => None
  | (k, v) :: t => if k =? g then Some v else lookup_rename t g
  end.

(* the names post would hold, before the length check *)
Definition final_names (order : list N) (nm : N -> name) (rename : option (list (N * name))) : list name :=
  match rename with
  | Some m => production_names (map (fun g => match lookup_rename m g with Some r => r | None => nm g end) order)
  | None => map nm order
  end.

Definition name_fits (n : name) : bool := N.of_nat (length n) <=? 255.

(* check_name_lengths on the final names: Error::OutOfBounds = None *)
Definition post_names (order : list N) (nm : N -> name) (rename : option (list (N * name))) : option (list name) :=
  let finals := final_names order nm rename in
  if forallb name_fits finals then Some finals else None.

Record be_tables := mkBE {
  be_glyf : list glyph;      (* GlyfLocaBuilder: one glyph per name; loca has one more entry *)
  be_hmtx : list N;          (* one advance per name *)
  be_post : list name;       (* one (final) name per name *)
  be_gvar : list N;          (* one GlyphVariations per name (make_variations) *)
  be_hvar : list N }.        (* one delta set per name (AdvanceDeltas) *)

(* `nm g` is the source name of glyph g, `rename` is public.postscriptNames when production names
   are in effect *)
Definition be_build (order : list N) (src : N -> src_glyph) (adv : N -> N) (var hv : N -> N)
                    (nm : N -> name) (rename : option (list (N * name)))
  : option be_tables :=
  match post_names order nm rename with
  | None => None
  | Some finals =>
      match sequence (map (fun n => compile_glyph order (src n)) order) with
      | Some gl => Some (mkBE gl (map adv order) finals (map var order) (map hv order))
      | None => None
      end
  end.

(* for the correspondence run: glyph ids 0..n-1 with the given source names; `impl` is what the
   compiler did: None = build error from the length check, Some = the names read back from post *)
Fixpoint names_eqb (a b : list name) : bool :=
  match a, b with
  | [], [] => true
  | x :: a', y :: b' => words_eqb x y && names_eqb a' b'
  | _, _ => false
  end.

Fixpoint count_up (n : nat) (i : N) : list N :=
  match n with O => [] | S n' => i :: count_up n' (i + 1) end.

Definition post_agree (names : list name) (rename : option (list (N * name))) (impl : option (list name)) : bool :=
  match post_names (count_up (length names) 0) (fun g => nth (N.to_nat g) names []) rename, impl with
  | None, None => true
  | Some a, Some b => names_eqb a b
  | _, _ => false
  end.

(* ---- FontWork::exec and bytes_for -------------------------------------------------- *)
(* One slot per entry of TABLES_TO_MERGE: has() and what to_bytes returned
   (write_fonts::dump_table: None when validation or offset packing failed). *)
Record slot := mkSlot { s_tag : N; s_has : bool; s_bytes : option tbl }.

(* the loop of FontWork::exec: a table that does not exist is skipped; a table that exists but
   cannot be serialised makes bytes_for return Error::DumpTableError and the job fail (None) *)
Fixpoint exec_tables (slots : list slot) : option (list tbl) :=
  match slots with
  | [] => Some []
  | s :: rest =>
      if s_has s then
        match s_bytes s, exec_tables rest with
        | Some t, Some ts => Some (t :: ts)
        | _, _ => None
        end
      else exec_tables rest
  end.

Definition exec_font (slots : list slot) : option (list N) := option_map fontbuilder (exec_tables slots).

(* the code before the repair (fix: recorded in known_findings.txt): to_bytes(..).ok() turned a
   failed serialisation into "no content" and the job still returned Ok.  Kept for the witness in
   Props.v; the harness reports key table-dropped-when-serialisation-fails should this return. *)
Definition exec_tables_unrepaired (slots : list slot) : list tbl :=
  flat_map (fun s => if s_has s then match s_bytes s with Some t => [t] | None => [] end else []) slots.
