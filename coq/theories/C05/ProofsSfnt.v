(* C05 — soundness of the container checker. *)
From Coq Require Import List NArith Bool Lia Arith Sorting.Sorted Sorting.Permutation.
From Coq Require Import ZifyBool ZifyN ZifyNat.
From FV.C05 Require Import Model Spec.
Import ListNotations.
Open Scope N_scope.

Ltac bsplit :=
  repeat match goal with
         | H : _ && _ = true |- _ => apply andb_true_iff in H; destruct H
         end.

(* ---- insertion sort ---------------------------------------------------------- *)
Lemma insert_by_perm {A} (key : A -> N) x l : Permutation (insert_by key x l) (x :: l).
Proof.
  induction l as [|y t IH]; cbn [insert_by]; [reflexivity|].
  destruct (key x <=? key y); [reflexivity|].
  rewrite IH. apply perm_swap.
Qed.

Lemma isort_perm {A} (key : A -> N) l : Permutation (isort key l) l.
Proof.
  induction l as [|x t IH]; cbn [isort]; [reflexivity|].
  rewrite insert_by_perm. constructor. exact IH.
Qed.

Lemma insert_by_sorted {A} (key : A -> N) x l :
  Sorted (fun a b => key a <= key b) l -> Sorted (fun a b => key a <= key b) (insert_by key x l).
Proof.
  induction 1 as [|y t Hs IH Hd]; cbn [insert_by]; [repeat constructor|].
  destruct (N.leb_spec (key x) (key y)) as [L|L].
  - constructor; [constructor; assumption|constructor; exact L].
  - constructor; [exact IH|].
    destruct t as [|z t']; cbn [insert_by]; [constructor; lia|].
    destruct (N.leb_spec (key x) (key z)); constructor; [lia|].
    inversion Hd; assumption.
Qed.

Lemma isort_sorted {A} (key : A -> N) l : Sorted (fun a b => key a <= key b) (isort key l).
Proof. induction l as [|x t IH]; cbn [isort]; [constructor|apply insert_by_sorted; exact IH]. Qed.

(* ---- small facts ---------------------------------------------------------------- *)
Lemma strict_asc_sorted l : strict_asc l = true -> StronglySorted N.lt l.
Proof.
  intro H. apply Sorted_StronglySorted; [intros a b c; apply N.lt_trans|].
  induction l as [|x [|y t] IH]; [constructor|repeat constructor|].
  cbn [strict_asc] in H. bsplit. constructor; [apply IH; assumption|constructor; lia].
Qed.

Lemma chainb_Chain l : forall p e, chainb p l = Some e -> Chain p l e.
Proof.
  induction l as [|r t IH]; intros p e H; cbn [chainb] in H.
  - inversion H; subst. constructor.
  - destruct (N.eqb_spec (r_off r) p) as [E|E]; [|discriminate]. constructor; [exact E|apply IH; exact H].
Qed.

Lemma parse_recs_length n : forall ws rs, parse_recs n ws = Some rs -> length rs = n.
Proof.
  induction n as [|n IH]; intros ws rs H; cbn [parse_recs] in H.
  - inversion H; reflexivity.
  - destruct ws as [|t [|c [|o [|l rest]]]]; try discriminate.
    destruct (parse_recs n rest) eqn:E; [|discriminate]. inversion H; subst. cbn [length].
    f_equal. eapply IH; exact E.
Qed.

Lemma parse_dir_count f d : parse_dir f = Some d -> N.of_nat (length (d_recs d)) = d_n d.
Proof.
  unfold parse_dir. destruct f as [|v [|a [|b rest]]]; try discriminate.
  destruct (parse_recs _ rest) eqn:E; [|discriminate]. intro H; inversion H; subst. cbn [d_recs d_n].
  apply parse_recs_length in E. rewrite E. apply N2Nat.id.
Qed.

Lemma pad_ok_sound len ws : pad_ok len ws = true -> padding_zero len ws.
Proof.
  unfold pad_ok, padding_zero. destruct (len mod 4) eqn:E; [left; reflexivity|].
  intro H. right. apply N.eqb_eq in H. exact H.
Qed.

Lemma table_okb_sound f r : table_okb f r = true -> table_ok f r.
Proof.
  unfold table_okb, table_ok. cbv zeta. intro H. bsplit.
  repeat split; try (apply N.eqb_eq; assumption). apply pad_ok_sound; assumption.
Qed.

Lemma memN_In x l : memN x l = true -> In x l.
Proof.
  unfold memN. intro H. apply existsb_exists in H. destruct H as (y & Hy & E).
  apply N.eqb_eq in E. subst. exact Hy.
Qed.

Lemma search_okb_sound d : search_okb d = true -> search_ok d.
Proof.
  unfold search_okb, search_ok. cbv zeta. intro H. bsplit.
  apply N.leb_le in H. apply N.eqb_eq in H2, H1, H0.
  rewrite H2. split; [|split; [exact H1|exact H0]].
  rewrite N.add_1_r. apply N.log2_spec. lia.
Qed.

Lemma find_some_in {A} (p : A -> bool) l x : find p l = Some x -> In x l /\ p x = true.
Proof. apply find_some. Qed.

Lemma head_adjust_okb_sound f recs : head_adjust_okb f recs = true -> head_adjust_ok f recs.
Proof.
  unfold head_adjust_okb, head_adjust_ok. destruct (find _ recs) as [h|] eqn:E; [|discriminate].
  apply find_some in E. destruct E as [Hin Ht]. apply N.eqb_eq in Ht.
  intro H. bsplit. exists h. split; [exact Hin|]. split; [exact Ht|].
  split; [apply N.leb_le; assumption|]. cbv zeta. split.
  - apply Nat.ltb_lt. assumption.
  - apply N.eqb_eq. assumption.
Qed.

Theorem check_sfnt_sound f : check_sfnt f = true -> WF_sfnt f.
Proof.
  unfold check_sfnt. destruct (parse_dir f) as [d|] eqn:P; [|discriminate].
  intro H. bsplit.
  destruct (chainb (12 + 16 * d_n d) (isort r_off (d_recs d))) as [e|] eqn:C; [|discriminate].
  exists d, (isort r_off (d_recs d)).
  split; [exact P|]. split; [apply N.eqb_eq; assumption|].
  split; [apply parse_dir_count with f; exact P|].
  split; [apply search_okb_sound; assumption|].
  split; [apply strict_asc_sorted; assumption|].
  split; [apply isort_perm|].
  split.
  { match goal with E : (e =? _) = true |- _ => apply N.eqb_eq in E; rewrite <- E end.
    apply chainb_Chain. exact C. }
  split.
  { apply Forall_forall. intros r Hr. apply table_okb_sound.
    match goal with E : forallb (table_okb f) _ = true |- _ => rewrite forallb_forall in E; apply E; exact Hr end. }
  split.
  { intros t Ht. apply memN_In.
    match goal with E : forallb (fun t => memN t _) _ = true |- _ => rewrite forallb_forall in E; apply E; exact Ht end. }
  apply head_adjust_okb_sound. assumption.
Qed.
