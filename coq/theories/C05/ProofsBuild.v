(* C05 — FontBuilder::build produces a well-formed container, for every set of tables. *)
From Coq Require Import List NArith ZArith Bool Lia Arith Sorting.Sorted Sorting.Permutation.
From Coq Require Import ZifyBool ZifyN ZifyNat.
From FV.C05 Require Import Model Spec ProofsSfnt.
Import ListNotations.
Open Scope N_scope.
Ltac Zify.zify_post_hook ::= Z.div_mod_to_equations.

(* ---- lists ------------------------------------------------------------------ *)
Lemma set_nth_cons i v x l : set_nth (S i) v (x :: l) = x :: set_nth i v l.
Proof. reflexivity. Qed.

Lemma set_nth_length i v : forall l, length (set_nth i v l) = length l.
Proof.
  induction i as [|i IH]; intros [|x l]; try reflexivity.
  rewrite set_nth_cons. cbn [length]. f_equal. apply IH.
Qed.

Lemma sumN_app a b : sumN (a ++ b) = sumN a + sumN b.
Proof. induction a as [|x a IH]; cbn [app sumN fold_right]; [reflexivity|]. fold (sumN (a ++ b)). fold (sumN a). lia. Qed.

Lemma sumN_set_nth i v : forall l, (i < length l)%nat -> sumN (set_nth i v l) + nth i l 0 = sumN l + v.
Proof.
  induction i as [|i IH]; intros [|x l] H; cbn [length] in H; try lia.
  - unfold set_nth. cbn. lia.
  - rewrite set_nth_cons. cbn [sumN fold_right nth]. fold (sumN (set_nth i v l)). fold (sumN l).
    specialize (IH l ltac:(lia)). lia.
Qed.

Lemma set_nth_twice i v w : forall l, set_nth i v (set_nth i w l) = set_nth i v l.
Proof.
  induction i as [|i IH]; intros [|x l]; try reflexivity.
  rewrite !set_nth_cons. f_equal. apply IH.
Qed.

Lemma nth_set_nth i v : forall l, (i < length l)%nat -> nth i (set_nth i v l) 0 = v.
Proof.
  induction i as [|i IH]; intros [|x l] H; cbn [length] in H; try lia; [reflexivity|].
  rewrite set_nth_cons. cbn [nth]. apply IH. lia.
Qed.

Lemma nth_skipn_add o : forall (l : list N) i d, nth i (skipn o l) d = nth (o + i) l d.
Proof.
  induction o as [|o IH]; intros l i d; [reflexivity|].
  destruct l as [|x l]; cbn [skipn Nat.add nth]; [destruct i; reflexivity|apply IH].
Qed.

Lemma nth_firstn_lt k : forall (l : list N) i d, (i < k)%nat -> nth i (firstn k l) d = nth i l d.
Proof.
  induction k as [|k IH]; intros l i d H; [lia|].
  destruct l as [|x l]; [reflexivity|]. destruct i as [|i]; [reflexivity|].
  cbn [firstn nth]. apply IH. lia.
Qed.

Lemma last_set_nth2 v (l : list N) : (3 < length l)%nat -> last (set_nth 2 v l) 0 = last l 0.
Proof.
  destruct l as [|a [|b [|c [|e t]]]]; cbn [length]; try lia. intros _. reflexivity.
Qed.

Lemma flat_map_rec_words_length rs : length (flat_map rec_words rs) = (4 * length rs)%nat.
Proof. induction rs as [|r rs IH]; [reflexivity|]. cbn [flat_map rec_words app length]. lia. Qed.

Lemma parse_recs_flat rs : forall rest, parse_recs (length rs) (flat_map rec_words rs ++ rest) = Some rs.
Proof.
  induction rs as [|r rs IH]; intro rest; [reflexivity|].
  cbn [length flat_map rec_words app parse_recs]. rewrite IH. destruct r; reflexivity.
Qed.

Lemma slice_at pre blk post len : N.of_nat (length blk) = nwords len ->
  slice (pre ++ blk ++ post) (4 * N.of_nat (length pre)) len = blk.
Proof.
  intro H. unfold slice. replace (4 * N.of_nat (length pre) / 4) with (N.of_nat (length pre)) by lia.
  rewrite Nat2N.id. rewrite skipn_app, skipn_all, Nat.sub_diag. cbn [app skipn].
  rewrite <- H, Nat2N.id. rewrite firstn_app, firstn_all, Nat.sub_diag. cbn [firstn]. apply app_nil_r.
Qed.

(* ---- sorting gives a strictly ascending directory -------------------------------- *)
Lemma sorted_strict {A} (key : A -> N) l :
  Sorted (fun a b => key a <= key b) l -> NoDup (map key l) -> StronglySorted N.lt (map key l).
Proof.
  intros Hs Hnd. apply Sorted_StronglySorted in Hs; [|intros a b c; apply N.le_trans].
  induction Hs as [|x l Hs IH Hall]; cbn [map]; [constructor|].
  cbn [map] in Hnd. inversion Hnd as [|? ? Hni Hnd']; subst. constructor; [apply IH; exact Hnd'|].
  apply Forall_forall. intros k Hk. apply in_map_iff in Hk. destruct Hk as (y & <- & Hy).
  rewrite Forall_forall in Hall. specialize (Hall y Hy).
  assert (key x <> key y) by (intro E; apply Hni; rewrite E; apply in_map; exact Hy). lia.
Qed.

(* ---- layout ------------------------------------------------------------------------ *)
Fixpoint body_len (ts : list tbl) : N :=
  match ts with [] => 0 | t :: r => nwords (t_len t) + body_len r end.

Lemma layout_tags ts : forall p, map r_tag (layout p ts) = map t_tag ts.
Proof. induction ts as [|t ts IH]; intro p; [reflexivity|]. cbn [layout map r_tag]. f_equal. apply IH. Qed.

Lemma layout_length ts : forall p, length (layout p ts) = length ts.
Proof. induction ts as [|t ts IH]; intro p; [reflexivity|]. cbn [layout length]. f_equal. apply IH. Qed.

Lemma layout_chain ts : forall p, Chain p (layout p ts) (p + 4 * body_len ts).
Proof.
  induction ts as [|t ts IH]; intro p; cbn [layout body_len].
  - replace (p + 4 * 0) with p by lia. constructor.
  - constructor; [reflexivity|]. cbn [r_len].
    replace (p + 4 * (nwords (t_len t) + body_len ts)) with (p + 4 * nwords (t_len t) + 4 * body_len ts) by lia.
    apply IH.
Qed.

Section Body.
  Variable adj : N.
  Definition g (t : tbl) : list N := if is_head t then set_nth 2 adj (t_words t) else t_words t.
  Definition mk (t : tbl) : list N := masked (t_tag t) (t_len t) (t_words t).

  Lemma g_length t : length (g t) = length (t_words t).
  Proof. unfold g. destruct (is_head t); [apply set_nth_length|reflexivity]. Qed.

  Lemma body_length ts : Forall tbl_ok ts -> N.of_nat (length (flat_map g ts)) = body_len ts.
  Proof.
    induction 1 as [|t ts Ht _ IH]; [reflexivity|].
    cbn [flat_map body_len]. rewrite app_length, g_length. destruct Ht as [L _]. lia.
  Qed.

  Lemma masked_g t : masked (t_tag t) (t_len t) (g t) = mk t.
  Proof.
    unfold g, mk, masked, is_head. destruct ((t_tag t =? TAG_head) && (12 <=? t_len t)); [|reflexivity].
    apply set_nth_twice.
  Qed.

  Lemma pad_g t : tbl_ok t -> pad_ok (t_len t) (g t) = true.
  Proof.
    intros (L & P & Hh). unfold g, is_head.
    destruct (N.eqb_spec (t_tag t) TAG_head) as [E|E]; cbn [andb]; [|exact P].
    destruct (N.leb_spec 12 (t_len t)) as [L12|L12]; [|exact P].
    unfold pad_ok in *. destruct (t_len t mod 4) eqn:M; [reflexivity|].
    rewrite last_set_nth2; [exact P|]. unfold nwords in L. lia.
  Qed.

  (* what the directory says about each table, in a file that has the body after `pre` *)
  Definition rec_for (f : list N) (t : tbl) (r : trec) : Prop :=
    r_tag r = t_tag t /\ r_len r = t_len t /\ r_off r mod 4 = 0
    /\ slice f (r_off r) (r_len r) = g t /\ r_sum r = cksum (mk t).

  Lemma layout_recs ts : forall pre post, Forall tbl_ok ts ->
    Forall2 (rec_for (pre ++ flat_map g ts ++ post)) ts (layout (4 * N.of_nat (length pre)) ts).
  Proof.
    induction ts as [|t ts IH]; intros pre post H; [constructor|].
    inversion H as [|? ? Ht Hts]; subst. cbn [layout flat_map]. constructor.
    - unfold rec_for. cbn [r_tag r_len r_off r_sum]. repeat split; try reflexivity; [lia|].
      rewrite <- app_assoc. apply slice_at. rewrite g_length. apply Ht.
    - specialize (IH (pre ++ g t) post Hts).
      replace (4 * N.of_nat (length pre) + 4 * nwords (t_len t)) with (4 * N.of_nat (length (pre ++ g t))).
      + rewrite <- app_assoc in IH. rewrite <- app_assoc. exact IH.
      + rewrite app_length, g_length. destruct Ht as [L _]. lia.
  Qed.

  Lemma rec_for_table_ok f t r : tbl_ok t -> rec_for f t r -> table_ok f r.
  Proof.
    intros Ht (E1 & E2 & E3 & E4 & E5). unfold table_ok. cbv zeta. rewrite E4, E1, E2.
    split; [exact E3|]. split; [rewrite g_length; apply Ht|].
    split; [apply pad_ok_sound, pad_g; exact Ht|]. rewrite masked_g. exact E5.
  Qed.

  Lemma no_head_later t ts : NoDup (map t_tag (t :: ts)) -> is_head t = true -> existsb is_head ts = false.
  Proof.
    intros Hnd Hh. cbn [map] in Hnd. inversion Hnd as [|? ? Hni _]; subst.
    destruct (existsb is_head ts) eqn:E; [|reflexivity]. exfalso. apply Hni.
    apply existsb_exists in E. destruct E as (u & Hu & Hhu). unfold is_head in *.
    apply andb_true_iff in Hh, Hhu. destruct Hh as [A _], Hhu as [B _].
    apply N.eqb_eq in A, B. rewrite A, <- B. apply in_map. exact Hu.
  Qed.

  Lemma mk_not_head t : is_head t = false -> mk t = t_words t.
  Proof. unfold mk, masked, is_head. intros ->. reflexivity. Qed.

  Lemma sum_body ts : NoDup (map t_tag ts) -> Forall tbl_ok ts ->
    sumN (flat_map g ts) = sumN (flat_map mk ts) + (if existsb is_head ts then adj else 0).
  Proof.
    induction ts as [|t ts IH]; intros Hnd Hok; [reflexivity|].
    inversion Hok as [|? ? Ht Hts]; subst.
    assert (Hnd' : NoDup (map t_tag ts)) by (cbn [map] in Hnd; inversion Hnd; assumption).
    cbn [flat_map existsb]. rewrite !sumN_app, (IH Hnd' Hts).
    destruct (is_head t) eqn:Hh; cbn [orb].
    - rewrite (no_head_later _ _ Hnd Hh).
      assert (L3 : (2 < length (t_words t))%nat).
      { destruct Ht as (L & _ & _). unfold is_head in Hh. apply andb_true_iff in Hh. destruct Hh as [_ B].
        apply N.leb_le in B. unfold nwords in L. lia. }
      unfold g, mk, masked. unfold is_head in Hh. rewrite Hh. fold (is_head t).
      assert (is_head t = true) as -> by exact Hh.
      pose proof (sumN_set_nth 2 adj _ L3). pose proof (sumN_set_nth 2 0 _ L3). lia.
    - unfold g. rewrite Hh, (mk_not_head _ Hh). lia.
  Qed.
End Body.

Lemma sumN_flat_mk ts p : sumN (map r_sum (layout p ts)) mod W32 = sumN (flat_map mk ts) mod W32.
Proof.
  revert p. induction ts as [|t ts IH]; intro p; [reflexivity|].
  cbn [layout map r_sum flat_map sumN fold_right]. fold (sumN (map r_sum (layout (p + 4 * nwords (t_len t)) ts))).
  rewrite sumN_app. fold (mk t). unfold cksum.
  rewrite N.add_mod by (unfold W32; lia). rewrite N.mod_mod by (unfold W32; lia). rewrite (IH _).
  rewrite <- N.add_mod by (unfold W32; lia). reflexivity.
Qed.

Lemma Forall2_in_l {A B} (R : A -> B -> Prop) l1 l2 a : Forall2 R l1 l2 -> In a l1 -> exists b, In b l2 /\ R a b.
Proof.
  induction 1 as [|x y l1 l2 Hxy _ IH]; intro H; [contradiction|].
  destruct H as [->|H]; [exists y; split; [left; reflexivity|exact Hxy]|].
  destruct (IH H) as (b & Hb & Rb). exists b. split; [right; exact Hb|exact Rb].
Qed.

Lemma Forall2_Forall_r {A B} (R : A -> B -> Prop) (P : A -> Prop) (Q : B -> Prop) l1 l2 :
  (forall a b, P a -> R a b -> Q b) -> Forall P l1 -> Forall2 R l1 l2 -> Forall Q l2.
Proof.
  intros H HP HR. induction HR as [|x y l1 l2 Hxy _ IH]; [constructor|].
  inversion HP; subst. constructor; [eapply H; eassumption|apply IH; assumption].
Qed.

Theorem build_wf ts : tables_ok ts -> WF_sfnt (build ts).
Proof.
  intros (Hnd & Hok & Hn & Hreq). unfold build. cbv zeta.
  set (n := N.of_nat (length ts)).
  set (recs := layout (12 + 16 * n) ts).
  set (sorted := isort r_tag recs).
  set (dir := dir_words n sorted).
  set (total := (sumN (map r_sum recs) + cksum dir) mod W32).
  set (adj := (ADJ_MAGIC + W32 - total) mod W32).
  fold (g adj). set (body := flat_map (g adj) ts). set (f := dir ++ body).
  assert (Hlen_sorted : length sorted = length ts).
  { unfold sorted. rewrite (Permutation_length (isort_perm r_tag recs)). apply layout_length. }
  assert (Hlog : 2 ^ N.log2 n <= n < 2 ^ (N.log2 n + 1)).
  { rewrite N.add_1_r. apply N.log2_spec. lia. }
  assert (Hlogn : N.log2 n <= n) by (apply N.log2_le_lin; lia).
  set (sr := 16 * 2 ^ N.log2 n) in *.
  assert (Hdirlen : length dir = (3 + 4 * length ts)%nat).
  { unfold dir, dir_words. cbv zeta. cbn [app length]. rewrite flat_map_rec_words_length, Hlen_sorted. lia. }
  exists (mkDir 0x00010000 n sr (N.log2 n) (16 * n - sr) sorted), recs.
  cbn [d_ver d_n d_sr d_es d_rs d_recs].
  (* the file seen as pre ++ body ++ [] *)
  assert (Hrecs : Forall2 (rec_for adj f) ts recs).
  { unfold f, recs. replace (12 + 16 * n) with (4 * N.of_nat (length dir)) by lia.
    pose proof (layout_recs adj ts dir [] Hok) as L. rewrite app_nil_r in L. exact L. }
  split.
  { (* parse *)
    unfold f, dir, dir_words. cbv zeta. fold sr. cbn [app]. unfold parse_dir.
    replace ((n * 65536 + sr) / 65536) with n by (unfold sr in *; lia).
    replace ((n * 65536 + sr) mod 65536) with sr by (unfold sr in *; lia).
    replace ((N.log2 n * 65536 + (16 * n - sr)) / 65536) with (N.log2 n) by (unfold sr in *; lia).
    replace ((N.log2 n * 65536 + (16 * n - sr)) mod 65536) with (16 * n - sr) by (unfold sr in *; lia).
    unfold n at 1. rewrite Nat2N.id, <- Hlen_sorted, parse_recs_flat. reflexivity. }
  split; [reflexivity|].
  split; [unfold n; rewrite Hlen_sorted; reflexivity|].
  split; [unfold search_ok; cbn [d_n d_es d_sr d_rs]; repeat split; try reflexivity; lia|].
  split.
  { apply sorted_strict; [apply isort_sorted|].
    eapply Permutation_NoDup; [apply Permutation_map, Permutation_sym, isort_perm|].
    unfold recs. rewrite layout_tags. exact Hnd. }
  split; [apply Permutation_sym, isort_perm|].
  split.
  { replace (4 * N.of_nat (length f)) with (12 + 16 * n + 4 * body_len ts); [apply layout_chain|].
    unfold f. rewrite app_length, Hdirlen. unfold body. pose proof (body_length adj ts Hok). lia. }
  assert (Htab : Forall (table_ok f) recs).
  { eapply Forall2_Forall_r; [|exact Hok|exact Hrecs]. intros t r Ht Hr. eapply rec_for_table_ok; eassumption. }
  split; [eapply Permutation_Forall; [apply Permutation_sym, isort_perm|exact Htab]|].
  split.
  { intros t Ht. eapply Permutation_in; [apply Permutation_map, Permutation_sym, isort_perm|].
    unfold recs. rewrite layout_tags. apply Hreq. exact Ht. }
  (* head.checkSumAdjustment *)
  assert (Hhead : In TAG_head (map t_tag ts)) by (apply Hreq; cbn; tauto).
  apply in_map_iff in Hhead. destruct Hhead as (th & Eth & Hth).
  destruct (Forall2_in_l _ _ _ _ Hrecs Hth) as (h & Hh & (E1 & E2 & E3 & E4 & E5)).
  assert (Hth_ok : tbl_ok th) by (rewrite Forall_forall in Hok; apply Hok; exact Hth).
  assert (H12 : 12 <= t_len th) by (apply Hth_ok; exact Eth).
  assert (His : is_head th = true).
  { unfold is_head. rewrite Eth, N.eqb_refl. cbn [andb]. apply N.leb_le. exact H12. }
  assert (L3 : (2 < length (t_words th))%nat).
  { destruct Hth_ok as (L & _ & _). unfold nwords in L. lia. }
  exists h. split; [eapply Permutation_in; [apply Permutation_sym, isort_perm|exact Hh]|].
  split; [congruence|]. split; [rewrite E2; exact H12|]. cbv zeta.
  set (o := N.to_nat (r_off h / 4)).
  replace (N.to_nat (r_off h / 4 + 2)) with (o + 2)%nat by (unfold o; lia).
  assert (Hsl : firstn (N.to_nat (nwords (r_len h))) (skipn o f) = g adj th) by exact E4.
  assert (Hk : (2 < N.to_nat (nwords (r_len h)))%nat) by (rewrite E2; unfold nwords; lia).
  assert (Hnth : nth (o + 2) f 0 = adj).
  { rewrite <- nth_skipn_add. rewrite <- (nth_firstn_lt _ _ _ _ Hk), Hsl. unfold g. rewrite His.
    apply nth_set_nth. exact L3. }
  assert (Hin : (o + 2 < length f)%nat).
  { assert (length (g adj th) = length (t_words th)) as Lg by apply g_length.
    rewrite <- Hsl in Lg. rewrite firstn_length, skipn_length in Lg. lia. }
  split; [exact Hin|]. rewrite Hnth. unfold adj at 1. f_equal. f_equal.
  (* the checksum of the file with the field zeroed is what the builder summed *)
  pose proof (sumN_set_nth (o + 2) 0 f Hin) as S1. rewrite Hnth in S1.
  assert (S2 : sumN f = sumN dir + sumN (flat_map mk ts) + adj).
  { unfold f, body. rewrite sumN_app, (sum_body adj ts Hnd Hok).
    assert (existsb is_head ts = true) as -> by (apply existsb_exists; exists th; split; assumption). lia. }
  unfold cksum, total. replace (sumN (set_nth (o + 2) 0 f)) with (sumN dir + sumN (flat_map mk ts)) by lia.
  unfold cksum. rewrite (N.add_mod (sumN (map r_sum recs))) by (unfold W32; lia).
  unfold recs. rewrite sumN_flat_mk. rewrite N.mod_mod by (unfold W32; lia).
  rewrite <- N.add_mod by (unfold W32; lia). f_equal. lia.
Qed.

(* fontbuilder = build after putting the tables into the recommended physical order *)
Lemma tables_ok_perm ts ts' : Permutation ts ts' -> tables_ok ts -> tables_ok ts'.
Proof.
  intros P (A & B & C & D). split; [|split; [|split]].
  - eapply Permutation_NoDup; [apply Permutation_map; exact P|exact A].
  - eapply Permutation_Forall; eassumption.
  - rewrite <- (Permutation_length P). exact C.
  - intros t Ht. eapply Permutation_in; [apply Permutation_map; exact P|apply D; exact Ht].
Qed.

Theorem fontbuilder_wf ts : tables_ok ts -> WF_sfnt (fontbuilder ts).
Proof.
  intro H. unfold fontbuilder. apply build_wf. eapply tables_ok_perm; [|exact H].
  apply Permutation_sym, isort_perm.
Qed.
