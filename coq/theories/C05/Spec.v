(* C05 — the declarative well-formedness statements the checkers are proved sound against.
   Nothing here computes: these are the sentences of the property, written over the file (a
   list of 32-bit words) and over the decoded font. *)
From Coq Require Import List NArith Bool Sorting.Sorted Sorting.Permutation.
From FV.C05 Require Import Model.
Import ListNotations.
Open Scope N_scope.

(** * the container *)

(* the tables follow one another from `p` to `e`, each padded to a multiple of four bytes *)
Inductive Chain : N -> list trec -> N -> Prop :=
| Chain_nil p : Chain p [] p
| Chain_cons p r t e : r_off r = p -> Chain (p + 4 * nwords (r_len r)) t e -> Chain p (r :: t) e.

Definition padding_zero (len : N) (ws : list N) : Prop :=
  len mod 4 = 0 \/ last ws 0 mod 256 ^ (4 - len mod 4) = 0.

Definition table_ok (f : list N) (r : trec) : Prop :=
  let ws := slice f (r_off r) (r_len r) in
  r_off r mod 4 = 0
  /\ N.of_nat (length ws) = nwords (r_len r)          (* the table lies wholly inside the file *)
  /\ padding_zero (r_len r) ws
  /\ r_sum r = cksum (masked (r_tag r) (r_len r) ws).

Definition search_ok (d : sfdir) : Prop :=
  2 ^ d_es d <= d_n d < 2 ^ (d_es d + 1)
  /\ d_sr d = 16 * 2 ^ d_es d /\ d_rs d = 16 * d_n d - d_sr d.

Definition head_adjust_ok (f : list N) (recs : list trec) : Prop :=
  exists h, In h recs /\ r_tag h = TAG_head /\ 12 <= r_len h
    /\ let i := N.to_nat (r_off h / 4 + 2) in
       (i < length f)%nat
       /\ nth i f 0 = (ADJ_MAGIC + W32 - cksum (set_nth i 0 f)) mod W32.

Definition WF_sfnt (f : list N) : Prop :=
  exists d phys,
    parse_dir f = Some d
    /\ d_ver d = 0x00010000
    /\ N.of_nat (length (d_recs d)) = d_n d
    /\ search_ok d
    /\ StronglySorted N.lt (map r_tag (d_recs d))                 (* directory sorted, no tag twice *)
    /\ Permutation phys (d_recs d)
    /\ Chain (12 + 16 * d_n d) phys (4 * N.of_nat (length f))     (* header, tables, nothing else *)
    /\ Forall (table_ok f) (d_recs d)
    /\ (forall t, In t required_tags -> In t (map r_tag (d_recs d)))
    /\ head_adjust_ok f (d_recs d).

(** * the component graph *)

Inductive edge (gl : list glyph) : N -> N -> Prop :=
| edge_intro g cs c : glyph_at gl g = Some (GComposite cs) -> In c cs -> edge gl g c.

(* a walk of n component references *)
Inductive path (gl : list glyph) : N -> N -> nat -> Prop :=
| path_nil g : path gl g g 0
| path_cons g c h n : edge gl g c -> path gl c h n -> path gl g h (S n).

Definition acyclic (gl : list glyph) : Prop := forall g n, path gl g g n -> n = 0%nat.

(* points and contours of the fully flattened glyph *)
Inductive flat (gl : list glyph) : N -> N -> N -> Prop :=
| flat_empty g : glyph_at gl g = Some GEmpty -> flat gl g 0 0
| flat_simple g p c : glyph_at gl g = Some (GSimple p c) -> flat gl g p c
| flat_comp g cs p c : glyph_at gl g = Some (GComposite cs) -> flat_list gl cs p c -> flat gl g p c
with flat_list (gl : list glyph) : list N -> N -> N -> Prop :=
| flat_nil : flat_list gl [] 0 0
| flat_cons x t p c p' c' :
    flat gl x p c -> flat_list gl t p' c' -> flat_list gl (x :: t) (p + p') (c + c').

Scheme flat_ind2 := Induction for flat Sort Prop
  with flat_list_ind2 := Induction for flat_list Sort Prop.

Definition graph_ok (mp : maxp) (gl : list glyph) : Prop :=
  (* every component glyph id exists *)
  (forall g cs c, glyph_at gl g = Some (GComposite cs) -> In c cs -> c < N.of_nat (length gl))
  /\ acyclic gl
  (* no chain of component references is longer than maxComponentDepth *)
  /\ (forall g h n, path gl g h n -> N.of_nat n <= mp_depth mp)
  /\ (forall g p c, glyph_at gl g = Some (GSimple p c) -> p <= mp_pts mp /\ c <= mp_ctrs mp)
  /\ (forall g cs, glyph_at gl g = Some (GComposite cs) ->
        N.of_nat (length cs) <= mp_elems mp
        /\ exists p c, flat gl g p c /\ p <= mp_cpts mp /\ c <= mp_cctrs mp).

(** * the decoded font *)

Definition all_lt (l : list N) (b : N) : Prop := forall x, In x l -> x < b.

Definition mtx_ok (ng : N) (m : N * N) : Prop :=
  1 <= fst m <= ng /\ snd m = 4 * fst m + 2 * (ng - fst m).

(* a delta-set index names an existing row of an existing data block (or is the explicit
   "no variation" value) *)
Definition varidx_ok (st : option store) (v : N * N) : Prop :=
  v = (0xFFFF, 0xFFFF)
  \/ exists s cnt ris, st = Some s /\ nth_error (st_data s) (N.to_nat (fst v)) = Some (cnt, ris) /\ snd v < cnt.

Definition store_ok (axes : N) (s : store) : Prop :=
  st_axes s = axes /\ forall d, In d (st_data s) -> all_lt (snd d) (st_regions s).

Definition metric_var_ok (axes ng : N) (x : store * option (list (N * N))) : Prop :=
  store_ok axes (fst x)
  /\ match snd x with
     | None => exists ris rest, st_data (fst x) = (ng, ris) :: rest
     | Some es => 1 <= N.of_nat (length es) <= ng /\ forall e, In e es -> varidx_ok (Some (fst x)) e
     end.

Definition opt_ok {A} (P : A -> Prop) (o : option A) : Prop :=
  match o with Some x => P x | None => True end.

Definition lookup_ok (ng nlook marksets : N) (st : option store) (l : lookup) : Prop :=
  all_lt (lk_glyphs l) ng /\ all_lt (lk_nested l) nlook
  /\ opt_ok (fun m => m < marksets) (lk_markset l)
  /\ forall v, In v (lk_varidx l) -> varidx_ok st v.

Definition layout_ok (ng axes marksets : N) (st : option store) (t : layout_tbl) : Prop :=
  let nfeat := N.of_nat (length (ly_features t)) in
  let nlook := N.of_nat (length (ly_lookups t)) in
  (forall ls, In ls (ly_langsys t) -> opt_ok (fun r => r < nfeat) (fst ls) /\ all_lt (snd ls) nfeat)
  /\ (forall ft, In ft (ly_features t) -> all_lt ft nlook)
  /\ (forall l, In l (ly_lookups t) -> lookup_ok ng nlook marksets st l)
  /\ (forall fv, In fv (ly_fvars t) ->
        all_lt (fv_axes fv) axes
        /\ forall s, In s (fv_subst fv) -> fst s < nfeat /\ all_lt (snd s) nlook).

Definition gdef_ok (ng axes : N) (g : gdef) : Prop :=
  all_lt (gd_glyphs g) ng /\ opt_ok (store_ok axes) (gd_store g)
  /\ forall v, In v (gd_varidx g) -> varidx_ok (gd_store g) v.

Definition axes_ok (a : font_abs) : Prop :=
  match fa_fvar a with
  | None => fa_avar a = None /\ fa_gvar a = None /\ fa_hvar a = None /\ fa_vvar a = None /\ fa_mvar a = None
  | Some n => 1 <= n /\ opt_ok (fun k => k = n) (fa_avar a) /\ opt_ok (fun x => fst x = n) (fa_gvar a)
  end.

Record WF_abs (a : font_abs) : Prop := mkWFabs {
  (* the glyph count: maxp, loca/glyf, hmtx, vmtx, post, gvar agree *)
  wf_ng : 1 <= N.of_nat (length (fa_glyphs a)) /\ mp_glyphs (fa_maxp a) = N.of_nat (length (fa_glyphs a));
  wf_hmtx : mtx_ok (N.of_nat (length (fa_glyphs a))) (fa_hmtx a);
  wf_vmtx : opt_ok (mtx_ok (N.of_nat (length (fa_glyphs a)))) (fa_vmtx a);
  wf_post : opt_ok (fun p => N.of_nat (length (fst p)) = N.of_nat (length (fa_glyphs a))
                             /\ all_lt (fst p) (258 + snd p)) (fa_post a);
  wf_gvar : opt_ok (fun x => snd x = N.of_nat (length (fa_glyphs a))) (fa_gvar a);
  (* glyph ids *)
  wf_cmap : all_lt (fa_cmap a) (N.of_nat (length (fa_glyphs a)));
  (* components *)
  wf_graph : graph_ok (fa_maxp a) (fa_glyphs a);
  (* name ids *)
  wf_names : forall i, In i (fa_name_refs a) -> In i (fa_name_ids a);
  (* axis counts, region indices, delta-set indices *)
  wf_axes : axes_ok a;
  wf_hvar : opt_ok (metric_var_ok (match fa_fvar a with Some n => n | None => 0 end)
                                  (N.of_nat (length (fa_glyphs a)))) (fa_hvar a);
  wf_vvar : opt_ok (metric_var_ok (match fa_fvar a with Some n => n | None => 0 end)
                                  (N.of_nat (length (fa_glyphs a)))) (fa_vvar a);
  wf_mvar : opt_ok (fun x => store_ok (match fa_fvar a with Some n => n | None => 0 end) (fst x)
                             /\ forall v, In v (snd x) -> varidx_ok (Some (fst x)) v) (fa_mvar a);
  wf_stat : opt_ok (fun x => all_lt (snd x) (fst x)) (fa_stat a);
  (* GDEF, GSUB, GPOS: glyph ids, lookup / feature indices, mark sets, axis indices *)
  wf_gdef : opt_ok (gdef_ok (N.of_nat (length (fa_glyphs a)))
                            (match fa_fvar a with Some n => n | None => 0 end)) (fa_gdef a);
  wf_gsub : opt_ok (layout_ok (N.of_nat (length (fa_glyphs a)))
                              (match fa_fvar a with Some n => n | None => 0 end)
                              (match fa_gdef a with Some g => gd_marksets g | None => 0 end)
                              (match fa_gdef a with Some g => gd_store g | None => None end)) (fa_gsub a);
  wf_gpos : opt_ok (layout_ok (N.of_nat (length (fa_glyphs a)))
                              (match fa_fvar a with Some n => n | None => 0 end)
                              (match fa_gdef a with Some g => gd_marksets g | None => 0 end)
                              (match fa_gdef a with Some g => gd_store g | None => None end)) (fa_gpos a) }.

(** * the builder's input *)

Definition tbl_ok (t : tbl) : Prop :=
  N.of_nat (length (t_words t)) = nwords (t_len t)
  /\ pad_ok (t_len t) (t_words t) = true
  /\ (t_tag t = TAG_head -> 12 <= t_len t).

Definition tables_ok (ts : list tbl) : Prop :=
  NoDup (map t_tag ts) /\ Forall tbl_ok ts
  /\ (1 <= length ts < 4096)%nat
  /\ (forall t, In t required_tags -> In t (map t_tag ts)).
