(* C05 — soundness of the component-graph checker: a fixed point of `info_step` is a rank
   function that strictly decreases along component references, so the graph is acyclic, every
   chain of references is at most as long as the depth entry, and the point / contour entries
   are the totals of the flattened glyph. *)
From Coq Require Import List NArith Bool Lia Arith.
From Coq Require Import ZifyBool ZifyN ZifyNat.
From FV.C05 Require Import Model Spec ProofsSfnt.
Import ListNotations.
Open Scope N_scope.

Lemma info_eqb_eq a b : info_eqb a b = true -> a = b.
Proof.
  destruct a as [[a1 a2] a3], b as [[b1 b2] b3]. unfold info_eqb, i_depth, i_pts, i_ctrs. cbn [fst snd].
  intro H. bsplit. apply N.eqb_eq in H, H1, H0. subst. reflexivity.
Qed.

Lemma infos_eqb_eq a : forall b, infos_eqb a b = true -> a = b.
Proof.
  induction a as [|x a IH]; intros [|y b] H; cbn [infos_eqb] in H; try discriminate; [reflexivity|].
  bsplit. f_equal; [apply info_eqb_eq; assumption|apply IH; assumption].
Qed.

Lemma all_ltb_sound l b : all_ltb l b = true -> all_lt l b.
Proof.
  unfold all_ltb, all_lt. intros H x Hx. rewrite forallb_forall in H. apply N.ltb_lt. apply H. exact Hx.
Qed.

Section Fix.
  Variable gl : list glyph.
  Variable T : list info.
  Hypothesis FP : info_step gl T = T.

  Lemma tab_spec g x : glyph_at gl g = Some x -> tab_at T g = glyph_info T x.
  Proof.
    unfold glyph_at, tab_at. intro E.
    pose proof (map_nth_error (glyph_info T) _ gl E) as M. unfold info_step in FP. rewrite FP in M.
    apply nth_error_nth. exact M.
  Qed.

  Lemma comp_info_depth cs c : In c cs -> 1 + i_depth (tab_at T c) <= i_depth (comp_info T cs).
  Proof.
    induction cs as [|x t IH]; intro H; [contradiction|].
    cbn [comp_info]. unfold i_depth at 2. cbn [fst]. destruct H as [->|H].
    - apply N.le_max_l.
    - specialize (IH H). fold (i_depth (comp_info T t)). lia.
  Qed.

  Lemma edge_decreases g c : edge gl g c -> i_depth (tab_at T c) < i_depth (tab_at T g).
  Proof.
    intros [g' cs c' E Hin]. rewrite (tab_spec _ _ E). cbn [glyph_info].
    pose proof (comp_info_depth cs c' Hin). lia.
  Qed.

  Lemma path_bound g h n : path gl g h n -> i_depth (tab_at T h) + N.of_nat n <= i_depth (tab_at T g).
  Proof.
    induction 1 as [g|g c h n He Hp IH]; [lia|].
    pose proof (edge_decreases _ _ He). lia.
  Qed.

  Lemma fix_acyclic : acyclic gl.
  Proof. intros g n Hp. pose proof (path_bound _ _ _ Hp). lia. Qed.

  Lemma comp_info_flat cs :
    (forall c, In c cs -> flat gl c (i_pts (tab_at T c)) (i_ctrs (tab_at T c))) ->
    flat_list gl cs (i_pts (comp_info T cs)) (i_ctrs (comp_info T cs)).
  Proof.
    induction cs as [|x t IH]; intro H; cbn [comp_info].
    - unfold i_pts, i_ctrs. cbn [fst snd]. constructor.
    - unfold i_pts at 1, i_ctrs at 1. cbn [fst snd].
      constructor; [apply H; left; reflexivity|apply IH; intros c Hc; apply H; right; exact Hc].
  Qed.

  (* every component reference resolves *)
  Hypothesis REFS : forall g cs c, glyph_at gl g = Some (GComposite cs) -> In c cs -> c < N.of_nat (length gl).

  Lemma glyph_at_some c : c < N.of_nat (length gl) -> exists x, glyph_at gl c = Some x.
  Proof.
    intro H. unfold glyph_at. destruct (nth_error gl (N.to_nat c)) eqn:E; [eexists; reflexivity|].
    apply nth_error_None in E. lia.
  Qed.

  Lemma fix_flat : forall k g x, (N.to_nat (i_depth (tab_at T g)) < k)%nat -> glyph_at gl g = Some x ->
    flat gl g (i_pts (tab_at T g)) (i_ctrs (tab_at T g)).
  Proof.
    induction k as [|k IH]; intros g x Hk E; [lia|].
    pose proof (tab_spec _ _ E) as S. destruct x as [|p c|cs].
    - rewrite S. cbn. apply flat_empty. exact E.
    - rewrite S. cbn. apply flat_simple. exact E.
    - rewrite S. cbn [glyph_info]. eapply flat_comp; [exact E|].
      apply comp_info_flat. intros c Hc.
      destruct (glyph_at_some c (REFS _ _ _ E Hc)) as [y Ey].
      apply (IH c y); [|exact Ey].
      assert (edge gl g c) as He by (econstructor; eassumption).
      pose proof (edge_decreases _ _ He). lia.
  Qed.
End Fix.

Lemma limits_nth mp ng : forall gl T, limits_okb mp ng gl T = true ->
  forall n x, nth_error gl n = Some x -> glyph_limits_okb mp ng x (nth n T (0, 0, 0)) = true.
Proof.
  induction gl as [|g gl IH]; intros [|t T] H n x E; cbn [limits_okb] in H; try discriminate.
  - destruct n; discriminate.
  - bsplit. destruct n as [|n]; cbn [nth_error nth] in *.
    + inversion E; subst. assumption.
    + eapply IH; eassumption.
Qed.

Theorem graph_okb_sound mp gl : graph_okb mp gl = true -> graph_ok mp gl.
Proof.
  unfold graph_okb. cbv zeta. set (T := info_table gl (mp_depth mp)). intro H. bsplit.
  match goal with E : infos_eqb _ _ = true |- _ => apply infos_eqb_eq in E; rename E into FP end.
  match goal with E : limits_okb _ _ _ _ = true |- _ => rename E into LIM end.
  assert (L : forall g x, glyph_at gl g = Some x ->
              glyph_limits_okb mp (N.of_nat (length gl)) x (tab_at T g) = true).
  { intros g x E. unfold tab_at. eapply limits_nth; [exact LIM|exact E]. }
  assert (REFS : forall g cs c, glyph_at gl g = Some (GComposite cs) -> In c cs -> c < N.of_nat (length gl)).
  { intros g cs c E Hc. specialize (L g _ E). cbn [glyph_limits_okb] in L. bsplit.
    match goal with A : all_ltb cs _ = true |- _ => apply all_ltb_sound in A; apply A; exact Hc end. }
  split; [exact REFS|].
  split; [apply (fix_acyclic gl T FP)|].
  split.
  { intros g h n Hp. pose proof (path_bound gl T FP _ _ _ Hp) as B.
    destruct Hp as [g|g c h n He Hp]; [lia|].
    destruct He as [g cs c E Hc]. specialize (L g _ E). cbn [glyph_limits_okb] in L. bsplit. lia. }
  split.
  { intros g p c E. specialize (L g _ E). cbn [glyph_limits_okb] in L. bsplit. lia. }
  intros g cs E. pose proof (L g _ E) as Lg. cbn [glyph_limits_okb] in Lg. bsplit.
  split; [lia|].
  exists (i_pts (tab_at T g)), (i_ctrs (tab_at T g)). split; [|lia].
  eapply (fix_flat gl T FP REFS (S (N.to_nat (i_depth (tab_at T g))))); [lia|exact E].
Qed.

(* ---- the totals are well defined on an acyclic graph ---------------------------- *)
(* (so "the" number of points of a flattened composite makes sense: two derivations agree) *)
Combined Scheme flat_mutind from flat_ind2, flat_list_ind2.

Lemma flat_unique gl :
  (forall g p c (H : flat gl g p c), forall p' c', flat gl g p' c' -> p = p' /\ c = c')
  /\ (forall cs p c (H : flat_list gl cs p c), forall p' c', flat_list gl cs p' c' -> p = p' /\ c = c').
Proof.
  apply (flat_mutind gl
     (fun g p c _ => forall p' c', flat gl g p' c' -> p = p' /\ c = c')
     (fun cs p c _ => forall p' c', flat_list gl cs p' c' -> p = p' /\ c = c')).
  - intros g E p' c' H'. inversion H'; subst; try congruence; auto.
  - intros g p c E p' c' H'. inversion H'; subst; try congruence. rewrite E in H. inversion H; auto.
  - intros g cs p c E Hl IH p' c' H'. inversion H'; subst; try congruence.
    rewrite E in H. inversion H; subst. apply IH. assumption.
  - intros p' c' H'. inversion H'; auto.
  - intros x t p c p2 c2 Hx IHx Ht IHt p' c' H'. inversion H' as [|x' t' q d q2 d2 Fx Ft]; subst.
    destruct (IHx _ _ Fx) as [-> ->]. destruct (IHt _ _ Ft) as [-> ->]. auto.
Qed.
