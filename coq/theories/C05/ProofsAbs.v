(* C05 — soundness of the decoded-font checker. *)
From Coq Require Import List NArith Bool Lia Arith.
From Coq Require Import ZifyBool ZifyN ZifyNat.
From FV.C05 Require Import Model Spec ProofsSfnt ProofsGraph.
Import ListNotations.
Open Scope N_scope.

Lemma opt_okb_sound {A} (f : A -> bool) (P : A -> Prop) o :
  (forall x, f x = true -> P x) -> opt_okb f o = true -> opt_ok P o.
Proof. intros H. destruct o as [x|]; cbn; [apply H|trivial]. Qed.

Lemma mtx_okb_sound ng m : mtx_okb ng m = true -> mtx_ok ng m.
Proof.
  destruct m as [nl len]. unfold mtx_okb, mtx_ok. cbn [fst snd]. intro H. bsplit.
  apply N.eqb_eq in H0. lia.
Qed.

Lemma varidx_okb_sound st v : varidx_okb st v = true -> varidx_ok st v.
Proof.
  destruct v as [o i]. unfold varidx_okb, varidx_ok. intro H. apply orb_true_iff in H. destruct H as [H|H].
  - left. bsplit. apply N.eqb_eq in H, H0. subst. reflexivity.
  - right. destruct st as [s|]; [|discriminate]. cbn [fst snd].
    destruct (nth_error (st_data s) (N.to_nat o)) as [[cnt ris]|] eqn:E; [|discriminate].
    exists s, cnt, ris. split; [reflexivity|]. split; [exact E|]. apply N.ltb_lt. exact H.
Qed.

Lemma forallb_sound {A} (f : A -> bool) (P : A -> Prop) l :
  (forall x, f x = true -> P x) -> forallb f l = true -> forall x, In x l -> P x.
Proof. intros H Hf x Hx. rewrite forallb_forall in Hf. apply H. apply Hf. exact Hx. Qed.

Lemma store_okb_sound axes s : store_okb axes s = true -> store_ok axes s.
Proof.
  unfold store_okb, store_ok. intro H. bsplit. split; [apply N.eqb_eq; assumption|].
  eapply forallb_sound; [|eassumption]. intros d Hd. apply all_ltb_sound. exact Hd.
Qed.

Lemma metric_var_okb_sound axes ng x : metric_var_okb axes ng x = true -> metric_var_ok axes ng x.
Proof.
  destruct x as [s m]. unfold metric_var_okb, metric_var_ok. cbn [fst snd]. intro H. bsplit.
  split; [apply store_okb_sound; assumption|].
  destruct m as [es|].
  - bsplit. split; [lia|]. eapply forallb_sound; [|eassumption]. apply varidx_okb_sound.
  - destruct (st_data s) as [|[cnt ris] rest]; [discriminate|].
    apply N.eqb_eq in H0. subst. eexists; eexists; reflexivity.
Qed.

Lemma lookup_okb_sound ng nlook ms st l : lookup_okb ng nlook ms st l = true -> lookup_ok ng nlook ms st l.
Proof.
  unfold lookup_okb, lookup_ok. intro H. bsplit.
  split; [apply all_ltb_sound; assumption|]. split; [apply all_ltb_sound; assumption|].
  split.
  - eapply opt_okb_sound; [|eassumption]. intros m Hm. apply N.ltb_lt. exact Hm.
  - eapply forallb_sound; [|eassumption]. apply varidx_okb_sound.
Qed.

Lemma layout_okb_sound ng axes ms st t : layout_okb ng axes ms st t = true -> layout_ok ng axes ms st t.
Proof.
  unfold layout_okb, layout_ok. cbv zeta.
  set (nfeat := N.of_nat (length (ly_features t))). set (nlook := N.of_nat (length (ly_lookups t))).
  intro H. apply andb_true_iff in H. destruct H as [H H4]. apply andb_true_iff in H. destruct H as [H H3].
  apply andb_true_iff in H. destruct H as [H1 H2].
  split; [|split; [|split]].
  - eapply forallb_sound; [|exact H1]. intros ls Hl. cbn beta in Hl. apply andb_true_iff in Hl. destruct Hl as [A B].
    split; [|apply all_ltb_sound; exact B].
    eapply opt_okb_sound; [|exact A]. intros r Hr. apply N.ltb_lt. exact Hr.
  - eapply forallb_sound; [|exact H2]. intros ft Hf. apply all_ltb_sound. exact Hf.
  - eapply forallb_sound; [|exact H3]. apply lookup_okb_sound.
  - eapply forallb_sound; [|exact H4]. intros fv Hf. cbn beta in Hf. apply andb_true_iff in Hf. destruct Hf as [A B].
    split; [apply all_ltb_sound; exact A|].
    eapply forallb_sound; [|exact B]. intros s Hs. cbn beta in Hs. apply andb_true_iff in Hs. destruct Hs as [C D].
    split; [apply N.ltb_lt; exact C|apply all_ltb_sound; exact D].
Qed.

Lemma gdef_okb_sound ng axes g : gdef_okb ng axes g = true -> gdef_ok ng axes g.
Proof.
  unfold gdef_okb, gdef_ok. intro H. bsplit.
  split; [apply all_ltb_sound; assumption|]. split.
  - eapply opt_okb_sound; [|eassumption]. apply store_okb_sound.
  - eapply forallb_sound; [|eassumption]. apply varidx_okb_sound.
Qed.

Lemma is_none_sound {A} (o : option A) : is_none o = true -> o = None.
Proof. destruct o; [discriminate|reflexivity]. Qed.

Lemma axes_okb_sound a : axes_okb a = true -> axes_ok a.
Proof.
  unfold axes_okb, axes_ok. destruct (fa_fvar a) as [n|]; intro H; bsplit.
  - split; [lia|]. split.
    + eapply opt_okb_sound; [|eassumption]. intros k Hk. apply N.eqb_eq. exact Hk.
    + eapply opt_okb_sound; [|eassumption]. intros k Hk. apply N.eqb_eq. exact Hk.
  - repeat split; apply is_none_sound; assumption.
Qed.

Theorem check_abs_sound a : check_abs a = true -> WF_abs a.
Proof.
  unfold check_abs. cbv zeta. intro H. bsplit. constructor.
  - split; [apply N.leb_le; assumption|apply N.eqb_eq; assumption].
  - apply mtx_okb_sound. assumption.
  - eapply opt_okb_sound; [|eassumption]. apply mtx_okb_sound.
  - eapply opt_okb_sound; [|eassumption]. intros p Hp. cbn beta in Hp. bsplit.
    split; [apply N.eqb_eq; assumption|apply all_ltb_sound; assumption].
  - eapply opt_okb_sound; [|eassumption]. intros x Hx. apply N.eqb_eq. exact Hx.
  - apply all_ltb_sound. assumption.
  - apply graph_okb_sound. assumption.
  - eapply forallb_sound; [|eassumption]. intros i Hi. apply memN_In. exact Hi.
  - apply axes_okb_sound. assumption.
  - eapply opt_okb_sound; [|eassumption]. apply metric_var_okb_sound.
  - eapply opt_okb_sound; [|eassumption]. apply metric_var_okb_sound.
  - eapply opt_okb_sound; [|eassumption]. intros x Hx. cbn beta in Hx. bsplit. split; [apply store_okb_sound; assumption|].
    eapply forallb_sound; [|eassumption]. apply varidx_okb_sound.
  - eapply opt_okb_sound; [|eassumption]. intros x Hx. apply all_ltb_sound. exact Hx.
  - eapply opt_okb_sound; [|eassumption]. apply gdef_okb_sound.
  - eapply opt_okb_sound; [|eassumption]. apply layout_okb_sound.
  - eapply opt_okb_sound; [|eassumption]. apply layout_okb_sound.
Qed.
