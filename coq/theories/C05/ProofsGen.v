(* C05 — generator side: the tables fontbe derives from the one final glyph order, and
   FontWork::exec / bytes_for. *)
From Coq Require Import List NArith ZArith Bool Lia Arith Sorting.Permutation.
From Coq Require Import ZifyBool ZifyN ZifyNat.
From FV.C05 Require Import Model Spec ProofsSfnt ProofsBuild.
Import ListNotations.
Open Scope N_scope.

(* ---- glyph order --------------------------------------------------------------- *)
Lemma sequence_length {A} (l : list (option A)) : forall r, sequence l = Some r -> length r = length l.
Proof.
  induction l as [|[x|] l IH]; intros r H; cbn [sequence] in H; try discriminate.
  - inversion H; reflexivity.
  - destruct (sequence l) as [r'|]; [|discriminate]. inversion H; subst. cbn [length]. f_equal. apply IH. reflexivity.
Qed.

Lemma sequence_nth {A} (l : list (option A)) : forall r n x, sequence l = Some r -> nth_error r n = Some x ->
  nth_error l n = Some (Some x).
Proof.
  induction l as [|[y|] l IH]; intros r n x H E; cbn [sequence] in H; try discriminate.
  - inversion H; subst. destruct n; discriminate.
  - destruct (sequence l) as [r'|] eqn:S; [|discriminate]. inversion H; subst.
    destruct n as [|n]; cbn [nth_error] in *; [inversion E; reflexivity|]. eapply IH; [reflexivity|exact E].
Qed.

Lemma gid_of_spec name order : forall i g, gid_of name order i = Some g ->
  i <= g /\ g < i + N.of_nat (length order) /\ nth_error order (N.to_nat (g - i)) = Some name.
Proof.
  induction order as [|x t IH]; intros i g H; cbn [gid_of] in H; [discriminate|].
  destruct (N.eqb_spec x name) as [E|E].
  - inversion H; subst. cbn [length]. replace (g - g) with 0 by lia. cbn. split; [lia|split; [lia|reflexivity]].
  - destruct (IH _ _ H) as (A & B & C). cbn [length]. split; [lia|]. split; [lia|].
    replace (N.to_nat (g - i)) with (S (N.to_nat (g - (i + 1)))) by lia. exact C.
Qed.

Lemma resolve_comps_spec order cs : forall r, resolve_comps order cs = Some r ->
  Forall2 (fun name g => g < N.of_nat (length order) /\ nth_error order (N.to_nat g) = Some name) cs r.
Proof.
  induction cs as [|c cs IH]; intros r H; cbn [resolve_comps] in H.
  - inversion H. constructor.
  - destruct (gid_of c order 0) as [g|] eqn:G; [|discriminate].
    destruct (resolve_comps order cs) as [r'|]; [|discriminate]. inversion H; subst.
    constructor; [|apply IH; reflexivity].
    destruct (gid_of_spec _ _ _ _ G) as (A & B & C). replace (g - 0) with g in C by lia. split; [lia|exact C].
Qed.

Lemma post_step_length st raw : length (snd (post_step st raw)) = S (length (snd st)).
Proof.
  unfold post_step. destruct (seen_get (fst st) (filter keep_char raw)); cbn [snd];
    rewrite app_length; cbn [length]; lia.
Qed.

Lemma fold_post_length raws : forall st, length (snd (fold_left post_step raws st)) = (length (snd st) + length raws)%nat.
Proof.
  induction raws as [|r raws IH]; intro st; cbn [fold_left length]; [lia|].
  rewrite IH, post_step_length. lia.
Qed.

Lemma final_names_length order nm rn : length (final_names order nm rn) = length order.
Proof.
  unfold final_names. destruct rn as [m|]; [|apply map_length].
  unfold production_names. rewrite fold_post_length. cbn [snd length]. rewrite map_length. reflexivity.
Qed.

(* every glyph-indexed table has one entry per name of the final glyph order *)
Theorem same_order_same_length order src adv var hv nm rn b : be_build order src adv var hv nm rn = Some b ->
  length (be_glyf b) = length order /\ length (be_hmtx b) = length order /\ length (be_post b) = length order
  /\ length (be_gvar b) = length order /\ length (be_hvar b) = length order.
Proof.
  unfold be_build. destruct (post_names order nm rn) as [finals|] eqn:P; [|discriminate].
  destruct (sequence _) as [gl|] eqn:S; [|discriminate]. intro H; inversion H; subst.
  cbn [be_glyf be_hmtx be_post be_gvar be_hvar]. rewrite !map_length.
  apply sequence_length in S. rewrite map_length in S.
  unfold post_names in P. destruct (forallb _ _); [|discriminate]. inversion P; subst.
  rewrite final_names_length. auto.
Qed.

(* a component's glyph id is in range and is the position of the glyph the source names *)
Theorem component_refs_in_range order src adv var hv nm rn b : be_build order src adv var hv nm rn = Some b ->
  forall g cs, glyph_at (be_glyf b) g = Some (GComposite cs) ->
  exists name names, nth_error order (N.to_nat g) = Some name /\ src name = SComposite names
    /\ Forall2 (fun nm c => c < N.of_nat (length (be_glyf b)) /\ nth_error order (N.to_nat c) = Some nm) names cs.
Proof.
  intro H. pose proof (same_order_same_length _ _ _ _ _ _ _ _ H) as (L & _).
  unfold be_build in H. destruct (post_names order nm rn); [|discriminate]. destruct (sequence _) as [gl|] eqn:S; [|discriminate]. inversion H; subst.
  cbn [be_glyf] in *. intros g cs E. unfold glyph_at in E.
  pose proof (sequence_nth _ _ _ _ S E) as M.
  destruct (nth_error order (N.to_nat g)) as [name|] eqn:En.
  - rewrite (map_nth_error _ _ _ En) in M. inversion M as [C]. exists name.
    unfold compile_glyph in C. destruct (src name) as [|p c|names] eqn:Es; try discriminate.
    destruct (resolve_comps order names) as [r|] eqn:R; [|discriminate]. cbn [option_map] in C. inversion C; subst.
    exists names. split; [reflexivity|]. split; [reflexivity|]. rewrite L. apply resolve_comps_spec. exact R.
  - apply nth_error_None in En. assert (nth_error (map (fun n => compile_glyph order (src n)) order) (N.to_nat g) = None) as Q
      by (apply nth_error_None; rewrite map_length; exact En). rewrite Q in M. discriminate.
Qed.

(* a component naming a glyph outside the final order fails the build (NotInGlyphOrder) *)
Theorem missing_component_is_error order src adv var hv nmf rn name names c :
  In name order -> src name = SComposite names -> In c names -> ~ In c order ->
  be_build order src adv var hv nmf rn = None.
Proof.
  intros Hn Hs Hc Hnot. unfold be_build. destruct (post_names order nmf rn) as [finals|]; [|reflexivity]. destruct (sequence _) as [gl|] eqn:S; [|reflexivity]. exfalso.
  apply In_nth_error in Hn. destruct Hn as [k Hk].
  assert (exists x, nth_error gl k = Some x) as [x Hx].
  { apply sequence_length in S. rewrite map_length in S.
    destruct (nth_error gl k) eqn:E; [eexists; reflexivity|]. apply nth_error_None in E.
    assert (k < length order)%nat by (apply nth_error_Some; congruence). lia. }
  pose proof (sequence_nth _ _ _ _ S Hx) as M. rewrite (map_nth_error _ _ _ Hk) in M. inversion M as [C].
  unfold compile_glyph in C. rewrite Hs in C. destruct (resolve_comps order names) as [r|] eqn:R; [|discriminate].
  apply resolve_comps_spec in R. clear C M Hs.
  induction R as [|nm g' l l' [_ Hg] _ IH]; [contradiction|].
  destruct Hc as [->|Hc]; [apply Hnot; eapply nth_error_In; exact Hg|apply IH; exact Hc].
Qed.

(* every FINAL name in an emitted post table fits a Pascal string *)
Theorem post_names_fit order src adv var hv nm rn b : be_build order src adv var hv nm rn = Some b ->
  be_post b = final_names order nm rn /\ forall n, In n (be_post b) -> (length n <= 255)%nat.
Proof.
  unfold be_build. destruct (post_names order nm rn) as [finals|] eqn:P; [|discriminate].
  destruct (sequence _) as [gl|]; [|discriminate]. intro H; inversion H; subst. cbn [be_post].
  unfold post_names in P. destruct (forallb name_fits _) eqn:F; [|discriminate]. inversion P; subst.
  split; [reflexivity|]. intros n Hn. rewrite forallb_forall in F. specialize (F n Hn).
  unfold name_fits in F. apply N.leb_le in F. lia.
Qed.

Theorem long_name_is_error order src adv var hv nm rn n :
  In n (final_names order nm rn) -> (255 < length n)%nat -> be_build order src adv var hv nm rn = None.
Proof.
  intros Hn Hl. unfold be_build, post_names. destruct (forallb name_fits _) eqn:F; [|reflexivity]. exfalso.
  rewrite forallb_forall in F. specialize (F n Hn). unfold name_fits in F. apply N.leb_le in F. lia.
Qed.

(* ---- FontWork::exec ------------------------------------------------------------------ *)
(* a successful job holds exactly the tables that exist: none is lost *)
Theorem exec_keeps_every_table slots : (forall s t, In s slots -> s_bytes s = Some t -> t_tag t = s_tag s) ->
  forall ts, exec_tables slots = Some ts -> map t_tag ts = map s_tag (filter s_has slots).
Proof.
  induction slots as [|s slots IH]; intros H ts E; cbn [exec_tables] in E.
  - inversion E. reflexivity.
  - cbn [filter]. destruct (s_has s) eqn:Hh.
    + destruct (s_bytes s) as [t|] eqn:B; [|discriminate].
      destruct (exec_tables slots) as [ts'|] eqn:R; [|discriminate]. inversion E; subst. cbn [map].
      f_equal; [apply (H s t); [left; reflexivity|exact B]|].
      apply IH; [intros s' t' Hs; apply H; right; exact Hs|reflexivity].
    + apply IH; [intros s' t' Hs; apply H; right; exact Hs|exact E].
Qed.

(* a table that exists and cannot be serialised fails the job *)
Theorem serialisation_failure_is_reported slots s :
  In s slots -> s_has s = true -> s_bytes s = None -> exec_tables slots = None.
Proof.
  induction slots as [|x slots IH]; intros Hin Hh Hb; [contradiction|]. cbn [exec_tables].
  destruct Hin as [->|Hin].
  - rewrite Hh, Hb. reflexivity.
  - rewrite (IH Hin Hh Hb). destruct (s_has x); [destruct (s_bytes x)|]; reflexivity.
Qed.

Theorem exec_ok_is_wf slots ts f : exec_tables slots = Some ts -> tables_ok ts ->
  exec_font slots = Some f -> WF_sfnt f.
Proof.
  intros E Hok F. unfold exec_font in F. rewrite E in F. cbn in F. inversion F; subst.
  apply fontbuilder_wf. exact Hok.
Qed.

(* ... the code before the repair dropped the table and the job succeeded: all ten required tables
   exist (has = true), `name` fails to serialise, and the stored font has no name table. *)
Definition tiny (tag : N) : tbl := mkTbl tag 12 [1; 2; 0].
Definition drop_witness : list slot :=
  map (fun tag => mkSlot tag true (if tag =? 0x6E616D65 then None else Some (tiny tag))) required_tags.

Theorem silent_drop_unrepaired :
  (forall t, In t required_tags -> exists s, In s drop_witness /\ s_tag s = t /\ s_has s = true)
  /\ ~ WF_sfnt (fontbuilder (exec_tables_unrepaired drop_witness))
  /\ exec_font drop_witness = None.
Proof.
  split; [|split].
  - intros t Ht. exists (mkSlot t true (if t =? 0x6E616D65 then None else Some (tiny t))).
    split; [|split; reflexivity]. unfold drop_witness.
    apply (in_map (fun tag => mkSlot tag true (if tag =? 0x6E616D65 then None else Some (tiny tag)))). exact Ht.
  - intros (d & phys & P & _ & _ & _ & _ & _ & _ & _ & R & _).
    assert (E : parse_dir (fontbuilder (exec_tables_unrepaired drop_witness)) = Some d) by exact P.
    vm_compute in E. inversion E; subst. clear E P.
    specialize (R 0x6E616D65 ltac:(cbn; tauto)). cbn in R.
    repeat (destruct R as [R|R]; [discriminate R|]). exact R.
  - vm_compute. reflexivity.
Qed.

(* the same font is accepted once `name` serialises: the checker is not vacuous *)
Example all_present_accepted :
  option_map check_sfnt (exec_font (map (fun tag => mkSlot tag true (Some (tiny tag))) required_tags)) = Some true.
Proof. vm_compute. reflexivity. Qed.
