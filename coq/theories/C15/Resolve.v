(* C15 -- the invariant carried through GlyphOrderWork::exec on acyclic graphs, and
   termination of the re-queue loop of resolve_inconsistencies. *)
From Coq Require Import List Arith ZArith Bool Lia Permutation.
From FV.C15 Require Import Model Basics DepthSort Walks.
Import ListNotations.

(* glyphs that exist from the start have rank >= 1; glyphs appended later by
   move_contours_to_new_component are leaves of rank 0 *)
Record inv (r : nat -> nat) (n0 : nat) (G : store) : Prop := {
  inv_closed : closed G;
  inv_ranked : ranked G r;
  inv_len : n0 <= length G;
  inv_new : forall x, n0 <= x -> r x = 0;
  inv_old : forall x, x < n0 -> 1 <= r x
}.

Lemma inv_acyclic r n0 G : inv r n0 G -> acyclic G.
Proof. intros I. exists r. apply (inv_ranked _ _ _ I). Qed.

Lemma inv_init G : closed G -> acyclic G -> exists r, inv r (length G) G.
Proof.
  intros C [r R]. exists (fun x => if x <? length G then S (r x) else 0). constructor; auto.
  - intros v c Hc. specialize (C v c Hc) as Hcl.
    destruct (Nat.lt_ge_cases v (length G)) as [Hv|Hv]; [|rewrite succs_out in Hc by auto; destruct Hc].
    apply Nat.ltb_lt in Hcl, Hv. rewrite Hcl, Hv. specialize (R v c Hc). lia.
  - intros x Hx. apply Nat.ltb_ge in Hx. rewrite Hx. auto.
  - intros x Hx. apply Nat.ltb_lt in Hx. rewrite Hx. lia.
Qed.

(* replacing glyph v by one whose components all rank below v keeps the invariant *)
Lemma inv_set r n0 G v g : inv r n0 G ->
  (forall c, In c (bases g) -> r c < r v /\ c < length G) ->
  inv r n0 (set_nth G v g).
Proof.
  intros [C R L N O] Hg.
  destruct (Nat.lt_ge_cases v (length G)) as [Hv|Hv]; [|rewrite set_nth_out by auto; constructor; auto].
  constructor; auto.
  - intros u c Hc. rewrite length_set_nth. unfold succs in Hc.
    destruct (Nat.eq_dec v u) as [<-|Hne].
    + rewrite get_set_eq in Hc by auto. apply Hg; auto.
    + rewrite get_set_neq in Hc by auto. apply (C u c Hc).
  - intros u c Hc. unfold succs in Hc.
    destruct (Nat.eq_dec v u) as [<-|Hne].
    + rewrite get_set_eq in Hc by auto. apply Hg; auto.
    + rewrite get_set_neq in Hc by auto. apply (R u c Hc).
  - rewrite length_set_nth; auto.
Qed.

Lemma inv_app_leaf r n0 G k e : inv r n0 G -> inv r n0 (G ++ [mkGlyph [] k e]).
Proof.
  intros [C R L N O]. constructor; auto.
  - intros u c Hc. rewrite app_length. simpl. unfold succs in Hc.
    destruct (Nat.lt_ge_cases u (length G)) as [Hu|Hu].
    + rewrite get_app_l in Hc by auto. specialize (C u c Hc). lia.
    + rewrite get_app_r in Hc by auto. destruct (u - length G) as [|[|x]]; simpl in Hc; destruct Hc.
  - intros u c Hc. unfold succs in Hc.
    destruct (Nat.lt_ge_cases u (length G)) as [Hu|Hu].
    + rewrite get_app_l in Hc by auto. apply (R u c Hc).
    + rewrite get_app_r in Hc by auto. destruct (u - length G) as [|[|x]]; simpl in Hc; destruct Hc.
  - rewrite app_length. simpl. lia.
Qed.

Lemma set_nth_app_l {A} (l l' : list A) i x : i < length l ->
  set_nth (l ++ l') i x = set_nth l i x ++ l'.
Proof.
  revert i; induction l as [|h t IH]; intros [|i] H; simpl in *; try lia; auto.
  f_equal. apply IH. lia.
Qed.

(* ---------------------------------------------------------------- todo items *)
Definition item_ok (r : nat -> nat) (n0 : nat) (G : store) (it : todo_item) : Prop :=
  t_id it < n0 /\ forall c, In c (bases (t_glyph it)) -> r c < r (t_id it) /\ c < length G.

Lemma item_ok_mono r n0 G G' it : length G <= length G' -> item_ok r n0 G it -> item_ok r n0 G' it.
Proof.
  intros Hl [H1 H2]. split; auto. intros c Hc. destruct (H2 c Hc). split; [auto|lia].
Qed.

(* ---------------------------------------------------------------- sizes
   D bounds the out-degree, L the number of glyphs, of every store the loop goes through;
   res_fuel D L is then enough fuel for every inner walk and every fix. *)
Definition res_fuel (D L : nat) : nat := D + L * D + D * Nat.pow (S D) L + 2.

Lemma walk_bound_le G D L : maxdeg G <= D -> length G <= L -> walk_bound G <= Nat.pow (S D) L.
Proof. intros. unfold walk_bound. apply Nat.pow_le_mono; lia. Qed.

Lemma edges_le G : edges G <= length G * maxdeg G.
Proof.
  unfold edges. etransitivity; [apply (sumf_const_le (deg G) (ids G) (maxdeg G))|].
  - intros; apply outdeg_le.
  - unfold ids. rewrite seq_length. auto.
Qed.

Lemma stack_fuel_le G w D L (l : list nat) :
  (forall v, w v <= walk_bound G) -> maxdeg G <= D -> length G <= L -> length l <= D ->
  S (sumf w l) <= res_fuel D L.
Proof.
  intros Wb HD HL Hl.
  assert (sumf w l <= length l * walk_bound G) by (apply sumf_const_le; auto).
  pose proof (walk_bound_le G D L HD HL). unfold res_fuel.
  assert (length l * walk_bound G <= D * Nat.pow (S D) L) by (apply Nat.mul_le_mono; auto).
  lia.
Qed.

Lemma convert_fuel_le G g D L : maxdeg G <= D -> length G <= L -> length (g_comps g) <= D ->
  S (convert_fuel G g) <= res_fuel D L.
Proof.
  intros HD HL Hg. unfold convert_fuel, res_fuel.
  pose proof (walk_bound_le G D L HD HL). pose proof (edges_le G).
  assert (length G * maxdeg G <= L * D) by (apply Nat.mul_le_mono; auto).
  assert (length (g_comps g) * walk_bound G <= D * Nat.pow (S D) L) by (apply Nat.mul_le_mono; auto).
  lia.
Qed.

Lemma maxdeg_le_iff G D : maxdeg G <= D <-> forall g, In g G -> length (g_comps g) <= D.
Proof.
  unfold maxdeg. rewrite list_max_le, Forall_forall. split.
  - intros H g Hg. apply H. apply in_map_iff. exists g. auto.
  - intros H k Hk. apply in_map_iff in Hk as [g [<- Hg]]. auto.
Qed.

Lemma In_set_nth {A} (l : list A) i x y : In y (set_nth l i x) -> y = x \/ In y l.
Proof.
  revert i; induction l as [|h t IH]; intros [|i]; simpl; intuition.
  destruct (IH _ H0); auto.
Qed.

Lemma maxdeg_set G v g D : maxdeg G <= D -> length (g_comps g) <= D -> maxdeg (set_nth G v g) <= D.
Proof.
  rewrite !maxdeg_le_iff. intros H Hg x Hx. apply In_set_nth in Hx as [->|Hx]; auto.
Qed.

Lemma maxdeg_app_leaf G k e D : maxdeg G <= D -> maxdeg (G ++ [mkGlyph [] k e]) <= D.
Proof.
  rewrite !maxdeg_le_iff. intros H x Hx. apply in_app_iff in Hx as [Hx|[<-|[]]]; auto.
  simpl; lia.
Qed.

Lemma comps_le_maxdeg G v : length (g_comps (get G v)) <= maxdeg G.
Proof. pose proof (outdeg_le G v) as H. unfold succs, bases in H. rewrite map_length in H. auto. Qed.

(* both fixes end for every inner fuel >= res_fuel D L, and keep the invariant and the sizes *)
Lemma apply_fix_ok r n0 G it D L : inv r n0 G -> item_ok r n0 G it ->
  maxdeg G <= D -> length G <= L -> S (length (g_comps (t_glyph it))) <= D ->
  exists G1, (forall F, res_fuel D L <= F -> apply_fix F G it = Some G1) /\
             inv r n0 G1 /\ length G <= length G1 /\ length G1 <= S (length G) /\ maxdeg G1 <= D.
Proof.
  intros I [Hid Hit] HD HL Hg. unfold apply_fix. destruct (t_op it).
  - destruct (convert_terminates_on_acyclic G (t_id it) (t_glyph it)
                (inv_closed _ _ _ I) (inv_acyclic _ _ _ I)) as [k Hk].
    exists (set_nth G (t_id it) (mkGlyph [] k (g_export (t_glyph it)))).
    split; [|split; [|split; [|split]]].
    + intros F HF. apply Hk. pose proof (convert_fuel_le G (t_glyph it) D L HD HL). lia.
    + apply inv_set; auto. intros c [].
    + rewrite length_set_nth; auto.
    + rewrite length_set_nth; auto.
    + apply maxdeg_set; auto. simpl. lia.
  - set (g := t_glyph it) in *. set (n := length G).
    eexists. split; [intros; reflexivity|].
    assert (Hv : t_id it < length G) by (pose proof (inv_len _ _ _ I); lia).
    split; [|split; [|split]].
    + rewrite <- set_nth_app_l by auto. apply inv_set; [apply inv_app_leaf; auto|].
      intros c Hc. unfold bases in Hc. simpl in Hc. rewrite map_app in Hc.
      apply in_app_iff in Hc as [Hc|[<-|[]]].
      * destruct (Hit c Hc). rewrite app_length. simpl. split; [auto|lia].
      * simpl. rewrite app_length. simpl. fold n.
        rewrite (inv_new _ _ _ I n) by (pose proof (inv_len _ _ _ I); lia).
        pose proof (inv_old _ _ _ I (t_id it) Hid). split; lia.
    + rewrite app_length, length_set_nth. lia.
    + rewrite app_length, length_set_nth. simpl. lia.
    + apply maxdeg_app_leaf. apply maxdeg_set; auto. simpl. rewrite app_length. simpl. lia.
Qed.

(* ---------------------------------------------------------------- the loop *)
Definition is_min (r : nat -> nat) (pending : list nat) (it : todo_item) : Prop :=
  forall p, In p pending -> r (t_id it) <= r p.

Lemma remove_id_In v l p : In p (remove_id v l) <-> In p l /\ p <> v.
Proof.
  unfold remove_id. rewrite filter_In, negb_true_iff, Nat.eqb_neq. tauto.
Qed.

Lemma choose_min r pending (todo : list todo_item) : todo <> [] ->
  (forall p, In p pending <-> In p (map t_id todo)) ->
  exists pre it post, todo = pre ++ it :: post /\ is_min r pending it.
Proof.
  intros Hne Hp.
  destruct (exists_min (fun it => r (t_id it)) todo Hne) as [it [Hin Hmin]].
  destruct (in_split _ _ Hin) as [pre [post ->]].
  exists pre, it, post. split; auto.
  intros p Hpin. apply Hp in Hpin. apply in_map_iff in Hpin as [x [<- Hx]]. apply Hmin; auto.
Qed.

Definition pot_ok (r : nat -> nat) (pending : list nat) (todo : list todo_item) (M : nat) : Prop :=
  match todo with
  | [] => 1 <= M
  | _ :: _ => exists pre it post, todo = pre ++ it :: post /\ is_min r pending it /\
                                  length todo * length todo + length pre < M
  end.

Lemma pot_ok_intro r pending todo M pre it post :
  todo = pre ++ it :: post -> is_min r pending it ->
  length todo * length todo + length pre < M -> pot_ok r pending todo M.
Proof.
  intros E Hmin H. destruct todo as [|a t]; [destruct pre; discriminate|].
  exists pre, it, post. auto.
Qed.

Lemma pot_ok_choose r pending todo M :
  (forall p, In p pending <-> In p (map t_id todo)) ->
  length todo * length todo + length todo <= M -> 1 <= M -> pot_ok r pending todo M.
Proof.
  intros Hp HM H1. destruct todo as [|a t]; [exact H1|].
  destruct (choose_min r pending (a :: t)) as [pre [it [post [E Hmin]]]]; [congruence | auto |].
  exists pre, it, post. split; [auto|split; [auto|]].
  rewrite E in HM |- *. rewrite app_length in *. simpl in *. lia.
Qed.

Lemma resolve_loop r n0 D L : forall M G pending todo,
  inv r n0 G ->
  (forall x, In x todo -> item_ok r n0 G x) ->
  NoDup (map t_id todo) ->
  (forall p, In p pending <-> In p (map t_id todo)) ->
  pot_ok r pending todo M ->
  maxdeg G <= D -> length G + length todo <= L ->
  (forall x, In x todo -> S (length (g_comps (t_glyph x))) <= D) ->
  exists G', (forall F f, res_fuel D L <= F -> M <= f -> resolve F f G pending todo = Some G') /\
             inv r n0 G' /\ maxdeg G' <= D /\ length G' <= L.
Proof.
  induction M as [|M IH]; intros G pending todo I Hok ND Hp Hpot HD HL Hsz.
  { destruct todo; simpl in Hpot; [lia|]. destruct Hpot as [? [? [? [_ [_ H]]]]]. lia. }
  destruct todo as [|hd tl].
  { exists G. split; [|split; [auto|split; [auto|simpl in HL; lia]]].
    intros F f _ Hf. destruct f; [lia|]. reflexivity. }
  destruct Hpot as [pre [it [post [E [Hmin Hphi]]]]].
  destruct (weight_exists G (inv_closed _ _ _ I) (inv_acyclic _ _ _ I)) as [w [W [Wb W1]]].
  assert (HLG : length G <= L) by (simpl in HL; lia).
  assert (Hstack : forall x, In x (hd :: tl) ->
            S (sumf w (rev (bases (t_glyph x)))) <= res_fuel D L).
  { intros x Hx. apply stack_fuel_le with (G := G); auto.
    rewrite rev_length. unfold bases. rewrite map_length. specialize (Hsz x Hx). lia. }
  destruct pre as [|p pre'].
  - (* the head is rank-minimal among the pending glyphs: it is fixed now *)
    simpl in E. inversion E; subst hd tl. clear E.
    assert (Hit : item_ok r n0 G it) by (apply Hok; left; auto).
    destruct (apply_fix_ok r n0 G it D L I Hit HD HLG (Hsz it (or_introl eq_refl)))
      as [G1 [Hfix [I1 [Hlen [Hlen1 HD1]]]]].
    destruct (IH G1 (remove_id (t_id it) pending) post) as [G2 [Hres [I2 [HD2 HL2]]]]; auto.
    + intros x Hx. apply item_ok_mono with (G := G); auto. apply Hok; right; auto.
    + simpl in ND. inversion ND; auto.
    + intros q. rewrite remove_id_In, Hp. simpl. inversion ND as [|? ? Hnin ND']; subst.
      split.
      * intros [[Hq|Hq] Hne]; [congruence | auto].
      * intros Hq. split; [auto|]. intros ->. auto.
    + apply pot_ok_choose.
      * intros q. rewrite remove_id_In, Hp. simpl. inversion ND as [|? ? Hnin ND']; subst.
        split.
        -- intros [[Hq|Hq] Hne]; [congruence | auto].
        -- intros Hq. split; [auto|]. intros ->. auto.
      * simpl in Hphi. lia.
      * simpl in Hphi. lia.
    + simpl in HL. lia.
    + intros x Hx. apply Hsz. right; auto.
    + exists G2. split; auto. intros F f HF Hf. destruct f as [|f]; [lia|]. simpl.
      specialize (Hstack it (or_introl eq_refl)).
      rewrite (reach_clear G w r pending (r (t_id it)) W (inv_ranked _ _ _ I) Hmin
                 (S (sumf w (rev (bases (t_glyph it))))) (rev (bases (t_glyph it)))); try lia.
      * rewrite Hfix by lia. apply Hres; lia.
      * intros c Hc. apply in_rev in Hc. apply Hit; auto.
  - (* some other glyph is at the head: it is either fixed or re-queued *)
    simpl in E. inversion E; subst hd tl. clear E.
    assert (Hpk : item_ok r n0 G p) by (apply Hok; left; auto).
    destruct (reach_terminates G w pending W (S (sumf w (rev (bases (t_glyph p)))))
                (rev (bases (t_glyph p)))) as [b Hb]; [lia|].
    specialize (Hstack p (or_introl eq_refl)).
    simpl in Hphi. rewrite app_length in Hphi. simpl in Hphi.
    destruct b.
    + (* re-queued: the minimal item moves one step towards the head *)
      assert (Hl : length (pre' ++ it :: post ++ [p]) = S (length pre' + S (length post))).
      { rewrite app_length. simpl. rewrite app_length. simpl. lia. }
      destruct (IH G pending (pre' ++ it :: (post ++ [p]))) as [G2 [Hres [I2 [HD2 HL2]]]]; auto.
      * intros x Hx. apply Hok. apply in_app_iff in Hx. simpl in Hx. simpl.
        rewrite in_app_iff. simpl. rewrite in_app_iff in Hx. simpl in Hx.
        destruct Hx as [Hx|[Hx|[Hx|[Hx|[]]]]]; auto.
      * apply Permutation_NoDup with (l := map t_id (p :: pre' ++ it :: post)); auto.
        apply Permutation_map.
        replace (pre' ++ it :: post ++ [p]) with ((pre' ++ it :: post) ++ [p])
          by (rewrite <- app_assoc; reflexivity).
        apply Permutation_cons_append.
      * intros q. rewrite Hp. rewrite !in_map_iff.
        split; intros [x [Hx Hin]]; exists x; split; auto.
        -- simpl in Hin. rewrite in_app_iff in *. simpl in *. rewrite in_app_iff. simpl.
           destruct Hin as [Hin|[Hin|[Hin|Hin]]]; auto.
        -- simpl. rewrite in_app_iff in *. simpl in *. rewrite in_app_iff in Hin. simpl in Hin.
           destruct Hin as [Hin|[Hin|[Hin|[Hin|[]]]]]; auto.
      * apply pot_ok_intro with (pre := pre') (it := it) (post := post ++ [p]); auto.
        rewrite Hl. lia.
      * rewrite Hl. simpl in HL. rewrite app_length in HL. simpl in HL. lia.
      * intros x Hx. apply Hsz. apply in_app_iff in Hx. simpl in Hx. simpl.
        rewrite in_app_iff. simpl. rewrite in_app_iff in Hx. simpl in Hx.
        destruct Hx as [Hx|[Hx|[Hx|[Hx|[]]]]]; auto.
      * exists G2. split; auto.
        intros F f HF Hf. destruct f as [|f]; [lia|]. simpl. rewrite Hb by lia.
        replace ((pre' ++ it :: post) ++ [p]) with (pre' ++ it :: post ++ [p])
          by (rewrite <- app_assoc; reflexivity).
        apply Hres; lia.
    + (* fixed *)
      destruct (apply_fix_ok r n0 G p D L I Hpk HD HLG (Hsz p (or_introl eq_refl)))
        as [G1 [Hfix [I1 [Hlen [Hlen1 HD1]]]]].
      destruct (IH G1 (remove_id (t_id p) pending) (pre' ++ it :: post))
        as [G2 [Hres [I2 [HD2 HL2]]]]; auto.
      * intros x Hx. apply item_ok_mono with (G := G); auto. apply Hok; right; auto.
      * simpl in ND. inversion ND; auto.
      * intros q. rewrite remove_id_In, Hp. simpl. inversion ND as [|? ? Hnin ND']; subst.
        split.
        -- intros [[Hq|Hq] Hne]; [congruence | auto].
        -- intros Hq. split; [auto|]. intros ->. auto.
      * apply pot_ok_intro with (pre := pre') (it := it) (post := post); auto.
        -- intros q Hq. apply remove_id_In in Hq as [Hq _]. apply Hmin; auto.
        -- rewrite app_length. simpl. lia.
      * simpl in HL. lia.
      * intros x Hx. apply Hsz. right; auto.
      * exists G2. split; auto.
        intros F f HF Hf. destruct f as [|f]; [lia|]. simpl. rewrite Hb by lia.
        rewrite Hfix by lia. apply Hres; lia.
Qed.

(* the re-queue loop ends after at most m*m + m + 1 iterations (m = number of glyphs to fix),
   and res_fuel D L is enough for every inner walk *)
Theorem resolve_terminates r n0 G todo D :
  inv r n0 G -> (forall x, In x todo -> item_ok r n0 G x) -> NoDup (map t_id todo) ->
  maxdeg G <= D -> (forall x, In x todo -> S (length (g_comps (t_glyph x))) <= D) ->
  exists G', (forall F f, res_fuel D (length G + length todo) <= F ->
                          length todo * length todo + length todo + 1 <= f ->
                          resolve F f G (map t_id todo) todo = Some G') /\
             inv r n0 G'.
Proof.
  intros I Hok ND HD Hsz.
  destruct (resolve_loop r n0 D (length G + length todo)
              (length todo * length todo + length todo + 1) G (map t_id todo) todo)
    as [G' [H [I' _]]]; auto; [tauto | | exists G'; auto].
  apply pot_ok_choose; [tauto | lia | lia].
Qed.
