(* C15 -- "acyclic" (a rank function exists) is exactly "no cycle" on graphs without
   missing references: what the depth sort drops always leads into a real cycle. *)
From Coq Require Import List Arith ZArith Bool Lia.
From FV.C15 Require Import Model Basics DepthSort.
Import ListNotations.

Fixpoint chain (G : store) (l : list nat) : Prop :=
  match l with
  | a :: (b :: _) as t => In b (succs G a) /\ chain G t
  | _ => True
  end.

Lemma chain_app_r G l1 l2 : chain G (l1 ++ l2) -> chain G l2.
Proof.
  induction l1 as [|a t IH]; simpl; auto.
  destruct (t ++ l2) eqn:E; intros H.
  - destruct t; simpl in E; [subst; simpl; auto | discriminate].
  - apply IH. tauto.
Qed.

Lemma chain_path G : forall l a b, chain G (a :: l ++ [b]) -> path G a b.
Proof.
  induction l as [|x t IH]; intros a b H.
  - simpl in H. apply path_one. tauto.
  - simpl in H. destruct H as [H1 H2]. apply path_step with (c := x); auto.
Qed.

Lemma chain_prefix G : forall l1 l2, chain G (l1 ++ l2) -> chain G l1.
Proof.
  induction l1 as [|a t IH]; intros l2 H; simpl; auto.
  destruct t as [|b t']; auto. simpl in H. split; [tauto|].
  apply (IH l2). simpl. tauto.
Qed.

Lemma dup_split (l : list nat) : ~ NoDup l -> exists a l1 l2 l3, l = l1 ++ a :: l2 ++ a :: l3.
Proof.
  induction l as [|x t IH]; intros H; [exfalso; apply H; constructor|].
  destruct (in_dec Nat.eq_dec x t) as [Hin|Hnin].
  - destruct (in_split _ _ Hin) as [l2 [l3 ->]]. exists x, [], l2, l3. reflexivity.
  - destruct IH as [a [l1 [l2 [l3 ->]]]].
    + intros ND. apply H. constructor; auto.
    + exists a, (x :: l1), l2, l3. reflexivity.
Qed.

(* if every glyph of a non-empty set S has a component in S, there is a cycle *)
Lemma trapped_set_has_cycle G (S : list nat) : S <> [] ->
  (forall v, In v S -> exists c, In c (succs G v) /\ In c S) -> has_cycle G.
Proof.
  intros Hne Hs.
  assert (Hchain : forall k v, In v S ->
            exists l, length l = k /\ chain G (v :: l) /\ forall x, In x l -> In x S).
  { induction k as [|k IH]; intros v Hv.
    - exists []. simpl. intuition.
    - destruct (Hs v Hv) as [c [Hc HcS]]. destruct (IH c HcS) as [l [Hl [Hch Hin]]].
      exists (c :: l). simpl. split; [lia|]. split; [split; auto|].
      intros x [<-|Hx]; auto. }
  destruct S as [|s0 S']; [congruence|].
  destruct (Hchain (length (s0 :: S')) s0 (or_introl eq_refl)) as [l [Hl [Hch Hin]]].
  assert (HND : ~ NoDup (s0 :: l)).
  { intros ND. pose proof (NoDup_incl_length ND (l' := s0 :: S')) as Hle.
    assert (incl (s0 :: l) (s0 :: S')) by (intros x [<-|Hx]; [left; auto | apply Hin; auto]).
    specialize (Hle H). simpl in *. lia. }
  destruct (dup_split _ HND) as [a [l1 [l2 [l3 E]]]].
  exists a. rewrite E in Hch. apply chain_app_r in Hch.
  replace (a :: l2 ++ a :: l3) with ((a :: l2 ++ [a]) ++ l3) in Hch
    by (simpl; rewrite <- app_assoc; reflexivity).
  apply chain_prefix in Hch. apply chain_path in Hch. auto.
Qed.

(* what the depth sort leaves over is such a trapped set *)
Theorem depth_sorted_stuck_has_cycle G f sorted stuck :
  closed G -> depth_sorted f G = Some (sorted, stuck) -> stuck <> [] -> has_cycle G.
Proof.
  intros C H Hne. destruct (depth_sorted_final _ _ _ _ H) as [d [I [S _]]].
  apply trapped_set_has_cycle with (S := stuck); auto.
  intros v Hv. destruct (max_depth_none _ _ _ (S v Hv)) as [c [Hc Hd]].
  exists c. split; auto. apply (dsi_none _ _ _ I); auto. eapply C; eauto.
Qed.

Theorem acyclic_iff_no_cycle G : closed G -> (acyclic G <-> ~ has_cycle G).
Proof.
  intros C. split.
  - intros A Hc. apply (has_cycle_not_acyclic G Hc A).
  - intros NC. destruct (depth_sorted_total G) as [[sorted stuck] H].
    specialize (H (length G + 2) (le_n _)).
    destruct stuck as [|s st].
    + eapply depth_sorted_sound; eauto.
    + exfalso. apply NC. eapply depth_sorted_stuck_has_cycle; eauto. congruence.
Qed.

(* the entry check rejects exactly the graphs that have a cycle *)
Theorem cycle_check_false_iff_cycle G f : closed G -> length G + 2 <= f ->
  (cycle_check f G = Some false <-> has_cycle G) /\
  (cycle_check f G = Some true <-> ~ has_cycle G).
Proof.
  intros C Hf. destruct (cycle_check_total G) as [b Hb]. specialize (Hb f Hf).
  pose proof (acyclic_iff_no_cycle G C) as HA.
  split; split.
  - intros H. destruct (depth_sorted_total G) as [[sorted stuck] Hd]. specialize (Hd f Hf).
    unfold cycle_check in H. rewrite Hd in H. destruct stuck; [discriminate|].
    eapply depth_sorted_stuck_has_cycle; eauto. congruence.
  - intros Hc. rewrite Hb. f_equal. eapply cycle_check_rejects_cycles; eauto.
  - intros H Hc. rewrite (cycle_check_rejects_cycles G f b Hc Hb) in Hb. congruence.
  - intros NC. rewrite Hb. f_equal. apply HA in NC.
    eapply cycle_check_acyclic_true; eauto.
Qed.
