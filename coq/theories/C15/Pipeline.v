(* C15 -- GlyphOrderWork::exec + back end as a whole: on acyclic graphs every stage
   ends and keeps the graph acyclic; the repaired entry check rejects every cyclic
   graph before any other walk; the unrepaired pipeline diverges on the 2-cycle. *)
From Coq Require Import List Arith ZArith Bool Lia Permutation.
From FV.C15 Require Import Model Basics DepthSort Walks Resolve.
Import ListNotations.

(* the invariant of the stages that do not add glyphs *)
Definition inv_len (r : nat -> nat) (n0 : nat) (G : store) : Prop := inv r n0 G /\ length G = n0.

(* =============================================== flatten_all_non_export_components *)
Lemma flatten_ne_comps_bases G cs b :
  In b (map c_base (fst (flatten_ne_comps G cs))) ->
  In b (map c_base cs) \/ exists c, In c cs /\ In b (succs G (c_base c)).
Proof.
  induction cs as [|c t IH]; simpl; [tauto|].
  destruct (g_export (get G (c_base c))); simpl.
  - intros [<-|H]; [auto|]. destruct (IH H) as [H1|[x [Hx Hb]]]; [auto|]. right; exists x; auto.
  - rewrite map_app, in_app_iff, shift_bases. intros [H|H].
    + right. exists c. split; auto.
    + destruct (IH H) as [H1|[x [Hx Hb]]]; [auto|]. right; exists x; auto.
Qed.

Lemma flatten_ne_step_ok r n0 G v : inv_len r n0 G ->
  exists F G', (forall f, F <= f -> flatten_ne_step f G v = Some G') /\ inv_len r n0 G'.
Proof.
  intros [I L]. unfold flatten_ne_step.
  destruct (has_non_export G (get G v)).
  - destruct (collect_nested_total G (get G v)) as [seen Hs].
    exists (S (length (g_comps (get G v)) + edges G)), (set_nth G v (flatten_ne_glyph G (get G v))).
    split.
    + intros f Hf. rewrite Hs by lia. reflexivity.
    + split; [|rewrite length_set_nth; auto].
      apply inv_set; auto. intros c Hc. unfold flatten_ne_glyph, bases in Hc. simpl in Hc.
      apply flatten_ne_comps_bases in Hc as [Hc|[x [Hx Hc]]].
      * split; [apply (inv_ranked _ _ _ I v c Hc) | apply (inv_closed _ _ _ I v c Hc)].
      * assert (Hxv : In (c_base x) (succs G v)) by (unfold succs, bases; apply in_map; auto).
        pose proof (inv_ranked _ _ _ I v _ Hxv). pose proof (inv_ranked _ _ _ I _ c Hc).
        split; [lia | apply (inv_closed _ _ _ I _ c Hc)].
  - exists 0, G. split; auto. split; auto.
Qed.

Lemma stage_flatten_ne_ok r n0 G : inv_len r n0 G ->
  exists F G', (forall f, F <= f -> stage_flatten_ne f G = Some G') /\ inv_len r n0 G'.
Proof.
  intros P. destruct (depth_sorted_total G) as [[sorted stuck] Hds].
  destruct (fold_opt_inv (inv_len r n0) flatten_ne_step sorted
              (fun b x Pb => flatten_ne_step_ok r n0 b x Pb) G P) as [F [G' [HF P']]].
  exists (Nat.max F (length G + 2)), G'. split; auto.
  intros f Hf. unfold stage_flatten_ne. rewrite Hds by lia. apply HF; lia.
Qed.

(* =============================================== stage 5 *)
Lemma convert_step_ok r n0 G v g : inv_len r n0 G ->
  exists F G', (forall f, F <= f -> convert f G v g = Some G') /\ inv_len r n0 G'.
Proof.
  intros [I L].
  destruct (convert_terminates_on_acyclic G v g (inv_closed _ _ _ I) (inv_acyclic _ _ _ I)) as [k Hk].
  exists (S (convert_fuel G g)), (set_nth G v (mkGlyph [] k (g_export g))). split.
  - intros f Hf. apply Hk. lia.
  - split; [|rewrite length_set_nth; auto]. apply inv_set; auto. intros c [].
Qed.

Lemma stage5_ok r n0 G : inv_len r n0 G ->
  exists F G', (forall f, F <= f -> stage5 f G = Some G') /\ inv_len r n0 G'.
Proof.
  intros P. unfold stage5.
  apply (fold_opt_inv (inv_len r n0) step5_glyph (export_ids G)); auto.
  intros b v Pb. unfold step5_glyph.
  apply (fold_opt_inv (inv_len r n0)
           (fun f G' c => if g_export (get G' c) then Some G' else convert f G' v (get b v))
           (bases (get b v))); auto.
  intros b' c Pb'. destruct (g_export (get b' c)).
  - exists 0, b'. auto.
  - apply convert_step_ok; auto.
Qed.

(* =============================================== resolve_inconsistencies *)
Lemma mk_todo_ids fl G x : In x (map t_id (mk_todo fl G)) -> In x (export_ids G).
Proof.
  unfold mk_todo. rewrite in_map_iff. intros [it [<- Hin]]. apply in_flat_map in Hin as [v [Hv Hin]].
  destruct (mixed (get G v)); [|destruct Hin]. destruct Hin as [<-|[]]. auto.
Qed.

Lemma mk_todo_nodup_aux fl G l : NoDup l ->
  NoDup (map t_id (flat_map (fun v => let g := get G v in
                     if mixed g
                     then [mkTodo (if fl_prefer_simple fl then OpConvert else OpMove) v g]
                     else []) l)) /\
  forall x, In x (map t_id (flat_map (fun v => let g := get G v in
                     if mixed g
                     then [mkTodo (if fl_prefer_simple fl then OpConvert else OpMove) v g]
                     else []) l)) -> In x l.
Proof.
  induction 1 as [|a l Ha ND IH]; simpl; [split; [constructor | tauto]|].
  destruct IH as [IH1 IH2]. destruct (mixed (get G a)); simpl.
  - split; [constructor; auto|]. intros x [<-|Hx]; auto.
  - split; auto.
Qed.

Lemma stage_resolve_ok fl r n0 G2 G3 : inv_len r n0 G2 -> inv_len r n0 G3 ->
  exists F G', (forall f, F <= f -> stage_resolve fl f G2 G3 = Some G') /\ inv r n0 G'.
Proof.
  intros [I2 L2] [I3 L3]. unfold stage_resolve.
  destruct (resolve_terminates r n0 G3 (mk_todo fl G2) (S (Nat.max (maxdeg G2) (maxdeg G3))))
    as [G' [H I']]; auto.
  - intros it Hin. unfold mk_todo in Hin. apply in_flat_map in Hin as [v [Hv Hin]].
    destruct (mixed (get G2 v)); [|destruct Hin]. destruct Hin as [<-|[]]. simpl.
    unfold export_ids, ids in Hv. apply filter_In in Hv as [Hv _]. apply in_seq in Hv.
    split; [simpl; lia|]. simpl. intros c Hc. split.
    + apply (inv_ranked _ _ _ I2 v c Hc).
    + pose proof (inv_closed _ _ _ I2 v c Hc). lia.
  - apply (mk_todo_nodup_aux fl G2 (export_ids G2)). unfold export_ids, ids.
    apply NoDup_filter, seq_NoDup.
  - lia.
  - intros it Hin. unfold mk_todo in Hin. apply in_flat_map in Hin as [v [Hv Hin]].
    destruct (mixed (get G2 v)); [|destruct Hin]. destruct Hin as [<-|[]]. simpl.
    pose proof (comps_le_maxdeg G2 v). lia.
  - set (m := length (mk_todo fl G2)) in *.
    exists (Nat.max (res_fuel (S (Nat.max (maxdeg G2) (maxdeg G3))) (length G3 + m)) (m * m + m + 1)), G'.
    split; auto. intros f Hf. apply H; lia.
Qed.

(* =============================================== apply_optional_transformations *)
Lemma flatten_glyph_ok r n0 G v : inv r n0 G ->
  exists F G', (forall f, F <= f -> flatten_glyph f G v = Some G') /\ inv r n0 G'.
Proof.
  intros I. unfold flatten_glyph. destruct (g_comps (get G v)) as [|c cs] eqn:E.
  - exists 0, G. auto.
  - destruct (weight_exists G (inv_closed _ _ _ I) (inv_acyclic _ _ _ I)) as [w [W [Wb W1]]].
    destruct (flatten_loop_terminates G w (fun b => r b < r v /\ b < length G) W W1) with
      (m := S (sumf w (map c_base (c :: cs)))) (frontier := c :: cs) (simple := @nil comp)
      as [l [Hl Hq]].
    + intros b x [Hb _] Hx. pose proof (inv_ranked _ _ _ I b x Hx).
      split; [lia | apply (inv_closed _ _ _ I b x Hx)].
    + lia.
    + intros x Hx. rewrite app_nil_r in Hx.
      assert (Hs : In (c_base x) (succs G v)) by (unfold succs, bases; rewrite E; apply in_map; auto).
      split; [apply (inv_ranked _ _ _ I v _ Hs) | apply (inv_closed _ _ _ I v _ Hs)].
    + exists (S (sumf w (map c_base (c :: cs)))),
             (set_nth G v (mkGlyph l (g_contours (get G v)) (g_export (get G v)))).
      split.
      * intros f Hf. rewrite Hl by lia. reflexivity.
      * apply inv_set; auto. intros b Hb. unfold bases in Hb. simpl in Hb.
        apply in_map_iff in Hb as [x [<- Hx]]. apply Hq; auto.
Qed.

Lemma convert_step_ok' r n0 G v g : inv r n0 G ->
  exists F G', (forall f, F <= f -> convert f G v g = Some G') /\ inv r n0 G'.
Proof.
  intros I.
  destruct (convert_terminates_on_acyclic G v g (inv_closed _ _ _ I) (inv_acyclic _ _ _ I)) as [k Hk].
  exists (S (convert_fuel G g)), (set_nth G v (mkGlyph [] k (g_export g))). split.
  - intros f Hf. apply Hk. lia.
  - apply inv_set; auto. intros c [].
Qed.

Lemma stage_optional_ok fl r n0 G : inv r n0 G ->
  exists F G', (forall f, F <= f -> stage_optional fl f G = Some G') /\ inv r n0 G'.
Proof.
  intros I. unfold stage_optional. destruct (fl_decompose fl); [|destruct (fl_flatten fl)].
  - apply (fold_opt_inv (inv r n0)
             (fun f G' v => let g := get G' v in
                            if is_composite g then convert f G' v g else Some G')
             (export_ids G)); auto.
    intros b v Ib. simpl. destruct (is_composite (get b v)).
    + apply convert_step_ok'; auto.
    + exists 0, b. auto.
  - apply (fold_opt_inv (inv r n0) flatten_glyph (export_ids G)); auto.
    intros b v Ib. apply flatten_glyph_ok; auto.
  - exists 0, G. auto.
Qed.

(* =============================================== front end, back end, whole *)
Lemma fe_rest_ok fl r n0 G : inv_len r n0 G ->
  exists F G', (forall f, F <= f -> fe_rest fl f G = Some G') /\ inv r n0 G'.
Proof.
  intros P1.
  destruct (stage_flatten_ne_ok r n0 G P1) as [F2 [G2 [H2 P2]]].
  destruct (stage5_ok r n0 G2 P2) as [F3 [G3 [H3 P3]]].
  destruct (stage_resolve_ok fl r n0 G2 G3 P2 P3) as [F4 [G4 [H4 I4]]].
  destruct (stage_optional_ok fl r n0 G4 I4) as [F5 [G5 [H5 I5]]].
  exists (Nat.max (Nat.max F2 F3) (Nat.max F4 F5)), G5. split; auto.
  intros f Hf. unfold fe_rest. rewrite H2, H3, H4 by lia. apply H5; lia.
Qed.

Definition be_result (G : store) : outcome :=
  let order := export_ids G in
  if existsb (fun v => mixed (get G v)) order then MErr EMixed
  else if existsb (fun v => existsb (fun c => negb (g_export (get G c))) (succs G v)) order
  then MErr ENotInOrder else MOk.

Lemma be_result_not_diverge G : be_result G <> MDiverge.
Proof.
  unfold be_result.
  destruct (existsb _ _); [discriminate|]. destruct (existsb _ _); discriminate.
Qed.

Lemma be_stage_ok G : closed G -> acyclic G ->
  forall f, length G + 1 + walk_bound G <= f -> be_stage f G = be_result G.
Proof.
  intros C A f Hf. unfold be_stage, be_result.
  destruct (existsb _ _); auto.
  destruct (existsb (fun v => existsb (fun c => negb (g_export (get G c))) (succs G v))
                    (export_ids G)) eqn:E2; auto.
  rewrite all_some_tt.
  - rewrite limits_ok_on_acyclic; auto; [|lia].
    intros v c Hv Hc.
    destruct (Nat.lt_ge_cases v (length G)) as [Hl|Hl]; [|rewrite succs_out in Hc by auto; destruct Hc].
    destruct (g_export (get G c)) eqn:Ec; auto. exfalso.
    assert (existsb (fun v => existsb (fun c => negb (g_export (get G c))) (succs G v))
                    (export_ids G) = true); [|congruence].
    apply existsb_exists. exists v. split.
    + unfold export_ids, ids. apply filter_In. split; [apply in_seq; lia | auto].
    + apply existsb_exists. exists c. split; auto. rewrite Ec. reflexivity.
  - intros v _. destruct (is_composite (get G v)); auto.
    apply bbox_terminates_on_acyclic; auto. lia.
Qed.

Lemma exec_rest_ok fl r n0 G : inv_len r n0 G ->
  exists F o, (forall f, F <= f -> exec_rest fl f G = o) /\ o <> MDiverge.
Proof.
  intros P. destruct (fe_rest_ok fl r n0 G P) as [F [G5 [H I5]]].
  exists (Nat.max F (length G5 + 1 + walk_bound G5)), (be_result G5).
  split; [|apply be_result_not_diverge].
  intros f Hf. unfold exec_rest. rewrite H by lia.
  apply be_stage_ok; [apply (inv_closed _ _ _ I5) | apply (inv_acyclic _ _ _ I5) | lia].
Qed.

Lemma exec_rest_acyclic fl G : closed G -> acyclic G ->
  exists F o, (forall f, F <= f -> exec_rest fl f G = o) /\ o <> MDiverge.
Proof.
  intros C A. destruct (inv_init G C A) as [r I].
  apply (exec_rest_ok fl r (length G) G). split; auto.
Qed.

(* the repaired compiler never diverges, on any store *)
Theorem fixed_exec_total fl G :
  exists F o, (forall f, F <= f -> exec true fl f G = o) /\ o <> MDiverge.
Proof.
  unfold exec, exec_gen.
  destruct (cycle_check_total (prune G)) as [b Hb]. destruct b.
  - assert (A : acyclic (prune G)).
    { apply cycle_check_true_acyclic with (f := length (prune G) + 2). apply Hb. lia. }
    destruct (exec_rest_acyclic fl (prune G) (prune_closed G) A) as [F [o [H Ho]]].
    exists (Nat.max F (length (prune G) + 2)), o. split; auto.
    intros f Hf. rewrite Hb by lia. apply H. lia.
  - exists (length (prune G) + 2), (MErr ECycle). split; [|discriminate].
    intros f Hf. rewrite Hb by lia. reflexivity.
Qed.

(* on acyclic inputs the repair changes nothing, and the unrepaired compiler ends too *)
Theorem acyclic_exec_total fl G : acyclic (prune G) ->
  exists F o, (forall f, F <= f -> exec false fl f G = o /\ exec true fl f G = o) /\ o <> MDiverge.
Proof.
  intros A. unfold exec, exec_gen.
  destruct (exec_rest_acyclic fl (prune G) (prune_closed G) A) as [F [o [H Ho]]].
  destruct (cycle_check_total (prune G)) as [b Hb].
  exists (Nat.max F (length (prune G) + 2)), o. split; auto.
  intros f Hf. split; [apply H; lia|].
  rewrite Hb by lia.
  rewrite (cycle_check_acyclic_true (prune G) (length (prune G) + 2) b (prune_closed G) A)
    by (apply Hb; lia).
  apply H. lia.
Qed.

(* whatever runs after the entry check (`rest`: every unguarded walk) is never reached
   on a cyclic graph: the result does not depend on it *)
Theorem cycle_rejected_before_walks G (rest : store -> outcome) f :
  has_cycle (prune G) -> length G + 2 <= f -> exec_gen true rest f G = MErr ECycle.
Proof.
  intros Hc Hf. unfold exec_gen.
  destruct (cycle_check_total (prune G)) as [b Hb].
  rewrite prune_length in Hb. rewrite Hb by auto.
  rewrite (cycle_check_rejects_cycles (prune G) f b Hc) by (apply Hb; auto). reflexivity.
Qed.

(* =============================================== the unrepaired compiler on cycles *)
Definition default_flags : flags := mkFlags true false false.

(* a -> b -> a, default flags: the back end's bbox walk never ends (a stack overflow before
   c15-bbox-iterative, a hang after it) *)
Theorem unfixed_exec_diverges_on_two_cycle : forall f, exec false default_flags f two_cycle = MDiverge.
Proof.
  intros f. destruct f as [|f]; [reflexivity|].
  unfold exec, exec_gen, exec_rest.
  change (prune two_cycle) with two_cycle.
  assert (E : fe_rest default_flags (S f) two_cycle = Some two_cycle) by reflexivity.
  rewrite E. unfold be_stage.
  change (export_ids two_cycle) with [0; 1].
  change (existsb (fun v => mixed (get two_cycle v)) [0; 1]) with false.
  change (existsb (fun v => existsb (fun c => negb (g_export (get two_cycle c))) (succs two_cycle v)) [0; 1])
    with false.
  cbv iota. unfold all_some.
  change (is_composite (get two_cycle 0)) with true. cbv iota.
  destruct (bbox_diverges_on_two_cycle (S f)) as [H _]. rewrite H. reflexivity.
Qed.

(* the same cycle with --flatten-components: flatten_glyph never ends *)
Theorem unfixed_exec_diverges_with_flatten :
  forall f, exec false (mkFlags true true false) f two_cycle = MDiverge.
Proof.
  intros f. destruct f as [|f]; [reflexivity|].
  unfold exec, exec_gen, exec_rest, fe_rest.
  change (prune two_cycle) with two_cycle.
  assert (E2 : stage_flatten_ne (S f) two_cycle = Some two_cycle) by reflexivity.
  assert (E3 : stage5 (S f) two_cycle = Some two_cycle) by reflexivity.
  assert (E4 : stage_resolve (mkFlags true true false) (S f) two_cycle two_cycle = Some two_cycle)
    by reflexivity.
  rewrite E2, E3, E4. unfold stage_optional. cbv iota beta. simpl fl_decompose. simpl fl_flatten.
  cbv iota. change (export_ids two_cycle) with [0; 1]. unfold fold_opt.
  rewrite flatten_glyph_diverges_on_two_cycle. reflexivity.
Qed.

(* a glyph with contours on the cycle: resolve_inconsistencies re-queues it for ever (hang) *)
Theorem unfixed_exec_diverges_on_mixed_cycle :
  forall f, exec false default_flags f mixed_cycle = MDiverge.
Proof.
  intros f. destruct f as [|f]; [reflexivity|].
  unfold exec, exec_gen, exec_rest, fe_rest.
  change (prune mixed_cycle) with mixed_cycle.
  assert (E2 : stage_flatten_ne (S f) mixed_cycle = Some mixed_cycle) by reflexivity.
  assert (E3 : stage5 (S f) mixed_cycle = Some mixed_cycle) by reflexivity.
  rewrite E2, E3. unfold stage_resolve.
  change (mk_todo default_flags mixed_cycle) with mixed_cycle_todo.
  change (map t_id mixed_cycle_todo) with [0].
  rewrite resolve_livelock_on_mixed_cycle. reflexivity.
Qed.

(* with the repair, the same three inputs are reported as errors *)
Example fixed_exec_on_cycles :
  exec true default_flags 10 two_cycle = MErr ECycle /\
  exec true (mkFlags true true false) 10 two_cycle = MErr ECycle /\
  exec true default_flags 10 mixed_cycle = MErr ECycle.
Proof. repeat split; reflexivity. Qed.
