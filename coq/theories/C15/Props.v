(* C15 -- Bad input ends in a reported error, never a crash, hang or bogus font.
   Property theorems only; proofs are in Proofs.v and the files it re-exports.

   What the model carries of the property: termination (no hang, no runaway recursion /
   stack overflow) of every walk over the component graph and of GlyphOrderWork::exec +
   back end as a whole, on arbitrary finite component graphs.  Fuel stands for loop
   iterations, queue growth and recursion depth; `None` / `MDiverge` for every fuel is a
   hang or a stack overflow of the real process.  Parsers (plist, XML, FEA), memory
   limits and the actual stack size are NOT in the model: they are exercised by the
   correspondence run only. *)
From Coq Require Import List Arith ZArith Bool.
From FV.C15 Require Import Model Proofs.
Import ListNotations.

(* ======================= guarded walks: total on EVERY graph (cyclic or not) ======== *)

(* depth_sorted_composite_glyphs (also the only walk of propagate_all_anchors and of
   glyphs-reader's bracket-layer / smart-component passes): at most n+2 loop tests. *)
Theorem depth_sort_terminates_on_any_graph : forall G : store,
  exists res, forall fuel, length G + 2 <= fuel -> depth_sorted fuel G = Some res.
Proof. exact depth_sorted_total. Qed.
Print Assumptions depth_sort_terminates_on_any_graph.

(* ... and it never hands a glyph that lies on a cycle to its callers. *)
Theorem depth_sort_never_returns_cyclic_glyph : forall G fuel sorted stuck v,
  depth_sorted fuel G = Some (sorted, stuck) -> In v sorted -> ~ path G v v.
Proof. exact depth_sorted_no_cycle. Qed.
Print Assumptions depth_sort_never_returns_cyclic_glyph.

(* collect_component_locations_nested (has a `seen` set): at most |components| + |edges| pops. *)
Theorem collect_nested_terminates_on_any_graph : forall (G : store) (g : glyph),
  exists res, forall fuel, length (g_comps g) + edges G < fuel -> collect_nested fuel G g = Some res.
Proof. exact collect_nested_total. Qed.
Print Assumptions collect_nested_terminates_on_any_graph.

(* update_composite_limits (progress assertion): ends on every graph (possibly with the
   assertion firing, which fontc reports as an error), and succeeds on acyclic ones
   (exports_closed: the glyphs of the glyph order only refer to glyphs of the glyph order,
   which create_composite has checked by then). *)
Theorem limits_terminates_on_any_graph : forall G : store,
  exists b, forall fuel, length G + 1 <= fuel -> limits fuel G = Some b.
Proof. exact limits_total. Qed.
Print Assumptions limits_terminates_on_any_graph.

Theorem limits_ok_on_acyclic : forall G : store, closed G -> acyclic G -> exports_closed G ->
  forall fuel, length G + 1 <= fuel -> limits fuel G = Some true.
Proof. exact limits_ok_on_acyclic. Qed.
Print Assumptions limits_ok_on_acyclic.

(* ======================= unguarded walks: end on acyclic graphs, explicit bounds ===== *)
(* walk_bound G = (maxdeg G + 1) ^ (number of glyphs) bounds the pops caused by one
   stack entry; results do not depend on the fuel once it exceeds the bound. *)

(* resolve_inconsistencies, inner reachability walk *)
Theorem reach_terminates_on_acyclic : forall (G : store) (pending stack : list nat),
  closed G -> acyclic G ->
  exists b, forall fuel, length stack * walk_bound G < fuel -> reach fuel G pending stack = Some b.
Proof. exact reach_terminates_on_acyclic. Qed.
Print Assumptions reach_terminates_on_acyclic.

Theorem reach_diverges_on_cycle_refuted :
  exists (G : store) (stack : list nat), forall fuel, reach fuel G [] stack = None.
Proof. exact reach_diverges_witness. Qed.
Print Assumptions reach_diverges_on_cycle_refuted.

(* resolve_inconsistencies, re-queue loop: at most m*m+m+1 iterations for m glyphs to fix;
   every inner walk and fix ends within res_fuel D L = D + L*D + D*(D+1)^L + 2 steps, where
   D = maxdeg+1 and L = glyphs + m bound every store the loop goes through (each fix adds at
   most one glyph and one component); the result is again closed and acyclic. *)
Theorem resolve_terminates_on_acyclic : forall (G : store) (ops : list (op * nat)),
  closed G -> acyclic G ->
  NoDup (map snd ops) -> (forall ov, In ov ops -> snd ov < length G) ->
  exists G', (forall F fuel, res_fuel (S (maxdeg G)) (length G + length ops) <= F ->
                   length ops * length ops + length ops + 1 <= fuel ->
                   resolve F fuel G (map t_id (todo_of G ops)) (todo_of G ops) = Some G') /\
             closed G' /\ acyclic G'.
Proof. exact resolve_terminates_plain. Qed.
Print Assumptions resolve_terminates_on_acyclic.

(* a glyph with contours on a cycle is re-queued for ever: the process hangs *)
Theorem resolve_livelock_on_cycle_refuted :
  exists (G : store) (ops : list (op * nat)),
    NoDup (map snd ops) /\ (forall ov, In ov ops -> snd ov < length G) /\
    forall F fuel, resolve F fuel G (map t_id (todo_of G ops)) (todo_of G ops) = None.
Proof. exact resolve_livelock_witness. Qed.
Print Assumptions resolve_livelock_on_cycle_refuted.

(* convert_components_to_contours (visited keyed by the accumulated transform) *)
Theorem convert_terminates_on_acyclic : forall (G : store) (v : nat) (g : glyph),
  closed G -> acyclic G ->
  exists k, forall fuel, convert_fuel G g < fuel ->
    convert fuel G v g = Some (set_nth G v (mkGlyph [] k (g_export g))).
Proof. exact convert_terminates_on_acyclic. Qed.
Print Assumptions convert_terminates_on_acyclic.

Theorem convert_diverges_on_cycle_refuted :
  exists (G : store) (v : nat), forall fuel, convert fuel G v (get G v) = None.
Proof. exact convert_diverges_witness. Qed.
Print Assumptions convert_diverges_on_cycle_refuted.

(* flatten_glyph *)
Theorem flatten_terminates_on_acyclic : forall (G : store) (v : nat), closed G -> acyclic G ->
  exists G', forall fuel, length (g_comps (get G v)) * walk_bound G < fuel ->
    flatten_glyph fuel G v = Some G'.
Proof. exact flatten_glyph_terminates_on_acyclic. Qed.
Print Assumptions flatten_terminates_on_acyclic.

Theorem flatten_diverges_on_cycle_refuted :
  exists (G : store) (v : nat), forall fuel, flatten_glyph fuel G v = None.
Proof. exact flatten_diverges_witness. Qed.
Print Assumptions flatten_diverges_on_cycle_refuted.

(* bbox_of_composite, as repaired by c15-bbox-iterative (work list on the heap, no visited set) *)
Theorem bbox_terminates_on_acyclic : forall (G : store) (v : nat), closed G -> acyclic G ->
  forall fuel, walk_bound G < fuel -> bbox fuel G v = Some tt.
Proof. exact bbox_terminates_on_acyclic. Qed.
Print Assumptions bbox_terminates_on_acyclic.

(* on a -> b -> a the work list never empties.  (Unreachable since the entry check; before the
   two repairs this was the stack overflow of DESIGN 6.1.) *)
Theorem bbox_diverges_on_cycle_refuted :
  exists (G : store) (v : nat), forall fuel, bbox fuel G v = None.
Proof. exact bbox_diverges_witness. Qed.
Print Assumptions bbox_diverges_on_cycle_refuted.

(* The defect repaired by c15-bbox-iterative, stated on the FORMER code (bbox_rec, plain
   recursion): on ACYCLIC graphs the recursion was as deep as the nesting, so no fixed stack
   sufficed for all valid inputs.  The model cannot say when a 2 MiB worker stack overflows;
   the harness showed it did for a chain of 1500 glyphs (key
   deep-component-nesting-stack-overflow) and keeps that chain, and one of 5000, in its corpus. *)
Theorem recursive_bbox_depth_unbounded_refuted : forall depth, exists (G : store) (v : nat),
  closed G /\ acyclic G /\ bbox_rec depth G v = None /\ exists depth', bbox_rec depth' G v = Some tt.
Proof. exact bbox_depth_unbounded. Qed.
Print Assumptions recursive_bbox_depth_unbounded_refuted.

(* ======================= the repaired entry check ==================================== *)

(* `acyclic` (a rank function exists), the hypothesis of the walk theorems above, is
   exactly "no component cycle" on graphs without missing references *)
Theorem acyclic_is_no_cycle : forall G : store, closed G -> (acyclic G <-> ~ has_cycle G).
Proof. exact acyclic_iff_no_cycle. Qed.
Print Assumptions acyclic_is_no_cycle.

(* the check rejects exactly the graphs that have a cycle (nothing valid is rejected) *)
Theorem cycle_check_rejects_exactly_cycles : forall (G : store) fuel,
  closed G -> length G + 2 <= fuel ->
  (cycle_check fuel G = Some false <-> has_cycle G) /\
  (cycle_check fuel G = Some true <-> ~ has_cycle G).
Proof. exact cycle_check_false_iff_cycle. Qed.
Print Assumptions cycle_check_rejects_exactly_cycles.

(* every cyclic graph is rejected with an error, and nothing that runs after the check
   (`rest`: all unguarded walks, front end and back end) can influence the result *)
Theorem cycle_rejected_before_walks : forall (G : store) (rest : store -> outcome) fuel,
  has_cycle (prune G) -> length G + 2 <= fuel -> exec_gen true rest fuel G = MErr ECycle.
Proof. exact Pipeline.cycle_rejected_before_walks. Qed.
Print Assumptions cycle_rejected_before_walks.

(* ======================= the whole compile =========================================== *)

(* with the repair: for EVERY store and flags the model of GlyphOrderWork::exec + back end
   ends (for all fuel above some F, with a fuel-independent outcome) in Ok or a reported
   error -- never in a hang or a stack overflow *)
Theorem fixed_compile_never_diverges : forall (fl : flags) (G : store),
  exists F o, (forall fuel, F <= fuel -> exec true fl fuel G = o) /\ o <> MDiverge.
Proof. exact fixed_exec_total. Qed.
Print Assumptions fixed_compile_never_diverges.

(* the repair is invisible on inputs without a component cycle, which the unrepaired
   compiler handles too *)
Theorem repair_transparent_without_cycle : forall (fl : flags) (G : store), ~ has_cycle (prune G) ->
  exists F o, (forall fuel, F <= fuel -> exec false fl fuel G = o /\ exec true fl fuel G = o)
              /\ o <> MDiverge.
Proof. exact no_cycle_exec_total. Qed.
Print Assumptions repair_transparent_without_cycle.

(* C15 is FALSE for the compiler without the entry check: a -> b -> a never leaves bbox_of_composite
   (default flags; a stack overflow before c15-bbox-iterative),
   hangs in flatten_glyph (--flatten-components), and hangs in the re-queue loop when a
   has contours.  All three were replayed on the real CLI while it lacked the check (fixed
   corpus of the harness); with the check they are rejected, see the last Example. *)
Theorem unfixed_compile_diverges_refuted :
  (forall fuel, exec false default_flags fuel two_cycle = MDiverge) /\
  (forall fuel, exec false (mkFlags true true false) fuel two_cycle = MDiverge) /\
  (forall fuel, exec false default_flags fuel mixed_cycle = MDiverge).
Proof. exact unfixed_exec_diverges_witness. Qed.
Print Assumptions unfixed_compile_diverges_refuted.

(* ======================= the hypotheses are satisfiable ============================== *)
Example acyclic_hypotheses_met : closed ex_dag /\ acyclic ex_dag /\ ~ has_cycle (prune ex_dag).
Proof.
  split; [exact ex_dag_closed | split; [exact ex_dag_acyclic|]].
  apply acyclic_iff_no_cycle; [apply prune_closed|].
  exists (fun v => v). intros v c H.
  destruct v as [|[|[|[|[|v]]]]]; cbn in H; intuition; subst; auto with arith.
Qed.

(* nested composite with a non-exported and a mixed glyph compiles under every flag set,
   with and without the repair *)
Example ex_dag_compiles :
  exec false default_flags 200 ex_dag = MOk /\ exec true default_flags 200 ex_dag = MOk /\
  exec true (mkFlags false false false) 200 ex_dag = MOk /\
  exec true (mkFlags true true false) 200 ex_dag = MOk /\
  exec true (mkFlags true false true) 200 ex_dag = MOk.
Proof. vm_compute. repeat split; reflexivity. Qed.

Example limits_hypotheses_met :
  let G := [mkGlyph [] 1 true; mkGlyph [mkComp 0 0 0] 0 true; mkGlyph [mkComp 1 5 0] 0 true] in
  closed G /\ acyclic G /\ exports_closed G /\ limits 4 G = Some true.
Proof.
  cbv zeta. split; [|split; [|split; [|reflexivity]]].
  - intros v c H. destruct v as [|[|[|[|v]]]]; cbn in H; cbn; intuition; subst; auto with arith.
  - exists (fun v => v). intros v c H.
    destruct v as [|[|[|[|v]]]]; cbn in H; intuition; subst; auto with arith.
  - intros v c _ H. destruct v as [|[|[|[|v]]]]; cbn in H; intuition; subst; reflexivity.
Qed.

Example cyclic_hypothesis_met : has_cycle (prune two_cycle) /\ closed two_cycle.
Proof. split; [exact two_cycle_has_cycle | exact two_cycle_closed]. Qed.

Example resolve_hypotheses_met :
  NoDup (map snd [(OpMove, 3)]) /\ (forall ov, In ov [(OpMove, 3)] -> snd ov < length ex_dag) /\
  exists G', resolve 50 50 ex_dag (map t_id (todo_of ex_dag [(OpMove, 3)])) (todo_of ex_dag [(OpMove, 3)])
             = Some G' /\ length G' = 5.
Proof.
  split; [repeat constructor; simpl; tauto|]. split.
  - intros ov [<-|[]]. simpl. auto with arith.
  - eexists. split; [vm_compute; reflexivity | reflexivity].
Qed.

(* with the repair the three refuting inputs are reported as errors *)
Example refuting_inputs_rejected_after_repair :
  exec true default_flags 10 two_cycle = MErr ECycle /\
  exec true (mkFlags true true false) 10 two_cycle = MErr ECycle /\
  exec true default_flags 10 mixed_cycle = MErr ECycle.
Proof. exact fixed_exec_on_cycles. Qed.
