(* C15 -- the progress loop of depth_sorted_composite_glyphs: total on every graph,
   and "nothing dropped" <-> acyclic (for graphs without missing references). *)
From Coq Require Import List Arith ZArith Bool Lia.
From FV.C15 Require Import Model Basics.
Import ListNotations.

(* ---------------------------------------------------------------- depths *)
Lemma dget_set_eq d v x : v < length d -> dget (set_nth d v x) v = x.
Proof. intros; unfold dget; apply nth_set_nth_eq; auto. Qed.
Lemma dget_set_neq d v u x : v <> u -> dget (set_nth d v x) u = dget d u.
Proof. intros; unfold dget; apply nth_set_nth_neq; auto. Qed.
Lemma dget_out d v : length d <= v -> dget d v = None.
Proof. intros; unfold dget; apply nth_overflow; auto. Qed.

Lemma max_depth_some d cs : forall acc m, max_depth d cs acc = Some m ->
  acc <= m /\ forall c, In c cs -> exists e, dget d c = Some e /\ e <= m.
Proof.
  induction cs as [|c t IH]; simpl; intros acc m H.
  - inversion H; subst. split; [lia | tauto].
  - destruct (dget d c) as [e|] eqn:E; [|discriminate].
    destruct (IH _ _ H) as [H1 H2]. split; [lia|].
    intros c' [<-|Hc]; [exists e; split; [auto|lia] | auto].
Qed.

Lemma max_depth_none d cs : forall acc, max_depth d cs acc = None ->
  exists c, In c cs /\ dget d c = None.
Proof.
  induction cs as [|c t IH]; simpl; intros acc H; [discriminate|].
  destruct (dget d c) as [e|] eqn:E.
  - destruct (IH _ H) as [c' [H1 H2]]. exists c'; auto.
  - exists c; auto.
Qed.

Lemma max_depth_none_intro d cs c : In c cs -> dget d c = None ->
  forall acc, max_depth d cs acc = None.
Proof.
  induction cs as [|x t IH]; simpl; [tauto|]. intros [->|Hc] Hd acc.
  - rewrite Hd; auto.
  - destruct (dget d x); auto.
Qed.

(* ---------------------------------------------------------------- one pass *)
Lemma ds_pass_length G l : forall d, length (fst (ds_pass G l d)) <= length l.
Proof.
  induction l as [|v t IH]; simpl; intros d; auto.
  destruct (max_depth d (succs G v) 0).
  - specialize (IH (set_nth d v (Some (S n)))). lia.
  - specialize (IH d). destruct (ds_pass G t d); simpl in *; lia.
Qed.

(* a pass that retains everything changed nothing and every glyph is blocked *)
Lemma ds_pass_stuck G l : forall d, length (fst (ds_pass G l d)) = length l ->
  ds_pass G l d = (l, d) /\ forall v, In v l -> max_depth d (succs G v) 0 = None.
Proof.
  induction l as [|v t IH]; simpl; intros d H; [split; [auto | tauto]|].
  destruct (max_depth d (succs G v) 0) eqn:E.
  - pose proof (ds_pass_length G t (set_nth d v (Some (S n)))). lia.
  - specialize (IH d). destruct (ds_pass G t d) as [r d'] eqn:Ep. simpl in *.
    destruct IH as [IH1 IH2]; [lia|]. inversion IH1; subst. split; auto.
    intros u [<-|Hu]; auto.
Qed.

(* the loop invariant *)
Record ds_inv (G : store) (indet : list nat) (d : depths) : Prop := {
  dsi_len : length d = length G;
  dsi_none : forall v, v < length G -> (dget d v = None <-> In v indet);
  dsi_rank : forall v k, dget d v = Some k ->
             forall c, In c (succs G v) -> exists e, dget d c = Some e /\ e < k;
  dsi_nodup : NoDup indet;
  dsi_range : forall v, In v indet -> v < length G
}.

Lemma ds_pass_inv G l : forall pre d,
  ds_inv G (pre ++ l) d ->
  ds_inv G (pre ++ fst (ds_pass G l d)) (snd (ds_pass G l d)).
Proof.
  induction l as [|v t IH]; intros pre d I; [simpl; auto|].
  simpl. destruct (max_depth d (succs G v) 0) as [m|] eqn:E.
  - apply IH.
    destruct I as [I1 I2 I3 I4 I5].
    assert (Hv : v < length G) by (apply I5; apply in_or_app; right; left; auto).
    assert (Hvn : dget d v = None) by (apply I2; auto; apply in_or_app; right; left; auto).
    constructor.
    + rewrite length_set_nth; auto.
    + intros u Hu. destruct (Nat.eq_dec v u) as [<-|Hne].
      * rewrite dget_set_eq by lia. split; [discriminate|].
        intros Hin. exfalso. apply NoDup_remove_2 in I4. auto.
      * rewrite dget_set_neq by auto. rewrite I2 by auto.
        rewrite !in_app_iff. simpl. intuition congruence.
    + intros u k Hu c Hc. destruct (Nat.eq_dec v u) as [<-|Hne].
      * rewrite dget_set_eq in Hu by lia. inversion Hu; subst k.
        destruct (max_depth_some _ _ _ _ E) as [_ H]. destruct (H c Hc) as [e [He Hle]].
        assert (c <> v) by (intros ->; congruence).
        exists e. rewrite dget_set_neq by auto. split; [auto | lia].
      * rewrite dget_set_neq in Hu by auto.
        destruct (I3 u k Hu c Hc) as [e [He Hlt]].
        assert (c <> v) by (intros ->; congruence).
        exists e. rewrite dget_set_neq by auto. auto.
    + apply NoDup_remove_1 in I4; auto.
    + intros u Hu. apply I5. apply in_app_iff in Hu. apply in_app_iff. simpl. tauto.
  - specialize (IH (pre ++ [v]) d). rewrite <- app_assoc in IH. simpl in IH.
    specialize (IH I). destruct (ds_pass G t d) as [r d'] eqn:Ep. simpl in *.
    rewrite <- app_assoc in IH. simpl in IH. auto.
Qed.

(* ---------------------------------------------------------------- the loop *)
Lemma ds_loop_zero G indet d f : 1 <= f -> ds_loop f G indet d 0 = Some (indet, d).
Proof. destruct f; [lia|]; reflexivity. Qed.

Lemma ds_loop_total G : forall k indet d p, length indet <= k ->
  exists res, forall f, k + 2 <= f -> ds_loop f G indet d p = Some res.
Proof.
  induction k as [|k IH]; intros indet d p Hk.
  - destruct p as [|p].
    + exists (indet, d). intros f Hf. apply ds_loop_zero; lia.
    + destruct (ds_pass G indet d) as [i' d'] eqn:Ep.
      exists (i', d'). intros f Hf. destruct f as [|f]; [lia|]. simpl. rewrite Ep.
      pose proof (ds_pass_length G indet d) as Hl. rewrite Ep in Hl. simpl in Hl.
      replace (length indet - length i') with 0 by lia. apply ds_loop_zero; lia.
  - destruct p as [|p].
    + exists (indet, d). intros f Hf. apply ds_loop_zero; lia.
    + destruct (ds_pass G indet d) as [i' d'] eqn:Ep.
      pose proof (ds_pass_length G indet d) as Hl. rewrite Ep in Hl. simpl in Hl.
      destruct (Nat.eq_dec (length i') (length indet)) as [He|Hne].
      * exists (i', d'). intros f Hf. destruct f as [|f]; [lia|]. simpl. rewrite Ep.
        replace (length indet - length i') with 0 by lia. apply ds_loop_zero; lia.
      * destruct (IH i' d' (length indet - length i')) as [res Hres]; [lia|].
        exists res. intros f Hf. destruct f as [|f]; [lia|]. simpl. rewrite Ep.
        apply Hres; lia.
Qed.

Lemma ds_loop_final G : forall f indet d p res,
  ds_inv G indet d ->
  (p = 0 -> forall v, In v indet -> max_depth d (succs G v) 0 = None) ->
  ds_loop f G indet d p = Some res ->
  ds_inv G (fst res) (snd res) /\
  forall v, In v (fst res) -> max_depth (snd res) (succs G v) 0 = None.
Proof.
  induction f as [|f IH]; intros indet d p res I Hp H; [discriminate|].
  simpl in H. destruct (p =? 0) eqn:E0.
  - apply Nat.eqb_eq in E0. inversion H; subst res. simpl. auto.
  - destruct (ds_pass G indet d) as [i' d'] eqn:Ep.
    pose proof (ds_pass_inv G indet [] d I) as I'. rewrite Ep in I'. simpl in I'.
    eapply IH; [exact I' | | exact H].
    intros Hz v Hv.
    pose proof (ds_pass_length G indet d) as Hl. rewrite Ep in Hl. simpl in Hl.
    destruct (ds_pass_stuck G indet d) as [H1 H2]; [rewrite Ep; simpl; lia|].
    rewrite Ep in H1. inversion H1; subst. auto.
Qed.

(* ---------------------------------------------------------------- initial state *)
Lemma ds_depths0_get G v : v < length G ->
  dget (ds_depths0 G) v = if is_composite (get G v) then None else Some 0.
Proof.
  intros H. unfold dget, ds_depths0, get.
  rewrite (nth_indep _ None ((fun g => if is_composite g then None else Some 0) no_glyph))
    by (rewrite map_length; auto).
  rewrite (map_nth (fun g => if is_composite g then None else Some 0)). reflexivity.
Qed.

Lemma ds_indet0_In G v : In v (ds_indet0 G) <-> v < length G /\ is_composite (get G v) = true.
Proof.
  unfold ds_indet0, ids. rewrite filter_In, in_seq. intuition lia.
Qed.

Lemma not_composite_succs G v : is_composite (get G v) = false -> succs G v = [].
Proof. unfold is_composite, succs, bases. destruct (g_comps (get G v)); [auto | discriminate]. Qed.

Lemma ds_inv0 G : ds_inv G (ds_indet0 G) (ds_depths0 G).
Proof.
  constructor.
  - unfold ds_depths0; apply map_length.
  - intros v Hv. rewrite ds_depths0_get by auto. rewrite ds_indet0_In.
    destruct (is_composite (get G v)); intuition congruence.
  - intros v k Hk c Hc.
    destruct (Nat.lt_ge_cases v (length G)) as [Hv|Hv].
    + rewrite ds_depths0_get in Hk by auto.
      destruct (is_composite (get G v)) eqn:E; [discriminate|].
      rewrite not_composite_succs in Hc by auto. destruct Hc.
    + rewrite succs_out in Hc by auto. destruct Hc.
  - unfold ds_indet0, ids. apply NoDup_filter, seq_NoDup.
  - intros v Hv. apply ds_indet0_In in Hv. tauto.
Qed.

Lemma ds_init_stuck G : length G - length (ds_indet0 G) = 0 ->
  forall v, In v (ds_indet0 G) -> max_depth (ds_depths0 G) (succs G v) 0 = None.
Proof.
  intros H v Hv.
  (* every glyph is a composite *)
  assert (All : forall u, u < length G -> is_composite (get G u) = true).
  { assert (Hlen : length (ds_indet0 G) = length G).
    { pose proof (filter_len_le (fun v => is_composite (get G v)) (ids G)) as Hl.
      unfold ds_indet0 in *. unfold ids in Hl at 2. rewrite seq_length in Hl. lia. }
    intros u Hu. destruct (is_composite (get G u)) eqn:E; auto. exfalso.
    unfold ds_indet0 in Hlen.
    assert (Hlt : length (filter (fun v => is_composite (get G v)) (ids G))
                  < length (filter (fun _ => true) (ids G))).
    { apply filter_length_lt with (c := u); auto. unfold ids; apply in_seq; lia. }
    assert (Hall : filter (fun _ : nat => true) (ids G) = ids G).
    { clear. induction (ids G); simpl; congruence. }
    rewrite Hall in Hlt. unfold ids in Hlt at 2. rewrite seq_length in Hlt. lia. }
  apply ds_indet0_In in Hv as [Hv Hc].
  unfold is_composite in Hc. unfold succs, bases.
  destruct (g_comps (get G v)) as [|c t] eqn:Ec; [discriminate|]. simpl.
  destruct (Nat.lt_ge_cases (c_base c) (length G)) as [Hb|Hb].
  - rewrite ds_depths0_get by auto. rewrite All by auto. reflexivity.
  - rewrite dget_out; auto. unfold ds_depths0; rewrite map_length; auto.
Qed.

(* ---------------------------------------------------------------- sort = permutation *)
Lemma ins_sorted_In x y l : In x (ins_sorted y l) <-> x = y \/ In x l.
Proof.
  induction l as [|z t IH]; simpl; [intuition|].
  destruct ((fst y <? fst z) || ((fst y =? fst z) && (snd y <=? snd z))); simpl.
  - intuition.
  - rewrite IH. intuition.
Qed.
Lemma sort_pairs_In x l : In x (sort_pairs l) <-> In x l.
Proof.
  induction l as [|y t IH]; simpl; [tauto|]. rewrite ins_sorted_In, IH. intuition.
Qed.

(* ---------------------------------------------------------------- results *)
Theorem depth_sorted_total G :
  exists res, forall f, length G + 2 <= f -> depth_sorted f G = Some res.
Proof.
  destruct (ds_loop_total G (length G) (ds_indet0 G) (ds_depths0 G)
              (length G - length (ds_indet0 G))) as [[stuck d] H].
  { pose proof (filter_len_le (fun v => is_composite (get G v)) (ids G)) as Hl.
    unfold ds_indet0. unfold ids in Hl at 2. rewrite seq_length in Hl. auto. }
  exists (map snd (sort_pairs (depth_pairs d)), stuck).
  intros f Hf. unfold depth_sorted. rewrite H by auto. reflexivity.
Qed.

Lemma depth_sorted_final G f sorted stuck :
  depth_sorted f G = Some (sorted, stuck) ->
  exists d, ds_inv G stuck d /\
            (forall v, In v stuck -> max_depth d (succs G v) 0 = None) /\
            sorted = map snd (sort_pairs (depth_pairs d)).
Proof.
  unfold depth_sorted. intros H.
  destruct (ds_loop f G (ds_indet0 G) (ds_depths0 G) (length G - length (ds_indet0 G)))
    as [[st d]|] eqn:E; [|discriminate].
  inversion H; subst. exists d.
  destruct (ds_loop_final G f _ _ _ _ (ds_inv0 G) (ds_init_stuck G) E) as [I S]. simpl in *.
  auto.
Qed.

(* nothing dropped => the final depths are a rank function *)
Theorem depth_sorted_sound G f sorted :
  depth_sorted f G = Some (sorted, []) -> acyclic G.
Proof.
  intros H. destruct (depth_sorted_final _ _ _ _ H) as [d [I _]].
  exists (fun v => match dget d v with Some k => k | None => 0 end).
  intros v c Hc.
  destruct (Nat.lt_ge_cases v (length G)) as [Hv|Hv]; [|rewrite succs_out in Hc by auto; destruct Hc].
  destruct (dget d v) as [k|] eqn:E.
  - destruct (dsi_rank _ _ _ I v k E c Hc) as [e [He Hlt]]. rewrite He. auto.
  - apply (dsi_none _ _ _ I) in E; auto. destruct E.
Qed.

(* acyclic, no missing references => nothing dropped *)
Theorem depth_sorted_complete G f sorted stuck :
  closed G -> acyclic G -> depth_sorted f G = Some (sorted, stuck) -> stuck = [].
Proof.
  intros C [r R] H. destruct (depth_sorted_final _ _ _ _ H) as [d [I [S _]]].
  destruct stuck as [|s0 st]; auto. exfalso.
  destruct (exists_min r (s0 :: st)) as [m [Hm Hmin]]; [congruence|].
  destruct (max_depth_none _ _ _ (S m Hm)) as [c [Hc Hd]].
  assert (Hcl : c < length G) by (eapply C; eauto).
  apply (dsi_none _ _ _ I) in Hd; auto.
  specialize (Hmin c Hd). specialize (R m c Hc). lia.
Qed.

(* membership of the sorted output *)
Lemma depth_pairs_In d k v : In (k, v) (depth_pairs d) <-> dget d v = Some k /\ v < length d.
Proof.
  unfold depth_pairs. rewrite in_flat_map. split.
  - intros [u [Hu Hin]]. apply in_seq in Hu. destruct (dget d u) eqn:E; [|destruct Hin].
    destruct Hin as [Heq|[]]. inversion Heq; subst. split; [auto|lia].
  - intros [H1 H2]. exists v. split; [apply in_seq; lia|]. rewrite H1. left; auto.
Qed.

(* a glyph that is returned is not on a cycle, and neither is anything it refers to *)
Theorem depth_sorted_no_cycle G f sorted stuck v :
  depth_sorted f G = Some (sorted, stuck) -> In v sorted -> ~ path G v v.
Proof.
  intros H Hin P. destruct (depth_sorted_final _ _ _ _ H) as [d [I [_ ->]]].
  apply in_map_iff in Hin as [[k v'] [Hv Hin]]. simpl in Hv; subst v'.
  apply sort_pairs_In, depth_pairs_In in Hin as [Hk _].
  assert (Hpath : forall a b, path G a b -> forall ka, dget d a = Some ka ->
                  exists kb, dget d b = Some kb /\ kb < ka).
  { induction 1 as [a c Hc | a c w Hc Pc IH]; intros ka Ha.
    - apply (dsi_rank _ _ _ I a ka Ha c Hc).
    - destruct (dsi_rank _ _ _ I a ka Ha c Hc) as [kc [Hkc Hlt]].
      destruct (IH kc Hkc) as [kb [Hkb Hlt2]]. exists kb. split; [auto|lia]. }
  destruct (Hpath v v P k Hk) as [k' [Hk' Hlt]]. rewrite Hk in Hk'. inversion Hk'. lia.
Qed.

(* the repaired entry check *)
Theorem cycle_check_total G :
  exists b, forall f, length G + 2 <= f -> cycle_check f G = Some b.
Proof.
  destruct (depth_sorted_total G) as [[sorted stuck] H].
  exists (is_nil stuck). intros f Hf. unfold cycle_check. rewrite H; auto.
Qed.

Theorem cycle_check_true_acyclic G f : cycle_check f G = Some true -> acyclic G.
Proof.
  unfold cycle_check. destruct (depth_sorted f G) as [[sorted stuck]|] eqn:E; [|discriminate].
  destruct stuck; [|discriminate]. intros _. eapply depth_sorted_sound; eauto.
Qed.

Theorem cycle_check_acyclic_true G f b :
  closed G -> acyclic G -> cycle_check f G = Some b -> b = true.
Proof.
  unfold cycle_check. intros C A. destruct (depth_sorted f G) as [[sorted stuck]|] eqn:E; [|discriminate].
  rewrite (depth_sorted_complete _ _ _ _ C A E). intros H; inversion H; auto.
Qed.

Theorem cycle_check_rejects_cycles G f b :
  has_cycle G -> cycle_check f G = Some b -> b = false.
Proof.
  intros Hc H. destruct b; auto. exfalso.
  apply has_cycle_not_acyclic in Hc. apply Hc. eapply cycle_check_true_acyclic; eauto.
Qed.
