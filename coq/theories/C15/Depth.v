(* C15 -- the recursion depth of bbox_of_composite equals the nesting depth of the
   composite: it is not bounded by any constant, only by the number of glyphs.  (Every
   other walk keeps its work list on the heap.)  This is the model-side statement of the
   second defect the harness demonstrated: an ACYCLIC chain g1 -> g0, g2 -> g1, ... of
   some 1400 glyphs overflowed the 2 MiB worker stack of the real (debug) binary.
   `bbox_rec` is the code BEFORE work/patches/c15-bbox-iterative.diff; the repaired code is
   Model.bbox (work list on the heap), see Walks.v. *)
From Coq Require Import List Arith ZArith Bool Lia.
From FV.C15 Require Import Model Basics Walks.
Import ListNotations.

Definition chain_glyph (i : nat) : glyph :=
  match i with
  | O => mkGlyph [] 1 true
  | S j => mkGlyph [mkComp j 0 0] 0 true
  end.
(* n+1 glyphs: glyph 0 is simple, glyph i+1 has the single component i *)
Definition chain_store (n : nat) : store := map chain_glyph (seq 0 (S n)).

Lemma chain_get n v : v <= n -> get (chain_store n) v = chain_glyph v.
Proof.
  intros H. unfold get, chain_store.
  rewrite (nth_indep _ no_glyph (chain_glyph 0)) by (rewrite map_length, seq_length; lia).
  rewrite map_nth. rewrite seq_nth by lia. reflexivity.
Qed.

Lemma chain_closed n : closed (chain_store n).
Proof.
  intros v c H. unfold chain_store. rewrite map_length, seq_length.
  destruct (Nat.le_gt_cases v n) as [Hv|Hv].
  - unfold succs in H. rewrite chain_get in H by auto. destruct v; simpl in H; [tauto|].
    destruct H as [<-|[]]. lia.
  - rewrite succs_out in H; [destruct H|]. unfold chain_store. rewrite map_length, seq_length. lia.
Qed.

Lemma chain_acyclic n : acyclic (chain_store n).
Proof.
  exists (fun v => v). intros v c H.
  destruct (Nat.le_gt_cases v n) as [Hv|Hv].
  - unfold succs in H. rewrite chain_get in H by auto. destruct v; simpl in H; [tauto|].
    destruct H as [<-|[]]. lia.
  - rewrite succs_out in H; [destruct H|]. unfold chain_store. rewrite map_length, seq_length. lia.
Qed.

Lemma succs_chain n v : S v <= n -> succs (chain_store n) (S v) = [v].
Proof. intros H. unfold succs. rewrite chain_get by auto. reflexivity. Qed.

Lemma bbox_chain_step n d v : S v <= n ->
  bbox_rec (S d) (chain_store n) (S v) =
  match v with
  | O => Some tt
  | S _ => match bbox_rec d (chain_store n) v with None => None | Some _ => Some tt end
  end.
Proof.
  intros H. change (bbox_rec (S d) (chain_store n) (S v)) with
    (all_some (fun c => if is_composite (get (chain_store n) c) then bbox_rec d (chain_store n) c else Some tt)
              (succs (chain_store n) (S v))).
  rewrite succs_chain by auto. cbn [all_some]. rewrite chain_get by lia.
  destruct v; reflexivity.
Qed.

(* computing the box of glyph v needs recursion depth exactly v: one frame per nesting level *)
Theorem bbox_chain_depth n : forall v, 1 <= v -> v <= n ->
  (forall d, d < v -> bbox_rec d (chain_store n) v = None) /\ bbox_rec v (chain_store n) v = Some tt.
Proof.
  induction v as [|v IH]; intros H1 Hn; [lia|].
  destruct v as [|v].
  - split.
    + intros d Hd. destruct d; [reflexivity | lia].
    + rewrite bbox_chain_step by auto. reflexivity.
  - destruct IH as [IHn IHs]; [lia | lia|]. split.
    + intros d Hd. destruct d as [|d]; [reflexivity|].
      rewrite bbox_chain_step by auto. rewrite IHn by lia. reflexivity.
    + rewrite bbox_chain_step by auto. rewrite IHs. reflexivity.
Qed.

(* no fixed recursion depth suffices for all acyclic inputs *)
Theorem bbox_depth_unbounded : forall depth, exists G v,
  closed G /\ acyclic G /\ bbox_rec depth G v = None /\ exists depth', bbox_rec depth' G v = Some tt.
Proof.
  intros depth. exists (chain_store (S depth)), (S depth).
  split; [apply chain_closed | split; [apply chain_acyclic|]].
  destruct (bbox_chain_depth (S depth) (S depth)) as [H1 H2]; [lia | lia|].
  split; [apply H1; lia | exists (S depth); exact H2].
Qed.
