(* C15 -- executable model of every component-graph walk of fontc, on arbitrary
   (possibly cyclic) finite component graphs, with fuel standing for loop
   iterations / queue growth / stack depth.  No proofs here.

   Scope of the abstraction (what the model keeps of a glyph):
     - one master (static font): `sources()` has one location, so the
       location part of every key is constant and dropped;
     - a component is (base glyph id, dx, dy): only translations.  The 2x2 part
       is the identity, so `has_consistent_components` is true,
       `has_overflowing_component_transforms` and `has_nonidentity_2x2` are false;
     - contours are counted, not drawn;
     - glyph ids are positions in the store (the harness names glyphs so that
       name order = id order = glyph order).
   Source anchors:
     fontdrasil/src/util.rs        depth_sorted_composite_glyphs
     fontir/src/glyph.rs           prune_missing_components, flatten_all_non_export_components,
                                   collect_component_locations_nested, convert_components_to_contours,
                                   resolve_inconsistencies, move_contours_to_new_component,
                                   flatten_glyph, apply_optional_transformations, GlyphOrderWork::exec
     fontbe/src/glyphs.rs          CheckedGlyph::new, create_composite, bbox_of_composite
     fontbe/src/metrics_and_limits.rs  MaxBuilder::update_composite_limits *)
From Coq Require Import List Arith ZArith Bool.
Import ListNotations.

(* ------------------------------------------------------------------ data *)
Record comp := mkComp { c_base : nat; c_dx : Z; c_dy : Z }.
Record glyph := mkGlyph { g_comps : list comp; g_contours : nat; g_export : bool }.
Definition store := list glyph.

Definition no_glyph : glyph := mkGlyph [] 0 false.
Definition get (G : store) (v : nat) : glyph := nth v G no_glyph.
Definition bases (g : glyph) : list nat := map c_base (g_comps g).
Definition succs (G : store) (v : nat) : list nat := bases (get G v).
Definition is_composite (g : glyph) : bool :=
  match g_comps g with [] => false | _ :: _ => true end.
(* Glyph::has_mixed_contours_and_components *)
Definition mixed (g : glyph) : bool := is_composite g && (0 <? g_contours g).
(* parent transform * child transform, for translations *)
Definition shift (p c : comp) : comp :=
  mkComp (c_base c) (c_dx p + c_dx c) (c_dy p + c_dy c).

Fixpoint set_nth {A} (l : list A) (i : nat) (x : A) : list A :=
  match l, i with
  | [], _ => []
  | _ :: t, O => x :: t
  | h :: t, S i' => h :: set_nth t i' x
  end.

Fixpoint mem (v : nat) (l : list nat) : bool :=
  match l with [] => false | x :: t => (x =? v) || mem v t end.

Definition is_nil {A} (l : list A) : bool := match l with [] => true | _ => false end.

Fixpoint fold_opt {A B} (f : B -> A -> option B) (l : list A) (b : B) : option B :=
  match l with
  | [] => Some b
  | x :: t => match f b x with None => None | Some b' => fold_opt f t b' end
  end.

Fixpoint all_some {A} (f : A -> option unit) (l : list A) : option unit :=
  match l with
  | [] => Some tt
  | x :: t => match f x with None => None | Some _ => all_some f t end
  end.

Definition ids (G : store) : list nat := seq 0 (length G).
(* the glyph order handed to the back end: exported glyphs, in order *)
Definition export_ids (G : store) : list nat := filter (fun v => g_export (get G v)) (ids G).

(* ------------------------------------------- prune_missing_components *)
Definition prune (G : store) : store :=
  map (fun g => mkGlyph (filter (fun c => c_base c <? length G) (g_comps g))
                        (g_contours g) (g_export g)) G.

(* ------------------------------ fontdrasil::util::depth_sorted_composite_glyphs
   `depths` is the HashMap name -> depth; the retain() closure updates it while
   the pass runs, so later glyphs of the same pass see earlier insertions. *)
Definition depths := list (option nat).
Definition dget (d : depths) (v : nat) : option nat := nth v d None.

(* component_names().map(depths.get).try_fold(0, max) *)
Fixpoint max_depth (d : depths) (cs : list nat) (acc : nat) : option nat :=
  match cs with
  | [] => Some acc
  | c :: t => match dget d c with
              | Some e => max_depth d t (Nat.max acc e)
              | None => None
              end
  end.

(* one `indeterminate_depth.retain(...)`: returns (retained, depths) *)
Fixpoint ds_pass (G : store) (indet : list nat) (d : depths) : list nat * depths :=
  match indet with
  | [] => ([], d)
  | v :: t =>
      match max_depth d (succs G v) 0 with
      | Some m => ds_pass G t (set_nth d v (Some (S m)))
      | None => let '(r, d') := ds_pass G t d in (v :: r, d')
      end
  end.

(* `while progress > 0 { ... }` *)
Fixpoint ds_loop (fuel : nat) (G : store) (indet : list nat) (d : depths) (progress : nat)
  : option (list nat * depths) :=
  match fuel with
  | O => None
  | S f =>
      if progress =? 0 then Some (indet, d)
      else let '(indet', d') := ds_pass G indet d in
           ds_loop f G indet' d' (length indet - length indet')
  end.

Definition ds_indet0 (G : store) : list nat :=
  filter (fun v => is_composite (get G v)) (ids G).
Definition ds_depths0 (G : store) : depths :=
  map (fun g => if is_composite g then None else Some 0) G.

(* by_depth.sort() on (depth, name) *)
Fixpoint ins_sorted (x : nat * nat) (l : list (nat * nat)) : list (nat * nat) :=
  match l with
  | [] => [x]
  | y :: t =>
      if (fst x <? fst y) || ((fst x =? fst y) && (snd x <=? snd y))
      then x :: y :: t else y :: ins_sorted x t
  end.
Definition sort_pairs (l : list (nat * nat)) : list (nat * nat) := fold_right ins_sorted [] l.
Definition depth_pairs (d : depths) : list (nat * nat) :=
  flat_map (fun v => match dget d v with Some k => [(k, v)] | None => [] end) (seq 0 (length d)).

(* result: (glyphs sorted by depth, glyphs dropped = "cycles or bad refs") *)
Definition depth_sorted (fuel : nat) (G : store) : option (list nat * list nat) :=
  let indet := ds_indet0 G in
  match ds_loop fuel G indet (ds_depths0 G) (length G - length indet) with
  | None => None
  | Some (stuck, d) => Some (map snd (sort_pairs (depth_pairs d)), stuck)
  end.

(* the REPAIRED entry check (work/patches/c15-cycle-fix.diff): after pruning,
   "dropped by the depth sort" = "on or downstream of a component cycle" *)
Definition cycle_check (fuel : nat) (G : store) : option bool :=
  match depth_sorted fuel G with
  | None => None
  | Some (_, stuck) => Some (is_nil stuck)
  end.

(* ------------------------------ collect_component_locations_nested
   Vec used as a stack (head = top), `seen` HashSet: guarded walk. *)
Fixpoint collect (fuel : nat) (G : store) (seen todo : list nat) : option (list nat) :=
  match fuel with
  | O => None
  | S f =>
      match todo with
      | [] => Some seen
      | v :: t =>
          if mem v seen then collect f G seen t
          else collect f G (v :: seen) (rev (succs G v) ++ t)
      end
  end.
Definition collect_nested (fuel : nat) (G : store) (g : glyph) : option (list nat) :=
  collect fuel G [] (rev (bases g)).

(* ------------------------------ resolve_inconsistencies, inner walk
   `curr_components` stack, NO visited set. Some true = reaches a pending glyph. *)
Fixpoint reach (fuel : nat) (G : store) (pending stack : list nat) : option bool :=
  match fuel with
  | O => None
  | S f =>
      match stack with
      | [] => Some false
      | v :: t =>
          if mem v pending then Some true
          else reach f G pending (rev (succs G v) ++ t)
      end
  end.

(* ------------------------------ convert_components_to_contours
   frontier VecDeque, visited keyed by (location, base, full transform, index). *)
Definition key := (nat * Z * Z * nat)%type.
Definition key_base (k : key) : nat := match k with (b, _, _, _) => b end.
Definition key_eqb (a b : key) : bool :=
  match a, b with
  | (b1, x1, y1, i1), (b2, x2, y2, i2) =>
      (b1 =? b2) && (x1 =? x2)%Z && (y1 =? y2)%Z && (i1 =? i2)
  end.
Fixpoint kmem (k : key) (l : list key) : bool :=
  match l with [] => false | x :: t => key_eqb x k || kmem k t end.

(* components(glyph, transform) *)
Fixpoint comp_keys_from (i : nat) (cs : list comp) (dx dy : Z) : list key :=
  match cs with
  | [] => []
  | c :: t => (c_base c, (dx + c_dx c)%Z, (dy + c_dy c)%Z, i) :: comp_keys_from (S i) t dx dy
  end.
Definition comp_keys (g : glyph) (dx dy : Z) : list key := comp_keys_from 0 (g_comps g) dx dy.

(* returns the number of contours of the resulting simple glyph *)
Fixpoint convert_loop (fuel : nat) (G : store) (visited frontier : list key) (acc : nat)
  : option nat :=
  match fuel with
  | O => None
  | S f =>
      match frontier with
      | [] => Some acc
      | k :: t =>
          if kmem k visited then convert_loop f G visited t acc
          else
            match k with
            | (b, dx, dy, _) =>
                if b <? length G then
                  let rg := get G b in
                  convert_loop f G (k :: visited) (t ++ comp_keys rg dx dy) (acc + g_contours rg)
                else convert_loop f G (k :: visited) t acc
            end
      end
  end.

(* `original` is the (possibly stale) glyph handed in; the result replaces glyph v *)
Definition convert (fuel : nat) (G : store) (v : nat) (original : glyph) : option store :=
  match collect_nested fuel G original with
  | None => None
  | Some _ =>
      match convert_loop fuel G [] (comp_keys original 0 0) (g_contours original) with
      | None => None
      | Some k => Some (set_nth G v (mkGlyph [] k (g_export original)))
      end
  end.

(* ------------------------------ flatten_glyph: frontier VecDeque, NO visited set *)
Fixpoint flatten_loop (fuel : nat) (G : store) (frontier simple : list comp)
  : option (list comp) :=
  match fuel with
  | O => None
  | S f =>
      match frontier with
      | [] => Some (rev simple)
      | c :: t =>
          match g_comps (get G (c_base c)) with
          | [] => flatten_loop f G t (c :: simple)
          | rcs => flatten_loop f G (map (shift c) rcs ++ t) simple
          end
      end
  end.
Definition flatten_glyph (fuel : nat) (G : store) (v : nat) : option store :=
  let g := get G v in
  match g_comps g with
  | [] => Some G
  | cs => match flatten_loop fuel G cs [] with
          | None => None
          | Some l => Some (set_nth G v (mkGlyph l (g_contours g) (g_export g)))
          end
  end.

(* ------------------------------ resolve_inconsistencies, re-queue loop *)
Inductive op := OpConvert | OpMove.
Record todo_item := mkTodo { t_op : op; t_id : nat; t_glyph : glyph (* snapshot *) }.

(* GlyphOp::ConvertToContour / MoveContoursToComponent (split_glyph: the new
   simple glyph is appended to the glyph order) *)
Definition apply_fix (fuel : nat) (G : store) (it : todo_item) : option store :=
  match t_op it with
  | OpConvert => convert fuel G (t_id it) (t_glyph it)
  | OpMove =>
      let g := t_glyph it in
      Some (set_nth G (t_id it) (mkGlyph (g_comps g ++ [mkComp (length G) 0 0]) 0 (g_export g))
            ++ [mkGlyph [] (g_contours g) (g_export g)])
  end.

Definition remove_id (v : nat) (l : list nat) : list nat := filter (fun x => negb (x =? v)) l.

(* F: fuel of the inner walks; fuel: iterations of `while let Some(..) = todo.pop_front()` *)
Fixpoint resolve (F fuel : nat) (G : store) (pending : list nat) (todo : list todo_item)
  : option store :=
  match fuel with
  | O => None
  | S f =>
      match todo with
      | [] => Some G
      | it :: t =>
          match reach F G pending (rev (bases (t_glyph it))) with
          | None => None
          | Some true => resolve F f G pending (t ++ [it])
          | Some false =>
              match apply_fix F G it with
              | None => None
              | Some G' => resolve F f G' (remove_id (t_id it) pending) t
              end
          end
      end
  end.

(* ------------------------------ bbox_of_composite
   As repaired by work/patches/c15-bbox-iterative.diff: nested composites are chased with an
   explicit work list (a Vec used as a stack), NO visited set; fuel = loop iterations. *)
Fixpoint bbox_loop (fuel : nat) (G : store) (todo : list nat) : option unit :=
  match fuel with
  | O => None
  | S f =>
      match todo with
      | [] => Some tt
      | v :: t =>
          bbox_loop f G (rev (filter (fun c => is_composite (get G c)) (succs G v)) ++ t)
      end
  end.
Definition bbox (fuel : nat) (G : store) (v : nat) : option unit := bbox_loop fuel G [v].

(* the code before that repair: plain recursion; fuel = stack depth (kept for Depth.v, which
   states the repaired defect: recursion depth = nesting depth) *)
Fixpoint bbox_rec (depth : nat) (G : store) (v : nat) : option unit :=
  match depth with
  | O => None
  | S d =>
      all_some (fun c => if is_composite (get G c) then bbox_rec d G c else Some tt) (succs G v)
  end.

(* ------------------------------ MaxBuilder::update_composite_limits
   same retain-with-progress shape as the depth sort, with `assert!(progress)`.
   Some true = done, Some false = the assertion fires ("Stuck with N of unknown depth"). *)
Fixpoint lim_loop (fuel : nat) (G : store) (pending : list nat) (d : depths) : option bool :=
  match fuel with
  | O => None
  | S f =>
      match pending with
      | [] => Some true
      | _ :: _ =>
          let '(p', d') := ds_pass G pending d in
          if length p' <? length pending then lim_loop f G p' d' else Some false
      end
  end.
(* glyph_info only holds the glyphs of the glyph order (exported ones); their components are
   exported too by then (create_composite fails with NotInGlyphOrder otherwise, see be_stage) *)
Definition limits (fuel : nat) (G : store) : option bool :=
  lim_loop fuel G (filter (fun v => g_export (get G v)) (ds_indet0 G)) (ds_depths0 G).

(* ------------------------------ GlyphOrderWork::exec and the back end *)
Record flags := mkFlags { fl_prefer_simple : bool; fl_flatten : bool; fl_decompose : bool }.

Inductive err := ECycle | EMixed | ENotInOrder | EStuck.
Inductive outcome := MOk | MErr (e : err) | MDiverge.

(* flatten_non_export_components_for_glyph (one level: glyphs are processed in depth order) *)
Definition flatten_ne_comps (G : store) (cs : list comp) : list comp * nat :=
  fold_right
    (fun c acc =>
       let rg := get G (c_base c) in
       if g_export rg then (c :: fst acc, snd acc)
       else (map (shift c) (g_comps rg) ++ fst acc, g_contours rg + snd acc))
    ([], 0) cs.
Definition flatten_ne_glyph (G : store) (g : glyph) : glyph :=
  let r := flatten_ne_comps G (g_comps g) in
  mkGlyph (fst r) (g_contours g + snd r) (g_export g).
Definition has_non_export (G : store) (g : glyph) : bool :=
  existsb (fun c => negb (g_export (get G c))) (bases g).
Definition flatten_ne_step (fuel : nat) (G : store) (v : nat) : option store :=
  let g := get G v in
  if has_non_export G g then
    match collect_nested fuel G g with
    | None => None
    | Some _ => Some (set_nth G v (flatten_ne_glyph G g))
    end
  else Some G.
(* flatten_all_non_export_components *)
Definition stage_flatten_ne (fuel : nat) (G : store) : option store :=
  match depth_sorted fuel G with
  | None => None
  | Some (sorted, _) => fold_opt (flatten_ne_step fuel) sorted G
  end.

(* "Resolve component references to glyphs that are not retained by conversion to contours" *)
Definition step5_glyph (fuel : nat) (G : store) (v : nat) : option store :=
  let g := get G v in
  fold_opt (fun G' c => if g_export (get G' c) then Some G' else convert fuel G' v g) (bases g) G.
Definition stage5 (fuel : nat) (G : store) : option store :=
  fold_opt (step5_glyph fuel) (export_ids G) G.

(* the todo list is built from `original_glyphs`, the snapshot taken before stage5 *)
Definition mk_todo (fl : flags) (Gorig : store) : list todo_item :=
  flat_map (fun v => let g := get Gorig v in
                     if mixed g
                     then [mkTodo (if fl_prefer_simple fl then OpConvert else OpMove) v g]
                     else [])
           (export_ids Gorig).
Definition stage_resolve (fl : flags) (fuel : nat) (Gorig G : store) : option store :=
  let todo := mk_todo fl Gorig in
  resolve fuel fuel G (map t_id todo) todo.

(* apply_optional_transformations (DECOMPOSE_TRANSFORMED_COMPONENTS is a no-op on translations) *)
Definition stage_optional (fl : flags) (fuel : nat) (G : store) : option store :=
  if fl_decompose fl then
    fold_opt (fun G' v => let g := get G' v in
                          if is_composite g then convert fuel G' v g else Some G')
             (export_ids G) G
  else if fl_flatten fl then fold_opt (flatten_glyph fuel) (export_ids G) G
  else Some G.

Definition fe_rest (fl : flags) (fuel : nat) (G1 : store) : option store :=
  match stage_flatten_ne fuel G1 with
  | None => None
  | Some G2 =>
      match stage5 fuel G2 with
      | None => None
      | Some G3 =>
          match stage_resolve fl fuel G2 G3 with
          | None => None
          | Some G4 => stage_optional fl fuel G4
          end
      end
  end.

(* back end: per-glyph CheckedGlyph::new / create_composite, then glyf (bbox of every
   composite), then maxp limits *)
Definition be_stage (fuel : nat) (G : store) : outcome :=
  let order := export_ids G in
  if existsb (fun v => mixed (get G v)) order then MErr EMixed
  else if existsb (fun v => existsb (fun c => negb (g_export (get G c))) (succs G v)) order
  then MErr ENotInOrder
  else
    match all_some (fun v => if is_composite (get G v) then bbox fuel G v else Some tt) order with
    | None => MDiverge
    | Some _ =>
        match limits fuel G with
        | None => MDiverge
        | Some false => MErr EStuck
        | Some true => MOk
        end
    end.

Definition exec_rest (fl : flags) (fuel : nat) (G1 : store) : outcome :=
  match fe_rest fl fuel G1 with
  | None => MDiverge
  | Some G5 => be_stage fuel G5
  end.

(* `rest` is everything that runs after the entry check (all unguarded walks live there) *)
Definition exec_gen (fixed : bool) (rest : store -> outcome) (fuel : nat) (G : store) : outcome :=
  let G1 := prune G in
  if fixed then
    match cycle_check fuel G1 with
    | None => MDiverge
    | Some true => rest G1
    | Some false => MErr ECycle
    end
  else rest G1.

Definition exec (fixed : bool) (fl : flags) (fuel : nat) (G : store) : outcome :=
  exec_gen fixed (exec_rest fl fuel) fuel G.

(* ------------------------------ what the harness observes of the real CLI *)
Inductive impl_outcome := IOk | IErrCycle | IErrOther | ISignal | ITimeout.
Definition agree (m : outcome) (i : impl_outcome) : bool :=
  match m, i with
  | MOk, IOk => true
  | MErr ECycle, IErrCycle => true
  | MErr EMixed, IErrOther | MErr ENotInOrder, IErrOther | MErr EStuck, IErrOther => true
  | MDiverge, ISignal | MDiverge, ITimeout => true
  | _, _ => false
  end.

Fixpoint nat_list_eqb (a b : list nat) : bool :=
  match a, b with
  | [], [] => true
  | x :: a', y :: b' => (x =? y) && nat_list_eqb a' b'
  | _, _ => false
  end.
(* the depth sort is public in fontdrasil: compared output for output *)
Definition depth_sorted_agrees (fuel : nat) (G : store) (impl_sorted : list nat) : bool :=
  match depth_sorted fuel G with
  | None => false
  | Some (sorted, _) => nat_list_eqb sorted impl_sorted
  end.

(* graph vocabulary used by the theorems *)
Definition closed (G : store) : Prop := forall v c, In c (succs G v) -> c < length G.
Definition ranked (G : store) (r : nat -> nat) : Prop := forall v c, In c (succs G v) -> r c < r v.
Definition acyclic (G : store) : Prop := exists r, ranked G r.
Inductive path (G : store) : nat -> nat -> Prop :=
| path_one : forall v c, In c (succs G v) -> path G v c
| path_step : forall v c w, In c (succs G v) -> path G c w -> path G v w.
Definition has_cycle (G : store) : Prop := exists v, path G v v.

Definition maxdeg (G : store) : nat := list_max (map (fun g => length (g_comps g)) G).
(* number of pops of a walk without visited set started at one glyph: <= walk_bound *)
Definition walk_bound (G : store) : nat := Nat.pow (S (maxdeg G)) (length G).

(* the 2-cycle a -> b -> a used by the divergence theorems *)
Definition two_cycle : store :=
  [mkGlyph [mkComp 1 0 0] 0 true; mkGlyph [mkComp 0 0 0] 0 true].
