(* C15 -- basic lemmas: lists, set_nth, ranks, walk weights. *)
From Coq Require Import List Arith ZArith Bool Lia.
From FV.C15 Require Import Model.
Import ListNotations.

(* ---------------------------------------------------------------- set_nth *)
Lemma length_set_nth {A} (l : list A) i x : length (set_nth l i x) = length l.
Proof. revert i; induction l as [|h t IH]; intros [|i]; simpl; auto. Qed.

Lemma nth_set_nth_eq {A} (l : list A) i x d : i < length l -> nth i (set_nth l i x) d = x.
Proof.
  revert i; induction l as [|h t IH]; intros [|i] H; simpl in *; try lia; auto.
  apply IH; lia.
Qed.

Lemma nth_set_nth_neq {A} (l : list A) i j x d : i <> j -> nth j (set_nth l i x) d = nth j l d.
Proof.
  revert i j; induction l as [|h t IH]; intros [|i] [|j] H; simpl; auto; try lia.
Qed.

Lemma set_nth_out {A} (l : list A) i x : length l <= i -> set_nth l i x = l.
Proof.
  revert i; induction l as [|h t IH]; intros [|i] H; simpl in *; auto; try lia.
  f_equal; apply IH; lia.
Qed.

Lemma get_set_eq G v g : v < length G -> get (set_nth G v g) v = g.
Proof. intros; unfold get; apply nth_set_nth_eq; auto. Qed.
Lemma get_set_neq G v u g : v <> u -> get (set_nth G v g) u = get G u.
Proof. intros; unfold get; apply nth_set_nth_neq; auto. Qed.

Lemma get_out G v : length G <= v -> get G v = no_glyph.
Proof. intros; unfold get; apply nth_overflow; auto. Qed.
Lemma succs_out G v : length G <= v -> succs G v = [].
Proof. intros H; unfold succs; rewrite get_out; auto. Qed.

Lemma get_app_l G H v : v < length G -> get (G ++ H) v = get G v.
Proof. intros; unfold get; apply app_nth1; auto. Qed.
Lemma get_app_r G H v : length G <= v -> get (G ++ H) v = get H (v - length G).
Proof. intros; unfold get; apply app_nth2; auto. Qed.

(* ---------------------------------------------------------------- mem *)
Lemma mem_In v l : mem v l = true <-> In v l.
Proof.
  induction l as [|x t IH]; simpl; [split; [discriminate | tauto]|].
  rewrite orb_true_iff, Nat.eqb_eq, IH; tauto.
Qed.
Lemma mem_false v l : mem v l = false <-> ~ In v l.
Proof. rewrite <- mem_In; destruct (mem v l); split; congruence. Qed.

(* ---------------------------------------------------------------- sums *)
Fixpoint sumf {A} (f : A -> nat) (l : list A) : nat :=
  match l with [] => 0 | x :: t => f x + sumf f t end.

Lemma sumf_app {A} (f : A -> nat) a b : sumf f (a ++ b) = sumf f a + sumf f b.
Proof. induction a; simpl; lia. Qed.
Lemma sumf_rev {A} (f : A -> nat) l : sumf f (rev l) = sumf f l.
Proof. induction l; simpl; auto. rewrite sumf_app; simpl; lia. Qed.
Lemma sumf_map {A B} (f : B -> nat) (g : A -> B) l : sumf f (map g l) = sumf (fun x => f (g x)) l.
Proof. induction l; simpl; auto. Qed.
Lemma sumf_le {A} (f g : A -> nat) l : (forall x, In x l -> f x <= g x) -> sumf f l <= sumf g l.
Proof.
  induction l as [|x t IH]; simpl; intros H; auto.
  specialize (H x (or_introl eq_refl)) as Hx. specialize (IH (fun y Hy => H y (or_intror Hy))). lia.
Qed.
Lemma sumf_const_le {A} (f : A -> nat) l k : (forall x, In x l -> f x <= k) -> sumf f l <= length l * k.
Proof.
  induction l as [|x t IH]; simpl; intros H; auto.
  specialize (H x (or_introl eq_refl)) as Hx. specialize (IH (fun y Hy => H y (or_intror Hy))). lia.
Qed.
Lemma sumf_ext {A} (f g : A -> nat) l : (forall x, In x l -> f x = g x) -> sumf f l = sumf g l.
Proof.
  induction l as [|x t IH]; simpl; intros H; [reflexivity|].
  rewrite (H x (or_introl eq_refl)), IH; auto.
Qed.

(* ---------------------------------------------------------------- graphs *)
Lemma ranked_path G r : ranked G r -> forall v w, path G v w -> r w < r v.
Proof.
  intros R v w P; induction P as [v c H | v c w H P IH].
  - apply R; auto.
  - specialize (R v c H). lia.
Qed.

Lemma has_cycle_not_acyclic G : has_cycle G -> ~ acyclic G.
Proof. intros [v P] [r R]. pose proof (ranked_path G r R v v P). lia. Qed.

Lemma prune_length G : length (prune G) = length G.
Proof. unfold prune; apply map_length. Qed.

Lemma get_prune G v :
  get (prune G) v =
  mkGlyph (filter (fun c => c_base c <? length G) (g_comps (get G v)))
          (g_contours (get G v)) (g_export (get G v)).
Proof.
  unfold get, prune.
  set (f := fun g => mkGlyph (filter (fun c => c_base c <? length G) (g_comps g))
                        (g_contours g) (g_export g)).
  destruct (Nat.lt_ge_cases v (length G)) as [H|H].
  - rewrite (nth_indep _ no_glyph (f no_glyph)) by (rewrite map_length; auto).
    rewrite map_nth. reflexivity.
  - rewrite !nth_overflow by (try rewrite map_length; auto). reflexivity.
Qed.

Lemma prune_closed G : closed (prune G).
Proof.
  intros v c H. unfold succs, bases in H. rewrite get_prune in H. simpl in H.
  apply in_map_iff in H as [x [<- Hx]]. apply filter_In in Hx as [_ Hx].
  rewrite prune_length. apply Nat.ltb_lt; auto.
Qed.

(* degree *)
Lemma list_max_ge l x : In x l -> x <= list_max l.
Proof.
  induction l as [|y t IH]; simpl; [tauto|]. intros [->|H]; [lia|]. specialize (IH H). lia.
Qed.
Lemma outdeg_le G v : length (succs G v) <= maxdeg G.
Proof.
  destruct (Nat.lt_ge_cases v (length G)) as [H|H].
  - unfold succs, bases, maxdeg. rewrite map_length. apply list_max_ge.
    apply in_map_iff. exists (get G v). split; auto. unfold get; apply nth_In; auto.
  - rewrite succs_out by auto. simpl; lia.
Qed.

(* ------------------------------------------------ rank compression: ranks <= n *)
Lemma filter_length_lt {A} (p q : A -> bool) (l : list A) c :
  (forall u, p u = true -> q u = true) -> In c l -> p c = false -> q c = true ->
  length (filter p l) < length (filter q l).
Proof.
  intros Hpq. induction l as [|x t IH]; simpl; [tauto|].
  assert (Hle : forall l', length (filter p l') <= length (filter q l')).
  { induction l' as [|y t' IH']; simpl; auto.
    destruct (p y) eqn:Ep; [rewrite (Hpq _ Ep); simpl; lia|].
    destruct (q y); simpl; lia. }
  intros [->|Hin] Hp Hq.
  - rewrite Hp, Hq. simpl. specialize (Hle t). lia.
  - specialize (IH Hin Hp Hq).
    destruct (p x) eqn:Ep; [rewrite (Hpq _ Ep); simpl; lia|].
    destruct (q x); simpl; lia.
Qed.

Lemma filter_len_le {A} (p : A -> bool) l : length (filter p l) <= length l.
Proof. induction l as [|x t IH]; simpl; auto. destruct (p x); simpl; lia. Qed.

Definition compress (n : nat) (r : nat -> nat) (v : nat) : nat :=
  length (filter (fun u => r u <? r v) (seq 0 n)).

Lemma compress_le n r v : compress n r v <= n.
Proof.
  unfold compress. etransitivity; [apply filter_len_le|]. rewrite seq_length; auto.
Qed.

Lemma compress_ranked G r : closed G -> ranked G r -> ranked G (compress (length G) r).
Proof.
  intros C R v c H. unfold compress.
  apply filter_length_lt with (c := c).
  - intros u Hu. apply Nat.ltb_lt in Hu. apply Nat.ltb_lt. specialize (R v c H). lia.
  - apply in_seq. specialize (C v c H). lia.
  - apply Nat.ltb_irrefl.
  - apply Nat.ltb_lt. apply R; auto.
Qed.

(* ------------------------------------------------ weights: pops of an unguarded walk *)
Fixpoint paths (k : nat) (G : store) (v : nat) : nat :=
  match k with
  | O => 1
  | S k' => 1 + sumf (paths k' G) (succs G v)
  end.

Lemma paths_mono_S k G v : paths k G v <= paths (S k) G v.
Proof.
  revert v; induction k as [|k IH]; intros v.
  - simpl; lia.
  - change (1 + sumf (paths k G) (succs G v) <= 1 + sumf (paths (S k) G) (succs G v)).
    apply le_n_S. apply sumf_le. intros; apply IH.
Qed.
Lemma paths_mono k k' G v : k <= k' -> paths k G v <= paths k' G v.
Proof.
  induction 1; auto. etransitivity; [eassumption | apply paths_mono_S].
Qed.

Lemma paths_pow k G v : paths k G v <= Nat.pow (S (maxdeg G)) k.
Proof.
  revert v; induction k as [|k IH]; intros v; [simpl; lia|].
  change (1 + sumf (paths k G) (succs G v) <= S (maxdeg G) * Nat.pow (S (maxdeg G)) k).
  assert (H1 : sumf (paths k G) (succs G v) <= length (succs G v) * Nat.pow (S (maxdeg G)) k)
    by (apply sumf_const_le; intros; apply IH).
  pose proof (outdeg_le G v) as H2.
  assert (H3 : 1 <= Nat.pow (S (maxdeg G)) k) by (apply Nat.neq_0_lt_0, Nat.pow_nonzero; lia).
  nia.
Qed.

(* a weight function: every glyph outweighs the sum of its components;
   all weights are at most walk_bound G *)
Definition weighted (G : store) (w : nat -> nat) : Prop :=
  forall v, 1 + sumf w (succs G v) <= w v.

Lemma weight_exists G : closed G -> acyclic G ->
  exists w, weighted G w /\ (forall v, w v <= walk_bound G) /\ (forall v, 1 <= w v).
Proof.
  intros C [r0 R0].
  pose proof (compress_ranked G r0 C R0) as R.
  set (r := compress (length G) r0) in *.
  exists (fun v => paths (r v) G v). split; [|split].
  - intros v. destruct (r v) eqn:E.
    + destruct (succs G v) as [|c t] eqn:Es; [simpl; lia|].
      exfalso. specialize (R v c). rewrite Es in R. specialize (R (or_introl eq_refl)). lia.
    + change (1 + sumf (fun c => paths (r c) G c) (succs G v) <= 1 + sumf (paths n G) (succs G v)).
      apply le_n_S. apply sumf_le. intros c Hc. apply paths_mono. specialize (R v c Hc). lia.
  - intros v. etransitivity; [apply paths_pow|]. unfold walk_bound.
    apply Nat.pow_le_mono_r; [lia|]. apply compress_le.
  - intros v. destruct (r v); simpl; lia.
Qed.

(* bounded rank, for the recursion-depth walk *)
Lemma bounded_rank_exists G : closed G -> acyclic G ->
  exists r, ranked G r /\ forall v, r v <= length G.
Proof.
  intros C [r0 R0]. exists (compress (length G) r0). split.
  - apply compress_ranked; auto.
  - intros; apply compress_le.
Qed.

(* list minimum w.r.t. a rank *)
Lemma exists_min {A} (f : A -> nat) (l : list A) :
  l <> [] -> exists x, In x l /\ forall y, In y l -> f x <= f y.
Proof.
  induction l as [|a t IH]; [congruence|]. intros _.
  destruct t as [|b t'].
  - exists a. split; [left; auto|]. intros y [->|[]]; auto.
  - destruct IH as [m [Hm Hmin]]; [congruence|].
    destruct (Nat.le_gt_cases (f a) (f m)).
    + exists a. split; [left; auto|]. intros y [->|Hy]; auto. specialize (Hmin y Hy). lia.
    + exists m. split; [right; auto|]. intros y [->|Hy]; [lia|auto].
Qed.

(* fold_opt with an invariant *)
Lemma fold_opt_inv {A B} (P : B -> Prop) (f : nat -> B -> A -> option B) (l : list A) :
  (forall b x, P b -> exists F b', (forall fuel, F <= fuel -> f fuel b x = Some b') /\ P b') ->
  forall b, P b -> exists F b', (forall fuel, F <= fuel -> fold_opt (f fuel) l b = Some b') /\ P b'.
Proof.
  intros Hstep. induction l as [|x t IH]; intros b Pb.
  - exists 0, b. split; auto.
  - destruct (Hstep b x Pb) as [F1 [b1 [H1 P1]]].
    destruct (IH b1 P1) as [F2 [b2 [H2 P2]]].
    exists (Nat.max F1 F2), b2. split; auto.
    intros fuel Hf. simpl. rewrite H1 by lia. apply H2; lia.
Qed.
