(* C15 -- termination of each walk (with explicit fuel bounds, results independent of
   the fuel) and divergence of the unguarded ones on the 2-cycle. *)
From Coq Require Import List Arith ZArith Bool Lia.
From FV.C15 Require Import Model Basics DepthSort.
Import ListNotations.

(* =============================================== collect (guarded by `seen`) *)
Definition deg (G : store) (u : nat) : nat := length (succs G u).
Definition unseen (G : store) (seen : list nat) : nat :=
  sumf (fun u => if mem u seen then 0 else deg G u) (ids G).
Definition edges (G : store) : nat := sumf (deg G) (ids G).

Lemma unseen_nil G : unseen G [] = edges G.
Proof. reflexivity. Qed.

Lemma unseen_add_aux G v seen l : NoDup l -> mem v seen = false ->
  sumf (fun u => if mem u (v :: seen) then 0 else deg G u) l + (if mem v l then deg G v else 0)
  <= sumf (fun u => if mem u seen then 0 else deg G u) l.
Proof.
  intros ND Hv. induction l as [|x t IH]; simpl; [lia|].
  inversion ND as [|? ? Hx ND']; subst. specialize (IH ND'). simpl in IH.
  destruct (Nat.eq_dec x v) as [->|Hne].
  - rewrite Nat.eqb_refl. simpl. rewrite Hv.
    assert (mem v t = false) by (apply mem_false; auto). rewrite H in IH. lia.
  - assert (E1 : (v =? x) = false) by (apply Nat.eqb_neq; auto).
    assert (E2 : (x =? v) = false) by (apply Nat.eqb_neq; auto).
    rewrite E1, E2. simpl. lia.
Qed.

Lemma unseen_add G v seen : mem v seen = false ->
  unseen G (v :: seen) + deg G v <= unseen G seen.
Proof.
  intros Hv. unfold unseen.
  pose proof (unseen_add_aux G v seen (ids G) (seq_NoDup _ _) Hv) as H.
  destruct (mem v (ids G)) eqn:E; [lia|].
  assert (deg G v = 0).
  { unfold deg. rewrite succs_out; auto. apply mem_false in E. unfold ids in E.
    rewrite in_seq in E. lia. }
  lia.
Qed.

Lemma collect_total G : forall m seen todo, length todo + unseen G seen < m ->
  exists res, forall f, m <= f -> collect f G seen todo = Some res.
Proof.
  induction m as [|m IH]; intros seen todo H; [lia|].
  destruct todo as [|v t].
  - exists seen. intros f Hf. destruct f; [lia|]. reflexivity.
  - destruct (mem v seen) eqn:E.
    + destruct (IH seen t) as [res Hres]; [simpl in H; lia|].
      exists res. intros f Hf. destruct f; [lia|]. simpl. rewrite E. apply Hres; lia.
    + destruct (IH (v :: seen) (rev (succs G v) ++ t)) as [res Hres].
      { pose proof (unseen_add G v seen E). rewrite app_length, rev_length.
        unfold deg in *. simpl in H. lia. }
      exists res. intros f Hf. destruct f; [lia|]. simpl. rewrite E. apply Hres; lia.
Qed.

(* collect_component_locations_nested terminates on EVERY graph *)
Theorem collect_nested_total G g :
  exists res, forall f, length (g_comps g) + edges G < f -> collect_nested f G g = Some res.
Proof.
  destruct (collect_total G (S (length (g_comps g) + edges G)) [] (rev (bases g))) as [res H].
  { rewrite rev_length. unfold bases. rewrite map_length, unseen_nil. lia. }
  exists res. intros f Hf. apply H. lia.
Qed.

(* =============================================== reach (inner walk, no visited set) *)
Lemma reach_terminates G w pending : weighted G w ->
  forall m stack, sumf w stack < m ->
  exists b, forall f, m <= f -> reach f G pending stack = Some b.
Proof.
  intros W. induction m as [|m IH]; intros stack H; [lia|].
  destruct stack as [|v t].
  - exists false. intros f Hf. destruct f; [lia|]. reflexivity.
  - destruct (mem v pending) eqn:E.
    + exists true. intros f Hf. destruct f; [lia|]. simpl. rewrite E. reflexivity.
    + destruct (IH (rev (succs G v) ++ t)) as [b Hb].
      { rewrite sumf_app, sumf_rev. specialize (W v). simpl in H. lia. }
      exists b. intros f Hf. destruct f; [lia|]. simpl. rewrite E. apply Hb; lia.
Qed.

(* nothing of rank >= R is reachable from a stack of rank < R: the walk answers `false` *)
Lemma reach_clear G w r pending R : weighted G w -> ranked G r ->
  (forall p, In p pending -> R <= r p) ->
  forall m stack, sumf w stack < m -> (forall c, In c stack -> r c < R) ->
  forall f, m <= f -> reach f G pending stack = Some false.
Proof.
  intros W Rk Hp. induction m as [|m IH]; intros stack H Hs f Hf; [lia|].
  destruct f as [|f]; [lia|]. destruct stack as [|v t]; [reflexivity|].
  simpl. assert (E : mem v pending = false).
  { apply mem_false. intros Hin. specialize (Hp v Hin). specialize (Hs v (or_introl eq_refl)). lia. }
  rewrite E. apply IH; [|  | lia].
  - rewrite sumf_app, sumf_rev. specialize (W v). simpl in H. lia.
  - intros c Hc. apply in_app_iff in Hc as [Hc|Hc].
    + apply in_rev in Hc. specialize (Rk v c Hc). specialize (Hs v (or_introl eq_refl)). lia.
    + apply Hs; right; auto.
Qed.

Theorem reach_terminates_on_acyclic G pending stack : closed G -> acyclic G ->
  exists b, forall f, length stack * walk_bound G < f -> reach f G pending stack = Some b.
Proof.
  intros C A. destruct (weight_exists G C A) as [w [W [Wb _]]].
  destruct (reach_terminates G w pending W (S (length stack * walk_bound G)) stack) as [b H].
  { assert (sumf w stack <= length stack * walk_bound G) by (apply sumf_const_le; auto). lia. }
  exists b. intros f Hf. apply H; lia.
Qed.

(* =============================================== convert (visited keyed by transform) *)
Lemma comp_keys_from_bases cs : forall i dx dy,
  map key_base (comp_keys_from i cs dx dy) = map c_base cs.
Proof. induction cs as [|c t IH]; simpl; intros; [auto | rewrite IH; auto]. Qed.
Lemma comp_keys_bases g dx dy : map key_base (comp_keys g dx dy) = bases g.
Proof. apply comp_keys_from_bases. Qed.

Lemma convert_loop_terminates G w : weighted G w -> (forall v, 1 <= w v) ->
  forall m visited frontier acc, sumf w (map key_base frontier) < m ->
  exists k, forall f, m <= f -> convert_loop f G visited frontier acc = Some k.
Proof.
  intros W W1. induction m as [|m IH]; intros visited frontier acc H; [lia|].
  destruct frontier as [|k t].
  - exists acc. intros f Hf. destruct f; [lia|]. reflexivity.
  - simpl in H. pose proof (W1 (key_base k)).
    destruct (kmem k visited) eqn:E.
    + destruct (IH visited t acc) as [res Hres]; [lia|].
      exists res. intros f Hf. destruct f; [lia|]. simpl. rewrite E. apply Hres; lia.
    + destruct k as [[[b dx] dy] i]. simpl in *.
      destruct (b <? length G) eqn:Eb.
      * destruct (IH ((b, dx, dy, i) :: visited) (t ++ comp_keys (get G b) dx dy)
                     (acc + g_contours (get G b))) as [res Hres].
        { rewrite map_app, sumf_app, comp_keys_bases. specialize (W b). unfold succs in W. lia. }
        exists res. intros f Hf. destruct f; [lia|]. simpl. rewrite E, Eb. apply Hres; lia.
      * destruct (IH ((b, dx, dy, i) :: visited) t acc) as [res Hres]; [lia|].
        exists res. intros f Hf. destruct f; [lia|]. simpl. rewrite E, Eb. apply Hres; lia.
Qed.

Definition convert_fuel (G : store) (g : glyph) : nat :=
  Nat.max (length (g_comps g) + edges G) (length (g_comps g) * walk_bound G).

Theorem convert_terminates_on_acyclic G v g : closed G -> acyclic G ->
  exists k, forall f, convert_fuel G g < f ->
    convert f G v g = Some (set_nth G v (mkGlyph [] k (g_export g))).
Proof.
  intros C A. destruct (weight_exists G C A) as [w [W [Wb W1]]].
  destruct (collect_nested_total G g) as [seen Hs].
  destruct (convert_loop_terminates G w W W1 (S (length (g_comps g) * walk_bound G)) []
              (comp_keys g 0 0) (g_contours g)) as [k Hk].
  { rewrite comp_keys_bases.
    assert (sumf w (bases g) <= length (bases g) * walk_bound G) by (apply sumf_const_le; auto).
    unfold bases in H at 2. rewrite map_length in H. lia. }
  exists k. intros f Hf. unfold convert_fuel in Hf. unfold convert.
  rewrite Hs by lia. rewrite Hk by lia. reflexivity.
Qed.

(* =============================================== flatten_glyph (no visited set) *)
Lemma shift_bases c rcs : map c_base (map (shift c) rcs) = map c_base rcs.
Proof. induction rcs as [|x t IH]; simpl; [auto | rewrite IH; auto]. Qed.

Lemma flatten_loop_terminates G w (Q : nat -> Prop) : weighted G w -> (forall v, 1 <= w v) ->
  (forall b c, Q b -> In c (succs G b) -> Q c) ->
  forall m frontier simple, sumf w (map c_base frontier) < m ->
  (forall c, In c (frontier ++ simple) -> Q (c_base c)) ->
  exists l, (forall f, m <= f -> flatten_loop f G frontier simple = Some l) /\
            (forall c, In c l -> Q (c_base c)).
Proof.
  intros W W1 HQ. induction m as [|m IH]; intros frontier simple H Hq; [lia|].
  destruct frontier as [|c t].
  - exists (rev simple). split.
    + intros f Hf. destruct f; [lia|]. reflexivity.
    + intros c Hc. apply in_rev in Hc. apply Hq. simpl; auto.
  - simpl in H. pose proof (W1 (c_base c)).
    destruct (g_comps (get G (c_base c))) as [|rc rcs] eqn:E.
    + destruct (IH t (c :: simple)) as [l [Hl Hl2]]; [lia| |].
      { intros x Hx. apply Hq. apply in_app_iff in Hx. simpl in *. rewrite in_app_iff. simpl.
        destruct Hx as [Hx|[<-|Hx]]; auto. }
      exists l. split; auto. intros f Hf. destruct f; [lia|]. simpl. rewrite E. apply Hl; lia.
    + destruct (IH (map (shift c) (rc :: rcs) ++ t) simple) as [l [Hl Hl2]].
      { rewrite map_app, sumf_app, shift_bases. specialize (W (c_base c)).
        unfold succs, bases in W. rewrite E in W. lia. }
      { intros x Hx. rewrite <- app_assoc in Hx. apply in_app_iff in Hx as [Hx|Hx].
        - apply in_map_iff in Hx as [y [<- Hy]]. simpl.
          apply HQ with (b := c_base c); [apply Hq; simpl; auto|].
          unfold succs, bases. rewrite E. apply in_map; auto.
        - apply Hq. simpl; auto. }
      exists l. split; auto. intros f Hf. destruct f; [lia|]. simpl. rewrite E. apply Hl; lia.
Qed.

Theorem flatten_glyph_terminates_on_acyclic G v : closed G -> acyclic G ->
  exists G', forall f, length (g_comps (get G v)) * walk_bound G < f ->
    flatten_glyph f G v = Some G'.
Proof.
  intros C A. destruct (weight_exists G C A) as [w [W [Wb W1]]].
  unfold flatten_glyph. destruct (g_comps (get G v)) as [|c cs] eqn:E.
  - exists G. auto.
  - destruct (flatten_loop_terminates G w (fun _ => True) W W1 (fun _ _ _ _ => I)
                (S (length (c :: cs) * walk_bound G)) (c :: cs) []) as [l [Hl _]]; auto.
    { assert (sumf w (map c_base (c :: cs)) <= length (map c_base (c :: cs)) * walk_bound G)
        by (apply sumf_const_le; auto).
      rewrite map_length in H. lia. }
    eexists. intros f Hf. rewrite Hl by lia. reflexivity.
Qed.

(* =============================================== bbox_of_composite (work list, no visited set) *)
Lemma all_some_tt {A} (f : A -> option unit) l :
  (forall x, In x l -> f x = Some tt) -> all_some f l = Some tt.
Proof.
  induction l as [|x t IH]; simpl; intros H; auto.
  rewrite (H x (or_introl eq_refl)). apply IH. intros; apply H; auto.
Qed.

Lemma sumf_filter_le {A} (f : A -> nat) (p : A -> bool) l : sumf f (filter p l) <= sumf f l.
Proof. induction l as [|x t IH]; simpl; auto. destruct (p x); simpl; lia. Qed.

Lemma bbox_loop_terminates G w : weighted G w -> (forall v, 1 <= w v) ->
  forall m todo, sumf w todo < m -> forall f, m <= f -> bbox_loop f G todo = Some tt.
Proof.
  intros W W1. induction m as [|m IH]; intros todo H f Hf; [lia|].
  destruct f as [|f]; [lia|]. destruct todo as [|v t]; [reflexivity|].
  simpl. apply IH; [|lia].
  rewrite sumf_app, sumf_rev.
  pose proof (sumf_filter_le w (fun c => is_composite (get G c)) (succs G v)).
  specialize (W v). simpl in H. lia.
Qed.

(* the work list of the repaired bbox_of_composite empties within walk_bound G pops *)
Theorem bbox_terminates_on_acyclic G v : closed G -> acyclic G ->
  forall f, walk_bound G < f -> bbox f G v = Some tt.
Proof.
  intros C A f Hf. destruct (weight_exists G C A) as [w [W [Wb W1]]].
  unfold bbox. apply bbox_loop_terminates with (w := w) (m := S (w v)); auto.
  - simpl. lia.
  - specialize (Wb v). lia.
Qed.

(* =============================================== update_composite_limits *)
Lemma lim_loop_total G : forall k pending d, length pending <= k ->
  exists b, forall f, k + 1 <= f -> lim_loop f G pending d = Some b.
Proof.
  induction k as [|k IH]; intros pending d H.
  - destruct pending; [|simpl in H; lia].
    exists true. intros f Hf. destruct f; [lia|]. reflexivity.
  - destruct pending as [|p0 pt].
    + exists true. intros f Hf. destruct f; [lia|]. reflexivity.
    + destruct (ds_pass G (p0 :: pt) d) as [p' d'] eqn:Ep.
      destruct (length p' <? length (p0 :: pt)) eqn:El.
      * apply Nat.ltb_lt in El. destruct (IH p' d') as [b Hb]; [lia|].
        exists b. intros f Hf. destruct f; [lia|].
        change (lim_loop (S f) G (p0 :: pt) d) with
          (let '(p', d') := ds_pass G (p0 :: pt) d in
           if length p' <? length (p0 :: pt) then lim_loop f G p' d' else Some false).
        rewrite Ep. apply Nat.ltb_lt in El. rewrite El. apply Hb; lia.
      * exists false. intros f Hf. destruct f; [lia|].
        change (lim_loop (S f) G (p0 :: pt) d) with
          (let '(p', d') := ds_pass G (p0 :: pt) d in
           if length p' <? length (p0 :: pt) then lim_loop f G p' d' else Some false).
        rewrite Ep, El. reflexivity.
Qed.

(* the progress assertion can fire, but the loop always ends: total on EVERY graph *)
Theorem limits_total G : exists b, forall f, length G + 1 <= f -> limits f G = Some b.
Proof.
  destruct (lim_loop_total G (length G) (filter (fun v => g_export (get G v)) (ds_indet0 G))
              (ds_depths0 G)) as [b H].
  { etransitivity; [apply filter_len_le|].
    pose proof (filter_len_le (fun v => is_composite (get G v)) (ids G)) as Hl.
    unfold ds_indet0. unfold ids in Hl at 2. rewrite seq_length in Hl. auto. }
  exists b. auto.
Qed.

(* what a pass does to the glyphs it was given, and to the depths *)
Lemma ds_pass_sub G l : forall d v, In v (fst (ds_pass G l d)) -> In v l.
Proof.
  induction l as [|x t IH]; simpl; intros d v H; auto.
  destruct (max_depth d (succs G x) 0).
  - right. eapply IH; eauto.
  - destruct (ds_pass G t d) as [r d'] eqn:E. simpl in H. destruct H as [<-|H]; auto.
    right. apply (IH d). rewrite E. auto.
Qed.

Lemma ds_pass_len G l : forall d, length (snd (ds_pass G l d)) = length d.
Proof.
  induction l as [|x t IH]; simpl; intros d; auto.
  destruct (max_depth d (succs G x) 0).
  - rewrite IH, length_set_nth. auto.
  - specialize (IH d). destruct (ds_pass G t d); auto.
Qed.

Lemma ds_pass_keeps G l : forall d v k, dget d v = Some k ->
  exists k', dget (snd (ds_pass G l d)) v = Some k'.
Proof.
  induction l as [|x t IH]; simpl; intros d v k H; [eauto|].
  destruct (max_depth d (succs G x) 0).
  - destruct (Nat.eq_dec x v) as [<-|Hne].
    + apply (IH _ x (S n)). apply dget_set_eq.
      destruct (Nat.lt_ge_cases x (length d)); auto. rewrite dget_out in H by auto. discriminate.
    + apply (IH _ v k). rewrite dget_set_neq; auto.
  - specialize (IH d v k H). destruct (ds_pass G t d); auto.
Qed.

Lemma ds_pass_done G l : forall d v, In v l -> v < length d ->
  In v (fst (ds_pass G l d)) \/ exists k, dget (snd (ds_pass G l d)) v = Some k.
Proof.
  induction l as [|x t IH]; simpl; intros d v H Hv; [tauto|].
  destruct (max_depth d (succs G x) 0) eqn:E.
  - destruct H as [->|H].
    + right. apply (ds_pass_keeps G t _ v (S n)). apply dget_set_eq; auto.
    + apply IH; auto. rewrite length_set_nth; auto.
  - destruct H as [->|H].
    + left. destruct (ds_pass G t d); simpl; auto.
    + specialize (IH d v H Hv). destruct (ds_pass G t d); simpl in *. tauto.
Qed.

(* exported glyphs only refer to exported glyphs (established by create_composite) *)
Definition exports_closed (G : store) : Prop :=
  forall v c, g_export (get G v) = true -> In c (succs G v) -> g_export (get G c) = true.

Lemma lim_loop_ok G r : closed G -> ranked G r -> exports_closed G ->
  forall k pending d, length pending <= k -> length d = length G ->
  (forall v, In v pending -> g_export (get G v) = true) ->
  (forall v, v < length G -> g_export (get G v) = true -> dget d v = None -> In v pending) ->
  forall f, k + 1 <= f -> lim_loop f G pending d = Some true.
Proof.
  intros C R X. induction k as [|k IH]; intros pending d H Hd Ha Hb f Hf.
  - destruct pending; [|simpl in H; lia]. destruct f; [lia|]. reflexivity.
  - destruct f as [|f]; [lia|]. destruct pending as [|p0 pt]; [reflexivity|].
    change (lim_loop (S f) G (p0 :: pt) d) with
      (let '(p', d') := ds_pass G (p0 :: pt) d in
       if length p' <? length (p0 :: pt) then lim_loop f G p' d' else Some false).
    destruct (ds_pass G (p0 :: pt) d) as [p' d'] eqn:Ep.
    pose proof (ds_pass_length G (p0 :: pt) d) as Hl. rewrite Ep in Hl. simpl fst in Hl.
    destruct (Nat.eq_dec (length p') (length (p0 :: pt))) as [He|Hne].
    + exfalso. destruct (ds_pass_stuck G (p0 :: pt) d) as [_ Hst]; [rewrite Ep; auto|].
      destruct (exists_min r (p0 :: pt)) as [m [Hm Hmin]]; [congruence|].
      destruct (max_depth_none _ _ _ (Hst m Hm)) as [c [Hc Hdc]].
      assert (Hcl : c < length G) by (eapply C; eauto).
      assert (Hce : g_export (get G c) = true) by (eapply X; eauto).
      specialize (Hmin c (Hb c Hcl Hce Hdc)). specialize (R m c Hc). lia.
    + assert (El : (length p' <? length (p0 :: pt)) = true) by (apply Nat.ltb_lt; lia).
      rewrite El. apply IH; try lia.
      * pose proof (ds_pass_len G (p0 :: pt) d) as Hlen. rewrite Ep in Hlen. simpl in Hlen. lia.
      * intros v Hv. apply Ha. apply (ds_pass_sub G (p0 :: pt) d). rewrite Ep. auto.
      * intros v Hv He Hn.
        assert (Hold : dget d v = None).
        { destruct (dget d v) eqn:E; auto.
          destruct (ds_pass_keeps G (p0 :: pt) d v n E) as [k' Hk']. rewrite Ep in Hk'.
          simpl in Hk'. congruence. }
        destruct (ds_pass_done G (p0 :: pt) d v (Hb v Hv He Hold)) as [Hin|[k' Hk']]; [lia| |];
          rewrite Ep in *; simpl in *; [auto | congruence].
Qed.

Theorem limits_ok_on_acyclic G : closed G -> acyclic G -> exports_closed G ->
  forall f, length G + 1 <= f -> limits f G = Some true.
Proof.
  intros C [r R] X f Hf. unfold limits.
  apply lim_loop_ok with (r := r) (k := length G); auto.
  - etransitivity; [apply filter_len_le|].
    pose proof (filter_len_le (fun v => is_composite (get G v)) (ids G)) as Hl.
    unfold ds_indet0. unfold ids in Hl at 2. rewrite seq_length in Hl. auto.
  - unfold ds_depths0. apply map_length.
  - intros v Hv. apply filter_In in Hv. tauto.
  - intros v Hv He Hn. apply filter_In. split; auto.
    apply (dsi_none _ _ _ (ds_inv0 G)); auto.
Qed.

(* =============================================== divergence on the 2-cycle *)
(* bbox_of_composite: the work list never empties (before the repair: every recursion depth
   is exhausted = the stack overflows) *)
Theorem bbox_diverges_on_two_cycle : forall d, bbox d two_cycle 0 = None /\ bbox d two_cycle 1 = None.
Proof.
  unfold bbox. induction d as [|d [IH0 IH1]]; [split; reflexivity|].
  split; simpl; [exact IH1 | exact IH0].
Qed.

Theorem bbox_rec_diverges_on_two_cycle :
  forall d, bbox_rec d two_cycle 0 = None /\ bbox_rec d two_cycle 1 = None.
Proof.
  induction d as [|d [IH0 IH1]]; [split; reflexivity|].
  split; simpl; [rewrite IH1 | rewrite IH0]; reflexivity.
Qed.

(* inner walk of resolve_inconsistencies, nothing pending on the cycle *)
Theorem reach_diverges_on_two_cycle :
  forall f, reach f two_cycle [] [0] = None /\ reach f two_cycle [] [1] = None.
Proof.
  induction f as [|f [IH0 IH1]]; [split; reflexivity|].
  split; simpl; [exact IH1 | exact IH0].
Qed.

(* flatten_glyph *)
Lemma flatten_loop_diverges_two_cycle : forall f dx dy simple,
  flatten_loop f two_cycle [mkComp 0 dx dy] simple = None /\
  flatten_loop f two_cycle [mkComp 1 dx dy] simple = None.
Proof.
  induction f as [|f IH]; intros dx dy simple; [split; reflexivity|].
  split; simpl; unfold shift; simpl; apply IH.
Qed.
Theorem flatten_glyph_diverges_on_two_cycle : forall f, flatten_glyph f two_cycle 0 = None.
Proof.
  intros f. unfold flatten_glyph. simpl.
  destruct (flatten_loop_diverges_two_cycle f 0 0 []) as [_ H]. rewrite H. reflexivity.
Qed.

(* convert_components_to_contours: a cycle whose translations add up to (1, 0) per step.
   Every key met has a larger dx than all visited ones, so the visited set never helps. *)
Definition drift_cycle : store :=
  [mkGlyph [mkComp 1 1 0] 0 true; mkGlyph [mkComp 0 1 0] 0 true].

Definition key_dx (k : key) : Z := match k with (_, dx, _, _) => dx end.

Lemma kmem_fresh k visited : (forall x, In x visited -> (key_dx x < key_dx k)%Z) ->
  kmem k visited = false.
Proof.
  induction visited as [|x t IH]; simpl; intros H; auto.
  rewrite IH by (intros; apply H; auto).
  specialize (H x (or_introl eq_refl)).
  destruct x as [[[b1 x1] y1] i1], k as [[[b2 x2] y2] i2]. simpl in *.
  assert ((x1 =? x2)%Z = false) by (apply Z.eqb_neq; lia).
  rewrite H0. rewrite andb_false_r. reflexivity.
Qed.

Lemma convert_loop_diverges_drift : forall f b dx acc visited,
  b < 2 -> (forall x, In x visited -> (key_dx x < dx)%Z) ->
  convert_loop f drift_cycle visited [(b, dx, 0%Z, 0)] acc = None.
Proof.
  induction f as [|f IH]; intros b dx acc visited Hb Hv; [reflexivity|].
  simpl. rewrite kmem_fresh by (simpl; auto).
  destruct b as [|[|b]]; try lia; simpl.
  - apply IH; [cbn; lia|]. intros x [<-|Hx]; cbn; [lia|]. specialize (Hv x Hx). lia.
  - apply IH; [cbn; lia|]. intros x [<-|Hx]; cbn; [lia|]. specialize (Hv x Hx). lia.
Qed.

Theorem convert_diverges_on_drifting_cycle : forall f,
  convert f drift_cycle 0 (get drift_cycle 0) = None.
Proof.
  intros f. unfold convert. destruct (collect_nested f drift_cycle (get drift_cycle 0)); auto.
  change (comp_keys (get drift_cycle 0) 0 0) with [(1, 1%Z, 0%Z, 0)].
  rewrite convert_loop_diverges_drift; auto. intros x [].
Qed.

(* ... while on the same cycle WITHOUT drift the visited set stops it (ok + font) *)
Example convert_terminates_on_identity_cycle :
  convert 10 two_cycle 0 (get two_cycle 0) =
  Some [mkGlyph [] 0 true; mkGlyph [mkComp 0 0 0] 0 true].
Proof. reflexivity. Qed.

(* resolve_inconsistencies: a mixed glyph on a cycle is re-queued for ever *)
Definition mixed_cycle : store :=
  [mkGlyph [mkComp 1 0 0] 1 true; mkGlyph [mkComp 0 0 0] 0 true].
Definition mixed_cycle_todo : list todo_item := [mkTodo OpConvert 0 (get mixed_cycle 0)].

Theorem resolve_livelock_on_mixed_cycle : forall F f,
  resolve F f mixed_cycle [0] mixed_cycle_todo = None.
Proof.
  intros F f. destruct F as [|[|F]].
  - destruct f; reflexivity.
  - destruct f; reflexivity.
  - induction f as [|f IH]; [reflexivity|]. exact IH.
Qed.
