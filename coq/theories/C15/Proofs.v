(* C15 -- lemmas.  The development is split over
     Basics.v     lists, ranks, rank compression, walk weights
     DepthSort.v  the progress loop of depth_sorted_composite_glyphs / the repaired entry check
     Cycles.v     rank function exists <-> no cycle; the check rejects exactly the cyclic graphs
     Walks.v      each walk: termination bounds, divergence on the 2-cycle
     Depth.v      the repaired defect: recursion depth of the former bbox_of_composite = nesting depth
     Resolve.v    pipeline invariant, re-queue loop of resolve_inconsistencies
     Pipeline.v   GlyphOrderWork::exec + back end as a whole
   This file re-exports them and packages the statements used by Props.v. *)
From Coq Require Import List Arith ZArith Bool Lia.
From FV.C15 Require Export Model Basics DepthSort Cycles Walks Depth Resolve Pipeline.
Import ListNotations.

(* the entry check decides acyclicity (no missing references, enough fuel) *)
Lemma cycle_check_decides G f : closed G -> length G + 2 <= f ->
  (cycle_check f G = Some true <-> acyclic G) /\
  (cycle_check f G = Some false <-> ~ acyclic G).
Proof.
  intros C Hf. destruct (cycle_check_total G) as [b Hb]. specialize (Hb f Hf).
  split; split.
  - apply cycle_check_true_acyclic.
  - intros A. rewrite Hb. f_equal. eapply cycle_check_acyclic_true; eauto.
  - intros H A. rewrite (cycle_check_acyclic_true G f b C A Hb) in Hb. congruence.
  - intros NA. rewrite Hb. destruct b; auto. exfalso. apply NA.
    eapply cycle_check_true_acyclic; eauto.
Qed.

(* the repair is invisible exactly on the inputs without a component cycle *)
Lemma no_cycle_exec_total fl G : ~ has_cycle (prune G) ->
  exists F o, (forall f, F <= f -> exec false fl f G = o /\ exec true fl f G = o) /\ o <> MDiverge.
Proof.
  intros NC. apply acyclic_exec_total. apply acyclic_iff_no_cycle; auto. apply prune_closed.
Qed.

(* resolve_inconsistencies with plain hypotheses: any set of distinct glyphs to fix,
   snapshots taken from the current store *)
Definition todo_of (G : store) (ops : list (op * nat)) : list todo_item :=
  map (fun ov => mkTodo (fst ov) (snd ov) (get G (snd ov))) ops.

Lemma resolve_terminates_plain G ops : closed G -> acyclic G ->
  NoDup (map snd ops) -> (forall ov, In ov ops -> snd ov < length G) ->
  exists G', (forall F f, res_fuel (S (maxdeg G)) (length G + length ops) <= F ->
                   length ops * length ops + length ops + 1 <= f ->
                   resolve F f G (map t_id (todo_of G ops)) (todo_of G ops) = Some G') /\
             closed G' /\ acyclic G'.
Proof.
  intros C A ND Hr. destruct (inv_init G C A) as [r I].
  destruct (resolve_terminates r (length G) G (todo_of G ops) (S (maxdeg G))) as [G' [H I']]; auto.
  - intros it Hin. unfold todo_of in Hin. apply in_map_iff in Hin as [ov [<- Hov]].
    split; simpl; [apply Hr; auto|]. intros c Hc. split.
    + apply (inv_ranked _ _ _ I (snd ov) c Hc).
    + apply (C (snd ov) c Hc).
  - unfold todo_of. rewrite map_map. simpl. auto.
  - intros it Hin. unfold todo_of in Hin. apply in_map_iff in Hin as [ov [<- Hov]]. simpl.
    pose proof (comps_le_maxdeg G (snd ov)). lia.
  - exists G'. split; [|split; [apply (inv_closed _ _ _ I') | eapply inv_acyclic; eauto]].
    intros F f HF Hf. apply H; auto; unfold todo_of; rewrite map_length; auto.
Qed.

(* packaged witnesses for the `..._refuted` statements *)
Lemma reach_diverges_witness : exists G stack, forall f, reach f G [] stack = None.
Proof. exists two_cycle, [0]. intros f. apply (reach_diverges_on_two_cycle f). Qed.

Lemma bbox_diverges_witness : exists G v, forall d, bbox d G v = None.
Proof. exists two_cycle, 0. intros d. apply (bbox_diverges_on_two_cycle d). Qed.

Lemma flatten_diverges_witness : exists G v, forall f, flatten_glyph f G v = None.
Proof. exists two_cycle, 0. apply flatten_glyph_diverges_on_two_cycle. Qed.

Lemma convert_diverges_witness : exists G v, forall f, convert f G v (get G v) = None.
Proof. exists drift_cycle, 0. apply convert_diverges_on_drifting_cycle. Qed.

Lemma resolve_livelock_witness :
  exists G ops, NoDup (map snd ops) /\ (forall ov, In ov ops -> snd ov < length G) /\
    forall F f, resolve F f G (map t_id (todo_of G ops)) (todo_of G ops) = None.
Proof.
  exists mixed_cycle, [(OpConvert, 0)]. split; [|split].
  - repeat constructor. simpl. tauto.
  - intros ov [<-|[]]. simpl. lia.
  - apply resolve_livelock_on_mixed_cycle.
Qed.

Lemma unfixed_exec_diverges_witness :
  (forall f, exec false default_flags f two_cycle = MDiverge) /\
  (forall f, exec false (mkFlags true true false) f two_cycle = MDiverge) /\
  (forall f, exec false default_flags f mixed_cycle = MDiverge).
Proof.
  split; [|split].
  - apply unfixed_exec_diverges_on_two_cycle.
  - apply unfixed_exec_diverges_with_flatten.
  - apply unfixed_exec_diverges_on_mixed_cycle.
Qed.

(* ---------------------------------------------------------------- examples *)
(* an acyclic store with nesting, a shared base, a non-exported and a mixed glyph *)
Definition ex_dag : store :=
  [ mkGlyph [] 1 true;                                    (* 0 simple *)
    mkGlyph [mkComp 0 0 0] 0 false;                       (* 1 -> 0, not exported *)
    mkGlyph [mkComp 1 10 0; mkComp 0 0 0] 0 true;         (* 2 -> 1, 0 *)
    mkGlyph [mkComp 2 0 25] 1 true ].                     (* 3 -> 2, mixed *)

Lemma ex_dag_closed : closed ex_dag.
Proof.
  intros v c H. destruct v as [|[|[|[|[|v]]]]]; cbn in H; cbn; intuition lia.
Qed.
Lemma ex_dag_acyclic : acyclic ex_dag.
Proof.
  exists (fun v => v). intros v c H.
  destruct v as [|[|[|[|[|v]]]]]; cbn in H; intuition lia.
Qed.
Lemma two_cycle_has_cycle : has_cycle (prune two_cycle).
Proof.
  exists 0. apply path_step with (c := 1); [cbn; auto|]. apply path_one. cbn; auto.
Qed.
Lemma two_cycle_closed : closed two_cycle.
Proof. intros v c H. destruct v as [|[|[|v]]]; cbn in H; cbn; intuition lia. Qed.
